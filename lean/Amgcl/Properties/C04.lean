import Amgcl.Model.SmoothedAggregation
namespace Amgcl.C04
end Amgcl.C04
