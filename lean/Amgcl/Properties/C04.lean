import Amgcl.Proofs.Transfer
import Amgcl.Proofs.PointwiseLift
import Amgcl.Proofs.CoarseningChecks
import Mathlib.Algebra.Order.Ring.Defs
/-!
# C04 — interpolation is exact on the near-null space; aggregates partition the grid

Only property theorems live here (helpers: `Amgcl/Proofs/{PlainAggregates,Renumber,AggrCount,AggrGraph,…}.lean`).
Models: `Amgcl/Model/{PlainAggregates,PointwiseMatrix,PointwiseAggregates,TentativeProlongation,Aggregation,
SmoothedAggregation}.lean`, tied to /repo by `harness/h_coarsening.cpp`.
-/
namespace Amgcl.C04
open Amgcl Amgcl.Coarsening

/-! ## Aggregates partition the grid -/

/-- **Partition**, for every sparsity pattern and *every* strength-flag array (`G` = per row the stored
`(column, flag)` pairs): when `plain_aggregates` returns (does not throw `empty_level`),
* a row without a flagged entry gets `removed = -2` (it belongs to no aggregate),
* a row with a flagged entry gets exactly one aggregate number `id i ∈ [0, count)`,
* every number `0 … count-1` is used (aggregates are non-empty, the numbering is contiguous). -/
theorem aggregates_partition (G : SGraph) (count : Nat) (id : Array Int)
    (h : aggregatesOfGraph G = .ok (count, id)) :
    id.size = G.size ∧
    (∀ i, i < G.size →
      (G.hasStrong i = false → id.getD i 0 = -2) ∧
      (G.hasStrong i = true → 0 ≤ id.getD i 0 ∧ id.getD i 0 < (count : Int))) ∧
    (∀ a, a < count → ∃ i, i < G.size ∧ id.getD i 0 = (a : Int)) := by
  exact aggregates_partition_graph G count id h

-- non-vacuity: a path 0-1-2-3 plus node 4 without strong entry (two aggregates, node 4 removed) …
example : aggregatesOfGraph #[[(0,false),(1,true)],[(0,true),(1,false),(2,true)],[(1,true),(2,false),(3,true)],
    [(2,true),(3,false)],[(4,false),(0,false)]] = .ok (2, #[0,0,1,1,-2]) := by decide +kernel
-- … and a non-symmetric flag array on which the first aggregate vanishes (seed 0 and its neighbour are claimed by
-- seed 2), so that the renumbering branch runs: before it `(count, id) = (2, [1,1,1])`
example : aggregateIds #[[(1,true)],[(0,true)],[(0,true),(1,true)]] = (2, #[1,1,1]) ∧
    aggregatesOfGraph #[[(1,true)],[(0,true)],[(0,true),(1,true)]] = .ok (1, #[0,0,0]) := by decide +kernel

/-- the only other outcome is `empty_level`, thrown exactly when no row has a flagged entry -/
theorem aggregates_empty_level_iff (G : SGraph) :
    aggregatesOfGraph G = .emptyLevel ↔ ∀ i, i < G.size → G.hasStrong i = false :=
  aggregatesOfGraph_emptyLevel_iff G

example : aggregatesOfGraph #[[(0,false),(1,false)],[(1,false)]] = .emptyLevel := by decide +kernel

/-- **Coarsening strictly reduces the size** (termination argument of the hierarchy build): if no diagonal entry
is flagged strong — which `strongConnections` guarantees through its `c != i` — the number of aggregates is
smaller than the number of rows. -/
theorem count_lt_n_graph (G : SGraph) (hwf : G.WF) (hod : G.OffDiag) (count : Nat) (id : Array Int)
    (h : aggregatesOfGraph G = .ok (count, id)) : count < G.size :=
  count_lt_size G hwf hod count id h

-- non-vacuity: the strength graph of a matrix satisfies both hypotheses
example : (zipGraph (⟨3, #[[(0,2),(1,-1)],[(0,-1),(1,2),(2,-1)],[(1,-1),(2,2)]]⟩ : CRS Int)
      (strongConnections 0 ⟨3, #[[(0,2),(1,-1)],[(0,-1),(1,2),(2,-1)],[(1,-1),(2,2)]]⟩)).WF ∧
    (zipGraph (⟨3, #[[(0,2),(1,-1)],[(0,-1),(1,2),(2,-1)],[(1,-1),(2,2)]]⟩ : CRS Int)
      (strongConnections 0 ⟨3, #[[(0,2),(1,-1)],[(0,-1),(1,2),(2,-1)],[(1,-1),(2,2)]]⟩)).OffDiag :=
  ⟨zipGraph_wf _ (by decide) rfl _, strongGraph_offDiag _ _⟩

section matrix
variable {K : Type} [Mul K] [Zero K] [LT K] [DecidableLT K]

/-- what `plain_aggregates` does for a matrix: the flags are `(c ≠ i) ∧ epsSq·a_ii·a_cc < a_ic²` entry by entry
(in exactly this form: `strongFlag epsSq A i cv = decide (cv.1 ≠ i) && decide (epsSq * a_ii * a_cc < cv.2 * cv.2)`
with `a_ii = (diagonal A)[i]`), and `(count, id)` partition the rows as in `aggregates_partition`. -/
theorem plain_aggregates_partition (epsSq : K) (A : CRS K) (agg : Aggregates)
    (h : plainAggregates epsSq A = .ok agg) :
    agg.strong = strongConnections epsSq A ∧
    (∀ i, i < A.nrows → agg.strong.getD i [] = (A.row i).map (strongFlag epsSq A i)) ∧
    agg.id.size = A.nrows ∧
    (∀ i, i < A.nrows →
      ((agg.strong.getD i []).any id = false → agg.id.getD i 0 = -2) ∧
      ((agg.strong.getD i []).any id = true → 0 ≤ agg.id.getD i 0 ∧ agg.id.getD i 0 < (agg.count : Int))) ∧
    (∀ a, a < agg.count → ∃ i, i < A.nrows ∧ agg.id.getD i 0 = (a : Int)) := by
  exact plainAggregates_spec epsSq A agg h

/-- `count < n` for every square well-formed matrix and every `eps_strong` -/
theorem count_lt_n (epsSq : K) (A : CRS K) (hA : A.WF) (hsq : A.ncols = A.nrows) (agg : Aggregates)
    (h : plainAggregates epsSq A = .ok agg) : agg.count < A.nrows := by
  exact plainAggregates_count_lt epsSq A hA hsq agg h

end matrix

-- non-vacuity (1D Laplacian, n = 3, `eps_squared = 0`): one aggregate
example : plainAggregates (0 : Int) ⟨3, #[[(0,2),(1,-1)],[(0,-1),(1,2),(2,-1)],[(1,-1),(2,2)]]⟩ =
    .ok ⟨1, #[[false,true],[true,false,true],[true,false]], #[0,0,0]⟩ := by decide +kernel
-- a row with only positive off-diagonal entries and a weak connection (`eps_squared = 1/4`, a_02² = 1 ≤ 1/4·2·4)
example : plainAggregates (1/4 : ℚ) ⟨3, #[[(0,2),(1,2),(2,1)],[(0,2),(1,2)],[(0,1),(2,4)]]⟩ =
    .ok ⟨1, #[[false,true,false],[true,false],[false,false]], #[0,0,-2]⟩ ∧
    (⟨3, #[[(0,2),(1,2),(2,1)],[(0,2),(1,2)],[(0,1),(2,4)]]⟩ : CRS ℚ).WF := by decide +kernel

/-! ## Tentative prolongation (no near-null space supplied: the constant vector) -/

section ptent
open Finset
variable {K : Type} [Semiring K]

/-- **`P_tent` columns**: `P_tent` is `n × naggr`; row `i` holds the single entry `(id i, 1)` when `id i ≥ 0` and is
empty otherwise, for *every* id array.  Hence the columns have pairwise disjoint supports, `P_tentᵀ P_tent` is
diagonal, and `P_tent · 1` is the indicator vector of the aggregated rows (`P_tent` reproduces the constant vector
exactly on aggregated rows). -/
theorem ptent_columns (n naggr : Nat) (id : Array Int) :
    (tentativeProlongation n naggr id : CRS K).nrows = n ∧
    (tentativeProlongation n naggr id : CRS K).ncols = naggr ∧
    (∀ i, i < n → (tentativeProlongation n naggr id : CRS K).row i =
        if id.getD i aggrRemoved ≥ 0 then [((id.getD i aggrRemoved).toNat, (1 : K))] else []) ∧
    (∀ i c, (tentativeProlongation n naggr id : CRS K).get i c =
        if i < n ∧ id.getD i aggrRemoved = (c : Int) then 1 else 0) ∧
    (∀ i c c', c ≠ c' → (tentativeProlongation n naggr id : CRS K).get i c = 0 ∨
        (tentativeProlongation n naggr id : CRS K).get i c' = 0) ∧
    (∀ c c', c ≠ c' → ∑ i ∈ range n, (tentativeProlongation n naggr id : CRS K).get i c *
        (tentativeProlongation n naggr id : CRS K).get i c' = 0) ∧
    (∀ i, i < n → id.getD i aggrRemoved < (naggr : Int) →
        ∑ c ∈ range naggr, (tentativeProlongation n naggr id : CRS K).get i c =
          if id.getD i aggrRemoved ≥ 0 then 1 else 0) := by
  have hdis : ∀ i c c', c ≠ c' → (tentativeProlongation n naggr id : CRS K).get i c = 0 ∨
      (tentativeProlongation n naggr id : CRS K).get i c' = 0 := by
    intro i c c' hne
    rw [ptent_get, ptent_get]
    by_cases h : i < n ∧ id.getD i aggrRemoved = (c : Int)
    · right; rw [if_neg]; rintro ⟨_, h'⟩; exact hne (by have := h.2; omega)
    · left; rw [if_neg h]
  refine ⟨ptent_nrows n naggr id, rfl, fun i hi => ptent_row n naggr id i hi, fun i c => ptent_get n naggr id i c,
    hdis, fun c c' hne => ?_, fun i hi hlt => ?_⟩
  · apply sum_eq_zero
    intro i _
    rcases hdis i c c' hne with h | h <;> rw [h] <;> simp
  · exact ptent_rowsum n naggr id i hi hlt

end ptent

example : (tentativeProlongation 4 2 #[1,-2,0,1] : CRS Int).rows = #[[(1,1)],[],[(0,1)],[(1,1)]] := by decide +kernel

/-! ## Smoothed aggregation -/

section smoothed
variable {K : Type} [Field K] [DecidableEq K]

/-- **`P = (I − ω D_F⁻¹ A_F) · P_tent`, row by row**, for every matrix, every flag array `S` and every well-formed
`P_tent`: entry `(i, c)` of the returned `P` is the sum over the stored entries `(j, a_ij)` of row `i` of
`m_ij · P_tent[j, c]` with
* `m_ij = 1 − ω` for a diagonal entry (`(I − ω D_F⁻¹ A_F)_ii = 1 − ω` because `D_F = diag A_F`),
* `m_ij = −ω · a_ij / d_i` for a strong off-diagonal entry, where `d_i` is the filtered diagonal **as the code
  computes it** — `a_ii` plus the *weak* entries of the row (second conjunct) —
  and, explicitly, `m_ij = 0` when `d_i = 0` (the `if (!math::is_zero(dia))` guard of l.202),
* `m_ij = 0` for a weak off-diagonal entry;
and `P` has the shape of `P_tent`.  The marker array inherited from earlier rows has no influence. -/
theorem smoothed_eq_formula (omega : K) (A : CRS K) (S : Array (List Bool)) (Pt : CRS K) (hPt : Pt.WF)
    (i : Nat) (hi : i < A.nrows) (c : Nat) :
    (smoothProlongation omega A S Pt).get i c =
      (((A.row i).zip (S.getD i [])).map (fun cs =>
        (if cs.1.1 = i then 1 - omega
         else if cs.2 = true then
           (if filteredDia i (A.row i) (S.getD i []) = 0 then 0
            else -omega / filteredDia i (A.row i) (S.getD i [])) * cs.1.2
         else 0) * Pt.get cs.1.1 c)).sum ∧
    filteredDia i (A.row i) (S.getD i []) =
      (((A.row i).zip (S.getD i [])).map (fun cs => if cs.1.1 = i ∨ cs.2 = false then cs.1.2 else 0)).sum ∧
    (smoothProlongation omega A S Pt).nrows = A.nrows ∧ (smoothProlongation omega A S Pt).ncols = Pt.ncols := by
  refine ⟨?_, filteredDia_eq_sum _ _ _, smoothProlongation_shape omega A S Pt hPt⟩
  rw [smoothProlongation_get omega A S Pt hPt i hi c]
  congr 1
  apply List.map_congr_left
  intro cs _
  unfold saCoef scaledDia
  generalize filteredDia i (A.row i) (S.getD i []) = dia
  congr 1
  by_cases h1 : cs.1.1 = i
  · rw [if_pos h1, if_pos h1]
  · rw [if_neg h1, if_neg h1]
    by_cases h2 : cs.2 = true
    · rw [if_pos h2, if_pos h2]
      by_cases hd : dia = 0
      · rw [if_pos hd, if_pos hd, hd]
      · rw [if_neg hd, if_neg hd]; congr 1; field_simp
    · rw [if_neg h2, if_neg h2]

/-- what `smoothed_aggregation::transfer_operators` returns is that smoothing applied to the aggregates' flags and
their tentative prolongation, with `ω = relax · omegaScale` (`omegaScale` = the `double` constant `2.0/3`) unless the
spectral radius is estimated, in which case `ω = relax · (omegaScale / ρ)` with the scaled Gershgorin bound `ρ`
(`omegaScale` = the `double` constant `4.0/3`). -/
theorem sa_transfer_eq [LT K] [DecidableLT K] (norm : K → K) (prm : SAParams K) (A : CRS K) (T : Transfer K)
    (h : smoothedAggregationTransfer norm prm A = .ok T) :
    ∃ aggr, pointwiseAggregates norm prm.epsSq prm.blockSize prm.minAggregate A = .ok aggr ∧
      T.P = smoothProlongation (saOmega norm prm A) A aggr.strong
        (tentativeProlongation A.nrows aggr.count aggr.id) ∧
      (prm.estimateSpectralRadius = false → saOmega norm prm A = prm.relax * prm.omegaScale) ∧
      (prm.estimateSpectralRadius = true →
        saOmega norm prm A = prm.relax * (prm.omegaScale / gershgorinScaled norm A)) := by
  obtain ⟨aggr, h1, h2⟩ := smoothedAggregationTransfer_ok norm prm A T h
  refine ⟨aggr, h1, h2, fun he => ?_, fun he => ?_⟩ <;> simp [saOmega, he]

/-- **Row sum one.**  `A` symmetric as stored (every stored `(i,j,v)` has its mirror `(j,i,v)`), square and well
formed; row `i` has exactly one stored diagonal entry, zero row sum, a strong neighbour, and a non-zero filtered
diagonal (otherwise `D_F⁻¹` does not exist and the code's guard makes the row `(1−ω)·P_tent[i,:]`).  Then row `i`
of the smoothed prolongation built on the plain aggregates sums to one — for every `ω`, every `eps_strong`, and
every order relation `<` used in the strength test. -/
theorem sa_rowsum_one [LT K] [DecidableLT K] (epsSq omega : K) (A : CRS K) (hA : A.WF) (hsq : A.ncols = A.nrows)
    (hsym : SymmStored A) (agg : Aggregates) (h : plainAggregates epsSq A = .ok agg)
    (i : Nat) (hi : i < A.nrows)
    (hdiag1 : (A.row i).countP (fun cv => cv.1 == i) = 1)
    (hrs : ((A.row i).map (·.2)).sum = 0)
    (hstrong : (agg.strong.getD i []).any id = true)
    (hdia : filteredDia i (A.row i) (agg.strong.getD i []) ≠ 0) :
    ∑ c ∈ Finset.range agg.count,
      (smoothProlongation omega A agg.strong (tentativeProlongation A.nrows agg.count agg.id)).get i c = 1 :=
  sa_rowsum_one_aux epsSq omega A hA hsq hsym agg h i hi hdiag1 hrs hstrong hdia

end smoothed

-- non-vacuity of `smoothed_eq_formula` / `sa_transfer_eq`: a well-formed `P_tent`, a successful transfer
example : (tentativeProlongation 3 1 #[0,0,0] : CRS ℚ).WF := by decide +kernel
example : pointwiseAggregates (fun x : ℚ => if x < 0 then -x else x) (1/100) 1 0
    ⟨3, #[[(0,1),(1,-1)],[(0,-1),(1,2),(2,-1)],[(1,-1),(2,1)]]⟩ =
    .ok ⟨1, #[[false,true],[true,false,true],[true,false]], #[0,0,0]⟩ := by decide +kernel
-- non-vacuity of `sa_rowsum_one` (Neumann 1D Laplacian, every row has zero sum; row 1): all hypotheses hold
example :
    let A : CRS ℚ := ⟨3, #[[(0,1),(1,-1)],[(0,-1),(1,2),(2,-1)],[(1,-1),(2,1)]]⟩
    let agg : Aggregates := ⟨1, #[[false,true],[true,false,true],[true,false]], #[0,0,0]⟩
    A.WF ∧ A.ncols = A.nrows ∧ symmStoredb A = true ∧ plainAggregates (1/100 : ℚ) A = .ok agg ∧
    (A.row 1).countP (fun cv => cv.1 == 1) = 1 ∧ ((A.row 1).map (·.2)).sum = 0 ∧
    (agg.strong.getD 1 []).any id = true ∧ filteredDia 1 (A.row 1) (agg.strong.getD 1 []) ≠ 0 := by
  decide +kernel

/-! ## Pointwise (block) aggregation -/

section pointwise
variable {K : Type} [Mul K] [Zero K] [LT K] [DecidableLT K]

/-- `block_size = 1` (and `min_aggregate ≤ 1`, i.e. at most one near-null-space vector): `pointwise_aggregates` *is*
`plain_aggregates`, so all theorems above apply to it. -/
theorem pointwise_block_one (norm : K → K) (epsSq : K) (m : Nat) (hm : m ≤ 1) (A : CRS K) :
    pointwiseAggregates norm epsSq 1 m A = plainAggregates epsSq A :=
  pointwise_block1 norm epsSq m hm A

/-- **The unknowns of one grid node travel together**, for every matrix (not only Kronecker products).  With
`block_size = b > 1` the result of `pointwise_aggregates` is the lift of the plain aggregates `pw` of the reduced
matrix `Ap = pointwise_matrix(A, b)`: `count = b · pw.count` and `id[ip·b + k] = b · pw.id[ip] + k` — so scalar
row `ip·b+k` is in aggregate `b·a + k` iff node `ip` is in node-aggregate `a`, a removed node has only negative
ids, and by `plain_aggregates_partition` applied to `Ap` the lifted aggregates partition the rows with a strong
node connection, non-empty and contiguously numbered. -/
theorem pointwise_nodes_travel_together (norm : K → K) (epsSq : K) (b m : Nat) (hb : b ≠ 1) (hm : m ≤ 1) (A : CRS K)
    (agg : Aggregates) (h : pointwiseAggregates norm epsSq b m A = .ok agg) :
    ∃ Ap pw, pointwiseMatrix norm A b = .ok Ap ∧ plainAggregates epsSq Ap = .ok pw ∧
      agg.count = pw.count * b ∧ agg.id.size = Ap.nrows * b ∧
      ∀ ia, ia < Ap.nrows * b →
        agg.id.getD ia 0 = (b : Int) * pw.id.getD (ia / b) 0 + ((ia % b : Nat) : Int) :=
  pointwise_blocks norm epsSq b m hb hm A agg h

omit [Mul K] in
/-- `pointwise_matrix(A ⊗ I_b, b)` is `A` with `math::norm` applied entrywise (same pattern), for every matrix with
sorted rows, every `b ≥ 1` and every irreflexive `<` (used by `std::max`). -/
theorem pointwise_matrix_kron (hirr : ∀ x : K, ¬ x < x) (norm : K → K) (A : CRS K) (b : Nat) (hb : 0 < b)
    (hs : A.sortedb = true) :
    pointwiseMatrix norm (kronI A b) b = .ok (mapVals norm A) :=
  pointwiseMatrix_kron hirr norm A b hb (sortedP_of_sortedb A hs)

/-- **Pointwise lift.**  Coarsening `A ⊗ I_b` with `block_size = b > 1` equals the lifted coarsening of `|A|`
(`A` with `math::norm` applied entrywise — the same matrix as far as `plain_aggregates` is concerned whenever the
diagonal entries have one sign): if `plain_aggregates(|A|)` returns `pw`, then `pointwise_aggregates(A ⊗ I_b, b)`
returns `count = b · pw.count`, `id[i·b+k] = b · pw.id[i] + k` and the strength flags of scalar row `i·b+k` are
those of node row `i`; if `plain_aggregates(|A|)` throws `empty_level`, so does `pointwise_aggregates(A ⊗ I_b, b)`.
For every matrix with sorted rows, every `eps_strong`, every `b > 1`. -/
theorem pointwise_lift (hirr : ∀ x : K, ¬ x < x) (norm : K → K) (epsSq : K) (b : Nat) (hb : 1 < b) (m : Nat)
    (hm : m ≤ 1) (A : CRS K) (hs : A.sortedb = true) :
    (∀ pw, plainAggregates epsSq (mapVals norm A) = .ok pw →
      ∃ agg, pointwiseAggregates norm epsSq b m (kronI A b) = .ok agg ∧
        agg.count = pw.count * b ∧ agg.id.size = A.nrows * b ∧ agg.strong.size = A.nrows * b ∧
        ∀ i k, i < A.nrows → k < b →
          agg.id.getD (i * b + k) 0 = (b : Int) * pw.id.getD i 0 + (k : Int) ∧
          agg.strong.getD (i * b + k) [] = pw.strong.getD i []) ∧
    (plainAggregates epsSq (mapVals norm A) = .emptyLevel →
      pointwiseAggregates norm epsSq b m (kronI A b) = .emptyLevel) :=
  ⟨fun pw hpw => pointwise_lift_ok hirr norm epsSq b hb m hm A (sortedP_of_sortedb A hs) pw hpw,
   fun hpw => pointwise_lift_empty hirr norm epsSq b hb m A (sortedP_of_sortedb A hs) hpw⟩

end pointwise

-- non-vacuity: (1D Laplacian, n = 3) ⊗ I₂ with block_size 2 — the lift of `[0,0,0]`
example : pointwiseAggregates (fun x : Int => if x < 0 then -x else x) 0 2 0
    ⟨6, #[[(0,2),(2,-1)],[(1,2),(3,-1)],[(0,-1),(2,2),(4,-1)],[(1,-1),(3,2),(5,-1)],[(2,-1),(4,2)],[(3,-1),(5,2)]]⟩ =
    .ok ⟨2, #[[false,true],[false,true],[true,false,true],[true,false,true],[true,false],[true,false]],
      #[0,1,0,1,0,1]⟩ := by decide +kernel
-- non-vacuity of `pointwise_lift`: the same matrix is `kronI A 2`, `A` has sorted rows, `<` on `Int` is irreflexive
example :
    let A : CRS Int := ⟨3, #[[(0,2),(1,-1)],[(0,-1),(1,2),(2,-1)],[(1,-1),(2,2)]]⟩
    A.sortedb = true ∧ (kronI A 2).rows = #[[(0,2),(2,-1)],[(1,2),(3,-1)],[(0,-1),(2,2),(4,-1)],
      [(1,-1),(3,2),(5,-1)],[(2,-1),(4,2)],[(3,-1),(5,2)]] ∧
    plainAggregates (0 : Int) (mapVals (fun x => if x < 0 then -x else x) A) =
      .ok ⟨1, #[[false,true],[true,false,true],[true,false]], #[0,0,0]⟩ ∧ (∀ x : Int, ¬ x < x) :=
  ⟨by decide +kernel, by decide +kernel, by decide +kernel, fun x => Int.lt_irrefl x⟩

/-! ## V-grade (verified checker) parts: Ruge–Stuben row sums, null-space branch of the tentative prolongation

The C/F splitting, the truncation bookkeeping and `detail::QR<double>` are not modelled.  The driver evaluates the
executable predicates of `Model/CoarseningChecks.lean` on the output of the real code for every explored input;
the theorems below say what a `true` verdict means.  (Level: translation validation on explored inputs.) -/

section vgrade
open Finset
variable {K : Type} [CommRing K] [LinearOrder K] [IsStrictOrderedRing K]

omit [IsStrictOrderedRing K] in
/-- a `true` verdict of `rsRowSumCheck` on `(A, P)`: `P` is well formed, has as many rows as `A`, and every row of
`A` with zero row sum and a strong neighbour in the sense of `ruge_stuben::connect` has a row of `P` that sums to
one (`k` = number of such rows). -/
theorem rs_rowsum_sound (norm : K → K) (tiny epsStrong : K) (A P : CRS K) (k : Nat)
    (h : rsRowSumCheck norm tiny epsStrong A P = (true, k)) :
    P.WF ∧ P.nrows = A.nrows ∧
    ∀ i, i < A.nrows → rowSumList (A.row i) = 0 → rsHasStrong norm tiny epsStrong i (A.row i) = true →
      ∑ c ∈ range P.ncols, P.get i c = 1 := by
  unfold rsRowSumCheck at h
  simp only [Prod.mk.injEq, Bool.and_eq_true, beq_iff_eq] at h
  obtain ⟨⟨⟨hwf, hn⟩, hrows⟩, _⟩ := h
  have hP := wf_of_wfb P hwf
  refine ⟨hP, hn, fun i hi hz hs => ?_⟩
  unfold rowSumOneOn at hrows
  rw [List.all_eq_true] at hrows
  have hmem : i ∈ rsCheckRows norm tiny epsStrong A := by
    unfold rsCheckRows
    rw [List.mem_filter]
    exact ⟨List.mem_range.2 hi, by simp [hz, hs]⟩
  have h1 := hrows i hmem
  simp only [decide_eq_true_eq] at h1
  rw [← h1]
  exact (rowSumList_eq_sum (P.row i) P.ncols (crs_row_wf P hP i)).symm

theorem within_iff (tol x : K) : within tol x = true ↔ -tol ≤ x ∧ x ≤ tol := by
  unfold within
  simp only [Bool.and_eq_true, Bool.not_eq_eq_eq_not, Bool.not_true, decide_eq_false_iff_not, not_lt]
  constructor
  · rintro ⟨h1, h2⟩; exact ⟨by have := neg_le_neg h2; simpa using this, h1⟩
  · rintro ⟨h1, h2⟩; exact ⟨h2, by have := neg_le_neg h1; simpa using this⟩

/-- a `true` verdict of `reproducesB`: on every aggregated row, `P_tent · B_coarse` equals the supplied near-null-space
vectors up to `tol` (exactly when `tol = 0`) -/
theorem reproducesB_sound (tol : K) (cols : Nat) (id : Array Int) (P : CRS K) (hP : P.WF) (Bc B : Array K)
    (h : reproducesB tol cols id P Bc B = true) :
    ∀ i, i < id.size → 0 ≤ id.getD i (-1) → ∀ k, k < cols →
      -tol ≤ (∑ c ∈ range P.ncols, P.get i c * Bc.getD (c * cols + k) 0) - B.getD (i * cols + k) 0 ∧
      (∑ c ∈ range P.ncols, P.get i c * Bc.getD (c * cols + k) 0) - B.getD (i * cols + k) 0 ≤ tol := by
  intro i hi h0 k hk
  unfold reproducesB at h
  rw [List.all_eq_true] at h
  have h1 := h i (List.mem_range.2 hi)
  simp only [Bool.or_eq_true, decide_eq_true_eq] at h1
  rcases h1 with h1 | h1
  · omega
  · rw [List.all_eq_true] at h1
    have h2 := (within_iff _ _).1 (h1 k (List.mem_range.2 hk))
    unfold ptentTimesB at h2
    rw [foldl_weighted (fun c => Bc.getD (c * cols + k) 0) (P.row i) P.ncols (crs_row_wf P hP i)] at h2
    exact h2

/-- a `true` verdict of `orthonormalCols`: `P_tentᵀ P_tent` is the identity up to `tol` -/
theorem orthonormalCols_sound (tol : K) (P : CRS K) (h : orthonormalCols tol P = true) :
    ∀ c c', c < P.ncols → c' < P.ncols →
      -tol ≤ (∑ i ∈ range P.nrows, P.get i c * P.get i c') - (if c = c' then 1 else 0) ∧
      (∑ i ∈ range P.nrows, P.get i c * P.get i c') - (if c = c' then 1 else 0) ≤ tol := by
  intro c c' hc hc'
  unfold orthonormalCols at h
  rw [List.all_eq_true] at h
  have h1 := h c (List.mem_range.2 hc)
  rw [List.all_eq_true] at h1
  have h2 := (within_iff _ _).1 (h1 c' (List.mem_range.2 hc'))
  unfold gramEntry at h2
  rw [foldl_range_sum (fun i => rowGet (P.row i) c * rowGet (P.row i) c') P.nrows] at h2
  exact h2

end vgrade

-- non-vacuity: the predicates accept a correct output (1D Neumann Laplacian, C point 1, F points 0 and 2) …
example : rsRowSumCheck (fun x : ℚ => if x < 0 then -x else x) (1/2) (1/4)
    ⟨3, #[[(0,1),(1,-1)],[(0,-1),(1,2),(2,-1)],[(1,-1),(2,1)]]⟩ ⟨1, #[[(0,1)],[(0,1)],[(0,1)]]⟩ = (true, 3) := by
  decide +kernel
-- … and a two-vector near-null space reproduced exactly by `P_tent = I₂`, `B_coarse = B`
example : reproducesB (0 : Int) 2 #[0, 0] ⟨2, #[[(0,1),(1,0)],[(0,0),(1,1)]]⟩ #[1,2,3,4] #[1,2,3,4] = true ∧
    orthonormalCols (0 : Int) ⟨2, #[[(0,1),(1,0)],[(0,0),(1,1)]]⟩ = true := by decide +kernel

end Amgcl.C04
