import Amgcl.Proofs.AggrGraph
import Amgcl.Proofs.TentativeProlongation
/-!
# C04 — interpolation is exact on the near-null space; aggregates partition the grid

Only property theorems live here (helpers: `Amgcl/Proofs/{PlainAggregates,Renumber,AggrCount,AggrGraph,…}.lean`).
Models: `Amgcl/Model/{PlainAggregates,PointwiseMatrix,PointwiseAggregates,TentativeProlongation,Aggregation,
SmoothedAggregation}.lean`, tied to /repo by `harness/h_coarsening.cpp`.
-/
namespace Amgcl.C04
open Amgcl Amgcl.Coarsening

/-! ## Aggregates partition the grid -/

/-- **Partition**, for every sparsity pattern and *every* strength-flag array (`G` = per row the stored
`(column, flag)` pairs): when `plain_aggregates` returns (does not throw `empty_level`),
* a row without a flagged entry gets `removed = -2` (it belongs to no aggregate),
* a row with a flagged entry gets exactly one aggregate number `id i ∈ [0, count)`,
* every number `0 … count-1` is used (aggregates are non-empty, the numbering is contiguous). -/
theorem aggregates_partition (G : SGraph) (count : Nat) (id : Array Int)
    (h : aggregatesOfGraph G = .ok (count, id)) :
    id.size = G.size ∧
    (∀ i, i < G.size →
      (G.hasStrong i = false → id.getD i 0 = -2) ∧
      (G.hasStrong i = true → 0 ≤ id.getD i 0 ∧ id.getD i 0 < (count : Int))) ∧
    (∀ a, a < count → ∃ i, i < G.size ∧ id.getD i 0 = (a : Int)) := by
  obtain ⟨hpos, heq⟩ := aggregatesOfGraph_ok G count id h
  obtain ⟨hsz, hsp⟩ := aggregateIds_spec G
  obtain ⟨h1, h2, h3, h4, _⟩ := renumber_partition _ hpos _ (idsOK_aggregateIds G)
  have hc : count = (renumber (aggregateIds G).1 (aggregateIds G).2).1 := congrArg Prod.fst heq
  have hi : id = (renumber (aggregateIds G).1 (aggregateIds G).2).2 := congrArg Prod.snd heq
  subst hc hi
  rw [hsz] at h1 h2 h3 h4
  refine ⟨h1, fun i hi => ⟨fun hs => h2 i hi ((hsp i hi).1 hs), fun hs => h3 i hi ((hsp i hi).2 hs).1⟩, h4⟩

/-- the only other outcome is `empty_level`, thrown exactly when no row has a flagged entry -/
theorem aggregates_empty_level_iff (G : SGraph) :
    aggregatesOfGraph G = .emptyLevel ↔ ∀ i, i < G.size → G.hasStrong i = false :=
  aggregatesOfGraph_emptyLevel_iff G

/-- **Coarsening strictly reduces the size** (termination argument of the hierarchy build): if no diagonal entry
is flagged strong — which `strongConnections` guarantees through its `c != i` — the number of aggregates is
smaller than the number of rows. -/
theorem count_lt_n_graph (G : SGraph) (hwf : G.WF) (hod : G.OffDiag) (count : Nat) (id : Array Int)
    (h : aggregatesOfGraph G = .ok (count, id)) : count < G.size :=
  count_lt_size G hwf hod count id h

section matrix
variable {K : Type} [Mul K] [Zero K] [LT K] [DecidableLT K]

/-- what `plain_aggregates` does for a matrix: the flags are `(c ≠ i) ∧ epsSq·a_ii·a_cc < a_ic²` entry by entry
(in exactly this form), and `(count, id)` partition the rows as in `aggregates_partition`. -/
theorem plain_aggregates_partition (epsSq : K) (A : CRS K) (agg : Aggregates)
    (h : plainAggregates epsSq A = .ok agg) :
    agg.strong = strongConnections epsSq A ∧
    (∀ i, i < A.nrows → agg.strong.getD i [] =
      (A.row i).map (fun cv => decide (cv.1 ≠ i) &&
        decide (epsSq * (diagonal A).getD i 0 * (diagonal A).getD cv.1 0 < cv.2 * cv.2))) ∧
    agg.id.size = A.nrows ∧
    (∀ i, i < A.nrows →
      ((agg.strong.getD i []).any id = false → agg.id.getD i 0 = -2) ∧
      ((agg.strong.getD i []).any id = true → 0 ≤ agg.id.getD i 0 ∧ agg.id.getD i 0 < (agg.count : Int))) ∧
    (∀ a, a < agg.count → ∃ i, i < A.nrows ∧ agg.id.getD i 0 = (a : Int)) := by
  unfold plainAggregates at h
  simp only at h
  split at h
  · rename_i ci hci
    injection h with h
    subst h
    simp only
    obtain ⟨h1, h2, h3⟩ := aggregates_partition _ ci.1 ci.2 hci
    rw [zipGraph_size] at h1 h2 h3
    refine ⟨trivial, fun i hi => ?_, h1, fun i hi => ?_, h3⟩
    · rw [strongConnections_getD epsSq A i hi]; rfl
    · rw [← strongGraph_hasStrong epsSq A i hi]; exact h2 i hi
  · exact absurd h (by simp)
  · exact absurd h (by simp)

/-- `count < n` for every square well-formed matrix and every `eps_strong` -/
theorem count_lt_n (epsSq : K) (A : CRS K) (hA : A.WF) (hsq : A.ncols = A.nrows) (agg : Aggregates)
    (h : plainAggregates epsSq A = .ok agg) : agg.count < A.nrows := by
  unfold plainAggregates at h
  simp only at h
  split at h
  · rename_i ci hci
    injection h with h
    subst h
    simp only
    have := count_lt_size _ (zipGraph_wf A hA hsq _) (strongGraph_offDiag epsSq A) ci.1 ci.2 hci
    rwa [zipGraph_size] at this
  · exact absurd h (by simp)
  · exact absurd h (by simp)

end matrix

/-! ## Tentative prolongation (no near-null space supplied: the constant vector) -/

section ptent
open Finset
variable {K : Type} [Semiring K]

/-- **`P_tent` columns**: `P_tent` is `n × naggr`; row `i` holds the single entry `(id i, 1)` when `id i ≥ 0` and is
empty otherwise, for *every* id array.  Hence the columns have pairwise disjoint supports, `P_tentᵀ P_tent` is
diagonal, and `P_tent · 1` is the indicator vector of the aggregated rows (`P_tent` reproduces the constant vector
exactly on aggregated rows). -/
theorem ptent_columns (n naggr : Nat) (id : Array Int) :
    (tentativeProlongation n naggr id : CRS K).nrows = n ∧
    (tentativeProlongation n naggr id : CRS K).ncols = naggr ∧
    (∀ i, i < n → (tentativeProlongation n naggr id : CRS K).row i =
        if id.getD i aggrRemoved ≥ 0 then [((id.getD i aggrRemoved).toNat, (1 : K))] else []) ∧
    (∀ i c, (tentativeProlongation n naggr id : CRS K).get i c =
        if i < n ∧ id.getD i aggrRemoved = (c : Int) then 1 else 0) ∧
    (∀ i c c', c ≠ c' → (tentativeProlongation n naggr id : CRS K).get i c = 0 ∨
        (tentativeProlongation n naggr id : CRS K).get i c' = 0) ∧
    (∀ c c', c ≠ c' → ∑ i ∈ range n, (tentativeProlongation n naggr id : CRS K).get i c *
        (tentativeProlongation n naggr id : CRS K).get i c' = 0) ∧
    (∀ i, i < n → id.getD i aggrRemoved < (naggr : Int) →
        ∑ c ∈ range naggr, (tentativeProlongation n naggr id : CRS K).get i c =
          if id.getD i aggrRemoved ≥ 0 then 1 else 0) := by
  have hdis : ∀ i c c', c ≠ c' → (tentativeProlongation n naggr id : CRS K).get i c = 0 ∨
      (tentativeProlongation n naggr id : CRS K).get i c' = 0 := by
    intro i c c' hne
    rw [ptent_get, ptent_get]
    by_cases h : i < n ∧ id.getD i aggrRemoved = (c : Int)
    · right; rw [if_neg]; rintro ⟨_, h'⟩; exact hne (by have := h.2; omega)
    · left; rw [if_neg h]
  refine ⟨ptent_nrows n naggr id, rfl, fun i hi => ptent_row n naggr id i hi, fun i c => ptent_get n naggr id i c,
    hdis, fun c c' hne => ?_, fun i hi hlt => ?_⟩
  · apply sum_eq_zero
    intro i _
    rcases hdis i c c' hne with h | h <;> rw [h] <;> simp
  · simp only [ptent_get]
    by_cases h0 : id.getD i aggrRemoved ≥ 0
    · rw [if_pos h0, sum_eq_single_of_mem (id.getD i aggrRemoved).toNat (mem_range.2 (by omega))]
      · rw [if_pos ⟨hi, by omega⟩]
      · intro c _ hc; rw [if_neg]; rintro ⟨_, h⟩; exact hc (by omega)
    · rw [if_neg h0]
      apply sum_eq_zero
      intro c _; rw [if_neg]; rintro ⟨_, h⟩; omega

end ptent

end Amgcl.C04
