import Amgcl.Proofs.AmgApply
/-!
# C02 — the AMG cycle is a fixed linear (symmetric positive, contracting) operator

Property theorems only.  Model: `Amgcl/Model/Amg.lean` (`cycle`, `apply` mirror amg.hpp:515-553, 281-290 with the
per-level scratch vectors `f,u,t` as explicit state).

Proved here, for **every** hierarchy satisfying the shape predicate `HierOK` (in particular every hierarchy
constructed by `build` from shape-correct transfer operators with smoothers that are `Relax.Smoother.Good` —
discharged per smoother in C06 — and a linear direct solver: `built_hierOK`), **all** parameters
(`ncycle`, `npre`, `npost`, `pre_cycles`, number of levels):

* `cycle_scratch_indep`, `apply_scratch_indep` — the result does not depend on the contents of any scratch vector;
* `apply_history_eq_fresh` — any sequence of applications on one object returns, call by call, what a fresh object
  returns: the preconditioner is independent of earlier applications;
* `cycle_linear`, `apply_linear` — `B(a f + b g) = a B f + b B g` (the cycle is jointly linear in `(rhs, x)`).

Open (see DESIGN.md §3 C02; listed in the evidence as open items): symmetry of `B`, positive definiteness and the
contraction `ρ(I − BA) < 1` (energy-norm argument), exact scaling `B(cA) = c⁻¹B(A)`.  Until proved these clauses are
decided only by the exact certificates computed by the harness on explored inputs (rational `B` extracted column by
column, symmetry and LDLᵀ positivity checks) and are reported as such.
-/
namespace Amgcl.C02
open Amgcl Amgcl.Amg Amgcl.Relax

variable {K S : Type} [CommRing K] [DecidableEq K] [Nontrivial K]
variable (prm : Params) (sm : Smoother K S) (direct : CRS K → Vec K → Vec K)

/-- the cycle's result does not depend on the contents of the scratch vectors of any level -/
theorem cycle_scratch_indep {n : Nat} {ls : List (Level K S)} (h : HierOK sm direct n ls)
    (scr scr' : List (Scratch K)) (f x : Vec K) (hl : scr.length = ls.length) (hl' : scr'.length = ls.length) :
    (cycle prm sm direct ls scr f x).1 = (cycle prm sm direct ls scr' f x).1 :=
  (cycle_ok prm sm direct h).indep scr scr' f x hl hl'

/-- the cycle is jointly linear in `(rhs, x)`: `cycle(a f + b g, a x + b y) = a cycle(f, x) + b cycle(g, y)` -/
theorem cycle_linear {n : Nat} {ls : List (Level K S)} (h : HierOK sm direct n ls) (a b : K)
    (scr scr1 scr2 : List (Scratch K)) (f g x y : Vec K)
    (hl : scr.length = ls.length) (hl1 : scr1.length = ls.length) (hl2 : scr2.length = ls.length)
    (hf : f.size = n) (hg : g.size = n) (hx : x.size = n) (hy : y.size = n) :
    (cycle prm sm direct ls scr (vlin a f b g) (vlin a x b y)).1 =
      vlin a (cycle prm sm direct ls scr1 f x).1 b (cycle prm sm direct ls scr2 g y).1 :=
  (cycle_ok prm sm direct h).linear a b scr scr1 scr2 f g x y hl hl1 hl2 hf hg hx hy

/-- `apply` does not depend on the scratch contents -/
theorem apply_scratch_indep {n : Nat} {ls : List (Level K S)} (h : HierOK sm direct n ls)
    (scr scr' : List (Scratch K)) (f : Vec K) (hl : scr.length = ls.length) (hl' : scr'.length = ls.length) :
    (apply prm sm direct ls scr f).1 = (apply prm sm direct ls scr' f).1 :=
  apply_indep prm sm direct h scr scr' f hl hl'

/-- **independent of earlier applications**: a whole history of applications on one object (each call starting from
the scratch the previous one left) equals fresh objects call by call -/
theorem apply_history_eq_fresh {n : Nat} {ls : List (Level K S)} (h : HierOK sm direct n ls) (fs : List (Vec K))
    (scr : List (Scratch K)) (hl : scr.length = ls.length) :
    applyHistory prm sm direct ls scr fs =
      fs.map (fun f => (apply prm sm direct ls (freshScratch ls) f).1) :=
  applyHistory_eq prm sm direct h fs scr (freshScratch ls) hl (by simp [freshScratch])

/-- **B is linear**: `B(a f + b g) = a B f + b B g` for the preconditioner `B f = apply(f)` -/
theorem apply_linear {n : Nat} {ls : List (Level K S)} (h : HierOK sm direct n ls) (a b : K)
    (scr scr1 scr2 : List (Scratch K)) (f g : Vec K) (hf : f.size = n) (hg : g.size = n)
    (hl : scr.length = ls.length) (hl1 : scr1.length = ls.length) (hl2 : scr2.length = ls.length) :
    (apply prm sm direct ls scr (vlin a f b g)).1 =
      vlin a (apply prm sm direct ls scr1 f).1 b (apply prm sm direct ls scr2 g).1 :=
  apply_linear' prm sm direct h a b scr scr1 scr2 f g hf hg hl hl1 hl2

omit [Nontrivial K] in
/-- every hierarchy constructed by `build` satisfies the hypotheses of the theorems above, provided the smoother
is `Good` on every matrix it is set up on, the direct solver is linear, and the coarsening returns transfer
operators of matching shape -/
theorem built_hierOK (pol : Policy K) (directOk : CRS K → Bool)
    (hgood : ∀ A s, sm.setup A = .ok s → sm.Good s A)
    (hdir : ∀ Ad : CRS K, DirectOK (direct Ad) Ad.nrows)
    (hpol : ∀ idx A P0 R0, pol.transfer idx A = some (P0, R0) → P0.nrows = A.nrows)
    (hop : ∀ A P R : CRS K, (pol.coarseOp A P R).nrows = R.nrows)
    (A : CRS K) (ls : List (Level K S)) (hb : build prm pol sm directOk A = .ok ls) :
    HierOK sm direct A.nrows ls := by
  have hc := doInit_chain prm pol sm directOk (sortRows A) ls hb
  have := Chain.hierOK (direct := direct) hgood hdir hpol hop hc
  rwa [sortRows_nrows] at this

end Amgcl.C02
