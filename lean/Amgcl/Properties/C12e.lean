import Amgcl.Model.LockstepBiCGStabL
import Amgcl.Model.LockstepIDRs
import Amgcl.Properties.C12c
import Amgcl.Proofs.LockstepIDRsCtor
/-!
# C12 (continued) — distributed BiCGStab(L) and IDR(s)

`amgcl/mpi/solver/{bicgstabl,idrs}.hpp` instantiate the SERIAL templates with `InnerProduct = mpi::inner_product`.
`Model/LockstepBiCGStabL.lean` / `Model/LockstepIDRs.lean` write the statements of `bicgstabl::operator()`, of the
`idrs` constructor (orthonormalisation of the shadow space) and of `idrs::operator()` in the instruction set of
`Model/Lockstep.lean`.  What is particular to these two solvers is dense work on small REPLICATED data:

* BiCGStab(L): the `(L+1) × (L+1)` Gram matrix `MZa` is filled from globally reduced inner products; the
  symmetrisation, the two `qr.solve` calls, the convex combination and the search for `omega` run on every rank on
  its own copy (`sset (polyS …)`: literally the functions `polyCoef` / `QR.solve` of the serial model);
* IDR(s): `f[i] = ⟨r, P_i⟩` and `M(i,k) = ⟨G_k, P_i⟩` are globally reduced; the triangular solves for `c` and the update
  of `f` run on every rank on its own copy.  The shadow space is filled by every rank from a generator seeded with the
  RANK NUMBER (`pid = inner_product.rank()`), i.e. the assembled raw vectors are arbitrary: they are an input (the
  registers `vP i`), exactly as in the serial model where `raw` / `Pv` is an input.

Theorems (for every rank count `≥ 1`, every contiguous partition, empty ranks included, every `sqrt`):

* `dist_bicgstabl_eq_serial`, `dist_idrs_eq_serial`, `dist_idrs_ctor_eq_serial` — the rank-local run with
  `MPI_Allreduce` inner products never blocks on a branch, EVERY rank ends with the scalar state of the serial run of
  the same statements on the assembled vectors — iteration count, reported residual, exception flag, and the dense
  arrays `MZa, MZb, Y0, YL, qr` resp. `M, f, c` — and holds its part of every serial vector (`x`, `R[i]`, `U[i]`,
  `G[i]`, `P[i]` …).
* `dist_bicgstabl_rank_consistent`, `dist_idrs_rank_consistent` — hence any two ranks return the same
  `(iters, resid)` or throw the same exception, and hold identical small systems.
* `dist_idrs_shadow_eq_makeP` — the constructor program's serial semantics is PROVED to be `Solver.IDRs.makeP`
  (`Proofs/LockstepIDRsCtor.lean`), so every rank holds its part of `makeP raw`.
* For the two `operator()` programs the equality of the SERIAL semantics with the C05 models `Solver.BiCGStabL.run` / `Solver.IDRs.run`
  (`prog_eq_run`, proved for the other solvers in C12c) is NOT proved here: it is evaluated by the kernel on concrete
  runs below (`L = 1, 2, 3`, `s = 1, 2, 3`, both sides, `convex`, accurate update, smoothing, replacement, exceptions;
  constructor + call).  The serial semantics of the programs is itself a statement-by-statement rendering of the
  C++ (every instruction carries its source line).
-/
namespace Amgcl.C12
open Amgcl Amgcl.Dist Amgcl.Lockstep Amgcl.Solver

variable {K : Type} [Field K] [DecidableEq K] [LT K] [DecidableLT K]

/-! ## BiCGStab(L) -/

/-- the vectors of a BiCGStab(L) solver object have the global length -/
structure BiCGStabLSizes (n : Nat) (ws : Solver.BiCGStabL.Work K) (f x0 : Vec K) : Prop where
  f  : f.size = n
  x  : x0.size = n
  Rt : ws.Rt.size = n
  X  : ws.X.size = n
  B  : ws.B.size = n
  T  : ws.T.size = n
  R  : ∀ i, (ws.R i).size = n
  U  : ∀ i, (ws.U i).size = n

theorem bicgstabl_init_size {n : Nat} {ws : Solver.BiCGStabL.Work K} {f x0 : Vec K} (h : BiCGStabLSizes n ws f x0) :
    ∀ v, ((Lockstep.BiCGStabL.initState ws f x0).vec v).size = n := by
  intro v
  unfold Lockstep.BiCGStabL.initState
  simp only
  split_ifs
  · exact h.f
  · exact h.x
  · exact h.Rt
  · exact h.X
  · exact h.B
  · exact h.T
  · exact h.R _
  · exact h.U _

/-- the serial run of the BiCGStab(L) statements on the assembled system with the global inner product -/
def bicgstablSerial (A : CRS K) (P : Vec K → Vec K) (conj : K → K) (prm : Solver.BiCGStabL.Params K) (sqrt : K → K)
    (eps c07 : K) (ws : Solver.BiCGStabL.Work K) (f x0 : Vec K) : St K (Lockstep.BiCGStabL.S K) :=
  run A P (innerProductSerial conj) (Lockstep.BiCGStabL.prog prm sqrt eps c07) (Lockstep.BiCGStabL.initState ws f x0)

/-- **BiCGStab(L), distributed = serial.**  Every rank runs the statements of `bicgstabl::operator()` on its own
scalars — including its own copy of the Gram matrix, the QR least-squares solves and the polynomial coefficients —;
the run never blocks, every rank ends with the scalars of the serial run on the assembled system with the global
inner product, and the ranks' parts of every vector are the parts of the serial vectors. -/
theorem dist_bicgstabl_eq_serial (A : CRS K) (P : Vec K → Vec K) (C : DCtx K) (hS : Setup A P C)
    (prm : Solver.BiCGStabL.Params K) (sqrt : K → K) (eps c07 : K) (ws : Solver.BiCGStabL.Work K) (f x0 : Vec K)
    (hsz : BiCGStabLSizes C.part.sum ws f x0) :
    ∃ ds', drun C (Lockstep.BiCGStabL.prog prm sqrt eps c07)
        (distribute C.part (Lockstep.BiCGStabL.initState ws f x0)) = some ds' ∧
      (∀ r, r < C.part.length → ds'.scal r = (bicgstablSerial A P C.conj prm sqrt eps c07 ws f x0).scal) ∧
      (∀ r, r < C.part.length → Lockstep.BiCGStabL.outOf (ds'.scal r)
        = Lockstep.BiCGStabL.outOf (bicgstablSerial A P C.conj prm sqrt eps c07 ws f x0).scal) ∧
      (∀ v, ds'.vec v = splitVec ((bicgstablSerial A P C.conj prm sqrt eps c07 ws f x0).vec v) C.part) ∧
      concatVec (ds'.vec Lockstep.BiCGStabL.vX)
        = (bicgstablSerial A P C.conj prm sqrt eps c07 ws f x0).vec Lockstep.BiCGStabL.vX := by
  obtain ⟨ds', g1, g2, g3⟩ := lockstep_refines_serial A P C hS (Lockstep.BiCGStabL.prog prm sqrt eps c07) _
    (bicgstabl_init_size hsz)
  exact ⟨ds', g1, g2, fun r hr => by rw [g2 r hr]; rfl, fun v => (g3 v).1, (g3 _).2⟩

/-- **rank consistency of BiCGStab(L)**: any two ranks return the same `(iters, resid)` or throw the same exception,
and hold the same Gram matrix, QR factors and polynomial coefficients. -/
theorem dist_bicgstabl_rank_consistent (A : CRS K) (P : Vec K → Vec K) (C : DCtx K) (hS : Setup A P C)
    (prm : Solver.BiCGStabL.Params K) (sqrt : K → K) (eps c07 : K) (ws : Solver.BiCGStabL.Work K) (f x0 : Vec K)
    (hsz : BiCGStabLSizes C.part.sum ws f x0) :
    ∃ ds', drun C (Lockstep.BiCGStabL.prog prm sqrt eps c07)
        (distribute C.part (Lockstep.BiCGStabL.initState ws f x0)) = some ds' ∧
      ∀ r r', r < C.part.length → r' < C.part.length →
        Lockstep.BiCGStabL.outOf (ds'.scal r) = Lockstep.BiCGStabL.outOf (ds'.scal r') ∧
        (ds'.scal r).MZa = (ds'.scal r').MZa ∧ (ds'.scal r).Y0 = (ds'.scal r').Y0 ∧
        (ds'.scal r).omega = (ds'.scal r').omega ∧ ds'.scal r = ds'.scal r' := by
  obtain ⟨ds', g1, g2, _⟩ := dist_bicgstabl_eq_serial A P C hS prm sqrt eps c07 ws f x0 hsz
  refine ⟨ds', g1, fun r r' hr hr' => ?_⟩
  rw [g2 r hr, g2 r' hr']
  exact ⟨rfl, rfl, rfl, rfl, rfl⟩

/-! ## IDR(s) -/

/-- the vectors of an IDR(s) solver object (shadow space included) have the global length -/
structure IDRsSizes (n : Nat) (Pv : FArr (Vec K)) (ws : Solver.IDRs.Work K) (f x0 : Vec K) : Prop where
  f  : f.size = n
  x  : x0.size = n
  r  : ws.r.size = n
  v  : ws.v.size = n
  t  : ws.t.size = n
  xs : ws.xs.size = n
  rs : ws.rs.size = n
  G  : ∀ i, (ws.G i).size = n
  U  : ∀ i, (ws.U i).size = n
  P  : ∀ i, (Pv i).size = n

theorem idrs_init_size {n : Nat} {Pv : FArr (Vec K)} {ws : Solver.IDRs.Work K} {f x0 : Vec K}
    (h : IDRsSizes n Pv ws f x0) : ∀ v, ((Lockstep.IDRs.initState Pv ws f x0).vec v).size = n := by
  intro v
  unfold Lockstep.IDRs.initState
  simp only
  split_ifs
  · exact h.f
  · exact h.x
  · exact h.r
  · exact h.v
  · exact h.t
  · exact h.xs
  · exact h.rs
  · exact h.G _
  · exact h.U _
  · exact h.P _

/-- the serial run of a program over the IDR(s) state on the assembled system with the global inner product -/
def idrsSerial (A : CRS K) (P : Vec K → Vec K) (conj : K → K) (prog : Prog K (Lockstep.IDRs.S K))
    (Pv : FArr (Vec K)) (ws : Solver.IDRs.Work K) (f x0 : Vec K) : St K (Lockstep.IDRs.S K) :=
  run A P (innerProductSerial conj) prog (Lockstep.IDRs.initState Pv ws f x0)

/-- **IDR(s), distributed = serial**, for ANY program over the IDR(s) state started from the distributed object: the
instance of the lockstep theorem shared by the constructor, `operator()` and their composition. -/
theorem dist_idrs_prog_eq_serial (A : CRS K) (P : Vec K → Vec K) (C : DCtx K) (hS : Setup A P C)
    (prog : Prog K (Lockstep.IDRs.S K)) (Pv : FArr (Vec K)) (ws : Solver.IDRs.Work K) (f x0 : Vec K)
    (hsz : IDRsSizes C.part.sum Pv ws f x0) :
    ∃ ds', drun C prog (distribute C.part (Lockstep.IDRs.initState Pv ws f x0)) = some ds' ∧
      (∀ r, r < C.part.length → ds'.scal r = (idrsSerial A P C.conj prog Pv ws f x0).scal) ∧
      (∀ r, r < C.part.length → Lockstep.IDRs.outOf (ds'.scal r)
        = Lockstep.IDRs.outOf (idrsSerial A P C.conj prog Pv ws f x0).scal) ∧
      (∀ v, ds'.vec v = splitVec ((idrsSerial A P C.conj prog Pv ws f x0).vec v) C.part) ∧
      concatVec (ds'.vec Lockstep.IDRs.vX) = (idrsSerial A P C.conj prog Pv ws f x0).vec Lockstep.IDRs.vX := by
  obtain ⟨ds', g1, g2, g3⟩ := lockstep_refines_serial A P C hS prog _ (idrs_init_size hsz)
  exact ⟨ds', g1, g2, fun r hr => by rw [g2 r hr]; rfl, fun v => (g3 v).1, (g3 _).2⟩

/-- **IDR(s) `operator()`, distributed = serial.**  `Pv` is the ASSEMBLED shadow space (each rank holds the part it
generated and orthonormalised): every rank ends with the scalars of the serial run with that shadow space — the same
`(iters, resid)` or exception, the same `M`, `f`, `c` — and its part of every serial vector. -/
theorem dist_idrs_eq_serial (A : CRS K) (P : Vec K → Vec K) (C : DCtx K) (hS : Setup A P C)
    (prm : Solver.IDRs.Params K) (sqrt : K → K) (eps : K) (Pv : FArr (Vec K)) (ws : Solver.IDRs.Work K) (f x0 : Vec K)
    (hsz : IDRsSizes C.part.sum Pv ws f x0) :
    ∃ ds', drun C (Lockstep.IDRs.prog prm sqrt eps) (distribute C.part (Lockstep.IDRs.initState Pv ws f x0)) = some ds' ∧
      (∀ r, r < C.part.length → ds'.scal r = (idrsSerial A P C.conj (Lockstep.IDRs.prog prm sqrt eps) Pv ws f x0).scal) ∧
      (∀ r, r < C.part.length → Lockstep.IDRs.outOf (ds'.scal r)
        = Lockstep.IDRs.outOf (idrsSerial A P C.conj (Lockstep.IDRs.prog prm sqrt eps) Pv ws f x0).scal) ∧
      (∀ v, ds'.vec v = splitVec ((idrsSerial A P C.conj (Lockstep.IDRs.prog prm sqrt eps) Pv ws f x0).vec v) C.part) ∧
      concatVec (ds'.vec Lockstep.IDRs.vX)
        = (idrsSerial A P C.conj (Lockstep.IDRs.prog prm sqrt eps) Pv ws f x0).vec Lockstep.IDRs.vX :=
  dist_idrs_prog_eq_serial A P C hS _ Pv ws f x0 hsz

/-- **the IDR(s) constructor, distributed = serial.**  `raw` = the assembled raw random vectors (rank `r` drew its
part from `mt19937(r · nt + tid)`): the rank-local Gram–Schmidt with global inner products leaves on every rank its
part of the serially orthonormalised vectors; the same holds for the constructor followed by a call. -/
theorem dist_idrs_ctor_eq_serial (A : CRS K) (P : Vec K → Vec K) (C : DCtx K) (hS : Setup A P C)
    (prm : Solver.IDRs.Params K) (sqrt : K → K) (eps : K) (raw : FArr (Vec K)) (ws : Solver.IDRs.Work K) (f x0 : Vec K)
    (hsz : IDRsSizes C.part.sum raw ws f x0) :
    (∃ ds', drun C (Lockstep.IDRs.ctorProg prm.s sqrt) (distribute C.part (Lockstep.IDRs.initState raw ws f x0))
          = some ds' ∧
       ∀ i, ds'.vec (Lockstep.IDRs.vP i)
         = splitVec ((idrsSerial A P C.conj (Lockstep.IDRs.ctorProg prm.s sqrt) raw ws f x0).vec (Lockstep.IDRs.vP i)) C.part) ∧
    (∃ ds', drun C (Lockstep.IDRs.ctorThenSolve prm sqrt eps) (distribute C.part (Lockstep.IDRs.initState raw ws f x0))
          = some ds' ∧
       (∀ r, r < C.part.length → Lockstep.IDRs.outOf (ds'.scal r)
         = Lockstep.IDRs.outOf (idrsSerial A P C.conj (Lockstep.IDRs.ctorThenSolve prm sqrt eps) raw ws f x0).scal) ∧
       concatVec (ds'.vec Lockstep.IDRs.vX)
         = (idrsSerial A P C.conj (Lockstep.IDRs.ctorThenSolve prm sqrt eps) raw ws f x0).vec Lockstep.IDRs.vX) := by
  refine ⟨?_, ?_⟩
  · obtain ⟨ds', g1, _, _, g4, _⟩ := dist_idrs_prog_eq_serial A P C hS (Lockstep.IDRs.ctorProg prm.s sqrt) raw ws f x0 hsz
    exact ⟨ds', g1, fun i => g4 _⟩
  · obtain ⟨ds', g1, _, g3, _, g5⟩ := dist_idrs_prog_eq_serial A P C hS (Lockstep.IDRs.ctorThenSolve prm sqrt eps) raw ws f x0 hsz
    exact ⟨ds', g1, g3, g5⟩

/-- **`dist_idrs_shadow_eq_makeP`**: the serial semantics of the constructor program is PROVED equal to the C05 model
`Solver.IDRs.makeP` (`Lockstep.IDRs.ctor_eq_makeP`); hence after the distributed constructor every rank holds its part
of `makeP raw`, the serially orthonormalised assembled raw vectors, whatever the ranks drew from their generators. -/
theorem dist_idrs_shadow_eq_makeP (A : CRS K) (P : Vec K → Vec K) (C : DCtx K) (hS : Setup A P C)
    (prm : Solver.IDRs.Params K) (sqrt : K → K) (eps : K) (raw : FArr (Vec K)) (ws : Solver.IDRs.Work K) (f x0 : Vec K)
    (hsz : IDRsSizes C.part.sum raw ws f x0) :
    ∃ ds', drun C (Lockstep.IDRs.ctorProg prm.s sqrt) (distribute C.part (Lockstep.IDRs.initState raw ws f x0))
        = some ds' ∧
      ∀ i, ds'.vec (Lockstep.IDRs.vP i)
        = splitVec ((Solver.IDRs.makeP (innerProductSerial C.conj) sqrt prm.s raw) i) C.part := by
  obtain ⟨ds', g1, g2⟩ := (dist_idrs_ctor_eq_serial A P C hS prm sqrt eps raw ws f x0 hsz).1
  refine ⟨ds', g1, fun i => ?_⟩
  have h := (Lockstep.IDRs.ctor_eq_makeP A P (innerProductSerial C.conj) sqrt prm.s
    (Lockstep.IDRs.initState raw ws f x0)).1
  rw [Lockstep.IDRs.shadowOf_init] at h
  rw [g2 i, ← h]
  rfl

/-- **rank consistency of IDR(s)**: any two ranks return the same `(iters, resid)` or throw the same exception, and
hold the same small systems `M`, `f`, `c` — although each rank seeded its generator with its own rank number. -/
theorem dist_idrs_rank_consistent (A : CRS K) (P : Vec K → Vec K) (C : DCtx K) (hS : Setup A P C)
    (prm : Solver.IDRs.Params K) (sqrt : K → K) (eps : K) (raw : FArr (Vec K)) (ws : Solver.IDRs.Work K) (f x0 : Vec K)
    (hsz : IDRsSizes C.part.sum raw ws f x0) :
    ∃ ds', drun C (Lockstep.IDRs.ctorThenSolve prm sqrt eps) (distribute C.part (Lockstep.IDRs.initState raw ws f x0))
        = some ds' ∧
      ∀ r r', r < C.part.length → r' < C.part.length →
        Lockstep.IDRs.outOf (ds'.scal r) = Lockstep.IDRs.outOf (ds'.scal r') ∧
        (ds'.scal r).M = (ds'.scal r').M ∧ (ds'.scal r).f = (ds'.scal r').f ∧ (ds'.scal r).c = (ds'.scal r').c ∧
        ds'.scal r = ds'.scal r' := by
  obtain ⟨ds', g1, g2, _⟩ := dist_idrs_prog_eq_serial A P C hS (Lockstep.IDRs.ctorThenSolve prm sqrt eps) raw ws f x0 hsz
  refine ⟨ds', g1, fun r r' hr hr' => ?_⟩
  rw [g2 r hr, g2 r' hr']
  exact ⟨rfl, rfl, rfl, rfl, rfl⟩

/-! ## non-vacuity, and the programs against the C05 models on concrete runs (kernel evaluation)

The 1-D Laplacian `exA` on 3 ranks (the middle one EMPTY), rank-local diagonal preconditioner `exP`, `sqrt = id`.
(The terms are spelled out through notations so that the statements below match the theorems syntactically: the
elaborator must not be asked to evaluate a solver run, only the kernel.) -/

/-- outcome and solution of a program run against a run of the C05 model -/
def sameOut (r : Except Err (Nat × Rat) × Vec Rat) (o : Except Err (Nat × Rat)) (x : Vec Rat) : Bool :=
  (match r.1, o with
   | .ok a, .ok b => decide (a = b)
   | .error a, .error b => decide (a = b)
   | _, _ => false) && decide (r.2 = x)

def exBL (L : Nat) (side : Side) (convex : Bool) (delta tol : Rat) : Solver.BiCGStabL.Params Rat :=
  ⟨⟨4, tol, 0, false⟩, L, delta, convex, side⟩

theorem exBLsizes : BiCGStabLSizes exCd.part.sum (Solver.BiCGStabL.Work.fresh 3 : Solver.BiCGStabL.Work Rat)
    #[1, 2, 3] #[0, 0, 0] :=
  ⟨by decide, by decide, size_replicate3, size_replicate3, size_replicate3, size_replicate3,
   fun _ => size_replicate3, fun _ => size_replicate3⟩

local notation "blSerial " p:max =>
  bicgstablSerial exA exP exCd.conj p id 0 (7/10) (Solver.BiCGStabL.Work.fresh 3) #[1, 2, 3] #[0, 0, 0]
local notation "blModel " p:max =>
  Solver.BiCGStabL.run p (innerProductSerial id) id 0 (7/10) exA exP (Solver.BiCGStabL.Work.fresh 3) #[1, 2, 3] #[0, 0, 0]

/-- BiCGStab(2), right preconditioning: the serial run of the statements makes one pass (two BiCG steps, the Gram
matrix, the QR solves, the polynomial step) and returns `(2, 7761/6250000)` — and so does the C05 model, with the same `x` -/
theorem exBL_serial : Lockstep.BiCGStabL.outOf (blSerial (exBL 2 .right false 0 (1/100))).scal = .ok (2, 7761/6250000) := by
  decide +kernel

example : (blModel (exBL 2 .right false 0 (1/100))).out = .ok (2, 7761/6250000) ∧
    (blModel (exBL 2 .right false 0 (1/100))).x = (blSerial (exBL 2 .right false 0 (1/100))).vec Lockstep.BiCGStabL.vX := by
  decide +kernel

/-- … hence on 3 ranks with an empty one EVERY rank returns `(2, 7761/6250000)`: the hypotheses of
`dist_bicgstabl_eq_serial` are satisfiable -/
example : ∃ ds', drun exCd (Lockstep.BiCGStabL.prog (exBL 2 .right false 0 (1/100)) id 0 (7/10))
      (distribute exCd.part (Lockstep.BiCGStabL.initState (Solver.BiCGStabL.Work.fresh 3) #[1, 2, 3] #[0, 0, 0])) = some ds' ∧
    ∀ r, r < exCd.part.length → Lockstep.BiCGStabL.outOf (ds'.scal r) = .ok (2, 7761/6250000) := by
  obtain ⟨ds', h1, _, h3, _, _⟩ := dist_bicgstabl_eq_serial exA exP exCd exSetup (exBL 2 .right false 0 (1/100)) id 0 (7/10)
    (Solver.BiCGStabL.Work.fresh 3) #[1, 2, 3] #[0, 0, 0] exBLsizes
  refine ⟨ds', h1, fun r hr => ?_⟩
  rw [h3 r hr]
  exact exBL_serial

/-- `dist_bicgstabl_rank_consistent` instantiated: ranks 0 and 2 (rank 1 is empty) hold the same Gram matrix, polynomial
coefficients, `omega`, and return the same outcome -/
example : ∃ ds', drun exCd (Lockstep.BiCGStabL.prog (exBL 2 .right false 0 (1/100)) id 0 (7/10))
      (distribute exCd.part (Lockstep.BiCGStabL.initState (Solver.BiCGStabL.Work.fresh 3) #[1, 2, 3] #[0, 0, 0])) = some ds' ∧
    Lockstep.BiCGStabL.outOf (ds'.scal 0) = Lockstep.BiCGStabL.outOf (ds'.scal 2) ∧ (ds'.scal 0).MZa = (ds'.scal 2).MZa := by
  obtain ⟨ds', h1, h2⟩ := dist_bicgstabl_rank_consistent exA exP exCd exSetup (exBL 2 .right false 0 (1/100)) id 0 (7/10)
    (Solver.BiCGStabL.Work.fresh 3) #[1, 2, 3] #[0, 0, 0] exBLsizes
  exact ⟨ds', h1, (h2 0 2 (by decide) (by decide)).1, (h2 0 2 (by decide) (by decide)).2.1⟩

/-- program = C05 model on concrete runs: `L = 1, 2, 3`, both sides, `convex`, accurate update (`delta > 0`) -/
example : (List.all
    [exBL 1 .right false 0 (1/100), exBL 1 .left false 0 (1/100), exBL 2 .left false 0 (1/100),
     exBL 2 .right true 0 (1/100), exBL 3 .right false 0 (1/100), exBL 2 .right false (1/100) (1/100),
     exBL 2 .left false (1/2) (1/100), exBL 1 .right false (1/2) (1/100),
     -- `tol = 0`: the runs end in a `precondition` (zero omega / zero rho after exact convergence)
     exBL 1 .right false 0 0, exBL 2 .left false 0 0, exBL 3 .right false 0 0, exBL 2 .right false (1/100) 0]
    (fun p => sameOut (Lockstep.BiCGStabL.outOf (blSerial p).scal, (blSerial p).vec Lockstep.BiCGStabL.vX)
      (blModel p).out (blModel p).x)) = true := by decide +kernel

def exId (s : Nat) (smoothing replacement : Bool) (omega : Rat) (mi : Nat := 4) : Solver.IDRs.Params Rat :=
  ⟨⟨mi, 0, 0, false⟩, s, omega, smoothing, replacement⟩

/-- raw "random" vectors: rank 0 holds entries 0-1, rank 1 nothing, rank 2 entry 2 -/
def exRaw : FArr (Vec Rat) := ⟨fun i => if i = 0 then #[1, -1/2, 1/3] else if i = 1 then #[1/4, 1, -1] else #[0, 0, 0]⟩

theorem exIDsizes : IDRsSizes exCd.part.sum exRaw (Solver.IDRs.Work.fresh 3 : Solver.IDRs.Work Rat) #[1, 2, 3] #[0, 0, 0] :=
  ⟨by decide, by decide, size_replicate3, size_replicate3, size_replicate3, size_replicate3, size_replicate3,
   fun _ => size_replicate3, fun _ => size_replicate3,
   fun i => by unfold exRaw; simp only; split_ifs <;> decide⟩

local notation "idSerial " p:max =>
  idrsSerial exA exP exCd.conj (Lockstep.IDRs.ctorThenSolve p id 0) exRaw (Solver.IDRs.Work.fresh 3) #[1, 2, 3] #[0, 0, 0]
local notation "idModel " p:max =>
  Solver.IDRs.run p (innerProductSerial id) id 0 exA exP
    (Solver.IDRs.makeP (innerProductSerial id) id (Solver.IDRs.Params.s p) exRaw) (Solver.IDRs.Work.fresh 3) #[1, 2, 3] #[0, 0, 0]

/-- IDR(2), constructor + call, `maxiter = 3`: the serial run of the statements returns `(3, 52607856/19110125)` — and
so does the C05 model `Solver.IDRs.run` with the shadow space `makeP raw`, with the same `x` -/
theorem exId_serial : Lockstep.IDRs.outOf (idSerial (exId 2 false false (7/10) 3)).scal = .ok (3, 52607856/19110125) := by
  decide +kernel

example : (idModel (exId 2 false false (7/10) 3)).out = .ok (3, 52607856/19110125) ∧
    (idModel (exId 2 false false (7/10) 3)).x = (idSerial (exId 2 false false (7/10) 3)).vec Lockstep.IDRs.vX := by
  decide +kernel

/-- … hence on 3 ranks with an empty one EVERY rank returns `(3, 52607856/19110125)` although its part of the shadow
space is its own: the hypotheses of `dist_idrs_ctor_eq_serial` are satisfiable -/
example : ∃ ds', drun exCd (Lockstep.IDRs.ctorThenSolve (exId 2 false false (7/10) 3) id 0)
      (distribute exCd.part (Lockstep.IDRs.initState exRaw (Solver.IDRs.Work.fresh 3) #[1, 2, 3] #[0, 0, 0])) = some ds' ∧
    ∀ r, r < exCd.part.length → Lockstep.IDRs.outOf (ds'.scal r) = .ok (3, 52607856/19110125) := by
  obtain ⟨ds', h1, h3, _⟩ := (dist_idrs_ctor_eq_serial exA exP exCd exSetup (exId 2 false false (7/10) 3) id 0 exRaw
    (Solver.IDRs.Work.fresh 3) #[1, 2, 3] #[0, 0, 0] exIDsizes).2
  refine ⟨ds', h1, fun r hr => ?_⟩
  rw [h3 r hr]
  exact exId_serial

/-- `dist_idrs_shadow_eq_makeP` and `dist_idrs_rank_consistent` instantiated (3 ranks, the middle one empty) -/
example : ∃ ds', drun exCd (Lockstep.IDRs.ctorProg (exId 2 false false (7/10) 3).s id)
      (distribute exCd.part (Lockstep.IDRs.initState exRaw (Solver.IDRs.Work.fresh 3) #[1, 2, 3] #[0, 0, 0])) = some ds' ∧
    ∀ i, ds'.vec (Lockstep.IDRs.vP i)
      = splitVec ((Solver.IDRs.makeP (innerProductSerial exCd.conj) id (exId 2 false false (7/10) 3).s exRaw) i) exCd.part :=
  dist_idrs_shadow_eq_makeP exA exP exCd exSetup (exId 2 false false (7/10) 3) id 0 exRaw
    (Solver.IDRs.Work.fresh 3) #[1, 2, 3] #[0, 0, 0] exIDsizes

example : ∃ ds', drun exCd (Lockstep.IDRs.ctorThenSolve (exId 2 false false (7/10) 3) id 0)
      (distribute exCd.part (Lockstep.IDRs.initState exRaw (Solver.IDRs.Work.fresh 3) #[1, 2, 3] #[0, 0, 0])) = some ds' ∧
    Lockstep.IDRs.outOf (ds'.scal 0) = Lockstep.IDRs.outOf (ds'.scal 2) ∧ (ds'.scal 0).M = (ds'.scal 2).M := by
  obtain ⟨ds', h1, h2⟩ := dist_idrs_rank_consistent exA exP exCd exSetup (exId 2 false false (7/10) 3) id 0 exRaw
    (Solver.IDRs.Work.fresh 3) #[1, 2, 3] #[0, 0, 0] exIDsizes
  exact ⟨ds', h1, (h2 0 2 (by decide) (by decide)).1, (h2 0 2 (by decide) (by decide)).2.1⟩

/-- the constructor program leaves `makeP raw` in the registers `vP i` (kernel evaluation, `s = 2`) -/
example : (List.all [0, 1] (fun i =>
    decide ((idSerial (exId 2 false false (7/10))).vec (Lockstep.IDRs.vP i)
      = (Solver.IDRs.makeP (innerProductSerial id) id 2 exRaw) i))) = true := by decide +kernel

/-- program = C05 model on concrete runs: `s = 1, 2, 3`, smoothing, replacement, `omega = 0`, exit by `maxiter`;
`s = 3` on the 3 × 3 system ends in the `precondition` on `M(k,k)` -/
example : (List.all
    [exId 1 false false (7/10), exId 1 true false (7/10), exId 2 true false (7/10), exId 2 false true (7/10),
     exId 2 true true 0, exId 3 false false (7/10), exId 2 false false (7/10) 3]
    (fun p => sameOut (Lockstep.IDRs.outOf (idSerial p).scal, (idSerial p).vec Lockstep.IDRs.vX)
      (idModel p).out (idModel p).x)) = true := by decide +kernel

end Amgcl.C12
