import Amgcl.Proofs.RSTransfer
import Amgcl.Proofs.RSRowSum2
import Amgcl.Proofs.RSStrongC

import Amgcl.Properties.C03
/-!
# C04 (Ruge–Stuben part) — theorems about the FAITHFUL model of `coarsening::ruge_stuben`

Model: `Amgcl/Model/RugeStuben.lean` (`connect`, `cfsplit`, the interpolation loop, loop by loop; tied to the real
templates by exact-rational differential execution, harness/h_rs.cpp, op `rs_transfer`: C/F marks, `S.val`, `S.ptr`,
`S.col` and every entry of `P` are compared).  Property theorems only; helper lemmas in `Proofs/RS*.lean`.

* (a) `cfsplit_no_undecided`, `transfer_all_decided` — after `cfsplit` every point is `C` or `F`: for every pattern,
  every strength-flag array and every transposed pattern handed to `cfsplit` whose initial lambdas are below `n`
  (the condition under which the bucket arrays are indexed in range), and hence for `transfer_operators` on every
  well-formed square matrix without duplicate columns in a row, all parameters.
* (a') `cfsplit_marks`, `transfer_marks` — the meaning of the marks: rows that `connect` marked `F` (no negative
  coupling beyond `eps`) stay `F`, and every other `F` point has a strong neighbour that is `C` in the final splitting
  (so its interpolation row is not empty of candidates); holds for any visiting order of the main loop.
* (b) `cidx_contiguous`, `transfer_P_wellformed` — `cidx` numbers the C points `0 … nc-1` in increasing order without
  gaps, `P` has exactly `nc` columns, every column index is in range (`P.WF`), C rows are the unit rows of their
  coarse index, every column is hit by such a unit row, `empty_level` iff there is no C point, and the row widths
  allocated by the counting pass are exactly the entries written by the fill pass (`interp_width_consistent`).
* (d) `rs_rowsum_one` — interpolation rows sum to one (with and without truncation), under exactly the hypotheses the
  code needs (absolute threshold `eps`, see known finding K05).
* (e) `transfer_R_adjoint`, `coarse_operator_galerkin` — `R = Pᵀ` and `coarse_operator(A,P,R) = R·A·P` entrywise.

Definedness / independence of uninitialised memory (c) is in `Properties/C10b.lean`.
-/
namespace Amgcl.C04b
open Amgcl Amgcl.RS Finset

/-! ## (a) no point is left undecided -/

/-- `cfsplit` decides every variable — all patterns, all strength flags, all transposed patterns -/
theorem cfsplit_no_undecided (G : SGraph) (hG : G.WF) (sptr scol : Array Nat) (cf : Array CF)
    (hcf : cf.size = G.size)
    (hlam : ∀ i, i < G.size → (lambdaInit sptr scol cf G.size).getD i 0 < G.size) (i : Nat) (hi : i < G.size) :
    (cfsplit G sptr scol cf).getD i CF.U = CF.C ∨ (cfsplit G sptr scol cf).getD i CF.U = CF.F := by
  have := RS.cfsplit_no_undecided G hG sptr scol cf hcf hlam i hi
  cases h : (cfsplit G sptr scol cf).getD i CF.U with
  | U => exact absurd h this
  | C => exact Or.inl rfl
  | F => exact Or.inr rfl

example :
    SGraph.wfb #[[(0,false),(1,true)],[(0,true),(1,false),(2,true)],[(1,true),(2,false)]] = true ∧
    (∀ i, i < 3 → (lambdaInit #[0,1,3,4] #[1,0,2,1] #[CF.U,CF.U,CF.U] 3).getD i 0 < 3) ∧
      cfsplit #[[(0,false),(1,true)],[(0,true),(1,false),(2,true)],[(1,true),(2,false)]] #[0,1,3,4] #[1,0,2,1]
        #[CF.U,CF.U,CF.U] = #[CF.F, CF.C, CF.F] := by
  decide +kernel

section transfer
variable {K : Type} [Field K] [LinearOrder K]

/-- `transfer_operators`: the C/F marks handed to the interpolation contain no `'U'`, for every valid matrix and all
parameter values (`eps_strong`, the machine threshold `eps`, any `norm`) -/
theorem transfer_all_decided (g : Garbage K) (norm : K → K) (epsStrong : K) (doTrunc : Bool) (epsTrunc eps : K)
    (A : CRS K) (hA : Input A) :
    (transferFull g norm epsStrong doTrunc epsTrunc eps A).cf.size = A.nrows ∧
    ∀ i, i < A.nrows →
      (transferFull g norm epsStrong doTrunc epsTrunc eps A).cf.getD i CF.U = CF.C ∨
      (transferFull g norm epsStrong doTrunc epsTrunc eps A).cf.getD i CF.U = CF.F := by
  obtain ⟨h1, h2⟩ := transferFull_cf g norm epsStrong doTrunc epsTrunc eps A hA
  refine ⟨h1, fun i hi => ?_⟩
  have := h2 i hi
  cases h : (transferFull g norm epsStrong doTrunc epsTrunc eps A).cf.getD i CF.U with
  | U => exact absurd h this
  | C => exact Or.inl rfl
  | F => exact Or.inr rfl

end transfer

/-- meaning of the marks after `cfsplit`, for every well-formed pattern, every flag array and every transposed pattern
that lists only rows flagging the column (`RS.SpOK`): initial `F` marks are kept, and a new `F` point has a flagged
entry whose column is `C` -/
theorem cfsplit_marks (G : SGraph) (hG : G.WF) (sptr scol : Array Nat) (hsp : SpOK G sptr scol) (cf0 : Array CF)
    (hsz : cf0.size = G.size) :
    (∀ c, cf0.getD c CF.U = CF.F → (cfsplit G sptr scol cf0).getD c CF.U = CF.F) ∧
    (∀ c, (cfsplit G sptr scol cf0).getD c CF.U = CF.F →
      cf0.getD c CF.U = CF.F ∨ ∃ cs ∈ G.row c, cs.2 = true ∧ (cfsplit G sptr scol cf0).getD cs.1 CF.U = CF.C) :=
  RS.cfsplit_marks G hG sptr scol hsp cf0 hsz

/-- the same for `transfer_operators` on every well-formed square matrix: an `F` point either has no negative
coupling beyond `eps` (marked by `connect`) or has a strong `C` neighbour -/
theorem transfer_marks {K : Type} [Field K] [LinearOrder K] (g : Garbage K) (norm : K → K) (epsStrong : K)
    (doTrunc : Bool) (epsTrunc eps : K) (A : CRS K) (hA : A.WF) (hsq : A.ncols = A.nrows) :
    (∀ c, c < A.nrows → (connectRow norm epsStrong eps c (A.row c)).1 = true →
      (transferFull g norm epsStrong doTrunc epsTrunc eps A).cf.getD c CF.U = CF.F) ∧
    (∀ c, (transferFull g norm epsStrong doTrunc epsTrunc eps A).cf.getD c CF.U = CF.F →
      (c < A.nrows ∧ (connectRow norm epsStrong eps c (A.row c)).1 = true) ∨
      ∃ cs ∈ (flagGraph A (transferFull g norm epsStrong doTrunc epsTrunc eps A).S.val).row c,
        cs.2 = true ∧ (transferFull g norm epsStrong doTrunc epsTrunc eps A).cf.getD cs.1 CF.U = CF.C) :=
  transferFull_marks g norm epsStrong doTrunc epsTrunc eps A hA hsq

/-- a 5-point ring with unequal weights: the hypotheses hold (`Input.of_bool`) and the splitting is non-trivial -/
example :
    ((⟨5, #[[(0,2),(1,-1),(4,-1)],[(0,-1),(1,2),(2,-1)],[(1,-1),(2,3),(3,-2)],[(2,-2),(3,3),(4,-1)],
      [(0,-1),(3,-1),(4,2)]]⟩ : CRS ℚ).wfb && decide ((5 : Nat) = 5) &&
     (⟨5, #[[(0,2),(1,-1),(4,-1)],[(0,-1),(1,2),(2,-1)],[(1,-1),(2,3),(3,-2)],[(2,-2),(3,3),(4,-1)],
      [(0,-1),(3,-1),(4,2)]]⟩ : CRS ℚ).nodupb) = true ∧
    (transferFull ⟨fun j => 7 + j, fun _ _ => true, fun j => 9 + j, fun i k => (5 + i + k, 3)⟩
      (fun x : ℚ => if x < 0 then -x else x) (1/4) true (1/2) (1/2251799813685248)
      ⟨5, #[[(0,2),(1,-1),(4,-1)],[(0,-1),(1,2),(2,-1)],[(1,-1),(2,3),(3,-2)],[(2,-2),(3,3),(4,-1)],
      [(0,-1),(3,-1),(4,2)]]⟩).cf
      = #[CF.F, CF.C, CF.F, CF.F, CF.C] := by
  decide +kernel

/-! ## (b) coarse numbering and shape of `P` -/

/-- `cidx` numbers the C points contiguously: the count is the number of C points, the index of a C point is the
number of C points before it (so indices increase strictly along the C points and stay below the count), and every
number below the count is the index of some C point -/
theorem cidx_contiguous (cf : Array CF) :
    (cidxOf cf).1 = countC cf cf.size ∧
    (∀ i, cf.getD i CF.U = CF.C → (cidxOf cf).2.getD i 0 = countC cf i ∧ (cidxOf cf).2.getD i 0 < (cidxOf cf).1) ∧
    (∀ i j, i < j → cf.getD i CF.U = CF.C → cf.getD j CF.U = CF.C → (cidxOf cf).2.getD i 0 < (cidxOf cf).2.getD j 0) ∧
    (∀ k, k < (cidxOf cf).1 → ∃ i, i < cf.size ∧ cf.getD i CF.U = CF.C ∧ (cidxOf cf).2.getD i 0 = k) := by
  obtain ⟨c1, _, c3⟩ := cidxOf_eq cf
  refine ⟨c1, fun i hi => ?_, fun i j hij hi hj => ?_, fun k hk => ?_⟩
  · rw [c3 i, if_pos hi, c1]
    exact ⟨rfl, countC_lt cf (getD_C_lt cf hi) hi⟩
  · rw [c3 i, if_pos hi, c3 j, if_pos hj]
    exact countC_strict cf hij hi
  · rw [c1] at hk
    obtain ⟨i, h1, h2, h3⟩ := countC_surj cf cf.size k hk
    exact ⟨i, h1, h2, by rw [c3 i, if_pos h2, h3]⟩

example : cidxOf #[CF.F, CF.C, CF.F, CF.F, CF.C, CF.C] = (3, #[0, 0, 0, 0, 1, 2]) := by decide +kernel

section shape
variable {K : Type} [Field K] [LinearOrder K]

/-- the counting pass allocates exactly the cells the fill pass writes (all rows, all parameters, any `cf`) -/
theorem interp_width_consistent (norm : K → K) (doTrunc : Bool) (epsTrunc eps : K) (cf : Array CF) (cidx : Array Nat)
    (i : Nat) (r : Row K) (flags : List Bool) :
    (interpRow norm doTrunc epsTrunc eps cf cidx i r flags).1
      = (interpRow norm doTrunc epsTrunc eps cf cidx i r flags).2.length :=
  RS.interp_width_consistent norm doTrunc epsTrunc eps cf cidx i r flags

/-- shape of the prolongation returned by `transfer_operators` -/
theorem transfer_P_wellformed (g : Garbage K) (norm : K → K) (epsStrong : K) (doTrunc : Bool) (epsTrunc eps : K)
    (A : CRS K) (P : CRS K) (h : (transferFull g norm epsStrong doTrunc epsTrunc eps A).P = .ok P) :
    let cf := (transferFull g norm epsStrong doTrunc epsTrunc eps A).cf
    P.nrows = A.nrows ∧ P.ncols = countC cf cf.size ∧ 0 < P.ncols ∧ P.WF ∧
    (∀ i, i < A.nrows → cf.getD i CF.U = CF.C → P.row i = [(countC cf i, 1)]) ∧
    (∀ k, k < P.ncols → cf.size = A.nrows → ∃ i, i < A.nrows ∧ P.row i = [(k, 1)]) := by
  intro cf
  obtain ⟨h1, h2, h3, h4, h5, _⟩ := interpolation_wf g norm doTrunc epsTrunc eps A _ cf P h
  refine ⟨h1, h2, h3, h4, h5, fun k hk hsz => ?_⟩
  rw [h2] at hk
  obtain ⟨i, hi, hc, he⟩ := countC_surj cf cf.size k hk
  exact ⟨i, by omega, by rw [h5 i (by omega) hc, he]⟩

/-- `error::empty_level` is thrown exactly when the splitting has no C point -/
theorem transfer_empty_level_iff (g : Garbage K) (norm : K → K) (epsStrong : K) (doTrunc : Bool) (epsTrunc eps : K)
    (A : CRS K) :
    (transferFull g norm epsStrong doTrunc epsTrunc eps A).P = .emptyLevel ↔
      countC (transferFull g norm epsStrong doTrunc epsTrunc eps A).cf
        (transferFull g norm epsStrong doTrunc epsTrunc eps A).cf.size = 0 := by
  unfold transferFull interpolation
  simp only
  rw [(cidxOf_eq _).1]
  constructor
  · intro h; split at h
    · assumption
    · cases h
  · intro h; rw [if_pos h]

end shape

example :
    (match (transferFull ⟨fun j => 7 + j, fun _ _ => true, fun j => 9 + j, fun i k => (5 + i + k, 3)⟩
      (fun x : ℚ => if x < 0 then -x else x) (1/4) true (1/5) (1/2251799813685248)
      ⟨3, #[[(0,2),(1,-1)],[(0,-1),(1,2),(2,-1)],[(1,-1),(2,2)]]⟩).P with
      | .ok P => (P.ncols, P.rows)
      | _ => (0, #[])) = (1, #[[(0, 1/2)], [(0, 1)], [(0, 1/2)]]) := by
  decide +kernel

example :
    (match (transferFull ⟨fun j => 7 + j, fun _ _ => true, fun j => 9 + j, fun i k => (5 + i + k, 3)⟩
      (fun x : ℚ => if x < 0 then -x else x) (1/4) true (1/5) (1/2251799813685248)
      ⟨2, #[[(0,2)],[(1,3)]]⟩).P with
      | .emptyLevel => true
      | _ => false) = true := by
  decide +kernel

/-! ## (d) interpolation rows sum to one -/

section rowsum
variable {K : Type} [Field K] [LinearOrder K] [IsStrictOrderedRing K]

/-- one row of the interpolation loop (l.189-244), for ANY C/F marks, flags and coarse numbering: the entries written
to the row of `P` sum to one when the stored values of the row of `A` sum to zero, the row has at most one stored
diagonal entry and no flagged diagonal entry, and — the hypotheses the code needs — `0 ≤ eps`, `0 ≤ eps_trunc`, the
strong negative C couplings exceed the ABSOLUTE threshold (`eps < |a_den|`; cf. known finding K05: a row whose
couplings are all below `eps` is not interpolated at all), truncation keeps some of them (`eps < |a_den − d_neg|`),
and for the positive off-diagonals: there are none, or there is no strong positive C coupling beyond `eps` (then
`b_num` is lumped into the diagonal), or they are interpolated as well and the diagonal is positive -/
theorem rs_rowsum_one (norm : K → K) (hnorm : ∀ x, norm x = |x|) (doTrunc : Bool) (epsTrunc eps : K)
    (heps : 0 ≤ eps) (het : 0 ≤ epsTrunc) (cf : Array CF) (cidx : Array Nat) (i : Nat) (r : Row K) (flags : List Bool)
    (hdiag : ((interpEntries cf r flags).filter fun e => decide (e.1.1 = i)).length ≤ 1)
    (hoff : ∀ e ∈ interpEntries cf r flags, e.2 = true → e.1.1 ≠ i)
    (hsum : ((interpEntries cf r flags).map (·.1.2)).sum = 0)
    (ha : eps < |(interpAcc doTrunc i (interpWidth doTrunc epsTrunc (interpEntries cf r flags)).1
            (interpWidth doTrunc epsTrunc (interpEntries cf r flags)).2.1 (interpEntries cf r flags)).aDen|)
    (hat : doTrunc = true → eps < |(interpAcc doTrunc i (interpWidth doTrunc epsTrunc (interpEntries cf r flags)).1
            (interpWidth doTrunc epsTrunc (interpEntries cf r flags)).2.1 (interpEntries cf r flags)).aDen
          - (interpAcc doTrunc i (interpWidth doTrunc epsTrunc (interpEntries cf r flags)).1
            (interpWidth doTrunc epsTrunc (interpEntries cf r flags)).2.1 (interpEntries cf r flags)).dNeg|)
    (hb : let a := interpAcc doTrunc i (interpWidth doTrunc epsTrunc (interpEntries cf r flags)).1
            (interpWidth doTrunc epsTrunc (interpEntries cf r flags)).2.1 (interpEntries cf r flags)
          a.bNum = 0 ∨ |a.bDen| < eps ∨
          (eps < |a.bDen| ∧ (doTrunc = true → eps < |a.bDen - a.dPos|) ∧ 0 < a.dia)) :
    ((interpRow norm doTrunc epsTrunc eps cf cidx i r flags).2.map (·.2)).sum = 1 :=
  interp_rowsum_one norm hnorm doTrunc epsTrunc eps heps het cf cidx i r flags hdiag hoff hsum ha hat hb

/-- the same for the `P` returned by `transfer_operators` on a valid matrix: the structural hypotheses follow from
the input (no duplicate columns) and from the way `connect` sets the flags (never on the diagonal) -/
theorem transfer_rowsum_one (g : Garbage K) (norm : K → K) (hnorm : ∀ x, norm x = |x|) (epsStrong : K) (doTrunc : Bool)
    (epsTrunc eps : K) (heps : 0 ≤ eps) (het : 0 ≤ epsTrunc) (A : CRS K) (hA : Input A) (P : CRS K)
    (hP : (transferFull g norm epsStrong doTrunc epsTrunc eps A).P = .ok P) (i : Nat) (hi : i < A.nrows)
    (hF : (transferFull g norm epsStrong doTrunc epsTrunc eps A).cf.getD i CF.U ≠ CF.C)
    (hzero : ((A.row i).map (·.2)).sum = 0)
    (ha : eps < |(rowAcc (transferFull g norm epsStrong doTrunc epsTrunc eps A) doTrunc epsTrunc A i).aDen|)
    (hat : doTrunc = true →
      eps < |(rowAcc (transferFull g norm epsStrong doTrunc epsTrunc eps A) doTrunc epsTrunc A i).aDen
        - (rowAcc (transferFull g norm epsStrong doTrunc epsTrunc eps A) doTrunc epsTrunc A i).dNeg|)
    (hb : let a := rowAcc (transferFull g norm epsStrong doTrunc epsTrunc eps A) doTrunc epsTrunc A i
          a.bNum = 0 ∨ |a.bDen| < eps ∨
          (eps < |a.bDen| ∧ (doTrunc = true → eps < |a.bDen - a.dPos|) ∧ 0 < a.dia)) :
    ((P.row i).map (·.2)).sum = 1 :=
  RS.transfer_rowsum_one g norm hnorm epsStrong doTrunc epsTrunc eps heps het A hA P hP i hi hF hzero ha hat hb

end rowsum

/-- non-vacuity: row 2 of a 4-point zero-row-sum matrix with a positive coupling, truncation on
(`eps_trunc = 1/2` drops the weaker of its two strong C couplings): all hypotheses hold -/
example :
    let r : Row ℚ := [(0,-1),(1,-4),(2,4),(3,1)]
    let cf : Array CF := #[CF.C, CF.C, CF.F, CF.F]
    let fl := [true, true, false, false]
    let a := interpAcc true 2 (interpWidth true (1/2) (interpEntries cf r fl)).1
      (interpWidth true (1/2) (interpEntries cf r fl)).2.1 (interpEntries cf r fl)
    (r.map (·.2)).sum = 0 ∧ a.aDen = -5 ∧ a.dNeg = -1 ∧ a.bNum = 1 ∧ a.bDen = 0 ∧
    (interpRow (fun x : ℚ => if x < 0 then -x else x) true (1/2) (1/2251799813685248) cf #[0,1,0,0] 2 r fl).2
      = [(1, 1)] := by
  decide +kernel

/-! ## (e) restriction and coarse operator -/

section galerkin
variable {K : Type} [Field K] [LinearOrder K]

/-- `transfer_operators` returns `R = transpose(P)`, and that is the adjoint: `R[c,i] = P[i,c]` -/
theorem transfer_R_adjoint (g : Garbage K) (norm : K → K) (epsStrong : K) (doTrunc : Bool) (epsTrunc eps : K)
    (A P R : CRS K) (h : transferOperators g norm epsStrong doTrunc epsTrunc eps A = .ok (P, R)) :
    (transferFull g norm epsStrong doTrunc epsTrunc eps A).P = .ok P ∧ R = transpose id P ∧
    R.nrows = P.ncols ∧ R.ncols = P.nrows ∧
    ∀ c i, c < P.ncols → i < P.nrows → R.get c i = P.get i c := by
  unfold transferOperators at h
  split at h
  · rename_i P' hP
    injection h with h
    injection h with h1 h2
    subst h1; subst h2
    refine ⟨hP, rfl, (C08.transpose_shape id P').1, (C08.transpose_shape id P').2, fun c i hc hi => ?_⟩
    have := C08.transpose_get (AddMonoidHom.id K) P' c i hc hi
    simpa using this
  · cases h
  · cases h

/-- `coarse_operator(A, P, R) = detail::galerkin(A, P, R)` denotes `Pᵀ·A·P`, for every thread count (both SpGEMMs) -/
theorem coarse_operator_galerkin (nt : Nat) (g : Garbage K) (norm : K → K) (epsStrong : K) (doTrunc : Bool)
    (epsTrunc eps : K) (A P R : CRS K) (hA : A.WF)
    (h : transferOperators g norm epsStrong doTrunc epsTrunc eps A = .ok (P, R)) (i j : Nat) (hi : i < P.ncols) :
    (Amg.galerkin nt A P R).get i j
      = ∑ k ∈ range A.nrows, P.get k i * (∑ l ∈ range A.ncols, A.get k l * P.get l j) := by
  obtain ⟨hP, hR, hRn, hRc, hget⟩ := transfer_R_adjoint g norm epsStrong doTrunc epsTrunc eps A P R h
  obtain ⟨h1, _, _, h4, _⟩ := transfer_P_wellformed g norm epsStrong doTrunc epsTrunc eps A P hP
  have hRwf : R.WF := by rw [hR]; exact RS.transpose_wf id P
  rw [C03.galerkin_get_any nt A P R hA h4 hRwf (by rw [hRc, h1]) i j (by rw [hRn]; exact hi)]
  rw [hRc, h1]
  apply sum_congr rfl
  intro k hk
  rw [hget i k hi (by rw [h1]; exact mem_range.mp hk)]

end galerkin

end Amgcl.C04b
