import Amgcl.Properties.C20
import Amgcl.Proofs.CApiTable
import Amgcl.Proofs.CApiTableRef
/-!
# C20 — the C interface as a TABLE regenerated from lib/amgcl.cpp: generic theorems

`tools/capi_extract.py` translates every entry point of lib/amgcl.h / lib/amgcl.cpp into a `CApi.Entry`
(`Model/CApiTable.lean`) on every run; `Amgcl/Generated/CApiTable.lean` proves `capiTable.Consistent` by `decide`.
The theorems below hold for ANY table `t` with `t.Consistent` and tie the table to the hand models of
`Model/CApi.lean` / `Model/CApiParams.lean`, so that the theorems of `Properties/C20.lean` speak about the code as
extracted, not about a transcription:

* (views) `table_view_is_mkView`, `table_fortran_view_eq`, `table_fortran_view_ops_eq`,
  `table_view_reads_in_bounds`, `table_fortran_forwards_same` — the tuple an entry point builds, read with the
  transform amounts and range ends AS EXTRACTED (separately for `ptr` and `col`), is the `View` of `mkView` with
  the index base of the entry point's name; hence every `_f` entry point on `(ptr+1, col+1, val)` hands its C++
  callee the rows — and the same callee, with the same argument roles — that its twin hands over on
  `(ptr, col, val)`, and on the arrays of any CRS matrix every dereference is in bounds;
* (handles) `table_call_eq_declared`, `table_script_safe_iff_balanced`, `table_create_has_destroy` — the handle
  footprint of every entry point as extracted (which parameter is cast to which class, what is `new`ed /
  `delete`d) is the call of the state machine of `Model/CApi.lean` that the NAME of the entry point promises: no
  entry point casts a handle to a class of another family, every family has its create and its destroy;
* (parameters) `table_setter_is_put`, `table_setters_last_write_wins` — each typed setter performs exactly
  `put(name, value)` on the tree behind its handle, so `params_last_write_wins` of `Properties/C20.lean` holds
  for histories of calls of the extracted entry points.

Non-vacuity examples use `CApi.refTable` (a hand-kept copy of the table as found; `Proofs/CApiTableRef.lean`).
-/
namespace Amgcl.C20b
open Amgcl Amgcl.CApi

section view
variable {K : Type}

/-- **The extracted tuple denotes `mkView`.**  For every entry point of a consistent table that builds a tuple:
the view denoted by the EXTRACTED transform amounts (of `ptr` and of `col`, separately) and range ends is the view
`mkView β` of `Model/CApi.lean` with `β` the index base announced by the name (`1` for `_f`, else `0`) — for all
sizes and all caller arrays. -/
theorem table_view_is_mkView (t : Table) (ht : t.Consistent) (e : Entry) (he : e ∈ t.entries)
    (A : TupleSpec) (hA : e.body.tuple? = some A) (n : Nat) (ptr col : Array Int) (val : Array K) :
    A.wellShaped = true ∧ A.view n ptr col val = mkView e.base n ptr col val := by
  obtain ⟨s, rfl⟩ := (ht.entry he).tuple_std hA
  exact ⟨by simp [TupleSpec.wellShaped, stdTuple], stdTuple_view s 1 e.base n ptr col val⟩

example : ∃ e ∈ refTable.entries, e.name = "amgcl_solver_solve_mtx_f" ∧ e.base = 1 ∧ e.body.tuple?.isSome := by
  decide +kernel

/-- **Every `_f` entry point sees the matrix its twin sees.**  For every `_f` entry point that builds a tuple
there is an entry point of the same family and verb without `_f` which reaches the same C++ call with the same
argument roles and builds a tuple such that, for ALL arrays, the rows the `crs` constructor reads through the
`_f` tuple over `(ptr+1, col+1, val)` — failures included — are the rows it reads through the twin's tuple over
`(ptr, col, val)`. -/
theorem table_fortran_view_eq (t : Table) (ht : t.Consistent) (e : Entry) (he : e ∈ t.entries)
    (hf : e.fortran = true) (A : TupleSpec) (hA : e.body.tuple? = some A) :
    ∃ e0 ∈ t.entries, e0.family = e.family ∧ e0.verb = e.verb ∧ e0.fortran = false
      ∧ e.body.cppCall = e0.body.cppCall
      ∧ ∃ A0, e0.body.tuple? = some A0 ∧ ∀ (n : Nat) (ptr col : Array Int) (val : Array K),
          (A.view n (ptr.map (· + 1)) (col.map (· + 1)) val).bind View.toRows
            = (A0.view n ptr col val).bind View.toRows := by
  have ok := ht.entry he
  obtain ⟨e0, he0, hfam, hverb, hf0, hcall⟩ := ok.twin_exists hf
  have hnf : e.body.isForward = false := by
    cases hb : e.body <;> simp_all [Body.tuple?, Body.isForward]
  have hnf0 := (ht.entry he0).nonfortran_not_forward hf0
  rw [resolve_of_not_forward t e hnf, resolve_of_not_forward t e0 hnf0] at hcall
  obtain ⟨A0, hA0⟩ := tuple_of_cppCall_eq hcall hA
  refine ⟨e0, he0, hfam, hverb, hf0, hcall, A0, hA0, ?_⟩
  intro n ptr col val
  rw [(table_view_is_mkView t ht e he A hA n _ _ val).2, (table_view_is_mkView t ht e0 he0 A0 hA0 n ptr col val).2]
  have h1 : e.base = 1 := by simp [Entry.base, hf]
  have h0 : e0.base = 0 := by simp [Entry.base, hf0]
  rw [h1, h0]
  exact C20.fortran_view_eq n ptr col val

/-- non-vacuity: the reference table has three `_f` entry points that build a tuple -/
example : (refTable.entries.filter (fun e => e.fortran && e.body.tuple?.isSome)).map (·.name)
    = ["amgcl_precond_create_f", "amgcl_solver_create_f", "amgcl_solver_solve_mtx_f"] := by decide +kernel

/-- the same for `residual` and `spmv` through the tuple (what `operator()(A, rhs, x)` evaluates on the
replacement matrix of `amgcl_solver_solve_mtx_f`) -/
theorem table_fortran_view_ops_eq [Add K] [Mul K] [Sub K] [Zero K] (t : Table) (ht : t.Consistent) (e : Entry)
    (he : e ∈ t.entries) (hf : e.fortran = true) (A : TupleSpec) (hA : e.body.tuple? = some A) :
    ∃ e0 ∈ t.entries, e0.family = e.family ∧ e0.verb = e.verb ∧ e0.fortran = false
      ∧ ∃ A0, e0.body.tuple? = some A0 ∧ ∀ (n : Nat) (ptr col : Array Int) (val f x : Array K),
          (A.view n (ptr.map (· + 1)) (col.map (· + 1)) val).bind (fun v => v.residual f x)
              = (A0.view n ptr col val).bind (fun v => v.residual f x)
          ∧ (A.view n (ptr.map (· + 1)) (col.map (· + 1)) val).bind (fun v => v.mulVec x)
              = (A0.view n ptr col val).bind (fun v => v.mulVec x) := by
  obtain ⟨e0, he0, hfam, hverb, hf0, _, A0, hA0, _⟩ := table_fortran_view_eq (K := K) t ht e he hf A hA
  refine ⟨e0, he0, hfam, hverb, hf0, A0, hA0, ?_⟩
  intro n ptr col val f x
  rw [(table_view_is_mkView t ht e he A hA n _ _ val).2, (table_view_is_mkView t ht e0 he0 A0 hA0 n ptr col val).2]
  have h1 : e.base = 1 := by simp [Entry.base, hf]
  have h0 : e0.base = 0 := by simp [Entry.base, hf0]
  rw [h1, h0]
  exact C20.fortran_view_ops_eq n ptr col val f x

example : ∃ e ∈ refTable.entries, e.fortran = true ∧ ∃ A, e.body.tuple? = some A ∧
    (A.view 2 #[1, 3, 4] #[2, 1, 2] #[(5 : Int), -1, 7]).bind (fun v => v.residual #[10, 20] #[1, 2])
      = some #[1, 6] := by decide +kernel

/-- **Every dereference is in bounds.**  For every entry point of a consistent table that builds a tuple and every
CRS matrix `M` stored with the index base of the entry point: the tuple is built without reading outside `ptr`
(the raw `ptr[n]`), `nonzeros`, both passes of the `crs` constructor over every row and — for a well-formed `M` and
vectors of its size — `residual` and `spmv` through the tuple (their reads of the caller's `f`, `x` included) never
leave the caller's arrays, and the rows read are the rows of `M`. -/
theorem table_view_reads_in_bounds [Add K] [Mul K] [Sub K] [Zero K] (t : Table) (ht : t.Consistent) (e : Entry)
    (he : e ∈ t.entries) (A : TupleSpec) (hA : e.body.tuple? = some A) (M : CRS K) :
    ∃ v : View K, A.view M.nrows (ptrArr e.base M) (colArr e.base M) (valArr M) = some v
      ∧ v.nonzeros = some (M.rows.toList.flatten.length : Int)
      ∧ (∀ i, i < M.nrows → v.rowWidth i = some (M.row i).length)
      ∧ (∀ i, i < M.nrows → (v.row i).isSome)
      ∧ v.toRows = some (intRows M)
      ∧ (M.WF → ∀ f x : Array K, M.ncols ≤ x.size → M.nrows ≤ f.size →
            (v.residual f x).isSome ∧ (v.mulVec x).isSome) := by
  obtain ⟨v, hv, h1, h2, h3, _, h5⟩ := C20.view_reads_in_bounds (K := K) e.base M
  refine ⟨v, ?_, h1, h2, h3, ?_, h5⟩
  · rw [(table_view_is_mkView t ht e he A hA _ _ _ _).2]; exact hv
  · have := C20.view_rows_of_crs e.base M
    rw [hv] at this
    exact this

example : ∃ e ∈ refTable.entries, e.name = "amgcl_precond_create_f" ∧ ∃ A, e.body.tuple? = some A ∧
    (A.view 2 (ptrArr 1 (⟨2, #[[(1, (5 : Int)), (0, -1)], [(1, 7)]]⟩ : CRS Int))
      (colArr 1 ⟨2, #[[(1, (5 : Int)), (0, -1)], [(1, 7)]]⟩) (valArr ⟨2, #[[(1, (5 : Int)), (0, -1)], [(1, 7)]]⟩)).bind
      View.toRows = some #[[(1, 5), (0, -1)], [(1, 7)]] := by decide +kernel

/-- **0- and 1-based entry points forward the same thing.**  For every `_f` entry point `e` of a consistent
table (whether it builds a tuple itself or forwards to another entry point) there is a twin `e0` without `_f`
such that for ALL arrays what reaches the C++ library from `e` on `(ptr+1, col+1, val)` — the callee, the roles
of its arguments, the rows it reads through the tuple, or the failure of a read — is what reaches it from `e0` on
`(ptr, col, val)`. -/
theorem table_fortran_forwards_same (t : Table) (ht : t.Consistent) (e : Entry) (he : e ∈ t.entries)
    (hf : e.fortran = true) :
    ∃ e0 ∈ t.entries, e0.family = e.family ∧ e0.verb = e.verb ∧ e0.fortran = false
      ∧ ∀ (n : Nat) (ptr col : Array Int) (val : Array K),
          t.forwarded e n (ptr.map (· + 1)) (col.map (· + 1)) val = t.forwarded e0 n ptr col val := by
  have ok := ht.entry he
  by_cases hfw : e.body.isForward = true
  · -- forwards to an entry point without a matrix argument
    obtain ⟨e0, he0, hfam, hverb, hf0, hcall⟩ := ok.twin_exists hf
    refine ⟨e0, he0, hfam, hverb, hf0, ?_⟩
    intro n ptr col val
    have h1 := ok.forward_resolve_tuple_none hfw
    have h2 : (t.resolve e0).tuple? = none := by
      have a := hasMatrix_cppCall (t.resolve e)
      have b := hasMatrix_cppCall (t.resolve e0)
      rw [hcall, b, h1] at a
      simpa using a
    unfold Table.forwarded
    rw [h1, h2, hcall]
  · have hnf : e.body.isForward = false := by simpa using hfw
    cases hA : e.body.tuple? with
    | none =>
      obtain ⟨e0, he0, hfam, hverb, hf0, hcall⟩ := ok.twin_exists hf
      refine ⟨e0, he0, hfam, hverb, hf0, ?_⟩
      intro n ptr col val
      have h1 : (t.resolve e).tuple? = none := by rw [resolve_of_not_forward t e hnf]; exact hA
      have h2 : (t.resolve e0).tuple? = none := by
        have a := hasMatrix_cppCall (t.resolve e)
        have b := hasMatrix_cppCall (t.resolve e0)
        rw [hcall, b, h1] at a
        simpa using a
      unfold Table.forwarded
      rw [h1, h2, hcall]
    | some A =>
      obtain ⟨e0, he0, hfam, hverb, hf0, hcall, A0, hA0, hrows⟩ := table_fortran_view_eq (K := K) t ht e he hf A hA
      refine ⟨e0, he0, hfam, hverb, hf0, ?_⟩
      intro n ptr col val
      have hnf0 := (ht.entry he0).nonfortran_not_forward hf0
      unfold Table.forwarded
      rw [resolve_of_not_forward t e hnf, resolve_of_not_forward t e0 hnf0, hA, hA0]
      simp only [hrows n ptr col val, hcall]

/-- non-vacuity: all four `_f` entry points of the reference table, on a proper matrix -/
example : (refTable.entries.filter (·.fortran)).map
      (fun e => (refTable.forwarded e 2 #[1, 3, 4] #[2, 1, 2] #[(5 : Int), -1, 7]).map (fun f => f.call.callee))
    = [some (.ctor .precond), some (.ctor .solver), some (.solve2 .solver), some (.solve3 .solver)] := by
  decide +kernel
example : (refTable.entries.filter (·.fortran)).map
      (fun e => (refTable.forwarded e 2 #[1, 3, 4] #[2, 1, 2] #[(5 : Int), -1, 7]).bind (fun f => f.matrix))
    = [some #[[(1, 5), (0, -1)], [(1, 7)]], some #[[(1, 5), (0, -1)], [(1, 7)]], none,
       some #[[(1, 5), (0, -1)], [(1, 7)]]] := by decide +kernel

end view

section handles

/-- **No entry point uses a handle of another type.**  For every call a client can write — an entry point of a
consistent table by name, with handle numbers (or `NULL`) for its handle parameters — the footprint of the
function body AS EXTRACTED (which parameter is `static_cast` to which class and dereferenced, which class is
`new`ed / `delete`d; a forwarding `_f` function resolved to its callee) is the call of the state machine of
`Model/CApi.lean` that the NAME `amgcl_<family>_<verb>` promises: `*_create` creates a handle of the family and
dereferences the parameter handle only if it is not `NULL`, `*_destroy` destroys a handle of the family, everything
else uses exactly one handle of the family. -/
theorem table_call_eq_declared (t : Table) (ht : t.Consistent) (c : ApiCall) : t.call c = t.declared c :=
  call_eq_declared ht c

example : refTable.call ⟨"amgcl_solver_create_f", [some 0]⟩ = some (.objCreate true (some 0))
    ∧ refTable.call ⟨"amgcl_solver_solve_f", [some 3]⟩ = some (.use .solver 3)
    ∧ refTable.call ⟨"amgcl_precond_create", [none]⟩ = some (.objCreate false none)
    ∧ refTable.call ⟨"amgcl_params_seti", [none]⟩ = none := by decide +kernel

/-- **Scripts over the extracted entry points.**  A client script (entry points by name) whose declared calls are
`Balanced` — every handle used between its create and its destroy only, by the functions of its family — runs
through the state machine with the EXTRACTED footprints without touching a dead / foreign / unknown handle, and
conversely. -/
theorem table_script_safe_iff_balanced (t : Table) (ht : t.Consistent) (script : List ApiCall) (calls : List Call)
    (hdecl : script.mapM t.declared = some calls) :
    script.mapM t.call = some calls ∧ (Balanced calls ↔ ∃ st, run calls = .ok st) := by
  have : t.call = t.declared := funext (call_eq_declared ht)
  rw [this]
  exact ⟨hdecl, C20.handle_no_use_after_destroy calls⟩

example : ([⟨"amgcl_params_create", []⟩, ⟨"amgcl_params_setf", [some 0]⟩, ⟨"amgcl_solver_create_f", [some 0]⟩,
      ⟨"amgcl_params_destroy", [some 0]⟩, ⟨"amgcl_solver_solve_mtx_f", [some 1]⟩, ⟨"amgcl_solver_destroy", [some 1]⟩]
      : List ApiCall).mapM refTable.declared
    = some [.paramsCreate, .use .params 0, .objCreate true (some 0), .destroy .params 0, .use .solver 1,
            .destroy .solver 1] := by decide +kernel

/-- **Every create has its destroy.**  For every entry point that creates a handle of kind `k` a consistent table
has an entry point `amgcl_<k>_destroy(handle)` whose body is `delete static_cast<K*>(handle)` with `K` the class of
that kind — the class that was `new`ed. -/
theorem table_create_has_destroy (t : Table) (ht : t.Consistent) (e : Entry) (_he : e ∈ t.entries) (k : Kind)
    (_hk : e.body.creates = some k) :
    ∃ d ∈ t.entries, d.body = .destroy k 0 ∧ d.family = k ∧ d.verb = "destroy" ∧ d.types = [.handle]
      ∧ d.name = "amgcl_" ++ kindStr k ++ "_" ++ "destroy" := by
  obtain ⟨d, hd, hdk⟩ := (ht.families k).2
  have ok := ht.entry hd
  have hb := ok.body
  obtain ⟨_, hv⟩ := verb_flags ok.verb
  have hn := ok.name
  unfold Entry.bodyOk at hb
  cases hbd : d.body with
  | destroy k' h =>
    rw [hbd] at hb hdk hv
    simp only [Body.destroys, Option.some.injEq] at hdk
    subst hdk
    simp only [Bool.and_eq_true, beq_iff_eq, Bool.not_eq_true'] at hb
    obtain ⟨⟨⟨⟨hfam, hh⟩, hty⟩, _⟩, hfo⟩ := hb
    simp only [Body.destroys, Option.isSome_some, beq_iff_eq] at hv
    subst hh
    refine ⟨d, hd, hbd, hfam.symm, hv, hty, ?_⟩
    unfold Entry.nameOk at hn
    simp only [beq_iff_eq] at hn
    rw [hn, ← hfam, hv, hfo]
    simp
  | _ => rw [hbd] at hdk; simp [Body.destroys] at hdk

example : (refTable.entries.filter (fun e => e.body.creates.isSome)).map (·.name)
    = ["amgcl_params_create", "amgcl_precond_create", "amgcl_precond_create_f", "amgcl_solver_create",
       "amgcl_solver_create_f"] := by decide +kernel

end handles

section params
open Amgcl.Params

/-- **Each typed setter performs exactly `put(name, value)`.**  In a consistent table an entry point of the
parameter family with three parameters has the body `static_cast<Params*>(prm)->put(name, value)` — handle first,
path second, value (an `int`, a `float` or a C string) third; the write it performs on the tree behind its handle
is `PWrite.set path text` of `Model/CApiParams.lean`, whatever the path and the value. -/
theorem table_setter_is_put (t : Table) (ht : t.Consistent) (e : Entry) (he : e ∈ t.entries)
    (hfam : e.family = .params) (h3 : e.params.length = 3) :
    e.body = .put 0 1 2
      ∧ (e.types = [.handle, .cstr, .int] ∨ e.types = [.handle, .cstr, .float] ∨ e.types = [.handle, .cstr, .cstr])
      ∧ ∀ a : SetterArgs, e.body.pwrite (.inl a) = some (.set a.path a.text) := by
  obtain ⟨hb, hty⟩ := setter_is_put ht he hfam h3
  exact ⟨hb, hty, by intro a; rw [hb]; rfl⟩

example : (refTable.entries.filter (fun e => e.family == .params && e.params.length == 3)).map (·.name)
    = ["amgcl_params_seti", "amgcl_params_setf", "amgcl_params_sets"] := by decide +kernel

/-- **Last write wins, for the extracted setters.**  Whatever a parameter handle held (`p`): after any history
`pre` of calls of entry points of the table, a call `name(prm, path, v)` of a typed setter (an entry point of the
parameter family with three parameters) and further setter calls `post` for other paths, a reader of the handle
sees `v` at `path`. -/
theorem table_setters_last_write_wins (t : Table) (ht : t.Consistent) (p : PTree)
    (pre : List PWrite) (name : String) (e : Entry) (hfind : t.find? name = some e)
    (hfam : e.family = .params) (h3 : e.params.length = 3) (a : SetterArgs)
    (post : List (String × SetterArgs)) (posts : List PWrite)
    (hpost : post.mapM (fun na => t.pwrite na.1 (.inl na.2)) = some posts)
    (hspare : ∀ na ∈ post, na.2.path ≠ a.path) :
    ∃ w, t.pwrite name (.inl a) = some w
      ∧ (runWrites p (pre ++ w :: posts)).getPath? a.path = some a.text := by
  obtain ⟨hmem, _⟩ := Table.find?_mem hfind
  obtain ⟨_, _, hw⟩ := table_setter_is_put t ht e hmem hfam h3
  refine ⟨.set a.path a.text, by simp [Table.pwrite, hfind, hw a], ?_⟩
  apply C20.params_last_write_wins
  -- every later write is a `set` of another path
  intro w hwm
  have key : ∀ (l : List (String × SetterArgs)) (ws : List PWrite),
      l.mapM (fun na => t.pwrite na.1 (.inl na.2)) = some ws → (∀ na ∈ l, na.2.path ≠ a.path) →
      ∀ w ∈ ws, w.Spares a.path := by
    intro l
    induction l with
    | nil => intro ws h _ w hw; simp at h; subst h; simp at hw
    | cons x l ih =>
      intro ws h hsp w hw
      rw [List.mapM_cons] at h
      cases hx : t.pwrite x.1 (.inl x.2) with
      | none => rw [hx] at h; simp at h
      | some wx =>
        rw [hx] at h
        cases hl : l.mapM (fun na => t.pwrite na.1 (.inl na.2)) with
        | none => rw [hl] at h; simp at h
        | some wl =>
          rw [hl] at h
          simp at h
          subst h
          rcases List.mem_cons.1 hw with rfl | hw'
          · -- the write of a setter call is a `set` of the path it was given
            unfold Table.pwrite at hx
            cases hfx : t.find? x.1 with
            | none => rw [hfx] at hx; simp at hx
            | some ex =>
              rw [hfx] at hx
              simp only [Option.bind_some] at hx
              cases hbx : ex.body <;> rw [hbx] at hx <;> simp [Body.pwrite] at hx
              subst hx
              exact hsp x (by simp)
          · exact ih wl hl (fun na hna => hsp na (by simp [hna])) w hw'
  exact key post posts hpost hspare w hwm

example : ∃ w, refTable.pwrite "amgcl_params_setf" (.inl ⟨["solver", "tol"], "0.5"⟩) = some w
    ∧ (runWrites PTree.empty ([.set ["solver", "tol"] "1e-06"] ++ w :: [.set ["solver", "type"] "cg"])).getPath?
        ["solver", "tol"] = some "0.5" := by
  obtain ⟨e, he⟩ : ∃ e, refTable.find? "amgcl_params_setf" = some e := ⟨_, rfl⟩
  exact table_setters_last_write_wins refTable refTable_consistent PTree.empty [.set ["solver", "tol"] "1e-06"]
    "amgcl_params_setf" e he (by cases he; rfl) (by cases he; rfl) ⟨["solver", "tol"], "0.5"⟩
    [("amgcl_params_sets", ⟨["solver", "type"], "cg"⟩)] [.set ["solver", "type"] "cg"] rfl
    (by intro na hna; simp at hna; subst hna; simp)

end params

end Amgcl.C20b
