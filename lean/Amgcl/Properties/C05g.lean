import Amgcl.Properties.C01
import Amgcl.Properties.C05e
import Amgcl.Proofs.SolverGMRESC
import Amgcl.Proofs.SolverLGMRESC
import Amgcl.Model.SolverAsFound
import Amgcl.Proofs.KrylovCGStarHerm
import Amgcl.Proofs.KrylovCGExample
import Mathlib.Data.Complex.Basic
/-!
# C05 (seventh part) — complex-valued systems: the solver models over a field with a conjugation

Carrier: any field `K`, a function `conj : K → K` (`math::adjoint` of the value type: complex conjugation for `std::complex<T>`, the
identity for a real type) and amgcl's inner product `ipC conj x y = Σ x_i · conj y_i` (`inner_product(x, y) = yᴴx`,
`Model/Primitives.lean: innerProductSerial`).  The exact correspondence (harness/h_cplx_exact.cpp, ops `cxs_*`) runs the same model
functions at the Gaussian rationals against the real templates at `std::complex<Q>`.

* **(a) truthfulness carries over without ANY hypothesis on `conj`** (not even additivity): the C01 invariants `r = f − A x` of CG /
  BiCGStab / Richardson are statements about `axpby` / `spmv` and hold for every function `ip`; they are instantiated at `ipC conj`
  (`cg_cplx_truthful`, `bicgstab_cplx_truthful`, `richardson_cplx_truthful`).  For GMRES / FGMRES the model with the conjugations of
  `givens_rotations.hpp` written out (`Model/SolverGMRESC.lean`, extra parameter `conj`; at `conj = id` it IS the real-valued model:
  `gmresC_id`, `fgmresC_id`, `lgmresC_id`) the theorem is re-proved: the returned state has just been through `head`
  (`gmres_cplx_truthful`, `fgmres_cplx_truthful`, `lgmres_cplx_truthful`).  NOT re-proved for the `…C` models of IDR(s) and BiCGStab(L)
  (`Model/SolverCplx2.lean`, `Model/SolverBiCGStabLC.lean`): there truthfulness at `std::complex<Q>` is the harness oracle.
* **(b)** `cg_sesq_conjugacy` / `cg_cplx_conjugacy`: CG's residuals are mutually `P`-orthogonal and its search directions mutually
  `A`-conjugate with respect to the sesquilinear form, for the CG MODEL (`Model/SolverCG.lean`, which needs no `conj` parameter: the
  conjugation lives in `ip`).  The proof of `C05b.cg_conjugacy` does NOT transfer literally (it scales the second argument of a
  bilinear form); re-proved in `Proofs/KrylovCGStar.lean` using exactly: `conj` a ring homomorphism (`conj_add`, `conj_mul`) with
  `conj (conj a) = a`; the form additive in both arguments, `⟨a u, v⟩ = a⟨u, v⟩`, `⟨u, a v⟩ = conj a · ⟨u, v⟩`, `⟨u, v⟩ = conj ⟨v, u⟩`;
  `A` and `P` self-adjoint for it.  No positivity and no order.
* **(c) kernel-checked counterexamples on the MODEL for the four repaired conjugation defects** (2×2 Gaussian-rational inputs, the
  as-found statement as a separate definition in `Model/SolverAsFound.lean` / `Model/SolverGivensStar.lean`):
  `bicgstab_asfound_counterexample`, `givens_asfound_counterexample`, `idrs_asfound_counterexample`,
  `bicgstabl_asfound_counterexample`.
-/
namespace Amgcl.C05g
open Amgcl Amgcl.Solver
set_option linter.unusedSectionVars false

/-- amgcl's inner product for a value type with adjoint `conj`: `Σ x_i · conj y_i` -/
abbrev ipC {K : Type} [Add K] [Mul K] [Sub K] [Zero K] (conj : K → K) : Vec K → Vec K → K := innerProductSerial conj

section truthful
variable {K : Type} [Field K] [DecidableEq K] [LT K] [DecidableLT K]

/-- **CG over a field with a conjugation reports the true residual of the `x` it returns** (instance of `C01.cg_truthful`; `conj` is
an arbitrary function) -/
theorem cg_cplx_truthful (conj : K → K) (prm : CG.Params K) (sqrt : K → K) (eps : K) (A : CRS K)
    (hA : A.WF) (P : Vec K → Vec K) (hP : ∀ v, (P v).size = A.ncols) (ws : CG.Work K) (f x0 : Vec K)
    (it : Nat) (res : K) (x : Vec K) (w : CG.Work K)
    (h : CG.solve prm (ipC conj) sqrt eps A P ws f x0 = .ok (it, res, x, w)) :
    res = reported (prologue prm.nsSearch (ipC conj) sqrt eps f) (nrm (ipC conj) sqrt (residual f A x)) :=
  C01.cg_truthful prm (ipC conj) sqrt eps A hA P hP ws f x0 it res x w h

/-- **BiCGStab (both sides)** — instance of `C01.bicgstab_truthful` -/
theorem bicgstab_cplx_truthful (conj : K → K) (prm : BiCGStab.Params K) (sqrt : K → K) (eps : K)
    (A : CRS K) (P : Vec K → Vec K) (ok : BiCGStab.SideOK prm.pside A P) (ws : BiCGStab.Work K) (f x0 : Vec K)
    (it : Nat) (res : K) (x : Vec K) (w : BiCGStab.Work K)
    (h : BiCGStab.solve prm (ipC conj) sqrt eps A P ws f x0 = .ok (it, res, x, w)) :
    res = reported (prologue prm.nsSearch (ipC conj) sqrt eps f) (nrm (ipC conj) sqrt (BiCGStab.Rf prm.pside P f A x)) :=
  C01.bicgstab_truthful prm (ipC conj) sqrt eps A P ok ws f x0 it res x w h

/-- **Richardson** — instance of `C01.richardson_truthful` -/
theorem richardson_cplx_truthful (conj : K → K) (prm : Richardson.Params K) (sqrt : K → K) (eps : K)
    (A : CRS K) (P : Vec K → Vec K) (ws : Richardson.Work K) (f x0 : Vec K)
    (it : Nat) (res : K) (x : Vec K) (w : Richardson.Work K)
    (h : Richardson.solve prm (ipC conj) sqrt eps A P ws f x0 = .ok (it, res, x, w)) :
    res = reported (prologue prm.nsSearch (ipC conj) sqrt eps f) (nrm (ipC conj) sqrt (residual f A x)) :=
  C01.richardson_truthful prm (ipC conj) sqrt eps A P ws f x0 it res x w h

/-- at `conj = id` the conjugation-aware GMRES model is the real-valued one -/
theorem gmresC_id (prm : GMRES.Params K) (ip : Vec K → Vec K → K) (sqrt : K → K) (eps : K) (A : CRS K) (P : Vec K → Vec K)
    (ws : GMRES.Work K) (f x0 : Vec K) : GMRES.runC id prm ip sqrt eps A P ws f x0 = GMRES.run prm ip sqrt eps A P ws f x0 :=
  GMRES.runC_id prm ip sqrt eps A P ws f x0

theorem fgmresC_id (prm : FGMRES.Params K) (ip : Vec K → Vec K → K) (sqrt : K → K) (eps : K) (A : CRS K) (P : Vec K → Vec K)
    (ws : FGMRES.Work K) (f x0 : Vec K) : FGMRES.runC id prm ip sqrt eps A P ws f x0 = FGMRES.run prm ip sqrt eps A P ws f x0 :=
  FGMRES.runC_id prm ip sqrt eps A P ws f x0

/-- **GMRES with the conjugations of `givens_rotations.hpp` written out reports the true (preconditioned) residual** — every `conj`,
every `ip`, every matrix, every function `P`, both sides -/
theorem gmres_cplx_truthful (conj : K → K) (prm : GMRES.Params K) (ip : Vec K → Vec K → K) (sqrt : K → K) (eps : K) (A : CRS K)
    (P : Vec K → Vec K) (ws : GMRES.Work K) (f x0 : Vec K) (it : Nat) (res : K) (x : Vec K) (w : GMRES.Work K)
    (h : GMRES.solveC conj prm ip sqrt eps A P ws f x0 = .ok (it, res, x, w)) :
    res = reported (prologueA prm.nsSearch ip sqrt eps f) (nrmA ip sqrt (BiCGStab.Rf prm.pside P f A x)) := by
  rw [GMRES.solveC, Run.toExcept_ok] at h
  cases hp : prologueA prm.nsSearch ip sqrt eps f with
  | trivial n =>
    rw [GMRES.runC_trivial _ _ _ _ _ _ _ _ _ _ n hp] at h
    simp only [Prod.mk.injEq, Except.ok.injEq] at h
    simp [reported, h.1.2]
  | go nf =>
    rw [GMRES.runC_go _ _ _ _ _ _ _ _ _ _ nf hp] at h
    simp only [Prod.mk.injEq, Except.ok.injEq] at h
    obtain ⟨⟨_, h2⟩, h3, _⟩ := h
    obtain ⟨_, i2⟩ := GMRES.finalC_inv conj prm ip sqrt A P ws f x0 nf
    simp only [reported]
    rw [← h2, ← h3, i2]

/-- **FGMRES** likewise -/
theorem fgmres_cplx_truthful (conj : K → K) (prm : FGMRES.Params K) (ip : Vec K → Vec K → K) (sqrt : K → K) (eps : K) (A : CRS K)
    (P : Vec K → Vec K) (ws : FGMRES.Work K) (f x0 : Vec K) (it : Nat) (res : K) (x : Vec K) (w : FGMRES.Work K)
    (h : FGMRES.solveC conj prm ip sqrt eps A P ws f x0 = .ok (it, res, x, w)) :
    res = reported (prologueA prm.nsSearch ip sqrt eps f) (nrmA ip sqrt (residual f A x)) := by
  rw [FGMRES.solveC, Run.toExcept_ok] at h
  cases hp : prologueA prm.nsSearch ip sqrt eps f with
  | trivial n =>
    rw [FGMRES.runC_trivial _ _ _ _ _ _ _ _ _ _ n hp] at h
    simp only [Prod.mk.injEq, Except.ok.injEq] at h
    simp [reported, h.1.2]
  | go nf =>
    rw [FGMRES.runC_go _ _ _ _ _ _ _ _ _ _ nf hp] at h
    simp only [Prod.mk.injEq, Except.ok.injEq] at h
    obtain ⟨⟨_, h2⟩, h3, _⟩ := h
    obtain ⟨_, i2⟩ := FGMRES.finalC_inv conj prm ip sqrt A P ws f x0 nf
    simp only [reported]
    rw [← h2, ← h3, i2]

/-- **LGMRES** likewise — whatever augmentation vectors the object carries -/
theorem lgmres_cplx_truthful (conj : K → K) (prm : LGMRES.Params K) (ip : Vec K → Vec K → K) (sqrt : K → K) (eps : K) (A : CRS K)
    (P : Vec K → Vec K) (ws : LGMRES.Work K) (f x0 : Vec K) (it : Nat) (res : K) (x : Vec K) (w : LGMRES.Work K)
    (h : LGMRES.solveC conj prm ip sqrt eps A P ws f x0 = .ok (it, res, x, w)) :
    res = reported (prologueA prm.nsSearch ip sqrt eps f) (nrmA ip sqrt (BiCGStab.Rf prm.pside P f A x)) := by
  rw [LGMRES.solveC, Run.toExcept_ok] at h
  cases hp : prologueA prm.nsSearch ip sqrt eps f with
  | trivial n =>
    rw [LGMRES.runC_trivial _ _ _ _ _ _ _ _ _ _ n hp] at h
    simp only [Prod.mk.injEq, Except.ok.injEq] at h
    simp [reported, h.1.2]
  | go nf =>
    rw [LGMRES.runC_go _ _ _ _ _ _ _ _ _ _ nf hp] at h
    simp only [Prod.mk.injEq, Except.ok.injEq] at h
    obtain ⟨⟨_, h2⟩, h3, _⟩ := h
    obtain ⟨_, i2⟩ := LGMRES.finalC_inv conj prm ip sqrt A P (LGMRES.reset prm ws) f x0 nf
    simp only [reported]
    rw [← h2, ← h3, i2]

theorem lgmresC_id (prm : LGMRES.Params K) (ip : Vec K → Vec K → K) (sqrt : K → K) (eps : K) (A : CRS K) (P : Vec K → Vec K)
    (ws : LGMRES.Work K) (f x0 : Vec K) : LGMRES.runC id prm ip sqrt eps A P ws f x0 = LGMRES.run prm ip sqrt eps A P ws f x0 :=
  LGMRES.runC_id prm ip sqrt eps A P ws f x0

/-- CG / GMRES never throw: the hypothesis `solve … = .ok …` of the truthfulness theorems is satisfiable for every input -/
theorem cg_solve_ok (prm : CG.Params K) (ip : Vec K → Vec K → K) (sqrt : K → K) (eps : K) (A : CRS K) (P : Vec K → Vec K)
    (ws : CG.Work K) (f x0 : Vec K) : ∃ it res x w, CG.solve prm ip sqrt eps A P ws f x0 = .ok (it, res, x, w) := by
  unfold CG.solve CG.run
  cases prologue prm.nsSearch ip sqrt eps f <;> exact ⟨_, _, _, _, rfl⟩

theorem gmresC_solve_ok (conj : K → K) (prm : GMRES.Params K) (ip : Vec K → Vec K → K) (sqrt : K → K) (eps : K) (A : CRS K)
    (P : Vec K → Vec K) (ws : GMRES.Work K) (f x0 : Vec K) :
    ∃ it res x w, GMRES.solveC conj prm ip sqrt eps A P ws f x0 = .ok (it, res, x, w) := by
  unfold GMRES.solveC GMRES.runC
  cases prologueA prm.nsSearch ip sqrt eps f <;> exact ⟨_, _, _, _, rfl⟩

theorem fgmresC_solve_ok (conj : K → K) (prm : FGMRES.Params K) (ip : Vec K → Vec K → K) (sqrt : K → K) (eps : K) (A : CRS K)
    (P : Vec K → Vec K) (ws : FGMRES.Work K) (f x0 : Vec K) :
    ∃ it res x w, FGMRES.solveC conj prm ip sqrt eps A P ws f x0 = .ok (it, res, x, w) := by
  unfold FGMRES.solveC FGMRES.runC
  cases prologueA prm.nsSearch ip sqrt eps f <;> exact ⟨_, _, _, _, rfl⟩

theorem lgmresC_solve_ok (conj : K → K) (prm : LGMRES.Params K) (ip : Vec K → Vec K → K) (sqrt : K → K) (eps : K) (A : CRS K)
    (P : Vec K → Vec K) (ws : LGMRES.Work K) (f x0 : Vec K) :
    ∃ it res x w, LGMRES.solveC conj prm ip sqrt eps A P ws f x0 = .ok (it, res, x, w) := by
  unfold LGMRES.solveC LGMRES.runC
  cases prologueA prm.nsSearch ip sqrt eps f <;> exact ⟨_, _, _, _, rfl⟩

theorem richardson_solve_ok (prm : Richardson.Params K) (ip : Vec K → Vec K → K) (sqrt : K → K) (eps : K) (A : CRS K)
    (P : Vec K → Vec K) (ws : Richardson.Work K) (f x0 : Vec K) :
    ∃ it res x w, Richardson.solve prm ip sqrt eps A P ws f x0 = .ok (it, res, x, w) := by
  unfold Richardson.solve Richardson.run
  cases prologue prm.nsSearch ip sqrt eps f <;> exact ⟨_, _, _, _, rfl⟩

end truthful

/-! ### non-vacuity at `ℂ` with complex conjugation (order by modulus, as amgcl declares it) -/
section nonvacuous
open Classical in
noncomputable local instance : DecidableEq ℂ := fun _ _ => Classical.propDecidable _
local instance : LT ℂ := ⟨fun a b => Complex.normSq a < Complex.normSq b⟩
noncomputable local instance : DecidableLT ℂ := fun _ _ => Classical.propDecidable _

/-- a 2×2 non-Hermitian complex system `A = [[2, i], [1, 1+i]]`, `f = (1, i)` -/
noncomputable def cA : CRS ℂ := ⟨2, #[[(0, 2), (1, Complex.I)], [(0, 1), (1, 1 + Complex.I)]]⟩
noncomputable def cf : Vec ℂ := #[1, Complex.I]

example : ∃ it res x w, CG.solve ({ maxiter := 2, tol := 0, abstol := 0, nsSearch := false } : CG.Params ℂ)
    (ipC (starRingEnd ℂ)) (fun z => z) 0 cA vcopy (CG.Work.fresh 2) cf #[0, 0] = .ok (it, res, x, w) :=
  cg_solve_ok _ _ _ _ _ _ _ _ _

example : ∃ it res x w, GMRES.solveC (starRingEnd ℂ)
    ({ maxiter := 2, tol := 0, abstol := 0, nsSearch := false, M := 2, pside := .right } : GMRES.Params ℂ)
    (ipC (starRingEnd ℂ)) (fun z => z) 0 cA vcopy (GMRES.Work.fresh 2) cf #[0, 0] = .ok (it, res, x, w) :=
  gmresC_solve_ok _ _ _ _ _ _ _ _ _ _

example : ∃ it res x w, FGMRES.solveC (starRingEnd ℂ)
    ({ maxiter := 2, tol := 0, abstol := 0, nsSearch := false, M := 2 } : FGMRES.Params ℂ)
    (ipC (starRingEnd ℂ)) (fun z => z) 0 cA vcopy (FGMRES.Work.fresh 2) cf #[0, 0] = .ok (it, res, x, w) :=
  fgmresC_solve_ok _ _ _ _ _ _ _ _ _ _

example : ∃ it res x w, LGMRES.solveC (starRingEnd ℂ)
    ({ maxiter := 2, tol := 0, abstol := 0, nsSearch := false, M := 1, K' := 1, alwaysReset := true, pside := .left } : LGMRES.Params ℂ)
    (ipC (starRingEnd ℂ)) (fun z => z) 0 cA vcopy (LGMRES.Work.fresh 2) cf #[0, 0] = .ok (it, res, x, w) :=
  lgmresC_solve_ok _ _ _ _ _ _ _ _ _ _

example : ∃ it res x w, Richardson.solve
    ({ maxiter := 2, tol := 0, abstol := 0, nsSearch := false, damping := 1 } : Richardson.Params ℂ)
    (ipC (starRingEnd ℂ)) (fun z => z) 0 cA vcopy (Richardson.Work.fresh 2) cf #[0, 0] = .ok (it, res, x, w) :=
  richardson_solve_ok _ _ _ _ _ _ _ _ _

/-- BiCGStab can throw; its hypothesis `solve … = .ok …` is satisfied e.g. by this rational 2×2 call (`conj = id`) -/
example : (match BiCGStab.solve ({ maxiter := 2, tol := 0, abstol := 0, nsSearch := false, pside := .right, checkAfter := false } :
      BiCGStab.Params ℚ) (ipC id) id 0 ⟨2, #[[(0, 2), (1, 1)], [(0, 1), (1, 3)]]⟩ vcopy (BiCGStab.Work.fresh 2) #[1, 2] #[0, 0] with
    | .ok (it, _, _, _) => decide (it = 2) | .error _ => false) = true := by decide +kernel

end nonvacuous


/-! ## (b) conjugacy of CG over a sesquilinear Hermitian form -/
section conjugacy
open Amgcl.Krylov Amgcl.Energy.Bridge Matrix
variable {K : Type} [Field K] [DecidableEq K] [LT K] [DecidableLT K]

/-- **`cg_sesq_conjugacy`** (the general statement).  `ip` any inner-product functor that is a function `Bs` of the denoted vectors
(`IpDenotes`), `conj` a ring homomorphism of `K`, and the hypotheses `Sesq conj`: `conj ∘ conj = id`; `Bs` additive in both arguments,
`Bs (a • u) v = a * Bs u v`, `Bs u (a • v) = conj a * Bs u v`, `Bs u v = conj (Bs v u)`; the denoted matrix and the linear map `Pl` the
preconditioner denotes are self-adjoint for `Bs`.  No breakdown before pass `k` of the model (`ρ_i = ip r_i (P r_i) ≠ 0`,
`ip (A p_i) p_i ≠ 0`, `i < k`).  Then for `i ≠ j`, both `≤ k`: `ip r_i (P r_j) = 0` and `ip p_i (A p_j) = 0`. -/
theorem cg_sesq_conjugacy (n : ℕ) (ip : Vec K → Vec K → K) (sqrt : K → K) (A : CRS K) (hA : A.WF) (hn : A.nrows = n)
    (hm : A.ncols = n) (P : Vec K → Vec K) (Pl : (Fin n → K) →ₗ[K] (Fin n → K)) (hP : PDenotes n P Pl)
    (Bs : (Fin n → K) → (Fin n → K) → K) (hip : IpDenotes n ip Bs) (ws : CG.Work K) (f x0 : Vec K) (e : K)
    (conj : K →+* K) (hs : (cgDataS n A Pl Bs f x0).Sesq conj)
    (k : ℕ) (hnb : ModelNoBreakdownI ip (cgPassI ip sqrt A P ws f x0 e) k) (i j : ℕ) (hi : i ≤ k) (hj : j ≤ k) (hij : i ≠ j)
    (z : Vec K) :
    ip (cgPassI ip sqrt A P ws f x0 e i).w.r (P (cgPassI ip sqrt A P ws f x0 e j).w.r) = 0 ∧
    ip (cgPassI ip sqrt A P ws f x0 e (i + 1)).w.p (spmv 1 A (cgPassI ip sqrt A P ws f x0 e (j + 1)).w.p 0 z) = 0 :=
  model_conjugacy_star n ip sqrt A hA hn hm P Pl hP Bs hip ws f x0 e conj hs k hnb i j hi hj hij z

/-- **`cg_cplx_conjugacy`**: amgcl's inner product `ipC conj x y = Σ x_i · conj y_i`, `conj` an involutive ring homomorphism, `A`
HERMITIAN as a denoted matrix (`A i j = conj (A j i)`), the preconditioner a linear map self-adjoint for `Σ u_i · conj v_i`, no
breakdown before pass `k`: the residuals are mutually `P`-orthogonal and the search directions mutually `A`-conjugate. -/
theorem cg_cplx_conjugacy (n : ℕ) (conj : K →+* K) (hcc : ∀ a, conj (conj a) = a) (sqrt : K → K) (A : CRS K) (hA : A.WF)
    (hn : A.nrows = n) (hm : A.ncols = n) (hherm : ∀ i, i < n → ∀ j, j < n → A.get i j = conj (A.get j i))
    (P : Vec K → Vec K) (Pl : (Fin n → K) →ₗ[K] (Fin n → K)) (hP : PDenotes n P Pl)
    (hPsym : ∀ u v, hermDot n conj (Pl u) v = hermDot n conj u (Pl v)) (ws : CG.Work K) (f x0 : Vec K) (e : K)
    (k : ℕ) (hnb : ModelNoBreakdownI (ipC conj) (cgPassI (ipC conj) sqrt A P ws f x0 e) k) (i j : ℕ) (hi : i ≤ k) (hj : j ≤ k)
    (hij : i ≠ j) (z : Vec K) :
    ipC conj (cgPassI (ipC conj) sqrt A P ws f x0 e i).w.r (P (cgPassI (ipC conj) sqrt A P ws f x0 e j).w.r) = 0 ∧
    ipC conj (cgPassI (ipC conj) sqrt A P ws f x0 e (i + 1)).w.p
      (spmv 1 A (cgPassI (ipC conj) sqrt A P ws f x0 e (j + 1)).w.p 0 z) = 0 :=
  cg_sesq_conjugacy n (ipC conj) sqrt A hA hn hm P Pl hP (hermDot n conj) (ipC_denotes n conj) ws f x0 e conj
    (hermDot_sesq n conj hcc A hherm Pl hPsym f x0) k hnb i j hi hj hij z

/-- the hypotheses are satisfiable: the SPD 3×3 run of `Proofs/KrylovCGExample.lean` at `ℚ` with `conj = id` (three passes without
breakdown; residuals non-zero there) -/
example (i j : ℕ) (hi : i ≤ 3) (hj : j ≤ 3) (hij : i ≠ j) :
    ipC (RingHom.id ℚ) (cgPassI (ipC (RingHom.id ℚ)) Amgcl.rsqrt Ex3.A₃ Ex3.P₃ (CG.Work.fresh 3) Ex3.f₃ Ex3.x₃ 0 i).w.r
      (Ex3.P₃ (cgPassI (ipC (RingHom.id ℚ)) Amgcl.rsqrt Ex3.A₃ Ex3.P₃ (CG.Work.fresh 3) Ex3.f₃ Ex3.x₃ 0 j).w.r) = 0 ∧
    ipC (RingHom.id ℚ) (cgPassI (ipC (RingHom.id ℚ)) Amgcl.rsqrt Ex3.A₃ Ex3.P₃ (CG.Work.fresh 3) Ex3.f₃ Ex3.x₃ 0 (i + 1)).w.p
      (spmv 1 Ex3.A₃ (cgPassI (ipC (RingHom.id ℚ)) Amgcl.rsqrt Ex3.A₃ Ex3.P₃ (CG.Work.fresh 3) Ex3.f₃ Ex3.x₃ 0 (j + 1)).w.p 0 #[]) = 0 :=
  cg_cplx_conjugacy 3 (RingHom.id ℚ) (fun _ => rfl) Amgcl.rsqrt Ex3.A₃ Ex3.hA₃ rfl rfl Ex3.hsym₃ Ex3.P₃ Ex3.Pl₃ Ex3.hP₃
    (fun u v => Ex3.hPsym₃ u v) (CG.Work.fresh 3) Ex3.f₃ Ex3.x₃ 0 3 Ex3.hnb₃ i j hi hj hij #[]

end conjugacy

/-- the statement at the Gaussian rationals with a genuinely complex Hermitian matrix, evaluated by the kernel on the model itself:
`A = [[2, i], [−i, 3]]` (Hermitian positive definite), `f = (1, 1+i)`, `x₀ = 0`, identity preconditioner: `⟨r₀, r₁⟩ = 0`,
`⟨p₀, A p₁⟩ = 0`, both residuals non-zero, and the second pass reaches the exact solution (`r₂ = 0`, finite termination) -/
def hA2 : CRS GQ := ⟨2, #[[(0, ⟨2, 0⟩), (1, ⟨0, 1⟩)], [(0, ⟨0, -1⟩), (1, ⟨3, 0⟩)]]⟩
def hf2 : Vec GQ := #[⟨1, 0⟩, ⟨1, 1⟩]
def cgGQ (k : Nat) : CG.St GQ := (CG.body gqIp id hA2 vcopy)^[k] (CG.init gqIp id hA2 (CG.Work.fresh 2) hf2 #[⟨0, 0⟩, ⟨0, 0⟩] 0)
example : gqIp (cgGQ 0).w.r (cgGQ 1).w.r = 0 ∧ gqIp (cgGQ 1).w.p (spmv 1 hA2 (cgGQ 2).w.p 0 #[]) = 0 ∧
    (cgGQ 0).w.r ≠ #[⟨0, 0⟩, ⟨0, 0⟩] ∧ (cgGQ 1).w.r ≠ #[⟨0, 0⟩, ⟨0, 0⟩] ∧ (cgGQ 2).w.r = #[⟨0, 0⟩, ⟨0, 0⟩] ∧
    residual hf2 hA2 (cgGQ 2).x = #[⟨0, 0⟩, ⟨0, 0⟩] := by decide +kernel

/-! ## (c) the four repaired conjugation defects: counterexamples on the model, Gaussian rationals

Input of the BiCGStab example: `A = [[2, i], [1, 1+i]]` (non-Hermitian), `f = (1, 0)`, `x₀ = 0`, identity preconditioner, `eps = 0`.  The
`sqrt` parameter only feeds the stopping test (with `eps = 0`: "is the residual exactly zero"), so the identity function is passed
(for IDR(s), whose `omega()` divides by `norm(t)²`, an exact root on the two numbers met). -/
section counterexamples

def gA : CRS GQ := ⟨2, #[[(0, ⟨2, 0⟩), (1, ⟨0, 1⟩)], [(0, ⟨1, 0⟩), (1, ⟨1, 1⟩)]]⟩
def gf : Vec GQ := #[⟨1, 0⟩, ⟨0, 0⟩]
def gx0 : Vec GQ := #[⟨0, 0⟩, ⟨0, 0⟩]
def biPrm : BiCGStab.Params GQ :=
  { maxiter := 2, tol := 0, abstol := 0, nsSearch := false, pside := .right, checkAfter := false }
def bi0 : BiCGStab.St GQ := BiCGStab.init biPrm gqIp id gA vcopy (BiCGStab.Work.fresh 2) gf gx0 0

/-- the two defining orthogonality relations of a BiCGStab pass: `rhᴴ s = 0` (choice of `alpha`) and `tᴴ r = 0` (`omega` minimises
`‖s − ω t‖`) -/
def biOrth (o : Except (Err × BiCGStab.St GQ) (BiCGStab.St GQ)) : Option (Bool × Bool) :=
  match o with
  | .ok st => some (decide (gqIp st.w.s st.w.rh = 0), decide (gqIp st.w.r st.w.t = 0))
  | .error _ => none

/-- two passes; the true residual `f − A x` of the result -/
def biTwo (body : BiCGStab.St GQ → Except (Err × BiCGStab.St GQ) (BiCGStab.St GQ)) : Option (Vec GQ) :=
  match body bi0 with
  | .ok s1 => match body s1 with
    | .ok s2 => some (residual gf gA s2.x)
    | .error _ => none
  | .error _ => none

/-- **BiCGStab, defect repaired by 5b0cc60.**  With the statements as they are now the first pass satisfies both orthogonality
relations and two passes solve the 2×2 system exactly (finite termination); with `alpha = rho1 / inner_product(*rh, *v)` and
`omega = inner_product(*t, *s) / inner_product(*t, *t)` as found, the first pass already violates `tᴴ r = 0` (`omega` is the conjugate
of the minimising value; `rh = r₀` is real here, so `alpha` is still right in pass one) and the residual after two passes is not zero. -/
theorem bicgstab_asfound_counterexample :
    biOrth (BiCGStab.body .right gqIp id gA vcopy 0 bi0) = some (true, true) ∧
    biTwo (BiCGStab.body .right gqIp id gA vcopy 0) = some #[⟨0, 0⟩, ⟨0, 0⟩] ∧
    biOrth (BiCGStab.bodyAsFound .right gqIp id gA vcopy 0 bi0) = some (true, false) ∧
    (∃ r, biTwo (BiCGStab.bodyAsFound .right gqIp id gA vcopy 0) = some r ∧ r ≠ #[⟨0, 0⟩, ⟨0, 0⟩]) := by
  refine ⟨by decide +kernel, by decide +kernel, by decide +kernel, ?_⟩
  exact ⟨(biTwo (BiCGStab.bodyAsFound .right gqIp id gA vcopy 0)).getD #[], by decide +kernel, by decide +kernel⟩

/-- **Givens rotations of GMRES / FGMRES / LGMRES, defect repaired by 7b3c7d8** (`Properties/C05e.lean`): the rotation generated as
found (`1 + tmp * tmp`) annihilates `dy` but has `|cs|² + |sn|² = 13/5 ≠ 1` (not unitary); the repaired one gives exactly `1`. -/
theorem givens_asfound_counterexample :
    C05e.gqRowNorm (genRotStar C05e.gqSqrt GQ.absLt ⟨-2 / 5, 6 / 5⟩ ⟨1, 0⟩) = 13 / 5 ∧
    C05e.gqRowNorm (genRotHerm C05e.gqSqrt GQ.conj GQ.absLt ⟨0, 4 / 3⟩ ⟨1, 0⟩) = 1 :=
  ⟨C05e.gq_counterexample.1, C05e.gq_counterexample.2.2.1⟩

/-- exact root on the one number met by the IDR(s) example: `sqrt 25 = 5` -/
def sqrt25 (x : GQ) : GQ := if x = ⟨25, 0⟩ then ⟨5, 0⟩ else ⟨0, 0⟩
def gt : Vec GQ := #[⟨3, 0⟩, ⟨0, 4⟩]
def gs : Vec GQ := #[⟨0, 3⟩, ⟨4, 0⟩]
/-- `tᴴ (s − om t)` -/
def idrsOrth (om : GQ) : GQ := gqIp (axpby (-om) gt 1 gs) gt

/-- **IDR(s), defect repaired by f9a42d3.**  `t = (3, 4i)`, `s = (3i, 4)`, `tᴴs = −7i`: `omega(t, s)` as it is now returns the
residual-minimising `om = −7i/25` (`tᴴ(s − om t) = 0`); with `ts = inner_product(t, s)` as found it returns the conjugate `7i/25` and
`tᴴ(s − om t) = −14i ≠ 0`. -/
theorem idrs_asfound_counterexample :
    IDRs.omegaFnC id gqIp sqrt25 0 gt gs = ⟨0, -7 / 25⟩ ∧ idrsOrth (IDRs.omegaFnC id gqIp sqrt25 0 gt gs) = 0 ∧
    IDRs.omegaFnAsFound gqIp sqrt25 0 gt gs = ⟨0, 7 / 25⟩ ∧ idrsOrth (IDRs.omegaFnAsFound gqIp sqrt25 0 gt gs) = ⟨0, -14⟩ := by
  decide +kernel

def gR : FArr (Vec GQ) := ⟨fun i => if i = 0 then #[⟨1, 0⟩, ⟨0, 1⟩] else #[⟨1, 0⟩, ⟨1, 0⟩]⟩
/-- is the stored matrix the Gram matrix `G(i,j) = inner_product(R[i], R[j])` on `0..1`? -/
def isGram (M : FArr2 GQ) : Bool :=
  (List.range 2).all fun i => (List.range 2).all fun j => decide (M i j = gqIp (gR i) (gR j))

/-- **BiCGStab(L), defect repaired by 10c4abf.**  `R₀ = (1, i)`, `R₁ = (1, 1)`: the matrix built as it is now is the Hermitian Gram
matrix; the chained assignment `MZa(i,j) = MZa(j,i) = adjoint(MZa(j,i))` as found overwrites `⟨R₁,R₀⟩ = 1 − i` by its conjugate and
stores a complex-symmetric matrix that is not the Gram matrix. -/
theorem bicgstabl_asfound_counterexample :
    isGram (BiCGStabL.gramC GQ.conj gqIp 1 gR (.const 0)) = true ∧
    isGram (BiCGStabL.gramAsFound GQ.conj gqIp 1 gR (.const 0)) = false ∧
    (BiCGStabL.gramAsFound GQ.conj gqIp 1 gR (.const 0)) 1 0 = ⟨1, 1⟩ ∧ gqIp (gR 1) (gR 0) = ⟨1, -1⟩ := by
  decide +kernel

end counterexamples

end Amgcl.C05g
