import Amgcl.Proofs.SolverBiCGStabLMin
import Amgcl.Proofs.SolverBiCGStabL1
import Amgcl.Model.Rsqrt
import Mathlib.Algebra.Order.Field.Rat
/-!
# C05 (part h) — BiCGStab(L): the minimal-residual (MR) part of a pass

Model: `Model/SolverBiCGStabL.lean` (bicgstabl.hpp statement by statement).  A pass makes `L` BiCG steps
(`bicgLoop`) and then the polynomial part (`polyPart`): the Gram matrix `MZa(i,j) = ⟨R[i],R[j]⟩`, the coefficients
`Y0[1..L]` from `qr.solve(L, L, …, &MZa(1,1), &MZb(0,1), &Y0[1])` (branch `convex || L == 1`), then
`X += Σ Y0[k]·R[k-1]`, `R[0] −= Σ Y0[k]·R[k]`, `U[0] −= Σ Y0[k]·U[k]`.

The model calls its own copy `Solver.QR.solve` of the QR code (two-dimensional map with an offset).  It is tied to the
flat model `QRModel.solveS` — the subject of C16b — by the refinement theorem `Solver.QR.solve_eq_flat`
(`Proofs/SolverQRBridge.lean`, simulation relation cell `(o+i,o+j)` ↔ flat cell `i·n+j`), so that C16b's
`qr_solve_square` applies.  Inner product: the backend's serial `stdIp`.

* `bicgstabl_mr_normal_equations` — the vector assigned to `R[0]` is orthogonal to `R[1..L]`;
* `bicgstabl_mr_minimises` — it has the smallest norm among `R[0] − Σ_k γ_k R[k]` for ALL `γ` (the competitor is the same
  code path `polyV0 L Y' R` with arbitrary coefficients); `bicgstabl_mr_minimises_of_hsqrt` with an exact root;
* `bicgstabl_pass_residual_le` — for the model's `polyPart` (every branch of the accurate update): `zeta² ` after the
  polynomial part `≤ zeta²` after the BiCG part of the same pass, `|zeta'| ≤ |zeta|`;
* `L = 1` (no root is taken, no rank hypothesis): `bicgstabl_L1_omega` (`Y0[1] = ⟨s,t⟩/⟨t,t⟩`, the `omega` of bicgstab.hpp
  with `s = R[0]`, `t = R[1]`), `bicgstabl_L1_poly_is_bicgstab_omega_step` (the three vector updates are those of the
  `omega` half step of `Model/SolverBiCGStab.lean`), `bicgstabl_L1_mr_minimises`.

Hypotheses of the general statements: `convex = true ∨ L = 1` (the other branch mixes the MR and the OR polynomial and is
NOT a minimiser: no theorem); `R[0..L]` of common length `n`; the root exact on the numbers `compute` applies it to on
the Gram block (`QRModel.ExactRoots`, implied by `∀ x ≥ 0, sqrt x · sqrt x = x`; decidable at `ℚ`); `R[1..L]` linearly
independent (`FullRank`).

* `bicgstabl_L1_is_bicgstab` — ONE PASS of BiCGStab(1) (`BiCGStabL.body`, `L = 1`, `delta ≤ 0`) refines one pass of
  BiCGStab (`BiCGStab.body`, `Model/SolverBiCGStab.lean`): related states (`Rel1`: `R[0] = r`, `Rt = rh`, `zeta = res`,
  `U[0] = p − omega·v`, `rho0 = rho1`, same `alpha`, `omega`, `iter`, and the `x` label `done:` would hand back is bicgstab's
  `x`) go to related states (or both leave after the half step with the same `(iter, res, x)`), PROVIDED the bicgstabl pass
  returns normally (it throws at once on a zero `rho1` / `sigma` where bicgstab goes on for a pass) and the norm after the
  `alpha` half step is not exactly the threshold (`<=` in bicgstab.hpp, `<` in bicgstabl.hpp); `A'` linear, `P` linear for
  right preconditioning; `bicgstabl_L1_init_rel`: the two `operator()`s enter their loops in related states;
  `bicgstabl_L1_guard_agree`: on related states the two loop guards agree unless `zeta = eps` exactly.

* `bicgstabl_L1_loop_is_bicgstab` — the induction over the whole loop: from related states with the same fuel, if the loop
  of the bicgstabl model ends normally and no norm it meets (at the guard, after the `alpha` half step) equals the threshold
  exactly (`NoTie`), the loop of the bicgstab model ends normally with the same `iter`, the same residual norm and the `x`
  label `done:` hands back.  (The harness op `bicgstabl_vs_bicgstab` compares the REAL solvers over whole calls exactly.)

NOT proved here: the case `delta > 0` of the refinement (the accurate update re-bases `x`, `B`, `X`), polynomial optimality over the whole Krylov space and finite termination of BiCGStab(L).
-/
namespace Amgcl.C05h
open Amgcl Amgcl.Solver Amgcl.Solver.BiCGStabL Amgcl.Solver.QR

set_option linter.unusedSectionVars false
variable {K : Type} [Field K] [LinearOrder K] [IsStrictOrderedRing K]

/-- **normal equations of the MR part**: the new `R[0]` is orthogonal to `R[1], …, R[L]` -/
theorem bicgstabl_mr_normal_equations (prm : BiCGStabL.Params K) (sqrt : K → K) (c07 : K) (n : Nat) (st : BiCGStabL.St K)
    (hc : prm.convex = true ∨ prm.L = 1) (hs : ∀ i, i ≤ prm.L → (st.w.R.get i).size = n)
    (hex : QRModel.ExactRoots sqrt prm.L prm.L prm.L 1 (flatOf prm.L 1 (gram stdIp prm.L st.w.R st.w.MZa)) #[])
    (hrank : FullRank n prm.L st.w.R) :
    ∀ k, k < prm.L → stdIp (polyV0 prm.L (passY0 prm stdIp sqrt c07 st) st.w.R) (st.w.R.get (1 + k)) = 0 :=
  polyCoef_orth sqrt c07 n prm.L prm.convex hc st.w hs hex hrank

/-- **the MR part minimises**: `‖R[0] − Σ_k Y0[k]·R[k]‖² ≤ ‖R[0] − Σ_k Y'[k]·R[k]‖²` for every coefficient array `Y'` -/
theorem bicgstabl_mr_minimises (prm : BiCGStabL.Params K) (sqrt : K → K) (c07 : K) (n : Nat) (st : BiCGStabL.St K)
    (hc : prm.convex = true ∨ prm.L = 1) (hs : ∀ i, i ≤ prm.L → (st.w.R.get i).size = n)
    (hex : QRModel.ExactRoots sqrt prm.L prm.L prm.L 1 (flatOf prm.L 1 (gram stdIp prm.L st.w.R st.w.MZa)) #[])
    (hrank : FullRank n prm.L st.w.R) (Y' : FArr K) :
    stdIp (polyV0 prm.L (passY0 prm stdIp sqrt c07 st) st.w.R) (polyV0 prm.L (passY0 prm stdIp sqrt c07 st) st.w.R)
      ≤ stdIp (polyV0 prm.L Y' st.w.R) (polyV0 prm.L Y' st.w.R) :=
  mr_minimal_of_orth prm.L _ Y' st.w.R hs (bicgstabl_mr_normal_equations prm sqrt c07 n st hc hs hex hrank)

/-- … with a root that is exact on the non-negative numbers (true at the reals) -/
theorem bicgstabl_mr_minimises_of_hsqrt (prm : BiCGStabL.Params K) (sqrt : K → K) (hsqrt : ∀ x : K, 0 ≤ x → sqrt x * sqrt x = x)
    (c07 : K) (n : Nat) (st : BiCGStabL.St K) (hc : prm.convex = true ∨ prm.L = 1)
    (hs : ∀ i, i ≤ prm.L → (st.w.R.get i).size = n) (hrank : FullRank n prm.L st.w.R) (Y' : FArr K) :
    stdIp (polyV0 prm.L (passY0 prm stdIp sqrt c07 st) st.w.R) (polyV0 prm.L (passY0 prm stdIp sqrt c07 st) st.w.R)
      ≤ stdIp (polyV0 prm.L Y' st.w.R) (polyV0 prm.L Y' st.w.R) :=
  bicgstabl_mr_minimises prm sqrt c07 n st hc hs (exactRoots_of_hsqrt sqrt hsqrt _ _ _ _ _ _) hrank Y'

/-- the residual after the BiCG part is the competitor with all coefficients zero -/
theorem polyV0_zero (n L : Nat) (R : FArr (Vec K)) (hs : ∀ i, i ≤ L → (R.get i).size = n) :
    polyV0 L (FArr.const 0) R = R.get 0 := by
  obtain ⟨p1, p2⟩ := polyV0_entries L (FArr.const (0 : K)) R hs
  apply Vec.ext_getD (0 : K) (by rw [p1, hs 0 (Nat.zero_le _)])
  intro i hi
  rw [p1] at hi
  rw [p2 i hi]
  simp [FArr.const]

/-- **the MR part does not increase the residual**: for the model's polynomial part started in the state `st` the BiCG
part left (`st.zeta = ‖R[0]‖`), through every branch of the accurate update: `zeta'² ≤ zeta²` and `|zeta'| ≤ |zeta|`.
The root has to be exact on the two numbers `⟨R[0],R[0]⟩` (before / after) as well (`hroot`). -/
theorem bicgstabl_pass_residual_le (prm : BiCGStabL.Params K) (sqrt : K → K) (c07 : K)
    (A : CRS K) (P : Vec K → Vec K) (zeta0 : K) (n : Nat) (st st' : BiCGStabL.St K)
    (hc : prm.convex = true ∨ prm.L = 1) (hs : ∀ i, i ≤ prm.L → (st.w.R.get i).size = n)
    (hex : QRModel.ExactRoots sqrt prm.L prm.L prm.L 1 (flatOf prm.L 1 (gram stdIp prm.L st.w.R st.w.MZa)) #[])
    (hrank : FullRank n prm.L st.w.R) (hz : st.zeta = nrm stdIp sqrt (st.w.R.get 0))
    (hroot : ∀ v, v = st.w.R.get 0 ∨ v = polyV0 prm.L (passY0 prm stdIp sqrt c07 st) st.w.R →
      sqrt (stdIp v v) * sqrt (stdIp v v) = stdIp v v)
    (h : polyPart prm stdIp sqrt c07 A P zeta0 st = .ok st') :
    st'.zeta * st'.zeta ≤ st.zeta * st.zeta ∧ |st'.zeta| ≤ |st.zeta| := by
  obtain ⟨z1, _⟩ := polyPart_zeta prm stdIp sqrt c07 A P zeta0 st st' h
  have hmin := bicgstabl_mr_minimises prm sqrt c07 n st hc hs hex hrank (FArr.const 0)
  rw [polyV0_zero n prm.L st.w.R hs] at hmin
  have hsq : ∀ v : Vec K, sqrt (stdIp v v) * sqrt (stdIp v v) = stdIp v v →
      nrm stdIp sqrt v * nrm stdIp sqrt v = stdIp v v := by
    intro v hr
    have hv : 0 ≤ stdIp v v := by
      rw [stdIp_eq_finsum v.size v v rfl rfl]
      exact Finset.sum_nonneg (fun i _ => mul_self_nonneg _)
    unfold nrm Solver.absK
    rw [if_neg (not_lt.mpr hv)]
    exact hr
  have hle : st'.zeta * st'.zeta ≤ st.zeta * st.zeta := by
    rw [z1, hz, hsq _ (hroot _ (Or.inr rfl)), hsq _ (hroot _ (Or.inl rfl))]; exact hmin
  exact ⟨hle, (mul_self_le_mul_self_iff (abs_nonneg _) (abs_nonneg _)).mpr
    (by rw [abs_mul_abs_self, abs_mul_abs_self]; exact hle)⟩

/-- … with a root that is exact on the non-negative numbers -/
theorem bicgstabl_pass_residual_le_of_hsqrt (prm : BiCGStabL.Params K) (sqrt : K → K)
    (hsqrt : ∀ x : K, 0 ≤ x → sqrt x * sqrt x = x) (c07 : K)
    (A : CRS K) (P : Vec K → Vec K) (zeta0 : K) (n : Nat) (st st' : BiCGStabL.St K)
    (hc : prm.convex = true ∨ prm.L = 1) (hs : ∀ i, i ≤ prm.L → (st.w.R.get i).size = n)
    (hrank : FullRank n prm.L st.w.R) (hz : st.zeta = nrm stdIp sqrt (st.w.R.get 0))
    (h : polyPart prm stdIp sqrt c07 A P zeta0 st = .ok st') :
    st'.zeta * st'.zeta ≤ st.zeta * st.zeta ∧ |st'.zeta| ≤ |st.zeta| :=
  bicgstabl_pass_residual_le prm sqrt c07 A P zeta0 n st st' hc hs (exactRoots_of_hsqrt sqrt hsqrt _ _ _ _ _ _) hrank hz
    (fun v _ => hsqrt _ (by
      rw [stdIp_eq_finsum v.size v v rfl rfl]
      exact Finset.sum_nonneg (fun i _ => mul_self_nonneg _))) h

/-! ## `L = 1` -/

/-- **the coefficient of BiCGStab(1) is BiCGStab's `omega`** `= ⟨s,t⟩/⟨t,t⟩`, `s = R[0]`, `t = R[1] = A'·s` (total
division: `0` when `t = 0`, in which case both codes throw "zero omega"); both settings of `convex`, any `sqrt` -/
theorem bicgstabl_L1_omega (prm : BiCGStabL.Params K) (hL : prm.L = 1) (sqrt : K → K) (c07 : K) (n : Nat) (st : BiCGStabL.St K)
    (h0 : (st.w.R.get 0).size = n) (h1 : (st.w.R.get 1).size = n) :
    (passY0 prm stdIp sqrt c07 st).get 1 = stdIp (st.w.R.get 0) (st.w.R.get 1) / stdIp (st.w.R.get 1) (st.w.R.get 1) := by
  unfold passY0; rw [hL]
  exact L1_omega sqrt c07 n prm.convex st.w h0 h1

/-- **the polynomial part of BiCGStab(1) is the `omega` half step of BiCGStab** (`BiCGStab.full`): with
`omega = ⟨s,t⟩/⟨t,t⟩` the model stores `r = axpbypcz(one, s, -omega, t, zero, ·)` in `R[0]`, adds `omega·s` to the
correction `X` (`axpby(omega, s, one, x)`), and `zeta = ‖r‖` — when `delta ≤ 0` (no accurate update) -/
theorem bicgstabl_L1_poly_is_bicgstab_omega_step (prm : BiCGStabL.Params K) (hL : prm.L = 1) (hd : ¬ 0 < prm.delta) (sqrt : K → K)
    (c07 : K) (A : CRS K) (P : Vec K → Vec K) (zeta0 : K) (n : Nat) (st st' : BiCGStabL.St K) (z : Vec K)
    (h0 : (st.w.R.get 0).size = n) (h1 : (st.w.R.get 1).size = n) (hX : st.w.X.size = n)
    (h : polyPart prm stdIp sqrt c07 A P zeta0 st = .ok st') :
    let omega := stdIp (st.w.R.get 0) (st.w.R.get 1) / stdIp (st.w.R.get 1) (st.w.R.get 1)
    st'.omega = omega ∧
    st'.w.R.get 0 = axpbypcz 1 (st.w.R.get 0) (-omega) (st.w.R.get 1) 0 z ∧
    st'.w.X = axpby omega (st.w.R.get 0) 1 st.w.X ∧
    st'.zeta = nrm stdIp sqrt (st'.w.R.get 0) ∧ st'.x = st.x ∧ st'.iter = st.iter + 1 := by
  intro omega
  obtain ⟨z1, z2⟩ := polyPart_zeta prm stdIp sqrt c07 A P zeta0 st st' h
  obtain ⟨r0, rX, _, rx⟩ := z2 hd
  have hom := bicgstabl_L1_omega prm hL sqrt c07 n st h0 h1
  have hv := L1_vectors n (passY0 prm stdIp sqrt c07 st) st.w.R st.w.X z h0 h1 hX
  rw [hL] at r0 rX z1
  rw [hom] at hv
  have hit := polyPart_iter prm stdIp sqrt c07 A P zeta0 st st' h
  refine ⟨?_, by rw [r0]; exact hv.1, by rw [rX]; exact hv.2, by rw [z1, r0], rx, by rw [hit.1, hL]⟩
  -- omega = Y0[L], the search loop `for(h = L; h > 0 && is_zero(omega); --h)` does not move for L = 1
  unfold polyPart at h
  simp only [] at h
  split at h
  · cases h
  · rename_i hne
    have : st'.omega = (List.range prm.L).foldl (fun om t => if om = 0 then
        (polyCoef sqrt c07 prm.L prm.convex { st.w with MZa := gram stdIp prm.L st.w.R st.w.MZa }).Y0.get (prm.L - t) else om)
        ((polyCoef sqrt c07 prm.L prm.convex { st.w with MZa := gram stdIp prm.L st.w.R st.w.MZa }).Y0.get prm.L) := by
      cases h; rfl
    rw [this]
    have e : (passY0 prm stdIp sqrt c07 st).get 1 = omega := hom
    unfold passY0 at e
    simp only [hL, List.range_one, List.foldl_cons, List.foldl_nil, Nat.sub_zero] at e ⊢
    rw [e]; simp

/-- **BiCGStab(1): the `omega` step minimises** `‖s − ω·t‖` over all `ω` — no hypothesis on the root or on `t` -/
theorem bicgstabl_L1_mr_minimises (prm : BiCGStabL.Params K) (hL : prm.L = 1) (sqrt : K → K) (c07 : K) (n : Nat) (st : BiCGStabL.St K)
    (h0 : (st.w.R.get 0).size = n) (h1 : (st.w.R.get 1).size = n) (Y' : FArr K) :
    stdIp (polyV0 1 (passY0 prm stdIp sqrt c07 st) st.w.R) (polyV0 1 (passY0 prm stdIp sqrt c07 st) st.w.R)
      ≤ stdIp (polyV0 1 Y' st.w.R) (polyV0 1 Y' st.w.R) := by
  have hs : ∀ i, i ≤ 1 → (st.w.R.get i).size = n := by
    intro i hi
    rcases Nat.le_one_iff_eq_zero_or_eq_one.mp hi with rfl | rfl
    · exact h0
    · exact h1
  apply mr_minimal_of_orth 1 _ Y' st.w.R hs
  intro k hk
  have : k = 0 := by omega
  subst this
  have := L1_orth sqrt c07 n prm.convex st.w h0 h1
  unfold passY0; rw [hL]; exact this

/-! ## BiCGStab(1) refines BiCGStab -/

/-- **one pass of BiCGStab(1) is one pass of BiCGStab**: `L = 1`, `delta ≤ 0` (no accurate update), the preconditioned
operator `A'` linear on vectors of length `n` (and `P` itself for right preconditioning: bicgstab.hpp adds `alpha·P p` and
`omega·P s` to `x` at once, bicgstabl.hpp adds `P X` at label `done`).  States related by `Rel1` (`R[0] = r`, `Rt = rh`,
`zeta = res`, `U[0] = p − omega·v`, `rho0 = rho1`, same `alpha`, `omega`, `iter`; the `x` bicgstabl would hand back is
bicgstab's `x`).  IF the pass of the bicgstabl model returns normally (in particular `rho1 ≠ 0`, `sigma ≠ 0`, `omega ≠ 0`:
bicgstabl throws at once where bicgstab goes on) AND the residual norm after the `alpha` half step is not exactly the
threshold (`hne`; bicgstab leaves on `norm(s) <= eps`, bicgstabl on `zeta < eps`), THEN the pass of the bicgstab model
returns normally, and either both went through the `omega` step and the new states are related again, or both left after
the half step with the same `(iter, residual, x)` and bicgstab's loop guard `res > eps` fails. -/
theorem bicgstabl_L1_is_bicgstab (prm : BiCGStabL.Params K) (hL : prm.L = 1) (hd : ¬ 0 < prm.delta) (sqrt : K → K) (c07 : K)
    (A : CRS K) (P : Vec K → Vec K) (n : Nat) (hF : Lin n (Ap prm.pside P A)) (hP : prm.pside = .right → Lin n P)
    (epsT zeta0 : K) (sL sL' : BiCGStabL.St K) (sB : BiCGStab.St K) (rel : Rel1 prm.pside P n sL sB)
    (hne : ∀ s1 b, bicgStep prm stdIp sqrt A P epsT 0 { sL with rho0 := (-sL.omega) * sL.rho0 } = .ok (s1, b) →
      s1.zeta ≠ epsT)
    (h : BiCGStabL.body prm stdIp sqrt c07 A P epsT zeta0 sL = .ok sL') :
    ∃ sB', BiCGStab.body prm.pside stdIp sqrt A P epsT sB = .ok sB' ∧
      ((sL'.done = false ∧ Rel1 prm.pside P n sL' sB') ∨
       (sL'.done = true ∧ sL'.zeta = sB'.res ∧ sL'.iter = sB'.iter ∧ xOut prm.pside P sL' = sB'.x ∧ ¬ epsT < sB'.res)) := by
  unfold BiCGStabL.body at h
  simp only [] at h
  cases hs : bicgStep prm stdIp sqrt A P epsT 0 { sL with rho0 := (-sL.omega) * sL.rho0 } with
  | error e =>
    have : bicgLoop prm stdIp sqrt A P epsT prm.L 0 { sL with rho0 := (-sL.omega) * sL.rho0 } = .error e := by
      rw [hL]; unfold bicgLoop; rw [hs]
    rw [this] at h; cases h
  | ok r =>
    obtain ⟨s1, b⟩ := r
    have hloop : bicgLoop prm stdIp sqrt A P epsT prm.L 0 { sL with rho0 := (-sL.omega) * sL.rho0 } = .ok s1 := by
      rw [hL]; unfold bicgLoop; rw [hs]; cases b <;> simp only [bicgLoop]
    rw [hloop] at h
    simp only at h
    have hz1 := hne s1 b hs
    have spec := bicgStep0_spec prm stdIp sqrt A P epsT _ s1 b hs
    dsimp only at spec
    rw [rel.r, rel.rh] at spec
    have hnp := newP_eq prm.pside P n sL sB rel (stdIp sB.w.r sB.w.rh)
    rw [rel.r] at hnp
    have hpL : (axpby 1 sB.w.r (-(sL.alpha * (stdIp sB.w.r sB.w.rh / (-sL.omega * sL.rho0)))) (sL.w.U.get 0)).size = n := by
      rw [axpby_size]; exact rel.szr
    generalize axpby 1 sB.w.r (-(sL.alpha * (stdIp sB.w.r sB.w.rh / (-sL.omega * sL.rho0)))) (sL.w.U.get 0) = pL
      at spec hnp hpL
    obtain ⟨q1, q2, q3, q4, q5, q6, q7, q8, q9, q10, q11, q12, q13, q14, q15⟩ := spec
    obtain ⟨e1, e2, e3, e4, e5, e6, e7, e8⟩ := half_eq prm.pside sqrt A P n hF sB pL rel.szr
    try dsimp only at e1 e2 e3 e4 e5 e6 e7 e8
    have hvsz : (Ap prm.pside P A pL).size = n := hF.size pL
    generalize hvdef : Ap prm.pside P A pL = vL at *
    generalize hadef : stdIp sB.w.r sB.w.rh / stdIp vL sB.w.rh = al at *
    have hsvsz : (axpby (-al) vL 1 sB.w.r).size = n := by rw [axpby_size]; exact hvsz
    generalize hsdef : axpby (-al) vL 1 sB.w.r = sv at *
    have hx1 : xOut prm.pside P s1 = xAdd prm.pside P al pL sB.x := by
      rw [← rel.x]; exact xOut_axpby prm.pside P n hP sL s1 al pL hpL rel.szX rel.szx q7 q12
    have hbody : BiCGStab.body prm.pside stdIp sqrt A P epsT sB =
        (if epsT < (BiCGStab.half prm.pside stdIp sqrt A P sB pL).res then
          BiCGStab.full prm.pside stdIp sqrt A P sB (BiCGStab.half prm.pside stdIp sqrt A P sB pL)
        else .ok { first := false, iter := sB.iter + 1, rho1 := (BiCGStab.half prm.pside stdIp sqrt A P sB pL).rho1,
                   alpha := (BiCGStab.half prm.pside stdIp sqrt A P sB pL).alpha, omega := sB.omega,
                   res := (BiCGStab.half prm.pside stdIp sqrt A P sB pL).res,
                   x := (BiCGStab.half prm.pside stdIp sqrt A P sB pL).x,
                   w := ⟨sB.w.r, pL, (BiCGStab.half prm.pside stdIp sqrt A P sB pL).v,
                     (BiCGStab.half prm.pside stdIp sqrt A P sB pL).s, sB.w.t, sB.w.rh,
                     (BiCGStab.half prm.pside stdIp sqrt A P sB pL).T⟩ }) := by
      unfold BiCGStab.body
      simp only [hnp]
    generalize BiCGStab.half prm.pside stdIp sqrt A P sB pL = hh at *
    cases b with
    | true =>
      obtain ⟨d1, d2, d3⟩ := q14 rfl
      rw [d1] at h
      simp only [if_true] at h
      cases h
      have hnlt : ¬ epsT < hh.res := by rw [e4, ← q10]; exact lt_asymm d3
      refine ⟨_, by rw [hbody, if_neg hnlt], Or.inr ⟨d1, by rw [q10, e4], by rw [d2]; show sL.iter + 1 = sB.iter + 1; rw [rel.iter],
        by rw [hx1, e5], hnlt⟩⟩
    | false =>
      obtain ⟨d1, d2, d3⟩ := q15 rfl
      have hnd : s1.done = false := by rw [d1]; exact rel.notdone
      rw [hnd] at h
      simp only [Bool.false_eq_true, if_false] at h
      have hlt : epsT < hh.res := by rw [e4, ← q10]; exact lt_of_le_of_ne (not_lt.mp d3) (Ne.symm hz1)
      have hR0 : (s1.w.R.get 0).size = n := by rw [q5]; exact hsvsz
      have hR1 : (s1.w.R.get 1).size = n := by rw [q6]; exact hF.size _
      have hX1 : s1.w.X.size = n := by rw [q7, axpby_size]; exact hpL
      obtain ⟨o1, o2, o3, o4, o5, o6⟩ := bicgstabl_L1_poly_is_bicgstab_omega_step prm hL hd sqrt c07 A P zeta0 n s1 sL'
        sB.w.r hR0 hR1 hX1 h
      try dsimp only at o1 o2 o3
      obtain ⟨f1, f2, f3, f4⟩ := polyPart_frame0 prm stdIp sqrt c07 A P zeta0 s1 sL' hd h
      obtain ⟨_, z2⟩ := polyPart_zeta prm stdIp sqrt c07 A P zeta0 s1 sL' h
      obtain ⟨_, _, u0, _⟩ := z2 hd
      have hit := polyPart_iter prm stdIp sqrt c07 A P zeta0 s1 sL' h
      have hY1 := bicgstabl_L1_omega prm hL sqrt c07 n s1 hR0 hR1
      rw [q5, q6] at o1 o2 o3 hY1
      generalize homdef : stdIp sv (Ap prm.pside P A sv) / stdIp (Ap prm.pside P A sv) (Ap prm.pside P A sv) = om at *
      have hom : om ≠ 0 := by rw [← o1]; exact f4
      obtain ⟨T', hfull⟩ := full_eq prm.pside sqrt A P sB hh (by (try dsimp only); rw [e3, homdef]; exact hom)
      try dsimp only at hfull
      rw [e3, homdef] at hfull
      have hx2 : xOut prm.pside P sL' = xAdd prm.pside P om sv (xOut prm.pside P s1) :=
        xOut_axpby prm.pside P n hP s1 sL' om sv hsvsz hX1 (by rw [q12]; exact rel.szx) o3 o5
      have hUs : ∀ i, i ≤ prm.L → (s1.w.U.get i).size = n := by
        intro i hi
        have : i = 0 ∨ i = 1 := by omega
        rcases this with rfl | rfl
        · rw [q3]; exact hpL
        · rw [q4]; exact hvsz
      obtain ⟨p1, p2⟩ := polyV0_entries prm.L (passY0 prm stdIp sqrt c07 s1) s1.w.U hUs
      refine ⟨_, by rw [hbody, if_pos hlt]; exact hfull, Or.inl ⟨by rw [hit.2]; exact hnd, ?_⟩⟩
      refine ⟨o2, by rw [f3]; exact q11, by rw [o4, o2], by rw [o6, d2]; show sL.iter + 1 = sB.iter + 1; rw [rel.iter],
        by rw [hit.2]; exact hnd, by rw [hx2, hx1, e5], ?_, ?_, by rw [o5, q12]; exact rel.szx, by rw [u0]; exact p1, ?_⟩
      · show (axpbypcz 1 sv (-om) (Ap prm.pside P A sv) 0 sB.w.r).size = n
        rw [axpbypcz_size]; exact hsvsz
      · rw [o3, axpby_size]; exact hsvsz
      · refine Or.inr ⟨rfl, by rw [f1, q8]; exact e2.symm, o1, by rw [f2, q9]; exact e7.symm, hom, by rw [e7]; exact q1,
          by rw [e6]; exact hpL, by rw [e1]; exact hvsz, ?_⟩
        intro i hi
        show (sL'.w.U.get 0).getD i 0 = hh.p.getD i 0 - om * hh.v.getD i 0
        rw [u0, p2 i hi, hL, Finset.sum_range_one, hY1, q3, q4, e6, e1]

/-- **the two loops start in related states**: `bicgstabl::operator()` up to the `for` loop (`init`) and
`bicgstab::operator()` up to its loop (`check_after = false`) on the same `(A, P, f, x0)`, any work spaces -/
theorem bicgstabl_L1_init_rel (prm : BiCGStabL.Params K) (prmB : BiCGStab.Params K) (hside : prmB.pside = prm.pside)
    (hca : prmB.checkAfter = false) (sqrt : K → K) (A : CRS K) (P : Vec K → Vec K) (n : Nat) (hn : A.nrows = n)
    (hPs : ∀ v, (P v).size = n) (hP : prm.pside = .right → Lin n P)
    (ws : BiCGStabL.Work K) (wsB : BiCGStab.Work K) (f x0 : Vec K) (hx0 : x0.size = n) (epsT : K) :
    Rel1 prm.pside P n (BiCGStabL.init prm stdIp sqrt A P ws f x0) (BiCGStab.init prmB stdIp sqrt A P wsB f x0 epsT) := by
  have hB : (BiCGStabL.init prm stdIp sqrt A P ws f x0).w.B
      = (match prm.pside with | .left => P (residual f A x0) | .right => residual f A x0) := by
    unfold BiCGStabL.init; cases prm.pside <;> rfl
  have hr : (BiCGStab.init prmB stdIp sqrt A P wsB f x0 epsT).w.r
      = (match prm.pside with | .left => P (residual f A x0) | .right => residual f A x0) := by
    unfold BiCGStab.init; rw [hside]; cases prm.pside <;> rfl
  have hBsz : (match prm.pside with | .left => P (residual f A x0) | .right => residual f A x0).size = n := by
    cases prm.pside
    · exact hPs _
    · show (residual f A x0).size = n; rw [residual_size', hn]
  have hX : (BiCGStabL.init prm stdIp sqrt A P ws f x0).w.X = vclear n := by
    unfold BiCGStabL.init; cases hs : prm.pside <;> simp only [] <;> rw [hs] at hBsz <;> simp only [] at hBsz <;> rw [hBsz]
  have hU : (BiCGStabL.init prm stdIp sqrt A P ws f x0).w.U.get 0 = vclear n := by
    unfold BiCGStabL.init; cases hs : prm.pside <;> simp only [] <;> rw [hs] at hBsz <;> simp only [] at hBsz <;>
      rw [setF_same, hBsz]
  have hR0 : (BiCGStabL.init prm stdIp sqrt A P ws f x0).w.R.get 0 = (BiCGStabL.init prm stdIp sqrt A P ws f x0).w.B := by
    unfold BiCGStabL.init; cases prm.pside <;> simp only [setF_same, vcopy_eq]
  have hRt : (BiCGStabL.init prm stdIp sqrt A P ws f x0).w.Rt = (BiCGStabL.init prm stdIp sqrt A P ws f x0).w.B := by
    unfold BiCGStabL.init; cases prm.pside <;> simp only [vcopy_eq]
  have hrh : (BiCGStab.init prmB stdIp sqrt A P wsB f x0 epsT).w.rh = (BiCGStab.init prmB stdIp sqrt A P wsB f x0 epsT).w.r := by
    unfold BiCGStab.init; simp only [vcopy_eq]
  refine ⟨by rw [hR0, hB, hr], by rw [hRt, hB, hrh, hr], ?_, rfl, rfl, ?_, by rw [hr]; exact hBsz, by rw [hX]; simp [vclear],
    hx0, by rw [hU]; simp [vclear], Or.inl ⟨rfl, rfl, fun i _ => by rw [hU, vclear_getD]⟩⟩
  · show nrm stdIp sqrt (BiCGStabL.init prm stdIp sqrt A P ws f x0).w.B = (BiCGStab.init prmB stdIp sqrt A P wsB f x0 epsT).res
    have : (BiCGStab.init prmB stdIp sqrt A P wsB f x0 epsT).res
        = nrm stdIp sqrt (BiCGStab.init prmB stdIp sqrt A P wsB f x0 epsT).w.r := by
      unfold BiCGStab.init; simp only [hca, Bool.false_eq_true, if_false]
    rw [this, hB, hr]
  · show xOut prm.pside P (BiCGStabL.init prm stdIp sqrt A P ws f x0) = x0
    unfold xOut finish
    have hxx : (BiCGStabL.init prm stdIp sqrt A P ws f x0).x = x0 := rfl
    cases hs : prm.pside with
    | left =>
      simp only [hX, hxx]
      apply Vec.ext_getD (0 : K) (by rw [axpby_size, hx0]; simp [vclear])
      intro i hi
      rw [axpby_getD _ _ _ _ _ (by rw [axpby_size] at hi; exact hi), vclear_getD]; ring
    | right =>
      have hP' := hP hs
      simp only [hX, hxx]
      apply Vec.ext_getD (0 : K) (by rw [axpby_size, hx0, hP'.size])
      intro i hi
      rw [axpby_getD _ _ _ _ _ (by rw [axpby_size] at hi; exact hi), hP'.zero]; ring

/-- **the loop guards agree** on related states: `iter < maxiter && zeta >= eps` (bicgstabl.hpp, `goto done` not taken) and
`res > eps && iter < maxiter` (bicgstab.hpp; the second conjunct is the fuel of `loopE`) — unless `zeta = eps` exactly -/
theorem bicgstabl_L1_guard_agree (side : Side) (P : Vec K → Vec K) (n maxiter : Nat) (epsT : K) (sL : BiCGStabL.St K)
    (sB : BiCGStab.St K) (rel : Rel1 side P n sL sB) (hne : sL.zeta ≠ epsT) (hit : sL.iter < maxiter) :
    BiCGStabL.cond maxiter epsT sL = BiCGStab.cond epsT sB := by
  unfold BiCGStabL.cond BiCGStab.cond
  rw [rel.notdone, ← rel.zeta]
  simp only [Bool.not_false, Bool.true_and, hit, decide_true]
  by_cases h : epsT < sL.zeta
  · simp [h, lt_asymm h]
  · have : sL.zeta < epsT := lt_of_le_of_ne (not_lt.mp h) hne
    simp [h, this]

/-- **BiCGStab(1) = BiCGStab over the whole loop**: from related states, with the same fuel (`iter + fuel = maxiter`), if
the loop of the bicgstabl model (`L = 1`, `delta ≤ 0`) ends normally and never meets a norm that equals the threshold exactly
(`NoTie`), then the loop of the bicgstab model ends normally with the same `iter`, the same residual norm, and the `x` that
label `done:` of bicgstabl hands back -/
theorem bicgstabl_L1_loop_is_bicgstab (prm : BiCGStabL.Params K) (hL : prm.L = 1) (hd : ¬ 0 < prm.delta) (sqrt : K → K)
    (c07 : K) (A : CRS K) (P : Vec K → Vec K) (n : Nat) (hF : Lin n (Ap prm.pside P A))
    (hP : prm.pside = .right → Lin n P) (epsT zeta0 : K) :
    ∀ (fuel : Nat) (sL sLe : BiCGStabL.St K) (sB : BiCGStab.St K), Rel1 prm.pside P n sL sB →
      sL.iter + fuel = prm.maxiter → NoTie prm sqrt c07 A P epsT zeta0 fuel sL →
      BiCGStabL.loop prm stdIp sqrt c07 A P epsT zeta0 fuel sL = (none, sLe) →
      ∃ sBe, BiCGStab.loop prm.pside stdIp sqrt A P epsT fuel sB = (none, sBe) ∧
        xOut prm.pside P sLe = sBe.x ∧ sLe.zeta = sBe.res ∧ sLe.iter = sBe.iter := by
  intro fuel
  induction fuel with
  | zero =>
    intro sL sLe sB rel _ _ h
    simp only [BiCGStabL.loop, loopE] at h
    cases h
    exact ⟨sB, by simp only [BiCGStab.loop, loopE], rel.x, rel.zeta, rel.iter⟩
  | succ k ih =>
    intro sL sLe sB rel hfuel hnt h
    obtain ⟨t1, t2⟩ := hnt
    have hg := bicgstabl_L1_guard_agree prm.pside P n prm.maxiter epsT sL sB rel t1 (by omega)
    unfold BiCGStabL.loop at h
    unfold BiCGStab.loop
    unfold loopE at h ⊢
    rw [← hg]
    by_cases hc : BiCGStabL.cond prm.maxiter epsT sL = true
    · rw [if_pos hc] at h ⊢
      obtain ⟨t3, t4⟩ := t2 hc
      cases hb : BiCGStabL.body prm stdIp sqrt c07 A P epsT zeta0 sL with
      | error e => rw [hb] at h; obtain ⟨e1, e2⟩ := e; simp only at h; cases h
      | ok sL' =>
        rw [hb] at h
        simp only at h
        obtain ⟨sB', hB', hcase⟩ := bicgstabl_L1_is_bicgstab prm hL hd sqrt c07 A P n hF hP epsT zeta0 sL sL' sB rel t3 hb
        rw [hB']
        simp only
        rcases hcase with ⟨hdn, rel'⟩ | ⟨hdn, z, it, x, hle⟩
        · have hit : sL'.iter = sL.iter + 1 := by
            rcases body_iter prm stdIp sqrt c07 A P epsT zeta0 sL sL' rel.notdone hb with ⟨g, _⟩ | ⟨_, g⟩
            · rw [hdn] at g; cases g
            · rw [g, hL]
          exact ih sL' sLe sB' rel' (by omega) (t4 sL' hb) h
        · have hcl : BiCGStabL.cond prm.maxiter epsT sL' = false := by unfold BiCGStabL.cond; rw [hdn]; rfl
          have hcb : BiCGStab.cond epsT sB' = false := by unfold BiCGStab.cond; exact decide_eq_false hle
          rw [show loopE (BiCGStabL.cond prm.maxiter epsT) (BiCGStabL.body prm stdIp sqrt c07 A P epsT zeta0) k sL'
            = (none, sL') from loopE_of_not_cond _ _ k sL' hcl] at h
          cases h
          exact ⟨sB', loopE_of_not_cond _ _ k sB' hcb, x, z, it⟩
    · rw [if_neg hc] at h ⊢
      cases h
      exact ⟨sB, rfl, rel.x, rel.zeta, rel.iter⟩

/-! ## non-vacuity over `ℚ` with the executable root `rsqrt` -/
section examples

private def exR2 : FArr (Vec ℚ) :=
  ⟨fun i => if i = 0 then #[1, 3, 0] else if i = 1 then #[1, 1, 1] else if i = 2 then #[2, 1, 1] else #[]⟩
private def exSt2 : BiCGStabL.St ℚ :=
  { iter := 0, alpha := 1, rho0 := 1, omega := 1, zeta := 0, rnmaxC := 0, rnmaxT := 0, done := false, x := #[0, 0, 0],
    w := { (Work.fresh 3 : Work ℚ) with R := exR2 } }
private def exPrm2 : BiCGStabL.Params ℚ :=
  { maxiter := 4, tol := 0, abstol := 0, nsSearch := false, L := 2, delta := 0, convex := true, pside := .right }

theorem exR2_sizes : ∀ i, i ≤ exPrm2.L → (exSt2.w.R.get i).size = 3 := by
  intro i hi
  have : i = 0 ∨ i = 1 ∨ i = 2 := by have : exPrm2.L = 2 := rfl; omega
  rcases this with rfl | rfl | rfl <;> rfl
theorem exR2_roots : QRModel.ExactRoots Amgcl.rsqrt exPrm2.L exPrm2.L exPrm2.L 1
    (flatOf exPrm2.L 1 (gram stdIp exPrm2.L exSt2.w.R exSt2.w.MZa)) #[] := by decide +kernel
theorem exR2_rank : FullRank 3 exPrm2.L exSt2.w.R := by
  intro c h j hj
  have e0 := h 0 (by omega)
  have e1 := h 1 (by omega)
  have hL : exPrm2.L = 2 := rfl
  rw [hL] at e0 e1 hj
  simp only [Finset.sum_range_succ, Finset.sum_range_zero, zero_add] at e0 e1
  have v10 : (exSt2.w.R.get (1 + 0)).getD 0 0 = (1 : ℚ) := by decide +kernel
  have v20 : (exSt2.w.R.get (1 + 1)).getD 0 0 = (2 : ℚ) := by decide +kernel
  have v11 : (exSt2.w.R.get (1 + 0)).getD 1 0 = (1 : ℚ) := by decide +kernel
  have v21 : (exSt2.w.R.get (1 + 1)).getD 1 0 = (1 : ℚ) := by decide +kernel
  rw [v10, v20] at e0
  rw [v11, v21] at e1
  have : j = 0 ∨ j = 1 := by omega
  rcases this with rfl | rfl <;> linarith

-- the Gram block [[3,4],[4,6]] (a root IS taken: sqrt(3² + 4²) = 5), right-hand side (4,5): the coefficients are (2, -1/2)
example : (passY0 exPrm2 stdIp Amgcl.rsqrt (7/10) exSt2).get 1 = 2 ∧ (passY0 exPrm2 stdIp Amgcl.rsqrt (7/10) exSt2).get 2 = -1/2 := by
  decide +kernel
example := bicgstabl_mr_normal_equations exPrm2 Amgcl.rsqrt (7/10) 3 exSt2 (Or.inl rfl) exR2_sizes exR2_roots exR2_rank
example := bicgstabl_mr_minimises exPrm2 Amgcl.rsqrt (7/10) 3 exSt2 (Or.inl rfl) exR2_sizes exR2_roots exR2_rank

-- L = 1: s = (3,4), t = (1,0): omega = 3, new residual (0,4): zeta 5 -> 4 (both roots exact)
private def exR1 : FArr (Vec ℚ) := ⟨fun i => if i = 0 then #[3, 4] else if i = 1 then #[1, 0] else #[]⟩
private def exSt1 : BiCGStabL.St ℚ :=
  { iter := 0, alpha := 1, rho0 := 1, omega := 1, zeta := 5, rnmaxC := 5, rnmaxT := 5, done := false, x := #[0, 0],
    w := { (Work.fresh 2 : Work ℚ) with R := exR1, U := ⟨fun i => if i = 0 then #[3, 4] else #[1, 0]⟩ } }
private def exPrm1 : BiCGStabL.Params ℚ :=
  { maxiter := 4, tol := 0, abstol := 0, nsSearch := false, L := 1, delta := 0, convex := false, pside := .right }
private def exA1 : CRS ℚ := ⟨2, #[[(0, 1)], [(1, 1)]]⟩

theorem exR1_sizes : ∀ i, i ≤ exPrm1.L → (exSt1.w.R.get i).size = 2 := by
  intro i hi
  have : i = 0 ∨ i = 1 := by have : exPrm1.L = 1 := rfl; omega
  rcases this with rfl | rfl <;> rfl
theorem exR1_rank : FullRank 2 exPrm1.L exSt1.w.R := by
  intro c h j hj
  have e0 := h 0 (by omega)
  have hL : exPrm1.L = 1 := rfl
  rw [hL] at e0 hj
  simp only [Finset.sum_range_succ, Finset.sum_range_zero, zero_add] at e0
  have v : (exSt1.w.R.get (1 + 0)).getD 0 0 = (1 : ℚ) := by decide +kernel
  rw [v, mul_one] at e0
  have : j = 0 := by omega
  subst this; exact e0

theorem exPoly1 : ∃ st', polyPart exPrm1 stdIp Amgcl.rsqrt (7/10) exA1 id 5 exSt1 = .ok st' ∧ st'.zeta = 4 := by
  have h : (match polyPart exPrm1 stdIp Amgcl.rsqrt (7/10) exA1 id 5 exSt1 with
      | .ok s => decide (s.zeta = 4) | _ => false) = true := by decide +kernel
  split at h
  · exact ⟨_, ‹_›, of_decide_eq_true h⟩
  · cases h

example : ∃ st', polyPart exPrm1 stdIp Amgcl.rsqrt (7/10) exA1 id 5 exSt1 = .ok st' ∧
    st'.zeta * st'.zeta ≤ exSt1.zeta * exSt1.zeta ∧ |st'.zeta| ≤ |exSt1.zeta| := by
  obtain ⟨st', h, _⟩ := exPoly1
  exact ⟨st', h, bicgstabl_pass_residual_le exPrm1 Amgcl.rsqrt (7/10) exA1 id 5 2 exSt1 st' (Or.inr rfl) exR1_sizes
    (by decide +kernel) exR1_rank (by decide +kernel)
    (by
      intro v hv
      rcases hv with rfl | rfl <;> decide +kernel) h⟩
example := bicgstabl_L1_omega exPrm1 rfl Amgcl.rsqrt (7/10) 2 exSt1 rfl rfl
example : (passY0 exPrm1 stdIp Amgcl.rsqrt (7/10) exSt1).get 1 = 3 := by decide +kernel
example : ∃ st', polyPart exPrm1 stdIp Amgcl.rsqrt (7/10) exA1 id 5 exSt1 = .ok st' ∧ st'.omega = 3 ∧
    st'.w.R.get 0 = #[0, 4] ∧ st'.w.X = #[9, 12] := by
  obtain ⟨st', h, _⟩ := exPoly1
  obtain ⟨a, b, c, _⟩ := bicgstabl_L1_poly_is_bicgstab_omega_step exPrm1 rfl (by decide) Amgcl.rsqrt (7/10) exA1 id 5 2
    exSt1 st' #[] rfl rfl rfl h
  refine ⟨st', h, ?_, ?_, ?_⟩
  · rw [a]; decide +kernel
  · rw [b]; decide +kernel
  · rw [c]; decide +kernel
example := bicgstabl_L1_mr_minimises exPrm1 rfl Amgcl.rsqrt (7/10) 2 exSt1 rfl rfl

-- BiCGStab(1) vs BiCGStab: a non-symmetric 2x2 system, right preconditioning with a diagonal matrix, first pass from the
-- initial states (related by `bicgstabl_L1_init_rel`); the pass of the bicgstabl model returns normally without early exit
private def exA : CRS ℚ := ⟨2, #[[(0, 2), (1, 1)], [(0, -1), (1, 3)]]⟩
private def exM : CRS ℚ := ⟨2, #[[(0, 1/2)], [(1, 1/3)]]⟩
private def exP : Vec ℚ → Vec ℚ := fun v => spmv 1 exM v 0 #[]
private def exPrmB : BiCGStab.Params ℚ :=
  { maxiter := 4, tol := 0, abstol := 0, nsSearch := false, pside := .right, checkAfter := false }
private def exL0 : BiCGStabL.St ℚ := BiCGStabL.init exPrm1 stdIp Amgcl.rsqrt exA exP (Work.fresh 2) #[1, 2] #[0, 0]
private def exB0 : BiCGStab.St ℚ := BiCGStab.init exPrmB stdIp Amgcl.rsqrt exA exP (BiCGStab.Work.fresh 2) #[1, 2] #[0, 0] 0

theorem exP_lin : Lin 2 exP := Lin_of_PLin 2 exP (fun v => spmv_size' 1 0 exM v #[]) (PLin_spmv exM (by decide) #[])
theorem exAp_lin : Lin 2 (Ap exPrm1.pside exP exA) :=
  Ap_lin .right exP exA (by decide) rfl (fun v => spmv_size' 1 0 exM v #[]) (PLin_spmv exM (by decide) #[])
theorem exRel0 : Rel1 exPrm1.pside exP 2 exL0 exB0 :=
  bicgstabl_L1_init_rel exPrm1 exPrmB rfl rfl Amgcl.rsqrt exA exP 2 rfl (fun v => spmv_size' 1 0 exM v #[])
    (fun _ => exP_lin) (Work.fresh 2) (BiCGStab.Work.fresh 2) #[1, 2] #[0, 0] rfl 0

example : ∃ sL' sB', BiCGStabL.body exPrm1 stdIp Amgcl.rsqrt (7/10) exA exP 0 0 exL0 = .ok sL' ∧ sL'.done = false ∧
    BiCGStab.body exPrm1.pside stdIp Amgcl.rsqrt exA exP 0 exB0 = .ok sB' ∧ Rel1 exPrm1.pside exP 2 sL' sB' := by
  have h : (match BiCGStabL.body exPrm1 stdIp Amgcl.rsqrt (7/10) exA exP 0 0 exL0 with
      | .ok s => decide (s.done = false) | _ => false) = true := by decide +kernel
  have hne : ∀ s1 b, bicgStep exPrm1 stdIp Amgcl.rsqrt exA exP 0 0 { exL0 with rho0 := (-exL0.omega) * exL0.rho0 }
      = .ok (s1, b) → s1.zeta ≠ 0 := by
    have h2 : (match bicgStep exPrm1 stdIp Amgcl.rsqrt exA exP 0 0 { exL0 with rho0 := (-exL0.omega) * exL0.rho0 } with
        | .ok (s1, _) => decide (s1.zeta ≠ 0) | _ => true) = true := by decide +kernel
    intro s1 b hs
    rw [hs] at h2
    exact of_decide_eq_true h2
  split at h
  · rename_i sL' hL'
    have hdn : sL'.done = false := of_decide_eq_true h
    obtain ⟨sB', hB', hcase⟩ := bicgstabl_L1_is_bicgstab exPrm1 rfl (by decide) Amgcl.rsqrt (7/10) exA exP 2 exAp_lin
      (fun _ => exP_lin) 0 0 exL0 sL' exB0 exRel0 hne hL'
    rcases hcase with ⟨_, hr⟩ | ⟨hd', _⟩
    · exact ⟨sL', sB', hL', hdn, hB', hr⟩
    · rw [hdn] at hd'; cases hd'
  · cases h
example := @bicgstabl_L1_init_rel
example := bicgstabl_L1_guard_agree exPrm1.pside exP 2 4 0 exL0 exB0 exRel0 (by decide +kernel) (by decide +kernel)

-- the whole loop with `maxiter = 1` from the initial states of the same 2x2 system
private def exPrm1m : BiCGStabL.Params ℚ := { exPrm1 with maxiter := 1 }
private def exL0m : BiCGStabL.St ℚ := BiCGStabL.init exPrm1m stdIp Amgcl.rsqrt exA exP (Work.fresh 2) #[1, 2] #[0, 0]
example : ∃ sLe sBe, BiCGStabL.loop exPrm1m stdIp Amgcl.rsqrt (7/10) exA exP 0 0 1 exL0m = (none, sLe) ∧
    BiCGStab.loop exPrm1m.pside stdIp Amgcl.rsqrt exA exP 0 1 exB0 = (none, sBe) ∧ sLe.iter = 1 ∧
    xOut exPrm1m.pside exP sLe = sBe.x ∧ sLe.zeta = sBe.res ∧ sLe.iter = sBe.iter := by
  have h : (match BiCGStabL.loop exPrm1m stdIp Amgcl.rsqrt (7/10) exA exP 0 0 1 exL0m with
      | (none, s) => decide (s.iter = 1) | _ => false) = true := by decide +kernel
  have hne : ∀ s1 b, bicgStep exPrm1m stdIp Amgcl.rsqrt exA exP 0 0 { exL0m with rho0 := (-exL0m.omega) * exL0m.rho0 }
      = .ok (s1, b) → s1.zeta ≠ 0 := by
    have h2 : (match bicgStep exPrm1m stdIp Amgcl.rsqrt exA exP 0 0 { exL0m with rho0 := (-exL0m.omega) * exL0m.rho0 } with
        | .ok (s1, _) => decide (s1.zeta ≠ 0) | _ => true) = true := by decide +kernel
    intro s1 b hs
    rw [hs] at h2
    exact of_decide_eq_true h2
  have hnt : NoTie exPrm1m Amgcl.rsqrt (7/10) exA exP 0 0 1 exL0m :=
    ⟨by decide +kernel, fun _ => ⟨hne, fun _ _ => trivial⟩⟩
  have rel : Rel1 exPrm1m.pside exP 2 exL0m exB0 :=
    bicgstabl_L1_init_rel exPrm1m exPrmB rfl rfl Amgcl.rsqrt exA exP 2 rfl (fun v => spmv_size' 1 0 exM v #[])
      (fun _ => exP_lin) (Work.fresh 2) (BiCGStab.Work.fresh 2) #[1, 2] #[0, 0] rfl 0
  split at h
  · rename_i sLe hLe
    obtain ⟨sBe, hBe, r1, r2, r3⟩ := bicgstabl_L1_loop_is_bicgstab exPrm1m rfl (by decide) Amgcl.rsqrt (7/10) exA exP 2
      exAp_lin (fun _ => exP_lin) 0 0 1 exL0m sLe exB0 rel (by decide +kernel) hnt hLe
    exact ⟨sLe, sBe, hLe, hBe, of_decide_eq_true h, r1, r2, r3⟩
  · cases h

-- the hypothesis `hsqrt` of the `_of_hsqrt` corollaries is satisfiable: the real square root
example (prm : BiCGStabL.Params ℝ) :=
  bicgstabl_mr_minimises_of_hsqrt prm Real.sqrt (fun _ hx => Real.mul_self_sqrt hx)
example (prm : BiCGStabL.Params ℝ) :=
  bicgstabl_pass_residual_le_of_hsqrt prm Real.sqrt (fun _ hx => Real.mul_self_sqrt hx)

end examples

end Amgcl.C05h
