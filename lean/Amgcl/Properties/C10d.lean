import Amgcl.Proofs.DefinedTranspose
import Amgcl.Proofs.DefinedOnePass
import Mathlib.Algebra.Order.Field.Rat
/-!
# C10 (continued, package alloc2) — further allocation sites: cell-level definedness for all inputs

Semantics as in `Properties/C10c.lean` (`Model/DefinedCells.lean`): `alloc junk` = a fresh allocation holding the prior
heap content with every `written` flag false; `load` of an unwritten cell = `none`.

* `transpose_defined` — `backend::transpose` (site `crs::set_nonzeros|this.col+val`): the counting sort as written
  (count, in-place scan, `set_nonzeros()`, fill through the advancing pointers, `std::rotate`) yields the completely
  written flat image of the row-level model `Amgcl.transpose` (the one C08 validates against the real code), for
  every matrix with in-range columns and every prior heap content — **also with the zero-filling loop of
  `set_nonzeros()` switched off**: the fill pass alone stores into every one of the `nnz` cells, and it performs
  exactly `nnz` stores, so each cell is the target of exactly one (`transpose_fill_store_count`).
* `set_nonzeros_zero_defined` — `set_size; width pass; scan_row_sizes(); set_nonzeros()`: every cell of the three
  allocations is written (zeros in `col`/`val`), the scanned `ptr` cells being loaded only after they were written;
  instance `tentative_ns_ptr_defined` (tentative prolongation with near-null-space vectors, site `P.ptr`).
* `one_pass_defined` — `set_size(n, n); set_nonzeros(cap); ptr[0] = 0;` running head, `ptr[i+1] = head`: `ptr`
  completely written, cells `[0, nnz)` of `col`/`val` written with the rows in storage order, cells `[nnz, cap)` never
  touched, no cell loaded; instances `ilu0_LU_defined` (`cap` = the counts of the counting loop = exactly `nnz`) and
  `ilut_LU_defined` (`cap = Σ lenL·p` ≥ what `move_to` stores, row by row).
-/
namespace Amgcl.C10d
open Amgcl Amgcl.Defined

/-! ## `backend::transpose` -/
section transpose
variable {K : Type} [Zero K]

/-- **`backend::transpose`, every matrix with in-range columns, every prior content of the `col`/`val` allocation,
with (`zf = true`, the code) or without (`zf = false`) the zero fill of `set_nonzeros()`**: the result is the
completely written flat image of the row-level transpose; in particular it is the same for any two prior heaps and
does not depend on the zero fill — every cell is overwritten by the fill pass. -/
theorem transpose_defined (adj : K → K) (A : CRS K)
    (hcols : ∀ i, i < A.nrows → ∀ cv ∈ A.row i, cv.1 < A.ncols) (zf zf' : Bool)
    (jc jc' : Nat → Array Nat) (jv jv' : Nat → Array K)
    (hc : ∀ k, (jc k).size = k) (hv : ∀ k, (jv k).size = k) (hc' : ∀ k, (jc' k).size = k) (hv' : ∀ k, (jv' k).size = k) :
    transposeCells adj A zf jc jv = TrState.ofRows (transpose adj A).rows ∧
      allWritten (transposeCells adj A zf jc jv).col = true ∧ allWritten (transposeCells adj A zf jc jv).val = true ∧
      transposeCells adj A zf jc jv = transposeCells adj A zf' jc' jv' := by
  rw [transposeCells_spec adj A hcols zf jc jv hc hv, transposeCells_spec adj A hcols zf' jc' jv' hc' hv']
  exact ⟨rfl, allWritten_written _, allWritten_written _, rfl⟩

/-- the fill pass performs one store into `col` and one into `val` per stored entry of `A`, and the allocation has
exactly that many cells (`transpose_defined` with `zf = false` shows every cell is hit): each cell is the target of
exactly one store of the fill pass -/
theorem transpose_fill_store_count (adj : K → K) (A : CRS K)
    (hcols : ∀ i, i < A.nrows → ∀ cv ∈ A.row i, cv.1 < A.ncols)
    (jc : Nat → Array Nat) (jv : Nat → Array K) (hc : ∀ k, (jc k).size = k) (hv : ∀ k, (jv k).size = k) :
    (transposeCells adj A false jc jv).col.size = (trEntries A).length ∧
      (transposeCells adj A false jc jv).val.size = (trEntries A).length ∧
      allWritten (transposeCells adj A false jc jv).col = true ∧
      allWritten (transposeCells adj A false jc jv).val = true := by
  obtain ⟨h, a, b, _⟩ := transpose_defined adj A hcols false false jc jc jv jv hc hv hc hv
  have hE := trEntries_col_lt A hcols
  have hsz : (transpose adj A).rows.size = A.ncols := transpose_nrows adj A
  have hlen : ∀ c, c < A.ncols → ((transpose adj A).rows.getD c []).length = cntG (trEntries A) c := by
    intro c hc; rw [transpose_row_bucket adj A c hc, List.length_map, bucketG_length]
  have hnnz : (flatRows (transpose adj A).rows).length = (trEntries A).length := by
    rw [← flatUpTo_all, hsz, flatUpTo_length_pre _ _ (by rw [hsz]),
      RS.pre_congr (fun c hc => (hlen c hc)), pre_cntG_eq _ _ hE]
  refine ⟨?_, ?_, a, b⟩
  · rw [h]; simp [TrState.ofRows, written_size, hnnz]
  · rw [h]; simp [TrState.ofRows, written_size, hnnz]

end transpose

/-- a 3×4 matrix with an empty row, an empty column and unsorted rows -/
def exT : CRS Rat := ⟨4, #[[(3, 5), (0, 1)], [], [(0, 2), (3, 7), (1, 4)]]⟩

/-- non-vacuity of `transpose_defined`: `exT` has in-range columns; junk 9/7 vs. 0/1, with vs. without zero fill -/
example : transposeCells (fun v => v) exT true (fun k => Array.replicate k 9) (fun k => Array.replicate k 7)
    = transposeCells (fun v => v) exT false (fun k => Array.replicate k 0) (fun k => Array.replicate k 1) :=
  (transpose_defined (fun v => v) exT (by decide) true false _ _ _ _ (fun k => by simp) (fun k => by simp)
    (fun k => by simp) (fun k => by simp)).2.2.2

example : (transposeCells (fun v => v) exT false (fun k => Array.replicate k 9) (fun k => Array.replicate k 7)).ptr
    = #[0, 2, 3, 3, 5] := by decide +kernel

example : erase (transposeCells (fun v => v) exT false (fun k => Array.replicate k 9) (fun k => Array.replicate k 7)).col
    = #[0, 2, 2, 0, 2] := by decide +kernel

/-! ## `set_nonzeros()` after a width pass -/
section zero
variable {K : Type} [Zero K]

/-- **`set_size(n, m); ptr[0] = 0; ptr[i+1] = w i; scan_row_sizes(); set_nonzeros()`**: for every width function and
every prior content of the three allocations no unwritten cell is loaded, all `n+1 + 2·Σw` cells are written, and the
result is the same for any two prior heaps -/
theorem set_nonzeros_zero_defined (n : Nat) (w : Nat → Nat) (jp jp' : Array Nat) (jc jc' : Nat → Array Nat)
    (jv jv' : Nat → Array K)
    (hp : jp.size = n + 1) (hc : ∀ k, (jc k).size = k) (hv : ∀ k, (jv k).size = k)
    (hp' : jp'.size = n + 1) (hc' : ∀ k, (jc' k).size = k) (hv' : ∀ k, (jv' k).size = k) :
    (setNonzerosZeroCells n w jp jc jv).ok = true ∧ allWritten (setNonzerosZeroCells n w jp jc jv).ptr = true ∧
      allWritten (setNonzerosZeroCells n w jp jc jv).col = true ∧
      allWritten (setNonzerosZeroCells n w jp jc jv).val = true ∧
      setNonzerosZeroCells n w jp jc jv = CrsCells.ofRows (zeroRows (K := K) n w) ∧
      setNonzerosZeroCells n w jp jc jv = setNonzerosZeroCells n w jp' jc' jv' := by
  have hn : (zeroRows (K := K) n w).size = n := by simp [zeroRows]
  unfold setNonzerosZeroCells
  rw [twoPass_spec _ jp jc jv (by rw [hn]; exact hp) hc hv, twoPass_spec _ jp' jc' jv' (by rw [hn]; exact hp') hc' hv']
  obtain ⟨a, b, c, d⟩ := ofRows_allWritten (zeroRows (K := K) n w)
  exact ⟨d, a, b, c, rfl, rfl⟩

/-- `tentative_prolongation` with near-null-space vectors (l.153-161): `P.ptr` after `set_size(n, …)`, the width pass
`aggr[i] < 0 ? 0 : cols`, the scan and `set_nonzeros()` — all cells written, independent of the prior heap -/
theorem tentative_ns_ptr_defined (n cols : Nat) (aggr : Array Int) (jp jp' : Array Nat) (jc jc' : Nat → Array Nat)
    (jv jv' : Nat → Array K)
    (hp : jp.size = n + 1) (hc : ∀ k, (jc k).size = k) (hv : ∀ k, (jv k).size = k)
    (hp' : jp'.size = n + 1) (hc' : ∀ k, (jc' k).size = k) (hv' : ∀ k, (jv' k).size = k) :
    (tentativeNsCells n cols aggr jp jc jv).ok = true ∧ allWritten (tentativeNsCells n cols aggr jp jc jv).ptr = true ∧
      allWritten (tentativeNsCells n cols aggr jp jc jv).col = true ∧
      allWritten (tentativeNsCells n cols aggr jp jc jv).val = true ∧
      tentativeNsCells n cols aggr jp jc jv = tentativeNsCells n cols aggr jp' jc' jv' := by
  obtain ⟨a, b, c, d, _, f⟩ := set_nonzeros_zero_defined (K := K) n
    (fun i => if aggr.getD i (-1) < 0 then 0 else cols) jp jp' jc jc' jv jv' hp hc hv hp' hc' hv'
  exact ⟨a, b, c, d, f⟩

end zero

/-- non-vacuity: widths `2, 0, 1` -/
example : erase (setNonzerosZeroCells (K := Rat) 3 (fun i => #[2, 0, 1].getD i 0) #[9, 9, 9, 9]
    (fun k => Array.replicate k 5) (fun k => Array.replicate k 7)).ptr = #[0, 2, 2, 3] := by decide +kernel

example : (tentativeNsCells (K := Rat) 4 2 #[0, -1, 1, 0] #[9, 9, 9, 9, 9] (fun k => Array.replicate k 5)
    (fun k => Array.replicate k 7)).ok = true :=
  (tentative_ns_ptr_defined 4 2 #[0, -1, 1, 0] #[9, 9, 9, 9, 9] #[1, 2, 3, 4, 5] (fun k => Array.replicate k 5)
    (fun k => Array.replicate k 0) (fun k => Array.replicate k 7) (fun k => Array.replicate k 0)
    rfl (fun k => by simp) (fun k => by simp) rfl (fun k => by simp) (fun k => by simp)).1

/-! ## one-pass construction with a running head -/
section onepass
variable {K : Type}

/-- **`set_size(n, n); set_nonzeros(cap); ptr[0] = 0; head = 0; for i: { row i stored at head…; ptr[i+1] = head }`**
for every sequence of rows with `Σ|row i| ≤ cap` and any two prior heap contents: no cell is loaded, `ptr` is
completely written with the pointer array of the rows, cells `[0, nnz)` of `col`/`val` hold the rows in storage
order, cells `[nnz, cap)` are never stored to (and no row addressed through `ptr` contains them), and everything
written is the same for both heaps -/
theorem one_pass_defined (rows : Array (Row K)) (jp jc jp' jc' : Array Nat) (jv jv' : Array K)
    (hp : jp.size = rows.size + 1) (hc : (flatRows rows).length ≤ jc.size) (hv : (flatRows rows).length ≤ jv.size)
    (hp' : jp'.size = rows.size + 1) (hc' : (flatRows rows).length ≤ jc'.size) (hv' : (flatRows rows).length ≤ jv'.size) :
    (onePass rows jp jc jv).fill.ok = true ∧ (onePass rows jp jc jv).ptr = written (ptrList rows).toArray ∧
      (∀ q (hq : q < (flatRows rows).length), load (onePass rows jp jc jv).fill.col q = some (flatRows rows)[q].1 ∧
        load (onePass rows jp jc jv).fill.val q = some (flatRows rows)[q].2) ∧
      (∀ q, (flatRows rows).length ≤ q → load (onePass rows jp jc jv).fill.col q = none ∧
        load (onePass rows jp jc jv).fill.val q = none) ∧
      (onePass rows jp jc jv).ptr = (onePass rows jp' jc' jv').ptr ∧
      (∀ q, load (onePass rows jp jc jv).fill.col q = load (onePass rows jp' jc' jv').fill.col q ∧
        load (onePass rows jp jc jv).fill.val q = load (onePass rows jp' jc' jv').fill.val q) := by
  obtain ⟨_, a2, a3, _, _, a6, a7, a8, a9⟩ := onePass_spec rows jp jc jv hp hc hv
  obtain ⟨_, _, b3, _, _, b6, b7, b8, b9⟩ := onePass_spec rows jp' jc' jv' hp' hc' hv'
  refine ⟨a2, a3, fun q hq => ⟨a6 q hq, a7 q hq⟩, fun q hq => ⟨a8 q hq, a9 q hq⟩, by rw [a3, b3], fun q => ?_⟩
  by_cases hq : q < (flatRows rows).length
  · exact ⟨by rw [a6 q hq, b6 q hq], by rw [a7 q hq, b7 q hq]⟩
  · exact ⟨by rw [a8 q (by omega), b8 q (by omega)], by rw [a9 q (by omega), b9 q (by omega)]⟩

/-- **`ilu0::ilu0`, `L` and `U`** (l.96-146, the structure-building part): the counting loop gives exactly the number
of strictly-lower / strictly-upper entries, so the one-pass construction fills `L.ptr`, `L.col`, `L.val`, `U.ptr`,
`U.col`, `U.val` completely — every cell written once, before the elimination steps of the same row (which touch
cells of rows `≤ i` only, `ilu0_defined`) — for every matrix and every prior heap content -/
theorem ilu0_LU_defined (A : CRS K) (jpL jcL jpU jcU : Array Nat) (jvL jvU : Array K)
    (hpL : jpL.size = A.nrows + 1) (hcL : jcL.size = (ilu0Counts A).1) (hvL : jvL.size = (ilu0Counts A).1)
    (hpU : jpU.size = A.nrows + 1) (hcU : jcU.size = (ilu0Counts A).2) (hvU : jvU.size = (ilu0Counts A).2) :
    ((onePass (lowerRows A) jpL jcL jvL).ptr = (CrsCells.ofRows (lowerRows A)).ptr ∧
      (onePass (lowerRows A) jpL jcL jvL).fill.col = (CrsCells.ofRows (lowerRows A)).col ∧
      (onePass (lowerRows A) jpL jcL jvL).fill.val = (CrsCells.ofRows (lowerRows A)).val ∧
      (onePass (lowerRows A) jpL jcL jvL).fill.ok = true) ∧
    ((onePass (upperRows A) jpU jcU jvU).ptr = (CrsCells.ofRows (upperRows A)).ptr ∧
      (onePass (upperRows A) jpU jcU jvU).fill.col = (CrsCells.ofRows (upperRows A)).col ∧
      (onePass (upperRows A) jpU jcU jvU).fill.val = (CrsCells.ofRows (upperRows A)).val ∧
      (onePass (upperRows A) jpU jcU jvU).fill.ok = true) := by
  obtain ⟨h1, h2⟩ := ilu0Counts_spec A
  have hnL : (lowerRows A).size = A.nrows := by simp [lowerRows]
  have hnU : (upperRows A).size = A.nrows := by simp [upperRows]
  exact ⟨onePass_exact _ _ _ _ (by rw [hnL]; exact hpL) (by rw [hcL, h1]) (by rw [hvL, h1]),
    onePass_exact _ _ _ _ (by rw [hnU]; exact hpU) (by rw [hcU, h2]) (by rw [hvU, h2])⟩

/-- **`ilut::ilut`, `L` and `U`** (allocation discipline only; the factor values are another model's business): the
capacity is `Σ_i cap i` (`cap i = lenL·p` resp. `lenU·p`) and `move_to` stores at most `cap i` entries of row `i`
(`lend = min(b + lp, m)`, `uend = min(m + up, e)` minus the diagonal), so whatever rows it produces the one-pass
construction never runs past the allocation, writes `ptr` completely and the cells below `ptr[n]` — the new value of
`nnz` (l.177-178) — and leaves the rest untouched -/
theorem ilut_LU_defined (rows : Array (Row K)) (cap : Nat → Nat) (hrow : ∀ i, i < rows.size → (rows.getD i []).length ≤ cap i)
    (jp jc : Array Nat) (jv : Array K) (hp : jp.size = rows.size + 1)
    (hc : jc.size = ((List.range rows.size).map cap).sum) (hv : jv.size = ((List.range rows.size).map cap).sum) :
    (flatRows rows).length ≤ jc.size ∧ (onePass rows jp jc jv).fill.ok = true ∧
      (onePass rows jp jc jv).ptr = written (ptrList rows).toArray ∧
      (∀ q (hq : q < (flatRows rows).length), load (onePass rows jp jc jv).fill.col q = some (flatRows rows)[q].1 ∧
        load (onePass rows jp jc jv).fill.val q = some (flatRows rows)[q].2) ∧
      (∀ q, (flatRows rows).length ≤ q → load (onePass rows jp jc jv).fill.col q = none ∧
        load (onePass rows jp jc jv).fill.val q = none) := by
  have hle : ∀ k, k ≤ rows.size → (flatUpTo rows k).length ≤ ((List.range k).map cap).sum := by
    intro k
    induction k with
    | zero => intro _; simp [flatUpTo_zero]
    | succ k ih =>
      intro hk
      rw [flatUpTo_succ rows k (by omega), List.length_append, List.range_succ, List.map_append, List.sum_append]
      have := ih (by omega)
      have := hrow k (by omega)
      simp only [List.map_cons, List.map_nil, List.sum_cons, List.sum_nil]
      omega
  have htot : (flatRows rows).length ≤ ((List.range rows.size).map cap).sum := by
    rw [← flatUpTo_all]; exact hle _ (Nat.le_refl _)
  obtain ⟨a, b, c, d, _, _⟩ := one_pass_defined rows jp jc jp jc jv jv hp (by rw [hc]; exact htot) (by rw [hv]; exact htot)
    hp (by rw [hc]; exact htot) (by rw [hv]; exact htot)
  exact ⟨by rw [hc]; exact htot, a, b, c, d⟩

end onepass

/-- non-vacuity of `ilu0_LU_defined` on `exT`-like square input -/
def exSq : CRS Rat := ⟨3, #[[(0, 2), (2, 1)], [(0, 1), (1, 2)], [(1, 1), (0, 3), (2, 2)]]⟩

example : ilu0Counts exSq = (3, 1) := by decide +kernel

example := ilu0_LU_defined exSq #[9, 9, 9, 9] #[8, 8, 8] #[7, 7, 7, 7] #[6] (#[5, 5, 5] : Array Rat) #[4]
  rfl (by decide +kernel) (by decide +kernel) rfl (by decide +kernel) (by decide +kernel)

example : erase (onePass (lowerRows exSq) #[9, 9, 9, 9] #[8, 8, 8] (#[5, 5, 5] : Array Rat)).ptr = #[0, 0, 1, 3] := by
  decide +kernel

/-- non-vacuity of `ilut_LU_defined`: rows of lengths 1, 0, 2 under the caps 2, 1, 2 — the last two cells stay
unwritten -/
example : load (onePass (#[[(0, (1 : Rat))], [], [(0, 2), (1, 3)]] : Array (Row Rat)) #[9, 9, 9, 9] #[8, 8, 8, 8, 8]
    #[5, 5, 5, 5, 5]).fill.col 3 = none :=
  ((ilut_LU_defined (#[[(0, (1 : Rat))], [], [(0, 2), (1, 3)]] : Array (Row Rat)) (fun i => #[2, 1, 2].getD i 0)
    (by decide) #[9, 9, 9, 9] #[8, 8, 8, 8, 8] #[5, 5, 5, 5, 5] rfl (by decide) (by decide)).2.2.2.2 3 (by decide)).1

end Amgcl.C10d
