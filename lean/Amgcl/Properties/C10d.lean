import Amgcl.Proofs.DefinedTranspose
import Amgcl.Proofs.DefinedOnePass
import Amgcl.Proofs.DefinedPasses
import Mathlib.Algebra.Order.Field.Rat
/-!
# C10 (continued, package alloc2) — further allocation sites: cell-level definedness for all inputs

Semantics as in `Properties/C10c.lean` (`Model/DefinedCells.lean`): `alloc junk` = a fresh allocation holding the prior
heap content with every `written` flag false; `load` of an unwritten cell = `none`.

* `transpose_defined` — `backend::transpose` (site `crs::set_nonzeros|this.col+val`): the counting sort as written
  (count, in-place scan, `set_nonzeros()`, fill through the advancing pointers, `std::rotate`) yields the completely
  written flat image of the row-level model `Amgcl.transpose` (the one C08 validates against the real code), for
  every matrix with in-range columns and every prior heap content — **also with the zero-filling loop of
  `set_nonzeros()` switched off**: the fill pass alone stores into every one of the `nnz` cells, and it performs
  exactly `nnz` stores, so each cell is the target of exactly one (`transpose_fill_store_count`).
* `set_nonzeros_zero_defined` — `set_size; width pass; scan_row_sizes(); set_nonzeros()`: every cell of the three
  allocations is written (zeros in `col`/`val`), the scanned `ptr` cells being loaded only after they were written;
  instance `tentative_ns_ptr_defined` (tentative prolongation with near-null-space vectors, site `P.ptr`).
* `one_pass_defined` — `set_size(n, n); set_nonzeros(cap); ptr[0] = 0;` running head, `ptr[i+1] = head`: `ptr`
  completely written, cells `[0, nnz)` of `col`/`val` written with the rows in storage order, cells `[nnz, cap)` never
  touched, no cell loaded; instances `ilu0_LU_defined` (`cap` = the counts of the counting loop = exactly `nnz`) and
  `ilut_LU_defined` (`cap = Σ lenL·p` ≥ what `move_to` stores, row by row).
* `emin_Af_defined` — `smoothed_aggr_emin`, the filtered matrix `Af` (`Af.ptr`, `Af.col+val`): the width loop
  (`row_width` decremented per weak off-diagonal entry) and the fill loop (diagonal or strong entries) agree.
* `pointwise_matrix_defined` — `Ap`: the counting pass as written (increments of the zero-filled `ptr`, no values)
  makes exactly as many increments as the filling pass stores entries (`countBlockRow_eq`: simulation on the control
  state `done`/`cur_col`/cursors), so the fill from the loaded `Ap.ptr[ip]` writes every cell; result = flat image of
  `pointwiseMatrix` (the model C04/C08 validate).
* `unblock_ptr_defined` — `adapter::unblock_matrix`, `A.ptr`.
* `tri_defined` with instances `iluk_D_defined`, `ilut_D_defined` — `D = numa_vector(n, false)` written at `i` in row
  `i`, loaded only at indices below the current row.
* `spectral_radius_power_defined` — `b0`, `b1 = numa_vector(n, false)` of the power iteration.
-/
namespace Amgcl.C10d
open Amgcl Amgcl.Defined

/-! ## `backend::transpose` -/
section transpose
variable {K : Type} [Zero K]

/-- **`backend::transpose`, every matrix with in-range columns, every prior content of the `col`/`val` allocation,
with (`zf = true`, the code) or without (`zf = false`) the zero fill of `set_nonzeros()`**: the result is the
completely written flat image of the row-level transpose; in particular it is the same for any two prior heaps and
does not depend on the zero fill — every cell is overwritten by the fill pass. -/
theorem transpose_defined (adj : K → K) (A : CRS K)
    (hcols : ∀ i, i < A.nrows → ∀ cv ∈ A.row i, cv.1 < A.ncols) (zf zf' : Bool)
    (jc jc' : Nat → Array Nat) (jv jv' : Nat → Array K)
    (hc : ∀ k, (jc k).size = k) (hv : ∀ k, (jv k).size = k) (hc' : ∀ k, (jc' k).size = k) (hv' : ∀ k, (jv' k).size = k) :
    transposeCells adj A zf jc jv = TrState.ofRows (transpose adj A).rows ∧
      allWritten (transposeCells adj A zf jc jv).col = true ∧ allWritten (transposeCells adj A zf jc jv).val = true ∧
      transposeCells adj A zf jc jv = transposeCells adj A zf' jc' jv' := by
  rw [transposeCells_spec adj A hcols zf jc jv hc hv, transposeCells_spec adj A hcols zf' jc' jv' hc' hv']
  exact ⟨rfl, allWritten_written _, allWritten_written _, rfl⟩

/-- the fill pass performs one store into `col` and one into `val` per stored entry of `A`, and the allocation has
exactly that many cells (`transpose_defined` with `zf = false` shows every cell is hit): each cell is the target of
exactly one store of the fill pass -/
theorem transpose_fill_store_count (adj : K → K) (A : CRS K)
    (hcols : ∀ i, i < A.nrows → ∀ cv ∈ A.row i, cv.1 < A.ncols)
    (jc : Nat → Array Nat) (jv : Nat → Array K) (hc : ∀ k, (jc k).size = k) (hv : ∀ k, (jv k).size = k) :
    (transposeCells adj A false jc jv).col.size = (trEntries A).length ∧
      (transposeCells adj A false jc jv).val.size = (trEntries A).length ∧
      allWritten (transposeCells adj A false jc jv).col = true ∧
      allWritten (transposeCells adj A false jc jv).val = true := by
  obtain ⟨h, a, b, _⟩ := transpose_defined adj A hcols false false jc jc jv jv hc hv hc hv
  have hE := trEntries_col_lt A hcols
  have hsz : (transpose adj A).rows.size = A.ncols := transpose_nrows adj A
  have hlen : ∀ c, c < A.ncols → ((transpose adj A).rows.getD c []).length = cntG (trEntries A) c := by
    intro c hc; rw [transpose_row_bucket adj A c hc, List.length_map, bucketG_length]
  have hnnz : (flatRows (transpose adj A).rows).length = (trEntries A).length := by
    rw [← flatUpTo_all, hsz, flatUpTo_length_pre _ _ (by rw [hsz]),
      RS.pre_congr (fun c hc => (hlen c hc)), pre_cntG_eq _ _ hE]
  refine ⟨?_, ?_, a, b⟩
  · rw [h]; simp [TrState.ofRows, written_size, hnnz]
  · rw [h]; simp [TrState.ofRows, written_size, hnnz]

end transpose

/-- a 3×4 matrix with an empty row, an empty column and unsorted rows -/
def exT : CRS Rat := ⟨4, #[[(3, 5), (0, 1)], [], [(0, 2), (3, 7), (1, 4)]]⟩

/-- non-vacuity of `transpose_defined`: `exT` has in-range columns; junk 9/7 vs. 0/1, with vs. without zero fill -/
example : transposeCells (fun v => v) exT true (fun k => Array.replicate k 9) (fun k => Array.replicate k 7)
    = transposeCells (fun v => v) exT false (fun k => Array.replicate k 0) (fun k => Array.replicate k 1) :=
  (transpose_defined (fun v => v) exT (by decide) true false _ _ _ _ (fun k => by simp) (fun k => by simp)
    (fun k => by simp) (fun k => by simp)).2.2.2

example : (transposeCells (fun v => v) exT false (fun k => Array.replicate k 9) (fun k => Array.replicate k 7)).ptr
    = #[0, 2, 3, 3, 5] := by decide +kernel

example : erase (transposeCells (fun v => v) exT false (fun k => Array.replicate k 9) (fun k => Array.replicate k 7)).col
    = #[0, 2, 2, 0, 2] := by decide +kernel

/-! ## `set_nonzeros()` after a width pass -/
section zero
variable {K : Type} [Zero K]

/-- **`set_size(n, m); ptr[0] = 0; ptr[i+1] = w i; scan_row_sizes(); set_nonzeros()`**: for every width function and
every prior content of the three allocations no unwritten cell is loaded, all `n+1 + 2·Σw` cells are written, and the
result is the same for any two prior heaps -/
theorem set_nonzeros_zero_defined (n : Nat) (w : Nat → Nat) (jp jp' : Array Nat) (jc jc' : Nat → Array Nat)
    (jv jv' : Nat → Array K)
    (hp : jp.size = n + 1) (hc : ∀ k, (jc k).size = k) (hv : ∀ k, (jv k).size = k)
    (hp' : jp'.size = n + 1) (hc' : ∀ k, (jc' k).size = k) (hv' : ∀ k, (jv' k).size = k) :
    (setNonzerosZeroCells n w jp jc jv).ok = true ∧ allWritten (setNonzerosZeroCells n w jp jc jv).ptr = true ∧
      allWritten (setNonzerosZeroCells n w jp jc jv).col = true ∧
      allWritten (setNonzerosZeroCells n w jp jc jv).val = true ∧
      setNonzerosZeroCells n w jp jc jv = CrsCells.ofRows (zeroRows (K := K) n w) ∧
      setNonzerosZeroCells n w jp jc jv = setNonzerosZeroCells n w jp' jc' jv' := by
  have hn : (zeroRows (K := K) n w).size = n := by simp [zeroRows]
  unfold setNonzerosZeroCells
  rw [twoPass_spec _ jp jc jv (by rw [hn]; exact hp) hc hv, twoPass_spec _ jp' jc' jv' (by rw [hn]; exact hp') hc' hv']
  obtain ⟨a, b, c, d⟩ := ofRows_allWritten (zeroRows (K := K) n w)
  exact ⟨d, a, b, c, rfl, rfl⟩

/-- `tentative_prolongation` with near-null-space vectors (l.153-161): `P.ptr` after `set_size(n, …)`, the width pass
`aggr[i] < 0 ? 0 : cols`, the scan and `set_nonzeros()` — all cells written, independent of the prior heap -/
theorem tentative_ns_ptr_defined (n cols : Nat) (aggr : Array Int) (jp jp' : Array Nat) (jc jc' : Nat → Array Nat)
    (jv jv' : Nat → Array K)
    (hp : jp.size = n + 1) (hc : ∀ k, (jc k).size = k) (hv : ∀ k, (jv k).size = k)
    (hp' : jp'.size = n + 1) (hc' : ∀ k, (jc' k).size = k) (hv' : ∀ k, (jv' k).size = k) :
    (tentativeNsCells n cols aggr jp jc jv).ok = true ∧ allWritten (tentativeNsCells n cols aggr jp jc jv).ptr = true ∧
      allWritten (tentativeNsCells n cols aggr jp jc jv).col = true ∧
      allWritten (tentativeNsCells n cols aggr jp jc jv).val = true ∧
      tentativeNsCells n cols aggr jp jc jv = tentativeNsCells n cols aggr jp' jc' jv' := by
  obtain ⟨a, b, c, d, _, f⟩ := set_nonzeros_zero_defined (K := K) n
    (fun i => if aggr.getD i (-1) < 0 then 0 else cols) jp jp' jc jc' jv jv' hp hc hv hp' hc' hv'
  exact ⟨a, b, c, d, f⟩

end zero

/-- non-vacuity: widths `2, 0, 1` -/
example : erase (setNonzerosZeroCells (K := Rat) 3 (fun i => #[2, 0, 1].getD i 0) #[9, 9, 9, 9]
    (fun k => Array.replicate k 5) (fun k => Array.replicate k 7)).ptr = #[0, 2, 2, 3] := by decide +kernel

example : (tentativeNsCells (K := Rat) 4 2 #[0, -1, 1, 0] #[9, 9, 9, 9, 9] (fun k => Array.replicate k 5)
    (fun k => Array.replicate k 7)).ok = true :=
  (tentative_ns_ptr_defined 4 2 #[0, -1, 1, 0] #[9, 9, 9, 9, 9] #[1, 2, 3, 4, 5] (fun k => Array.replicate k 5)
    (fun k => Array.replicate k 0) (fun k => Array.replicate k 7) (fun k => Array.replicate k 0)
    rfl (fun k => by simp) (fun k => by simp) rfl (fun k => by simp) (fun k => by simp)).1

/-! ## one-pass construction with a running head -/
section onepass
variable {K : Type}

/-- **`set_size(n, n); set_nonzeros(cap); ptr[0] = 0; head = 0; for i: { row i stored at head…; ptr[i+1] = head }`**
for every sequence of rows with `Σ|row i| ≤ cap` and any two prior heap contents: no cell is loaded, `ptr` is
completely written with the pointer array of the rows, cells `[0, nnz)` of `col`/`val` hold the rows in storage
order, cells `[nnz, cap)` are never stored to (and no row addressed through `ptr` contains them), and everything
written is the same for both heaps -/
theorem one_pass_defined (rows : Array (Row K)) (jp jc jp' jc' : Array Nat) (jv jv' : Array K)
    (hp : jp.size = rows.size + 1) (hc : (flatRows rows).length ≤ jc.size) (hv : (flatRows rows).length ≤ jv.size)
    (hp' : jp'.size = rows.size + 1) (hc' : (flatRows rows).length ≤ jc'.size) (hv' : (flatRows rows).length ≤ jv'.size) :
    (onePass rows jp jc jv).fill.ok = true ∧ (onePass rows jp jc jv).ptr = written (ptrList rows).toArray ∧
      (∀ q (hq : q < (flatRows rows).length), load (onePass rows jp jc jv).fill.col q = some (flatRows rows)[q].1 ∧
        load (onePass rows jp jc jv).fill.val q = some (flatRows rows)[q].2) ∧
      (∀ q, (flatRows rows).length ≤ q → load (onePass rows jp jc jv).fill.col q = none ∧
        load (onePass rows jp jc jv).fill.val q = none) ∧
      (onePass rows jp jc jv).ptr = (onePass rows jp' jc' jv').ptr ∧
      (∀ q, load (onePass rows jp jc jv).fill.col q = load (onePass rows jp' jc' jv').fill.col q ∧
        load (onePass rows jp jc jv).fill.val q = load (onePass rows jp' jc' jv').fill.val q) := by
  obtain ⟨_, a2, a3, _, _, a6, a7, a8, a9⟩ := onePass_spec rows jp jc jv hp hc hv
  obtain ⟨_, _, b3, _, _, b6, b7, b8, b9⟩ := onePass_spec rows jp' jc' jv' hp' hc' hv'
  refine ⟨a2, a3, fun q hq => ⟨a6 q hq, a7 q hq⟩, fun q hq => ⟨a8 q hq, a9 q hq⟩, by rw [a3, b3], fun q => ?_⟩
  by_cases hq : q < (flatRows rows).length
  · exact ⟨by rw [a6 q hq, b6 q hq], by rw [a7 q hq, b7 q hq]⟩
  · exact ⟨by rw [a8 q (by omega), b8 q (by omega)], by rw [a9 q (by omega), b9 q (by omega)]⟩

/-- **`ilu0::ilu0`, `L` and `U`** (l.96-146, the structure-building part): the counting loop gives exactly the number
of strictly-lower / strictly-upper entries, so the one-pass construction fills `L.ptr`, `L.col`, `L.val`, `U.ptr`,
`U.col`, `U.val` completely — every cell written once, before the elimination steps of the same row (which touch
cells of rows `≤ i` only, `ilu0_defined`) — for every matrix and every prior heap content -/
theorem ilu0_LU_defined (A : CRS K) (jpL jcL jpU jcU : Array Nat) (jvL jvU : Array K)
    (hpL : jpL.size = A.nrows + 1) (hcL : jcL.size = (ilu0Counts A).1) (hvL : jvL.size = (ilu0Counts A).1)
    (hpU : jpU.size = A.nrows + 1) (hcU : jcU.size = (ilu0Counts A).2) (hvU : jvU.size = (ilu0Counts A).2) :
    ((onePass (lowerRows A) jpL jcL jvL).ptr = (CrsCells.ofRows (lowerRows A)).ptr ∧
      (onePass (lowerRows A) jpL jcL jvL).fill.col = (CrsCells.ofRows (lowerRows A)).col ∧
      (onePass (lowerRows A) jpL jcL jvL).fill.val = (CrsCells.ofRows (lowerRows A)).val ∧
      (onePass (lowerRows A) jpL jcL jvL).fill.ok = true) ∧
    ((onePass (upperRows A) jpU jcU jvU).ptr = (CrsCells.ofRows (upperRows A)).ptr ∧
      (onePass (upperRows A) jpU jcU jvU).fill.col = (CrsCells.ofRows (upperRows A)).col ∧
      (onePass (upperRows A) jpU jcU jvU).fill.val = (CrsCells.ofRows (upperRows A)).val ∧
      (onePass (upperRows A) jpU jcU jvU).fill.ok = true) := by
  obtain ⟨h1, h2⟩ := ilu0Counts_spec A
  have hnL : (lowerRows A).size = A.nrows := by simp [lowerRows]
  have hnU : (upperRows A).size = A.nrows := by simp [upperRows]
  exact ⟨onePass_exact _ _ _ _ (by rw [hnL]; exact hpL) (by rw [hcL, h1]) (by rw [hvL, h1]),
    onePass_exact _ _ _ _ (by rw [hnU]; exact hpU) (by rw [hcU, h2]) (by rw [hvU, h2])⟩

/-- **`ilut::ilut`, `L` and `U`** (allocation discipline only; the factor values are another model's business): the
capacity is `Σ_i cap i` (`cap i = lenL·p` resp. `lenU·p`) and `move_to` stores at most `cap i` entries of row `i`
(`lend = min(b + lp, m)`, `uend = min(m + up, e)` minus the diagonal), so whatever rows it produces the one-pass
construction never runs past the allocation, writes `ptr` completely and the cells below `ptr[n]` — the new value of
`nnz` (l.177-178) — and leaves the rest untouched -/
theorem ilut_LU_defined (rows : Array (Row K)) (cap : Nat → Nat) (hrow : ∀ i, i < rows.size → (rows.getD i []).length ≤ cap i)
    (jp jc : Array Nat) (jv : Array K) (hp : jp.size = rows.size + 1)
    (hc : jc.size = ((List.range rows.size).map cap).sum) (hv : jv.size = ((List.range rows.size).map cap).sum) :
    (flatRows rows).length ≤ jc.size ∧ (onePass rows jp jc jv).fill.ok = true ∧
      (onePass rows jp jc jv).ptr = written (ptrList rows).toArray ∧
      (∀ q (hq : q < (flatRows rows).length), load (onePass rows jp jc jv).fill.col q = some (flatRows rows)[q].1 ∧
        load (onePass rows jp jc jv).fill.val q = some (flatRows rows)[q].2) ∧
      (∀ q, (flatRows rows).length ≤ q → load (onePass rows jp jc jv).fill.col q = none ∧
        load (onePass rows jp jc jv).fill.val q = none) := by
  have hle : ∀ k, k ≤ rows.size → (flatUpTo rows k).length ≤ ((List.range k).map cap).sum := by
    intro k
    induction k with
    | zero => intro _; simp [flatUpTo_zero]
    | succ k ih =>
      intro hk
      rw [flatUpTo_succ rows k (by omega), List.length_append, List.range_succ, List.map_append, List.sum_append]
      have := ih (by omega)
      have := hrow k (by omega)
      simp only [List.map_cons, List.map_nil, List.sum_cons, List.sum_nil]
      omega
  have htot : (flatRows rows).length ≤ ((List.range rows.size).map cap).sum := by
    rw [← flatUpTo_all]; exact hle _ (Nat.le_refl _)
  obtain ⟨a, b, c, d, _, _⟩ := one_pass_defined rows jp jc jp jc jv jv hp (by rw [hc]; exact htot) (by rw [hv]; exact htot)
    hp (by rw [hc]; exact htot) (by rw [hv]; exact htot)
  exact ⟨by rw [hc]; exact htot, a, b, c, d⟩

end onepass

/-- non-vacuity of `ilu0_LU_defined` on `exT`-like square input -/
def exSq : CRS Rat := ⟨3, #[[(0, 2), (2, 1)], [(0, 1), (1, 2)], [(1, 1), (0, 3), (2, 2)]]⟩

example : ilu0Counts exSq = (3, 1) := by decide +kernel

example := ilu0_LU_defined exSq #[9, 9, 9, 9] #[8, 8, 8] #[7, 7, 7, 7] #[6] (#[5, 5, 5] : Array Rat) #[4]
  rfl (by decide +kernel) (by decide +kernel) rfl (by decide +kernel) (by decide +kernel)

example : erase (onePass (lowerRows exSq) #[9, 9, 9, 9] #[8, 8, 8] (#[5, 5, 5] : Array Rat)).ptr = #[0, 0, 1, 3] := by
  decide +kernel

/-- non-vacuity of `ilut_LU_defined`: rows of lengths 1, 0, 2 under the caps 2, 1, 2 — the last two cells stay
unwritten -/
example : load (onePass (#[[(0, (1 : Rat))], [], [(0, 2), (1, 3)]] : Array (Row Rat)) #[9, 9, 9, 9] #[8, 8, 8, 8, 8]
    #[5, 5, 5, 5, 5]).fill.col 3 = none :=
  ((ilut_LU_defined (#[[(0, (1 : Rat))], [], [(0, 2), (1, 3)]] : Array (Row Rat)) (fun i => #[2, 1, 2].getD i 0)
    (by decide) #[9, 9, 9, 9] #[8, 8, 8, 8, 8] #[5, 5, 5, 5, 5] rfl (by decide) (by decide)).2.2.2.2 3 (by decide)).1

/-! ## `smoothed_aggr_emin`: the filtered matrix -/
section emin
variable {K : Type}

/-- **`Af` of `smoothed_aggr_emin::transfer_operators`** for every matrix (entries paired with their strength flag),
every filtered diagonal and any two prior heap contents: no unwritten cell is loaded, all cells of `Af.ptr`, `Af.col`,
`Af.val` are written, the result is the flat image of the filtered rows -/
theorem emin_Af_defined (rowsS : Array (List ((Nat × K) × Bool))) (dia : Nat → K) (jp jp' : Array Nat)
    (jc jc' : Nat → Array Nat) (jv jv' : Nat → Array K)
    (hp : jp.size = rowsS.size + 1) (hc : ∀ k, (jc k).size = k) (hv : ∀ k, (jv k).size = k)
    (hp' : jp'.size = rowsS.size + 1) (hc' : ∀ k, (jc' k).size = k) (hv' : ∀ k, (jv' k).size = k) :
    (eminAfCells rowsS dia jp jc jv).ok = true ∧ allWritten (eminAfCells rowsS dia jp jc jv).ptr = true ∧
      allWritten (eminAfCells rowsS dia jp jc jv).col = true ∧ allWritten (eminAfCells rowsS dia jp jc jv).val = true ∧
      eminAfCells rowsS dia jp jc jv = CrsCells.ofRows
        (Array.ofFn (n := rowsS.size) fun i => eminFillRow i.val (dia i.val) (rowsS.getD i.val [])) ∧
      eminAfCells rowsS dia jp jc jv = eminAfCells rowsS dia jp' jc' jv' := by
  have hn : (Array.ofFn (n := rowsS.size) fun i => eminFillRow i.val (dia i.val) (rowsS.getD i.val [])).size
      = rowsS.size := by simp
  have hw : ∀ i, i < (Array.ofFn (n := rowsS.size) fun i => eminFillRow i.val (dia i.val) (rowsS.getD i.val [])).size →
      eminWidth i (rowsS.getD i [])
        = ((Array.ofFn (n := rowsS.size) fun i => eminFillRow i.val (dia i.val) (rowsS.getD i.val [])).getD i []).length := by
    intro i hi
    rw [hn] at hi
    rw [eminWidth_eq i (dia i)]
    simp [Array.getD_eq_getD_getElem?, hi]
  unfold eminAfCells
  rw [twoPassW_eq _ _ hw, twoPassW_eq _ _ hw]
  rw [twoPass_spec _ jp jc jv (by rw [hn]; exact hp) hc hv, twoPass_spec _ jp' jc' jv' (by rw [hn]; exact hp') hc' hv']
  obtain ⟨a, b, c, d⟩ := ofRows_allWritten
    (Array.ofFn (n := rowsS.size) fun i => eminFillRow i.val (dia i.val) (rowsS.getD i.val []))
  exact ⟨d, a, b, c, rfl, rfl⟩

end emin

/-- non-vacuity: 2×2, row 0 = diag + weak off-diagonal, row 1 = strong off-diagonal + diag -/
example : erase (eminAfCells (K := Rat) #[[((0, 2), false), ((1, -1), false)], [((0, -1), true), ((1, 2), false)]]
    (fun i => #[1, 2].getD i 0) #[9, 9, 9] (fun k => Array.replicate k 5) (fun k => Array.replicate k 7)).ptr
    = #[0, 1, 3] := by decide +kernel

/-! ## `backend::pointwise_matrix` -/
section pointwise
variable {K : Type} [Zero K] [LT K] [DecidableLT K]

/-- **`pointwise_matrix(A, b)`** for every matrix and block size accepted by the precondition and any two prior heap
contents: the increments of the counting pass and the stores of the filling pass agree block row by block row, no
unwritten cell is loaded, every cell of `Ap.ptr` / `Ap.col` / `Ap.val` is written, and the cells are the flat image of
the row-level model -/
theorem pointwise_matrix_defined (norm : K → K) (A : CRS K) (b : Nat) (M : CRS K)
    (hM : pointwiseMatrix norm A b = .ok M) (jp jp' : Array Nat) (jc jc' : Nat → Array Nat) (jv jv' : Nat → Array K)
    (hp : jp.size = A.nrows / b + 1) (hc : ∀ k, (jc k).size = k) (hv : ∀ k, (jv k).size = k)
    (hp' : jp'.size = A.nrows / b + 1) (hc' : ∀ k, (jc' k).size = k) (hv' : ∀ k, (jv' k).size = k) :
    (pointwiseCells norm A b jp jc jv).ok = true ∧ allWritten (pointwiseCells norm A b jp jc jv).ptr = true ∧
      allWritten (pointwiseCells norm A b jp jc jv).col = true ∧ allWritten (pointwiseCells norm A b jp jc jv).val = true ∧
      pointwiseCells norm A b jp jc jv = CrsCells.ofRows M.rows ∧
      pointwiseCells norm A b jp jc jv = pointwiseCells norm A b jp' jc' jv' := by
  have hrows : M.rows = Array.ofFn (n := A.nrows / b) fun ip =>
      Coarsening.pwBlockRow norm b ((List.range b).map fun k => A.row (ip.val * b + k)) := by
    unfold pointwiseMatrix at hM
    by_cases hb : b = 0
    · simp [hb] at hM
    · simp only [hb, if_false] at hM
      by_cases hd : A.nrows / b * b ≠ A.nrows
      · simp [hd] at hM
      · simp only [hd, if_false] at hM
        injection hM with hM
        rw [← hM]
  have hn : M.rows.size = A.nrows / b := by rw [hrows]; simp
  have hw : ∀ i, i < M.rows.size →
      PwC.countBlockRow b ((List.range b).map fun k => A.row (i * b + k)) = (M.rows.getD i []).length := by
    intro i hi
    rw [countBlockRow_eq norm]
    rw [hn] at hi
    simp [hrows, Array.getD_eq_getD_getElem?, hi]
  have e : ∀ (jp : Array Nat) (jc : Nat → Array Nat) (jv : Nat → Array K),
      pointwiseCells norm A b jp jc jv = twoPassInc M.rows
        (fun ip => PwC.countBlockRow b ((List.range b).map fun k => A.row (ip * b + k))) jp jc jv := by
    intro jp jc jv; unfold pointwiseCells; rw [hrows]
  rw [e, e, twoPassInc_spec M.rows _ hw jp jc jv (by rw [hn]; exact hp) hc hv,
    twoPassInc_spec M.rows _ hw jp' jc' jv' (by rw [hn]; exact hp') hc' hv']
  obtain ⟨a, b', c, d⟩ := ofRows_allWritten M.rows
  exact ⟨d, a, b', c, rfl, rfl⟩

end pointwise

/-- a 4×4 matrix, block size 2 -/
def exPw : CRS Rat := ⟨4, #[[(0, 1), (3, -2)], [(1, 3)], [(2, 5), (0, -1)], [(3, 4), (2, 1)]]⟩
def absQ (x : Rat) : Rat := if x < 0 then -x else x

/-- non-vacuity of `pointwise_matrix_defined`: the row-level model accepts `exPw`, `b = 2` -/
example : ∃ M, pointwiseMatrix absQ exPw 2 = .ok M ∧
    (pointwiseCells absQ exPw 2 #[9, 9, 9] (fun k => Array.replicate k 5) (fun k => Array.replicate k 7)).ok = true := by
  have h : ∃ M, pointwiseMatrix absQ exPw 2 = .ok M := by
    unfold pointwiseMatrix; simp [exPw, CRS.nrows]
  obtain ⟨M, hM⟩ := h
  exact ⟨M, hM, (pointwise_matrix_defined absQ exPw 2 M hM #[9, 9, 9] #[0, 0, 0] (fun k => Array.replicate k 5)
    (fun k => Array.replicate k 0) (fun k => Array.replicate k 7) (fun k => Array.replicate k 0)
    (by decide) (fun k => by simp) (fun k => by simp) (by decide) (fun k => by simp) (fun k => by simp)).1⟩

/-- the cells on a sorted 4×4 matrix with natural entries, block size 2: four blocks -/
example : erase (pointwiseCells (fun x : Nat => x) ⟨4, #[[(0, 1), (3, 2)], [(1, 3)], [(0, 1), (2, 5)], [(2, 1), (3, 4)]]⟩ 2
    #[9, 9, 9] (fun k => Array.replicate k 5) (fun k => Array.replicate k 7)).ptr = #[0, 2, 4] := by decide +kernel

example : erase (pointwiseCells (fun x : Nat => x) ⟨4, #[[(0, 1), (3, 2)], [(1, 3)], [(0, 1), (2, 5)], [(2, 1), (3, 4)]]⟩ 2
    #[9, 9, 9] (fun k => Array.replicate k 5) (fun k => Array.replicate k 7)).val = #[3, 2, 1, 5] := by decide +kernel

/-! ## `adapter::unblock_matrix`: `A.ptr` -/
section unblock
variable {K : Type} [Zero K]

/-- **`unblock_matrix`, `A->ptr`** (block_matrix.hpp:195-209): `set_size(nb·brows, …); ptr[0] = 0;` the width pass
stores `w(ib)·bcols` into `ptr[ia+1]` for every scalar row `ia = ib·brows + i` (the nest `ib`, `i` visits
`ia = 0, 1, …` in order), `scan_row_sizes(); set_nonzeros()`: all cells written whatever the heap held; the later
`ptr[ia] = row_head` / `std::rotate` act on written cells -/
theorem unblock_ptr_defined (nb brows bcols : Nat) (wB : Nat → Nat) (jp jp' : Array Nat) (jc jc' : Nat → Array Nat)
    (jv jv' : Nat → Array K)
    (hp : jp.size = nb * brows + 1) (hc : ∀ k, (jc k).size = k) (hv : ∀ k, (jv k).size = k)
    (hp' : jp'.size = nb * brows + 1) (hc' : ∀ k, (jc' k).size = k) (hv' : ∀ k, (jv' k).size = k) :
    (setNonzerosZeroCells (K := K) (nb * brows) (fun ia => wB (ia / brows) * bcols) jp jc jv).ok = true ∧
      allWritten (setNonzerosZeroCells (K := K) (nb * brows) (fun ia => wB (ia / brows) * bcols) jp jc jv).ptr = true ∧
      setNonzerosZeroCells (K := K) (nb * brows) (fun ia => wB (ia / brows) * bcols) jp jc jv
        = setNonzerosZeroCells (K := K) (nb * brows) (fun ia => wB (ia / brows) * bcols) jp' jc' jv' := by
  obtain ⟨a, b, _, _, _, f⟩ := set_nonzeros_zero_defined (K := K) (nb * brows) (fun ia => wB (ia / brows) * bcols)
    jp jp' jc jc' jv jv' hp hc hv hp' hc' hv'
  exact ⟨a, b, f⟩

end unblock

example : erase (setNonzerosZeroCells (K := Rat) (2 * 2) (fun ia => #[1, 2].getD (ia / 2) 0 * 2) #[9, 9, 9, 9, 9]
    (fun k => Array.replicate k 5) (fun k => Array.replicate k 7)).ptr = #[0, 2, 4, 8, 12] := by decide +kernel

/-! ## `D` of ILU(k) / ILUT -/
section tri
variable {α : Type}

/-- **an array allocated uninitialised, stored at `i` while row `i` is processed and loaded only at indices below the
current row**: every load is legitimate, every cell ends up written, and the outcome is the same for any two prior
heap contents -/
theorem tri_defined (n : Nat) (reads : Nat → List Nat) (f : Nat → List α → α) (d : α) (junk junk' : Array α)
    (hr : ∀ i, i < n → ∀ k ∈ reads i, k < i) (hj : junk.size = n) (hj' : junk'.size = n) :
    (triCells n reads f d junk).2 = true ∧ allWritten (triCells n reads f d junk).1 = true ∧
      triCells n reads f d junk = triCells n reads f d junk' :=
  triCells_spec n reads f d junk junk' hr hj hj'

/-- **`iluk::iluk`, `D`** (iluk.hpp:112-150): row `i` loads `(*D)[a.col]` for the entries taken from the queue of the
working row — `sparse_vector::add` queues a column only if it is `< dia = i` — and stores `(*D)[i]` once (`w.nz` holds
the diagonal entry: `reset(i)` inserts it) -/
theorem iluk_D_defined (n : Nat) (reads : Nat → List Nat) (f : Nat → List α → α) (d : α) (junk junk' : Array α)
    (hr : ∀ i, i < n → ∀ k ∈ reads i, k < i) (hj : junk.size = n) (hj' : junk'.size = n) :
    (triCells n reads f d junk).2 = true ∧ allWritten (triCells n reads f d junk).1 = true ∧
      triCells n reads f d junk = triCells n reads f d junk' :=
  tri_defined n reads f d junk junk' hr hj hj'

/-- **`ilut::ilut`, `D`** (ilut.hpp:135-171, `move_to` l.363): row `i` loads `(*D)[k]` for `k = w.next_nonzero()`
(queued columns are `< dia = i`) and `move_to` stores `D[dia]` unconditionally -/
theorem ilut_D_defined (n : Nat) (reads : Nat → List Nat) (f : Nat → List α → α) (d : α) (junk junk' : Array α)
    (hr : ∀ i, i < n → ∀ k ∈ reads i, k < i) (hj : junk.size = n) (hj' : junk'.size = n) :
    (triCells n reads f d junk).2 = true ∧ allWritten (triCells n reads f d junk).1 = true ∧
      triCells n reads f d junk = triCells n reads f d junk' :=
  tri_defined n reads f d junk junk' hr hj hj'

end tri

/-- non-vacuity: row `i` reads everything below it; `D[i] = 1 + Σ` of what it read -/
example : triCells 4 (fun i => List.range i) (fun _ xs => 1 + xs.sum) (0 : Nat) #[9, 9, 9, 9]
    = triCells 4 (fun i => List.range i) (fun _ xs => 1 + xs.sum) 0 #[1, 2, 3, 4] :=
  (tri_defined 4 _ _ 0 _ _ (fun i _ k hk => List.mem_range.mp hk) rfl rfl).2.2

example : erase (triCells 4 (fun i => List.range i) (fun _ xs => 1 + xs.sum) (0 : Nat) #[9, 9, 9, 9]).1 = #[1, 2, 4, 8] := by
  decide +kernel

/-- a read AT the current row (before its store) is flagged: the hypothesis `k < i` is needed -/
example : (triCells 2 (fun i => [i]) (fun _ xs => 1 + xs.sum) (0 : Nat) #[9, 9]).2 = false := by decide +kernel

/-! ## power iteration of `backend::spectral_radius` -/
section power
variable {α : Type}

/-- **`b0`, `b1` of the power iteration** for `power_iters ≥ 1`, any arithmetic and any two prior contents of the two
allocations: no pass reads a cell that was not written, both vectors end up completely written, and the final state
is the same -/
theorem spectral_radius_power_defined (n iters : Nat) (hit : 0 < iters) (init : Nat → α) (scale0 : Nat → α → α)
    (rowop : Nat → Array α → α) (renorm : Array α → Nat → α) (stop : Array α → Bool) (d : α)
    (j0 j1 j0' j1' : Array α) (h0 : j0.size = n) (h1 : j1.size = n) (h0' : j0'.size = n) (h1' : j1'.size = n) :
    (powerCells n iters init scale0 rowop renorm stop d j0 j1).ok = true ∧
      allWritten (powerCells n iters init scale0 rowop renorm stop d j0 j1).b0 = true ∧
      allWritten (powerCells n iters init scale0 rowop renorm stop d j0 j1).b1 = true ∧
      powerCells n iters init scale0 rowop renorm stop d j0 j1
        = powerCells n iters init scale0 rowop renorm stop d j0' j1' := by
  unfold powerCells
  simp only
  rw [fillVec_alloc n init j0 h0, fillVec_alloc n init j0' h0', updPass_written n scale0 d _ (by simp)]
  simp only
  obtain ⟨a, b, c, e⟩ := powerLoop_spec n rowop renorm stop iters
    (Array.ofFn (n := n) fun i => scale0 i.val ((Array.ofFn (n := n) fun i : Fin n => init i.val).getD i.val d))
    (by simp) (alloc j1) (alloc j1')
    (by rw [alloc_size, h1]) (by rw [alloc_size, h1']) hit
  exact ⟨a, b, c, e⟩

end power

/-- non-vacuity: 3 iterations of "shift and add" on 3 cells -/
example := spectral_radius_power_defined (α := Nat) 3 3 (by decide) (fun i => i + 1) (fun _ x => 2 * x)
  (fun i b => b.getD i 0 + b.getD (i + 1) 0) (fun b i => b.getD i 0 + 1) (fun b => b.getD 0 0 == 0) 0
  #[9, 9, 9] #[8, 8, 8] #[0, 0, 0] #[1, 1, 1] rfl rfl rfl rfl

end Amgcl.C10d
