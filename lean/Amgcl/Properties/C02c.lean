import Amgcl.Proofs.BridgeExample
/-!
# C02 (bridge clauses) — the hierarchies that the model's `Amg.build` constructs with the REAL component models satisfy
the energy theorems of `Properties/C02b.lean`

`C02b` proves SPD / contraction / scaling for the abstract matrix recursion `Hier.B` and transfers it to the executable
`Amg.cycle` / `Amg.apply` *relative to* `Bridge.Realizes`.  This file discharges `Bridge.Realizes` (and then `Hier.OK`,
`Hier.Sym`) for hierarchies built by `Amg.build` from the real component models:

1. `jacobi_sweep_is`, `spai0_sweep_is`, `gauss_seidel_sweep_is` — the model sweeps of `Relax.jacobi ω`, `Relax.spai0`,
   `Relax.gaussSeidel` on `Array` vectors are `x ↦ x + N (f − A x)` with `N = jacobiN ω`, `spai0N`, `gsN` / `gsNback` of
   `matOf A` — the matrices of C02b's smoothing theorems (from `C06.jacobi_sweep`, `spai0_sweep`, `gs_forward`,
   `gs_backward`);
2. `direct_level_realizes` — an exact direct solver (`Bridge.DirectExact`, the conclusion of `C16.skyline_spec`; the
   skyline instance is `Bridge.skyline_directExact` in `Proofs/BridgeSkyline.lean`) gives the `Realizes` clause of a direct
   last level; exactness alone implies linearity and `IsUnit det`;
3. `galerkin_matrix`, `scaled_galerkin_matrix`, `transpose_matrix`, `sortRows_matrix`, `colsLt_of_wf` — the dense
   denotations of the kernels `Amg.build` composes (from `C03.galerkin_get_any`, `C08.transpose_get`,
   `C08b.sortRows_spec`);
4. `built_realizes` — every hierarchy `ls` with `Amg.build prm pol sm directOk A = .ok ls` realises
   `Hier.build pre post (matOf A) (transfersOf ls)`; `built_apply_spd_contracting` — if moreover `A` is SPD (no repeated
   columns), the prolongations are injective and (Jacobi / SPAI-0) the level matrices weakly diagonally dominant, the
   model's `Amg.apply` is multiplication by an SPD matrix `B` with `Contr A (1 − B A)`;
   `aggregation_built_apply_spd_contracting` — for the C04 plain-aggregation coarsening model every policy hypothesis
   (including injectivity: every aggregate is non-empty) is discharged;
5. a concrete instance: the 4-point 1D Laplacian over `ℚ` built by `Amg.build` with `Amg.aggregationPolicy` and each of the
   three smoothers (`Proofs/BridgeExample.lean`; the run of `build` is evaluated by the kernel).

Notation: `Bridge.RealSmoother K = gaussSeidel | dampedJacobi ω | spai0 norm`, `r.model : Smoother K r.State` the model
record, `r.proved : ProvedSmoother K` the sweep matrices, `r.Adm` the structural admissibility of a level matrix
(`AdmDiag`: diagonal stored exactly once and non-zero; `AdmNodup`: no repeated column in a row), `r.NormOK` (`norm v *
norm v = v * v` for SPAI-0); `Bridge.PolicyOK pol` (`R = transpose id P`, `P` well formed with `A.nrows` rows, coarse
operator well formed and denoting `R·A·P`), `Bridge.PolicyNodup pol` (no repeated columns in `P` and in the coarse
operator), `Bridge.PolicyInjective pol`; `Bridge.ProlongationsInjective ls`, `Bridge.LevelMatrices Q ls`.

**Open** (see `model_amg_spd_contracting_partial` at the end): `over_interp ≠ 1` (rescaled Galerkin operator —
`scaled_galerkin_matrix` gives its matrix `s • R A P` and `built_realizes_any_coarse` the matrix recursion, but `Hier.OK`
needs the unscaled operator, so SPD / contraction is not proved there), instances of `PolicyOK` /
`PolicyInjective` for smoothed aggregation and Ruge–Stüben (their `R` is `transpose P` too; injectivity of the smoothed
`P` is not proved), `block_size > 1`, ILU / Chebyshev (no smoothing inequality in C02b), weak diagonal dominance of the
coarse matrices for Jacobi / SPAI-0 is a hypothesis.
-/
set_option linter.unusedSectionVars false
namespace Amgcl.C02c
open Amgcl Amgcl.Amg Amgcl.Relax Matrix Amgcl.Energy Amgcl.Energy.Bridge

/-! ## 1. The real smoother models sweep with the matrices of C02b -/
section sweeps
variable {K : Type} [Field K] [DecidableEq K]

/-- **damped Jacobi** (`Relax.jacobi ω`, state `diagInv A` — what its constructor returns, `C06.jacobi_setup`): pre- and
post-sweep are `x ↦ x + ω D⁻¹ (f − A x)` on the denoted vectors -/
theorem jacobi_sweep_is (ω : K) (A : CRS K) {n : Nat} (hn : A.nrows = n) (hc : A.ncols = n) (hA : A.WF)
    (hd : diagOnceb A = true) (hnz : ∀ i, i < n → A.get i i ≠ 0) :
    SweepIs ((jacobi ω).applyPre (diagInv A) A) n (matOf A n n) (jacobiN ω (matOf A n n)) ∧
    SweepIs ((jacobi ω).applyPost (diagInv A) A) n (matOf A n n) (jacobiN ω (matOf A n n)) :=
  sweepIs_jacobi ω A hn hc hA hd hnz

example : SweepIs ((jacobi (18/25 : ℚ)).applyPre (diagInv Ex.A4c) Ex.A4c) 4 (matOf Ex.A4c 4 4)
    (jacobiN (18/25) (matOf Ex.A4c 4 4)) :=
  (jacobi_sweep_is (18/25) Ex.A4c rfl rfl Ex.A4c_wf (by decide) (by decide +kernel)).1

/-- **SPAI-0** (`Relax.spai0 norm`, state `spai0Diag norm A`): the sweep is `x ↦ x + diag(a_ii / Σ_j a_ij²)(f − A x)` when
no row stores a column twice and `norm` squares like `|·|` -/
theorem spai0_sweep_is (norm : K → K) (hnorm : ∀ v, norm v * norm v = v * v) (A : CRS K) {n : Nat} (hn : A.nrows = n)
    (hc : A.ncols = n) (hA : A.WF) (hnd : ∀ i, ((A.row i).map (·.1)).Nodup) :
    SweepIs ((spai0 norm).applyPre (spai0Diag norm A) A) n (matOf A n n) (spai0N (matOf A n n)) ∧
    SweepIs ((spai0 norm).applyPost (spai0Diag norm A) A) n (matOf A n n) (spai0N (matOf A n n)) :=
  sweepIs_spai0 norm hnorm A hn hc hA hnd

example : SweepIs ((spai0 Ex.qabs).applyPost (spai0Diag Ex.qabs Ex.A4c) Ex.A4c) 4 (matOf Ex.A4c 4 4)
    (spai0N (matOf Ex.A4c 4 4)) :=
  (spai0_sweep_is Ex.qabs Ex.qabs_sq Ex.A4c rfl rfl Ex.A4c_wf (K2.nodupb_iff.mp Ex.A4c_nodup)).2

/-- **Gauss–Seidel** (`Relax.gaussSeidel`, serial sweeps): the pre-sweep is the forward sweep `N = (D + L)⁻¹`, the
post-sweep the backward sweep `N = (D + U)⁻¹` -/
theorem gauss_seidel_sweep_is (A : CRS K) {n : Nat} (hn : A.nrows = n) (hc : A.ncols = n) (hA : A.WF)
    (hd : diagOnceb A = true) (hnz : ∀ i, i < n → A.get i i ≠ 0) :
    SweepIs ((gaussSeidel : Smoother K Unit).applyPre () A) n (matOf A n n) (gsN (matOf A n n)) ∧
    SweepIs ((gaussSeidel : Smoother K Unit).applyPost () A) n (matOf A n n) (gsNback (matOf A n n)) :=
  ⟨sweepIs_gs_pre A hn hc hA hd hnz, sweepIs_gs_post A hn hc hA hd hnz⟩

example : SweepIs ((gaussSeidel : Smoother ℚ Unit).applyPre () Ex.A4c) 4 (matOf Ex.A4c 4 4) (gsN (matOf Ex.A4c 4 4)) ∧
    SweepIs ((gaussSeidel : Smoother ℚ Unit).applyPost () Ex.A4c) 4 (matOf Ex.A4c 4 4) (gsNback (matOf Ex.A4c 4 4)) :=
  gauss_seidel_sweep_is Ex.A4c rfl rfl Ex.A4c_wf (by decide) (by decide +kernel)

/-- the three model records satisfy the uniform interface of the bridge (`SmootherSpec`): on every admissible square
well-formed matrix the constructed smoother is scratch independent, jointly linear, size preserving, and sweeps with the
matrices `r.proved.pre`, `r.proved.post` of C02b -/
theorem real_smoother_spec (r : RealSmoother K) (hr : r.NormOK) :
    SmootherSpec r.model r.Adm r.proved.pre r.proved.post :=
  r.spec hr

example : SmootherSpec Ex.smSpai.model Ex.smSpai.Adm Ex.smSpai.proved.pre Ex.smSpai.proved.post :=
  real_smoother_spec Ex.smSpai Ex.qabs_sq

end sweeps

/-! ## 2. The direct coarse solver -/
section direct
variable {K S : Type} [Field K] [DecidableEq K]

/-- **direct last level**: if the direct solver returns, for every right-hand side, a vector of the right length that
satisfies every row equation of `A_d x = f` (`DirectExact`: the conclusion of `C16.skyline_spec`), then the level realises
`Hier.direct (matOf A_d)`; in particular the solver is linear, `matOf A_d` is invertible and
`matOf A_d *ᵥ vecOf (direct A_d f) = vecOf f` -/
theorem direct_level_realizes (sm : Smoother K S) (direct : CRS K → Vec K → Vec K) (lv : Level K S) (Ad : CRS K)
    {n : Nat} (hs : lv.solve = some Ad) (hex : DirectExact direct Ad) (hn : Ad.nrows = n) :
    Realizes sm direct n [lv] (.direct (matOf Ad n n)) ∧ DirectOK (direct Ad) n ∧ IsUnit (matOf Ad n n).det ∧
      ∀ f : Vec K, f.size = n → matOf Ad n n *ᵥ vecOf n (direct Ad f) = vecOf n f :=
  ⟨realizes_solveLast sm lv hs hex hn, directOK_of_exact hex hn, direct_isUnit_det hex hn,
    fun f hf => direct_mulVec hex hn f hf⟩

example : Realizes (gaussSeidel : Smoother ℚ Unit) Ex.direct 1 [{ rows := 1, solve := some Bridge.Example.A1c }]
    (.direct (matOf Bridge.Example.A1c 1 1)) :=
  (direct_level_realizes _ Ex.direct _ Bridge.Example.A1c rfl (Ex.direct_exact _ (by decide +kernel)) rfl).1

end direct

/-! ## 3. Dense denotation of the kernels composed by `Amg.build` -/
section matrices
variable {K : Type} [Field K] [DecidableEq K]

/-- **`matOf (galerkin nt A P R) = matOf R * matOf A * matOf P`**, for every thread count (both SpGEMM algorithms) -/
theorem galerkin_matrix (nt : Nat) (A P R : CRS K) {n m : Nat} (hA : A.WF) (hP : P.WF) (hR : R.WF)
    (hAn : A.nrows = n) (hAc : A.ncols = n) (hRn : R.nrows = m) (hRc : R.ncols = n) :
    matOf (galerkin nt A P R) m m = matOf R m n * matOf A n n * matOf P n m :=
  matOf_galerkin nt A P R hA hP hR hAn hAc hRn hRc

/-- `matOf (scaledGalerkin nt s A P R) = s • (matOf R * matOf A * matOf P)` (plain aggregation, `s = 1/over_interp`) -/
theorem scaled_galerkin_matrix (nt : Nat) (s : K) (A P R : CRS K) {n m : Nat} (hA : A.WF) (hP : P.WF) (hR : R.WF)
    (hAn : A.nrows = n) (hAc : A.ncols = n) (hRn : R.nrows = m) (hRc : R.ncols = n) :
    matOf (scaledGalerkin nt s A P R) m m = s • (matOf R m n * matOf A n n * matOf P n m) :=
  matOf_scaledGalerkin nt s A P R hA hP hR hAn hAc hRn hRc

/-- `matOf (transpose id P) = (matOf P)ᵀ`, and the transpose is well formed -/
theorem transpose_matrix (P : CRS K) {n m : Nat} (hn : P.nrows = n) (hm : P.ncols = m) :
    matOf (transpose id P) m n = (matOf P n m)ᵀ ∧ (transpose id P).WF ∧ (transpose id P).nrows = m ∧
      (transpose id P).ncols = n :=
  ⟨matOf_transpose P hn hm, transpose_wf id P, by rw [transpose_nrows, hm], hn⟩

/-- `sort_rows` keeps the denoted matrix -/
theorem sortRows_matrix (A : CRS K) (n m : Nat) : matOf (sortRows A) n m = matOf A n m := matOf_sortRows A n m

/-- `ColsLt` (what `vecOf_spmv*`, `vecOf_residual` of the bridge need) from `CRS.WF` -/
theorem colsLt_of_wf {A : CRS K} (hA : A.WF) : ColsLt A A.ncols := Bridge.colsLt_of_wf hA

-- the first Galerkin step of the example hierarchy (both SpGEMM algorithms): `Pᵀ A P` of the 4-point Laplacian
example (nt : Nat) : matOf (galerkin nt Ex.A4c Ex.P4c (transpose id Ex.P4c)) 2 2 =
    (matOf Ex.P4c 4 2)ᵀ * matOf Ex.A4c 4 4 * matOf Ex.P4c 4 2 := by
  rw [← (transpose_matrix Ex.P4c (n := 4) (m := 2) rfl rfl).1]
  exact galerkin_matrix nt _ _ _ Ex.A4c_wf Ex.P4c_wf (transpose_wf id Ex.P4c) rfl rfl (by decide) rfl

example : matOf (sortRows Ex.A4c) 4 4 = Energy.Example.A4 := by rw [sortRows_matrix, Ex.mat_A4c]

end matrices

/-! ## 4. Hierarchies constructed by `Amg.build` -/
section built
variable {K : Type} [Field K] [DecidableEq K]

/-- **`built_realizes`**: for one of the three real smoother models `r`, a coarsening with `R = transpose id P`, `P` well
formed of the right shape and a coarse operator denoting `R·A·P` (`PolicyOK`: `galerkin nt`, or `scaledGalerkin nt 1`), and
a direct solver that is exact on the matrix of the direct level (if there is one), every hierarchy `ls` returned by
`Amg.build` on a square well-formed matrix realises an abstract hierarchy `h` whose top matrix is `matOf A`, whose transfer
operators are the `matOf` of the stored `P`, `R`, whose coarse matrices are the Galerkin products (= `matOf` of the model's
level matrices) and whose smoother matrices are those of C02b: `h = Hier.build pre post (matOf A) (transfersOf ls)`.
`hadm` is the structural hypothesis of the C06 sweep theorems on the smoothed levels (`r.Adm`). -/
theorem built_realizes (r : RealSmoother K) (hr : r.NormOK) {pol : Policy K} (hpol : PolicyOK pol) (prm : Params)
    (directOk : CRS K → Bool) (direct : CRS K → Vec K → Vec K) (A : CRS K) (hA : A.WF) (hsq : A.ncols = A.nrows)
    (ls : List (Level K r.State)) (hb : build prm pol r.model directOk A = .ok ls)
    (hadm : ∀ lv ∈ ls, lv.solve = none → ∀ M, lv.A = some M → r.Adm M)
    (hdir : ∀ lv ∈ ls, ∀ Ad, lv.solve = some Ad → DirectExact direct Ad) :
    ∃ h : Hier K A.nrows, Realizes r.model direct A.nrows ls h ∧
      h = Hier.build r.proved.pre r.proved.post (matOf A A.nrows A.nrows) (transfersOf ls A.nrows) ∧
      h.A = matOf A A.nrows A.nrows :=
  ⟨_, build_realizes r hr hpol prm directOk direct A hA hsq ls hb hadm hdir, rfl, hier_build_A _ _ _ _⟩

/-- consequently the model cycle of a built hierarchy is the matrix recursion of C02b, for all parameters, scratch
contents, right-hand sides and initial guesses -/
theorem built_cycle_is_matrix_recursion (r : RealSmoother K) (hr : r.NormOK) {pol : Policy K} (hpol : PolicyOK pol)
    (prm : Params) (directOk : CRS K → Bool) (direct : CRS K → Vec K → Vec K) (A : CRS K) (hA : A.WF)
    (hsq : A.ncols = A.nrows) (ls : List (Level K r.State)) (hb : build prm pol r.model directOk A = .ok ls)
    (hadm : ∀ lv ∈ ls, lv.solve = none → ∀ M, lv.A = some M → r.Adm M)
    (hdir : ∀ lv ∈ ls, ∀ Ad, lv.solve = some Ad → DirectExact direct Ad)
    (scr : List (Scratch K)) (f x : Vec K) (hl : scr.length = ls.length) (hf : f.size = A.nrows)
    (hx : x.size = A.nrows) :
    vecOf A.nrows (cycle prm r.model direct ls scr f x).1 =
      step (matOf A A.nrows A.nrows)
        ((Hier.build r.proved.pre r.proved.post (matOf A A.nrows A.nrows) (transfersOf ls A.nrows)).B (cyc prm))
        (vecOf A.nrows f) (vecOf A.nrows x) := by
  have h := cycle_realizes prm (build_realizes r hr hpol prm directOk direct A hA hsq ls hb hadm hdir) scr f x hl hf hx
  rwa [hier_build_A] at h

/-- **arbitrary (e.g. rescaled) coarse operators.**  If the coarse operator is only known to be well formed of the right
shape (`PolicyShape`; e.g. `scaled_galerkin(A, P, R, s)` of plain aggregation for *every* `s = 1/over_interp`:
`policyShape_aggregation`), the built hierarchy still realises an abstract hierarchy `h` with top matrix `matOf A`, so the
model `cycle` is `x ↦ x + B (f − A x)` and `apply` is multiplication by one fixed matrix, whatever the scratch contents.
(The SPD / contraction conclusion needs the exact Galerkin relation and is open for `s ≠ 1`.) -/
theorem built_realizes_any_coarse (r : RealSmoother K) (hr : r.NormOK) {pol : Policy K} (hpol : PolicyShape pol)
    (prm : Params) (directOk : CRS K → Bool) (direct : CRS K → Vec K → Vec K) (A : CRS K) (hA : A.WF)
    (hsq : A.ncols = A.nrows) (ls : List (Level K r.State)) (hb : build prm pol r.model directOk A = .ok ls)
    (hadm : ∀ lv ∈ ls, lv.solve = none → ∀ M, lv.A = some M → r.Adm M)
    (hdir : ∀ lv ∈ ls, ∀ Ad, lv.solve = some Ad → DirectExact direct Ad) :
    ∃ h : Hier K A.nrows, Realizes r.model direct A.nrows ls h ∧ h.A = matOf A A.nrows A.nrows ∧
      (∀ (scr : List (Scratch K)) (f x : Vec K), scr.length = ls.length → f.size = A.nrows → x.size = A.nrows →
        vecOf A.nrows (cycle prm r.model direct ls scr f x).1 =
          step (matOf A A.nrows A.nrows) (h.B (cyc prm)) (vecOf A.nrows f) (vecOf A.nrows x)) ∧
      (0 < prm.pre_cycles → ∀ (scr : List (Scratch K)) (f : Vec K), scr.length = ls.length → f.size = A.nrows →
        vecOf A.nrows (apply prm r.model direct ls scr f).1 = h.applyB (cyc prm) prm.pre_cycles *ᵥ vecOf A.nrows f) := by
  obtain ⟨h, h1, h2⟩ := build_realizes_exists r hr hpol prm directOk direct A hA hsq ls hb hadm hdir
  refine ⟨h, h1, h2, fun scr f x hl hf hx => ?_, fun hpc scr f hl hf => apply_realizes prm hpc h1 scr f hl hf⟩
  rw [← h2]; exact cycle_realizes prm h1 scr f x hl hf hx

-- `over_interp = 3/2` on the 4-point Laplacian (three levels, coarse matrices `2/3 · Pᵀ A P`), Gauss–Seidel
example : ∃ ls, build Ex.prm Ex.polS Ex.smGS.model Ex.directOk Ex.A4c = .ok ls ∧ ls.length = 3 ∧
    ∃ B : Matrix (Fin 4) (Fin 4) ℚ, ∀ (scr : List (Scratch ℚ)) (f : Vec ℚ), scr.length = ls.length → f.size = 4 →
      vecOf 4 (apply Ex.prm Ex.smGS.model Ex.direct ls scr f).1 = B *ᵥ vecOf 4 f := by
  have hok := Ex.buildS_ok
  cases hb : build Ex.prm Ex.polS Ex.smGS.model Ex.directOk Ex.A4c with
  | error e => rw [hb] at hok; cases hok
  | ok ls =>
    rw [hb] at hok
    have hok' : (ls.length == 3 && Ex.levelsAdmB ls) = true := hok
    rw [Bool.and_eq_true, beq_iff_eq] at hok'
    obtain ⟨h, -, -, -, h4⟩ := built_realizes_any_coarse Ex.smGS trivial Ex.policyShapeS Ex.prm Ex.directOk Ex.direct
      Ex.A4c Ex.A4c_wf Ex.A4c_sq ls hb (Ex.hadm_of_b ls hok'.2) (fun lv hlv Ad hs =>
        Ex.direct_exact Ad (build_solve_levels Ex.prm Ex.polS _ Ex.directOk Ex.A4c ls hb lv hlv Ad hs).1)
    exact ⟨ls, rfl, hok'.1, _, h4 (by decide)⟩

end built

section spd
variable {K : Type} [Field K] [LinearOrder K] [IsStrictOrderedRing K] [DecidableEq K]

/-- **`built_apply_spd_contracting`** — C02's SPD / contraction clause for hierarchies constructed by the model of the real
setup code.  Let `r` be Gauss–Seidel (forward pre-, backward post-sweep), damped Jacobi (`0 < ω < 1`) or SPAI-0; let the
coarsening satisfy `PolicyOK`, `PolicyNodup`; let the direct solver be exact whenever its constructor succeeds (on
well-formed square matrices without repeated columns — `C16.skyline_spec`).  If `A` is well formed, square, stores no column
twice in a row and `matOf A` is SPD, every stored prolongation is injective and (Jacobi, SPAI-0 only) every level matrix is
weakly diagonally dominant, then for every hierarchy `ls` that `Amg.build` returns and all parameters with `npre = npost ≥
1`, `ncycle ≥ 1`, `pre_cycles ≥ 1` the model's `Amg.apply` is — whatever the scratch vectors contain — multiplication by a
symmetric positive definite matrix `B` with `‖(1 − B A) e‖_A < ‖e‖_A` for all `e ≠ 0`.
All structural hypotheses of the C06 sweep theorems on the coarse levels (diagonal stored exactly once, non-zero; no repeated
column) are *derived*: the SpGEMM kernels never emit a column twice and SPD matrices have a positive diagonal. -/
theorem built_apply_spd_contracting (r : RealSmoother K) (hr : r.NormOK) (hp : r.proved.ParamOK) {pol : Policy K}
    (hpol : PolicyOK pol) (hnd : PolicyNodup pol) (prm : Params) (hnu : prm.npre = prm.npost) (hs : 0 < prm.npre)
    (hcy : 0 < prm.ncycle) (hpc : 0 < prm.pre_cycles) (directOk : CRS K → Bool) (direct : CRS K → Vec K → Vec K)
    (hdirect : ∀ Ad : CRS K, directOk Ad = true → Ad.WF → Ad.ncols = Ad.nrows → Ad.nodupb = true →
      DirectExact direct Ad)
    (A : CRS K) (hA : A.WF) (hsq : A.ncols = A.nrows) (hAnd : A.nodupb = true)
    (hspd : IsSPD (matOf A A.nrows A.nrows)) (ls : List (Level K r.State))
    (hb : build prm pol r.model directOk A = .ok ls) (hinj : ProlongationsInjective ls)
    (hQ : LevelMatrices r.proved.Q ls) :
    ∃ B : Matrix (Fin A.nrows) (Fin A.nrows) K, IsSPD B ∧
      Contr (matOf A A.nrows A.nrows) (1 - B * matOf A A.nrows A.nrows) ∧
      ∀ (scr : List (Scratch K)) (f : Vec K), scr.length = ls.length → f.size = A.nrows →
        vecOf A.nrows (apply prm r.model direct ls scr f).1 = B *ᵥ vecOf A.nrows f :=
  build_apply_spd_contracting r hr hp hpol hnd prm hnu hs hcy hpc directOk direct A hA hsq hAnd hspd ls hb hinj hQ
    (hdir_of_directOk hpol hnd prm r.model directOk direct A hA hsq hAnd ls hb hdirect)

/-- **plain aggregation** (the C04 coarsening model `Amg.aggregationPolicy`, `block_size = 1`, `over_interp = 1`, either
SpGEMM algorithm): all policy hypotheses hold — `R = transpose P_tent`, `P_tent` well formed with one unit entry per
aggregated row, and `P_tent` is injective because every aggregate is non-empty (`C04.plain_aggregates_partition`).
With **Gauss–Seidel** nothing is assumed of the coarse levels (`hQ` is `levelMatrices_true`). -/
theorem aggregation_built_apply_spd_contracting (r : RealSmoother K) (hr : r.NormOK) (hp : r.proved.ParamOK)
    (norm : K → K) (aprm : AggrParams K) (hbs : aprm.blockSize = 1) (hma : aprm.minAggregate ≤ 1) (nt : Nat)
    (prm : Params) (hnu : prm.npre = prm.npost) (hs : 0 < prm.npre) (hcy : 0 < prm.ncycle) (hpc : 0 < prm.pre_cycles)
    (directOk : CRS K → Bool) (direct : CRS K → Vec K → Vec K)
    (hdirect : ∀ Ad : CRS K, directOk Ad = true → Ad.WF → Ad.ncols = Ad.nrows → Ad.nodupb = true →
      DirectExact direct Ad)
    (A : CRS K) (hA : A.WF) (hsq : A.ncols = A.nrows) (hAnd : A.nodupb = true)
    (hspd : IsSPD (matOf A A.nrows A.nrows)) (ls : List (Level K r.State))
    (hb : build prm (aggregationPolicy norm aprm nt 1) r.model directOk A = .ok ls)
    (hQ : LevelMatrices r.proved.Q ls) :
    ∃ B : Matrix (Fin A.nrows) (Fin A.nrows) K, IsSPD B ∧
      Contr (matOf A A.nrows A.nrows) (1 - B * matOf A A.nrows A.nrows) ∧
      ∀ (scr : List (Scratch K)) (f : Vec K), scr.length = ls.length → f.size = A.nrows →
        vecOf A.nrows (apply prm r.model direct ls scr f).1 = B *ᵥ vecOf A.nrows f := by
  have hpol := policyOK_aggregation norm aprm hbs hma nt
  have hinj := Chain.prolongationsInjective hpol (policyInjective_aggregation norm aprm hbs hma nt 1)
    (C03.build_chain prm _ r.model directOk A ls hb) (sortRows_wf' A hA)
    (by rw [Amg.sortRows_ncols, Amg.sortRows_nrows]; exact hsq)
  exact built_apply_spd_contracting r hr hp hpol (policyNodup_aggregation norm aprm hbs hma nt 1) prm hnu hs hcy hpc
    directOk direct hdirect A hA hsq hAnd hspd ls hb hinj hQ

end spd

/-! ## 5. The concrete instance: 4-point 1D Laplacian, plain aggregation, three levels `4 → 2 → 1`, W-cycle with 2+2
sweeps, `pre_cycles = 2`, direct solve of the `1 × 1` coarsest system -/
section example_

/-- Gauss–Seidel: `Amg.build` succeeds (kernel evaluation), the hierarchy has the level sizes 4, 2, 1 with a direct solver
on `[[2]]`, and `Amg.apply` on it is an SPD matrix whose stationary iteration contracts — every hypothesis of
`aggregation_built_apply_spd_contracting` holds for this input -/
example : ∃ ls, build Ex.prm Ex.pol Ex.smGS.model Ex.directOk Ex.A4c = .ok ls ∧
    ls.map (fun lv => (lv.rows, lv.solve.map CRS.rows)) = [(4, none), (2, none), (1, some #[[(0, 2)]])] ∧
    ∃ B : Matrix (Fin 4) (Fin 4) ℚ, IsSPD B ∧ Contr (matOf Ex.A4c 4 4) (1 - B * matOf Ex.A4c 4 4) ∧
      ∀ (scr : List (Scratch ℚ)) (f : Vec ℚ), scr.length = ls.length → f.size = 4 →
        vecOf 4 (apply Ex.prm Ex.smGS.model Ex.direct ls scr f).1 = B *ᵥ vecOf 4 f := by
  have hok := Ex.build_isOk_gs
  have hshape := Ex.build_shape
  cases hb : build Ex.prm Ex.pol Ex.smGS.model Ex.directOk Ex.A4c with
  | error e => rw [hb] at hok; cases hok
  | ok ls =>
    rw [hb] at hshape
    exact ⟨ls, rfl, hshape, aggregation_built_apply_spd_contracting Ex.smGS trivial trivial _ Ex.aprm rfl (by decide) 1
      Ex.prm rfl (by decide) (by decide) (by decide) Ex.directOk Ex.direct (fun Ad h _ _ _ => Ex.direct_exact Ad h)
      Ex.A4c Ex.A4c_wf Ex.A4c_sq Ex.A4c_nodup Ex.A4c_spd ls hb (levelMatrices_true ls)⟩

/-- damped Jacobi `ω = 18/25`: the level matrices computed by `Amg.build` are the Laplacians of sizes 4, 2 and `[[2]]`, all
weakly diagonally dominant -/
example : ∃ ls, build Ex.prm Ex.pol Ex.smJac.model Ex.directOk Ex.A4c = .ok ls ∧
    ∃ B : Matrix (Fin 4) (Fin 4) ℚ, IsSPD B ∧ Contr (matOf Ex.A4c 4 4) (1 - B * matOf Ex.A4c 4 4) ∧
      ∀ (scr : List (Scratch ℚ)) (f : Vec ℚ), scr.length = ls.length → f.size = 4 →
        vecOf 4 (apply Ex.prm Ex.smJac.model Ex.direct ls scr f).1 = B *ᵥ vecOf 4 f := by
  have hok := Ex.build_isOk_jac
  have hlev := Ex.build_levels_jac
  cases hb : build Ex.prm Ex.pol Ex.smJac.model Ex.directOk Ex.A4c with
  | error e => rw [hb] at hok; cases hok
  | ok ls =>
    rw [hb] at hlev
    have hlev' : ls.map levelMatrix = [some Ex.A4c, some Bridge.Example.A2c, some Bridge.Example.A1c] := hlev
    exact ⟨ls, rfl, aggregation_built_apply_spd_contracting Ex.smJac trivial ⟨by norm_num, by norm_num⟩ _ Ex.aprm rfl
      (by decide) 1 Ex.prm rfl (by decide) (by decide) (by decide) Ex.directOk Ex.direct
      (fun Ad h _ _ _ => Ex.direct_exact Ad h) Ex.A4c Ex.A4c_wf Ex.A4c_sq Ex.A4c_nodup Ex.A4c_spd ls hb
      (Ex.levelMatrices_of_map _ ls [Ex.A4c, Bridge.Example.A2c, Bridge.Example.A1c] hlev' Ex.levels_wdd)⟩

/-- SPAI-0 with `norm = |·|` -/
example : ∃ ls, build Ex.prm Ex.pol Ex.smSpai.model Ex.directOk Ex.A4c = .ok ls ∧
    ∃ B : Matrix (Fin 4) (Fin 4) ℚ, IsSPD B ∧ Contr (matOf Ex.A4c 4 4) (1 - B * matOf Ex.A4c 4 4) ∧
      ∀ (scr : List (Scratch ℚ)) (f : Vec ℚ), scr.length = ls.length → f.size = 4 →
        vecOf 4 (apply Ex.prm Ex.smSpai.model Ex.direct ls scr f).1 = B *ᵥ vecOf 4 f := by
  have hok := Ex.build_isOk_spai
  have hlev := Ex.build_levels_spai
  cases hb : build Ex.prm Ex.pol Ex.smSpai.model Ex.directOk Ex.A4c with
  | error e => rw [hb] at hok; cases hok
  | ok ls =>
    rw [hb] at hlev
    have hlev' : ls.map levelMatrix = [some Ex.A4c, some Bridge.Example.A2c, some Bridge.Example.A1c] := hlev
    exact ⟨ls, rfl, aggregation_built_apply_spd_contracting Ex.smSpai Ex.qabs_sq trivial _ Ex.aprm rfl
      (by decide) 1 Ex.prm rfl (by decide) (by decide) (by decide) Ex.directOk Ex.direct
      (fun Ad h _ _ _ => Ex.direct_exact Ad h) Ex.A4c Ex.A4c_wf Ex.A4c_sq Ex.A4c_nodup Ex.A4c_spd ls hb
      (Ex.levelMatrices_of_map _ ls [Ex.A4c, Bridge.Example.A2c, Bridge.Example.A1c] hlev' Ex.levels_wdd)⟩

/-- the hypotheses of `built_realizes` on the same input: the structural admissibility `hadm` of the smoothed levels
follows here from the list of level matrices (`decide`) -/
example : ∃ ls, build Ex.prm Ex.pol Ex.smGS.model Ex.directOk Ex.A4c = .ok ls ∧
    ∃ h : Hier ℚ 4, Realizes Ex.smGS.model Ex.direct 4 ls h ∧ h.A = matOf Ex.A4c 4 4 := by
  have hok := Ex.build_isOk_gs
  have hlev := Ex.build_levels_gs
  cases hb : build Ex.prm Ex.pol Ex.smGS.model Ex.directOk Ex.A4c with
  | error e => rw [hb] at hok; cases hok
  | ok ls =>
    rw [hb] at hlev
    have hlev' : ls.map levelMatrix = [some Ex.A4c, some Bridge.Example.A2c, some Bridge.Example.A1c] := hlev
    have hadm : ∀ lv ∈ ls, lv.solve = none → ∀ M, lv.A = some M → Ex.smGS.Adm M := by
      intro lv hlv hs M hM
      have hlm : levelMatrix lv = some M := by unfold levelMatrix; rw [hs]; exact hM
      have hmem : some M ∈ ls.map levelMatrix := hlm ▸ List.mem_map_of_mem hlv
      rw [hlev'] at hmem
      simp only [List.mem_cons, Option.some.injEq, List.mem_nil_iff, or_false] at hmem
      rcases hmem with rfl | rfl | rfl <;> exact ⟨by decide, by decide +kernel⟩
    obtain ⟨h, h1, _, h3⟩ := built_realizes Ex.smGS trivial Ex.policyOK Ex.prm Ex.directOk Ex.direct Ex.A4c Ex.A4c_wf
      Ex.A4c_sq ls hb hadm (fun lv hlv Ad hs =>
        Ex.direct_exact Ad (build_solve_levels Ex.prm Ex.pol _ Ex.directOk Ex.A4c ls hb lv hlv Ad hs).1)
    exact ⟨ls, rfl, h, h1, h3⟩

end example_

/-! ## 6. Summary statement and what is open -/
section summary
variable {K : Type} [Field K] [LinearOrder K] [IsStrictOrderedRing K] [DecidableEq K]

/-- **C02, SPD / contraction clause for hierarchies constructed by the model of the real setup code — the part that is
proved.**

FULL STATEMENT (property text): for `A` SPD, irreducibly diagonally dominant M-matrix, every coarsening of amgcl
(aggregation, smoothed aggregation, smoothed_aggr_emin, Ruge–Stüben), every symmetric smoother (damped Jacobi, SPAI-0,
Gauss–Seidel, ILU(0)/ILU(k)/ILUP, Chebyshev), V- and W-cycles, any number of levels, `npre, npost ≥ 1`: the preconditioner
`B` that `amg::apply` realises on the hierarchy that `amg`'s constructor builds is SPD and `ρ(1 − B A) < 1`.

PROVED HERE, for the hierarchy `ls` returned by the model `Amg.build` (constructor + `do_init`, `Model/Amg.lean`) with the
plain-aggregation model of C04 (`block_size = 1`, any `eps_strong`, `over_interp = 1`, either SpGEMM algorithm), any
`coarse_enough` / `max_levels` / `direct_coarse`, for **Gauss–Seidel** (no hypothesis on the coarse levels), **damped
Jacobi** `0 < ω < 1` and **SPAI-0** (level matrices weakly diagonally dominant), every `npre = npost ≥ 1`, `ncycle ≥ 1`,
`pre_cycles ≥ 1`, every direct solver that is exact when its constructor succeeds: the executable `Amg.apply` on arrays is
multiplication by an SPD matrix `B`, independent of the scratch contents, and `1 − B A` is strictly `A`-contracting (hence
all its eigenvalues have modulus `< 1`: `C02b.spectral_radius_lt_one`).

MISSING for the full statement:
1. `over_interp ≠ 1` (the DEFAULT of plain aggregation): the coarse matrix is `s • (R A P)` (`scaled_galerkin_matrix`), outside
   `Hier.OK`; `built_realizes_any_coarse` (the cycle is a fixed matrix recursion) is proved, SPD / contraction are not — and the
   contraction clause is in fact FALSE there on 4+ levels: `C02d.over_interp_not_contracting` (known finding K02);
2. `PolicyOK` / `PolicyNodup` / `PolicyInjective` instances for smoothed aggregation and Ruge–Stüben (both return
   `R = transpose(P)`; `built_apply_spd_contracting` applies verbatim once their `P` is shown well formed, duplicate free
   and injective), `smoothed_aggr_emin` (`R ≠ Pᵀ`), `block_size > 1`;
3. weak diagonal dominance of the coarse matrices (Jacobi, SPAI-0) is a hypothesis (`hQ`) here; it is derived from the fine
   matrix being a Z-matrix with non-negative row sums in `C02d.model_amg_mmatrix_spd_contracting`;
4. ILU-type and Chebyshev smoothers (no smoothing inequality in C02b);
5. the skyline instance of `hdirect` is `Bridge.skyline_directExact`; it is plugged in by `C02d.model_amg_skyline_spd_contracting`
   (`Properties/C02d.lean`), for every permutation ordering (the Cuthill–McKee ordering itself is checked, not modelled);
6. IEEE rounding. -/
theorem model_amg_spd_contracting_partial (r : RealSmoother K) (hr : r.NormOK) (hp : r.proved.ParamOK)
    (norm : K → K) (aprm : AggrParams K) (hbs : aprm.blockSize = 1) (hma : aprm.minAggregate ≤ 1) (nt : Nat)
    (prm : Params) (hnu : prm.npre = prm.npost) (hs : 0 < prm.npre) (hcy : 0 < prm.ncycle) (hpc : 0 < prm.pre_cycles)
    (directOk : CRS K → Bool) (direct : CRS K → Vec K → Vec K)
    (hdirect : ∀ Ad : CRS K, directOk Ad = true → Ad.WF → Ad.ncols = Ad.nrows → Ad.nodupb = true →
      DirectExact direct Ad)
    (A : CRS K) (hA : A.WF) (hsq : A.ncols = A.nrows) (hAnd : A.nodupb = true)
    (hspd : IsSPD (matOf A A.nrows A.nrows)) (ls : List (Level K r.State))
    (hb : build prm (aggregationPolicy norm aprm nt 1) r.model directOk A = .ok ls)
    (hQ : LevelMatrices r.proved.Q ls) :
    ∃ B : Matrix (Fin A.nrows) (Fin A.nrows) K, IsSPD B ∧
      Contr (matOf A A.nrows A.nrows) (1 - B * matOf A A.nrows A.nrows) ∧
      (∀ (scr : List (Scratch K)) (f : Vec K), scr.length = ls.length → f.size = A.nrows →
        vecOf A.nrows (apply prm r.model direct ls scr f).1 = B *ᵥ vecOf A.nrows f) ∧
      (∀ {u v : Fin A.nrows → K}, u ≠ 0 ∨ v ≠ 0 → ∀ {a b : K},
        (1 - B * matOf A A.nrows A.nrows) *ᵥ u = a • u - b • v →
        (1 - B * matOf A A.nrows A.nrows) *ᵥ v = b • u + a • v → a ^ 2 + b ^ 2 < 1) := by
  obtain ⟨B, h1, h2, h3⟩ := aggregation_built_apply_spd_contracting r hr hp norm aprm hbs hma nt prm hnu hs hcy hpc
    directOk direct hdirect A hA hsq hAnd hspd ls hb hQ
  exact ⟨B, h1, h2, h3, fun huv _ _ hu hv => h2.complex_eigenvalue_normSq_lt_one hspd huv hu hv⟩

example : ∃ ls, build Ex.prm Ex.pol Ex.smGS.model Ex.directOk Ex.A4c = .ok ls ∧
    ∃ B : Matrix (Fin 4) (Fin 4) ℚ, IsSPD B ∧ Contr (matOf Ex.A4c 4 4) (1 - B * matOf Ex.A4c 4 4) := by
  have hok := Ex.build_isOk_gs
  cases hb : build Ex.prm Ex.pol Ex.smGS.model Ex.directOk Ex.A4c with
  | error e => rw [hb] at hok; cases hok
  | ok ls =>
    obtain ⟨B, h1, h2, -, -⟩ := model_amg_spd_contracting_partial Ex.smGS trivial trivial _ Ex.aprm rfl (by decide) 1
      Ex.prm rfl (by decide) (by decide) (by decide) Ex.directOk Ex.direct (fun Ad h _ _ _ => Ex.direct_exact Ad h)
      Ex.A4c Ex.A4c_wf Ex.A4c_sq Ex.A4c_nodup Ex.A4c_spd ls hb (levelMatrices_true ls)
    exact ⟨ls, rfl, B, h1, h2⟩

end summary

end Amgcl.C02c
