import Amgcl.Proofs.DefinedStores
import Amgcl.Proofs.DefinedKernels
/-!
# C10 (continued, package alloc2) — `preconditioner::cpr` / `cpr_drs`: `fpp`, `scatter`, `App` (block-valued)

* `cpr_fpp_defined` — `fpp` of `cpr` (`first_scalar_pass`, `init`, `update_transfer`): `ptr`, `col` are stored at every
  index; `val[ip·B … ip·B+B)` is stored **only when block row `ip` contains its diagonal block** — under that
  hypothesis all cells are written and the result does not depend on the prior heap content;
  `cpr_fpp_no_diag_counterexample`: without it the cells stay unwritten (the code has no check; `Fpp` is then used in
  `spmv` — see the report of package alloc2).
* `cpr_drs_fpp_defined` — `cpr_drs` stores `delta` unconditionally: no hypothesis.
* `cpr_scatter_defined` — `scatter->ptr` (including the tail loop `ptr[i+1] = ptr[i]`, `i ≥ N = np·B`, which loads),
  `scatter->col`, `scatter->val`.
* `cpr_App_block_defined` — `App` of the block-valued `init`: width loop = fill loop (`col < np`).
-/
namespace Amgcl.C10e
open Amgcl Amgcl.Defined

section fpp
variable {K : Type}

/-- **`fpp` of `cpr`** for every `np`, `B`, every block row containing its diagonal block, any two prior heap contents -/
theorem cpr_fpp_defined (np B : Nat) (hasDiag : Nat → Bool) (dval : Nat → Nat → K)
    (hd : ∀ ip, ip < np → hasDiag ip = true) (jp jc jp' jc' : Array Nat) (jv jv' : Array K)
    (hp : jp.size = np + 1) (hc : jc.size = np * B) (hv : jv.size = np * B)
    (hp' : jp'.size = np + 1) (hc' : jc'.size = np * B) (hv' : jv'.size = np * B) :
    allWritten (fppCells np B hasDiag dval jp jc jv).ptr = true ∧
      allWritten (fppCells np B hasDiag dval jp jc jv).col = true ∧
      allWritten (fppCells np B hasDiag dval jp jc jv).val = true ∧
      fppCells np B hasDiag dval jp jc jv = fppCells np B hasDiag dval jp' jc' jv' := by
  obtain ⟨a1, a2⟩ := applyStores_covered (fppPtrStores np B) (np + 1) (fppPtr_cover np B) (alloc jp) (alloc jp')
    (by rw [alloc_size, hp]) (by rw [alloc_size, hp'])
  obtain ⟨b1, b2⟩ := applyStores_covered (fppColStores np B) (np * B) (fppCol_cover np B) (alloc jc) (alloc jc')
    (by rw [alloc_size, hc]) (by rw [alloc_size, hc'])
  obtain ⟨c1, c2⟩ := applyStores_covered (fppValStores np B hasDiag dval) (np * B) (fppVal_cover np B hasDiag dval hd)
    (alloc jv) (alloc jv') (by rw [alloc_size, hv]) (by rw [alloc_size, hv'])
  unfold fppCells
  exact ⟨a1, b1, c1, by rw [a2, b2, c2]⟩

/-- **`fpp` of `cpr_drs`**: `fpp->val[ik+i] = delta` for every `i` — no hypothesis on the matrix -/
theorem cpr_drs_fpp_defined (np B : Nat) (delta : Nat → Nat → K) (jp jc jp' jc' : Array Nat) (jv jv' : Array K)
    (hp : jp.size = np + 1) (hc : jc.size = np * B) (hv : jv.size = np * B)
    (hp' : jp'.size = np + 1) (hc' : jc'.size = np * B) (hv' : jv'.size = np * B) :
    allWritten (fppCells np B (fun _ => true) delta jp jc jv).ptr = true ∧
      allWritten (fppCells np B (fun _ => true) delta jp jc jv).col = true ∧
      allWritten (fppCells np B (fun _ => true) delta jp jc jv).val = true ∧
      fppCells np B (fun _ => true) delta jp jc jv = fppCells np B (fun _ => true) delta jp' jc' jv' :=
  cpr_fpp_defined np B (fun _ => true) delta (fun _ _ => rfl) jp jc jp' jc' jv jv' hp hc hv hp' hc' hv'

end fpp

/-- non-vacuity -/
example : erase (fppCells 2 2 (fun _ => true) (fun ip i => (10 * ip + i : Nat)) #[9, 9, 9] #[8, 8, 8, 8] #[7, 7, 7, 7]).val
    = #[0, 1, 10, 11] := by decide +kernel
example : erase (fppCells 2 2 (fun _ => true) (fun ip i => (10 * ip + i : Nat)) #[9, 9, 9] #[8, 8, 8, 8] #[7, 7, 7, 7]).ptr
    = #[0, 2, 4] := by decide +kernel

/-- **a block row without its diagonal block** (`cur_col == ip` never holds / no `K->col[j] == i`): `invert` is not
called and `fpp->val[ip·B …]` keeps the prior heap content — two heaps give two different `fpp` -/
theorem cpr_fpp_no_diag_counterexample :
    load (fppCells 2 2 (fun ip => decide (ip = 0)) (fun ip i => (10 * ip + i : Nat)) #[9, 9, 9] #[8, 8, 8, 8] #[7, 7, 7, 7]).val 2
      = none ∧
    erase (fppCells 2 2 (fun ip => decide (ip = 0)) (fun ip i => (10 * ip + i : Nat)) #[9, 9, 9] #[8, 8, 8, 8] #[7, 7, 7, 7]).val
      ≠ erase (fppCells 2 2 (fun ip => decide (ip = 0)) (fun ip i => (10 * ip + i : Nat)) #[9, 9, 9] #[8, 8, 8, 8] #[5, 5, 5, 5]).val := by
  decide +kernel

section scatter
variable {K : Type} [One K]

/-- **`scatter` of `cpr` / `cpr_drs`** (`N = np·B ≤ n`; the block-valued `init` has `n = np·B`): the stores cover
`ptr[0 … N]`, the tail loop loads `ptr[i]` only after it was written, `col`/`val` are stored at every `ip < np` -/
theorem cpr_scatter_defined (n np B : Nat) (hN : np * B ≤ n) (jp jc jp' jc' : Array Nat) (jv jv' : Array K)
    (hp : jp.size = n + 1) (hc : jc.size = np) (hv : jv.size = np)
    (hp' : jp'.size = n + 1) (hc' : jc'.size = np) (hv' : jv'.size = np) :
    (scatterCells n np B jp jc jv).ok = true ∧ allWritten (scatterCells n np B jp jc jv).ptr = true ∧
      allWritten (scatterCells n np B jp jc jv).col = true ∧ allWritten (scatterCells n np B jp jc jv).val = true ∧
      (∀ q, load (scatterCells n np B jp jc jv).ptr q = load (scatterCells n np B jp' jc' jv').ptr q) ∧
      (scatterCells n np B jp jc jv).col = (scatterCells n np B jp' jc' jv').col ∧
      (scatterCells n np B jp jc jv).val = (scatterCells n np B jp' jc' jv').val := by
  obtain ⟨b1, b2⟩ := applyStores_covered ((List.range np).map fun ip => (ip, ip)) np (range_cover np _) (alloc jc)
    (alloc jc') (by rw [alloc_size, hc]) (by rw [alloc_size, hc'])
  obtain ⟨c1, c2⟩ := applyStores_covered ((List.range np).map fun ip => (ip, (1 : K))) np (range_cover np _) (alloc jv)
    (alloc jv') (by rw [alloc_size, hv]) (by rw [alloc_size, hv'])
  -- the pointer array: stores up to N, then the carrying loop
  have hptr : ∀ (j : Array Nat), j.size = n + 1 → ∀ q, q < n + 1 →
      ∃ v, (∀ j : Array Nat, j.size = n + 1 →
        (carryPass (np * B) (n - np * B) (applyStores (scatterPtrStores np B) (alloc j), true)).2 = true ∧
        (carryPass (np * B) (n - np * B) (applyStores (scatterPtrStores np B) (alloc j), true)).1.size = n + 1 ∧
        load (carryPass (np * B) (n - np * B) (applyStores (scatterPtrStores np B) (alloc j), true)).1 q = some v) := by
    intro _ _ q hq
    obtain ⟨vN, hvN⟩ := load_applyStores_mem (scatterPtrStores np B) (np * B) (scatterPtr_cover np B (np * B) (by omega))
    by_cases hqN : q < np * B
    · obtain ⟨v, hv⟩ := load_applyStores_mem (scatterPtrStores np B) q (scatterPtr_cover np B q (by omega))
      refine ⟨v, fun j hj => ?_⟩
      have hsz : (applyStores (scatterPtrStores np B) (alloc j)).size = n + 1 := by rw [applyStores_size, alloc_size, hj]
      obtain ⟨k1, k2, _, k4⟩ := carryPass_spec (np * B) (n - np * B) _ vN (by rw [hsz]; omega)
        (hvN (alloc j) (by rw [alloc_size, hj]; omega))
      exact ⟨k1, by rw [k2, hsz], by rw [k4 q hqN]; exact hv (alloc j) (by rw [alloc_size, hj]; omega)⟩
    · refine ⟨vN, fun j hj => ?_⟩
      have hsz : (applyStores (scatterPtrStores np B) (alloc j)).size = n + 1 := by rw [applyStores_size, alloc_size, hj]
      obtain ⟨k1, k2, k3, _⟩ := carryPass_spec (np * B) (n - np * B) _ vN (by rw [hsz]; omega)
        (hvN (alloc j) (by rw [alloc_size, hj]; omega))
      exact ⟨k1, by rw [k2, hsz], k3 q (by omega) (by omega)⟩
  unfold scatterCells
  simp only
  refine ⟨?_, ?_, b1, c1, ?_, b2, c2⟩
  · obtain ⟨v, hv⟩ := hptr jp hp 0 (by omega)
    exact (hv jp hp).1
  · unfold allWritten
    rw [Array.all_eq_true]
    intro i hi
    obtain ⟨v0, hv0⟩ := hptr jp hp 0 (by omega)
    have hsz := (hv0 jp hp).2.1
    obtain ⟨v, hv⟩ := hptr jp hp i (by rw [← hsz]; exact hi)
    have := getElem?_of_load _ _ _ (hv jp hp).2.2
    rw [Array.getElem?_eq_getElem hi] at this
    simp only [Option.some.injEq] at this
    rw [this]
  · intro q
    by_cases hq : q < n + 1
    · obtain ⟨v, hv⟩ := hptr jp hp q hq
      rw [(hv jp hp).2.2, (hv jp' hp').2.2]
    · obtain ⟨v0, hv0⟩ := hptr jp hp 0 (by omega)
      have h1 : ∀ (a : Array (Cell Nat)), a.size = n + 1 → load a q = none := by
        intro a ha
        unfold load
        rw [Array.getElem?_eq_none (by omega)]
      rw [h1 _ (hv0 jp hp).2.1, h1 _ (hv0 jp' hp').2.1]

end scatter

/-- non-vacuity: `n = 6`, `np = 2`, `B = 2` (two trailing rows) -/
example : erase (scatterCells (K := Rat) 6 2 2 #[9, 9, 9, 9, 9, 9, 9] #[8, 8] #[7, 7]).ptr = #[0, 1, 1, 2, 2, 2, 2] := by
  decide +kernel
example := cpr_scatter_defined (K := Rat) 6 2 2 (by decide) #[9, 9, 9, 9, 9, 9, 9] #[8, 8] #[0, 0, 0, 0, 0, 0, 0] #[1, 1]
  #[7, 7] #[3, 3] rfl rfl rfl rfl rfl rfl

section app
variable {K V : Type}

/-- **`App` of the block-valued `cpr::init` / `cpr_drs::init`**: the width loop counts exactly the entries the fill loop
stores (`K->col[j] < np`), so for every matrix and any two prior heap contents no unwritten cell is loaded and all
cells of `App.ptr` (zero-filled by `set_size(…, true)`, then stored), `App.col`, `App.val` are written -/
theorem cpr_App_block_defined (np : Nat) (Krows : Array (List (Nat × V))) (app : Nat → Nat × V → K) (jp jp' : Array Nat)
    (jc jc' : Nat → Array Nat) (jv jv' : Nat → Array K)
    (hp : jp.size = np + 1) (hc : ∀ k, (jc k).size = k) (hv : ∀ k, (jv k).size = k)
    (hp' : jp'.size = np + 1) (hc' : ∀ k, (jc' k).size = k) (hv' : ∀ k, (jv' k).size = k) :
    (cprAppCells np Krows app jp jc jv).ok = true ∧ allWritten (cprAppCells np Krows app jp jc jv).ptr = true ∧
      allWritten (cprAppCells np Krows app jp jc jv).col = true ∧ allWritten (cprAppCells np Krows app jp jc jv).val = true ∧
      cprAppCells np Krows app jp jc jv = cprAppCells np Krows app jp' jc' jv' := by
  have hn : (Array.ofFn (n := np) fun i => appFillRow np (app i.val) (Krows.getD i.val [])).size = np := by simp
  have hw : ∀ i, i < (Array.ofFn (n := np) fun i => appFillRow np (app i.val) (Krows.getD i.val [])).size →
      appWidth np (Krows.getD i [])
        = ((Array.ofFn (n := np) fun i => appFillRow np (app i.val) (Krows.getD i.val [])).getD i []).length := by
    intro i hi
    rw [hn] at hi
    rw [appWidth_eq np (app i)]
    simp [Array.getD_eq_getD_getElem?, hi]
  unfold cprAppCells
  rw [twoPassW_eq _ _ hw, twoPassW_eq _ _ hw,
    twoPass_spec _ jp jc jv (by rw [hn]; exact hp) hc hv, twoPass_spec _ jp' jc' jv' (by rw [hn]; exact hp') hc' hv']
  obtain ⟨a, b, c, d⟩ := ofRows_allWritten
    (Array.ofFn (n := np) fun i => appFillRow np (app i.val) (Krows.getD i.val []))
  exact ⟨d, a, b, c, rfl⟩

end app

/-- non-vacuity: 2 active rows of a 3-column matrix -/
example : erase (cprAppCells (K := Nat) (V := Nat) 2 #[[(0, 1), (2, 5)], [(1, 2), (0, 3)]] (fun _ cv => cv.2)
    #[9, 9, 9] (fun k => Array.replicate k 5) (fun k => Array.replicate k 7)).ptr = #[0, 1, 3] := by decide +kernel

end Amgcl.C10e
