import Amgcl.Proofs.RelaxIlutLoop
import Amgcl.Properties.C06
/-!
# C06 (part d) — ILUT(p, tau) as written: theorems about the faithful model `Model/RelaxIlut.lean` of `relaxation/ilut.hpp`

`Model/RelaxIlut.lean` mirrors the constructor of `ilut.hpp` (working row `sparse_vector`, the row tolerance
`tol = tau · Σ|a_ij| / (lenL + lenU)`, the elimination loop that does **not apply** a multiplier `≤ tol`, `move_to` with the
fill limits `lp = ⌊lenL·p⌋`, `up = ⌊lenU·p⌋` — the diagonal occupying one of the `up` places —, `D = inverse(diagonal slot)`).
It is tied to the real `relaxation::ilut<builtin<Q>>` by the exact correspondence of `harness/h_relax_ilut.cpp`
(ops `relax_ilut_factors|pre|post|apply|drops`).  All statements are for every field `K` carrying *any* decidable
relation `<` and *any* function `norm` (the comparisons of the code enter only through their outcome), every size, every
parameter record `P` (fill limits, `tau`).

* `ilut_sweep_is_ilu_sweep` — `apply_pre` / `apply_post` / `apply` are the ILU sweeps with the factors the constructor
  returned: `tmp' = solve(f − A x)`, `x' = x + ω tmp'`, and `(I+L)(D⁻¹+U) tmp' = f − A x`: `x' = x + ω M⁻¹ (f − A x)` with
  `M = (I+L)(D⁻¹+U)`; the bundle `Smoother.Good` (scratch independence, joint linearity, fixed point) for C02.
* `ilut_trace_faithful`, `ilut_trace_exists` — the run with the record of discarded entries (`ilutFactorT`) is the run.
* `ilut_factors_wf` — strictly triangular, well-formed factors of the right size.
* `ilut_residual_identity` — `(I+L)(D⁻¹+U) + R = A` at **every** position, `R = ilutResid` the matrix of discarded
  contributions: a skipped multiplier `l_c` (`≤ tol`, never applied) leaves `l_c · pivot_c` at column `c`; a multiplier cut by
  the fill limit `lp` **after it had been applied** leaves `l_c · (pivot_c e_c + U_c)` (a whole row of `U`); discarded upper
  entries leave themselves.
* `ilut_exact_when_nothing_dropped` — empty record ⟹ exact `LU` factors, `apply = A⁻¹`, and one sweep with `ω = 1` from any
  `x` returns the solution of `A x = f`.

Hypotheses: `A` well formed, square, no row storing a column twice (`noRepeatb`: the copy loop overwrites, `A.get` adds);
non-zero stored pivots where a division by them is undone (the code has no pivot check).
-/
namespace Amgcl.C06e
open Amgcl Amgcl.Relax Finset

section ilut
variable {K : Type} [Field K] [DecidableEq K] [LT K] [DecidableLT K]

/-- the run with the record computes the factors of the constructor, outcome by outcome -/
theorem ilut_trace_faithful (P : IlutParams K) (A : CRS K) :
    ilutFactor P A
      = match ilutFactorT P A with
        | .ok FR => .ok FR.1
        | .tie => .tie
        | .undefinedInput => .undefinedInput :=
  ilutFactorT_fst P A

theorem ilut_trace_exists (P : IlutParams K) (A : CRS K) (F : IluFactors K) :
    ilutFactor P A = .ok F ↔ ∃ R, ilutFactorT P A = .ok (F, R) :=
  ⟨ilutFactorT_of_factor P A F, fun ⟨R, h⟩ => ilutFactor_of_factorT P A F R h⟩

/-- a successful ILUT constructor returns strictly triangular, well-formed factors of the right size -/
theorem ilut_factors_wf (P : IlutParams K) (A : CRS K) (hA : A.WF) (hsq : A.ncols = A.nrows)
    (hnr : noRepeatb A = true) (F : IluFactors K) (hF : ilutFactor P A = .ok F) :
    strictLowerb F.L = true ∧ strictUpperb F.U = true ∧ F.L.WF ∧ F.U.WF ∧ F.L.nrows = A.nrows ∧ F.L.ncols = A.nrows
    ∧ F.U.nrows = A.nrows ∧ F.U.ncols = A.nrows ∧ F.D.size = A.nrows := by
  obtain ⟨R, hT⟩ := ilutFactorT_of_factor P A F hF
  obtain ⟨h1, h2, h3, h4, h5, h6, h7, h8, h9, _⟩ := ilutFactorT_wf P A hA hsq (noRepeat_of_b A hnr) F R hT
  exact ⟨h1, h2, h3, h4, h5, h6, h7, h8, h9⟩

/-- **`ilut_sweep_is_ilu_sweep`.**  The sweeps of ILUT are the ILU sweeps with the returned factors (whatever they are):
`tmp' = solve(f − A x)`, `x' = ω·tmp' + x`, `apply_post = apply_pre`, `apply(f) = solve(f)`, and the bundle `Smoother.Good`.
When the factors come from the constructor and the stored pivots are non-zero, `tmp'` solves
`(I+L)(D⁻¹+U) tmp' = f − A x`, i.e. `x' = x + ω M⁻¹ (f − A x)` with `M = (I+L)(D⁻¹+U)`. -/
theorem ilut_sweep_is_ilu_sweep (P : IlutParams K) (ω : K) (A : CRS K) (F : IluFactors K) (f x t : Vec K) :
    (ilut P ω).applyPre F A f x t = iluSweep ω F A f x t
    ∧ (ilut P ω).applyPost F A f x t = iluSweep ω F A f x t
    ∧ ((ilut P ω).applyPre F A f x t).2 = iluSolve F (residual f A x)
    ∧ ((ilut P ω).applyPre F A f x t).1 = axpby ω (iluSolve F (residual f A x)) 1 x
    ∧ (ilut P ω).apply F A f = iluApply F f
    ∧ Smoother.Good (ilut P ω) F A
    ∧ (A.WF → A.ncols = A.nrows → noRepeatb A = true → ilutFactor P A = .ok F →
        (∀ i, i < A.nrows → F.D.getD i 0 ≠ 0) → f.size = A.nrows → x.size = A.nrows → ∀ i, i < A.nrows →
        ∑ k ∈ range A.nrows, lowEntry F i k
            * (∑ j ∈ range A.nrows, upEntry F k j * ((ilut P ω).applyPre F A f x t).2.getD j 0)
          = f.getD i 0 - ∑ j ∈ range A.nrows, A.get i j * x.getD j 0) := by
  obtain ⟨g1, g2, g3, g4⟩ := iluSweep_facts ω F A
  refine ⟨rfl, rfl, rfl, rfl, rfl, ⟨g1, g1, g2, g2, g3, g3, g4, g4⟩, ?_⟩
  intro hA hsq hnr hF hD hf hx i hi
  obtain ⟨h1, h2, h3, h4, h5, h6, h7, h8, _⟩ := ilut_factors_wf P A hA hsq hnr F hF
  have hinv := C06.ilu_solve_serial_inverse F h1 h2 h3 h4 (by omega) (by omega) (by omega)
    (fun k hk => hD k (by omega)) (residual f A x) (by simp; omega) i (by omega)
  rw [h5] at hinv
  show ∑ k ∈ range A.nrows, lowEntry F i k
      * (∑ j ∈ range A.nrows, upEntry F k j * (iluSolve F (residual f A x)).getD j 0) = _
  rw [hinv, getD_residual _ _ _ _ hi, rowDot_eq_sum _ _ A.ncols (row_wf hA i hi), hsq]
  rfl

/-- **`ilut_residual_identity`.**  For every field, every size, every parameter record and every well-formed square
matrix without repeated columns on which the constructor succeeds: the factors and the matrix `R = ilutResid F Dr` of
discarded contributions satisfy `((I+L)(D⁻¹+U))_ij + R_ij = a_ij` at **every** position.  On and right of the diagonal
there is no further hypothesis; left of the diagonal the stored pivot `D_j` must be non-zero (the code never checks it). -/
theorem ilut_residual_identity (P : IlutParams K) (A : CRS K) (hA : A.WF) (hsq : A.ncols = A.nrows)
    (hnr : noRepeatb A = true) (F : IluFactors K) (Dr : Array (IlutDrop K)) (hF : ilutFactorT P A = .ok (F, Dr))
    (i j : Nat) (hi : i < A.nrows) (hj : j < A.nrows) (hD : j < i → F.D.getD j 0 ≠ 0) :
    ∑ k ∈ range A.nrows, lowEntry F i k * upEntry F k j + ilutResid F Dr i j = A.get i j :=
  ilutFactorT_identity P A hA hsq (noRepeat_of_b A hnr) F Dr hF i j hi hj hD

/-- **`ilut_exact_when_nothing_dropped`.**  `ilutNoDropb P A` (the constructor succeeds, no multiplier was skipped, no slot
fell below `tol`, no fill limit cut) ⟹ `(I+L)(D⁻¹+U) = A` at every position; with non-zero stored pivots `apply` is the exact
inverse, and one sweep with damping `1` from **any** `x` lands on the solution: `A x' = f`. -/
theorem ilut_exact_when_nothing_dropped (P : IlutParams K) (A : CRS K) (hA : A.WF) (hsq : A.ncols = A.nrows)
    (hnr : noRepeatb A = true) (F : IluFactors K) (hF : ilutFactor P A = .ok F) (hnd : ilutNoDropb P A = true)
    (hD : ∀ i, i < A.nrows → F.D.getD i 0 ≠ 0) :
    (∀ i j, i < A.nrows → j < A.nrows → ∑ k ∈ range A.nrows, lowEntry F i k * upEntry F k j = A.get i j)
    ∧ (∀ f : Vec K, f.size = A.nrows → ∀ i, i < A.nrows →
        ∑ j ∈ range A.nrows, A.get i j * ((ilut P 1).apply F A f).getD j 0 = f.getD i 0)
    ∧ (∀ f x t : Vec K, f.size = A.nrows → x.size = A.nrows → ∀ i, i < A.nrows →
        ∑ j ∈ range A.nrows, A.get i j * ((ilut P 1).applyPre F A f x t).1.getD j 0 = f.getD i 0) := by
  obtain ⟨R, hT⟩ := ilutFactorT_of_factor P A F hF
  obtain ⟨h1, h2, h3, h4, h5, h6, h7, h8, _⟩ := ilut_factors_wf P A hA hsq hnr F hF
  have hR : R.all (fun d => d.isEmpty) = true := by
    unfold ilutNoDropb at hnd
    rw [hT] at hnd
    exact hnd
  have hex : ∀ i j, i < A.nrows → j < A.nrows → ∑ k ∈ range A.nrows, lowEntry F i k * upEntry F k j = A.get i j := by
    intro i j hi hj
    have h := ilut_residual_identity P A hA hsq hnr F R hT i j hi hj (fun _ => hD j hj)
    rw [ilutResid_eq_zero F R hR, add_zero] at h
    exact h
  have hsolve : ∀ b : Vec K, b.size = A.nrows → ∀ i, i < A.nrows →
      ∑ j ∈ range A.nrows, A.get i j * (iluSolve F b).getD j 0 = b.getD i 0 :=
    fun b hb i hi => C06.exact_factors_invert A F hex h1 h2 h3 h4 h5 h6 h7 h8 hD b hb i hi
  refine ⟨hex, ?_, ?_⟩
  · intro f hf i hi
    have hcopy : vcopy f = f := by
      apply Vec.ext_getD (0 : K) (by simp [vcopy])
      intro k hk
      have hk' : k < f.size := by simpa [vcopy] using hk
      simp [vcopy]
    show ∑ j ∈ range A.nrows, A.get i j * (iluSolve F (vcopy f)).getD j 0 = f.getD i 0
    rw [hcopy]
    exact hsolve f hf i hi
  · intro f x t hf hx i hi
    show ∑ j ∈ range A.nrows, A.get i j * (axpby 1 (iluSolve F (residual f A x)) 1 x).getD j 0 = f.getD i 0
    have hs := hsolve (residual f A x) (by simp) i hi
    rw [getD_residual _ _ _ _ hi, rowDot_eq_sum _ _ A.ncols (row_wf hA i hi), hsq] at hs
    have : ∀ j ∈ range A.nrows, A.get i j * (axpby 1 (iluSolve F (residual f A x)) 1 x).getD j 0
        = A.get i j * (iluSolve F (residual f A x)).getD j 0 + rowGet (A.row i) j * x.getD j 0 := by
      intro j hj
      rw [getD_axpby _ _ _ _ _ (by simp; exact mem_range.mp hj)]
      unfold CRS.get
      ring
    rw [sum_congr rfl this, sum_add_distrib, hs]
    ring

end ilut

/-! ## Non-vacuity: concrete runs over `ℚ` (kernel-evaluated) -/
section examples

/-- `ilut::params` with fill factor `p` (a natural number here), threshold `tau`, at `ℚ` -/
def exP (p : Nat) (tau : ℚ) : IlutParams ℚ :=
  { fill := fun len => p * len, tau := tau, ofNat := fun k => (k : ℚ), norm := fun v => if v < 0 then -v else v }

local instance exDecEqCRS : DecidableEq (CRS ℚ) := fun a b =>
  decidable_of_iff (a.ncols = b.ncols ∧ a.rows = b.rows) (by cases a; cases b; simp)
local instance exDecEqIlu : DecidableEq (IluFactors ℚ) := fun a b =>
  decidable_of_iff (a.L = b.L ∧ a.U = b.U ∧ a.D = b.D) (by cases a; cases b; simp)

theorem exA_wf : C06.exA.WF ∧ C06.exA.ncols = C06.exA.nrows ∧ noRepeatb C06.exA = true := by decide +kernel
/-- tridiagonal, `p = 2` (the default), `tau = 0`: the factors are those of ILU(0), nothing is dropped -/
theorem exA_ilut : ilutFactor (exP 2 0) C06.exA = .ok C06.exF := by decide +kernel
theorem exA_nodrop : ilutNoDropb (exP 2 0) C06.exA = true := by decide +kernel
theorem exA_D : ∀ i, i < C06.exA.nrows → C06.exF.D.getD i 0 ≠ 0 := by decide +kernel

/-- `ilut_sweep_is_ilu_sweep` applies: the sweep solves the factor system -/
example (ω : ℚ) (f x t : Vec ℚ) (hf : f.size = C06.exA.nrows) (hx : x.size = C06.exA.nrows) (i : Nat)
    (hi : i < C06.exA.nrows) :
    ∑ k ∈ range C06.exA.nrows, lowEntry C06.exF i k
        * (∑ j ∈ range C06.exA.nrows, upEntry C06.exF k j * ((ilut (exP 2 0) ω).applyPre C06.exF C06.exA f x t).2.getD j 0)
      = f.getD i 0 - ∑ j ∈ range C06.exA.nrows, C06.exA.get i j * x.getD j 0 :=
  (ilut_sweep_is_ilu_sweep (exP 2 0) ω C06.exA C06.exF f x t).2.2.2.2.2.2 exA_wf.1 exA_wf.2.1 exA_wf.2.2 exA_ilut exA_D
    hf hx i hi

/-- a full 4×4 matrix with two structural zeros; `p = 1`, `tau = 0`: the fill limits cut on both sides -/
def exC : CRS ℚ :=
  ⟨4, #[[(0, 4), (1, 1), (2, 2), (3, 1/2)], [(0, 1), (1, 5), (2, 1), (3, 3)], [(0, 2), (2, 6), (3, 1)],
        [(0, 1), (2, 3), (3, 8)]]⟩
def exCF : IluFactors ℚ :=
  ⟨⟨4, #[[], [(0, 1/4)], [(0, 1/2)], [(0, 1/4), (2, 1/2)]]⟩, ⟨4, #[[(1, 1), (2, 2)], [(3, 3)], [], []]⟩,
   #[1/4, 4/19, 1/5, 19/155]⟩
/-- the record of the run: rows 2 and 3 cut a multiplier **after applying it** (fill-in at column 1), rows 0–2 lose
upper entries (the diagonal uses one of the `up` places) -/
def exCR : Array (IlutDrop ℚ) :=
  #[⟨[], [], [(3, 1/2)]⟩, ⟨[], [], [(2, 1/2)]⟩, ⟨[], [(1, -2/19)], [(3, 25/19)]⟩, ⟨[], [(1, -1/19)], []⟩]
theorem exC_wf : exC.WF ∧ exC.ncols = exC.nrows ∧ noRepeatb exC = true := by decide +kernel
theorem exC_run : ilutFactorT (exP 1 0) exC = .ok (exCF, exCR) := by decide +kernel
theorem exC_D : ∀ i, i < exC.nrows → exCF.D.getD i 0 ≠ 0 := by decide +kernel

/-- `ilut_residual_identity` applies to a run that discards on both sides … -/
example (i j : Nat) (hi : i < exC.nrows) (hj : j < exC.nrows) :
    ∑ k ∈ range exC.nrows, lowEntry exCF i k * upEntry exCF k j + ilutResid exCF exCR i j = exC.get i j :=
  ilut_residual_identity (exP 1 0) exC exC_wf.1 exC_wf.2.1 exC_wf.2.2 exCF exCR exC_run i j hi hj (fun _ => exC_D j hj)
/-- … whose residual is not zero: at `(2, 3)` the cut multiplier contributes `-2/19 · u_13 = -6/19`, the discarded upper
entry `25/19` -/
example : ilutResid exCF exCR 2 3 = 1 ∧ ilutResid exCF exCR 2 1 = -1/2 ∧ ilutNoDropb (exP 1 0) exC = false := by
  decide +kernel
/-- with a threshold (`tau = 1/5`) every multiplier of this matrix is skipped: `L = 0`, the record holds them -/
example : (match ilutFactorT (exP 1 (1/5)) exC with
    | .ok (F, R) => F.L.rows.all (·.isEmpty) && R.any (fun d => !d.skipped.isEmpty) | _ => false) = true := by
  decide +kernel

/-- `ilut_exact_when_nothing_dropped` applies … -/
example : (∀ i j, i < C06.exA.nrows → j < C06.exA.nrows →
      ∑ k ∈ range C06.exA.nrows, lowEntry C06.exF i k * upEntry C06.exF k j = C06.exA.get i j)
    ∧ (∀ f x t : Vec ℚ, f.size = C06.exA.nrows → x.size = C06.exA.nrows → ∀ i, i < C06.exA.nrows →
        ∑ j ∈ range C06.exA.nrows, C06.exA.get i j * ((ilut (exP 2 0) 1).applyPre C06.exF C06.exA f x t).1.getD j 0
          = f.getD i 0) :=
  let h := ilut_exact_when_nothing_dropped (exP 2 0) C06.exA exA_wf.1 exA_wf.2.1 exA_wf.2.2 C06.exF exA_ilut exA_nodrop exA_D
  ⟨h.1, h.2.2⟩
/-- … and the sweep from an arbitrary `x` does land on the solution `(1,1,1)` of `A x = (3,2,2)` -/
example : ((ilut (exP 2 0) 1).applyPre C06.exF C06.exA #[3, 2, 2] #[7, -3, 5] #[0, 0, 0]).1 = #[1, 1, 1] := by
  decide +kernel

/-- the diagonal occupies one of the `up = ⌊p · lenU⌋` places of the `U` part: with `p = 1` a tridiagonal matrix keeps **no**
upper entry (the known observation about the fill quota), although the exact factors would fit `p · lenU` entries -/
example : (match ilutFactorT (exP 1 0) C06.exA with
    | .ok (F, R) => F.U.rows.all (·.isEmpty) && R.any (fun d => !d.dropU.isEmpty) | _ => false) = true := by
  decide +kernel

/-- the outcome `tie`: `p = 1`, two upper entries of equal magnitude, one place -/
example : ilutFactor (exP 1 0) ⟨3, #[[(0, 4), (1, 1), (2, -1)], [(0, 1), (1, 4)], [(0, 1), (2, 4)]]⟩ = .tie := by
  decide +kernel

end examples

end Amgcl.C06e
