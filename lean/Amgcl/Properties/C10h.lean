import Amgcl.Proofs.SchedSort
/-!
# C10 (continued, package alloc2) — the level-scheduling tables of `gauss_seidel::parallel_sweep` /
`ilu_solve::sptr_solve` do not depend on the initial content of `order`

`std::vector<ptrdiff_t> order(n, 0)` is value-initialised in the code (no uninitialised-allocation site), so this is
not an obligation of the site table; the statement asked for is that the scatter loop
`for i < n: order[start[level[i]]++] = i` of step 2 stores into every cell of `order`, i.e. the table would be the same
whatever the vector held before (an `order(n)` turned into an uninitialised buffer would not change the schedule).
`csScatterFrom` is `Sched.csScatter` (`Model/ScheduleSort.lean`, the statement-by-statement model the C09 driver
executes) with the initial content of `order` as a parameter.
-/
namespace Amgcl.C10h
open Amgcl Amgcl.Sched

/-- the scatter loop of step 2 started from an arbitrary `order` vector -/
def csScatterFrom (level psum order0 : Array Nat) : Array Nat × Array Nat :=
  (List.range level.size).foldl (scatterStep level) (order0, psum)

theorem csScatterFrom_replicate (level psum : Array Nat) :
    csScatterFrom level psum (Array.replicate level.size 0) = csScatter level psum := rfl

/-- `scatter_inv` of `Proofs/SchedSort.lean` for an arbitrary initial `order` of the right size -/
theorem scatterFrom_inv (level order0 : Array Nat) (h0 : order0.size = level.size) (k : Nat) (hk : k ≤ level.size) :
    ScatterInv level k ((List.range k).foldl (scatterStep level)
      (order0, ((List.range (nlev level + 1)).map (start level)).toArray)) := by
  induction k with
  | zero =>
    refine ⟨by simpa using h0, by simp, ?_, by intro i hi; omega⟩
    intro l hl
    simp [Array.getD_eq_getD_getElem?, hl, cntEq]
  | succ k ih =>
    have inv := ih (by omega)
    have hr : List.range (k + 1) = List.range k ++ [k] := List.range_succ
    rw [hr, List.foldl_append]
    generalize (List.range k).foldl (scatterStep level) _ = os at inv
    have hkn : k < level.size := by omega
    have hl := lt_nlev level k hkn
    have hst : os.2.getD (level.getD k 0) 0 = pos level k := inv.st _ (by omega)
    simp only [List.foldl_cons, List.foldl_nil, scatterStep]
    refine ⟨by simp [inv.size1], by simp [inv.size2], ?_, ?_⟩
    · intro l hl'
      rw [getD_setIfInBounds', cntEq_succ, inv.size2]
      by_cases h : level.getD k 0 = l
      · rw [if_pos ⟨h, hl'⟩, if_pos h, h, inv.st l hl']; omega
      · rw [if_neg (fun e => h e.1), if_neg h, inv.st l hl']; rfl
    · intro i hi
      rw [hst, getD_setIfInBounds', inv.size1]
      by_cases h : i = k
      · subst h; rw [if_pos ⟨rfl, pos_lt level i hkn⟩]
      · have hne : pos level k ≠ pos level i := fun e => h (pos_inj level k i hkn (by omega) e).symm
        rw [if_neg (fun e => hne e.1)]
        exact inv.ord i (by omega)

/-- **the scatter loop overwrites every cell of `order`**: started from the partial sums of the histogram, it ends
with `order` = the rows sorted by level (the specification `Sched.order`), for every level vector and every initial
content of `order` -/
theorem gs_order_defined (level order0 : Array Nat) (h0 : order0.size = level.size) :
    (csScatterFrom level ((List.range (nlev level + 1)).map (start level)).toArray order0).1.toList = order level := by
  unfold csScatterFrom
  have inv := scatterFrom_inv level order0 h0 level.size (Nat.le_refl _)
  generalize (List.range level.size).foldl (scatterStep level) _ = os at inv
  apply List.ext_getElem?
  intro p
  rcases Nat.lt_or_ge p level.size with hp | hp
  · have hpo : p < (order level).length := by rw [order_length]; exact hp
    have hi : (order level)[p] < level.size := (mem_order level _).mp (List.getElem_mem hpo)
    have h1 := order_getElem?_pos level _ hi
    have hpp : pos level (order level)[p] = p := by
      have := pos_lt level _ hi
      apply (List.getElem?_inj (by rw [order_length]; exact this) (order_nodup level)).mp
      rw [h1, List.getElem?_eq_getElem hpo]
    have h2 := inv.ord _ hi
    rw [hpp] at h2
    rw [List.getElem?_eq_getElem hpo, ← h2, Array.getElem?_toList, Array.getD_eq_getD_getElem?]
    have : p < os.1.size := by rw [inv.size1]; exact hp
    simp [this]
  · rw [List.getElem?_eq_none (by rw [Array.length_toList, inv.size1]; exact hp),
      List.getElem?_eq_none (by rw [order_length]; exact hp)]

/-- the same table for any two initial contents of `order` — in particular the value-initialised one of the code -/
theorem gs_order_indep (level order0 order0' : Array Nat) (h0 : order0.size = level.size)
    (h0' : order0'.size = level.size) :
    (csScatterFrom level ((List.range (nlev level + 1)).map (start level)).toArray order0).1
      = (csScatterFrom level ((List.range (nlev level + 1)).map (start level)).toArray order0').1 := by
  have a := gs_order_defined level order0 h0
  have b := gs_order_defined level order0' h0'
  apply Array.ext'
  rw [a, b]

/-- non-vacuity: levels `[0, 1, 0, 2, 1]`, garbage `[9, 9, 9, 9, 9]` vs the zeros of the code -/
example : (csScatterFrom #[0, 1, 0, 2, 1] ((List.range (nlev #[0, 1, 0, 2, 1] + 1)).map (start #[0, 1, 0, 2, 1])).toArray
    #[9, 9, 9, 9, 9]).1 = #[0, 2, 1, 4, 3] := by decide +kernel
example := gs_order_indep #[0, 1, 0, 2, 1] #[9, 9, 9, 9, 9] (Array.replicate 5 0) rfl rfl

end Amgcl.C10h
