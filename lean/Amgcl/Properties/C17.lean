import Amgcl.Proofs.AdaptersOrder
import Amgcl.Proofs.AdaptersSolve
import Amgcl.Proofs.AdaptersTuple
import Amgcl.Properties.C13
import Amgcl.Model.RelaxIlu
/-!
# C17 — matrix adapters preserve the operator; input row order does not matter

Property theorems only (helper lemmas: `Amgcl/Proofs/Adapters{Order,Reorder,Solve,Tuple}.lean`; the block adapter is
in `Properties/C13.lean`).  Models: `Amgcl/Model/Adapters.lean`.

* `adapter_rows_eq_*` : every adapter presents the stored rows of its source, so the matrix the library copies out of it
  (`crsCopy`, the generic CRS constructor) IS the source matrix: rows, columns, non-zero count, every entry and every
  matrix-vector product agree.  For the tuple adapter this holds for any `ptr` base offset into longer `col` / `val`
  ranges (`nonzeros()` then over-counts by the offset — the adapter returns `ptr[n]`), and the index types of the
  C++ ranges are arbitrary (model over `Int`).
* `reorder_solves`, `scaled_solves` : solving the adapted system and transforming back solves the original system, with
  `forward` / `inverse` / post-scaling exactly as coded.
* `amg_setup_order_indep`, `as_preconditioner_order_indep`, `sorting_ctor_order_indep` : constructors that copy the user's
  matrix and `sort_rows` the copy (amg; since the repairs c7ed7ac, f2b3b58, 3c80f38 also `relaxation::as_preconditioner`,
  `make_block_solver`, `preconditioner::cpr`, `cpr_drs`) do not depend on the order of the entries inside the user's rows.
* `shared_ctor_needs_sorted_input`, `unsorted_ctor_counterexample` : what holds for the constructors that do NOT sort
  (the `std::shared_ptr<build_matrix>` constructors share user storage and must not reorder it): the sorted-input
  hypothesis is necessary — ILU(0) built from a row-shuffled matrix is a different operator.

All statements are for rows with distinct columns where the order matters (C17 quantifies over permutations of the
entries of a row, not over duplicate entries).
-/
namespace Amgcl.C17
open Amgcl Amgcl.Adapters Amgcl.K2

/-! ## every adapter describes the operator of its source -/
section rows
variable {K : Type}

/-- **tuple of ranges** `std::tie(n, ptr, col, val)` (any integer index type, any `ptr` base offset `base` into
`col` / `val` ranges that start with `base` unrelated entries): the adapter's rows are the rows of `A`; the copied matrix
is `A`; `nonzeros()` is `nnz + base`. -/
theorem adapter_rows_eq_tuple [Zero K] (A : CRS K) (hsq : A.ncols = A.nrows) (base : Nat) (pad : List Int)
    (padv : List K) (hp : pad.length = base) (hpv : padv.length = base) :
    (∀ i, i < A.nrows → tupleRow (tuplePtr A base) (tupleCol A pad) (tupleVal A padv) i = A.row i) ∧
    crsTuple A.nrows (tuplePtr A base) (tupleCol A pad) (tupleVal A padv) = A ∧
    crsCopy (crsTuple A.nrows (tuplePtr A base) (tupleCol A pad) (tupleVal A padv)) = A ∧
    tupleNonzeros A.nrows (tuplePtr A base) = ((A.nnz + base : Nat) : Int) := by
  refine ⟨fun i hi => tupleRow_eq A base pad padv hp hpv i hi, crsTuple_eq A hsq base pad padv hp hpv, ?_,
    tupleNonzeros_eq A base⟩
  rw [crsCopy_eq, crsTuple_eq A hsq base pad padv hp hpv]

/-- consequently every observable agrees: shape, number of non-zeros, entries, SpMV (with `base = 0`) -/
theorem adapter_tuple_operator [Add K] [Mul K] [Zero K] [DecidableEq K] (A : CRS K) (hsq : A.ncols = A.nrows)
    (α β : K) (x y : Vec K) (i j : Nat) :
    let M := crsTuple A.nrows (tuplePtr A 0) (tupleCol A []) (tupleVal A [])
    M.nrows = A.nrows ∧ M.ncols = A.ncols ∧ M.nnz = A.nnz ∧ M.get i j = A.get i j ∧
    spmv α M x β y = spmv α A x β y ∧ tupleNonzeros A.nrows (tuplePtr A 0) = (A.nnz : Int) := by
  have h := crsTuple_eq A hsq 0 [] [] rfl rfl
  simp only
  rw [h]
  exact ⟨rfl, rfl, rfl, rfl, rfl, by simpa using tupleNonzeros_eq A 0⟩

/-- **zero copy**: the matrix object IS the user's arrays (same rows, hence same operator), it does not own them,
and its destructor / assignment release nothing -/
theorem adapter_rows_eq_zero_copy (A : CRS K) :
    (zeroCopy A).A = A ∧ (zeroCopy A).ownData = false ∧ (zeroCopy A).freed = [] :=
  ⟨rfl, rfl, rfl⟩

/-- **row builder**: row `i` is what the callback produces for `i`; built from the rows of a square matrix it gives the
matrix back -/
theorem adapter_rows_eq_builder (n : Nat) (f : Nat → Row K) :
    (matrixBuilder n f).nrows = n ∧ (matrixBuilder n f).ncols = n ∧
    ∀ i, i < n → (matrixBuilder n f).row i = f i := by
  refine ⟨by simp [matrixBuilder, CRS.nrows], rfl, ?_⟩
  intro i hi
  have hi' : i < (matrixBuilder n f).rows.size := by simpa [matrixBuilder] using hi
  rw [row_eq_getElem _ hi']
  simp [matrixBuilder]

theorem adapter_builder_roundtrip (A : CRS K) (hsq : A.ncols = A.nrows) :
    crsCopy (matrixBuilder A.nrows A.row) = A := by
  rw [crsCopy_eq]
  cases A with
  | mk nc rows =>
    simp only at hsq
    unfold matrixBuilder
    simp only [CRS.mk.injEq]
    refine ⟨hsq.symm, ?_⟩
    apply Array.ext (by simp [CRS.nrows])
    intro i h1 h2
    simp only [Array.getElem_ofFn]
    exact row_eq_getElem _ h2

/-- **block adapter** (see `C13`): on row-sorted input the block matrix has exactly the entries of the scalar matrix and
the same matrix-vector products -/
theorem adapter_rows_eq_block [CommRing K] [DecidableEq K] (b : Nat) (hb : 0 < b) (A : CRS K) (hA : A.WF)
    (hs : A.sortedb = true) (hr : A.nrows % b = 0) (hc : A.ncols % b = 0) :
    ∃ B, blockMatrix b A = .ok B ∧ B.nrows = A.nrows / b ∧ B.ncols = A.ncols / b ∧
      (∀ i j, (unblock b B).get i j = A.get i j) ∧
      ∀ (α β : K) (x y : Vec K), blockSpmv b α B x β y = spmv α A x β y :=
  C13.block_adapter_operator b hb A hA hs hr hc

/-- **reordered matrix**: same shape, row `i` is row `perm i` (same length), entries `B[i][j] = A[perm i][perm j]` -/
theorem adapter_rows_eq_reorder [AddCommMonoid K] (A : CRS K) {perm : Array Nat} (h : IsPerm perm) (hA : A.WF)
    (hn : A.nrows = perm.size) (hm : A.ncols = perm.size) :
    let B := reorderedMatrix A perm (mkIperm perm)
    B.nrows = A.nrows ∧ B.ncols = A.ncols ∧
    (∀ i, i < perm.size → (B.row i).length = (A.row (perm.getD i 0)).length) ∧
    ∀ i j, i < perm.size → j < perm.size → B.get i j = A.get (perm.getD i 0) (perm.getD j 0) := by
  refine ⟨reorderedMatrix_nrows A perm _, rfl, ?_, ?_⟩
  · intro i hi; exact reorderedMatrix_row_length A perm _ i (by rw [hn]; exact hi)
  · intro i j hi hj; exact reorderedMatrix_get A h hA hn hm i j hi hj

/-- **scaled matrix**: same shape and pattern, entries `s_i · a_ij · s_j` -/
theorem adapter_rows_eq_scaled [Semiring K] (A : CRS K) (s : Vec K) :
    (scaledMatrix A s).nrows = A.nrows ∧ (scaledMatrix A s).ncols = A.ncols ∧
    (∀ i, i < A.nrows → ((scaledMatrix A s).row i).map (·.1) = (A.row i).map (·.1)) ∧
    ∀ i j, i < A.nrows → (scaledMatrix A s).get i j = s.getD i 0 * A.get i j * s.getD j 0 := by
  refine ⟨scaledMatrix_nrows A s, rfl, ?_, fun i j hi => scaledMatrix_get A s i j hi⟩
  intro i hi
  rw [scaledMatrix_row A s i hi, List.map_map]
  rfl

end rows

/-! ## solving through the reorder / scaling adapters -/
section solves
variable {K : Type}

/-- **reorder adapter**.  `perm` is the permutation returned by the ordering, `iperm = mkIperm perm` the inverse the
constructor computes, `B = reordered_matrix(A)`, `forward(f)[i] = f[perm i]`, `inverse(y)[perm i] = y[i]`.
If `B y = forward(f)` (as SpMV results of the backend primitive) then `A · inverse(y) = f`: the back-permuted solution
solves the original system.  (`x0`: previous contents of the user's solution vector; `w`, `w'`: previous contents of
the SpMV outputs — irrelevant.) -/
theorem reorder_solves [Semiring K] [DecidableEq K] (A : CRS K) {perm : Array Nat} (h : IsPerm perm) (hA : A.WF)
    (hn : A.nrows = perm.size) (hm : A.ncols = perm.size) (f y x0 w w' : Vec K) (hf : f.size = perm.size)
    (hx : x0.size = perm.size)
    (hsol : spmv 1 (reorderedMatrix A perm (mkIperm perm)) y 0 w = reorderForward perm f) :
    spmv 1 A (reorderInverse perm y x0) 0 w' = f := by
  rw [← solves_iff_spmv A _ f w' (by rw [hf, hn])]
  apply reorder_solves' A h hA hn hm f y x0 hx
  rw [solves_iff_spmv _ _ _ w (by simp [reorderForward, reorderedMatrix_nrows, hn])]
  exact hsol

/-- **scaled problem**.  For every scale vector `s` without zero entry (in particular `scale_diagonal`'s
`1/sqrt|a_ii|` for whatever function `sqrt` is, as long as it does not vanish): if `(S A S) y = S f`, then the
post-scaled `x = S y` (`scale(x)`) solves `A x = f`. -/
theorem scaled_solves [CommRing K] [IsDomain K] [DecidableEq K] (A : CRS K) (hA : A.WF) (hsq : A.ncols = A.nrows)
    (s f y w w' : Vec K) (hs : s.size = A.nrows) (hf : f.size = A.nrows) (hnz : ∀ i, i < A.nrows → s.getD i 0 ≠ 0)
    (hsol : spmv 1 (scaledMatrix A s) y 0 w = scaleVec s f) :
    spmv 1 A (scaleVec s y) 0 w' = f := by
  rw [← solves_iff_spmv A _ f w' hf]
  apply scaled_solves' A hA hsq s f y hs hnz
  rw [solves_iff_spmv _ _ _ w (by rw [scaleVec_size, scaledMatrix_nrows, hs])]
  exact hsol

/-- without the post-scaling the statement is false: `scale(x)` is not optional -/
example : ∃ (A : CRS Rat) (s f y : Vec Rat), A.WF ∧ (∀ i, i < A.nrows → s.getD i 0 ≠ 0) ∧
    spmv 1 (scaledMatrix A s) y 0 #[] = scaleVec s f ∧ spmv 1 A y 0 #[] ≠ f :=
  ⟨⟨1, #[[(0, 4)]]⟩, #[1 / 2], #[8], #[4], by decide, by decide +kernel, by decide +kernel, by decide +kernel⟩

end solves

/-! ## the order of the entries inside the user's rows -/
section order
variable {K S : Type}

/-- **`sort_rows` is a canonical form**: it removes every trace of the order in which the entries of a row were listed
(rows with distinct columns; from `C08b.sortRow_canonical`) -/
theorem sort_rows_canonical {A' A : CRS K} (h : RowPermOf A' A) (hn : A.nodupb = true) :
    sortRows A' = sortRows A :=
  Adapters.sortRows_canonical h hn

/-- **amg sorts on entry** (amg.hpp:199-205): the hierarchy built from a matrix whose rows list their entries in any
order is the hierarchy built from `A` — for every coarsening policy, smoother and parameter set. -/
theorem amg_setup_order_indep [Add K] [Mul K] [Zero K] [One K] (prm : Amg.Params) (pol : Amg.Policy K)
    (sm : Relax.Smoother K S) (directOk : CRS K → Bool) {A' A : CRS K} (h : RowPermOf A' A)
    (hn : A.nodupb = true) :
    Amg.build prm pol sm directOk A' = Amg.build prm pol sm directOk A := by
  unfold Amg.build
  rw [sortRows_canonical h hn]

/-- the same for `amg::rebuild` -/
theorem amg_rebuild_order_indep [Add K] [Mul K] [Zero K] [One K] (prm : Amg.Params) (pol : Amg.Policy K)
    (sm : Relax.Smoother K S) (directOk : CRS K → Bool) (levels : List (Amg.Level K S)) {A' A : CRS K}
    (h : RowPermOf A' A) (hn : A.nodupb = true) :
    Amg.rebuild prm pol sm directOk levels A' = Amg.rebuild prm pol sm directOk levels A := by
  unfold Amg.rebuild
  rw [sortRows_canonical h hn, h.1, h.2.1]

/-- **`relaxation::as_preconditioner`** built from a user matrix (the constructor that copies; it sorts the copy since
c7ed7ac): the preconditioner — stored system matrix and smoother state — does not depend on the order of the entries
inside the user's rows, for every smoother. -/
theorem as_preconditioner_order_indep (sm : Relax.Smoother K S) {A' A : CRS K} (h : RowPermOf A' A)
    (hn : A.nodupb = true) : asPrecond sm A' = asPrecond sm A :=
  sorting_ctor_order_indep (asPrecondInit sm) h hn

/-- every constructor of the shape "copy the user's matrix, `sort_rows` the copy, initialise from the copy" is
order-independent: this is the shape of `amg`, `relaxation::as_preconditioner`, `make_block_solver`,
`preconditioner::cpr` and `cpr_drs` (template constructors and `partial_update`); `schur_pressure_correction` copies
without sorting but hands its sub-blocks to such constructors, see `schur_subblocks_order_indep`. -/
theorem sorting_ctor_order_indep {α : Type} (init : CRS K → α) {A' A : CRS K} (h : RowPermOf A' A)
    (hn : A.nodupb = true) : init (sortRows (crsCopy A')) = init (sortRows (crsCopy A)) :=
  Adapters.sorting_ctor_order_indep init h hn

/-- **constructors that do not sort** (`std::shared_ptr<build_matrix>` overloads of `amg`, `as_preconditioner`, `cpr`,
`schur_pressure_correction`, `make_solver`: the user's storage is shared and must not be reordered): what holds is
(1) on row-sorted input they coincide with the sorting constructor, and (2) two row-sorted inputs that are row
permutations of each other are the same stored matrix — i.e. order independence holds exactly under the visible
hypothesis that the input is sorted. -/
theorem shared_ctor_needs_sorted_input (sm : Relax.Smoother K S) {A' A : CRS K} (h : RowPermOf A' A)
    (hs' : A'.sortedb = true) (hs : A.sortedb = true) :
    asPrecondShared sm A = asPrecond sm A ∧ A' = A ∧ asPrecondShared sm A' = asPrecondShared sm A := by
  have e : A' = A := eq_of_sorted_rowPerm h hs' hs
  refine ⟨?_, e, by rw [e]⟩
  unfold asPrecondShared asPrecond
  rw [crsCopy_eq, sortRows_of_sorted A hs]

/-- applying the (possibly failed) preconditioner; `none` = the constructor threw -/
def applyOf [DecidableEq K] (sm : Relax.Smoother K S) (o : Relax.SetupOutcome (AsPrecond K S)) (rhs : Vec K) :
    Option (Vec K) :=
  match o with
  | .ok p => some (p.apply sm rhs)
  | _ => none

/-- **the sorted-input hypothesis is necessary** (DESIGN.md §4 #6, the defect repaired by c7ed7ac): with the
constructor as it was (`asPrecondUnsorted`: copy, no `sort_rows`) ILU(0) built from the 2×2 matrix
`[[18, −16], [−16, 16]]` whose second row is listed as `(1,16), (0,−16)` is a different operator than the one built from
the sorted matrix: the elimination loop leaves row 1 at its first entry (`c ≥ i`) and never eliminates `−16`. -/
theorem unsorted_ctor_counterexample :
    ∃ (A' A : CRS Rat) (rhs : Vec Rat), RowPermOf A' A ∧ A.nodupb = true ∧ A.WF ∧
      applyOf (Relax.ilu0 1) (asPrecondUnsorted (Relax.ilu0 1) A') rhs
        ≠ applyOf (Relax.ilu0 1) (asPrecondUnsorted (Relax.ilu0 1) A) rhs ∧
      applyOf (Relax.ilu0 1) (asPrecond (Relax.ilu0 1) A') rhs
        = applyOf (Relax.ilu0 1) (asPrecond (Relax.ilu0 1) A) rhs := by
  refine ⟨⟨2, #[[(0, 18), (1, -16)], [(1, 16), (0, -16)]]⟩, ⟨2, #[[(0, 18), (1, -16)], [(0, -16), (1, 16)]]⟩,
    #[1, 0], ⟨rfl, rfl, ?_⟩, by decide, by decide, by decide +kernel, by decide +kernel⟩
  intro i
  match i with
  | 0 => exact List.Perm.refl _
  | 1 => exact List.Perm.swap _ _ _
  | (k + 2) => exact List.Perm.refl _

end order

-- non-vacuity --------------------------------------------------------------------------------------------------
-- a matrix with unsorted rows, a duplicate column and an empty row through the tuple adapter with base offset 2
example : (crsTuple 3 (tuplePtr (⟨3, #[[(2, (5 : Int)), (0, 1), (2, -1)], [], [(1, 7)]]⟩ : CRS Int) 2)
    (tupleCol ⟨3, #[[(2, (5 : Int)), (0, 1), (2, -1)], [], [(1, 7)]]⟩ [9, 9])
    (tupleVal ⟨3, #[[(2, (5 : Int)), (0, 1), (2, -1)], [], [(1, 7)]]⟩ [0, 0])).rows
    = #[[(2, 5), (0, 1), (2, -1)], [], [(1, 7)]] ∧
    tuplePtr (⟨3, #[[(2, (5 : Int)), (0, 1), (2, -1)], [], [(1, 7)]]⟩ : CRS Int) 2 = #[2, 5, 5, 6] := by
  decide +kernel
-- a genuine permutation and a solve through it
example : IsPerm #[2, 0, 1] := by unfold IsPerm; decide
example : mkIperm #[2, 0, 1] = #[1, 2, 0] ∧
    (reorderedMatrix (⟨3, #[[(0, (2 : Int)), (1, 1)], [(1, 3)], [(0, 1), (2, 4)]]⟩ : CRS Int) #[2, 0, 1]
      (mkIperm #[2, 0, 1])).rows = #[[(1, 1), (0, 4)], [(1, 2), (2, 1)], [(2, 3)]] := by decide +kernel
-- row permutation of a matrix with distinct columns
example : RowPermOf (⟨2, #[[(1, (3 : Int)), (0, 2)], [(1, 4)]]⟩ : CRS Int) ⟨2, #[[(0, 2), (1, 3)], [(1, 4)]]⟩ ∧
    (⟨2, #[[(0, (2 : Int)), (1, 3)], [(1, 4)]]⟩ : CRS Int).nodupb = true := by
  refine ⟨⟨rfl, rfl, ?_⟩, by decide⟩
  intro i
  match i with
  | 0 => exact List.Perm.swap _ _ _
  | 1 => exact List.Perm.refl _
  | (k + 2) => exact List.Perm.refl _

end Amgcl.C17
