import Amgcl.Proofs.DefinedIlu
import Amgcl.Proofs.DefinedKernels
import Amgcl.Proofs.DefinedSA
import Amgcl.Proofs.SkylineBuild
import Amgcl.Proofs.SkylineFactor
import Amgcl.Proofs.SkylineSolve
import Amgcl.Proofs.KernelsSort
import Mathlib.Algebra.Order.Field.Rat
/-!
# C10 (continued) — definedness of the arrays the setup code allocates without initialising them, for all inputs

Semantics (`Model/DefinedCells.lean`): a heap cell carries its value and a flag `written`; a fresh uninitialised
allocation `alloc junk` holds the prior heap content `junk` with every flag `false`; a load of an unwritten cell is
recorded (`ok = false`, resp. outcome `uninit`).  Each `*_defined` theorem states, for EVERY prior heap content:
no load hits an unwritten cell, every cell of the result is written, and the result is the flat image of the row-level
model that the correspondence check validates against the real code — hence the same for any two prior heaps.

* `ilu0_defined`, `ilu0_defined_precondition`, `ilu0_defined_of_diag`, `ilu0_no_reset_counterexample` — `ilu0::ilu0`: the pointer table `work`
  is a loop-carried variable (step 4 of row `i` resets exactly what step 1 set, so every row starts from the all-NULL
  table: no stale pointer is ever followed), `D = numa_vector(n, false)` is loaded only where written; without
  step 4 the factors change on a 4×4 matrix.
* `two_pass_defined`, `clone_defined` — the generic constructions `set_size` → width pass → `scan_row_sizes` (in
  place, loading the cells) → `set_nonzeros(ptr[n])` → fill from the loaded `ptr[i]`, and the copying one.
  Instances: `tentative_prolongation_defined` (aggregates with id < 0 give empty rows), `crs_copy_defined`,
  `crs_clone_defined`.
* `sort_rows_defined` — in place, no allocation: same `ptr`, every row segment permuted within itself.
* `fill_vec_defined` — the loop `for i < n: a[i] = f i` on a fresh allocation (the `numa_vector` constructors);
  `spai0_defined` — `M = numa_vector(n, false)`, written for every `i`.
* `sa_fill_marker_indep`, `sa_fill_rows_history_indep`, `sa_count_marker_indep`, `sa_marker_uninit_counterexample` —
  `smoothed_aggregation::transfer_operators`: the rows do not depend on what earlier rows (of the same thread) left in
  the marker array, nor on the thread-local start `-1`; a marker entry above the row's first position (what an
  uninitialised marker may hold) does change the row.
* `skyline_defined` — `skyline_lu`: constructor + `operator()` give the same output and the same new scratch for any
  two prior contents of the `mutable` scratch vector `y`, for every matrix and ordering array.
-/
namespace Amgcl.C10c
open Amgcl Amgcl.Defined Amgcl.Relax

/-! ## ILU(0) -/
section ilu0
variable {K : Type} [Add K] [Mul K] [Sub K] [Zero K] [One K] [Div K] [DecidableEq K]

/-- **`ilu0::ilu0`, every input the row-level model accepts, every prior heap content**: the constructor with the
threaded `work` table and the uninitialised `D` loads no unwritten cell and follows no NULL/stale pointer (`.ok`), every
cell of `D` is written, `work` is all-NULL again, the factors are those of `Relax.ilu0Factor`, and the outcome is the
same for two different prior heaps. -/
theorem ilu0_defined (A : CRS K) (F : IluFactors K) (h : ilu0Factor A = .ok F) (junk junk' : Array K)
    (hj : junk.size = A.nrows) (hj' : junk'.size = A.nrows) :
    ∃ S, ilu0Cells true A junk = .ok S ∧ allWritten S.D = true ∧ S.work = Array.replicate A.nrows none ∧
      S.factors A.nrows = F ∧ ilu0Cells true A junk' = .ok S := by
  refine ⟨_, ilu0Cells_ok A junk hj F h, allWritten_written _, rfl, ?_, ilu0Cells_ok A junk' hj' F h⟩
  unfold IluState.factors
  simp only [erase_written]
  have hL : F.L.ncols = A.nrows ∧ F.U.ncols = A.nrows := by
    unfold ilu0Factor at h
    have key : ∀ (is : List Nat) (G F : IluFactors K), iluLoop A is G = .ok F →
        F.L.ncols = G.L.ncols ∧ F.U.ncols = G.U.ncols := by
      intro is
      induction is with
      | nil => intro G F h; simp [iluLoop] at h; subst h; exact ⟨rfl, rfl⟩
      | cons i rest ih =>
        intro G F h
        unfold iluLoop at h
        cases hr : iluRow A.nrows G.U.rows G.D i (A.row i) with
        | precondition => rw [hr] at h; exact absurd h (by simp)
        | undefinedInput => rw [hr] at h; exact absurd h (by simp)
        | ok ldu => obtain ⟨l, d, u⟩ := ldu; rw [hr] at h; simp only at h; have t := ih _ F h; exact t
    exact key _ _ _ h
  cases F with
  | mk L U D => cases L; cases U; simp only at hL; simp [hL.1, hL.2]

/-- a `precondition` failure of the row-level model ("No diagonal value" / "Zero pivot") is reached by the cell-level
constructor as well — before any unwritten cell is loaded -/
theorem ilu0_defined_precondition (A : CRS K) (h : ilu0Factor A = .precondition) (junk : Array K)
    (hj : junk.size = A.nrows) : ilu0Cells true A junk = .precondition :=
  ilu0Cells_precondition A junk hj h

/-- **`ilu0::ilu0` on every square matrix with in-range columns that stores the diagonal entry of each row** (sorted
or not, duplicates allowed), for any two prior heap contents: the constructor never loads an unwritten cell and never
follows a NULL or stale pointer — it either throws `precondition` (zero pivot / an entry right of the diagonal met
first), identically for both heaps, or succeeds with the same completely written `D`, the same factors and `work`
all-NULL -/
theorem ilu0_defined_of_diag (A : CRS K) (hcols : ∀ i, i < A.nrows → ∀ cv ∈ A.row i, cv.1 < A.nrows)
    (hdiag : ∀ i, i < A.nrows → i ∈ (A.row i).map (·.1)) (junk junk' : Array K)
    (hj : junk.size = A.nrows) (hj' : junk'.size = A.nrows) :
    (ilu0Cells true A junk = .precondition ∧ ilu0Cells true A junk' = .precondition) ∨
    (∃ S, ilu0Cells true A junk = .ok S ∧ allWritten S.D = true ∧ S.work = Array.replicate A.nrows none ∧
      ilu0Cells true A junk' = .ok S) := by
  cases h : ilu0Factor A with
  | ok F =>
    right
    obtain ⟨S, h1, h2, h3, _, h5⟩ := ilu0_defined A F h junk junk' hj hj'
    exact ⟨S, h1, h2, h3, h5⟩
  | precondition =>
    left
    exact ⟨ilu0_defined_precondition A h junk hj, ilu0_defined_precondition A h junk' hj'⟩
  | undefinedInput => exact absurd h (ilu0Factor_defined A hcols hdiag)

end ilu0

/-- a 4×4 matrix whose row 0 stores column 3 and whose row 1 does not -/
def exIlu : CRS Rat := ⟨4, #[[(0, 2), (3, 1)], [(0, 1), (1, 2), (2, 1)], [(1, 1), (2, 2)], [(0, 1), (3, 2)]]⟩

/-- non-vacuity of `ilu0_defined`: the row-level model accepts `exIlu` -/
example : ∃ S, ilu0Cells true exIlu #[7, 7, 7, 7] = .ok S ∧ allWritten S.D = true ∧
    S.work = Array.replicate 4 none ∧ ilu0Cells true exIlu #[0, 1, 2, 3] = .ok S := by
  have h : ∃ F, ilu0Factor exIlu = .ok F := by
    have hb : (match ilu0Factor exIlu with | .ok _ => true | _ => false) = true := by decide +kernel
    cases hF : ilu0Factor exIlu with
    | ok F => exact ⟨F, rfl⟩
    | precondition => rw [hF] at hb; exact absurd hb (by simp)
    | undefinedInput => rw [hF] at hb; exact absurd hb (by simp)
  obtain ⟨F, hF⟩ := h
  obtain ⟨S, h1, h2, h3, _, h5⟩ := ilu0_defined exIlu F hF #[7, 7, 7, 7] #[0, 1, 2, 3] rfl rfl
  exact ⟨S, h1, h2, h3, h5⟩

/-- non-vacuity of `ilu0_defined_of_diag`: `exIlu` is square, in range, and stores every diagonal entry -/
example := ilu0_defined_of_diag exIlu (by decide) (by decide) #[7, 7, 7, 7] #[0, 1, 2, 3] rfl rfl

/-- inverted pivot of row `i` computed by the cell-level constructor (`0` if it fails) -/
def pivotOf (reset : Bool) (A : CRS Rat) (junk : Array Rat) (i : Nat) : Rat :=
  match ilu0Cells reset A junk with
  | .ok S => (erase S.D).getD i 0
  | _ => 0

/-- **without step 4** (`work[A.col[j]] = NULL` after each row) the pointer stored for column 3 by row 0 is still in
the table when row 1 eliminates column 0, and the update of `U(0,3)` lands in a slot of row 1: the pivot of row 1 is
`1/(2 - 1/2) = 2/3` instead of `1/2` -/
theorem ilu0_no_reset_counterexample :
    pivotOf true exIlu #[0, 0, 0, 0] 1 = 1 / 2 ∧ pivotOf false exIlu #[0, 0, 0, 0] 1 = 2 / 3 := by
  decide +kernel

/-! ## generic constructions and their instances -/
section kernels
variable {K : Type}

/-- **two-pass construction** (`set_size(n, m)`; `ptr[0] = 0; ptr[i+1] = width i`; `scan_row_sizes()`;
`set_nonzeros(ptr[n])`; row `i` written from the loaded `ptr[i]`): for every prior content of the three allocations, no
load hits an unwritten cell, all `n+1 + 2·nnz` cells are written, and the arrays are the flat image of the rows -/
theorem two_pass_defined (rows : Array (Row K)) (jp jp' : Array Nat) (jc jc' : Nat → Array Nat) (jv jv' : Nat → Array K)
    (hp : jp.size = rows.size + 1) (hc : ∀ k, (jc k).size = k) (hv : ∀ k, (jv k).size = k)
    (hp' : jp'.size = rows.size + 1) (hc' : ∀ k, (jc' k).size = k) (hv' : ∀ k, (jv' k).size = k) :
    (twoPass rows jp jc jv).ok = true ∧ allWritten (twoPass rows jp jc jv).ptr = true ∧
      allWritten (twoPass rows jp jc jv).col = true ∧ allWritten (twoPass rows jp jc jv).val = true ∧
      twoPass rows jp jc jv = CrsCells.ofRows rows ∧ twoPass rows jp jc jv = twoPass rows jp' jc' jv' := by
  rw [twoPass_spec rows jp jc jv hp hc hv, twoPass_spec rows jp' jc' jv' hp' hc' hv']
  obtain ⟨a, b, c, d⟩ := ofRows_allWritten rows
  exact ⟨d, a, b, c, rfl, rfl⟩

/-- **copying construction** (copy constructor, `operator=`, range constructor) from a well-formed source -/
theorem clone_defined (rows : Array (Row K)) (jp jc jp' jc' : Array Nat) (jv jv' : Array K)
    (hp : jp.size = rows.size + 1) (hc : jc.size = (flatRows rows).length) (hv : jv.size = (flatRows rows).length)
    (hp' : jp'.size = rows.size + 1) (hc' : jc'.size = (flatRows rows).length) (hv' : jv'.size = (flatRows rows).length) :
    (cloneCells rows (ptrList rows).toArray jp jc jv).ok = true ∧
      cloneCells rows (ptrList rows).toArray jp jc jv = CrsCells.ofRows rows ∧
      cloneCells rows (ptrList rows).toArray jp jc jv = cloneCells rows (ptrList rows).toArray jp' jc' jv' := by
  rw [cloneCells_spec rows jp jc jv hp hc hv, cloneCells_spec rows jp' jc' jv' hp' hc' hv']
  exact ⟨rfl, rfl, rfl⟩

/-- `tentative_prolongation`, branch without null-space vectors: for every aggregate array (ids `< 0` give empty
rows, ids `≥ 0` one entry `(id, 1)`) and every prior heap content -/
theorem tentative_prolongation_defined [One K] (n naggr : Nat) (id : Array Int) (jp jp' : Array Nat)
    (jc jc' : Nat → Array Nat) (jv jv' : Nat → Array K)
    (hp : jp.size = n + 1) (hc : ∀ k, (jc k).size = k) (hv : ∀ k, (jv k).size = k)
    (hp' : jp'.size = n + 1) (hc' : ∀ k, (jc' k).size = k) (hv' : ∀ k, (jv' k).size = k) :
    (tentativeCells n naggr id jp jc jv).ok = true ∧
      tentativeCells n naggr id jp jc jv = CrsCells.ofRows (tentativeProlongation (K := K) n naggr id).rows ∧
      tentativeCells n naggr id jp jc jv = tentativeCells n naggr id jp' jc' jv' := by
  have hn : (tentativeProlongation (K := K) n naggr id).rows.size = n := by simp [tentativeProlongation]
  unfold tentativeCells
  obtain ⟨a, _, _, _, e, f⟩ := two_pass_defined (tentativeProlongation (K := K) n naggr id).rows jp jp' jc jc' jv jv'
    (by rw [hn]; exact hp) hc hv (by rw [hn]; exact hp') hc' hv'
  exact ⟨a, e, f⟩

/-- `crs(const Matrix &A)` (convert / copy through the row iterator) -/
theorem crs_copy_defined (A : CRS K) (jp jp' : Array Nat) (jc jc' : Nat → Array Nat) (jv jv' : Nat → Array K)
    (hp : jp.size = A.nrows + 1) (hc : ∀ k, (jc k).size = k) (hv : ∀ k, (jv k).size = k)
    (hp' : jp'.size = A.nrows + 1) (hc' : ∀ k, (jc' k).size = k) (hv' : ∀ k, (jv' k).size = k) :
    (crsCopyCells A jp jc jv).ok = true ∧ crsCopyCells A jp jc jv = CrsCells.ofRows (crsCopy A).rows ∧
      crsCopyCells A jp jc jv = crsCopyCells A jp' jc' jv' := by
  have hn : (crsCopy A).rows.size = A.nrows := by simp [crsCopy]
  unfold crsCopyCells
  obtain ⟨a, _, _, _, e, f⟩ := two_pass_defined (crsCopy A).rows jp jp' jc jc' jv jv'
    (by rw [hn]; exact hp) hc hv (by rw [hn]; exact hp') hc' hv'
  exact ⟨a, e, f⟩

end kernels

/-- **`backend::sort_rows`** works in place and allocates nothing: the pointer array is unchanged and every row segment
holds a permutation of the cells it held before — a matrix all of whose cells were written stays so, and no cell
outside the row's own segment is read or written -/
theorem sort_rows_defined {K : Type} (A : CRS K) :
    ptrList (sortRows A).rows = ptrList A.rows ∧ (∀ i, ((sortRows A).row i).Perm (A.row i)) ∧
      (flatRows (sortRows A).rows).Perm (flatRows A.rows) := by
  have hperm : ∀ i, ((sortRows A).row i).Perm (A.row i) := by
    intro i; rw [K2.sortRows_row]; exact Amgcl.sortRow_perm _
  have hrows : (sortRows A).rows.toList = A.rows.toList.map sortRow := by simp [sortRows]
  refine ⟨?_, hperm, ?_⟩
  · unfold ptrList flatUpTo
    have hsz : (sortRows A).rows.size = A.rows.size := by simp [sortRows]
    rw [hsz]
    apply List.map_congr_left
    intro i _
    rw [hrows, ← List.map_take, List.length_flatten, List.length_flatten, List.map_map]
    congr 1
    apply List.map_congr_left
    intro r _
    exact (Amgcl.sortRow_perm r).length_eq
  · unfold flatRows
    rw [hrows]
    generalize A.rows.toList = L
    induction L with
    | nil => simp
    | cons r t ih => simp only [List.map_cons, List.flatten_cons]; exact (Amgcl.sortRow_perm r).append ih

example : ptrList (sortRows (⟨3, #[[(2, 'a'), (0, 'b')], [], [(1, 'c')]]⟩ : CRS Char)).rows = [0, 2, 2, 3] := by
  rw [(sort_rows_defined _).1]; decide

/-- non-vacuity: aggregates `[0, -1, 1, 0]` (row 1 removed) -/
example : (tentativeCells (K := Rat) 4 2 #[0, -1, 1, 0] #[9, 9, 9, 9, 9] (fun k => Array.replicate k 5)
    (fun k => Array.replicate k 7)).ok = true :=
  (tentative_prolongation_defined 4 2 #[0, -1, 1, 0] #[9, 9, 9, 9, 9] #[9, 9, 9, 9, 9] (fun k => Array.replicate k 5)
    (fun k => Array.replicate k 5) (fun k => Array.replicate k 7) (fun k => Array.replicate k 7)
    rfl (fun k => by simp) (fun k => by simp) rfl (fun k => by simp) (fun k => by simp)).1

example : erase (tentativeCells (K := Rat) 4 2 #[0, -1, 1, 0] #[9, 9, 9, 9, 9] (fun k => Array.replicate k 5)
    (fun k => Array.replicate k 7)).ptr = #[0, 1, 1, 2, 3] := by decide +kernel

/-- **`for i < n: a[i] = f i` on a fresh uninitialised allocation** (`numa_vector(n)` with `init = true`,
`numa_vector::resize(n)`, the copying constructors `numa_vector(const Vector&)`, `numa_vector(begin, end)`, and every
`numa_vector(n, false)` that is then filled index by index): all cells written, values `f i`, whatever the heap held -/
theorem fill_vec_defined {α : Type} (n : Nat) (f : Nat → α) (junk junk' : Array α) (hj : junk.size = n)
    (hj' : junk'.size = n) :
    allWritten (fillVec n f (alloc junk)) = true ∧
      erase (fillVec n f (alloc junk)) = Array.ofFn (n := n) (fun i => f i.val) ∧
      fillVec n f (alloc junk) = fillVec n f (alloc junk') := by
  rw [fillVec_alloc n f junk hj, fillVec_alloc n f junk' hj']
  exact ⟨allWritten_written _, erase_written _, rfl⟩

example : erase (fillVec 3 (fun i => (2 * i : Nat)) (alloc #[7, 7, 7])) = #[0, 2, 4] :=
  (fill_vec_defined 3 _ #[7, 7, 7] #[1, 2, 3] rfl rfl).2.1

section spai0
variable {K : Type} [Add K] [Mul K] [Zero K] [One K] [Div K] [DecidableEq K]

/-- `spai0::spai0`: `m = numa_vector(n, false)` is written at every index; the cells are the model's `spai0Diag` for
every prior heap content -/
theorem spai0_defined (norm : K → K) (A : CRS K) (junk junk' : Array K) (hj : junk.size = A.nrows)
    (hj' : junk'.size = A.nrows) :
    allWritten (spai0Cells norm A junk) = true ∧ erase (spai0Cells norm A junk) = spai0Diag norm A ∧
      spai0Cells norm A junk = spai0Cells norm A junk' := by
  have hsz : (spai0Diag norm A).size = A.nrows := by simp [spai0Diag]
  have h : ∀ j : Array K, j.size = A.nrows → spai0Cells norm A j = written (spai0Diag norm A) := by
    intro j hjs
    unfold spai0Cells
    rw [fillVec_alloc _ _ _ hjs]
    congr 1
    apply Array.ext
    · simp [hsz]
    · intro i h1 h2
      simp only [Array.getElem_ofFn, Array.getD_eq_getD_getElem?]
      rw [Array.getElem?_eq_getElem h2]; rfl
  rw [h junk hj, h junk' hj']
  exact ⟨allWritten_written _, erase_written _, rfl⟩

end spai0

example : allWritten (spai0Cells (fun x : Rat => if x < 0 then -x else x) exIlu #[3, 1, 4, 1]) = true :=
  (spai0_defined _ exIlu #[3, 1, 4, 1] #[0, 0, 0, 0] rfl rfl).1

/-! ## smoothed aggregation: the marker array -/
section sa
open Coarsening
variable {K : Type} [Add K] [Mul K] [Sub K] [Neg K] [Div K] [Zero K] [One K] [DecidableEq K]

/-- **fill loop, history**: the rows `is` computed from position `beg` on are the same for any two marker arrays all
of whose entries are below `beg` — e.g. the fresh `-1` array and the array left behind by any earlier rows (whose
entries are positions `< beg`, or `-1`) -/
theorem sa_fill_rows_history_indep (omega : K) (A : CRS K) (S : Array (List Bool)) (Pt : CRS K) (is : List Nat)
    (m m' : Array Int) (beg : Nat) (hs : m.size = m'.size)
    (hm : ∀ c (hc : c < m.size), m[c] < (beg : Int)) (hm' : ∀ c (hc : c < m'.size), m'[c] < (beg : Int)) :
    (smoothRowsFrom omega A S Pt is m beg).2 = (smoothRowsFrom omega A S Pt is m' beg).2 :=
  (smoothRowsFrom_eqv omega A S Pt is m m' beg (MEqv.of_below _ m m' hs hm hm')).2

/-- **fill loop, start value**: `P` does not depend on the initial marker as long as its entries are negative; in
particular it is `smoothProlongation` (the model the correspondence validates) -/
theorem sa_fill_marker_indep (omega : K) (A : CRS K) (S : Array (List Bool)) (Pt : CRS K) (m0 : Array Int)
    (hs : m0.size = Pt.ncols) (hm : ∀ c (hc : c < m0.size), m0[c] < 0) :
    smoothProlongationFrom omega A S Pt m0 = smoothProlongation omega A S Pt := by
  have e : smoothProlongation omega A S Pt = smoothProlongationFrom omega A S Pt (Array.replicate Pt.ncols (-1)) := rfl
  have := sa_fill_rows_history_indep omega A S Pt (List.range A.nrows) m0 (Array.replicate Pt.ncols (-1)) 0
    (by simp [hs]) (by simpa using hm) (by intro c hc; simp)
  rw [e]
  unfold smoothProlongationFrom
  rw [this]

/-- **counting loop**: the row widths stored into `P->ptr` over an increasing row sequence do not depend on marker
entries below the first row index -/
theorem sa_count_marker_indep (A : CRS K) (S : Array (List Bool)) (Pt : CRS K) (is : List Nat)
    (hinc : is.Pairwise (· < ·)) (b : Nat) (hb : ∀ i ∈ is, b ≤ i) (m m' : Array Int) (hs : m.size = m'.size)
    (hm : ∀ c (hc : c < m.size), m[c] < (b : Int)) (hm' : ∀ c (hc : c < m'.size), m'[c] < (b : Int)) :
    (saCountsFrom A S Pt is m).2 = (saCountsFrom A S Pt is m').2 :=
  saCountsFrom_eqv A S Pt is hinc b hb m m' (MEqv.of_below _ m m' hs hm hm')

end sa

/-- 2×2 example: both rows strongly connected, `P_tent` the 2×1 column of ones -/
def exSA_A : CRS Rat := ⟨2, #[[(0, 2), (1, -1)], [(0, -1), (1, 2)]]⟩
def exSA_Pt : CRS Rat := ⟨1, #[[(0, 1)], [(0, 1)]]⟩
def exSA_S : Array (List Bool) := #[[false, true], [true, false]]

/-- non-vacuity of `sa_fill_marker_indep`: marker `[-7]` instead of `[-1]` -/
example : Coarsening.smoothProlongationFrom (2 / 3 : Rat) exSA_A exSA_S exSA_Pt #[-7]
    = Coarsening.smoothProlongation (2 / 3) exSA_A exSA_S exSA_Pt :=
  sa_fill_marker_indep _ _ _ _ _ rfl (by decide)

example : (Coarsening.saCountsFrom exSA_A exSA_S exSA_Pt [0, 1] #[-1]).2
    = (Coarsening.saCountsFrom exSA_A exSA_S exSA_Pt [0, 1] #[-5]).2 :=
  sa_count_marker_indep exSA_A exSA_S exSA_Pt [0, 1] (by decide) 0 (by decide) _ _ rfl (by decide) (by decide)

/-- **an uninitialised marker is observable**: with the entry `5 ≥ row_beg = 0` the first contribution of row 0 is
taken for an already present column (`else` branch: `val[marker[cp]] += …` on a position that does not exist), and the
row comes out empty instead of `[(0, 2/3)]` -/
theorem sa_marker_uninit_counterexample :
    (Coarsening.smoothProlongationFrom (2 / 3 : Rat) exSA_A exSA_S exSA_Pt #[-1]).row 0 = [(0, 2 / 3)] ∧
    (Coarsening.smoothProlongationFrom (2 / 3 : Rat) exSA_A exSA_S exSA_Pt #[5]).row 0 = [] := by
  decide +kernel

/-! ## skyline LU -/
section skyline
open Skyline
variable {V R : Type} [Zero V] [Zero R] [Mul V] [Sub V] [Sub R] [HMul V R R]

/-- **`skyline_lu`: constructor + `operator()` for any two prior contents of the scratch vector `y`** (any matrix,
any ordering array, any carrier — no algebraic law is used): same outcome, same output vector, same new scratch.
`ptr`, `L`, `U`, `D` are value-initialised `std::vector`s (no uninitialised allocation); their profile is well formed
for every input (`skyline_build_profile`), which is what makes every `y[j]` read by row `i` one that rows `< i` wrote. -/
theorem skyline_defined (isZero : V → Bool) (inv : V → V) (A : CRS V) (perm : Array Nat) (y0 y0' rhs x : Array R)
    (hy : y0.size = A.nrows) (hy' : y0'.size = A.nrows) :
    constructAndSolve isZero inv A perm (some y0) rhs x = constructAndSolve isZero inv A perm (some y0') rhs x := by
  unfold constructAndSolve
  cases hf : factorize isZero inv (build (R := R) isZero A perm) with
  | precondition => rfl
  | ok S =>
    have hfr := sameFrame_factorize hf
    have hwf : S.WFProfile := wfProfile_of_sameFrame hfr (build_profile isZero A perm)
    have hn : S.n = A.nrows := hfr.1
    have := solve_indep_scratch S rhs x y0 y0' hwf (by rw [hn]; exact hy) (by rw [hn]; exact hy')
    simp only
    rw [this]

end skyline

/-- non-vacuity: `[[3,1],[1,2]]`, scratch `[5,7]` vs `[0,0]` -/
example : Skyline.constructAndSolve (fun v : Rat => decide (v = 0)) (fun v => 1 / v)
      ⟨2, #[[(1, 1), (0, 3)], [(0, 1), (1, 2)]]⟩ #[0, 1] (some #[5, 7]) (#[1, 2] : Array Rat) #[9, 9]
    = Skyline.constructAndSolve (fun v : Rat => decide (v = 0)) (fun v => 1 / v)
      ⟨2, #[[(1, 1), (0, 3)], [(0, 1), (1, 2)]]⟩ #[0, 1] (some #[0, 0]) #[1, 2] #[9, 9] :=
  skyline_defined _ _ _ _ _ _ _ _ rfl rfl

end Amgcl.C10c
