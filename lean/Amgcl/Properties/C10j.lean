import Amgcl.Model.CPR
import Amgcl.Proofs.DefinedPasses
/-!
# C10 (continued, package alloc2) — `App` of the scalar `cpr::first_scalar_pass` + `cpr::init` (and `cpr_drs`)

`App->set_size(np, np, true)`; the `while (!done)` loop of `first_scalar_pass` increments `App->ptr[ip+1]` once per
visited block column (`CPR.passLoop`, field `cnt`); `App->set_nonzeros(App->scan_row_sizes())`; the `while (!done)` loop
of `init` stores one entry per visited block column from `head = App->ptr[ip]` (`CPR.appLoop`).  Both models are the
ones of C18 (`Model/CPR.lean`, validated against the real code by `h_composite`).  `pass_cnt_eq_app_length`: unless the
`assert` of `invert` fires (zero pivot), the two loops visit the same block columns, so the count equals the number of
entries stored; `cpr_App_scalar_defined` is then the two-pass-with-increments theorem.
-/
namespace Amgcl.C10j
open Amgcl Amgcl.Defined Amgcl.CPR

section
variable {K : Type} [Add K] [Sub K] [Mul K] [Div K] [Zero K] [One K] [DecidableEq K]

theorem passLoop_cnt (B N ip : Nat) (d : Array K) (fuel : Nat) (s : PassState K) (acc : Row K)
    (hs : s.zeroPivot = false) (hz : (passLoop B N ip true fuel s).zeroPivot = false) :
    (passLoop B N ip true fuel s).cnt + acc.length = s.cnt + (appLoop B N d fuel s.ks acc).length := by
  induction fuel generalizing s acc with
  | zero => simp [passLoop, appLoop]
  | succ fuel ih =>
    unfold passLoop appLoop
    unfold passLoop at hz
    cases hc : curCol B N s.ks with
    | none => simp only [hc]
    | some cur =>
      simp only [hc, if_true] at hz ⊢
      by_cases hip : cur = ip
      · simp only [hip, if_true] at hz ⊢
        cases hinv : invert B (diagCapture B ((ip + 1) * B) s.ks) with
        | none => simp only [hinv] at hz; exact absurd hz (by simp)
        | some y =>
          simp only [hinv] at hz ⊢
          have := ih { ks := advance ((ip + 1) * B) s.ks, cnt := s.cnt + 1, w := some y, zeroPivot := false }
            (acc ++ [(ip, (s.ks.zipIdx.foldl (fun (a : K) ki =>
              (ki.1.takeWhile (fun cv => decide (cv.1 < (ip + 1) * B))).foldl (fun (a : K) cv =>
                if cv.1 % B = 0 then a + d.getD ki.2 0 * cv.2 else a) a) 0))]) rfl hz
          simp only [List.length_append, List.length_cons, List.length_nil] at this
          omega
      · simp only [hip, if_false] at hz ⊢
        have := ih { s with ks := advance ((cur + 1) * B) s.ks, cnt := s.cnt + 1 }
          (acc ++ [(cur, (s.ks.zipIdx.foldl (fun (a : K) ki =>
            (ki.1.takeWhile (fun cv => decide (cv.1 < (cur + 1) * B))).foldl (fun (a : K) cv =>
              if cv.1 % B = 0 then a + d.getD ki.2 0 * cv.2 else a) a) 0))]) hs hz
        simp only [List.length_append, List.length_cons, List.length_nil] at this
        omega

/-- the counting loop of `first_scalar_pass` and the filling loop of `init` agree on every block row whose diagonal
block (if present) has non-zero pivots -/
theorem pass_cnt_eq_app_length (A : CRS K) (B N ip : Nat) (d : Array K)
    (hz : (passRow A B N ip true).zeroPivot = false) :
    (passRow A B N ip true).cnt = (appRow A B N ip d).length := by
  unfold passRow appRow at *
  have := passLoop_cnt B N ip d (remaining (blockRows A B ip) + 1)
    { ks := blockRows A B ip, cnt := 0, w := none, zeroPivot := false } [] rfl hz
  simpa using this

/-- `App` of the scalar path at cell level -/
def cprAppScalarCells (A : CRS K) (B N np : Nat) (d : Nat → Array K) (jp : Array Nat) (jc : Nat → Array Nat)
    (jv : Nat → Array K) : CrsCells K :=
  twoPassInc (Array.ofFn (n := np) fun ip => appRow A B N ip.val (d ip.val)) (fun ip => (passRow A B N ip true).cnt)
    jp jc jv

/-- **`App` of `cpr::first_scalar_pass` / `init` (scalar input)** for every matrix, block size and active-row bound on
which no `assert` of `invert` fires, any two prior heap contents -/
theorem cpr_App_scalar_defined (A : CRS K) (B N np : Nat) (d : Nat → Array K)
    (hz : ∀ ip, ip < np → (passRow A B N ip true).zeroPivot = false) (jp jp' : Array Nat) (jc jc' : Nat → Array Nat)
    (jv jv' : Nat → Array K)
    (hp : jp.size = np + 1) (hc : ∀ k, (jc k).size = k) (hv : ∀ k, (jv k).size = k)
    (hp' : jp'.size = np + 1) (hc' : ∀ k, (jc' k).size = k) (hv' : ∀ k, (jv' k).size = k) :
    (cprAppScalarCells A B N np d jp jc jv).ok = true ∧ allWritten (cprAppScalarCells A B N np d jp jc jv).ptr = true ∧
      allWritten (cprAppScalarCells A B N np d jp jc jv).col = true ∧
      allWritten (cprAppScalarCells A B N np d jp jc jv).val = true ∧
      cprAppScalarCells A B N np d jp jc jv = cprAppScalarCells A B N np d jp' jc' jv' := by
  have hn : (Array.ofFn (n := np) fun ip => appRow A B N ip.val (d ip.val)).size = np := by simp
  have hw : ∀ i, i < (Array.ofFn (n := np) fun ip => appRow A B N ip.val (d ip.val)).size →
      (passRow A B N i true).cnt = ((Array.ofFn (n := np) fun ip => appRow A B N ip.val (d ip.val)).getD i []).length := by
    intro i hi
    rw [hn] at hi
    rw [pass_cnt_eq_app_length A B N i (d i) (hz i hi)]
    simp [Array.getD_eq_getD_getElem?, hi]
  unfold cprAppScalarCells
  rw [twoPassInc_spec _ _ hw jp jc jv (by rw [hn]; exact hp) hc hv,
    twoPassInc_spec _ _ hw jp' jc' jv' (by rw [hn]; exact hp') hc' hv']
  obtain ⟨a, b, c, e⟩ := ofRows_allWritten (Array.ofFn (n := np) fun ip => appRow A B N ip.val (d ip.val))
  exact ⟨e, a, b, c, rfl⟩

/-! ### `cpr_drs`: the counting loop has no `invert` (no early exit) -/

/-- `while (!done) { ++App->ptr[ip+1]; …advance…; next column }` of `cpr_drs::first_scalar_pass` -/
def drsCountLoop (B N : Nat) : Nat → List (Row K) → Nat → Nat
  | 0, _, cnt => cnt
  | fuel + 1, ks, cnt =>
    match curCol B N ks with
    | none => cnt
    | some cur => drsCountLoop B N fuel (advance ((cur + 1) * B) ks) (cnt + 1)

theorem drsCountLoop_eq (B N : Nat) (d : Array K) (fuel : Nat) (ks : List (Row K)) (cnt : Nat) (acc : Row K) :
    drsCountLoop B N fuel ks cnt + acc.length = cnt + (appLoop B N d fuel ks acc).length := by
  induction fuel generalizing ks cnt acc with
  | zero => simp [drsCountLoop, appLoop]
  | succ fuel ih =>
    unfold drsCountLoop appLoop
    cases hc : curCol B N ks with
    | none => simp only []
    | some cur =>
      simp only []
      have := ih (advance ((cur + 1) * B) ks) (cnt + 1)
        (acc ++ [(cur, (ks.zipIdx.foldl (fun (a : K) ki =>
          (ki.1.takeWhile (fun cv => decide (cv.1 < (cur + 1) * B))).foldl (fun (a : K) cv =>
            if cv.1 % B = 0 then a + d.getD ki.2 0 * cv.2 else a) a) 0))])
      simp only [List.length_append, List.length_cons, List.length_nil] at this
      omega

def cprDrsAppScalarCells (A : CRS K) (B N np : Nat) (d : Nat → Array K) (jp : Array Nat) (jc : Nat → Array Nat)
    (jv : Nat → Array K) : CrsCells K :=
  twoPassInc (Array.ofFn (n := np) fun ip => appRow A B N ip.val (d ip.val))
    (fun ip => drsCountLoop B N (remaining (blockRows A B ip) + 1) (blockRows A B ip) 0) jp jc jv

/-- **`App` of `cpr_drs::first_scalar_pass` / `init` (scalar input)**: every matrix, block size, active-row bound -/
theorem cpr_drs_App_scalar_defined (A : CRS K) (B N np : Nat) (d : Nat → Array K) (jp jp' : Array Nat)
    (jc jc' : Nat → Array Nat) (jv jv' : Nat → Array K)
    (hp : jp.size = np + 1) (hc : ∀ k, (jc k).size = k) (hv : ∀ k, (jv k).size = k)
    (hp' : jp'.size = np + 1) (hc' : ∀ k, (jc' k).size = k) (hv' : ∀ k, (jv' k).size = k) :
    (cprDrsAppScalarCells A B N np d jp jc jv).ok = true ∧ allWritten (cprDrsAppScalarCells A B N np d jp jc jv).ptr = true ∧
      allWritten (cprDrsAppScalarCells A B N np d jp jc jv).col = true ∧
      allWritten (cprDrsAppScalarCells A B N np d jp jc jv).val = true ∧
      cprDrsAppScalarCells A B N np d jp jc jv = cprDrsAppScalarCells A B N np d jp' jc' jv' := by
  have hn : (Array.ofFn (n := np) fun ip => appRow A B N ip.val (d ip.val)).size = np := by simp
  have hw : ∀ i, i < (Array.ofFn (n := np) fun ip => appRow A B N ip.val (d ip.val)).size →
      drsCountLoop B N (remaining (blockRows A B i) + 1) (blockRows A B i) 0
        = ((Array.ofFn (n := np) fun ip => appRow A B N ip.val (d ip.val)).getD i []).length := by
    intro i hi
    rw [hn] at hi
    have := drsCountLoop_eq B N (d i) (remaining (blockRows A B i) + 1) (blockRows A B i) 0 []
    simp only [List.length_nil, Nat.add_zero, Nat.zero_add] at this
    rw [this]
    simp [Array.getD_eq_getD_getElem?, hi, appRow]
  unfold cprDrsAppScalarCells
  rw [twoPassInc_spec _ _ hw jp jc jv (by rw [hn]; exact hp) hc hv,
    twoPassInc_spec _ _ hw jp' jc' jv' (by rw [hn]; exact hp') hc' hv']
  obtain ⟨a, b, c, e⟩ := ofRows_allWritten (Array.ofFn (n := np) fun ip => appRow A B N ip.val (d ip.val))
  exact ⟨e, a, b, c, rfl⟩

end

/-- 4×4, block size 2, both diagonal blocks present and regular -/
def exC : CRS Rat := ⟨4, #[[(0, 4), (1, -1), (2, -1)], [(0, -1), (1, 4)], [(0, -1), (2, 4), (3, -1)], [(2, -1), (3, 4)]]⟩

example : (passRow exC 2 4 0 true).cnt = 2 ∧ (passRow exC 2 4 0 true).zeroPivot = false := by decide +kernel

example := cpr_App_scalar_defined exC 2 4 2 (fun _ => #[1, 0]) (by decide +kernel) #[9, 9, 9] #[0, 0, 0]
  (fun k => Array.replicate k 5) (fun k => Array.replicate k 0) (fun k => Array.replicate k 7)
  (fun k => Array.replicate k 0) rfl (fun k => by simp) (fun k => by simp) rfl (fun k => by simp) (fun k => by simp)

example := cpr_drs_App_scalar_defined exC 2 4 2 (fun _ => #[1, 0]) #[9, 9, 9] #[0, 0, 0]
  (fun k => Array.replicate k 5) (fun k => Array.replicate k 0) (fun k => Array.replicate k 7)
  (fun k => Array.replicate k 0) rfl (fun k => by simp) (fun k => by simp) rfl (fun k => by simp) (fun k => by simp)

example : erase (cprDrsAppScalarCells exC 2 4 2 (fun _ => #[1, 0]) #[9, 9, 9] (fun k => Array.replicate k 5)
    (fun k => Array.replicate k 7)).ptr = #[0, 2, 4] := by decide +kernel

end Amgcl.C10j
