import Amgcl.Proofs.QRReflector
import Amgcl.Proofs.QRThin
import Amgcl.Proofs.QRSolve
import Amgcl.Proofs.QRSolveWide
import Amgcl.Proofs.QRObject
import Amgcl.Proofs.QRLeastSquares
import Amgcl.Proofs.QRReal
import Amgcl.Proofs.C16bExamples
/-!
# C16 (part b) — Householder QR: theorems about the faithful model `Model/QR.lean` of `amgcl::detail::QR<value_type>`

The model mirrors `amgcl/detail/qr.hpp` loop by loop on the flat buffer with explicit strides (`gen_reflector` = ZLARFG,
`apply_reflector` = ZLARF, `compute` = ZGEQR2, `factorize` = ZUNG2R, `solve`) and is tied to the real template by the exact
correspondence of `harness/h_direct.cpp` (ops `direct_qr_model`, `direct_qr_solve_model`, `direct_qr_seq`).  Only property
theorems live here; helper lemmas: `Amgcl/Proofs/{QRArray,QRHouse,QRReflector,QRStep,QRCompute,QRFactor,QRThin,QRSolve,
QRSolveWide,QRObject,QRLeastSquares,QRReal,C16bExamples}.lean`.

**The square root** is a parameter `sqrt : K → K` of the model.  Every theorem holds over every linearly ordered field and
asks of `sqrt` only that it returns an *exact* root (`sqrt x · sqrt x = x`, no sign condition: the code takes `-|sqrt …|`
and flips the sign by `alpha`) of the numbers the code applies it to.  These are, precisely: in step `i < min m n` of
`compute`, unless `i` is the last row or the column `i` of the current buffer is already zero below the diagonal, the number
`Σ_{l ≥ i} B(l,i)²` where `B` is the buffer before step `i` — it equals the square of the diagonal entry `R(i,i)` the step
produces (`QRModel.ExactRoots`, defined through the model's own intermediate states `QRModel.stateAt`; it does not depend on
what the member `tau` held before the call: `QRModel.ExactRoots_indep`).  With `Real.sqrt` the hypothesis holds for every
input (`exactRoots_real`); with the rational `rsqrt` of the executable instances it holds on the exact-root family of the
harness (non-vacuity examples below).

**Storage**: all statements are for every `Layout m n rs cs size` (the cells `i·rs + j·cs` are in bounds and pairwise
distinct), which covers both storage orders (`Layout.rowMajor`, `Layout.colMajor`) and the transposed view used by the
wide branch of `solve` (`Layout.transpose`).  All statements hold for an arbitrary incoming object state `o` (members
`tau`, `f`, `q` left by earlier calls): stale content is never read.

* `qr_reflector` — the elementary reflector lemma for `gen_reflector`: `H = 1 - tau·w·wᵀ` (`w = (1, v)`) is symmetric,
  `Hᵀ·H = 1`, `H·(alpha, x) = (beta, 0, …, 0)`, `beta² = alpha² + ‖x‖²`.
* `qr_compute` — after `compute`: `A = Q_full·R` with `Q_full = H_0·…·H_{k-1}` orthogonal and `R = R(i,j)` upper trapezoidal.
* `qr_factorize` — after `factorize`: `A = Q_k·R_k`, `Q_kᵀ·Q_k = 1`, `R` upper trapezoidal, the columns `≥ k` of `Q` vanish;
  for every shape (tall, square, wide); `qr_factorize_row_major` / `qr_factorize_col_major` on a fresh object.
* `qr_solve_least_squares` — `rows ≥ cols`, linearly independent columns: `solve` returns the least-squares solution (normal
  equations and minimality of the residual; `qr_solve_least_squares_unique`: it is the only minimiser); `qr_solve_square` — square non-singular: `A·x = b`;
  `qr_solve_min_norm` — `rows < cols`, linearly independent rows: `solve` returns the minimum-norm solution (`A·x = b`,
  `x ∈ range Aᵀ`, `‖x‖² ≤ ‖y‖²` for every solution `y`); here the roots taken are those of `compute` on the transposed matrix
  (swapped strides), as in the code.
* `qr_solve_object_indep`, `qr_factorize_object_indep`, `qr_sequence_fresh` — reuse of one object: every call of a sequence
  returns what a default-constructed object returns (no hypothesis on `sqrt`, the input or — for `solve` — the layout).
-/
namespace Amgcl.C16b
open Amgcl Amgcl.QRModel Matrix

variable {K : Type} [Field K] [LinearOrder K] [IsStrictOrderedRing K]

/-! ## (1) the elementary reflector -/

/-- `gen_reflector(order, alpha = A[ai], x = A[xi + l·stride])` on pairwise distinct in-bounds cells, `sqrt` exact on
`alpha² + ‖x‖²` if the code gets as far as taking the root: with `tau` the returned value, `beta` the new content of the cell
`ai`, `w = (1, v)` (`v` the new content of the cells of `x`) the matrix `H = 1 - tau·w·wᵀ` is symmetric and orthogonal and
maps `(alpha, x)` to `(beta, 0, …, 0)`; moreover `beta² = alpha² + ‖x‖²`. -/
theorem qr_reflector (sqrt : K → K) (order : Nat) (A : Array K) (ai xi stride : Nat) (ho : 0 < order)
    (hai : ai < A.size) (hlt : ∀ l, l < order - 1 → xi + l * stride < A.size)
    (hne : ∀ l, l < order - 1 → xi + l * stride ≠ ai)
    (hinj : ∀ l l', l < order - 1 → l' < order - 1 → xi + l * stride = xi + l' * stride → l = l')
    (hsq : ¬ GenTrivial order A xi stride →
      sqrt (sqrtArg order A ai xi stride) * sqrt (sqrtArg order A ai xi stride) = sqrtArg order A ai xi stride) :
    let r := genReflector sqrt order A ai xi stride
    let x : Fin order → K := fun l => if l.val = 0 then A.getD ai 0 else A.getD (xi + (l.val - 1) * stride) 0
    let w : Fin order → K := fun l => if l.val = 0 then 1 else r.2.getD (xi + (l.val - 1) * stride) 0
    let H : Matrix (Fin order) (Fin order) K := 1 - r.1 • vecMulVec w w
    Hᵀ = H ∧ Hᵀ * H = 1 ∧ H *ᵥ x = (fun l => if l.val = 0 then r.2.getD ai 0 else 0) ∧
    r.2.getD ai 0 * r.2.getD ai 0 = x ⬝ᵥ x := by
  intro r x w H
  obtain ⟨h1, h2, h3⟩ := genReflector_house sqrt order A ai xi stride ho hai hlt hne hinj hsq
  have hH : H = house r.1 w := rfl
  have hT : Hᵀ = H := by rw [hH]; exact house_transpose _ _
  refine ⟨hT, ?_, ?_, ?_⟩
  · rw [hT, hH]
    apply house_mul_self
    rw [Fin.sum_univ_eq_sum_range (fun l => (if l = 0 then (1 : K) else r.2.getD (xi + (l - 1) * stride) 0)
      * (if l = 0 then (1 : K) else r.2.getD (xi + (l - 1) * stride) 0)) order]
    exact h1
  · funext l
    rw [hH, house_mulVec_apply]
    rw [Fin.sum_univ_eq_sum_range (fun l => (if l = 0 then (1 : K) else r.2.getD (xi + (l - 1) * stride) 0)
      * (if l = 0 then A.getD ai 0 else A.getD (xi + (l - 1) * stride) 0)) order]
    exact h2 l.val l.isLt
  · rw [h3]
    exact (Fin.sum_univ_eq_sum_range (fun l => (if l = 0 then A.getD ai 0 else A.getD (xi + (l - 1) * stride) 0)
      * (if l = 0 then A.getD ai 0 else A.getD (xi + (l - 1) * stride) 0)) order).symm

example := qr_reflector Amgcl.rsqrt 3 C16bEx.exCol 0 1 1 (by decide) (by decide) (by decide) (by decide)
  (by intro l l' _ _ e; omega) (fun _ => by decide +kernel)
-- … and the root is really taken on this input
example : ¬ GenTrivial 3 C16bEx.exCol 1 1 := by decide +kernel

/-! ## (2) `compute` and `factorize`: `A = Q·R` -/

/-- `compute(m, n, rs, cs, A)` on any object state: with `F` the buffer and `T` the member `tau` on return,
`Q_full = H_0·…·H_{k-1}` (`H_i = 1 - T[i]·w_i·w_iᵀ`, `w_i = (0,…,0,1,F(i+1,i),…,F(m-1,i))`) satisfies `Q_fullᵀ·Q_full = 1`, every
`H_i` is a symmetric involution, and `A = Q_full·R` where `R(i,j) = getR F i j` (zero below the diagonal). -/
theorem qr_compute (sqrt : K → K) (m n rs cs : Nat) (A tau0 : Array K) (L : Layout m n rs cs A.size)
    (hex : ExactRoots sqrt m n rs cs A #[]) :
    let F := (computeS sqrt m n rs cs A tau0).1
    let T := (computeS sqrt m n rs cs A tau0).2
    F.size = A.size ∧
    (∀ j, j < min m n → (Hmat F T rs cs m j)ᵀ = Hmat F T rs cs m j ∧ Hmat F T rs cs m j * Hmat F T rs cs m j = 1) ∧
    (Qacc F T rs cs m (min m n))ᵀ * Qacc F T rs cs m (min m n) = 1 ∧
    matOf A rs cs m n = Qacc F T rs cs m (min m n) * Rfull F rs cs m n ∧
    ∀ i j, j < i → getR F rs cs i j = 0 := by
  intro F T
  obtain ⟨h1, h2, h3, h4⟩ := compute_QR sqrt m n rs cs A tau0 L (ExactRoots_indep sqrt m n rs cs A #[] tau0 hex)
  refine ⟨h1, fun j hj => ⟨Hmat_transpose _ _ _ _ _ _, h2 j hj⟩, h3, h4, ?_⟩
  intro i j hij
  unfold getR; rw [if_pos hij]

/-- `factorize(m, n, rs, cs, A)` on any object state `o`, every shape: with `Q_k` the leading `k = min m n` columns of
`Q(i,j)` and `R_k` the leading `k` rows of `R(i,j)`: `A = Q_k·R_k`, `Q_kᵀ·Q_k = 1`, `R(i,j) = 0` below the diagonal, and the
columns `≥ k` of `Q` (wide case) are zero. -/
theorem qr_factorize (sqrt : K → K) (m n rs cs : Nat) (A : Array K) (o : Obj K)
    (L : Layout m n rs cs (m * n)) (hA : m * n ≤ A.size) (hex : ExactRoots sqrt m n rs cs A #[]) :
    let r := factorizeS sqrt m n rs cs A o
    matOf A rs cs m n = Qthin r.2.q rs cs m n * Rthin r.1 rs cs m n ∧
    (Qthin r.2.q rs cs m n)ᵀ * Qthin r.2.q rs cs m n = 1 ∧
    (∀ i j, j < i → getR r.1 rs cs i j = 0) ∧
    (∀ i j, i < m → min m n ≤ j → j < n → getQ r.2.q rs cs i j = 0) := by
  intro r
  obtain ⟨_, _, h3, h4⟩ := compute_QR sqrt m n rs cs A o.tau (L.mono hA) (ExactRoots_indep sqrt m n rs cs A #[] o.tau hex)
  obtain ⟨f1, _, _, f4⟩ := factorize_q sqrt m n rs cs A o L
  have hr1 : r.1 = (computeS sqrt m n rs cs A o.tau).1 := f1
  obtain ⟨t1, t2, t3⟩ := thin_QR (computeS sqrt m n rs cs A o.tau).1 r.2.q rs cs m n _ h3 _ h4 f4
  rw [hr1]
  refine ⟨t1, t2, ?_, t3⟩
  intro i j hij
  unfold getR; rw [if_pos hij]

/-- row-major storage, fresh object -/
theorem qr_factorize_row_major (sqrt : K → K) (m n : Nat) (A : Array K) (hA : A.size = m * n)
    (hex : ExactRoots sqrt m n n 1 A #[]) :
    let r := factorize sqrt m n n 1 A
    matOf A n 1 m n = Qthin r.2.2 n 1 m n * Rthin r.1 n 1 m n ∧ (Qthin r.2.2 n 1 m n)ᵀ * Qthin r.2.2 n 1 m n = 1 :=
  let ⟨h1, h2, _, _⟩ := qr_factorize sqrt m n n 1 A Obj.fresh (Layout.rowMajor m n) (Nat.le_of_eq hA.symm) hex
  ⟨h1, h2⟩

/-- column-major storage, fresh object -/
theorem qr_factorize_col_major (sqrt : K → K) (m n : Nat) (A : Array K) (hA : A.size = m * n)
    (hex : ExactRoots sqrt m n 1 m A #[]) :
    let r := factorize sqrt m n 1 m A
    matOf A 1 m m n = Qthin r.2.2 1 m m n * Rthin r.1 1 m m n ∧ (Qthin r.2.2 1 m m n)ᵀ * Qthin r.2.2 1 m m n = 1 :=
  let ⟨h1, h2, _, _⟩ := qr_factorize sqrt m n 1 m A Obj.fresh (Layout.colMajor m n) (Nat.le_of_eq hA.symm) hex
  ⟨h1, h2⟩

/-- with a true square root (`Real.sqrt`) the hypothesis on `sqrt` holds for every input -/
theorem exactRoots_real (m n rs cs : Nat) (A : Array ℝ) : ExactRoots Real.sqrt m n rs cs A #[] :=
  exactRoots_real_sqrt m n rs cs A #[]

/-- `factorize` over `ℝ` with `Real.sqrt`: `A = Q_k·R_k`, `Q_kᵀ·Q_k = 1` for every input -/
theorem qr_factorize_real (m n rs cs : Nat) (A : Array ℝ) (o : Obj ℝ) (L : Layout m n rs cs (m * n)) (hA : m * n ≤ A.size) :
    let r := factorizeS Real.sqrt m n rs cs A o
    matOf A rs cs m n = Qthin r.2.q rs cs m n * Rthin r.1 rs cs m n ∧
    (Qthin r.2.q rs cs m n)ᵀ * Qthin r.2.q rs cs m n = 1 :=
  let ⟨h1, h2, _, _⟩ := qr_factorize Real.sqrt m n rs cs A o L hA (exactRoots_real m n rs cs A)
  ⟨h1, h2⟩

-- tall (3×2), row-major and column-major, and wide (2×3), with the executable `rsqrt`
example := qr_factorize_row_major Amgcl.rsqrt 3 2 C16bEx.exTallRM rfl C16bEx.exTallRM_roots
example := qr_factorize_col_major Amgcl.rsqrt 3 2 C16bEx.exTallCM rfl C16bEx.exTallCM_roots
example := qr_factorize_row_major Amgcl.rsqrt 2 3 C16bEx.exWideRM rfl C16bEx.exWideRM_roots
-- a reused object whose members hold stale values
example := qr_factorize Amgcl.rsqrt 3 2 2 1 C16bEx.exTallRM ⟨#[7, 7, 7], #[1], #[9, 9, 9, 9, 9, 9, 9]⟩ (Layout.rowMajor 3 2)
  (by decide) C16bEx.exTallRM_roots
-- the root is really taken in both steps of the tall example (the hypothesis is not vacuously true)
example : ¬ GenTrivial (3 - 0) (stateAt Amgcl.rsqrt 3 2 2 1 C16bEx.exTallRM #[] 0).1 (0 * (2 + 1) + 2) 2 ∧
    ¬ GenTrivial (3 - 1) (stateAt Amgcl.rsqrt 3 2 2 1 C16bEx.exTallRM #[] 1).1 (1 * (2 + 1) + 2) 2 := by decide +kernel

/-! ## (3) `solve` -/

/-- `solve` for `rows ≥ cols` when no diagonal entry of the computed `R` vanishes: the result `x` (`cols` entries) satisfies
the normal equations `Aᵀ·A·x = Aᵀ·b` and minimises `‖A·y - b‖²` over all `y` -/
theorem qr_solve_least_squares_of_diag (sqrt : K → K) (rows cols rs cs : Nat) (A b : Array K) (o : Obj K) (h : cols ≤ rows)
    (L : Layout rows cols rs cs A.size) (hex : ExactRoots sqrt rows cols rs cs A #[])
    (hd : ∀ i, i < cols → (computeS sqrt rows cols rs cs A o.tau).1.getD (i * rs + i * cs) 0 ≠ 0) :
    let x := (solveS sqrt rows cols rs cs A b o).1
    x.size = cols ∧
    (matOf A rs cs rows cols)ᵀ *ᵥ (matOf A rs cs rows cols *ᵥ vecOf x cols) = (matOf A rs cs rows cols)ᵀ *ᵥ vecOf b rows ∧
    ∀ y : Fin cols → K,
      (matOf A rs cs rows cols *ᵥ vecOf x cols - vecOf b rows) ⬝ᵥ (matOf A rs cs rows cols *ᵥ vecOf x cols - vecOf b rows)
        ≤ (matOf A rs cs rows cols *ᵥ y - vecOf b rows) ⬝ᵥ (matOf A rs cs rows cols *ᵥ y - vecOf b rows) := by
  intro x
  obtain ⟨_, _, h3, h4⟩ := compute_QR sqrt rows cols rs cs A o.tau L (ExactRoots_indep sqrt rows cols rs cs A #[] o.tau hex)
  obtain ⟨s1, s2⟩ := solveS_tall_spec sqrt rows cols rs cs A b o h hd
  rw [Nat.min_eq_right h] at h3 h4
  have hne := qr_normal_eq _ (Rfull (computeS sqrt rows cols rs cs A o.tau).1 rs cs rows cols) (matOf A rs cs rows cols) h3 h4
    (fun l c hl => by unfold Rfull getR; rw [if_pos (by have := c.isLt; omega)]) (vecOf b rows) (vecOf x cols)
    (fun l hl => s2 ⟨l.val, hl⟩)
  refine ⟨s1, ?_, normal_eq_minimal _ _ _ hne⟩
  rw [Matrix.mulVec_sub] at hne
  exact sub_eq_zero.mp hne

/-- `solve` for `rows ≥ cols` and a matrix with linearly independent columns (`A·y = 0 → y = 0`): the result is the
least-squares solution -/
theorem qr_solve_least_squares (sqrt : K → K) (rows cols rs cs : Nat) (A b : Array K) (o : Obj K) (h : cols ≤ rows)
    (L : Layout rows cols rs cs A.size) (hex : ExactRoots sqrt rows cols rs cs A #[])
    (hrank : ∀ y : Fin cols → K, matOf A rs cs rows cols *ᵥ y = 0 → y = 0) :
    let x := (solveS sqrt rows cols rs cs A b o).1
    x.size = cols ∧
    (matOf A rs cs rows cols)ᵀ *ᵥ (matOf A rs cs rows cols *ᵥ vecOf x cols) = (matOf A rs cs rows cols)ᵀ *ᵥ vecOf b rows ∧
    ∀ y : Fin cols → K,
      (matOf A rs cs rows cols *ᵥ vecOf x cols - vecOf b rows) ⬝ᵥ (matOf A rs cs rows cols *ᵥ vecOf x cols - vecOf b rows)
        ≤ (matOf A rs cs rows cols *ᵥ y - vecOf b rows) ⬝ᵥ (matOf A rs cs rows cols *ᵥ y - vecOf b rows) := by
  apply qr_solve_least_squares_of_diag sqrt rows cols rs cs A b o h L hex
  obtain ⟨_, _, _, h4⟩ := compute_QR sqrt rows cols rs cs A o.tau L (ExactRoots_indep sqrt rows cols rs cs A #[] o.tau hex)
  rw [Nat.min_eq_right h] at h4
  intro i hi
  have := qr_diag_ne_zero h _ (Rfull (computeS sqrt rows cols rs cs A o.tau).1 rs cs rows cols) (matOf A rs cs rows cols) h4
    (fun l c hl => by unfold Rfull getR; rw [if_pos (by have := c.isLt; omega)])
    (fun l c hl => by unfold Rfull getR; rw [if_pos hl]) hrank ⟨i, hi⟩
  unfold Rfull getR at this
  rw [if_neg (Nat.lt_irrefl i)] at this
  exact this

/-- … and it is the only minimiser: every `y` whose residual is not larger equals the result of `solve` -/
theorem qr_solve_least_squares_unique (sqrt : K → K) (rows cols rs cs : Nat) (A b : Array K) (o : Obj K) (h : cols ≤ rows)
    (L : Layout rows cols rs cs A.size) (hex : ExactRoots sqrt rows cols rs cs A #[])
    (hrank : ∀ y : Fin cols → K, matOf A rs cs rows cols *ᵥ y = 0 → y = 0) (y : Fin cols → K)
    (hy : (matOf A rs cs rows cols *ᵥ y - vecOf b rows) ⬝ᵥ (matOf A rs cs rows cols *ᵥ y - vecOf b rows)
        ≤ (matOf A rs cs rows cols *ᵥ vecOf (solveS sqrt rows cols rs cs A b o).1 cols - vecOf b rows)
          ⬝ᵥ (matOf A rs cs rows cols *ᵥ vecOf (solveS sqrt rows cols rs cs A b o).1 cols - vecOf b rows)) :
    y = vecOf (solveS sqrt rows cols rs cs A b o).1 cols := by
  obtain ⟨_, h2, _⟩ := qr_solve_least_squares sqrt rows cols rs cs A b o h L hex hrank
  apply normal_eq_unique _ _ _ _ hrank y hy
  rw [Matrix.mulVec_sub, h2, sub_self]

/-- `solve` for a square non-singular system: `A·x = b` -/
theorem qr_solve_square (sqrt : K → K) (n rs cs : Nat) (A b : Array K) (o : Obj K)
    (L : Layout n n rs cs A.size) (hex : ExactRoots sqrt n n rs cs A #[])
    (hns : ∀ y : Fin n → K, matOf A rs cs n n *ᵥ y = 0 → y = 0) :
    let x := (solveS sqrt n n rs cs A b o).1
    x.size = n ∧ matOf A rs cs n n *ᵥ vecOf x n = vecOf b n := by
  intro x
  obtain ⟨_, _, h3, h4⟩ := compute_QR sqrt n n rs cs A o.tau L (ExactRoots_indep sqrt n n rs cs A #[] o.tau hex)
  rw [Nat.min_self] at h3 h4
  have hd : ∀ i, i < n → (computeS sqrt n n rs cs A o.tau).1.getD (i * rs + i * cs) 0 ≠ 0 := by
    intro i hi
    have := qr_diag_ne_zero (Nat.le_refl n) _ (Rfull (computeS sqrt n n rs cs A o.tau).1 rs cs n n) (matOf A rs cs n n) h4
      (fun l c hl => by have := l.isLt; omega)
      (fun l c hl => by unfold Rfull getR; rw [if_pos hl]) hns ⟨i, hi⟩
    unfold Rfull getR at this
    rw [if_neg (Nat.lt_irrefl i)] at this
    exact this
  obtain ⟨s1, s2⟩ := solveS_tall_spec sqrt n n rs cs A b o (Nat.le_refl n) hd
  refine ⟨s1, qr_square_solve _ _ _ h3 h4 _ _ ?_⟩
  funext l
  exact s2 l

/-- the same with the non-singularity stated as `det A ≠ 0` -/
theorem qr_solve_square_det (sqrt : K → K) (n rs cs : Nat) (A b : Array K) (o : Obj K)
    (L : Layout n n rs cs A.size) (hex : ExactRoots sqrt n n rs cs A #[]) (hdet : (matOf A rs cs n n).det ≠ 0) :
    let x := (solveS sqrt n n rs cs A b o).1
    x.size = n ∧ matOf A rs cs n n *ᵥ vecOf x n = vecOf b n :=
  qr_solve_square sqrt n rs cs A b o L hex (fun _ hy => Matrix.eq_zero_of_mulVec_eq_zero hdet hy)

/-- `solve` for `rows < cols` and a matrix with linearly independent rows (`Aᵀ·y = 0 → y = 0`): the result solves `A·x = b`,
lies in the range of `Aᵀ`, and has minimal norm among all solutions.  The roots taken are those of `compute` on the
transposed matrix (`cols×rows`, strides swapped). -/
theorem qr_solve_min_norm (sqrt : K → K) (rows cols rs cs : Nat) (A b : Array K) (o : Obj K) (h : rows < cols)
    (L : Layout rows cols rs cs A.size) (hex : ExactRoots sqrt cols rows cs rs A #[])
    (hrank : ∀ y : Fin rows → K, (matOf A rs cs rows cols)ᵀ *ᵥ y = 0 → y = 0) :
    let x := (solveS sqrt rows cols rs cs A b o).1
    x.size = cols ∧ matOf A rs cs rows cols *ᵥ vecOf x cols = vecOf b rows ∧
    (∃ w : Fin rows → K, vecOf x cols = (matOf A rs cs rows cols)ᵀ *ᵥ w) ∧
    ∀ y : Fin cols → K, matOf A rs cs rows cols *ᵥ y = vecOf b rows → vecOf x cols ⬝ᵥ vecOf x cols ≤ y ⬝ᵥ y := by
  intro x
  have hT : (matOf A rs cs rows cols)ᵀ = matOf A cs rs cols rows := matOf_transpose A rs cs rows cols
  have hT' : matOf A rs cs rows cols = (matOf A cs rs cols rows)ᵀ := by rw [← hT, Matrix.transpose_transpose]
  obtain ⟨_, _, h3, h4⟩ := compute_QR sqrt cols rows cs rs A o.tau L.transpose
    (ExactRoots_indep sqrt cols rows cs rs A #[] o.tau hex)
  rw [Nat.min_eq_right (Nat.le_of_lt h)] at h3 h4
  set F := (computeS sqrt cols rows cs rs A o.tau).1 with hF
  set T := (computeS sqrt cols rows cs rs A o.tau).2
  have hR0 : ∀ (l : Fin cols) (c : Fin rows), rows ≤ l.val → Rfull F cs rs cols rows l c = 0 := by
    intro l c hl; unfold Rfull getR; rw [if_pos (by have := c.isLt; omega)]
  have hup : ∀ (l : Fin cols) (c : Fin rows), c.val < l.val → Rfull F cs rs cols rows l c = 0 := by
    intro l c hl; unfold Rfull getR; rw [if_pos hl]
  have hdiag : ∀ i : Fin rows, Rfull F cs rs cols rows ⟨i.val, by have := i.isLt; omega⟩ i ≠ 0 := by
    intro i
    exact qr_diag_ne_zero (Nat.le_of_lt h) _ (Rfull F cs rs cols rows) (matOf A cs rs cols rows) h4 hR0 hup
      (fun y hy => hrank y (by rw [hT]; exact hy)) i
  have hd : ∀ i, i < rows → F.getD (i * cs + i * rs) 0 ≠ 0 := by
    intro i hi
    have := hdiag ⟨i, hi⟩
    unfold Rfull getR at this
    rw [if_neg (Nat.lt_irrefl i)] at this
    exact this
  obtain ⟨g, hg, s1, s2⟩ := solveS_wide_spec sqrt rows cols rs cs A b o h hd
  have hfs : (Rfull F cs rs cols rows)ᵀ *ᵥ (fun l : Fin cols => if l.val < rows then g.getD l.val 0 else 0) = vecOf b rows := by
    funext j
    have hj := j.isLt
    show ∑ l : Fin cols, getR F cs rs l.val j.val * (if l.val < rows then g.getD l.val 0 else 0) = b.getD j.val 0
    rw [Fin.sum_univ_eq_sum_range (fun l => getR F cs rs l j.val * (if l < rows then g.getD l 0 else 0)) cols,
      Finset.range_eq_Ico, ← Finset.sum_Ico_consecutive _ (Nat.zero_le (j.val + 1)) (by omega : j.val + 1 ≤ cols),
      Finset.sum_eq_zero (s := Finset.Ico (j.val + 1) cols) (fun l hl => by
        have := (Finset.mem_Ico.mp hl).1
        unfold getR; rw [if_pos (by omega), zero_mul]), add_zero, ← hg j.val hj, Finset.range_eq_Ico]
    refine Finset.sum_congr rfl (fun l hl => ?_)
    have := (Finset.mem_Ico.mp hl).2
    unfold getR; rw [if_neg (by omega), if_pos (by omega)]
  obtain ⟨w1, w, w2⟩ := qr_wide_solve (Nat.le_of_lt h) _ (Rfull F cs rs cols rows) (matOf A cs rs cols rows) h3 h4 hR0 hup hdiag
    (vecOf b rows) (fun l : Fin cols => if l.val < rows then g.getD l.val 0 else 0)
    (fun l hl => if_neg (by omega)) hfs
  have hAx : matOf A rs cs rows cols *ᵥ vecOf x cols = vecOf b rows := by rw [hT', s2]; exact w1
  have hxw : vecOf x cols = (matOf A rs cs rows cols)ᵀ *ᵥ w := by rw [hT, s2]; exact w2
  exact ⟨s1, hAx, ⟨w, hxw⟩, fun y hy => min_norm_of_range _ _ _ w hAx hxw y hy⟩

example := qr_solve_least_squares_of_diag Amgcl.rsqrt 3 2 2 1 C16bEx.exTallRM #[1, 2, 3] Obj.fresh (by decide)
  (Layout.rowMajor 3 2) C16bEx.exTallRM_roots (by decide +kernel)
example := qr_solve_least_squares Amgcl.rsqrt 3 2 2 1 C16bEx.exTallRM #[1, 2, 3] ⟨#[5], #[1, 1, 1, 1], #[]⟩ (by decide)
  (Layout.rowMajor 3 2) C16bEx.exTallRM_roots C16bEx.exTallRM_rank
example := qr_solve_least_squares_unique Amgcl.rsqrt 3 2 2 1 C16bEx.exTallRM #[1, 2, 3] Obj.fresh (by decide)
  (Layout.rowMajor 3 2) C16bEx.exTallRM_roots C16bEx.exTallRM_rank
example := qr_solve_min_norm Amgcl.rsqrt 2 3 3 1 C16bEx.exTallCM #[1, 2] Obj.fresh (by decide) (Layout.rowMajor 2 3)
  C16bEx.exTallCM_roots C16bEx.exWide_rank
example := qr_solve_square_det Amgcl.rsqrt 2 2 1 C16bEx.exSq #[1, 2] Obj.fresh (Layout.rowMajor 2 2) C16bEx.exSq_roots
  C16bEx.exSq_det

/-! ## reuse of one object -/

/-- `solve` on an object in ANY state (members `tau`, `f`, `q` left by earlier calls of any shape) returns exactly what it
returns on a default-constructed object — for every input and every `sqrt` -/
theorem qr_solve_object_indep (sqrt : K → K) (rows cols rs cs : Nat) (A b : Array K) (o : Obj K) :
    (solveS sqrt rows cols rs cs A b o).1 = solve sqrt rows cols rs cs A b :=
  solveS_indep sqrt rows cols rs cs A b o

/-- `factorize` on an object in any state returns the same buffer (hence the same `R(i,j)`) and the same `Q(i,j)`, `i < m`,
`j < n`, as on a default-constructed object -/
theorem qr_factorize_object_indep (sqrt : K → K) (m n rs cs : Nat) (A : Array K) (o : Obj K) (L : Layout m n rs cs (m * n)) :
    (factorizeS sqrt m n rs cs A o).1 = (factorize sqrt m n rs cs A).1 ∧
    ∀ i j, i < m → j < n → getQ (factorizeS sqrt m n rs cs A o).2.q rs cs i j = getQ (factorize sqrt m n rs cs A).2.2 rs cs i j :=
  factorizeS_indep sqrt m n rs cs A o L

/-- a sequence of `factorize` / `solve` calls of arbitrary shapes on ONE object (`QRModel.runSeq`, the model behind the op
`direct_qr_seq`): every call returns what a default-constructed object returns (`QRModel.CallFresh`: for `solve` the same
`x`; for `factorize` the same buffer and, where `Q(i,j)` addresses distinct cells, the same `Q(i,j)`) -/
theorem qr_sequence_fresh (sqrt : K → K) (calls : List (Call K)) :
    List.Forall₂ (CallFresh sqrt) calls (runSeq sqrt calls) :=
  runSeq_fresh sqrt calls

example : (solveS Amgcl.rsqrt 3 2 2 1 C16bEx.exTallRM #[1, 2, 3] ⟨#[5, 6, 7], #[1, 1, 1, 1], #[2]⟩).1
    = solve Amgcl.rsqrt 3 2 2 1 C16bEx.exTallRM #[1, 2, 3] := qr_solve_object_indep _ _ _ _ _ _ _ _
example := qr_sequence_fresh Amgcl.rsqrt [.factorize 3 2 2 1 C16bEx.exTallRM, .solve 2 2 2 1 C16bEx.exSq #[1, 2],
  .factorize 2 3 3 1 C16bEx.exWideRM, .solve 2 3 3 1 C16bEx.exTallCM #[1, 2]]

end Amgcl.C16b
