import Amgcl.Proofs.KrylovIDRsLoop
import Amgcl.Model.Rsqrt
import Mathlib.Algebra.Order.Field.Rat
/-!
# C05 (fourth part) — IDR(s): the Sonneveld spaces; finite termination within `n + n/s` iterations

* `idr_theorem` — the IDR theorem in abstract form (every field, finite dimension): the Sonneveld spaces `G₀ = V`,
  `G_{j+1} = (I − ω_{j+1} T)(G_j ∩ S)` are nested when the `ω`'s are non-zero, and if `S` contains no non-trivial
  `T`-invariant subspace their dimension drops strictly, so `G_j = 0` for `j ≥ dim V`.
* `idrs_residual_in_sonneveld_space` — for the IDR(s) MODEL (`Model/SolverIDRs.lean`; every `s ≥ 1`, residual smoothing and
  residual replacement on or off, preconditioner denoting a linear map, `stdIp`, ANY field, ANY function `sqrt`): after `j`
  complete passes of the `while` body the carried residual is the true residual `f − A x`, lies in the Sonneveld space `G_j`
  of the preconditioned operator `T = A Pl`, the shadow space `S = {p_0..p_{s-1}}^⊥` and the `ω`'s the run itself computed,
  all `G[i]` lie in `G_{j-1}`, `dim G_j ≤ n − s·j` (the generic rate: `s` dimensions per cycle of `s + 1` products), and
  `iter = (s+1)·j`.
* `idrs_terminates` — **finite termination**: `j` complete passes need `s·j ≤ n`; if `s·j = n` the residual is exactly zero;
  and every normal return of a call reports `it ≤ n + n/s` — with no hypothesis on `eps`, `sqrt` or the shadow vectors
  beyond their length.  The reason is that a `k`-step whose new `G[k]` (an element of `G_j ∩ {p_0..p_{k-1}}^⊥`) is orthogonal
  to `p_k` throws (`zero M[k,k]`); every `k`-step that does not throw therefore lowers the dimension of the space that
  contains the residual by one, the `ω` step does not raise it, and `iter` counts exactly these steps.

The proof follows the code: the triangular solve `solveC` makes `v ⟂ p_0..p_{s-1}` (`M(i,l) = ⟨G[l],P[i]⟩` lower triangular,
`f[i] = ⟨r,P[i]⟩`), `G[k] = r − (I − ω_j T) v` before the bi-orthogonalisation, which keeps it in `G_j` and makes it orthogonal
to `p_0..p_{k-1}` (`Proofs/KrylovIDRs.lean`: `KInv`, `kstep_core`, `kstep_inv`; `Proofs/KrylovIDRsLoop.lean`).
-/
namespace Amgcl.C05d
open Amgcl Amgcl.Solver Amgcl.Krylov Amgcl.Energy.Bridge Matrix
set_option linter.unusedSectionVars false
set_option linter.unusedVariables false

section abstract
variable {K V : Type*} [Field K] [AddCommGroup V] [Module K V] [FiniteDimensional K V]

/-- **the IDR theorem** (Sonneveld – van Gijzen): nestedness, and — when `S` contains no non-trivial `T`-invariant subspace —
strict decrease of the dimension and `G_j = 0` for `j ≥ dim V`. -/
theorem idr_theorem (T : V →ₗ[K] V) (S : Submodule K V) (ω : ℕ → K) (j : ℕ)
    (hω : ∀ i, 1 ≤ i → i ≤ j + 1 → ω i ≠ 0) :
    idrSpace T S ω (j + 1) ≤ idrSpace T S ω j ∧
    ((∀ W : Submodule K V, W ≤ S → (∀ x ∈ W, T x ∈ W) → W = ⊥) →
      (idrSpace T S ω j ≠ ⊥ → Module.finrank K (idrSpace T S ω (j + 1)) < Module.finrank K (idrSpace T S ω j)) ∧
      (Module.finrank K V ≤ j → idrSpace T S ω j = ⊥)) :=
  ⟨idrSpace_succ_le T S ω j (fun i h1 h2 => hω i h1 (by omega)),
   fun hgen => ⟨fun hne => idrSpace_finrank_lt T S ω hgen j hω hne,
     fun hj => idrSpace_eq_bot T S ω hgen j (fun i h1 h2 => hω i h1 (by omega)) hj⟩⟩

end abstract

section idrs
variable {K : Type} [Field K] [DecidableEq K] [LT K] [DecidableLT K]
variable (n : ℕ) (A : CRS K) (hA : A.WF) (hn : A.nrows = n) (hm : A.ncols = n)
  (Prec : Vec K → Vec K) (Pl : (Fin n → K) →ₗ[K] (Fin n → K)) (hP : PDenotes n Prec Pl)
  (Pv : FArr (Vec K)) (prm : IDRs.Params K) (hPs : ∀ i, i < prm.s → (Pv.get i).size = n) (hs : 1 ≤ prm.s) (sqrt : K → K)
include hA hn hm hP hPs hs

/-- **the residuals of IDR(s) run through the Sonneveld spaces.**  `idrPass … j = some st`: `st` is the loop state after `j`
complete passes of the `while` body (no exception, no exit inside a pass) of a call that entered the loop;
`idrOmega … i` is the `ω` computed in pass `i − 1`; `shadowK (pvecs n Pv) s = {v | ⟨v,P[i]⟩ = 0, i < s}`.  Then `r = f − A x`,
`r ∈ G_j`, `dim G_j + s·j ≤ n`, every `G[i] ∈ G_{j-1}`, the `ω`'s are non-zero, `iter = (s+1)·j`. -/
theorem idrs_residual_in_sonneveld_space (rhs : Vec K) (epsT : K) (ws : IDRs.Work K) (x0 : Vec K) (j : ℕ)
    (st : IDRs.St K)
    (h : idrPass prm sqrt A Prec Pv rhs epsT
      (IDRs.init prm ws x0 (residual rhs A x0) (nrmA stdIp sqrt (residual rhs A x0))) j = some st) :
    st.w.r = residual rhs A st.x ∧
    vecOf n st.w.r ∈ idrSpace (Tl .right (matOf A n n) Pl) (shadowK (pvecs n Pv) prm.s)
      (idrOmega prm sqrt A Prec Pv rhs epsT
        (IDRs.init prm ws x0 (residual rhs A x0) (nrmA stdIp sqrt (residual rhs A x0)))) j ∧
    Module.finrank K (idrSpace (Tl .right (matOf A n n) Pl) (shadowK (pvecs n Pv) prm.s)
      (idrOmega prm sqrt A Prec Pv rhs epsT
        (IDRs.init prm ws x0 (residual rhs A x0) (nrmA stdIp sqrt (residual rhs A x0)))) j) + prm.s * j ≤ n ∧
    (1 ≤ j → ∀ i, i < prm.s → vecOf n (st.w.G.get i) ∈ idrSpace (Tl .right (matOf A n n) Pl) (shadowK (pvecs n Pv) prm.s)
      (idrOmega prm sqrt A Prec Pv rhs epsT
        (IDRs.init prm ws x0 (residual rhs A x0) (nrmA stdIp sqrt (residual rhs A x0)))) (j - 1)) ∧
    (∀ i, 1 ≤ i → i ≤ j → idrOmega prm sqrt A Prec Pv rhs epsT
        (IDRs.init prm ws x0 (residual rhs A x0) (nrmA stdIp sqrt (residual rhs A x0))) i ≠ 0) ∧
    st.iter = (prm.s + 1) * j := by
  have hi := idrsPass_inv n A hA hn hm Prec Pl hP Pv prm hPs hs sqrt rhs epsT ws x0 j st h
  exact ⟨hi.res, hi.rmem, hi.dim, hi.gold, hi.omne, hi.iter⟩

/-- **finite termination of IDR(s) within `n + n/s` iterations** (every `s ≥ 1`; smoothing and replacement on or off).
(a) `j` complete passes need `s·j ≤ n`, and when `s·j = n` the carried residual and the true residual `f − A x` are the zero
vector.  (b) Every normal return of a call reports `it ≤ n + n/s`.  No hypothesis on `eps`, on `sqrt`, or on the shadow
vectors beyond their length. -/
theorem idrs_terminates :
    (∀ (rhs : Vec K) (epsT : K) (ws : IDRs.Work K) (x0 : Vec K) (j : ℕ) (st : IDRs.St K),
      idrPass prm sqrt A Prec Pv rhs epsT
        (IDRs.init prm ws x0 (residual rhs A x0) (nrmA stdIp sqrt (residual rhs A x0))) j = some st →
      prm.s * j ≤ n ∧ (prm.s * j = n → st.w.r = vclear n ∧ residual rhs A st.x = vclear n)) ∧
    ∀ (eps : K) (rhs : Vec K) (ws : IDRs.Work K) (x0 : Vec K) (it : ℕ) (res : K) (x : Vec K) (w : IDRs.Work K),
      IDRs.solve prm stdIp sqrt eps A Prec Pv ws rhs x0 = .ok (it, res, x, w) → it ≤ n + n / prm.s :=
  ⟨fun rhs epsT ws x0 j st h =>
     idrsPass_residual_zero n A hA hn hm Prec Pl hP Pv prm hPs hs sqrt rhs epsT ws x0 j st h,
   fun eps rhs ws x0 it res x w h =>
     idrs_call_iter_le n A hA hn hm Prec Pl hP Pv prm hPs hs sqrt eps rhs ws x0 it res x w h⟩

end idrs

/-! ### non-vacuity over `ℚ` with the executable `rsqrt`: IDR(2) with residual smoothing on the non-symmetric
`A = [[2,1,0,0],[1,3,1,0],[0,-1,4,1],[1,0,2,5]]`, identity preconditioner, shadow vectors `(1,1,0,0)`, `(0,1,1,1)`,
`f = (1,2,5,1)`, `x₀ = 0`, `omega = 7/10`, `tol = abstol = 0` -/
section nonvacuous

private def Ai : CRS ℚ :=
  ⟨4, #[[(0, 2), (1, 1)], [(0, 1), (1, 3), (2, 1)], [(1, -1), (2, 4), (3, 1)], [(0, 1), (2, 2), (3, 5)]]⟩
private def Pi : Vec ℚ → Vec ℚ := fun v => vcopy v
private def Pvi : FArr (Vec ℚ) := setF (.const #[1, 1, 0, 0]) 1 #[0, 1, 1, 1]
private def fi : Vec ℚ := #[1, 2, 5, 1]
private def xi : Vec ℚ := #[0, 0, 0, 0]
private def prmi : IDRs.Params ℚ :=
  { maxiter := 20, tol := 0, abstol := 0, nsSearch := false, s := 2, omega := 7/10, smoothing := true,
    replacement := false }
private def sti : IDRs.St ℚ :=
  IDRs.init prmi (IDRs.Work.fresh 4) xi (residual fi Ai xi) (nrmA stdIp Amgcl.rsqrt (residual fi Ai xi))

/-- the shadow vectors have length `4` -/
example : ∀ i, i < prmi.s → (Pvi.get i).size = 4 := by decide

/-- one complete pass (`2` `k`-steps and the `ω` step) exists on this input; in the second pass the residual becomes exactly
zero in the second `k`-step -/
example : (idrPass prmi Amgcl.rsqrt Ai Pi Pvi fi 0 sti 1).isSome = true := by decide +kernel

/-- `idrs_residual_in_sonneveld_space` on this input: after the complete pass `r ∈ G₁` and `dim G₁ ≤ 4 − 2` -/
example (st : IDRs.St ℚ) (h : idrPass prmi Amgcl.rsqrt Ai Pi Pvi fi 0 sti 1 = some st) :
    vecOf 4 st.w.r ∈ idrSpace (Tl .right (matOf Ai 4 4) LinearMap.id) (shadowK (pvecs 4 Pvi) 2)
      (idrOmega prmi Amgcl.rsqrt Ai Pi Pvi fi 0 sti) 1 ∧
    Module.finrank ℚ (idrSpace (Tl .right (matOf Ai 4 4) LinearMap.id) (shadowK (pvecs 4 Pvi) 2)
      (idrOmega prmi Amgcl.rsqrt Ai Pi Pvi fi 0 sti) 1) + 2 * 1 ≤ 4 :=
  let r := idrs_residual_in_sonneveld_space 4 Ai (by decide) rfl rfl Pi LinearMap.id (pDenotes_copy 4) Pvi prmi (by decide)
    (by decide) Amgcl.rsqrt fi 0 (IDRs.Work.fresh 4) xi 1 st h
  ⟨r.2.1, r.2.2.1⟩

/-- `idrs_terminates` (b) on this input: every normal return has `it ≤ 4 + 4/2 = 6` … -/
example (it : ℕ) (res : ℚ) (x : Vec ℚ) (w : IDRs.Work ℚ)
    (h : IDRs.solve prmi stdIp Amgcl.rsqrt 0 Ai Pi Pvi (IDRs.Work.fresh 4) fi xi = .ok (it, res, x, w)) :
    it ≤ 4 + 4 / 2 :=
  (idrs_terminates 4 Ai (by decide) rfl rfl Pi LinearMap.id (pDenotes_copy 4) Pvi prmi (by decide) (by decide)
    Amgcl.rsqrt).2 0 fi (IDRs.Work.fresh 4) xi it res x w h

/-- … and indeed the call returns after `4` iterations with residual `0` and the exact solution -/
example : (match IDRs.solve prmi stdIp Amgcl.rsqrt 0 Ai Pi Pvi (IDRs.Work.fresh 4) fi xi with
      | .ok (it, res, x, _) => decide (it = 4 ∧ res = 0 ∧ residual fi Ai x = vclear 4)
      | _ => false) = true := by decide +kernel

end nonvacuous

end Amgcl.C05d
