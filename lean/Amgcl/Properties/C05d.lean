import Amgcl.Proofs.KrylovIDR1
import Amgcl.Model.Rsqrt
import Mathlib.Algebra.Order.Field.Rat
/-!
# C05 (fourth part) — IDR(s): the Sonneveld spaces; finite termination of IDR(1)

* `idr_theorem` — the IDR theorem in abstract form (every field, finite dimension): the Sonneveld spaces `G₀ = V`,
  `G_{j+1} = (I − ω_{j+1} T)(G_j ∩ S)` are nested when the `ω`'s are non-zero, and if `S` contains no non-trivial
  `T`-invariant subspace their dimension drops strictly, so `G_j = 0` for `j ≥ dim V`.
* `idrs1_residual_in_sonneveld_space` — for the IDR(s) MODEL with `s = 1` (`Model/SolverIDRs.lean`, no smoothing, residual
  replacement on or off, linear preconditioner, `stdIp`, ANY field, ANY function `sqrt`): after `j` complete passes of the
  `while` body the carried residual is the true residual `f − A x`, lies in the Sonneveld space `G_j` of the preconditioned
  operator `T = A Pl`, the shadow space `S = p^⊥` and the `ω`'s the run itself computed, `dim G_j ≤ n − j`, and `iter = 2j`.
* `idrs_terminates_partial` — **finite termination, proved for `s = 1`**: at most `n` complete passes exist, after `n`
  complete passes (`2n = n + n/s` matrix–vector products) the residual is exactly zero, and every call returns `it ≤ 2n`.

FULL statement (not proved for `s ≥ 2`): IDR(s) without breakdown terminates within `n + n/s` matrix–vector products (every
`k`-step of a cycle lowers the dimension of the space that contains the residual by one, the `ω` step does not raise it).
What is missing for `s ≥ 2` is the bookkeeping of the bi-orthogonalisation (`M(i,k) = ⟨G[k],P[i]⟩` lower triangular, `f`, the
triangular solve `solveC`) that shows `v ⟂ P[0..s)` in every `k`-step; and the variant with residual smoothing.
-/
namespace Amgcl.C05d
open Amgcl Amgcl.Solver Amgcl.Krylov Amgcl.Energy.Bridge Matrix
set_option linter.unusedSectionVars false
set_option linter.unusedVariables false

section abstract
variable {K V : Type*} [Field K] [AddCommGroup V] [Module K V] [FiniteDimensional K V]

/-- **the IDR theorem** (Sonneveld – van Gijzen): nestedness, and — when `S` contains no non-trivial `T`-invariant subspace —
strict decrease of the dimension and `G_j = 0` for `j ≥ dim V`. -/
theorem idr_theorem (T : V →ₗ[K] V) (S : Submodule K V) (ω : ℕ → K) (j : ℕ)
    (hω : ∀ i, 1 ≤ i → i ≤ j + 1 → ω i ≠ 0) :
    idrSpace T S ω (j + 1) ≤ idrSpace T S ω j ∧
    ((∀ W : Submodule K V, W ≤ S → (∀ x ∈ W, T x ∈ W) → W = ⊥) →
      (idrSpace T S ω j ≠ ⊥ → Module.finrank K (idrSpace T S ω (j + 1)) < Module.finrank K (idrSpace T S ω j)) ∧
      (Module.finrank K V ≤ j → idrSpace T S ω j = ⊥)) :=
  ⟨idrSpace_succ_le T S ω j (fun i h1 h2 => hω i h1 (by omega)),
   fun hgen => ⟨fun hne => idrSpace_finrank_lt T S ω hgen j hω hne,
     fun hj => idrSpace_eq_bot T S ω hgen j (fun i h1 h2 => hω i h1 (by omega)) hj⟩⟩

end abstract

section idr1
variable {K : Type} [Field K] [DecidableEq K] [LT K] [DecidableLT K]
variable (n : ℕ) (A : CRS K) (hA : A.WF) (hn : A.nrows = n) (hm : A.ncols = n)
  (Prec : Vec K → Vec K) (Pl : (Fin n → K) →ₗ[K] (Fin n → K)) (hP : PDenotes n Prec Pl)
  (Pv : FArr (Vec K)) (hp : (Pv 0).size = n)
  (prm : IDRs.Params K) (hs : prm.s = 1) (hsm : prm.smoothing = false) (sqrt : K → K)
include hA hn hm hP hp hs hsm

/-- **the residuals of IDR(1) run through the Sonneveld spaces.**  `idrPass … j = some st`: `st` is the loop state after `j`
complete passes of the `while` body (no exception, no exit inside a pass) of a call that entered the loop;
`idrOmega … i` is the `ω` computed in pass `i − 1`.  Then `r = f − A x`, `r ∈ G_j`, `dim G_j + j ≤ n`, the `ω`'s are
non-zero, `iter = 2j`, `res_norm = ‖r‖`. -/
theorem idrs1_residual_in_sonneveld_space (rhs : Vec K) (epsT : K) (ws : IDRs.Work K) (x0 : Vec K) (j : ℕ)
    (st : IDRs.St K)
    (h : idrPass prm sqrt A Prec Pv rhs epsT
      (IDRs.init prm ws x0 (residual rhs A x0) (nrmA stdIp sqrt (residual rhs A x0))) j = some st) :
    st.w.r = residual rhs A st.x ∧
    vecOf n st.w.r ∈ idrSpace (Tl .right (matOf A n n) Pl) (shadowSpace (vecOf n (Pv 0)))
      (idrOmega prm sqrt A Prec Pv rhs epsT
        (IDRs.init prm ws x0 (residual rhs A x0) (nrmA stdIp sqrt (residual rhs A x0)))) j ∧
    Module.finrank K (idrSpace (Tl .right (matOf A n n) Pl) (shadowSpace (vecOf n (Pv 0)))
      (idrOmega prm sqrt A Prec Pv rhs epsT
        (IDRs.init prm ws x0 (residual rhs A x0) (nrmA stdIp sqrt (residual rhs A x0)))) j) + j ≤ n ∧
    (∀ i, 1 ≤ i → i ≤ j → idrOmega prm sqrt A Prec Pv rhs epsT
        (IDRs.init prm ws x0 (residual rhs A x0) (nrmA stdIp sqrt (residual rhs A x0))) i ≠ 0) ∧
    st.iter = 2 * j ∧ st.resNorm = nrmA stdIp sqrt st.w.r := by
  have hi := idrPass_inv n A hA hn hm Prec Pl hP Pv hp prm hs hsm sqrt rhs epsT ws x0 j st h
  exact ⟨hi.res, hi.mem, hi.dim, hi.om, hi.iter, hi.nrm⟩

/-- **finite termination of IDR(s), proved for `s = 1`** (`_partial`: the statement for `s ≥ 2` and for residual smoothing
is not proved).  (a) At most `n` complete passes exist, and after `n` complete passes — `2n = n + n/s` matrix–vector
products — the carried residual and the true residual `f − A x` are the zero vector.  (b) Every normal return of a call
reports `it ≤ 2n` (given `‖0‖ = 0` and a threshold that is not negative).  No hypothesis on the shadow vector beyond its
length: a pass whose new `G[0]` is orthogonal to `p` throws (`zero M[k,k]`) and is not a complete pass. -/
theorem idrs_terminates_partial :
    (∀ (rhs : Vec K) (epsT : K) (ws : IDRs.Work K) (x0 : Vec K) (j : ℕ) (st : IDRs.St K),
      idrPass prm sqrt A Prec Pv rhs epsT
        (IDRs.init prm ws x0 (residual rhs A x0) (nrmA stdIp sqrt (residual rhs A x0))) j = some st →
      j ≤ n ∧ (j = n → st.w.r = vclear n ∧ residual rhs A st.x = vclear n)) ∧
    ∀ (eps : K) (rhs : Vec K) (ws : IDRs.Work K) (x0 : Vec K), nrmA stdIp sqrt (vclear n) = 0 →
      (∀ nf, prologueA prm.nsSearch stdIp sqrt eps rhs = .go nf → ¬ IDRs.epsTol prm nf < 0) →
      ∀ (it : ℕ) (res : K) (x : Vec K) (w : IDRs.Work K),
        IDRs.solve prm stdIp sqrt eps A Prec Pv ws rhs x0 = .ok (it, res, x, w) → it ≤ 2 * n :=
  ⟨fun rhs epsT ws x0 j st h =>
     idrPass_residual_zero n A hA hn hm Prec Pl hP Pv hp prm hs hsm sqrt rhs epsT ws x0 j st h,
   fun eps rhs ws x0 hz heps it res x w h =>
     idrs1_call_iter_le n A hA hn hm Prec Pl hP Pv hp prm hs hsm sqrt eps rhs ws x0 hz heps it res x w h⟩

end idr1

/-! ### non-vacuity over `ℚ` with the executable `rsqrt`: `A = [[2,1,0],[1,3,1],[0,1,4]]`, identity preconditioner, shadow
vector `p = e₁`, `f = (1,3,2)`, `x₀ = 0`, `omega = 7/10`, `tol = abstol = 0` -/
section nonvacuous

private def Ai : CRS ℚ := ⟨3, #[[(0, 2), (1, 1)], [(0, 1), (1, 3), (2, 1)], [(1, 1), (2, 4)]]⟩
private def Pi : Vec ℚ → Vec ℚ := fun v => vcopy v
private def Pvi : FArr (Vec ℚ) := .const #[1, 0, 0]
private def fi : Vec ℚ := #[1, 3, 2]
private def xi : Vec ℚ := #[0, 0, 0]
private def prmi : IDRs.Params ℚ :=
  { maxiter := 10, tol := 0, abstol := 0, nsSearch := false, s := 1, omega := 7/10, smoothing := false,
    replacement := false }
private def sti : IDRs.St ℚ :=
  IDRs.init prmi (IDRs.Work.fresh 3) xi (residual fi Ai xi) (nrmA stdIp Amgcl.rsqrt (residual fi Ai xi))

/-- two complete passes exist on this input (then the residual is exactly zero and the third pass leaves the loop in its
`k`-step) -/
example : (idrPass prmi Amgcl.rsqrt Ai Pi Pvi fi 0 sti 2).isSome = true := by decide +kernel

/-- `idrs1_residual_in_sonneveld_space` on this input: after the two complete passes `r ∈ G₂` and `dim G₂ ≤ 1` -/
example (st : IDRs.St ℚ) (h : idrPass prmi Amgcl.rsqrt Ai Pi Pvi fi 0 sti 2 = some st) :
    vecOf 3 st.w.r ∈ idrSpace (Tl .right (matOf Ai 3 3) LinearMap.id) (shadowSpace (vecOf 3 (Pvi 0)))
      (idrOmega prmi Amgcl.rsqrt Ai Pi Pvi fi 0 sti) 2 ∧
    Module.finrank ℚ (idrSpace (Tl .right (matOf Ai 3 3) LinearMap.id) (shadowSpace (vecOf 3 (Pvi 0)))
      (idrOmega prmi Amgcl.rsqrt Ai Pi Pvi fi 0 sti) 2) + 2 ≤ 3 :=
  let r := idrs1_residual_in_sonneveld_space 3 Ai (by decide) rfl rfl Pi LinearMap.id (pDenotes_copy 3) Pvi rfl prmi rfl
    rfl Amgcl.rsqrt fi 0 (IDRs.Work.fresh 3) xi 2 st h
  ⟨r.2.1, r.2.2.1⟩

/-- `idrs_terminates_partial` (b) on this input: the hypotheses hold, and the call indeed returns after `4 ≤ 6`
iterations with the exact solution `(1/18, 8/9, 5/18)` -/
example : nrmA stdIp Amgcl.rsqrt (vclear 3 : Vec ℚ) = 0 ∧
    (match IDRs.solve prmi stdIp Amgcl.rsqrt 0 Ai Pi Pvi (IDRs.Work.fresh 3) fi xi with
      | .ok (it, res, x, _) => decide (it = 4 ∧ res = 0 ∧ x = #[1/18, 8/9, 5/18] ∧ residual fi Ai x = vclear 3)
      | _ => false) = true := by decide +kernel

example (it : ℕ) (res : ℚ) (x : Vec ℚ) (w : IDRs.Work ℚ)
    (h : IDRs.solve prmi stdIp Amgcl.rsqrt 0 Ai Pi Pvi (IDRs.Work.fresh 3) fi xi = .ok (it, res, x, w)) : it ≤ 2 * 3 :=
  (idrs_terminates_partial 3 Ai (by decide) rfl rfl Pi LinearMap.id (pDenotes_copy 3) Pvi rfl prmi rfl rfl Amgcl.rsqrt).2
    0 fi (IDRs.Work.fresh 3) xi (by decide +kernel)
    (fun nf hnf => by
      have : nf = nrmA stdIp Amgcl.rsqrt fi := by
        have h5 : prologueA prmi.nsSearch stdIp Amgcl.rsqrt 0 fi = .go (nrmA stdIp Amgcl.rsqrt fi) :=
          (prologueA_go _ _ _ _ _ _).mpr (Or.inr ⟨by decide +kernel, rfl⟩)
        rw [h5] at hnf; cases hnf; rfl
      rw [this]; decide +kernel)
    it res x w h

end nonvacuous

end Amgcl.C05d
