import Amgcl.Proofs.LockstepCG
import Amgcl.Proofs.DistConsolidate
import Amgcl.Properties.C01
/-!
# C12 — the distributed solve is truthful and rank-consistent

**What is theorem here.**  `amgcl::mpi::make_solver` runs the serial Krylov template with rank-local vectors, a
`distributed_matrix`, the distributed preconditioner and `mpi::inner_product`.  `Model/Lockstep.lean` fixes the
interface through which a solver touches its data as an instruction set (axpby, axpbypcz, copy, clear, spmv,
residual, preconditioner, lin_comb, inner product, arbitrary rank-local scalar computations on a scalar state of any
type, vector operands selected by the rank's own scalars, `if`/`while`/`for` on scalars) with a
serial semantics `run` and a distributed semantics `drun` in which **every rank holds its own copy of every
scalar** and a branch on which two ranks disagree blocks the run.

* `lockstep_refines_serial` — for EVERY program over the instruction set, every rank count `≥ 1`, every contiguous
  partition (empty ranks included): the distributed run never blocks (all ranks take the same branches), all ranks
  hold the same scalars, and the ranks' vector parts are the parts of the serial run's vectors.
* `lockstep_cg_refines_serial` — CG: the statements of solver/cg.hpp written in the instruction set have the serial
  semantics `Solver.CG.run` (the statement-by-statement model of C01/C05, `cg_prog_eq_run`), hence the distributed
  CG returns on every rank the `(iters, resid)` of the serial CG on the assembled system, and the ranks' parts of `x`
  assemble to the serial solution.
* `lockstep_cg_truthful` — with `C01.cg_truthful`: the residual every rank reports is the true global residual
  `‖f − A x‖ / ‖f‖` of the assembled solution.
* `coarse_consolidation_assembles` — `solver_base::init`: the group a rank computes is a block of consecutive
  active ranks, the master's consolidated chunk is a contiguous range of global rows in global order, and the two
  ways the code addresses a slave's rows (`shift`, `domain[i] - d0`) agree.

**The preconditioner** (`Properties/C12b.lean`).  The hypothesis `Setup.pd` (the distributed preconditioner refines a
serial one) is PROVED for the solve phase of `mpi::amg` with damped Jacobi / SPAI-0 smoothing and the one-master
coarse solver: `C12.dist_amg_cycle_eq_gathered`, `C12.mpi_amg_setup`, `C12.lockstep_cg_mpi_amg` — the distributed
cycle is the serial cycle of the gathered hierarchy, for whatever transfer operators the setup phase produced.

**What is certificate / test (harness/h_mpi_solve.cpp, real MPI, double).**  The SETUP phase of `mpi::amg` is not
modelled: PMIS aggregation, distributed Galerkin products, repartitioning and the direct coarse solver are checked on
every explored input by predicates
on the gathered outputs (aggregates form a global partition; `A_c = s·R·A·P`, exactly on dyadic data; `R = Pᵀ`;
`A x = f` for the consolidated direct solver), together with bitwise equality of `(iters, resid)` across ranks and
the true residual of the gathered solution.  Convergence per combination is a labelled test.  The other Krylov
methods (Richardson, BiCGStab, GMRES, FGMRES, preonly) are in `Properties/C12c.lean`: each is written in the
instruction set, proved equal to its C01/C05/C15 model, and gets `lockstep_S_refines_serial` / `lockstep_S_truthful`;
LGMRES, IDR(s), BiCGStab(L) are not yet written in the set.  IEEE rounding is not modelled: in `double` the ranks agree bitwise because
`MPI_Allreduce` delivers one value to all ranks (checked by the harness), not because of these theorems.
-/
namespace Amgcl.C12
open Amgcl Amgcl.Dist Amgcl.Lockstep

section generic
variable {K : Type} [CommRing K] [DecidableEq K] {σ : Type}

/-- **`lockstep_refines_serial`.**  Start every rank with its part of the serial vectors and a copy of the serial
scalars.  Then for every program the distributed run terminates without blocking on a branch, and in the final
state every rank holds (a) exactly the serial scalars — in particular the same iteration counter and the same
reported residual, which is therefore the residual computed from GLOBAL inner products — and (b) its part of
every serial vector. -/
theorem lockstep_refines_serial (A : CRS K) (P : Vec K → Vec K) (C : DCtx K) (hS : Setup A P C)
    (prog : Prog K σ) (s : St K σ) (hsize : ∀ v, (s.vec v).size = C.part.sum) :
    ∃ ds', drun C prog (distribute C.part s) = some ds' ∧
      (∀ r, r < C.part.length → ds'.scal r = (run A P (innerProductSerial C.conj) prog s).scal) ∧
      ∀ v, ds'.vec v = splitVec ((run A P (innerProductSerial C.conj) prog s).vec v) C.part ∧
           concatVec (ds'.vec v) = (run A P (innerProductSerial C.conj) prog s).vec v := by
  obtain ⟨ds', h1, h2, h3⟩ := run_sim A P C hS prog _ s (rel_distribute C.part s hsize)
  refine ⟨ds', h1, h2, fun v => ⟨(h3 v).2, ?_⟩⟩
  rw [(h3 v).2]
  exact concat_splitVec _ _ (h3 v).1

end generic

section cg
variable {K : Type} [Field K] [DecidableEq K] [LT K] [DecidableLT K]
open Amgcl.Solver

/-- **CG, distributed = serial.**  All ranks run the CG statements in lockstep, return the same `(iters, resid)` as
the serial `Solver.CG.run` on the assembled system with the global inner product, and hold the parts of its `x`. -/
theorem lockstep_cg_refines_serial (A : CRS K) (P : Vec K → Vec K) (C : DCtx K) (hS : Setup A P C)
    (prm : Params K) (sqrt : K → K) (eps : K) (ws : Solver.CG.Work K) (f x0 : Vec K)
    (hf : f.size = C.part.sum) (hx : x0.size = C.part.sum) (hr : ws.r.size = C.part.sum) (hs : ws.s.size = C.part.sum)
    (hp : ws.p.size = C.part.sum) (hq : ws.q.size = C.part.sum) :
    ∃ ds', drun C (Lockstep.CG.prog prm sqrt eps) (distribute C.part (Lockstep.CG.initState ws f x0)) = some ds' ∧
      ds'.vec Lockstep.CG.vX
        = splitVec (Solver.CG.run prm (innerProductSerial C.conj) sqrt eps A P ws f x0).x C.part ∧
      ∃ (n : Nat) (res : K),
        (Solver.CG.run prm (innerProductSerial C.conj) sqrt eps A P ws f x0).out = .ok (n, res) ∧
        ∀ r, r < C.part.length →
          ds'.scal r Lockstep.CG.sOut = res ∧ ds'.scal r Lockstep.CG.sCnt = (n : K) := by
  have hsize : ∀ v, ((Lockstep.CG.initState ws f x0).vec v).size = C.part.sum := by
    intro v
    unfold Lockstep.CG.initState
    simp only
    split_ifs <;> assumption
  obtain ⟨ds', h1, h2, h3⟩ := lockstep_refines_serial A P C hS (Lockstep.CG.prog prm sqrt eps) _ hsize
  obtain ⟨e1, _, n, e3, e4⟩ := Lockstep.CG.cg_prog_eq_run prm (innerProductSerial C.conj) sqrt eps A P ws f x0
  refine ⟨ds', h1, by rw [(h3 _).1, e1], n, _, e3, fun r hr => ?_⟩
  rw [h2 r hr]
  exact ⟨rfl, e4⟩

/-- **… and the reported residual is the true global one**: whenever the serial model returns `(it, res, x, w)`, the
value `res` that every rank reports is `‖f − A x‖ / ‖f‖` of that `x` (of which the ranks hold the parts), with the
norm taken through the global inner product (`C01.cg_truthful`). -/
theorem lockstep_cg_truthful (A : CRS K) (P : Vec K → Vec K) (C : DCtx K) (hS : Setup A P C)
    (prm : Params K) (sqrt : K → K) (eps : K) (ws : Solver.CG.Work K) (f x0 : Vec K)
    (hPn : ∀ v, (P v).size = A.ncols) (it : Nat) (res : K) (x : Vec K) (w : Solver.CG.Work K)
    (h : Solver.CG.solve prm (innerProductSerial C.conj) sqrt eps A P ws f x0 = .ok (it, res, x, w)) :
    res = reported (prologue prm.nsSearch (innerProductSerial C.conj) sqrt eps f)
            (nrm (innerProductSerial C.conj) sqrt (residual f A x)) :=
  C01.cg_truthful prm _ sqrt eps A hS.wf P hPn ws f x0 it res x w h

end cg

/-! ## consolidation of the coarse problem -/

/-- **`coarse_consolidation_assembles`.**  For an active rank: (1) its group (master + slaves) is a block of
consecutive active ranks; (2) the master's consolidated chunk — its own rows followed by its slaves' rows in slave
order — is the contiguous range of global rows starting at the master's first row, in global order, ending with
the last slave's last row; (3) for every slave the row offset `domain[i] − d0` used when its columns and values are
received equals the running `shift` used when its row sizes were received. -/
theorem coarse_consolidation_assembles (cnt : List Nat) (commSize rank : Nat) (hr : rank ∈ activeRanks cnt) :
    let g := groupOf cnt commSize rank
    (∃ pre post, activeRanks cnt = pre ++ g.master :: g.slaves ++ post) ∧
    (∃ L, consolidatedRows cnt g = (List.range L).map (dom cnt g.master + ·) ∧
          dom cnt g.master + L = dom cnt ((g.master :: g.slaves).getLast (List.cons_ne_nil _ _) + 1)) ∧
    ∀ j, j < g.slaves.length →
      domainRow cnt g.master (g.slaves.getD j 0) = shiftRow (dom cnt (g.master + 1) - dom cnt g.master) g.counts j := by
  intro g
  obtain ⟨pre, post, hb⟩ := groupOf_block cnt commSize rank hr
  obtain ⟨c1, c2⟩ := chain_rows cnt g.slaves g.master pre post hb
  exact ⟨⟨pre, post, hb⟩, c1, c2⟩

/-! ## non-vacuity -/

/-- the 1-D Laplacian on 3 ranks (the middle one empty) with the identity preconditioner satisfies `Setup` -/
def exA : CRS Rat := ⟨3, #[[(0, 2), (1, -1)], [(0, -1), (1, 2), (2, -1)], [(1, -1), (2, 2)]]⟩
def exC : DCtx Rat := { Ds := split exA [2, 0, 1] [2, 0, 1], part := [2, 0, 1], Pd := id, conj := id }

example : Setup exA id exC :=
  { wf := by decide, rows := by decide, cols := by decide, ds := rfl, np := by decide,
    psize := fun _ h => h, pd := fun _ _ => rfl }

/-- … and so does every rank-local diagonal scaling `x = M .* rhs` (what `relaxation::spai0::apply` /
`as_preconditioner` does), each rank using its part of `M`: the hypothesis `Setup.pd` is satisfiable by a
preconditioner that is not the identity. -/
theorem setup_diag_precond {K : Type} [CommRing K] [DecidableEq K] (A : CRS K) (p : List Nat) (M : Vec K) (hA : A.WF)
    (hr : p.sum = A.nrows) (hc : p.sum = A.ncols) (hnp : 0 < p.length) (hM : M.size = p.sum) (conj : K → K) :
    Setup A (fun g => vmul 1 M g 0 #[])
      { Ds := split A p p, part := p, conj := conj,
        Pd := fun gs => (List.range p.length).map (fun r => vmul 1 (vecPart M p r) (gs.getD r #[]) 0 #[]) } :=
  { wf := hA, rows := hr, cols := hc, ds := rfl, np := hnp,
    psize := fun g hg => (diag_precond_refines M p hM g hg).2,
    pd := fun g hg => (diag_precond_refines M p hM g hg).1 }

/-- the CG refinement instantiated on `exA` (3 ranks, the middle one empty): all hypotheses are dischargeable -/
example : ∃ ds', drun exC (Lockstep.CG.prog ⟨3, 0, 0, false⟩ id 0)
      (distribute exC.part (Lockstep.CG.initState (Solver.CG.Work.fresh 3) #[1, 2, 3] #[0, 0, 0])) = some ds' ∧
    ds'.vec Lockstep.CG.vX
      = splitVec (Solver.CG.run ⟨3, 0, 0, false⟩ (innerProductSerial id) id 0 exA id (Solver.CG.Work.fresh 3)
          #[1, 2, 3] #[0, 0, 0]).x exC.part :=
  (lockstep_cg_refines_serial exA id exC
    { wf := by decide, rows := by decide, cols := by decide, ds := rfl, np := by decide,
      psize := fun _ h => h, pd := fun _ _ => rfl }
    ⟨3, 0, 0, false⟩ id 0 (Solver.CG.Work.fresh 3) #[1, 2, 3] #[0, 0, 0] (by decide) (by decide)
    (by simp [Solver.CG.Work.fresh]; decide) (by simp [Solver.CG.Work.fresh]; decide)
    (by simp [Solver.CG.Work.fresh]; decide) (by simp [Solver.CG.Work.fresh]; decide)).imp
    (fun _ h => ⟨h.1, h.2.1⟩)

/-- ranks 1 and 3 are empty: the active ranks are 0, 2, 4 and rank 4 reports to rank 0 -/
example : activeRanks [2, 0, 3, 0, 1] = [0, 2, 4] := by decide
example : 4 ∈ activeRanks [2, 0, 3, 0, 1] := by decide

end Amgcl.C12
