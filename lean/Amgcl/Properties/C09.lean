import Amgcl.Proofs.SchedKernels
import Amgcl.Proofs.SchedGersh
import Amgcl.Proofs.SchedMicro
import Amgcl.Proofs.SchedSort
import Amgcl.Proofs.SchedLevelsN
/-!
# C09 — results do not depend on the number of threads or their interleaving

Only property theorems live here (helper lemmas: `Amgcl/Proofs/Sched*.lean`; model: `Amgcl/Model/Schedule.lean`).

Level-scheduled kernels (`gauss_seidel::parallel_sweep`, `ilu_solve::sptr_solve`):

* `tasks_partition`   for every thread count `nt ≥ 1` the tasks of a level, in thread order, are exactly the rows
  of that level in increasing order (all level vectors, all sizes).
* `counting_sort_eq_spec`, `counting_sort_is_stable_sort`, `counting_sort_level_segments`, `counting_sort_in_bounds`   step 2 of the constructors
  as the code does it (`Model/ScheduleSort.lean`: histogram, in-place `std::partial_sum`, scatter
  `order[start[level[i]]++] = i`, `std::rotate`) yields, for every level vector, a permutation of `0..n-1` sorted by
  level with ties in increasing row order — the stable (merge) sort of the rows by level — and `start[lev]` = number of
  rows below level `lev`.  `schedule_literal_eq_spec`: steps 2–4 executed statement by statement (`scheduleLit`, what
  the driver runs) give the task table `tasks` all other theorems speak about; `levels_literal_eq_spec`,
  `constructor_literal_eq_spec`: the same from the pattern on, with `nlev` accumulated inside the loop of step 1; `lit_*`: the main theorems restated for
  the literal schedule (every row exactly once, dependencies in strictly earlier levels, no conflict inside a level,
  every admitted execution = serial).
* `ilu_levels_no_conflict`, `gs_levels_no_conflict`   a row never shares a level with a row whose unknown it reads;
  dependencies always point to strictly lower levels.  ILU: every strictly triangular pattern.  Gauss–Seidel:
  **every** pattern for the level loop of `repo_patches/fix_gs_parallel_levels.patch` (`gsLevels`).
* `gs_conflict_counterexample`, `gs_asis_exec_counterexample`   the level loop of the unpatched tree
  (`gsLevelsAsIs`, gauss_seidel.hpp:220-237) puts rows 0 and 1 of the 2×2 upper triangular pattern into the same
  level, and the skeleton then admits an execution whose result differs from the serial sweep.
  `gs_levels_no_conflict_partial`: the unpatched loop is correct for structurally symmetric patterns.
* `drf`   no location written by one task is accessed by another task of the same level.
* `gs_any_interleaving_eq_serial`, `ilu_any_interleaving_eq_serial`   every row-update sequence admitted by the
  loop/pragma skeleton (`Exec`, any thread count, any interleaving between barriers) yields the serial sweep /
  serial triangular solve.  The Gauss–Seidel statement uses no algebraic law (any carrier with any `+ - * /`:
  bit-identical in IEEE arithmetic too); the ILU statement is bit-identical against the row-wise serial loop and
  equal in every commutative ring against `serial_solve` (which subtracts in place: different rounding).
* `gs_any_load_store_interleaving_eq_serial`, `ilu_any_load_store_interleaving_eq_serial`   the same at the
  granularity of single memory accesses (`Model/ScheduleMicro.lean`): every interleaving of the individual loads of
  `x[c]` and stores of `x[i]` of the threads inside a level, levels separated by the barrier, yields the serial loop.
* `*_thread_indep`   hence the dispatching kernels (serial fallback below 4 threads) do not depend on the thread count.
* `no_barrier_counterexample`   the barrier is necessary: without it the skeleton admits a wrong execution.
* `gershgorin_thread_indep`   the `omp critical` maximum of `spectral_radius` is the maximum over all rows.

The skeleton the theorems speak about is re-extracted from the sources on every run
(`Amgcl.Generated.SyncSkeleton.skeleton_ok`, obligation of this property).  Cross-thread sums: `Amgcl.C07.
innerProduct_thread_indep`.  Not proved here: interleavings below row granularity and the run-time behaviour of the
OpenMP barrier (covered by `drf` + skeleton translator + stress runs, see `assumptions` in tools/checks/C09.json).
-/
namespace Amgcl.C09
open Amgcl Amgcl.Sched

/-! ## schedule tables -/

/-- For every `nt ≥ 1` the tasks of a level partition exactly the rows of that level, in order. -/
theorem tasks_partition (level : Array Nat) (nt : Nat) (hnt : 1 ≤ nt) (lev : Nat) (hlev : lev < nlev level) :
    (levelTasks (tasks level nt) lev).flatten = levelRows level lev
    ∧ (levelTasks (tasks level nt) lev).length = nt
    ∧ (∀ i, i ∈ levelRows level lev ↔ i < level.size ∧ level.getD i 0 = lev)
    ∧ (levelRows level lev).Pairwise (· < ·) :=
  ⟨levelTasks_flatten level nt hnt lev hlev, by simp [levelTasks, tasks],
   mem_levelRows level lev, levelRows_sorted level lev⟩

/-- all rows are scheduled exactly once: the concatenation of all levels is a permutation of `0..n-1` -/
theorem order_is_permutation (level : Array Nat) : (order level).Perm (List.range level.size) := order_perm level

example : tasks #[0, 1, 0, 0, 1, 0, 0] 3 = [[[0, 2], [1]], [[3, 5], [4]], [[6], []]] := by decide

/-! ## levels -/

/-- ILU (ilu_solve.hpp:288-301): for every strictly triangular pattern of any size a row's level is strictly
above the level of every row it reads. -/
theorem ilu_levels_no_conflict (lower : Bool) (P : Pattern) (hP : StrictTri lower P)
    (i : Nat) (hi : i < P.size) (c : Nat) (hc : c ∈ P.getD i []) (hcN : c < P.size) :
    (iluLevels lower P).getD c 0 < (iluLevels lower P).getD i 0 :=
  (levelsGen_dep _ _ lower P (ilu_sound lower P hP) i hi c hc hcN).1 rfl

example : StrictTri true #[[], [0], [0, 1], [], [3, 0]] := by
  intro i hi c hc
  have : i < 5 := hi
  match i, this with
  | 0, _ => simp [Array.getD] at hc
  | 1, _ => simp [Array.getD] at hc; subst hc; decide
  | 2, _ => simp [Array.getD] at hc; rcases hc with h | h <;> subst h <;> decide
  | 3, _ => simp [Array.getD] at hc
  | 4, _ => simp [Array.getD] at hc; rcases hc with h | h <;> subst h <;> decide
example : iluLevels true #[[], [0], [0, 1], [], [3, 0]] = #[0, 1, 2, 0, 1] := by decide

/-- Gauss–Seidel with the repaired level loop: for **every** pattern, a row that reads `x[c]` is in a strictly
higher level than row `c` if `c` is swept earlier, and in a strictly lower level if `c` is swept later. -/
theorem gs_levels_no_conflict (fwd : Bool) (P : Pattern)
    (i : Nat) (hi : i < P.size) (c : Nat) (hc : c ∈ P.getD i []) (hcN : c < P.size) (hne : c ≠ i) :
    (before fwd c i = true → (gsLevels fwd P).getD c 0 < (gsLevels fwd P).getD i 0) ∧
    (before fwd i c = true → (gsLevels fwd P).getD i 0 < (gsLevels fwd P).getD c 0) ∧
    (gsLevels fwd P).getD c 0 ≠ (gsLevels fwd P).getD i 0 := by
  have h := gsLevels_respects fwd P i (by rw [gsLevels_size]; exact hi) c hc (by rw [gsLevels_size]; exact hcN) hne
  refine ⟨h.1, h.2, ?_⟩
  rcases before_total fwd c i hne with hb | hb
  · exact Nat.ne_of_lt (h.1 hb)
  · exact Nat.ne_of_gt (h.2 hb)

/-- The unpatched level loop (gauss_seidel.hpp:220-237) is correct on structurally symmetric patterns.

Full statement (false on the current tree, see `gs_conflict_counterexample`): the same for every pattern.
Missing: nothing can be added — the level of row `i` ignores the entries `c > i` (forward) / `c < i` (backward). -/
theorem gs_levels_no_conflict_partial (fwd : Bool) (P : Pattern) (hsym : StructSymm P)
    (i : Nat) (hi : i < P.size) (c : Nat) (hc : c ∈ P.getD i []) (hcN : c < P.size) (hne : c ≠ i) :
    (gsLevelsAsIs fwd P).getD c 0 ≠ (gsLevelsAsIs fwd P).getD i 0 := by
  have h := gsLevelsAsIs_respects fwd P hsym i (by rw [gsLevelsAsIs_size]; exact hi) c hc
    (by rw [gsLevelsAsIs_size]; exact hcN) hne
  rcases before_total fwd c i hne with hb | hb
  · exact Nat.ne_of_lt (h.1 hb)
  · exact Nat.ne_of_gt (h.2 hb)

example : StructSymm #[[0, 1], [0, 1, 2], [1, 2]] := by
  intro i hi c hc _
  have : i < 3 := hi
  match i, this with
  | 0, _ => simp [Array.getD] at hc; rcases hc with h | h <;> subst h <;> decide
  | 1, _ => simp [Array.getD] at hc; rcases hc with h | h | h <;> subst h <;> decide
  | 2, _ => simp [Array.getD] at hc; rcases hc with h | h <;> subst h <;> decide

/-- **Defect of the current tree**: on the 2×2 upper triangular pattern the forward level loop puts row 0 and
row 1 into the same level although row 0 reads `x[1]` (and symmetrically for the backward loop on the lower
triangular pattern); the repaired loop separates them. -/
theorem gs_conflict_counterexample :
    gsLevelsAsIs true #[[0, 1], [1]] = #[0, 0] ∧ gsLevelsAsIs false #[[0], [0, 1]] = #[0, 0]
    ∧ gsLevels true #[[0, 1], [1]] = #[0, 1] ∧ gsLevels false #[[0], [0, 1]] = #[1, 0] := by decide

/-- … and the skeleton then admits an execution (thread 1 before thread 0, 4 threads) whose result differs from
the serial forward sweep: `A = [[1,1],[0,1]]`, `rhs = (0,1)`, `x = (5,7)`. -/
theorem gs_asis_exec_counterexample :
    let A : CRS Int := ⟨2, #[[(0, 1), (1, 1)], [(1, 1)]]⟩
    let level := gsLevelsAsIs true (pattern A)
    Exec gsExpectedSkeleton (tasks level 4) (nlev level) [1, 0]
    ∧ gsParallelSweep A #[0, 1] [1, 0] #[5, 7] = #[-1, 1]
    ∧ gsSerialSweep true A #[0, 1] #[5, 7] = #[-7, 1] := by
  refine ⟨?_, by decide, by decide⟩
  show Exec gsExpectedSkeleton [[[0]], [[1]], [[]], [[]]] 1 [1, 0]
  unfold Exec
  rw [if_pos (by decide)]
  have h : LevelwiseExec [[[0]], [[1]], [[]], [[]]] [0] ([1, 0] ++ []) := by
    refine LevelwiseExec.cons ?_ LevelwiseExec.nil
    show Interleave [[0], [1], [], []] [1, 0]
    exact Interleave.step (pre := [[0]]) (l := []) (post := [[], []])
      (Interleave.step (pre := []) (l := []) (post := [[], [], []])
        (Interleave.done (by intro l hl; simp at hl; exact hl)))
  simpa using h

/-! ## no data race inside a level -/

/-- No location written by one task (`x[i]`, `i` a row of the task) is accessed by another task of the same level
(which accesses `x[j]` and `x[c]`, `c` a column of row `j`, for its rows `j`) — for any level vector that respects
the dependencies, in particular `gsLevels` (all patterns) and `iluLevels` (strictly triangular patterns). -/
theorem drf (P : Pattern) (fwd : Bool) (level : Array Nat) (hdep : RespectsDeps (fun i => P.getD i []) fwd level)
    (nt : Nat) (hnt : 1 ≤ nt) (lev : Nat) (_hlev : lev < nlev level)
    (t1 t2 : Nat) (h1 : t1 < nt) (h2 : t2 < nt) (hne : t1 ≠ t2)
    (i : Nat) (hi : i ∈ taskRows (levelRows level lev) nt t1)
    (j : Nat) (hj : j ∈ taskRows (levelRows level lev) nt t2) :
    i ≠ j ∧ i ∉ P.getD j [] ∧ j ∉ P.getD i [] := by
  have hsub : ∀ t, t < nt → ∀ r, r ∈ taskRows (levelRows level lev) nt t → r ∈ levelRows level lev := by
    intro t ht r hr
    rw [← taskRows_flatten (levelRows level lev) nt hnt]
    exact List.mem_flatten.mpr ⟨_, List.mem_map.mpr ⟨t, List.mem_range.mpr ht, rfl⟩, hr⟩
  have hij : i ≠ j := by
    intro h; subst h
    exact tasks_disjoint level nt hnt lev t1 t2 h1 h2 hne i hi hj
  obtain ⟨hiN, hil⟩ := (mem_levelRows level lev i).mp (hsub t1 h1 i hi)
  obtain ⟨hjN, hjl⟩ := (mem_levelRows level lev j).mp (hsub t2 h2 j hj)
  refine ⟨hij, ?_, ?_⟩
  · intro hmem
    have := hdep j hjN i hmem hiN hij
    rcases before_total fwd i j hij with hb | hb
    · have := this.1 hb; omega
    · have := this.2 hb; omega
  · intro hmem
    have := hdep i hiN j hmem hjN (Ne.symm hij)
    rcases before_total fwd j i (Ne.symm hij) with hb | hb
    · have := this.1 hb; omega
    · have := this.2 hb; omega

/-- `drf` for the repaired Gauss–Seidel schedule: every pattern -/
theorem drf_gs (fwd : Bool) (P : Pattern) (nt : Nat) (hnt : 1 ≤ nt) (lev : Nat) (hlev : lev < nlev (gsLevels fwd P))
    (t1 t2 : Nat) (h1 : t1 < nt) (h2 : t2 < nt) (hne : t1 ≠ t2)
    (i : Nat) (hi : i ∈ taskRows (levelRows (gsLevels fwd P) lev) nt t1)
    (j : Nat) (hj : j ∈ taskRows (levelRows (gsLevels fwd P) lev) nt t2) :
    i ≠ j ∧ i ∉ P.getD j [] ∧ j ∉ P.getD i [] :=
  drf P fwd _ (gsLevels_respects fwd P) nt hnt lev hlev t1 t2 h1 h2 hne i hi j hj

/-- `drf` for the ILU schedules: every strictly triangular pattern -/
theorem drf_ilu (lower : Bool) (P : Pattern) (hP : StrictTri lower P) (nt : Nat) (hnt : 1 ≤ nt) (lev : Nat)
    (hlev : lev < nlev (iluLevels lower P)) (t1 t2 : Nat) (h1 : t1 < nt) (h2 : t2 < nt) (hne : t1 ≠ t2)
    (i : Nat) (hi : i ∈ taskRows (levelRows (iluLevels lower P) lev) nt t1)
    (j : Nat) (hj : j ∈ taskRows (levelRows (iluLevels lower P) lev) nt t2) :
    i ≠ j ∧ i ∉ P.getD j [] ∧ j ∉ P.getD i [] :=
  drf P lower _ (iluLevels_respects lower P hP) nt hnt lev hlev t1 t2 h1 h2 hne i hi j hj

/-! ## steps 2–4 of the constructors as the code does them -/

/-- **Step 2, statement by statement = its specification**, for every level vector: after the histogram, the in-place
`std::partial_sum`, the scatter loop `order[start[level[i]]++] = i` and `std::rotate(…); start[0] = 0`, the array
`order` holds the rows of level 0, then those of level 1, …, each level in increasing row order, and `start[lev]` is
the number of rows whose level is below `lev` (`lev = 0..nlev`).  The same for the variant `countingSort` the driver
has always executed next to the specification. -/
theorem counting_sort_eq_spec (level : Array Nat) :
    countingSortLit level = ((order level).toArray, ((List.range (nlev level + 1)).map (start level)).toArray)
    ∧ countingSort level = (order level, (List.range (nlev level + 1)).map (start level)) :=
  ⟨countingSortLit_eq level, countingSort_eq level⟩

example : countingSortLit #[0, 1, 0, 2, 1, 0, 0] = (#[0, 2, 5, 6, 1, 4, 3], #[0, 4, 6, 7]) := by decide +kernel
example : order #[0, 1, 0, 2, 1, 0, 0] = [0, 2, 5, 6, 1, 4, 3] := by decide

/-- **The counting sort is the stable sort of the rows by level**: for every level vector its `order` output is a
permutation of `0..n-1` (every row exactly once), sorted by level, rows of equal level in increasing row order; it is
the list `List.mergeSort` (a stable sort: `List.sublist_mergeSort`) produces from `0..n-1` under "`level[a] ≤
level[b]`". -/
theorem counting_sort_is_stable_sort (level : Array Nat) :
    ((countingSortLit level).1.toList).Perm (List.range level.size)
    ∧ ((countingSortLit level).1.toList).Pairwise
        (fun a b => level.getD a 0 < level.getD b 0 ∨ (level.getD a 0 = level.getD b 0 ∧ a < b))
    ∧ (countingSortLit level).1.toList
        = (List.range level.size).mergeSort (fun a b => decide (level.getD a 0 ≤ level.getD b 0)) := by
  rw [countingSortLit_eq]
  exact ⟨order_perm level, order_pairwise level, order_eq_mergeSort level⟩

example : (List.range 7).mergeSort (fun a b => decide (#[0, 1, 0, 2, 1, 0, 0].getD a 0 ≤ #[0, 1, 0, 2, 1, 0, 0].getD b 0))
    = [0, 2, 5, 6, 1, 4, 3] :=
  (counting_sort_is_stable_sort #[0, 1, 0, 2, 1, 0, 0]).2.2.symm.trans (by decide +kernel)

/-- the rotated `start` delimits the levels inside `order`: the rows of level `lev` are `order[start[lev] ..
start[lev+1])`, and `start[lev+1] - start[lev]` (the `lev_size` of step 3) is their number -/
theorem counting_sort_level_segments (level : Array Nat) (lev : Nat) (hlev : lev < nlev level) :
    let order := (countingSortLit level).1
    let start := (countingSortLit level).2
    ((order.toList.drop (start.getD lev 0)).take (start.getD (lev + 1) 0 - start.getD lev 0)) = levelRows level lev
    ∧ start.getD (lev + 1) 0 - start.getD lev 0 = (levelRows level lev).length
    ∧ start.getD 0 0 = 0 ∧ start.getD (nlev level) 0 = level.size := by
  simp only [countingSortLit_eq]
  rw [start_array_getD level lev (by omega), start_array_getD level (lev + 1) (by omega),
    start_array_getD level 0 (by omega), start_array_getD level (nlev level) (by omega)]
  refine ⟨(levelRows_eq_segment level lev hlev).symm, by rw [start_succ]; omega, start_zero level, ?_⟩
  rw [← flatMap_levelRows_length]
  exact order_length level

/-- **No out-of-bounds access in steps 2–4** (the model's arrays ignore out-of-range writes and read 0 out of range,
so this is a separate statement): for every level vector, in every iteration the histogram increment
`++start[level[i]+1]`, the read/increment of `start[level[i]]` and the write `order[start[level[i]]] = i` are in
bounds; and every `task(beg, end)` of step 3 satisfies `beg ≤ end ≤ n`, so step 4 reads `order[r]` in bounds. -/
theorem counting_sort_in_bounds (level : Array Nat) :
    (∀ k, k < level.size →
      level.getD k 0 + 1 < (csHist level).size ∧
      (let os := (List.range k).foldl (scatterStep level)
          (Array.replicate level.size 0, csPsum (csHist level) (nlev level + 1))
       level.getD k 0 < os.2.size ∧ os.2.getD (level.getD k 0) 0 < os.1.size))
    ∧ ∀ nt tid lev, tid < nt → lev < nlev level →
      (let t := ((tasksLit (countingSortLit level).2 (nlev level) nt).getD tid []).getD lev (0, 0)
       t.1 ≤ t.2 ∧ t.2 ≤ (countingSortLit level).1.size) :=
  ⟨fun k hk => scatter_in_bounds level k hk,
   fun nt tid lev htid hlev => tasksLit_in_bounds level nt tid lev htid hlev⟩

/-- **Steps 2–4 as the code runs them produce the task table of the specification**: for every level vector and every
thread count, gathering `order[t.beg .. t.end)` for the `task(beg, end)` that step 3 computes from the rotated `start`
gives, for thread `tid` and level `lev`, the `tid`-th chunk of the rows of level `lev`.  Hence every theorem of this
file about `tasks level nt` is a theorem about `scheduleLit level nt` — the function the driver executes and whose
output is compared with the real `tasks`/`ord` tables. -/
theorem schedule_literal_eq_spec (level : Array Nat) (nt : Nat) : scheduleLit level nt = tasks level nt :=
  scheduleLit_eq_tasks level nt

example : scheduleLit #[0, 1, 0, 0, 1, 0, 0] 3 = [[[0, 2], [1]], [[3, 5], [4]], [[6], []]] := by decide +kernel
example : tasksLit (countingSortLit #[0, 1, 0, 0, 1, 0, 0]).2 2 3 = [[(0, 2), (5, 6)], [(2, 4), (6, 7)], [(4, 5), (7, 7)]] := by
  decide +kernel

/-- **Step 1 with the accumulator `nlev = std::max(nlev, l+1)`**: for every pattern the loop of step 1 as the code
runs it (`levelsGenN`: level vector and `nlev` threaded through the loop) returns the level vector of `levelsGen` and
`nlev` = 1 + the largest level of the *final* vector — a row's level is final once the row has been visited, because
the repair loop only raises rows that are visited later.  All three instances: ILU, Gauss–Seidel unpatched, repaired. -/
theorem levels_literal_eq_spec (b : Bool) (P : Pattern) :
    iluLevelsN b P = (iluLevels b P, nlev (iluLevels b P))
    ∧ gsLevelsAsIsN b P = (gsLevelsAsIs b P, nlev (gsLevelsAsIs b P))
    ∧ gsLevelsN b P = (gsLevels b P, nlev (gsLevels b P)) :=
  ⟨iluLevelsN_eq b P, gsLevelsAsIsN_eq b P, gsLevelsN_eq b P⟩

example : gsLevelsN true #[[0, 1], [1, 2], [0, 2], [3]] = (#[0, 1, 2, 0], 3) := by decide +kernel

/-- **The constructors from the pattern to the task table, statement by statement** (step 1 with its `nlev`, counting
sort sized by that `nlev`, chunking, gathering through `order`) compute the task table `tasks (levels P) nt` the
theorems of this file speak about — every pattern, every thread count, both kernels, both directions. -/
theorem constructor_literal_eq_spec (b : Bool) (P : Pattern) (nt : Nat) :
    constructorLit (gsLevelsN b P) nt = tasks (gsLevels b P) nt
    ∧ constructorLit (gsLevelsAsIsN b P) nt = tasks (gsLevelsAsIs b P) nt
    ∧ constructorLit (iluLevelsN b P) nt = tasks (iluLevels b P) nt := by
  rw [gsLevelsN_eq, gsLevelsAsIsN_eq, iluLevelsN_eq]
  exact ⟨scheduleLit_eq_tasks _ nt, scheduleLit_eq_tasks _ nt, scheduleLit_eq_tasks _ nt⟩

example : constructorLit (gsLevelsN true #[[0, 1], [1, 2], [0, 2], [3], [4, 3], [5]]) 4
    = [[[0], [1], [2]], [[3], [4], []], [[5], [], []], [[], [], []]] := by decide +kernel

/-- **every row exactly once** (literal schedule): for every `nt ≥ 1`, running the levels one after the other and the
threads of a level in thread order visits the rows in the order `order` — a permutation of `0..n-1`; the tasks of a
level are the rows of that level, split over the threads in increasing order. -/
theorem lit_every_row_exactly_once (level : Array Nat) (nt : Nat) (hnt : 1 ≤ nt) :
    (threadOrderSchedule (scheduleLit level nt) (nlev level)).Perm (List.range level.size)
    ∧ threadOrderSchedule (scheduleLit level nt) (nlev level) = (countingSortLit level).1.toList
    ∧ ∀ lev, lev < nlev level → (levelTasks (scheduleLit level nt) lev).flatten = levelRows level lev := by
  rw [scheduleLit_eq_tasks, threadOrderSchedule_tasks level nt hnt, countingSortLit_eq]
  exact ⟨order_perm level, rfl, fun lev hlev => levelTasks_flatten level nt hnt lev hlev⟩

/-- **dependencies are in strictly earlier levels** (literal schedule, repaired Gauss–Seidel level loop, every
pattern): if row `i` is executed by thread `t` in level `lev` and reads `x[c]` (`c ≠ i` a stored column of row `i`),
then row `c` is executed in some level `lev' ≠ lev`, with `lev' < lev` iff the serial sweep visits `c` before `i`. -/
theorem lit_gs_dependencies_in_other_levels (fwd : Bool) (P : Pattern) (nt : Nat) (hnt : 1 ≤ nt)
    (t lev : Nat) (ht : t < nt) (hlev : lev < nlev (gsLevels fwd P))
    (i : Nat) (hi : i ∈ ((scheduleLit (gsLevels fwd P) nt).getD t []).getD lev [])
    (c : Nat) (hc : c ∈ P.getD i []) (hcN : c < P.size) (hne : c ≠ i) :
    ∃ t' lev', t' < nt ∧ lev' < nlev (gsLevels fwd P)
      ∧ c ∈ ((scheduleLit (gsLevels fwd P) nt).getD t' []).getD lev' []
      ∧ (before fwd c i = true → lev' < lev) ∧ (before fwd i c = true → lev < lev') ∧ lev' ≠ lev := by
  rw [scheduleLit_eq_tasks] at hi ⊢
  obtain ⟨hiN, hil⟩ := mem_task _ nt t lev hnt ht hlev i hi
  have hcN' : c < (gsLevels fwd P).size := by rw [gsLevels_size]; exact hcN
  obtain ⟨t', ht', hmem⟩ := exists_task (gsLevels fwd P) nt hnt c hcN'
  have h := gs_levels_no_conflict fwd P i (by rw [← gsLevels_size fwd P]; exact hiN) c hc hcN hne
  rw [hil] at h
  exact ⟨t', _, ht', lt_nlev _ c hcN', hmem, h.1, h.2.1, h.2.2⟩

/-- the same for the ILU triangular solves (every strictly triangular pattern): everything a row reads is computed
in a strictly earlier level -/
theorem lit_ilu_dependencies_in_earlier_levels (lower : Bool) (P : Pattern) (hP : StrictTri lower P) (nt : Nat)
    (hnt : 1 ≤ nt) (t lev : Nat) (ht : t < nt) (hlev : lev < nlev (iluLevels lower P))
    (i : Nat) (hi : i ∈ ((scheduleLit (iluLevels lower P) nt).getD t []).getD lev [])
    (c : Nat) (hc : c ∈ P.getD i []) (hcN : c < P.size) :
    ∃ t' lev', t' < nt ∧ lev' < lev
      ∧ c ∈ ((scheduleLit (iluLevels lower P) nt).getD t' []).getD lev' [] := by
  rw [scheduleLit_eq_tasks] at hi ⊢
  obtain ⟨hiN, hil⟩ := mem_task _ nt t lev hnt ht hlev i hi
  have hcN' : c < (iluLevels lower P).size := by rw [iluLevels_size]; exact hcN
  obtain ⟨t', ht', hmem⟩ := exists_task (iluLevels lower P) nt hnt c hcN'
  have h := ilu_levels_no_conflict lower P hP i (by rw [← iluLevels_size lower P]; exact hiN) c hc hcN
  rw [hil] at h
  exact ⟨t', _, ht', h, hmem⟩

/-- **no conflict inside a level** (literal schedule): two different threads never touch a common location in the
same level — for any level vector that respects the dependencies (`gsLevels`: all patterns; `iluLevels`: strictly
triangular patterns; see `lit_drf_gs`, `lit_drf_ilu`). -/
theorem lit_drf (P : Pattern) (fwd : Bool) (level : Array Nat) (hdep : RespectsDeps (fun i => P.getD i []) fwd level)
    (nt : Nat) (hnt : 1 ≤ nt) (lev : Nat) (hlev : lev < nlev level)
    (t1 t2 : Nat) (h1 : t1 < nt) (h2 : t2 < nt) (hne : t1 ≠ t2)
    (i : Nat) (hi : i ∈ ((scheduleLit level nt).getD t1 []).getD lev [])
    (j : Nat) (hj : j ∈ ((scheduleLit level nt).getD t2 []).getD lev []) :
    i ≠ j ∧ i ∉ P.getD j [] ∧ j ∉ P.getD i [] := by
  rw [scheduleLit_eq_tasks, tasks_getD_getD level nt _ lev (by assumption) hlev] at hi hj
  exact drf P fwd level hdep nt hnt lev hlev t1 t2 h1 h2 hne i hi j hj

theorem lit_drf_gs (fwd : Bool) (P : Pattern) (nt : Nat) (hnt : 1 ≤ nt) (lev : Nat)
    (hlev : lev < nlev (gsLevels fwd P)) (t1 t2 : Nat) (h1 : t1 < nt) (h2 : t2 < nt) (hne : t1 ≠ t2)
    (i : Nat) (hi : i ∈ ((scheduleLit (gsLevels fwd P) nt).getD t1 []).getD lev [])
    (j : Nat) (hj : j ∈ ((scheduleLit (gsLevels fwd P) nt).getD t2 []).getD lev []) :
    i ≠ j ∧ i ∉ P.getD j [] ∧ j ∉ P.getD i [] :=
  lit_drf P fwd _ (gsLevels_respects fwd P) nt hnt lev hlev t1 t2 h1 h2 hne i hi j hj

theorem lit_drf_ilu (lower : Bool) (P : Pattern) (hP : StrictTri lower P) (nt : Nat) (hnt : 1 ≤ nt) (lev : Nat)
    (hlev : lev < nlev (iluLevels lower P)) (t1 t2 : Nat) (h1 : t1 < nt) (h2 : t2 < nt) (hne : t1 ≠ t2)
    (i : Nat) (hi : i ∈ ((scheduleLit (iluLevels lower P) nt).getD t1 []).getD lev [])
    (j : Nat) (hj : j ∈ ((scheduleLit (iluLevels lower P) nt).getD t2 []).getD lev []) :
    i ≠ j ∧ i ∉ P.getD j [] ∧ j ∉ P.getD i [] :=
  lit_drf P lower _ (iluLevels_respects lower P hP) nt hnt lev hlev t1 t2 h1 h2 hne i hi j hj

example : ((scheduleLit (gsLevels true #[[0, 1], [1, 2], [0, 2], [3]]) 4).getD 0 []).getD 0 [] = [0]
    ∧ ((scheduleLit (gsLevels true #[[0, 1], [1, 2], [0, 2], [3]]) 4).getD 1 []).getD 0 [] = [3] := by decide +kernel

/-! ## every interleaving yields the serial result -/
section gs
set_option linter.unusedSectionVars false
variable {K : Type} [Add K] [Mul K] [Sub K] [Zero K] [One K] [Div K]

/-- **Gauss–Seidel** (repaired level loop): for every matrix pattern (symmetric or not, any row order, duplicates),
every thread count `nt ≥ 1` and every row-update sequence `σ` the loop/pragma skeleton admits, the parallel sweep
equals the serial sweep — for any carrier `K` with any operations (no algebraic law is used). -/
theorem gs_any_interleaving_eq_serial (fwd : Bool) (A : CRS K) (rhs : Vec K) (nt : Nat) (hnt : 1 ≤ nt)
    (σ : List Nat)
    (hσ : Exec gsExpectedSkeleton (tasks (gsLevels fwd (pattern A)) nt) (nlev (gsLevels fwd (pattern A))) σ)
    (x : Vec K) : gsParallelSweep A rhs σ x = gsSerialSweep fwd A rhs x := by
  have := exec_eq_serial (gsRow A rhs) _ (gsRow_local A rhs) fwd _ (gsLevels_respects fwd (pattern A))
    nt hnt gsExpectedSkeleton (by decide) σ hσ x
  rw [gsLevels_size, pattern_size] at this
  exact this

/-- the same for the unpatched level loop, structurally symmetric patterns only -/
theorem gs_asis_any_interleaving_eq_serial_partial (fwd : Bool) (A : CRS K) (hsym : StructSymm (pattern A))
    (rhs : Vec K) (nt : Nat) (hnt : 1 ≤ nt) (σ : List Nat)
    (hσ : Exec gsExpectedSkeleton (tasks (gsLevelsAsIs fwd (pattern A)) nt) (nlev (gsLevelsAsIs fwd (pattern A))) σ)
    (x : Vec K) : gsParallelSweep A rhs σ x = gsSerialSweep fwd A rhs x := by
  have := exec_eq_serial (gsRow A rhs) _ (gsRow_local A rhs) fwd _ (gsLevelsAsIs_respects fwd (pattern A) hsym)
    nt hnt gsExpectedSkeleton (by decide) σ hσ x
  rw [gsLevelsAsIs_size, pattern_size] at this
  exact this

/-- `gauss_seidel::apply_pre/apply_post` as dispatched (`is_serial = nthreads < 4`), under a schedule `σ` -/
def gsSweepDispatch (fwd : Bool) (A : CRS K) (rhs : Vec K) (nt : Nat) (σ : List Nat) (x : Vec K) : Vec K :=
  if serialFallback nt then gsSerialSweep fwd A rhs x else gsParallelSweep A rhs σ x

/-- the sweep does not depend on the thread count nor on the schedules the two runs happen to take -/
theorem gs_thread_indep (fwd : Bool) (A : CRS K) (rhs : Vec K) (nt nt' : Nat) (hnt : 1 ≤ nt) (hnt' : 1 ≤ nt')
    (σ σ' : List Nat)
    (hσ : Exec gsExpectedSkeleton (tasks (gsLevels fwd (pattern A)) nt) (nlev (gsLevels fwd (pattern A))) σ)
    (hσ' : Exec gsExpectedSkeleton (tasks (gsLevels fwd (pattern A)) nt') (nlev (gsLevels fwd (pattern A))) σ')
    (x : Vec K) : gsSweepDispatch fwd A rhs nt σ x = gsSweepDispatch fwd A rhs nt' σ' x := by
  unfold gsSweepDispatch
  rw [gs_any_interleaving_eq_serial fwd A rhs nt hnt σ hσ x, gs_any_interleaving_eq_serial fwd A rhs nt' hnt' σ' hσ' x]
  simp

/-- **ILU triangular solves**: every admitted execution equals the row-wise serial loop, bit for bit -/
theorem ilu_any_interleaving_eq_rowwise (lower : Bool) (A : CRS K) (D : Vec K) (hA : StrictTri lower (pattern A))
    (nt : Nat) (hnt : 1 ≤ nt) (σ : List Nat)
    (hσ : Exec iluExpectedSkeleton (tasks (iluLevels lower (pattern A)) nt) (nlev (iluLevels lower (pattern A))) σ)
    (x : Vec K) : iluParallelHalf lower A D σ x = runRows (iluRow lower A D) (rowOrder lower A.nrows) x := by
  have := exec_eq_serial (iluRow lower A D) _ (iluRow_local lower A D) lower _
    (iluLevels_respects lower (pattern A) hA) nt hnt iluExpectedSkeleton (by decide) σ hσ x
  rw [iluLevels_size, pattern_size] at this
  exact this

end gs

section ilu
variable {K : Type} [Field K]

/-- **ILU triangular solves**: for every strictly triangular factor, every thread count and every execution the
skeleton admits, `sptr_solve::solve` yields what `serial_solve` yields. -/
theorem ilu_any_interleaving_eq_serial (lower : Bool) (A : CRS K) (D : Vec K) (hA : StrictTri lower (pattern A))
    (nt : Nat) (hnt : 1 ≤ nt) (σ : List Nat)
    (hσ : Exec iluExpectedSkeleton (tasks (iluLevels lower (pattern A)) nt) (nlev (iluLevels lower (pattern A))) σ)
    (x : Vec K) : iluParallelHalf lower A D σ x = iluSerialHalf lower A D x := by
  rw [iluSerialHalf_eq_rowwise lower A D hA]
  exact ilu_any_interleaving_eq_rowwise lower A D hA nt hnt σ hσ x

/-- `parallel_solve` (lower then upper, each under any admitted execution) equals `serial_solve` -/
theorem ilu_solve_any_interleaving_eq_serial (L U : CRS K) (D : Vec K)
    (hL : StrictTri true (pattern L)) (hU : StrictTri false (pattern U)) (nt : Nat) (hnt : 1 ≤ nt) (σL σU : List Nat)
    (hσL : Exec iluExpectedSkeleton (tasks (iluLevels true (pattern L)) nt) (nlev (iluLevels true (pattern L))) σL)
    (hσU : Exec iluExpectedSkeleton (tasks (iluLevels false (pattern U)) nt) (nlev (iluLevels false (pattern U))) σU)
    (x : Vec K) :
    iluParallelHalf false U D σU (iluParallelHalf true L D σL x) = iluSerialSolve L U D x := by
  unfold iluSerialSolve
  rw [ilu_any_interleaving_eq_serial true L D hL nt hnt σL hσL, ilu_any_interleaving_eq_serial false U D hU nt hnt σU hσU]

/-- `ilu_solve::solve` as dispatched (`serial = nthreads < 4`) -/
def iluSolveDispatch (L U : CRS K) (D : Vec K) (nt : Nat) (σL σU : List Nat) (x : Vec K) : Vec K :=
  if serialFallback nt then iluSerialSolve L U D x
  else iluParallelHalf false U D σU (iluParallelHalf true L D σL x)

theorem ilu_thread_indep (L U : CRS K) (D : Vec K)
    (hL : StrictTri true (pattern L)) (hU : StrictTri false (pattern U)) (nt nt' : Nat) (hnt : 1 ≤ nt) (hnt' : 1 ≤ nt')
    (σL σU σL' σU' : List Nat)
    (hσL : Exec iluExpectedSkeleton (tasks (iluLevels true (pattern L)) nt) (nlev (iluLevels true (pattern L))) σL)
    (hσU : Exec iluExpectedSkeleton (tasks (iluLevels false (pattern U)) nt) (nlev (iluLevels false (pattern U))) σU)
    (hσL' : Exec iluExpectedSkeleton (tasks (iluLevels true (pattern L)) nt') (nlev (iluLevels true (pattern L))) σL')
    (hσU' : Exec iluExpectedSkeleton (tasks (iluLevels false (pattern U)) nt') (nlev (iluLevels false (pattern U))) σU')
    (x : Vec K) : iluSolveDispatch L U D nt σL σU x = iluSolveDispatch L U D nt' σL' σU' x := by
  unfold iluSolveDispatch
  rw [ilu_solve_any_interleaving_eq_serial L U D hL hU nt hnt σL σU hσL hσU x,
    ilu_solve_any_interleaving_eq_serial L U D hL hU nt' hnt' σL' σU' hσL' hσU' x]
  simp

end ilu

/-! ## load/store granularity -/
section micro
set_option linter.unusedSectionVars false
variable {K : Type} [Add K] [Mul K] [Sub K] [Zero K] [One K] [Div K]

/-- **Gauss–Seidel at the granularity of single memory accesses**: each row is a sequence of loads of `x[c]`
(`c ≠ i`, stored order) and one store of `x[i]`; inside a level the scheduler interleaves the accesses of the `nt`
threads arbitrarily, the barrier separates the levels.  Every such execution yields the serial sweep (repaired level
loop, every pattern, every `nt ≥ 1`, any carrier). -/
theorem gs_any_load_store_interleaving_eq_serial (fwd : Bool) (A : CRS K) (rhs : Vec K) (nt : Nat) (hnt : 1 ≤ nt)
    (x x'' : Vec K) (hx : x.size = A.nrows)
    (hrun : LevelwiseMicro (gsProg A rhs) (tasks (gsLevels fwd (pattern A)) nt)
      (List.range (nlev (gsLevels fwd (pattern A)))) x x'') :
    x'' = gsSerialSweep fwd A rhs x := by
  have := micro_exec_eq_serial (gsProg A rhs) (gsRow A rhs) (fun i => (pattern A).getD i []) (gsProg_upd A rhs)
    (fun i c hc => Or.inr (by
      rw [pattern_getD]
      exact (List.mem_filter.mp hc).1))
    (gsRow_local A rhs) fwd _ (gsLevels_respects fwd (pattern A)) nt hnt gsExpectedSkeleton (by decide) x x''
    (by rw [gsLevels_size, pattern_size]; exact hx) hrun
  rw [gsLevels_size, pattern_size] at this
  exact this

/-- the ILU triangular solves at the granularity of single memory accesses (loads of `x[c]`, load of `x[i]`, store of
`x[i]`): every execution yields the row-wise serial loop, bit for bit -/
theorem ilu_any_load_store_interleaving_eq_rowwise (lower : Bool) (A : CRS K) (D : Vec K)
    (hA : StrictTri lower (pattern A)) (nt : Nat) (hnt : 1 ≤ nt) (x x'' : Vec K) (hx : x.size = A.nrows)
    (hrun : LevelwiseMicro (iluProg lower A D) (tasks (iluLevels lower (pattern A)) nt)
      (List.range (nlev (iluLevels lower (pattern A)))) x x'') :
    x'' = runRows (iluRow lower A D) (rowOrder lower A.nrows) x := by
  have := micro_exec_eq_serial (iluProg lower A D) (iluRow lower A D) (fun i => (pattern A).getD i [])
    (iluProg_upd lower A D)
    (fun i c hc => by
      rcases List.mem_append.mp hc with h | h
      · exact Or.inr (by rw [pattern_getD]; exact h)
      · exact Or.inl (by simpa using h))
    (iluRow_local lower A D) lower _ (iluLevels_respects lower (pattern A) hA) nt hnt iluExpectedSkeleton (by decide)
    x x'' (by rw [iluLevels_size, pattern_size]; exact hx) hrun
  rw [iluLevels_size, pattern_size] at this
  exact this

end micro

/-- … and in a commutative ring this is what `serial_solve` computes -/
theorem ilu_any_load_store_interleaving_eq_serial {K : Type} [Field K] (lower : Bool) (A : CRS K) (D : Vec K)
    (hA : StrictTri lower (pattern A)) (nt : Nat) (hnt : 1 ≤ nt) (x x'' : Vec K) (hx : x.size = A.nrows)
    (hrun : LevelwiseMicro (iluProg lower A D) (tasks (iluLevels lower (pattern A)) nt)
      (List.range (nlev (iluLevels lower (pattern A)))) x x'') :
    x'' = iluSerialHalf lower A D x := by
  rw [iluSerialHalf_eq_rowwise lower A D hA]
  exact ilu_any_load_store_interleaving_eq_rowwise lower A D hA nt hnt x x'' hx hrun

/-- non-vacuity: a load/store-granular execution exists in which thread 1 runs its whole row between the start
and the store of thread 0 (pattern `[[0],[1]]`, one level, 4 threads) -/
example : LevelwiseMicro (gsProg (⟨2, #[[(0, 1)], [(1, 1)]]⟩ : CRS Int) #[4, 3]) [[[0]], [[1]], [[]], [[]]] [0]
    #[9, 9] #[4, 3] := by
  refine LevelwiseMicro.cons (x' := #[4, 3]) (ths' := [⟨[], none⟩, ⟨[], none⟩, ⟨[], none⟩, ⟨[], none⟩]) ?_ ?_
    (LevelwiseMicro.nil _)
  · show MSteps (gsProg (⟨2, #[[(0, 1)], [(1, 1)]]⟩ : CRS Int) #[4, 3])
      (#[9, 9], [⟨[0], none⟩, ⟨[1], none⟩, ⟨[], none⟩, ⟨[], none⟩]) (#[4, 3], _)
    refine MSteps.step (MStep.start _ [] _ 0 []) ?_
    refine MSteps.step (MStep.start _ [_] _ 1 []) ?_
    refine MSteps.step (MStep.store _ [_] _ 1 [] []) ?_
    refine MSteps.step (MStep.store _ [] _ 0 [] []) ?_
    exact MSteps.refl _
  · simp [MFinal]

/-! ## the main theorems for the schedule as the constructors compute it -/
section lit
set_option linter.unusedSectionVars false
variable {K : Type} [Add K] [Mul K] [Sub K] [Zero K] [One K] [Div K]

/-- **Gauss–Seidel, literal schedule**: with the task table computed statement by statement (counting sort, chunking
by positions into `order`), every execution the skeleton admits equals the serial sweep — every pattern, every
`nt ≥ 1`, any carrier, no algebraic law. -/
theorem lit_gs_any_interleaving_eq_serial (fwd : Bool) (A : CRS K) (rhs : Vec K) (nt : Nat) (hnt : 1 ≤ nt)
    (σ : List Nat)
    (hσ : Exec gsExpectedSkeleton (scheduleLit (gsLevels fwd (pattern A)) nt) (nlev (gsLevels fwd (pattern A))) σ)
    (x : Vec K) : gsParallelSweep A rhs σ x = gsSerialSweep fwd A rhs x := by
  rw [scheduleLit_eq_tasks] at hσ
  exact gs_any_interleaving_eq_serial fwd A rhs nt hnt σ hσ x

/-- … at the granularity of single loads and stores -/
theorem lit_gs_any_load_store_interleaving_eq_serial (fwd : Bool) (A : CRS K) (rhs : Vec K) (nt : Nat) (hnt : 1 ≤ nt)
    (x x'' : Vec K) (hx : x.size = A.nrows)
    (hrun : LevelwiseMicro (gsProg A rhs) (scheduleLit (gsLevels fwd (pattern A)) nt)
      (List.range (nlev (gsLevels fwd (pattern A)))) x x'') :
    x'' = gsSerialSweep fwd A rhs x := by
  rw [scheduleLit_eq_tasks] at hrun
  exact gs_any_load_store_interleaving_eq_serial fwd A rhs nt hnt x x'' hx hrun

/-- **ILU triangular solves, literal schedule**: every admitted execution equals the row-wise serial loop, bit for bit -/
theorem lit_ilu_any_interleaving_eq_rowwise (lower : Bool) (A : CRS K) (D : Vec K) (hA : StrictTri lower (pattern A))
    (nt : Nat) (hnt : 1 ≤ nt) (σ : List Nat)
    (hσ : Exec iluExpectedSkeleton (scheduleLit (iluLevels lower (pattern A)) nt)
      (nlev (iluLevels lower (pattern A))) σ)
    (x : Vec K) : iluParallelHalf lower A D σ x = runRows (iluRow lower A D) (rowOrder lower A.nrows) x := by
  rw [scheduleLit_eq_tasks] at hσ
  exact ilu_any_interleaving_eq_rowwise lower A D hA nt hnt σ hσ x

theorem lit_ilu_any_load_store_interleaving_eq_rowwise (lower : Bool) (A : CRS K) (D : Vec K)
    (hA : StrictTri lower (pattern A)) (nt : Nat) (hnt : 1 ≤ nt) (x x'' : Vec K) (hx : x.size = A.nrows)
    (hrun : LevelwiseMicro (iluProg lower A D) (scheduleLit (iluLevels lower (pattern A)) nt)
      (List.range (nlev (iluLevels lower (pattern A)))) x x'') :
    x'' = runRows (iluRow lower A D) (rowOrder lower A.nrows) x := by
  rw [scheduleLit_eq_tasks] at hrun
  exact ilu_any_load_store_interleaving_eq_rowwise lower A D hA nt hnt x x'' hx hrun

end lit

/-- **ILU triangular solves, literal schedule**, against `serial_solve` (commutative ring) -/
theorem lit_ilu_any_interleaving_eq_serial {K : Type} [Field K] (lower : Bool) (A : CRS K) (D : Vec K)
    (hA : StrictTri lower (pattern A)) (nt : Nat) (hnt : 1 ≤ nt) (σ : List Nat)
    (hσ : Exec iluExpectedSkeleton (scheduleLit (iluLevels lower (pattern A)) nt)
      (nlev (iluLevels lower (pattern A))) σ)
    (x : Vec K) : iluParallelHalf lower A D σ x = iluSerialHalf lower A D x := by
  rw [scheduleLit_eq_tasks] at hσ
  exact ilu_any_interleaving_eq_serial lower A D hA nt hnt σ hσ x

/-- non-vacuity: thread order inside every level is an execution the skeleton admits for the literal task table
(4 threads, non-symmetric 3×3 pattern) -/
example : isExec gsExpectedSkeleton (scheduleLit (gsLevels true #[[0, 1], [1, 2], [0, 2]]) 4)
    (nlev (gsLevels true #[[0, 1], [1, 2], [0, 2]])) [0, 1, 2] = true := by decide +kernel

/-! ## reductions -/
section gersh
variable {K : Type} [Add K] [Mul K] [Zero K] [One K] [Div K] [LinearOrder K]

/-- The Gershgorin bound of `spectral_radius` (per-thread maxima over static `omp for` chunks, combined under
`omp critical`) is the maximum over all rows, hence the same for every team size — for any `norm`, in any linear
order, provided every row stores its diagonal entry when `scale` is on (the thread-private `dia` is then
overwritten in every row). -/
theorem gershgorin_thread_indep (scale : Bool) (norm : K → K) (A : CRS K) (hd : DiagStored scale A)
    (nt nt' : Nat) (hnt : 1 ≤ nt) (hnt' : 1 ≤ nt') :
    gershgorin scale norm nt A = gershgorin scale norm nt' A := by
  rw [gershgorin_eq_spec scale norm A hd nt hnt, gershgorin_eq_spec scale norm A hd nt' hnt']

end gersh

/-- the hypothesis `DiagStored` cannot be dropped: `dia` is declared outside the row loop (builtin.hpp:797), so a
row without a stored diagonal entry is scaled with the diagonal of the previous row *of the same thread*
(here `K = Int`, `norm = id`, rows `[(0,0),(1,5)]`, `[(0,3)]`). -/
theorem gershgorin_missing_diag_counterexample :
    gershgorin true (fun v : Int => v) 1 ⟨2, #[[(0, 0), (1, 5)], [(0, 3)]]⟩ = 0
    ∧ gershgorin true (fun v : Int => v) 2 ⟨2, #[[(0, 0), (1, 5)], [(0, 3)]]⟩ = 3 := by decide

example : DiagStored true (⟨2, #[[(0, 4), (1, 1)], [(1, 3)]]⟩ : CRS Int) := by
  intro _ i hi
  have : i < 2 := hi
  match i, this with
  | 0, _ => exact ⟨(0, 4), by simp [CRS.row, Array.getD], rfl⟩
  | 1, _ => exact ⟨(1, 3), by simp [CRS.row, Array.getD], rfl⟩

/-! ## the hypotheses are satisfiable, the barrier is necessary -/

/-- non-vacuity of `Exec`: thread order inside every level is admitted (4 threads, non-symmetric 3×3 pattern) -/
example : isExec gsExpectedSkeleton (tasks (gsLevels true #[[0, 1], [1, 2], [0, 2]]) 4)
    (nlev (gsLevels true #[[0, 1], [1, 2], [0, 2]])) [0, 1, 2] = true := by decide

/-- Without the barrier after the row loop the skeleton admits an execution that differs from the serial sweep:
pattern `[[0],[1],[1,2]]`, levels `[0,0,1]`, 4 threads: thread 0 owns rows 0 and 2, thread 1 owns row 1, and
nothing stops thread 0 from updating row 2 before thread 1 has updated row 1. -/
theorem no_barrier_counterexample :
    ({ gsExpectedSkeleton with run := gsExpectedSkeleton.run.dropLast } : Skeleton).levelBarrier = false
    ∧ Exec { gsExpectedSkeleton with run := gsExpectedSkeleton.run.dropLast }
        (tasks (gsLevels true (pattern (⟨3, #[[(0, 1)], [(1, 1)], [(1, 1), (2, 1)]]⟩ : CRS Int))) 4)
        (nlev (gsLevels true (pattern (⟨3, #[[(0, 1)], [(1, 1)], [(1, 1), (2, 1)]]⟩ : CRS Int)))) [0, 2, 1]
    ∧ gsParallelSweep (⟨3, #[[(0, 1)], [(1, 1)], [(1, 1), (2, 1)]]⟩ : CRS Int) #[3, 1, 1] [0, 2, 1] #[5, 7, 9] = #[3, 1, -6]
    ∧ gsSerialSweep true (⟨3, #[[(0, 1)], [(1, 1)], [(1, 1), (2, 1)]]⟩ : CRS Int) #[3, 1, 1] #[5, 7, 9] = #[3, 1, 0] := by
  refine ⟨by decide, ?_, by decide, by decide⟩
  have ht : tasks (gsLevels true (pattern (⟨3, #[[(0, 1)], [(1, 1)], [(1, 1), (2, 1)]]⟩ : CRS Int))) 4
      = [[[0], [2]], [[1], []], [[], []], [[], []]] := by decide
  rw [ht]
  unfold Exec
  rw [if_neg (by decide)]
  show Interleave [[0, 2], [1], [], []] [0, 2, 1]
  exact Interleave.step (pre := []) (l := [2]) (post := [[1], [], []])
    (Interleave.step (pre := []) (l := []) (post := [[1], [], []])
      (Interleave.step (pre := [[]]) (l := []) (post := [[], []])
        (Interleave.done (by intro l hl; simp at hl; exact hl))))

end Amgcl.C09
