import Amgcl.Properties.C08b
import Amgcl.Proofs.KernelsValue
import Amgcl.Proofs.KernelsValuePw
import Mathlib.Analysis.Matrix.Normed
/-!
# C08 — sparse kernels at STRUCTURED value types (part 3: block / complex values)

`Model/Kernels.lean` is generic over one carrier and the theorems of `C08` / `C08b` hold over an arbitrary (non-commutative)
semiring, so `transpose`, both SpGEMMs, `sum` (with VALUE-typed weights multiplying from the left), `sortRows`, `diagonal`,
the CRS constructors are covered at block values by those statements.  Three kernels read the values through
`math::norm : V → scalar_of<V>` or take a weight of another type (`Model/KernelsValue.lean`); this file states

* that the two-type models ARE the scalar models when `V = S` (`gershgorinV_scalar`, `scaleV_scalar`, `pointwiseV_scalar`),
* what `spectral_radius<scale>(A, 0)` computes at block values — `max_i (Σ_j ‖a_ij‖) · ‖a_ii⁻¹‖`, the norm of the INVERSE
  block (`gershgorinV_is_max`),
* and that this number bounds the spectral radius of `D⁻¹A` (resp. `A`) for every submultiplicative block norm
  (`block_gershgorin_scaled_bound`, `block_gershgorin_bound`).

Helper lemmas: `Amgcl/Proofs/KernelsValue.lean`.
-/
namespace Amgcl.C08c
open Amgcl

/-! ## the two-type models at a scalar value type -/

/-- at `V = S = K`, `math::norm = |·|`, `math::inverse = ·⁻¹` the value-typed Gershgorin model is the scalar model of
`Model/Kernels.lean` (definitional: the same loops) -/
theorem gershgorinV_scalar {K : Type} [Add K] [Mul K] [Neg K] [Zero K] [One K] [Inv K] [LT K] [DecidableLT K]
    (scaled : Bool) (A : CRS K) :
    gershgorinV (absK : K → K) (fun v => v⁻¹) (1 : K) scaled A = gershgorin scaled A := rfl

/-- `scale` with a weight of the value type itself is `Model/Kernels.scale` -/
theorem scaleV_scalar {K : Type} [Add K] [Mul K] [Zero K] (A : CRS K) (s : K) :
    scaleV (fun v c => v * c) A s = scale A s := rfl

example : gershgorinV (absK : Rat → Rat) (fun v => v⁻¹) 1 true (⟨2, #[[(1, (-3 : Rat)), (0, 2)], [(1, 4)]]⟩ : CRS Rat) = 5 / 2 := by
  decide +kernel

/-- `pointwise_matrix` with the norms taken first (`pointwiseMatrixV`: the only way the kernel reads a value) is the model
`pointwiseMatrix` of `Model/PointwiseMatrix.lean` (C04: `pointwise_spec`, `pointwise_matrix_kron`) when `V = S` -/
theorem pointwiseV_scalar {K : Type} [Zero K] [LT K] [DecidableLT K] (norm : K → K) (A : CRS K) (b : Nat) :
    pointwiseMatrixV norm A b = pointwiseMatrix norm A b :=
  KV.pointwiseMatrixV_eq norm A b

-- a block-valued instance: pairs `(a, b)` standing for `diag(a, b)` with `norm = |a| + |b|`, group size 2: one group, the
-- largest norm of its three stored values
example : (match pointwiseMatrixV (fun v : Int × Int => v.1.natAbs + v.2.natAbs)
      (⟨2, #[[(0, ((1 : Int), (-2 : Int))), (1, (3, 3))], [(1, (0, 5))]]⟩ : CRS (Int × Int)) 2 with
    | .ok C => (C.ncols, C.rows)
    | _ => (0, #[])) = (1, #[[(0, 6)]]) := by decide +kernel

/-- **`scale` at block values**: every stored value is multiplied by the weight through `v *= s` of the value type, the
pattern (hence `ptr`, `col`) is untouched -/
theorem scaleV_spec {V T : Type} (mulr : V → T → V) (A : CRS V) (s : T) :
    (scaleV mulr A s).nrows = A.nrows ∧ (scaleV mulr A s).ncols = A.ncols ∧
    ∀ i, (scaleV mulr A s).row i = (A.row i).map (fun cv => (cv.1, mulr cv.2 s)) := by
  refine ⟨by simp [scaleV, CRS.nrows], rfl, fun i => ?_⟩
  unfold scaleV CRS.row
  simp only [Array.getD_eq_getD_getElem?, Array.getElem?_map]
  cases A.rows[i]? <;> simp

example : (scaleV (fun (v : Int × Int) (c : Int) => (v.1 * c, v.2 * c)) ⟨2, #[[(1, (1, 2))], [(0, (3, 4)), (1, (5, 6))]]⟩ 2).rows
    = #[[(1, (2, 4))], [(0, (6, 8)), (1, (10, 12))]] := by decide +kernel

/-! ## what the Gershgorin branch computes at block values -/

section arithmetic
variable {V S : Type} [Field S] [LinearOrder S] [IsStrictOrderedRing S]

/-- **arithmetic core at a value type `V`** (norm values in any linearly ordered field, `norm ≥ 0`, ANY function `inv`):
* unscaled: the estimate dominates `Σ_j norm a_ij` of every row;
* scaled, row `i` storing exactly one entry `d` on the diagonal position: the estimate dominates
  `(Σ_j norm a_ij) * norm (inv d)` — the norm of the inverted diagonal VALUE, not the inverse of its norm;
* the estimate is `0` for a matrix without rows, otherwise it IS the value of one row (entered with the `dia` the rows
  before it left — `KV.rowVal`), so nothing but these row values enters; the fall-back `radius < 0 ? 2` is dead (`0 ≤`). -/
theorem gershgorinV_is_max (norm : V → S) (hn : ∀ v, 0 ≤ norm v) (inv : V → V) (one : V) (A : CRS V) :
    (∀ i, i < A.nrows → KV.rowNormSum norm (A.row i) ≤ gershgorinV norm inv one false A) ∧
    (∀ i d, i < A.nrows → ((A.row i).filter (fun cv => decide (cv.1 = i))).length = 1 → (i, d) ∈ A.row i →
        KV.rowNormSum norm (A.row i) * norm (inv d) ≤ gershgorinV norm inv one true A) ∧
    (∀ scaled, (A.nrows = 0 ∧ gershgorinV norm inv one scaled A = 0) ∨
        ∃ i, i < A.nrows ∧ gershgorinV norm inv one scaled A
          = KV.rowVal norm inv scaled i (A.row i) (KV.gershState norm inv one scaled A i).2) ∧
    (∀ scaled, 0 ≤ gershgorinV norm inv one scaled A) := by
  refine ⟨fun i hi => KV.gershgorinV_false_ge norm inv one A i hi, ?_, fun sc => KV.gershgorinV_attained norm hn inv one sc A,
    fun sc => ?_⟩
  · intro i d hi h1 hd
    have h := KV.gershgorinV_true_ge norm inv one A i hi (KV.mem_cols_of_mem _ i d hd) one
    rwa [KV.lastDiag_of_unique (A.row i) i h1 d hd one] at h
  · rw [KV.gershgorinV_eq_state]; exact KV.gershState_nonneg norm inv one sc A A.nrows

-- non-vacuity: pairs `(a, b)` standing for `diag(a, b)`, `norm = |a| + |b|`, `inv = (1/a, 1/b)`: the row
-- `[diag(1, 1/4), diag(1, 1)]` gives `(5/4 + 2) * (1 + 4) = 65/4` — NOT `(5/4 + 2) / (5/4) = 13/5`
example : gershgorinV (fun v : Rat × Rat => |v.1| + |v.2|) (fun v => (1 / v.1, 1 / v.2)) (1, 1) true
    (⟨2, #[[(0, ((1 : Rat), (1 / 4 : Rat))), (1, (1, 1))], [(1, (2, 2))]]⟩ : CRS (Rat × Rat)) = 65 / 4 := by
  decide +kernel

end arithmetic

/-! ## the estimate bounds the spectral radius: block Gershgorin -/

section bound
variable {V E 𝕜 : Type} [NormedRing V] [NormedAddCommGroup E] [Module V E] [IsBoundedSMul V E]
  [NormedField 𝕜] [NormedSpace 𝕜 E]

/-- **block Gershgorin, unscaled** — `spectral_radius<false>(A, 0)` at block values bounds every eigenvalue.
`V` is ANY normed ring (a submultiplicative norm: the Frobenius norm `math::norm` of `static_matrix`, an operator norm, …)
acting on a normed group `E` of block vectors with `‖v • x‖ ≤ ‖v‖ ‖x‖`; `A` is a well-formed square CRS matrix over `V` (any
row order, duplicates allowed); `x` a block vector that is not zero on the rows with `A x = μ x` row by row, the row
product being the stored-entry sum of the SpMV loop (`KV.blockRowDot`: `sum += a.value() * x[a.col()]`).  Then
`‖μ‖ ≤ spectral_radius<false>(A, 0)` evaluated with `math::norm = ‖·‖`. -/
theorem block_gershgorin_bound (inv : V → V) (one : V) (A : CRS V) (hA : A.WF) (hsq : A.ncols = A.nrows)
    (x : Nat → E) (μ : 𝕜) (hx : ∃ i, i < A.nrows ∧ x i ≠ 0)
    (heig : ∀ i, i < A.nrows → KV.blockRowDot (A.row i) x = μ • x i) :
    ‖μ‖ ≤ gershgorinV (fun v : V => ‖v‖) inv one false A := by
  obtain ⟨i, hi, hpos, hmax⟩ := KV.exists_max_row A.nrows x hx
  have hle : ∀ cv ∈ A.row i, ‖x cv.1‖ ≤ ‖x i‖ := fun cv hcv =>
    hmax cv.1 (hsq ▸ K2.row_col_lt hA i hcv)
  exact le_trans (KV.eigen_row_bound_unscaled (A.row i) x μ i hpos hle (heig i hi))
    (KV.gershgorinV_false_ge (fun v : V => ‖v‖) inv one A i hi)

/-- **block Gershgorin, scaled** — `spectral_radius<true>(A, 0)` at block values bounds every eigenvalue of `D⁻¹A`.
Every row stores exactly one entry `dia i` on the diagonal position; `inv` is ANY function (the code's `math::inverse`);
`D⁻¹A x = μ x` row by row: `inv (dia i) • Σ_{stored (j, a_ij)} a_ij • x_j = μ • x_i`.  Then
`‖μ‖ ≤ max_i (Σ_j ‖a_ij‖) · ‖inv (dia i)‖ = spectral_radius<true>(A, 0)`.  (No invertibility hypothesis is needed: the
statement is about the operator `blockdiag(inv (dia i)) · A`, which is `D⁻¹A` when `inv` inverts.) -/
theorem block_gershgorin_scaled_bound (inv : V → V) (one : V) (A : CRS V) (hA : A.WF) (hsq : A.ncols = A.nrows)
    (dia : Nat → V)
    (hdiag1 : ∀ i, i < A.nrows → ((A.row i).filter (fun cv => decide (cv.1 = i))).length = 1 ∧ (i, dia i) ∈ A.row i)
    (x : Nat → E) (μ : 𝕜) (hx : ∃ i, i < A.nrows ∧ x i ≠ 0)
    (heig : ∀ i, i < A.nrows → inv (dia i) • KV.blockRowDot (A.row i) x = μ • x i) :
    ‖μ‖ ≤ gershgorinV (fun v : V => ‖v‖) inv one true A := by
  obtain ⟨i, hi, hpos, hmax⟩ := KV.exists_max_row A.nrows x hx
  have hle : ∀ cv ∈ A.row i, ‖x cv.1‖ ≤ ‖x i‖ := fun cv hcv =>
    hmax cv.1 (hsq ▸ K2.row_col_lt hA i hcv)
  have h := KV.eigen_row_bound (A.row i) (inv (dia i)) x μ i hpos hle (heig i hi)
  have hg := KV.gershgorinV_true_ge (fun v : V => ‖v‖) inv one A i hi
    (KV.mem_cols_of_mem _ i (dia i) (hdiag1 i hi).2) one
  rw [KV.lastDiag_of_unique (A.row i) i (hdiag1 i hi).1 (dia i) (hdiag1 i hi).2 one] at hg
  exact le_trans h hg

-- non-vacuity: 2 x 2 blocks with the Frobenius norm acting on block vectors of 2 x 2 matrices (a vector `v` is the block
-- `[v | 0]`, whose Frobenius norm is the Euclidean norm of `v`); non-symmetric diagonal blocks `D = [[1,1],[0,1]]` with
-- `inv D = [[1,-1],[0,1]]`, an off-diagonal block that does not commute with `D`; `x = (I, 0)` is an eigenvector of `D⁻¹A`
-- (and of `A·`… only of `D⁻¹A`) for `μ = 1`
section nonvacuity
open Matrix
attribute [local instance] Matrix.frobeniusSeminormedAddCommGroup Matrix.frobeniusNormedAddCommGroup
  Matrix.frobeniusNormedSpace Matrix.frobeniusNormedRing Matrix.frobeniusNormedAlgebra

open KV.Example

example : ‖(1 : ℝ)‖ ≤ gershgorinV (fun v : Matrix (Fin 2) (Fin 2) ℝ => ‖v‖) (fun _ => exDinv) 1 true exA := by
  refine block_gershgorin_scaled_bound (E := Matrix (Fin 2) (Fin 2) ℝ) (fun _ => exDinv) 1 exA ?_ rfl (fun _ => exD) ?_ exX 1
    ⟨0, by decide, by simp [exX]⟩ ?_
  · intro r hr cv hcv
    simp [exA] at hr
    rcases hr with rfl | rfl <;> simp at hcv <;> rcases hcv with rfl | rfl <;> simp [exA]
  · intro i hi
    have : i = 0 ∨ i = 1 := by
      have : i < 2 := hi
      omega
    rcases this with rfl | rfl <;> simp [exA, CRS.row]
  · intro i hi
    have : i = 0 ∨ i = 1 := by
      have : i < 2 := hi
      omega
    rcases this with rfl | rfl
    · simp [exA, CRS.row, KV.blockRowDot, exX, exDinv_mul]
    · simp [exA, CRS.row, KV.blockRowDot, exX]

-- … and `x = ([e₁ | 0], 0)` is an eigenvector of `A` itself for `μ = 1` (`D e₁ = e₁`)
example : ‖(1 : ℝ)‖ ≤ gershgorinV (fun v : Matrix (Fin 2) (Fin 2) ℝ => ‖v‖) (fun _ => exDinv) 1 false exA := by
  refine block_gershgorin_bound (E := Matrix (Fin 2) (Fin 2) ℝ) (fun _ => exDinv) 1 exA ?_ rfl exX1 1
    ⟨0, by decide, ?_⟩ ?_
  · intro r hr cv hcv
    simp [exA] at hr
    rcases hr with rfl | rfl <;> simp at hcv <;> rcases hcv with rfl | rfl <;> simp [exA]
  · intro h
    have := congrFun (congrFun h 0) 0
    simp [exX1] at this
  · intro i hi
    have : i = 0 ∨ i = 1 := by
      have : i < 2 := hi
      omega
    rcases this with rfl | rfl
    · simp [exA, CRS.row, KV.blockRowDot, exX1, exD_mul]
    · simp [exA, CRS.row, KV.blockRowDot, exX1]

end nonvacuity

end bound

end Amgcl.C08c
