import Amgcl.Proofs.PTree
/-!
# C14 — run-time configuration is equivalent to compile-time configuration

Generic theorems, for **every** table `t : ParamTable` (any `struct params`, present or future) and every
`E : EnumTable`, under the decidable predicates `ParamTable.Consistent` / `EnumTable.Consistent` of
`Amgcl/Model/PTree.lean`.  The predicates themselves are re-established on every run for the tables regenerated from
`/repo` (`Amgcl.Generated.all_tables_consistent`, `Amgcl.Generated.enum_tables_roundtrip`, both by kernel `decide`;
registered as `extra_obligations` of the check), so together:

  for every `struct params` of the library, import followed by export is the identity on its value members, every
  value member can be set through the tree, exactly the keys no component understands are reported through
  `AMGCL_PARAM_UNKNOWN`; for every run-time enum, `parse ∘ print = id`, every other string raises
  `std::invalid_argument`, and every enumerator has a case in every throwing wrapper switch.

What is *not* proved in Lean (see `tools/checks/C14.json`, assumptions): that the translator reads the C++ correctly
(tied by the differential harness, whose model side is computed from the same regenerated tables), the typed text
conversion of Boost's stream translator, and the bitwise equality of run-time-wrapper and compile-time solves
(implementation against implementation in the harness).

`childExp` below is the exporter of the nested params structs; which struct a child is depends on template
arguments, so the theorems hold for every exporter that only writes below the child's own key (`ChildLocal`).
-/
namespace Amgcl.C14
open Amgcl.Params Amgcl.Params.ParamTable

/-- **Import followed by export is the identity on value parameters.**  For every consistent table, every value
member `f`, every input tree `p`, every default assignment and every admissible child exporter: the tree written
by `get` holds at key `f` exactly what `params(p)` read — the text found at `p.f`, or the default if `p` has no such
key. -/
theorem export_import_value (t : ParamTable) (h : t.Consistent)
    (childExp : String → PTree → PTree → PTree) (hce : ChildLocal childExp)
    (dflt : String → String) (p : PTree) (f : String) (hf : f ∈ t.valueFields) :
    (t.exportT childExp (t.importT dflt p) PTree.empty).get? f = some (p.get f (dflt f)) := by
  obtain ⟨hnd, _, h4, _⟩ := consistent_unpack h
  rw [exportT_eq_foldl]
  exact foldl_export_mem childExp hce _ t.exports PTree.empty f _
    (value?_importT t dflt p f (value_imported h hf)) (mem_exportValue t f (h4 f hf)) hnd

/-- the same with the key present in the input: `export (import p) = p` at every value key of `p` -/
theorem export_import_id_on_value_keys (t : ParamTable) (h : t.Consistent)
    (childExp : String → PTree → PTree → PTree) (hce : ChildLocal childExp)
    (dflt : String → String) (p : PTree) (f : String) (hf : f ∈ t.valueFields) (v : String)
    (hp : p.get? f = some v) :
    (t.exportT childExp (t.importT dflt p) PTree.empty).get? f = p.get? f := by
  rw [export_import_value t h childExp hce dflt p f hf, PTree.get_eq_of_get?, hp]
  rfl

/-- **Dotted paths.**  A struct nested at any depth exports below the prefix it is handed
(`get(p, "precond.relax.")` → `p.put("precond.relax.damping", …)`): for every path prefix and every tree `acc`
already holding other components' exports, the value found at `prefix.f` after the export is what the constructor
read for `f`. -/
theorem export_import_value_at_path (t : ParamTable) (h : t.Consistent) (dflt : String → String) (p : PTree)
    (path : List String) (acc : PTree) (f : String) (hf : f ∈ t.valueFields) :
    (t.exportValuesAt (t.importT dflt p) path acc).getPath? (path ++ [f]) = some (p.get f (dflt f)) := by
  obtain ⟨hnd, _, h4, _⟩ := consistent_unpack h
  rw [exportValuesAt_eq]
  exact foldl_exportAt_mem _ path t.exports acc f _
    (value?_importT t dflt p f (value_imported h hf)) (mem_exportValue t f (h4 f hf)) hnd

/-- **Every value field is settable**: constructing from a tree that sets `f` to `v` yields a struct whose member
`f` is `v`, whatever the default is. -/
theorem value_field_settable (t : ParamTable) (h : t.Consistent) (dflt : String → String)
    (f : String) (hf : f ∈ t.valueFields) (v : String) :
    (t.importT dflt (PTree.empty.put f v)).value? f = some v := by
  rw [value?_importT t dflt _ f (value_imported h hf), PTree.get_put_same]

/-- … and the value is then written back: set `f := v`, construct, export, read `f` — get `v`. -/
theorem set_then_export (t : ParamTable) (h : t.Consistent)
    (childExp : String → PTree → PTree → PTree) (hce : ChildLocal childExp) (dflt : String → String)
    (f : String) (hf : f ∈ t.valueFields) (v : String) :
    (t.exportT childExp (t.importT dflt (PTree.empty.put f v)) PTree.empty).get? f = some v := by
  rw [export_import_value t h childExp hce dflt _ f hf, PTree.get_put_same]

/-- **Unknown keys are reported, known keys are not**: the keys for which `AMGCL_PARAM_UNKNOWN` fires are exactly
the keys of the tree that no component understands (`understood` = members, documented companion keys, members of
derived structs, `admissibleForeign`). -/
theorem unknown_iff (t : ParamTable) (h : t.Consistent) (p : PTree) (k : String) :
    k ∈ t.unknownT p ↔ k ∈ p.keys ∧ k ∉ t.understood := by
  obtain ⟨_, _, _, h7⟩ := consistent_unpack h
  unfold unknownT
  by_cases he : t.emptyLike = true
  · simp only [he, if_true, Bool.and_eq_true, List.isEmpty_iff] at h7 ⊢
    obtain ⟨⟨⟨hu, _⟩, _⟩, _⟩ := h7
    simp [hu]
  · have he' : t.emptyLike = false := by simpa using he
    rw [he'] at h7 ⊢
    simp only [Bool.false_eq_true, ↓reduceIte, Bool.and_eq_true, List.all_eq_true, Bool.not_eq_true',
      List.isEmpty_eq_false_iff] at h7
    obtain ⟨hne, hall⟩ := h7
    simp only [Bool.false_eq_true, ↓reduceIte, List.mem_flatMap, List.mem_filter, Bool.not_eq_true',
      List.contains_eq_mem, decide_eq_false_iff_not]
    constructor
    · rintro ⟨c, hc, hk, hn⟩
      exact ⟨hk, fun hu => hn ((sameSet_mem (hall c hc) k).mpr hu)⟩
    · rintro ⟨hk, hn⟩
      obtain ⟨c, hc⟩ := List.exists_mem_of_ne_nil _ hne
      exact ⟨c, hc, hk, fun hu => hn ((sameSet_mem (hall c hc) k).mp hu)⟩

/-- in particular a key the component understands is never reported … -/
theorem understood_not_reported (t : ParamTable) (h : t.Consistent) (p : PTree) (k : String)
    (hk : k ∈ t.understood) : k ∉ t.unknownT p :=
  fun hu => ((unknown_iff t h p k).mp hu).2 hk

/-- … and an extra key is. -/
theorem extra_key_reported (t : ParamTable) (h : t.Consistent) (p : PTree) (k : String)
    (hk : k ∈ p.keys) (hn : k ∉ t.understood) : k ∈ t.unknownT p :=
  (unknown_iff t h p k).mpr ⟨hk, hn⟩

/-! ## run-time enums -/

/-- `parse (print e) = some e` for every enumerator -/
theorem enum_parse_print (E : EnumTable) (h : E.Consistent) (e : String) (he : e ∈ E.values) :
    E.parse (E.print e) = some e := (EnumTable.consistent_unpack h).1 e he

/-- the printed names are pairwise different (so a name identifies its component) -/
theorem enum_print_injective (E : EnumTable) (h : E.Consistent) (e₁ e₂ : String) (h₁ : e₁ ∈ E.values)
    (h₂ : e₂ ∈ E.values) (heq : E.print e₁ = E.print e₂) : e₁ = e₂ := by
  have a := enum_parse_print E h e₁ h₁
  have b := enum_parse_print E h e₂ h₂
  rw [heq, b] at a
  exact (Option.some.inj a).symm

/-- an invalid enumeration value raises: `parse s = none` (`std::invalid_argument`) for every string outside the
printed names -/
theorem enum_parse_invalid (E : EnumTable) (h : E.Consistent) (s : String) (hs : s ∉ E.printedNames) :
    E.parse s = none := by
  cases hp : E.parse s with
  | none => rfl
  | some e => exact absurd ((EnumTable.consistent_unpack h).2.1 (s, e) (EnumTable.assoc_some_mem hp)) hs

/-- every enumerator has a case in every wrapper switch whose `default:` throws -/
theorem enum_switch_total (E : EnumTable) (h : E.Consistent) (sw : Switch) (hsw : sw ∈ E.switches)
    (hm : sw.mustCover = true) (e : String) (he : e ∈ E.values) : e ∈ sw.cases :=
  (EnumTable.consistent_unpack h).2.2 sw hsw hm e he

/-! ## non-vacuity: a concrete table with an inherited member, a child, a pointer companion and a foreign key -/

private def exTable : ParamTable :=
  { name := "example::derived", file := "example.hpp", line := 1, base := some "example::base",
    fields := [⟨"eps", Kind.value, "float", "example::base"⟩, ⟨"block_size", Kind.value, "unsigned", "example::derived"⟩,
               ⟨"pside", Kind.enum, "preconditioner::side::type", "example::derived"⟩,
               ⟨"sub", Kind.child, "Sub::params", "example::derived"⟩,
               ⟨"weights", Kind.pointer, "std::vector<double>", "example::derived"⟩],
    imports := [("eps", Via.value), ("block_size", Via.value), ("pside", Via.value), ("sub", Via.child)],
    manualKeys := ["weights", "weights_size"],
    checks := [⟨["eps", "block_size", "pside", "sub", "weights"], ["weights_size"], "example.hpp:9"⟩],
    exports := [("eps", Via.value), ("sub", Via.child), ("block_size", Via.value), ("pside", Via.value)],
    exportParams := ["p", "path"], derivedOwn := [], emptyLike := false }

private def exTree : PTree :=
  PTree.node "" [("block_size", PTree.node "3" []), ("sub", PTree.node "" [("x", PTree.node "1" [])]), ("bogus", PTree.node "7" [])]

example : exTable.Consistent := by decide
example : "block_size" ∈ exTable.valueFields ∧ "eps" ∈ exTable.valueFields ∧ "pside" ∈ exTable.valueFields := by decide
example : ChildLocal rawChildExp := rawChildExp_local
-- the hypotheses of `export_import_id_on_value_keys` hold on `exTree` at `block_size`, and the conclusion is `some "3"`
example : exTree.get? "block_size" = some "3" := by decide
example : (exTable.exportT rawChildExp (exTable.importT (fun _ => "d") exTree) PTree.empty).get? "block_size" = some "3" :=
  export_import_value exTable (by decide) rawChildExp rawChildExp_local _ exTree "block_size" (by decide)
example : (exTable.exportValuesAt (exTable.importT (fun _ => "d") exTree) ["precond", "relax"] PTree.empty).getPath?
    ["precond", "relax", "block_size"] = some "3" :=
  export_import_value_at_path exTable (by decide) _ exTree _ _ "block_size" (by decide)
example : exTable.unknownT exTree = ["bogus"] := by decide
example : "bogus" ∈ exTree.keys ∧ "bogus" ∉ exTable.understood := by decide

private def exEnum : EnumTable :=
  { name := "example", file := "example.hpp", values := ["left", "right"],
    prints := [("left", "L"), ("right", "R")], parses := [("L", "left"), ("R", "right")], parseThrows := true,
    switches := [⟨"example.hpp:3", ["left", "right"], true⟩, ⟨"example.hpp:9", ["left"], false⟩] }

example : exEnum.Consistent := by decide
example : exEnum.parse (exEnum.print "right") = some "right" := enum_parse_print exEnum (by decide) _ (by decide)
example : "left" ∉ exEnum.printedNames ∧ exEnum.parse "left" = none := by decide

end Amgcl.C14
