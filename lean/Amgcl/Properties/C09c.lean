import Amgcl.Properties.C09b
import Amgcl.Proofs.SchedTeam
/-!
# C09 (continued) — the OpenMP team is not the team the schedule was built for

`parallel_sweep` / `sptr_solve` build their tables for `nthreads = omp_get_max_threads()` threads; the team that
executes a parallel region may be smaller (OMP_DYNAMIC, thread limit, call from inside a parallel region,
`omp_set_num_threads` lowered after construction) or larger (raised after construction).  The regions of the tree with
repo_patches/fix_level_schedule_team_size.patch (`Model/ScheduleTeam.lean`; skeleton re-extracted by
tools/sync_skeleton.py and compared with `gsExpectedSkeleton`/`iluExpectedSkeleton` on every run) let real thread `p` of
a team of `team` threads serve the virtual threads `p, p + team, … < nthreads`, one barrier per level.

* `team_slots_cover`       constructor steps 3 and 4: for every team size ≥ 1 every thread-specific slot `0 … nt-1` is
  filled exactly once — the tables do not depend on the team.
* `team_exec_subset`, `team_exec_subset_loc`   for EVERY team size ≥ 1 (smaller than, equal to or larger than
  `nthreads`) every execution of the repaired region is an execution of `Exec` / `ExecLoc`, the semantics all C09
  theorems quantify over; with `team = nthreads` the two coincide by definition of the loop (`team_eq_nthreads_tids`).
* `gs_team_eq_serial`, `ilu_team_eq_serial`, `gs_literal_team_eq_serial`, `ilu_literal_team_eq_serial`   hence: every
  execution under any team = the serial loop (row level and literal thread-local layout).
* `team_independent`, `team_independent_literal`   the result depends neither on the team size at construction
  (`nthreads`), nor on the team that runs the sweep, nor on the interleaving.
* `old_region_small_team_counterexample`   the region as it was (`tid = thread_id(); for (t : tasks[tid])`), run by a
  team of 1 thread over tables built for 4: rows of the absent threads are never updated, result ≠ serial sweep.
-/
namespace Amgcl.C09c
open Amgcl Amgcl.Sched

/-- **constructor, steps 3 and 4**: under a team of any size ≥ 1 the loops `for (tid = thread_id(); tid < nthreads;
tid += team)` of the team's threads visit every slot `tid < nthreads` exactly once (so `tasks[tid]`, `ptr[tid]`, … are
all built, each by one thread, whatever the team) -/
theorem team_slots_cover (nt team : Nat) (ht : 1 ≤ team) : (teamFilledSlots nt team).Perm (List.range nt) :=
  teamTids_cover nt team ht

example : teamFilledSlots 8 3 = [0, 3, 6, 1, 4, 7, 2, 5] ∧ teamFilledSlots 4 1 = [0, 1, 2, 3]
    ∧ teamFilledSlots 3 5 = [0, 1, 2] := by decide

/-- with the team the schedule was built for, every thread serves exactly its own slot: the repaired region is the
original one (bitwise identical behaviour in the normal case) -/
theorem team_eq_nthreads_tids (nt p : Nat) (hp : p < nt) : teamTids nt nt p = [p] := by
  unfold teamTids
  cases nt with
  | zero => omega
  | succ n =>
    unfold teamTidsLoop
    rw [if_pos hp]
    cases n with
    | zero => rfl
    | succ m =>
      unfold teamTidsLoop
      rw [if_neg (by omega)]

example : teamTids 4 4 2 = [2] := team_eq_nthreads_tids 4 2 (by decide)

/-- **`team_exec_subset`**: for every task table, every team size ≥ 1 — smaller than, equal to or larger than the
number `tk.length = nthreads` of virtual threads the table was built for — every execution of the repaired region
(per level: each real thread runs the tasks of its virtual threads one after the other; then a barrier) is admitted by
`Exec` (per level: an interleaving of the per-virtual-thread tasks; then a barrier). -/
theorem team_exec_subset (sk : Skeleton) (hsk : sk.levelBarrier = true) (tk : List (List (List Nat)))
    (team nlev : Nat) (ht : 1 ≤ team) (σ : List Nat) (h : TeamExec tk tk.length team nlev σ) : Exec sk tk nlev σ := by
  unfold Exec
  rw [if_pos hsk]
  exact (team_levelwise_subset tk team ht h).toNat

/-- the same for the events `(tid, r)` of the literal thread-local tables -/
theorem team_exec_subset_loc {K : Type} [Zero K] (sk : Skeleton) (hsk : sk.levelBarrier = true) (Ls : List (Loc K))
    (team : Nat) (ht : 1 ≤ team) (σ : List Ev)
    (h : TeamExec (evTable Ls) (evTable Ls).length team (nlevLoc Ls) σ) : ExecLoc sk Ls σ := by
  unfold ExecLoc ExecG
  rw [if_pos hsk]
  exact team_levelwise_subset _ team ht h

/-- the hypothesis is satisfiable for every table and every team: threads in order, each its virtual threads in order -/
theorem team_thread_order_is_execution {α : Type} (tk : List (List (List α))) (nt team nlev : Nat) :
    TeamExec tk nt team nlev (teamThreadOrderSchedule tk nt team nlev) :=
  teamThreadOrder_levelwise tk nt team (List.range nlev)

/-- non-vacuity: 4 virtual threads, 2 levels; a team of 1, of 3 and of 6 threads; the three executions differ -/
example :
    let tk : List (List (List Nat)) := [[[0], [4, 5]], [[1], [6]], [[2], [7]], [[3], []]]
    teamThreadOrderSchedule tk 4 1 2 = [0, 1, 2, 3, 4, 5, 6, 7]
    ∧ teamLevelTasks tk 4 3 0 = [[0, 3], [1], [2]]
    ∧ teamLevelTasks tk 4 6 1 = [[4, 5], [6], [7], [], [], []]
    ∧ isTeamExec tk 4 3 2 [2, 0, 1, 3, 7, 6, 4, 5] = true
    ∧ isTeamExec tk 4 3 2 [3, 0, 1, 2, 4, 5, 6, 7] = false     -- thread 0 runs virtual thread 0 before virtual thread 3
    ∧ isExec gsExpectedSkeleton tk 2 [3, 0, 1, 2, 4, 5, 6, 7] = true := by decide

example : Exec gsExpectedSkeleton [[[0], [4, 5]], [[1], [6]], [[2], [7]], [[3], []]] 2
    (teamThreadOrderSchedule [[[0], [4, 5]], [[1], [6]], [[2], [7]], [[3], []]] 4 3 2) :=
  team_exec_subset _ (by decide) _ 3 2 (by decide) _ (team_thread_order_is_execution _ 4 3 2)

/-! ## every execution under any team = the serial loop -/
section gs
set_option linter.unusedSectionVars false
variable {K : Type} [Add K] [Mul K] [Sub K] [Zero K] [One K] [Div K]

/-- **Gauss–Seidel under any team**: tables built for `nt ≥ 1` threads, region executed by a team of `team ≥ 1`
threads, any interleaving of the team's threads: the sweep equals the serial sweep (no algebraic law: bit-identical) -/
theorem gs_team_eq_serial (fwd : Bool) (A : CRS K) (rhs : Vec K) (nt team : Nat) (hnt : 1 ≤ nt) (ht : 1 ≤ team)
    (σ : List Nat)
    (hσ : TeamExec (tasks (gsLevels fwd (pattern A)) nt) nt team (nlev (gsLevels fwd (pattern A))) σ) (x : Vec K) :
    gsParallelSweep A rhs σ x = gsSerialSweep fwd A rhs x := by
  refine C09.gs_any_interleaving_eq_serial fwd A rhs nt hnt σ ?_ x
  refine team_exec_subset _ (by decide) _ team _ ht σ ?_
  rw [tasks_length]; exact hσ

example (A : CRS Int) (rhs x : Vec Int) :
    gsParallelSweep A rhs (teamThreadOrderSchedule (tasks (gsLevels true (pattern A)) 8) 8 3 (nlev (gsLevels true (pattern A)))) x
      = gsSerialSweep true A rhs x :=
  gs_team_eq_serial true A rhs 8 3 (by decide) (by decide) _ (team_thread_order_is_execution _ 8 3 _) x

/-- … for the literal loops over the literal thread-local tables (events `(tid, r)`) -/
theorem gs_literal_team_eq_serial (fwd : Bool) (A : CRS K) (rhs : Vec K) (nt team : Nat) (hnt : 1 ≤ nt) (ht : 1 ≤ team)
    (σ : List Ev)
    (hσ : TeamExec (evTable (gsConstructorLoc fwd A nt)) nt team (nlevLoc (gsConstructorLoc fwd A nt)) σ) (x : Vec K) :
    gsSweepLoc (gsConstructorLoc fwd A nt) rhs σ x = gsSerialSweep fwd A rhs x := by
  refine C09b.gs_parallel_sweep_literal_eq_serial fwd A rhs nt hnt σ ?_ x
  refine team_exec_subset_loc _ (by decide) _ team ht σ ?_
  have hl : (evTable (gsConstructorLoc fwd A nt)).length = nt := constructorLoc_length A false #[] _ nt
  rw [hl]; exact hσ

example (A : CRS Int) (rhs x : Vec Int) :
    gsSweepLoc (gsConstructorLoc false A 8) rhs
      (teamThreadOrderSchedule (evTable (gsConstructorLoc false A 8)) 8 16 (nlevLoc (gsConstructorLoc false A 8))) x
      = gsSerialSweep false A rhs x :=
  gs_literal_team_eq_serial false A rhs 8 16 (by decide) (by decide) _ (team_thread_order_is_execution _ 8 16 _) x

/-- **`team_independent`**: the sweep depends neither on the thread count the tables were built for, nor on the size
of the team that executes the region, nor on the interleaving of that team's threads -/
theorem team_independent (fwd : Bool) (A : CRS K) (rhs : Vec K) (nt nt' team team' : Nat)
    (hnt : 1 ≤ nt) (hnt' : 1 ≤ nt') (ht : 1 ≤ team) (ht' : 1 ≤ team') (σ σ' : List Nat)
    (hσ : TeamExec (tasks (gsLevels fwd (pattern A)) nt) nt team (nlev (gsLevels fwd (pattern A))) σ)
    (hσ' : TeamExec (tasks (gsLevels fwd (pattern A)) nt') nt' team' (nlev (gsLevels fwd (pattern A))) σ')
    (x : Vec K) : gsParallelSweep A rhs σ x = gsParallelSweep A rhs σ' x := by
  rw [gs_team_eq_serial fwd A rhs nt team hnt ht σ hσ x, gs_team_eq_serial fwd A rhs nt' team' hnt' ht' σ' hσ' x]

theorem team_independent_literal (fwd : Bool) (A : CRS K) (rhs : Vec K) (nt nt' team team' : Nat)
    (hnt : 1 ≤ nt) (hnt' : 1 ≤ nt') (ht : 1 ≤ team) (ht' : 1 ≤ team') (σ σ' : List Ev)
    (hσ : TeamExec (evTable (gsConstructorLoc fwd A nt)) nt team (nlevLoc (gsConstructorLoc fwd A nt)) σ)
    (hσ' : TeamExec (evTable (gsConstructorLoc fwd A nt')) nt' team' (nlevLoc (gsConstructorLoc fwd A nt')) σ')
    (x : Vec K) : gsSweepLoc (gsConstructorLoc fwd A nt) rhs σ x = gsSweepLoc (gsConstructorLoc fwd A nt') rhs σ' x := by
  rw [gs_literal_team_eq_serial fwd A rhs nt team hnt ht σ hσ x,
    gs_literal_team_eq_serial fwd A rhs nt' team' hnt' ht' σ' hσ' x]

example (A : CRS Int) (rhs x : Vec Int) :
    gsParallelSweep A rhs (teamThreadOrderSchedule (tasks (gsLevels true (pattern A)) 8) 8 1 (nlev (gsLevels true (pattern A)))) x
      = gsParallelSweep A rhs (teamThreadOrderSchedule (tasks (gsLevels true (pattern A)) 4) 4 8 (nlev (gsLevels true (pattern A)))) x :=
  team_independent true A rhs 8 4 1 8 (by decide) (by decide) (by decide) (by decide) _ _
    (team_thread_order_is_execution _ 8 1 _) (team_thread_order_is_execution _ 4 8 _) x

/-- the region BEFORE the repair executed by a team of `team` threads: thread `p < team` runs `tasks[p]` only -/
def oldRegionSchedule (tk : List (List (List Nat))) (team nlev : Nat) : List Nat :=
  (List.range nlev).flatMap fun lev => ((tk.take team).map fun t => t.getD lev []).flatten

/-- **the defect**: tables built for 4 threads, the old region run by a team of ONE thread (a call from inside an
application's parallel region): rows 1, 2, 3 of the diagonal system `2 x = rhs` are never relaxed -/
theorem old_region_small_team_counterexample :
    let A : CRS Int := ⟨4, #[[(0, 1)], [(1, 1)], [(2, 1)], [(3, 1)]]⟩
    let rhs : Vec Int := #[2, 4, 6, 8]
    let tk := tasks (gsLevels true (pattern A)) 4
    let nl := nlev (gsLevels true (pattern A))
    oldRegionSchedule tk 1 nl = [0]
    ∧ gsParallelSweep A rhs (oldRegionSchedule tk 1 nl) #[0, 0, 0, 0] = #[2, 0, 0, 0]
    ∧ gsSerialSweep true A rhs #[0, 0, 0, 0] = #[2, 4, 6, 8]
    ∧ gsParallelSweep A rhs (teamThreadOrderSchedule tk 4 1 nl) #[0, 0, 0, 0] = #[2, 4, 6, 8] := by decide +kernel

end gs

section ilu
variable {K : Type} [Field K]

/-- **ILU triangular solve under any team** = `serial_solve`'s loop -/
theorem ilu_team_eq_serial (lower : Bool) (A : CRS K) (D : Vec K) (hA : StrictTri lower (pattern A))
    (nt team : Nat) (hnt : 1 ≤ nt) (ht : 1 ≤ team) (σ : List Nat)
    (hσ : TeamExec (tasks (iluLevels lower (pattern A)) nt) nt team (nlev (iluLevels lower (pattern A))) σ)
    (x : Vec K) : iluParallelHalf lower A D σ x = iluSerialHalf lower A D x := by
  refine C09.ilu_any_interleaving_eq_serial lower A D hA nt hnt σ ?_ x
  refine team_exec_subset _ (by decide) _ team _ ht σ ?_
  rw [tasks_length]; exact hσ

/-- … for the literal loops over the literal thread-local tables -/
theorem ilu_literal_team_eq_serial (lower : Bool) (A : CRS K) (D : Vec K) (hA : StrictTri lower (pattern A))
    (nt team : Nat) (hnt : 1 ≤ nt) (ht : 1 ≤ team) (σ : List Ev)
    (hσ : TeamExec (evTable (iluConstructorLoc lower A D nt)) nt team (nlevLoc (iluConstructorLoc lower A D nt)) σ)
    (x : Vec K) : iluSolveLoc lower (iluConstructorLoc lower A D nt) σ x = iluSerialHalf lower A D x := by
  refine C09b.ilu_sptr_solve_literal_eq_serial lower A D hA nt hnt σ ?_ x
  refine team_exec_subset_loc _ (by decide) _ team ht σ ?_
  have hl : (evTable (iluConstructorLoc lower A D nt)).length = nt := constructorLoc_length A (!lower) D _ nt
  rw [hl]; exact hσ

/-- the triangular solve does not depend on `nthreads`, the team or the interleaving -/
theorem ilu_team_independent (lower : Bool) (A : CRS K) (D : Vec K) (hA : StrictTri lower (pattern A))
    (nt nt' team team' : Nat) (hnt : 1 ≤ nt) (hnt' : 1 ≤ nt') (ht : 1 ≤ team) (ht' : 1 ≤ team') (σ σ' : List Ev)
    (hσ : TeamExec (evTable (iluConstructorLoc lower A D nt)) nt team (nlevLoc (iluConstructorLoc lower A D nt)) σ)
    (hσ' : TeamExec (evTable (iluConstructorLoc lower A D nt')) nt' team' (nlevLoc (iluConstructorLoc lower A D nt')) σ')
    (x : Vec K) :
    iluSolveLoc lower (iluConstructorLoc lower A D nt) σ x = iluSolveLoc lower (iluConstructorLoc lower A D nt') σ' x := by
  rw [ilu_literal_team_eq_serial lower A D hA nt team hnt ht σ hσ x,
    ilu_literal_team_eq_serial lower A D hA nt' team' hnt' ht' σ' hσ' x]

example (A : CRS Rat) (D x : Vec Rat) (hA : StrictTri true (pattern A)) :
    iluSolveLoc true (iluConstructorLoc true A D 8)
      (teamThreadOrderSchedule (evTable (iluConstructorLoc true A D 8)) 8 2 (nlevLoc (iluConstructorLoc true A D 8))) x
      = iluSolveLoc true (iluConstructorLoc true A D 4)
      (teamThreadOrderSchedule (evTable (iluConstructorLoc true A D 4)) 4 7 (nlevLoc (iluConstructorLoc true A D 4))) x :=
  ilu_team_independent true A D hA 8 4 2 7 (by decide) (by decide) (by decide) (by decide) _ _
    (team_thread_order_is_execution _ 8 2 _) (team_thread_order_is_execution _ 4 7 _) x

end ilu
end Amgcl.C09c
