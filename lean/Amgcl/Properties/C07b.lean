import Amgcl.Model.EigenVT
import Amgcl.Proofs.DistMisc
/-!
# C07 (part b) — the Eigen backend's inner product is the builtin backend's

`backend::inner_product(x, y)` of the Eigen backend is `y.dot(x)` (backend/eigen.hpp:259), Eigen's `dot` being
conjugate-linear in its FIRST argument; the builtin backend accumulates `x_i * conj(y_i)` (Kahan form).

* `eigen_backend_ip_sum`     : the Eigen form is `Σ x_i * conj(y_i)`;
* `eigen_backend_ip_builtin` : hence it equals `innerProductSerial conj x y` for every conjugation map on a commutative
  ring (real carriers: `conj = id`), so a Krylov method sees the same scalar products on both backends;
* `eigen_dot_swapped_conj`   : the OTHER argument order, `x.dot(y)`, is the conjugate of it whenever `conj` is an
  involutive ring homomorphism — they agree on real data only (this is what the correspondence op `eigc_inner_product`
  separates).
-/
namespace Amgcl.C07b
open Amgcl Amgcl.EigenVT

variable {K : Type} [CommRing K]

theorem foldl_add_map {α : Type} (l : List α) (f : α → K) (a : K) :
    l.foldl (fun acc p => acc + f p) a = a + (l.map f).sum := by
  induction l generalizing a with
  | nil => simp
  | cons b t ih => rw [List.foldl_cons, ih, List.map_cons, List.sum_cons, add_assoc]

theorem eigenDot_sum (conj : K → K) (a b : Vec K) :
    eigenDot conj a b = ((a.toList.zip b.toList).map (fun p => conj p.1 * p.2)).sum := by
  unfold eigenDot; rw [foldl_add_map, zero_add]

theorem eigen_backend_ip_sum (conj : K → K) (x y : Vec K) :
    backendInnerProduct conj x y = ((x.toList.zip y.toList).map (fun p => p.1 * conj p.2)).sum := by
  unfold backendInnerProduct
  rw [eigenDot_sum, ← List.zip_swap, List.map_map]
  congr 1
  apply List.map_congr_left
  intro p _
  simp [Function.comp, mul_comm]

theorem eigen_backend_ip_builtin (conj : K → K) (x y : Vec K) :
    backendInnerProduct conj x y = innerProductSerial conj x y := by
  rw [eigen_backend_ip_sum, Dist.kahan_eq_sum']

example : backendInnerProduct (K := Int) id #[1, 2, 3] #[4, 5, 6] = 32 := by decide

theorem eigen_dot_swapped_conj (conj : K → K) (hadd : ∀ a b, conj (a + b) = conj a + conj b)
    (hmul : ∀ a b, conj (a * b) = conj a * conj b) (hinv : ∀ a, conj (conj a) = a) (h0 : conj 0 = 0) (x y : Vec K) :
    eigenDot conj x y = conj (backendInnerProduct conj x y) := by
  rw [eigen_backend_ip_sum, eigenDot_sum]
  generalize x.toList.zip y.toList = l
  induction l with
  | nil => simp [h0]
  | cons p t ih => simp only [List.map_cons, List.sum_cons, hadd, hmul, hinv, ih]

/-- Gaussian integers as pairs, conjugation `(a, b) ↦ (a, -b)` would do; over `Int` with `conj = id` the two orders agree -/
example : eigenDot (K := Int) id #[1, 2] #[3, 4] = id (backendInnerProduct id #[1, 2] #[3, 4]) :=
  eigen_dot_swapped_conj id (fun _ _ => rfl) (fun _ _ => rfl) (fun _ => rfl) rfl _ _

end Amgcl.C07b
