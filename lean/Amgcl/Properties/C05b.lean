import Amgcl.Proofs.KrylovCGModel
import Amgcl.Proofs.KrylovCGExample
import Amgcl.Proofs.KrylovGMRESRun
import Amgcl.Proofs.KrylovGMRESExample
import Amgcl.Proofs.KrylovFGMRES
import Amgcl.Proofs.KrylovFGMRESExample
/-!
# C05 (second part) — the optimality clauses: CG conjugacy / A-norm optimality / finite termination;
GMRES and FGMRES least-squares meaning, residual minimisation and monotonicity (second half of the file)

Subject: the CG MODEL `Model/SolverCG.lean` (cg.hpp:153-204 statement by statement; right preconditioning as coded,
total division `x/0 = 0`), inner product `stdIp` (the backend's serial inner product).

Vocabulary (definitions in `Proofs/KrylovCG*.lean`):

* `cgPass sqrt A P ws f x0 e k`  the model's loop state after `k` passes of `CG.body` from `CG.init` — `r_k = (cgPass k).w.r`
  is the carried residual BEFORE pass `k`, `p_k = (cgPass (k+1)).w.p` / `q_k = (cgPass (k+1)).w.q` the search direction
  of pass `k` and `A p_k`, `x_k = (cgPass k).x`; a call `CG.solve` returns `x = (cgPass it).x` for the returned
  iteration count `it` (`cg_returns_kth_iterate`);
* `ModelNoBreakdown pass k`  the two denominators `ρ_i = ⟨r_i, P r_i⟩` and `⟨A p_i, p_i⟩` of the passes `i < k` are
  non-zero (read off the model's states; decidable on concrete inputs);
* `PDenotes n P Pl`  the preconditioner, a function on arrays, denotes the linear map `Pl` on `Fin n → K`
  (`pDenotes_spmv`: every explicit matrix preconditioner does; `pDenotes_copy`: the identity);
* `vecOf n x`, `matOf A n n`  an array as a vector, the dense matrix denoted by the CRS (`Proofs/EnergyBridge.lean`);
* `krylovSpace n A Pl f x0 k = span{(Pl ∘ A)^i (Pl (f − A x0)) : i < k}`, `energyOf n A e = (A e) ⬝ᵥ e`.

A symmetric: `A.get i j = A.get j i` (`i, j < n`); `Pl` symmetric: `Pl u ⬝ᵥ v = u ⬝ᵥ Pl v`.
-/
namespace Amgcl.C05b
open Amgcl Amgcl.Solver Amgcl.Krylov Amgcl.Energy.Bridge Matrix
set_option linter.unusedSectionVars false
set_option linter.unusedVariables false

section cg
variable {K : Type} [Field K] [DecidableEq K] [LT K] [DecidableLT K]

/-- **with `maxiter = k` CG returns the `k`-th iterate of the recurrence**: a call that does not return early returns
the loop state after `it` passes, `it ≤ maxiter`, and `it < maxiter` only if the stopping test `|res| ≤ eps` held; the
carried residual of every loop state is the true residual `f − A x` of its iterate (for a preconditioner that
returns arrays of length `n` on arrays of length `n`). -/
theorem cg_returns_kth_iterate (prm : CG.Params K) (sqrt : K → K) (eps : K) (A : CRS K) (P : Vec K → Vec K)
    (ws : CG.Work K) (f x0 : Vec K) (nf : K) (hp : prologue prm.nsSearch stdIp sqrt eps f = .go nf)
    (it : ℕ) (res : K) (x : Vec K) (w : CG.Work K)
    (h : CG.solve prm stdIp sqrt eps A P ws f x0 = .ok (it, res, x, w)) :
    x = (cgPass sqrt A P ws f x0 (CG.epsTol prm nf) it).x ∧ w = (cgPass sqrt A P ws f x0 (CG.epsTol prm nf) it).w ∧
    it ≤ prm.maxiter ∧
    (it = prm.maxiter ∨ ¬ CG.epsTol prm nf < Solver.absK (cgPass sqrt A P ws f x0 (CG.epsTol prm nf) it).res) := by
  obtain ⟨h1, h2, _, h4, h5, _⟩ := run_eq_pass prm sqrt eps A P ws f x0 nf hp it res x w h
  exact ⟨h1, h2, h4, h5⟩

/-- **`cg_conjugacy`** (every field): `A` symmetric, the preconditioner a symmetric linear map, no breakdown before
pass `k`.  Then for `i ≠ j`, both `≤ k`: `⟨r_i, P r_j⟩ = 0` and `⟨p_i, A p_j⟩ = 0`. -/
theorem cg_conjugacy (n : ℕ) (sqrt : K → K) (A : CRS K) (hA : A.WF) (hn : A.nrows = n) (hm : A.ncols = n)
    (hsym : ∀ i, i < n → ∀ j, j < n → A.get i j = A.get j i)
    (P : Vec K → Vec K) (Pl : (Fin n → K) →ₗ[K] (Fin n → K)) (hP : PDenotes n P Pl)
    (hPsym : ∀ u v, Pl u ⬝ᵥ v = u ⬝ᵥ Pl v) (ws : CG.Work K) (f x0 : Vec K) (e : K)
    (k : ℕ) (hnb : ModelNoBreakdown (cgPass sqrt A P ws f x0 e) k) (i j : ℕ) (hi : i ≤ k) (hj : j ≤ k) (hij : i ≠ j)
    (z : Vec K) :
    stdIp (cgPass sqrt A P ws f x0 e i).w.r (P (cgPass sqrt A P ws f x0 e j).w.r) = 0 ∧
    stdIp (cgPass sqrt A P ws f x0 e (i + 1)).w.p (spmv 1 A (cgPass sqrt A P ws f x0 e (j + 1)).w.p 0 z) = 0 :=
  model_conjugacy n sqrt A hA hn hm hsym P Pl hP hPsym ws f x0 e k hnb i j hi hj hij z

/-- the companion relation `⟨r_j, p_i⟩ = 0` for `i < j ≤ k` (the Galerkin condition behind the optimality) -/
theorem cg_residual_orthogonal_to_directions (n : ℕ) (sqrt : K → K) (A : CRS K) (hA : A.WF) (hn : A.nrows = n)
    (hm : A.ncols = n) (hsym : ∀ i, i < n → ∀ j, j < n → A.get i j = A.get j i)
    (P : Vec K → Vec K) (Pl : (Fin n → K) →ₗ[K] (Fin n → K)) (hP : PDenotes n P Pl)
    (hPsym : ∀ u v, Pl u ⬝ᵥ v = u ⬝ᵥ Pl v) (ws : CG.Work K) (f x0 : Vec K) (e : K)
    (k : ℕ) (hnb : ModelNoBreakdown (cgPass sqrt A P ws f x0 e) k) (i j : ℕ) (hij : i < j) (hj : j ≤ k) :
    stdIp (cgPass sqrt A P ws f x0 e j).w.r (cgPass sqrt A P ws f x0 e (i + 1)).w.p = 0 :=
  model_r_orth_p n sqrt A hA hn hm hsym P Pl hP hPsym ws f x0 e k hnb i j hij hj

end cg

section cgOrdered
variable {K : Type} [Field K] [LinearOrder K] [IsStrictOrderedRing K]

/-- **`cg_minimises_Anorm`**: `A` symmetric positive SEMI-definite (`⟨A v, v⟩ ≥ 0`; in particular SPD), the
preconditioner a symmetric linear map, `x*` a solution of `A x* = f`.  If the call returns `x` after `it` passes
without breakdown, then `x ∈ x₀ + K_it(PA, P r₀)` and `x` minimises the squared `A`-norm of the error
`⟨A (x* − y), x* − y⟩` over all `y ∈ x₀ + K_it(PA, P r₀)`.  (No square root: the statement is about the squares.) -/
theorem cg_minimises_Anorm (n : ℕ) (A : CRS K) (hA : A.WF) (hn : A.nrows = n) (hm : A.ncols = n)
    (hsym : ∀ i, i < n → ∀ j, j < n → A.get i j = A.get j i)
    (P : Vec K → Vec K) (Pl : (Fin n → K) →ₗ[K] (Fin n → K)) (hP : PDenotes n P Pl)
    (hPsym : ∀ u v, Pl u ⬝ᵥ v = u ⬝ᵥ Pl v)
    (hpos : ∀ v : Fin n → K, 0 ≤ energyOf n A v)
    (prm : CG.Params K) (sqrt : K → K) (eps : K) (ws : CG.Work K) (f x0 : Vec K) (nf : K)
    (hp : prologue prm.nsSearch stdIp sqrt eps f = .go nf)
    (it : ℕ) (res : K) (x : Vec K) (w : CG.Work K)
    (h : CG.solve prm stdIp sqrt eps A P ws f x0 = .ok (it, res, x, w))
    (hnb : ModelNoBreakdown (cgPass sqrt A P ws f x0 (CG.epsTol prm nf)) it)
    (xs : Fin n → K) (hxs : matOf A n n *ᵥ xs = vecOf n f) :
    vecOf n x - vecOf n x0 ∈ krylovSpace n A Pl f x0 it ∧
    ∀ y : Fin n → K, y - vecOf n x0 ∈ krylovSpace n A Pl f x0 it →
      energyOf n A (xs - vecOf n x) ≤ energyOf n A (xs - y) := by
  obtain ⟨h1, _⟩ := run_eq_pass prm sqrt eps A P ws f x0 nf hp it res x w h
  rw [h1]
  exact ⟨model_mem_krylov n sqrt A hA hn hm hsym P Pl hP hPsym ws f x0 _ it,
    fun y hy => model_energy_min n sqrt A hA hn hm hsym P Pl hP hPsym ws f x0 _ hpos xs hxs it hnb y hy⟩

/-- **`cg_minimises_Anorm` for SPD `A` and SPD `P`: no breakdown hypothesis at all.**  Breakdown cannot happen while
the residual is non-zero, and once it is zero the iterate is the solution and stays there (total division). -/
theorem cg_minimises_Anorm_spd (n : ℕ) (A : CRS K) (hA : A.WF) (hn : A.nrows = n) (hm : A.ncols = n)
    (hsym : ∀ i, i < n → ∀ j, j < n → A.get i j = A.get j i)
    (P : Vec K → Vec K) (Pl : (Fin n → K) →ₗ[K] (Fin n → K)) (hP : PDenotes n P Pl)
    (hPsym : ∀ u v, Pl u ⬝ᵥ v = u ⬝ᵥ Pl v)
    (hApd : ∀ v : Fin n → K, v ≠ 0 → 0 < energyOf n A v) (hPpd : ∀ v : Fin n → K, v ≠ 0 → 0 < v ⬝ᵥ Pl v)
    (prm : CG.Params K) (sqrt : K → K) (eps : K) (ws : CG.Work K) (f x0 : Vec K) (nf : K)
    (hp : prologue prm.nsSearch stdIp sqrt eps f = .go nf)
    (it : ℕ) (res : K) (x : Vec K) (w : CG.Work K)
    (h : CG.solve prm stdIp sqrt eps A P ws f x0 = .ok (it, res, x, w))
    (xs : Fin n → K) (hxs : matOf A n n *ᵥ xs = vecOf n f) :
    vecOf n x - vecOf n x0 ∈ krylovSpace n A Pl f x0 it ∧
    ∀ y : Fin n → K, y - vecOf n x0 ∈ krylovSpace n A Pl f x0 it →
      energyOf n A (xs - vecOf n x) ≤ energyOf n A (xs - y) := by
  obtain ⟨h1, _⟩ := run_eq_pass prm sqrt eps A P ws f x0 nf hp it res x w h
  rw [h1]
  exact ⟨model_mem_krylov n sqrt A hA hn hm hsym P Pl hP hPsym ws f x0 _ it,
    fun y hy => model_energy_min_spd n sqrt A hA hn hm hsym P Pl hP hPsym ws f x0 _ hApd hPpd xs hxs it y hy⟩

/-- for SPD `A`, `P` the hypothesis `ModelNoBreakdown` of `cg_conjugacy` holds as long as the carried residuals are
non-zero -/
theorem cg_no_breakdown_spd (n : ℕ) (sqrt : K → K) (A : CRS K) (hA : A.WF) (hn : A.nrows = n) (hm : A.ncols = n)
    (hsym : ∀ i, i < n → ∀ j, j < n → A.get i j = A.get j i)
    (P : Vec K → Vec K) (Pl : (Fin n → K) →ₗ[K] (Fin n → K)) (hP : PDenotes n P Pl)
    (hPsym : ∀ u v, Pl u ⬝ᵥ v = u ⬝ᵥ Pl v)
    (hApd : ∀ v : Fin n → K, v ≠ 0 → 0 < energyOf n A v) (hPpd : ∀ v : Fin n → K, v ≠ 0 → 0 < v ⬝ᵥ Pl v)
    (ws : CG.Work K) (f x0 : Vec K) (e : K) (k : ℕ)
    (hr : ∀ i, i < k → (cgPass sqrt A P ws f x0 e i).w.r ≠ vclear n) :
    ModelNoBreakdown (cgPass sqrt A P ws f x0 e) k :=
  model_noBreakdown_spd n sqrt A hA hn hm hsym P Pl hP hPsym ws f x0 e hApd hPpd k hr

/-- **`cg_terminates_within_n`**: `A`, `P` SPD of dimension `n`.  (a) After `n` passes of the loop body (and after any
larger number) the carried residual — which is the true residual `f − A x` of the iterate — is exactly the zero
vector: `n + 1` non-zero mutually `P`-orthogonal residuals cannot exist.  (b) Consequently, for `‖0‖ = 0` and a
non-negative threshold, every call makes at most `n` passes, and a call that makes `n` passes returns the exact
solution and reports `0`. -/
theorem cg_terminates_within_n (n : ℕ) (A : CRS K) (hA : A.WF) (hn : A.nrows = n) (hm : A.ncols = n)
    (hsym : ∀ i, i < n → ∀ j, j < n → A.get i j = A.get j i)
    (P : Vec K → Vec K) (Pl : (Fin n → K) →ₗ[K] (Fin n → K)) (hP : PDenotes n P Pl)
    (hPsym : ∀ u v, Pl u ⬝ᵥ v = u ⬝ᵥ Pl v)
    (hApd : ∀ v : Fin n → K, v ≠ 0 → 0 < energyOf n A v) (hPpd : ∀ v : Fin n → K, v ≠ 0 → 0 < v ⬝ᵥ Pl v)
    (sqrt : K → K) (ws : CG.Work K) (f x0 : Vec K) :
    (∀ (e : K) (k : ℕ), n ≤ k →
      (cgPass sqrt A P ws f x0 e k).w.r = vclear n ∧
      residual f A (cgPass sqrt A P ws f x0 e k).x = vclear n) ∧
    ∀ (prm : CG.Params K) (eps nf : K), prologue prm.nsSearch stdIp sqrt eps f = .go nf →
      nrm stdIp sqrt (vclear n) = 0 → ¬ CG.epsTol prm nf < 0 →
      ∀ (it : ℕ) (res : K) (x : Vec K) (w : CG.Work K),
        CG.solve prm stdIp sqrt eps A P ws f x0 = .ok (it, res, x, w) →
        it ≤ n ∧ (it = n → residual f A x = vclear n ∧ res = 0) := by
  refine ⟨fun e k hk => ?_, fun prm eps nf hp hz heps it res x w h => ?_⟩
  · have h := (model_terminates n sqrt A hA hn hm hsym P Pl hP hPsym ws f x0 e hApd hPpd k hk).1
    exact ⟨h, by rw [← pass_r_true n sqrt A hA hn hm hsym P Pl hP hPsym ws f x0 e k]; exact h⟩
  · exact run_terminates n A hA hn hm hsym P Pl hP hPsym prm sqrt eps ws f x0 nf hp hApd hPpd hz heps it res x w h

end cgOrdered

/-! ### non-vacuity over `ℚ`: the SPD system `A₃ = [[4,-1,0],[-1,3,-1],[0,-1,2]]`, Jacobi preconditioner
`M₃ = diag(1/4, 1/3, 1/2)`, `f = A₃·(1,1,1) = (3,1,1)`, `x₀ = (1,0,0)`, the executable `rsqrt`
(the data and the discharged hypotheses `hA₃ … hnb₃` are in `Proofs/KrylovCGExample.lean`) -/
section nonvacuous
open Amgcl.Krylov.Ex3

/-- `cg_conjugacy` on this run: the three residuals are mutually `P`-orthogonal, the three directions mutually
`A`-conjugate (all hypotheses discharged) -/
example (i j : ℕ) (hi : i ≤ 3) (hj : j ≤ 3) (hij : i ≠ j) :
    stdIp (cgPass Amgcl.rsqrt A₃ P₃ (CG.Work.fresh 3) f₃ x₃ 0 i).w.r
        (P₃ (cgPass Amgcl.rsqrt A₃ P₃ (CG.Work.fresh 3) f₃ x₃ 0 j).w.r) = 0 ∧
    stdIp (cgPass Amgcl.rsqrt A₃ P₃ (CG.Work.fresh 3) f₃ x₃ 0 (i + 1)).w.p
        (spmv 1 A₃ (cgPass Amgcl.rsqrt A₃ P₃ (CG.Work.fresh 3) f₃ x₃ 0 (j + 1)).w.p 0 #[]) = 0 :=
  cg_conjugacy 3 Amgcl.rsqrt A₃ hA₃ rfl rfl hsym₃ P₃ Pl₃ hP₃ hPsym₃ (CG.Work.fresh 3) f₃ x₃ 0 3 hnb₃ i j hi hj hij #[]

/-- the residuals of this run are not trivially zero: `r₀, r₁, r₂ ≠ 0` (so the orthogonality above is not vacuous),
and the call with `maxiter = 2` makes two passes -/
example : (∀ i, i < 3 → (cgPass Amgcl.rsqrt A₃ P₃ (CG.Work.fresh 3) f₃ x₃ 0 i).w.r ≠ vclear 3) ∧
    (match CG.solve { prm₃ with maxiter := 2 } stdIp Amgcl.rsqrt 0 A₃ P₃ (CG.Work.fresh 3) f₃ x₃ with
      | .ok (it, _, _, _) => decide (it = 2) | _ => false) = true := by
  constructor
  · decide +kernel
  · decide +kernel

/-- `cg_minimises_Anorm` / `cg_minimises_Anorm_spd` on this system with `maxiter = 2`: the hypotheses are satisfiable
(SPD `A₃`, SPD Jacobi `P₃`, solution `x* = (1,1,1)`), whatever the call returns -/
example (it : ℕ) (res : ℚ) (x : Vec ℚ) (w : CG.Work ℚ)
    (h : CG.solve { prm₃ with maxiter := 2 } stdIp Amgcl.rsqrt 0 A₃ P₃ (CG.Work.fresh 3) f₃ x₃ = .ok (it, res, x, w)) :
    vecOf 3 x - vecOf 3 x₃ ∈ krylovSpace 3 A₃ Pl₃ f₃ x₃ it ∧
    ∀ y : Fin 3 → ℚ, y - vecOf 3 x₃ ∈ krylovSpace 3 A₃ Pl₃ f₃ x₃ it →
      energyOf 3 A₃ (![1, 1, 1] - vecOf 3 x) ≤ energyOf 3 A₃ (![1, 1, 1] - y) :=
  cg_minimises_Anorm_spd 3 A₃ hA₃ rfl rfl hsym₃ P₃ Pl₃ hP₃ hPsym₃ hApd₃ hPpd₃ _ Amgcl.rsqrt 0 (CG.Work.fresh 3) f₃ x₃ _
    (hp₃ 2) it res x w h ![1, 1, 1] hxs₃

/-- … and such a call exists and its returned `x` is not yet the solution (the minimisation is not vacuous) -/
example : (match CG.solve { prm₃ with maxiter := 2 } stdIp Amgcl.rsqrt 0 A₃ P₃ (CG.Work.fresh 3) f₃ x₃ with
      | .ok (it, _, x, _) => decide (it = 2 ∧ residual f₃ A₃ x ≠ vclear 3) | _ => false) = true := by
  decide +kernel

/-- `cg_terminates_within_n` on this system: after `3` passes the residual is exactly zero (here evaluated
independently by the kernel as well), and a call with `maxiter = 5` makes exactly `3` passes -/
example : (cgPass Amgcl.rsqrt A₃ P₃ (CG.Work.fresh 3) f₃ x₃ 0 3).w.r = vclear 3 :=
  ((cg_terminates_within_n 3 A₃ hA₃ rfl rfl hsym₃ P₃ Pl₃ hP₃ hPsym₃ hApd₃ hPpd₃ Amgcl.rsqrt (CG.Work.fresh 3) f₃
    x₃).1 0 3 (Nat.le_refl 3)).1

example : (match CG.solve prm₃ stdIp Amgcl.rsqrt 0 A₃ P₃ (CG.Work.fresh 3) f₃ x₃ with
      | .ok (it, res, x, _) => decide (it = 3 ∧ res = 0 ∧ residual f₃ A₃ x = vclear 3) | _ => false) = true := by
  decide +kernel

example : nrm stdIp Amgcl.rsqrt (vclear 3 : Vec ℚ) = 0 ∧ ¬ CG.epsTol prm₃ (nrm stdIp Amgcl.rsqrt f₃) < 0 := by
  decide +kernel

end nonvacuous

/-! ## GMRES: least-squares meaning of the Givens-reduced system

Subject: one restart cycle of the GMRES MODEL `Model/SolverGMRES.lean` (gmres.hpp:201-264 statement by statement), BOTH
preconditioning sides, inner product `stdIp`, over an ordered field.

Vocabulary (definitions in `Proofs/KrylovGMRES*.lean`, `Proofs/KrylovGivens.lean`):

* `CycleStart side sqrt A P f st`  `st` is a state at the `break` test of the outer loop (`st.w.r = Rf side P f A st.x`, the
  measured residual `f − A x` (right) / `P(f − A x)` (left); `st.normR` its norm) with `st.normR ≠ 0`; every state of the
  outer loop is of this form (`cycleStart_head`, `GMRES.final_inv`);
* `innerPass side sqrt A P st j`   the inner-loop state after `j` passes of `GMRES.step` from `cycleStart st`; the inner
  `do … while` of the model ends in `innerPass … j` for its own pass count `j` (`gmres_cycle_returns_iterate`);
  `s_j = (innerPass … j).w.h.s.get j` is the last entry of the Givens-reduced right-hand side, `inner_res = |s_j|`;
* `cycleIterate side sqrt A P st j = (GMRES.update side P st (innerPass … j)).x`   the `x` returned if the loop ends there;
* `arnoldiNorm … i`   the value `H(i+1,i) = ‖w_i‖` pass `i` computes (`0` = breakdown);
* `RootsExact side sqrt A P st j`   the square root is exact (`sqrt x · sqrt x = x`) on the numbers the first `j` passes
  apply it to: `⟨r,r⟩`, `⟨w_i,w_i⟩` and the argument `1 + tmp²` of `generate_plane_rotation`, `i < j`.  Implied by
  `hsqrt : ∀ x ≥ 0, sqrt x · sqrt x = x` (`gmres_roots_exact_of_hsqrt`; non-vacuous at `ℝ` with `Real.sqrt`), and
  decidable on rational inputs — which makes the examples below possible with the executable `rsqrt`;
* `Tl side A Pl` = `A Pl` (right) / `Pl A` (left), `Xl side Pl` = `Pl` / `id`, `resOf side A Pl f x` = `f − A x` / `Pl (f − A x)`;
  `gmresKrylov side n A Pl r₀ j = span{(Tl)^i r₀ : i < j}`.
-/
section gmres
variable {K : Type} [Field K] [LinearOrder K] [IsStrictOrderedRing K]

/-- the hypothesis `RootsExact` follows from an exact square root -/
theorem gmres_roots_exact_of_hsqrt (side : Side) (sqrt : K → K) (hsqrt : ∀ x, 0 ≤ x → sqrt x * sqrt x = x ∧ 0 ≤ sqrt x)
    (A : CRS K) (P : Vec K → Vec K) (st : GMRES.St K) (j : ℕ) : RootsExact side sqrt A P st j :=
  rootsExact_of_hsqrt side sqrt (fun x hx => (hsqrt x hx).1) A P st j

/-- **the cycle of the model returns `cycleIterate`**: the inner loop ends in `innerPass … j` for its own pass count
`j ≥ 1`, the cycle returns `x = cycleIterate … j`; and a call that makes exactly one cycle (first stopping test fails,
second succeeds — e.g. `maxiter = k ≤ M` without earlier convergence) returns `j` iterations, the iterate after `j`
passes, and the norm of ITS measured residual divided by `norm_rhs`. -/
theorem gmres_cycle_returns_iterate (prm : GMRES.Params K) (sqrt : K → K) (A : CRS K) (P : Vec K → Vec K) :
    (∀ (epsT : K) (st : GMRES.St K),
      GMRES.inner prm stdIp sqrt A P epsT st
          = innerPass prm.pside sqrt A P st (GMRES.inner prm stdIp sqrt A P epsT st).j ∧
      1 ≤ (GMRES.inner prm stdIp sqrt A P epsT st).j ∧
      (GMRES.cycle prm stdIp sqrt A P epsT st).x
          = cycleIterate prm.pside sqrt A P st (GMRES.inner prm stdIp sqrt A P epsT st).j) ∧
    ∀ (eps : K) (ws : GMRES.Work K) (f x0 : Vec K) (nf : K),
      prologueA prm.nsSearch stdIp sqrt eps f = .go nf →
      GMRES.stop prm.maxiter (GMRES.epsTol prm nf) (GMRES.init prm stdIp sqrt A P ws f x0) = false →
      GMRES.stop prm.maxiter (GMRES.epsTol prm nf) (GMRES.head prm.pside stdIp sqrt A P f
        (GMRES.cycle prm stdIp sqrt A P (GMRES.epsTol prm nf) (GMRES.init prm stdIp sqrt A P ws f x0))) = true →
      ∃ j w, 1 ≤ j ∧ j ≤ prm.maxiter ∧
        j = (GMRES.inner prm stdIp sqrt A P (GMRES.epsTol prm nf) (GMRES.init prm stdIp sqrt A P ws f x0)).j ∧
        GMRES.solve prm stdIp sqrt eps A P ws f x0
          = .ok (j, nrmA stdIp sqrt (GMRES.Rf prm.pside P f A
                (cycleIterate prm.pside sqrt A P (GMRES.init prm stdIp sqrt A P ws f x0) j)) / nf,
              cycleIterate prm.pside sqrt A P (GMRES.init prm stdIp sqrt A P ws f x0) j, w) :=
  ⟨fun epsT st => ⟨(inner_eq_innerPass prm sqrt A P epsT st).1, (inner_eq_innerPass prm sqrt A P epsT st).2,
      cycle_x prm sqrt A P epsT st⟩,
   fun eps ws f x0 nf hp h0 h1 => run_one_cycle prm sqrt eps A P ws f x0 nf hp h0 h1⟩

variable (n : ℕ) (A : CRS K) (hA : A.WF) (hn : A.nrows = n) (hm : A.ncols = n)
  (P : Vec K → Vec K) (Pl : (Fin n → K) →ₗ[K] (Fin n → K)) (hP : PDenotes n P Pl) (side : Side) (sqrt : K → K)
  (f : Vec K) (st : GMRES.St K) (hst : CycleStart side sqrt A P f st)
include hA hn hm hP hst

/-- **least-squares identity** (no breakdown, roots exact in the first `j` passes): for EVERY coefficient vector `y`
the squared norm of the measured residual of `x₀ + Xl (Σ_{i<j} y_i v_i)` is
`Σ_{a<j} (s_a − Σ_{a ≤ i < j} H(a,i) y_i)² + s_j²` with the STORED (rotated, upper triangular) `H` and `s` of the model. -/
theorem gmres_least_squares (j : ℕ) (hroots : RootsExact side sqrt A P st j)
    (hnb : ∀ i, i < j → arnoldiNorm side sqrt A P st i ≠ 0) (y : ℕ → K) :
    resOf side (matOf A n n) Pl (vecOf n f) (vecOf n st.x
        + Xl side Pl (∑ i ∈ Finset.range j, y i • vecOf n ((innerPass side sqrt A P st j).w.v.get i)))
      ⬝ᵥ resOf side (matOf A n n) Pl (vecOf n f) (vecOf n st.x
        + Xl side Pl (∑ i ∈ Finset.range j, y i • vecOf n ((innerPass side sqrt A P st j).w.v.get i)))
    = ∑ a ∈ Finset.range j, ((innerPass side sqrt A P st j).w.h.s.get a
          - ∑ i ∈ Finset.Ico a j, (innerPass side sqrt A P st j).w.h.H.get a i * y i)
        * ((innerPass side sqrt A P st j).w.h.s.get a
          - ∑ i ∈ Finset.Ico a j, (innerPass side sqrt A P st j).w.h.H.get a i * y i)
      + (innerPass side sqrt A P st j).w.h.s.get j * (innerPass side sqrt A P st j).w.h.s.get j :=
  cycle_ls n A hA hn hm P Pl hP side sqrt f st hst j hroots hnb y

/-- **the Givens-reduced quantity `|s_j|` that GMRES uses as residual estimate is the norm of the true (measured)
residual of the iterate it would return at that point**: `‖Rf x_j‖² = s_j²`, `inner_res = |s_j|`, and — when the root
is exact on `s_j²` and non-negative there — `‖Rf x_j‖ = inner_res` with the model's own norm `nrmA`. -/
theorem gmres_residual_estimate (j : ℕ) (hj : 1 ≤ j) (hroots : RootsExact side sqrt A P st j)
    (hnb : ∀ i, i < j → arnoldiNorm side sqrt A P st i ≠ 0) :
    stdIp (GMRES.Rf side P f A (cycleIterate side sqrt A P st j)) (GMRES.Rf side P f A (cycleIterate side sqrt A P st j))
      = (innerPass side sqrt A P st j).w.h.s.get j * (innerPass side sqrt A P st j).w.h.s.get j ∧
    (innerPass side sqrt A P st j).innerRes = Solver.absK ((innerPass side sqrt A P st j).w.h.s.get j) ∧
    (RootAt sqrt ((innerPass side sqrt A P st j).w.h.s.get j * (innerPass side sqrt A P st j).w.h.s.get j) ∧
        0 ≤ sqrt ((innerPass side sqrt A P st j).w.h.s.get j * (innerPass side sqrt A P st j).w.h.s.get j) →
      nrmA stdIp sqrt (GMRES.Rf side P f A (cycleIterate side sqrt A P st j))
        = (innerPass side sqrt A P st j).innerRes) := by
  refine ⟨cycle_residual n A hA hn hm P Pl hP side sqrt f st hst j hj hroots hnb, ?_, fun hs => ?_⟩
  · obtain ⟨m, rfl⟩ : ∃ m, j = m + 1 := ⟨j - 1, by omega⟩
    exact innerPass_innerRes side sqrt A P st m
  · obtain ⟨h1, h2⟩ := cycle_residual_norm n A hA hn hm P Pl hP side sqrt f st hst j hj hroots hnb hs
    rw [h1, h2]

/-- **the iterate minimises the norm of the measured residual over `x₀ + Xl (K_j(T, r₀))`**, `T = A Pl` / `Pl A` the
preconditioned operator, `r₀` the measured residual at the start of the cycle: the iterate lies in that affine space
and no element of it has a smaller residual norm (squared form, no root). -/
theorem gmres_minimises_residual (j : ℕ) (hj : 1 ≤ j) (hroots : RootsExact side sqrt A P st j)
    (hnb : ∀ i, i < j → arnoldiNorm side sqrt A P st i ≠ 0) :
    (∃ d ∈ gmresKrylov side n A Pl (vecOf n st.w.r) j,
      vecOf n (cycleIterate side sqrt A P st j) = vecOf n st.x + Xl side Pl d) ∧
    ∀ d ∈ gmresKrylov side n A Pl (vecOf n st.w.r) j,
      stdIp (GMRES.Rf side P f A (cycleIterate side sqrt A P st j))
          (GMRES.Rf side P f A (cycleIterate side sqrt A P st j))
        ≤ resOf side (matOf A n n) Pl (vecOf n f) (vecOf n st.x + Xl side Pl d)
          ⬝ᵥ resOf side (matOf A n n) Pl (vecOf n f) (vecOf n st.x + Xl side Pl d) := by
  rw [← arnoldiSpan_eq_krylov n A hA hn hm P Pl hP side sqrt f st hst j hroots hnb]
  exact ⟨cycleIterate_mem n A hA hn hm P Pl hP side sqrt f st hst j hj hroots hnb,
    fun d hd => cycle_minimal n A hA hn hm P Pl hP side sqrt f st hst j hj hroots hnb d hd⟩

omit hA hn hm hP hst in
/-- **`gmres_residual_antitone`, the reported estimate**: `inner_res` after pass `j+1` is `|sn_j|·|s_j| ≤ |s_j|` — the
quantity the loop tests does not increase from pass to pass (root exact in the rotation of pass `j` only). -/
theorem gmres_estimate_antitone (j : ℕ)
    (hg : RootAt sqrt (rotArgOf side sqrt A P (innerPass side sqrt A P st j))) :
    (innerPass side sqrt A P st (j + 1)).innerRes ≤ Solver.absK ((innerPass side sqrt A P st j).w.h.s.get j) := by
  obtain ⟨h1, h2⟩ := innerRes_antitone side sqrt A P st j hg
  rw [h1]; exact h2

/-- **`gmres_residual_antitone`, the true residual**: within a cycle the norm of the measured residual of the iterate
does not increase with the number of passes: `‖Rf x_{j+1}‖² ≤ ‖Rf x_j‖²` (`j ≥ 1`), and `‖Rf x_1‖² ≤ ‖r₀‖²`. -/
theorem gmres_residual_antitone (j : ℕ) (hroots : RootsExact side sqrt A P st (j + 1))
    (hnb : ∀ i, i < j + 1 → arnoldiNorm side sqrt A P st i ≠ 0) :
    stdIp (GMRES.Rf side P f A (cycleIterate side sqrt A P st (j + 1)))
        (GMRES.Rf side P f A (cycleIterate side sqrt A P st (j + 1)))
      ≤ (if j = 0 then stdIp (GMRES.Rf side P f A st.x) (GMRES.Rf side P f A st.x)
         else stdIp (GMRES.Rf side P f A (cycleIterate side sqrt A P st j))
          (GMRES.Rf side P f A (cycleIterate side sqrt A P st j))) := by
  by_cases hj : j = 0
  · subst hj
    rw [if_pos rfl]
    exact cycle_antitone_zero n A hA hn hm P Pl hP side sqrt f st hst hroots (hnb 0 Nat.zero_lt_one)
  · rw [if_neg hj]
    exact cycle_antitone n A hA hn hm P Pl hP side sqrt f st hst j (by omega) hroots hnb

end gmres

/-! ### non-vacuity over `ℚ` with the executable `rsqrt`: non-symmetric `A = [[3,0,1],[4,5,2],[0,4,3]]`, identity
preconditioner, right side, `f = (25,0,0)`, `x₀ = 0` — `rsqrt` is exact on every number the first two passes apply it to
(data and discharged hypotheses `hAg, hPg, hstg, hrootsg, hnbg` in `Proofs/KrylovGMRESExample.lean`) -/
section nonvacuousGmres
open Amgcl.Krylov.ExG

/-- `gmres_residual_estimate` for `j = 2`: `‖f − A x₂‖² = s₂²` … -/
example : stdIp (GMRES.Rf .right Pg fg Ag (cycleIterate .right Amgcl.rsqrt Ag Pg stg 2))
      (GMRES.Rf .right Pg fg Ag (cycleIterate .right Amgcl.rsqrt Ag Pg stg 2))
    = (innerPass .right Amgcl.rsqrt Ag Pg stg 2).w.h.s.get 2 * (innerPass .right Amgcl.rsqrt Ag Pg stg 2).w.h.s.get 2 :=
  (gmres_residual_estimate 3 Ag hAg rfl rfl Pg LinearMap.id hPg .right Amgcl.rsqrt fg stg hstg 2 (by decide) hrootsg
    hnbg).1

/-- … and, with the root exact on `s₂² = 256` as well, `‖f − A x₂‖ = inner_res` in the model's own norm -/
example : nrmA stdIp Amgcl.rsqrt (GMRES.Rf .right Pg fg Ag (cycleIterate .right Amgcl.rsqrt Ag Pg stg 2))
    = (innerPass .right Amgcl.rsqrt Ag Pg stg 2).innerRes :=
  (gmres_residual_estimate 3 Ag hAg rfl rfl Pg LinearMap.id hPg .right Amgcl.rsqrt fg stg hstg 2 (by decide) hrootsg
    hnbg).2.2 (by decide +kernel)

/-- the numbers, evaluated independently by the kernel: `s₂ = 16`, `‖f − A x₂‖² = 256`, `|s₁| = 20 > |s₂| = 16`,
`x₂ = (123/25, −12/5, 0)` is not the solution -/
example : (innerPass .right Amgcl.rsqrt Ag Pg stg 2).w.h.s.get 2 = 16 ∧
    stdIp (residual fg Ag (cycleIterate .right Amgcl.rsqrt Ag Pg stg 2))
      (residual fg Ag (cycleIterate .right Amgcl.rsqrt Ag Pg stg 2)) = 256 ∧
    (innerPass .right Amgcl.rsqrt Ag Pg stg 1).innerRes = 20 ∧ (innerPass .right Amgcl.rsqrt Ag Pg stg 2).innerRes = 16 ∧
    cycleIterate .right Amgcl.rsqrt Ag Pg stg 2 = #[123/25, -12/5, 0] := by decide +kernel

/-- `gmres_least_squares` / `gmres_minimises_residual` for `j = 2` on this system (all hypotheses discharged) -/
example : (∃ d ∈ gmresKrylov .right 3 Ag LinearMap.id (vecOf 3 stg.w.r) 2,
      vecOf 3 (cycleIterate .right Amgcl.rsqrt Ag Pg stg 2) = vecOf 3 stg.x + Xl .right LinearMap.id d) ∧
    ∀ d ∈ gmresKrylov .right 3 Ag LinearMap.id (vecOf 3 stg.w.r) 2,
      stdIp (GMRES.Rf .right Pg fg Ag (cycleIterate .right Amgcl.rsqrt Ag Pg stg 2))
          (GMRES.Rf .right Pg fg Ag (cycleIterate .right Amgcl.rsqrt Ag Pg stg 2))
        ≤ resOf .right (matOf Ag 3 3) LinearMap.id (vecOf 3 fg) (vecOf 3 stg.x + Xl .right LinearMap.id d)
          ⬝ᵥ resOf .right (matOf Ag 3 3) LinearMap.id (vecOf 3 fg) (vecOf 3 stg.x + Xl .right LinearMap.id d) :=
  gmres_minimises_residual 3 Ag hAg rfl rfl Pg LinearMap.id hPg .right Amgcl.rsqrt fg stg hstg 2 (by decide) hrootsg hnbg

/-- `gmres_residual_antitone` for `j = 1`: `‖f − A x₂‖² ≤ ‖f − A x₁‖²` (here `256 ≤ 400`) -/
example : stdIp (GMRES.Rf .right Pg fg Ag (cycleIterate .right Amgcl.rsqrt Ag Pg stg 2))
      (GMRES.Rf .right Pg fg Ag (cycleIterate .right Amgcl.rsqrt Ag Pg stg 2))
    ≤ stdIp (GMRES.Rf .right Pg fg Ag (cycleIterate .right Amgcl.rsqrt Ag Pg stg 1))
      (GMRES.Rf .right Pg fg Ag (cycleIterate .right Amgcl.rsqrt Ag Pg stg 1)) :=
  gmres_residual_antitone 3 Ag hAg rfl rfl Pg LinearMap.id hPg .right Amgcl.rsqrt fg stg hstg 1 hrootsg hnbg

/-- `gmres_cycle_returns_iterate` on this system with `maxiter = 2 ≤ M = 3`: the call makes one cycle of two passes and
returns `cycleIterate … 2` with reported residual `16/25` -/
example : (match GMRES.solve prmg stdIp Amgcl.rsqrt 0 Ag Pg (GMRES.Work.fresh 3) fg xg with
      | .ok (it, res, x, _) => decide (it = 2 ∧ res = 16/25 ∧ x = cycleIterate .right Amgcl.rsqrt Ag Pg stg 2)
      | _ => false) = true := by decide +kernel

end nonvacuousGmres

/-! ## FGMRES: the same least-squares meaning, for an ARBITRARY preconditioner function

Subject: one restart cycle of the FGMRES MODEL `Model/SolverFGMRES.lean` (fgmres.hpp:184-234).  Its Arnoldi–Givens process
is the one of right-preconditioned GMRES on the same work arrays (`fsim`: the two inner loops agree in `j, iter, inner_res,
H, s, cs, sn, v`, and `z_i = P v_i`), and the update is `x += Σ y_i z_i`; therefore NOTHING is assumed about `P` beyond
`(P u).size = n` — it may be non-linear and need not be the same map in every application in the sense that only the
stored `z_i` enter.  `fInnerPass sqrt A P st j` is the inner-loop state after `j` passes, `fCycleIterate … j` the `x` of
`FGMRES.update`, `toG st` the simulating GMRES state; root / breakdown hypotheses are those of the simulating run (the
two loops apply `sqrt` to the same numbers). -/
section fgmres
variable {K : Type} [Field K] [LinearOrder K] [IsStrictOrderedRing K]

/-- the inner loop of the model ends in `fInnerPass … j` (`j ≥ 1` its own pass count), the cycle returns
`fCycleIterate … j`, and `inner_res = |s_j|` -/
theorem fgmres_cycle_returns_iterate (prm : FGMRES.Params K) (sqrt : K → K) (A : CRS K) (P : Vec K → Vec K) (epsT : K)
    (st : FGMRES.St K) :
    FGMRES.inner prm stdIp sqrt A P epsT st = fInnerPass sqrt A P st (FGMRES.inner prm stdIp sqrt A P epsT st).j ∧
    1 ≤ (FGMRES.inner prm stdIp sqrt A P epsT st).j ∧
    (FGMRES.cycle prm stdIp sqrt A P epsT st).x
      = fCycleIterate sqrt A P st (FGMRES.inner prm stdIp sqrt A P epsT st).j ∧
    ∀ j, (fInnerPass sqrt A P st (j + 1)).innerRes
      = Solver.absK ((fInnerPass sqrt A P st (j + 1)).w.h.s.get (j + 1)) :=
  ⟨(finner_eq prm sqrt A P epsT st).1, (finner_eq prm sqrt A P epsT st).2.1, (finner_eq prm sqrt A P epsT st).2.2,
    fun j => fInnerPass_innerRes sqrt A P st j⟩

variable (n : ℕ) (A : CRS K) (hA : A.WF) (hn : A.nrows = n) (hm : A.ncols = n)
  (P : Vec K → Vec K) (hPsz : ∀ u, (P u).size = n) (sqrt : K → K) (f : Vec K) (st : FGMRES.St K)
  (hst : FCycleStart sqrt A f st) (hx : st.x.size = n)
include hA hn hm hPsz hst hx

/-- **least-squares identity for FGMRES**: for every `y`, `‖f − A (x₀ + Σ_{i<j} y_i z_i)‖² = Σ_{a<j} (s_a − (R y)_a)² + s_j²` -/
theorem fgmres_least_squares (j : ℕ) (hroots : RootsExact .right sqrt A P (toG st) j)
    (hnb : ∀ i, i < j → arnoldiNorm .right sqrt A P (toG st) i ≠ 0) (y : ℕ → K) :
    (vecOf n f - matOf A n n *ᵥ (vecOf n st.x
        + ∑ i ∈ Finset.range j, y i • vecOf n ((fInnerPass sqrt A P st j).w.z.get i)))
      ⬝ᵥ (vecOf n f - matOf A n n *ᵥ (vecOf n st.x
        + ∑ i ∈ Finset.range j, y i • vecOf n ((fInnerPass sqrt A P st j).w.z.get i)))
    = ∑ a ∈ Finset.range j, ((fInnerPass sqrt A P st j).w.h.s.get a
          - ∑ i ∈ Finset.Ico a j, (fInnerPass sqrt A P st j).w.h.H.get a i * y i)
        * ((fInnerPass sqrt A P st j).w.h.s.get a
          - ∑ i ∈ Finset.Ico a j, (fInnerPass sqrt A P st j).w.h.H.get a i * y i)
      + (fInnerPass sqrt A P st j).w.h.s.get j * (fInnerPass sqrt A P st j).w.h.s.get j :=
  fcycle_ls n A hA hn hm P hPsz sqrt f st hst hx j hroots hnb y

/-- **the residual estimate of FGMRES is the true residual norm, and the iterate minimises it over
`x₀ + span{z_0..z_{j-1}}`**: `‖f − A x_j‖² = s_j²`, `x_j = x₀ + Σ y_i z_i`, and no other combination of the `z_i` does
better. -/
theorem fgmres_minimises_residual (j : ℕ) (hroots : RootsExact .right sqrt A P (toG st) j)
    (hnb : ∀ i, i < j → arnoldiNorm .right sqrt A P (toG st) i ≠ 0) :
    stdIp (residual f A (fCycleIterate sqrt A P st j)) (residual f A (fCycleIterate sqrt A P st j))
      = (fInnerPass sqrt A P st j).w.h.s.get j * (fInnerPass sqrt A P st j).w.h.s.get j ∧
    (∃ y : ℕ → K, vecOf n (fCycleIterate sqrt A P st j) = vecOf n st.x
      + ∑ i ∈ Finset.range j, y i • vecOf n ((fInnerPass sqrt A P st j).w.z.get i)) ∧
    ∀ y : ℕ → K,
      stdIp (residual f A (fCycleIterate sqrt A P st j)) (residual f A (fCycleIterate sqrt A P st j))
        ≤ (vecOf n f - matOf A n n *ᵥ (vecOf n st.x
            + ∑ i ∈ Finset.range j, y i • vecOf n ((fInnerPass sqrt A P st j).w.z.get i)))
          ⬝ᵥ (vecOf n f - matOf A n n *ᵥ (vecOf n st.x
            + ∑ i ∈ Finset.range j, y i • vecOf n ((fInnerPass sqrt A P st j).w.z.get i))) :=
  ⟨fcycle_residual n A hA hn hm P hPsz sqrt f st hst hx j hroots hnb,
   ⟨_, fCycleIterate_vec n A hn P hPsz sqrt st hx j⟩,
   fun y => fcycle_minimal n A hA hn hm P hPsz sqrt f st hst hx j hroots hnb y⟩

/-- **`fgmres_residual_antitone`**: `‖f − A x_{j+1}‖² ≤ ‖f − A x_j‖²` within a cycle -/
theorem fgmres_residual_antitone (j : ℕ) (hroots : RootsExact .right sqrt A P (toG st) (j + 1))
    (hnb : ∀ i, i < j + 1 → arnoldiNorm .right sqrt A P (toG st) i ≠ 0) :
    stdIp (residual f A (fCycleIterate sqrt A P st (j + 1))) (residual f A (fCycleIterate sqrt A P st (j + 1)))
      ≤ stdIp (residual f A (fCycleIterate sqrt A P st j)) (residual f A (fCycleIterate sqrt A P st j)) :=
  fcycle_antitone n A hA hn hm P hPsz sqrt f st hst hx j hroots hnb

end fgmres

/-! ### non-vacuity over `ℚ` with `rsqrt`: the system of the GMRES example with the NON-LINEAR preconditioner function
`Pc u = (u₀³, u₁³, u₂³)` (`hPc_nonlinear`; data and hypotheses in `Proofs/KrylovFGMRESExample.lean`) -/
section nonvacuousFgmres
open Amgcl.Krylov.ExG Amgcl.Krylov.ExF

example : stdIp (residual fg Ag (fCycleIterate Amgcl.rsqrt Ag Pc stf 2)) (residual fg Ag (fCycleIterate Amgcl.rsqrt Ag Pc stf 2))
    = (fInnerPass Amgcl.rsqrt Ag Pc stf 2).w.h.s.get 2 * (fInnerPass Amgcl.rsqrt Ag Pc stf 2).w.h.s.get 2 :=
  (fgmres_minimises_residual 3 Ag hAg rfl rfl Pc hPc Amgcl.rsqrt fg stf hstf hxf 2 hrootsf hnbf).1

example : stdIp (residual fg Ag (fCycleIterate Amgcl.rsqrt Ag Pc stf 2)) (residual fg Ag (fCycleIterate Amgcl.rsqrt Ag Pc stf 2))
    ≤ stdIp (residual fg Ag (fCycleIterate Amgcl.rsqrt Ag Pc stf 1)) (residual fg Ag (fCycleIterate Amgcl.rsqrt Ag Pc stf 1)) :=
  fgmres_residual_antitone 3 Ag hAg rfl rfl Pc hPc Amgcl.rsqrt fg stf hstf hxf 1 hrootsf hnbf

/-- independent evaluation by the kernel: `s₂ = 16`, `‖f − A x₂‖² = 256`, and the model's call with `maxiter = 2` returns
that iterate after 2 iterations with reported residual `16/25` -/
example : (fInnerPass Amgcl.rsqrt Ag Pc stf 2).w.h.s.get 2 = 16 ∧
    stdIp (residual fg Ag (fCycleIterate Amgcl.rsqrt Ag Pc stf 2)) (residual fg Ag (fCycleIterate Amgcl.rsqrt Ag Pc stf 2)) = 256 ∧
    (match FGMRES.solve prmf stdIp Amgcl.rsqrt 0 Ag Pc (FGMRES.Work.fresh 3) fg xg with
      | .ok (it, res, x, _) => decide (it = 2 ∧ res = 16/25 ∧ x = fCycleIterate Amgcl.rsqrt Ag Pc stf 2)
      | _ => false) = true := by decide +kernel

end nonvacuousFgmres

end Amgcl.C05b
