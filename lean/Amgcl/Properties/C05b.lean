import Amgcl.Proofs.KrylovCGModel
import Amgcl.Proofs.KrylovCGExample
/-!
# C05 (second part) — the optimality clauses: CG conjugacy / A-norm optimality / finite termination

Subject: the CG MODEL `Model/SolverCG.lean` (cg.hpp:153-204 statement by statement; right preconditioning as coded,
total division `x/0 = 0`), inner product `stdIp` (the backend's serial inner product).

Vocabulary (definitions in `Proofs/KrylovCG*.lean`):

* `cgPass sqrt A P ws f x0 e k`  the model's loop state after `k` passes of `CG.body` from `CG.init` — `r_k = (cgPass k).w.r`
  is the carried residual BEFORE pass `k`, `p_k = (cgPass (k+1)).w.p` / `q_k = (cgPass (k+1)).w.q` the search direction
  of pass `k` and `A p_k`, `x_k = (cgPass k).x`; a call `CG.solve` returns `x = (cgPass it).x` for the returned
  iteration count `it` (`cg_returns_kth_iterate`);
* `ModelNoBreakdown pass k`  the two denominators `ρ_i = ⟨r_i, P r_i⟩` and `⟨A p_i, p_i⟩` of the passes `i < k` are
  non-zero (read off the model's states; decidable on concrete inputs);
* `PDenotes n P Pl`  the preconditioner, a function on arrays, denotes the linear map `Pl` on `Fin n → K`
  (`pDenotes_spmv`: every explicit matrix preconditioner does; `pDenotes_copy`: the identity);
* `vecOf n x`, `matOf A n n`  an array as a vector, the dense matrix denoted by the CRS (`Proofs/EnergyBridge.lean`);
* `krylovSpace n A Pl f x0 k = span{(Pl ∘ A)^i (Pl (f − A x0)) : i < k}`, `energyOf n A e = (A e) ⬝ᵥ e`.

A symmetric: `A.get i j = A.get j i` (`i, j < n`); `Pl` symmetric: `Pl u ⬝ᵥ v = u ⬝ᵥ Pl v`.
-/
namespace Amgcl.C05b
open Amgcl Amgcl.Solver Amgcl.Krylov Amgcl.Energy.Bridge Matrix
set_option linter.unusedSectionVars false
set_option linter.unusedVariables false

section cg
variable {K : Type} [Field K] [DecidableEq K] [LT K] [DecidableLT K]

/-- **with `maxiter = k` CG returns the `k`-th iterate of the recurrence**: a call that does not return early returns
the loop state after `it` passes, `it ≤ maxiter`, and `it < maxiter` only if the stopping test `|res| ≤ eps` held; the
carried residual of every loop state is the true residual `f − A x` of its iterate (for a preconditioner that
returns arrays of length `n` on arrays of length `n`). -/
theorem cg_returns_kth_iterate (prm : CG.Params K) (sqrt : K → K) (eps : K) (A : CRS K) (P : Vec K → Vec K)
    (ws : CG.Work K) (f x0 : Vec K) (nf : K) (hp : prologue prm.nsSearch stdIp sqrt eps f = .go nf)
    (it : ℕ) (res : K) (x : Vec K) (w : CG.Work K)
    (h : CG.solve prm stdIp sqrt eps A P ws f x0 = .ok (it, res, x, w)) :
    x = (cgPass sqrt A P ws f x0 (CG.epsTol prm nf) it).x ∧ w = (cgPass sqrt A P ws f x0 (CG.epsTol prm nf) it).w ∧
    it ≤ prm.maxiter ∧
    (it = prm.maxiter ∨ ¬ CG.epsTol prm nf < Solver.absK (cgPass sqrt A P ws f x0 (CG.epsTol prm nf) it).res) := by
  obtain ⟨h1, h2, _, h4, h5, _⟩ := run_eq_pass prm sqrt eps A P ws f x0 nf hp it res x w h
  exact ⟨h1, h2, h4, h5⟩

/-- **`cg_conjugacy`** (every field): `A` symmetric, the preconditioner a symmetric linear map, no breakdown before
pass `k`.  Then for `i ≠ j`, both `≤ k`: `⟨r_i, P r_j⟩ = 0` and `⟨p_i, A p_j⟩ = 0`. -/
theorem cg_conjugacy (n : ℕ) (sqrt : K → K) (A : CRS K) (hA : A.WF) (hn : A.nrows = n) (hm : A.ncols = n)
    (hsym : ∀ i, i < n → ∀ j, j < n → A.get i j = A.get j i)
    (P : Vec K → Vec K) (Pl : (Fin n → K) →ₗ[K] (Fin n → K)) (hP : PDenotes n P Pl)
    (hPsym : ∀ u v, Pl u ⬝ᵥ v = u ⬝ᵥ Pl v) (ws : CG.Work K) (f x0 : Vec K) (e : K)
    (k : ℕ) (hnb : ModelNoBreakdown (cgPass sqrt A P ws f x0 e) k) (i j : ℕ) (hi : i ≤ k) (hj : j ≤ k) (hij : i ≠ j)
    (z : Vec K) :
    stdIp (cgPass sqrt A P ws f x0 e i).w.r (P (cgPass sqrt A P ws f x0 e j).w.r) = 0 ∧
    stdIp (cgPass sqrt A P ws f x0 e (i + 1)).w.p (spmv 1 A (cgPass sqrt A P ws f x0 e (j + 1)).w.p 0 z) = 0 :=
  model_conjugacy n sqrt A hA hn hm hsym P Pl hP hPsym ws f x0 e k hnb i j hi hj hij z

/-- the companion relation `⟨r_j, p_i⟩ = 0` for `i < j ≤ k` (the Galerkin condition behind the optimality) -/
theorem cg_residual_orthogonal_to_directions (n : ℕ) (sqrt : K → K) (A : CRS K) (hA : A.WF) (hn : A.nrows = n)
    (hm : A.ncols = n) (hsym : ∀ i, i < n → ∀ j, j < n → A.get i j = A.get j i)
    (P : Vec K → Vec K) (Pl : (Fin n → K) →ₗ[K] (Fin n → K)) (hP : PDenotes n P Pl)
    (hPsym : ∀ u v, Pl u ⬝ᵥ v = u ⬝ᵥ Pl v) (ws : CG.Work K) (f x0 : Vec K) (e : K)
    (k : ℕ) (hnb : ModelNoBreakdown (cgPass sqrt A P ws f x0 e) k) (i j : ℕ) (hij : i < j) (hj : j ≤ k) :
    stdIp (cgPass sqrt A P ws f x0 e j).w.r (cgPass sqrt A P ws f x0 e (i + 1)).w.p = 0 :=
  model_r_orth_p n sqrt A hA hn hm hsym P Pl hP hPsym ws f x0 e k hnb i j hij hj

end cg

section cgOrdered
variable {K : Type} [Field K] [LinearOrder K] [IsStrictOrderedRing K]

/-- **`cg_minimises_Anorm`**: `A` symmetric positive SEMI-definite (`⟨A v, v⟩ ≥ 0`; in particular SPD), the
preconditioner a symmetric linear map, `x*` a solution of `A x* = f`.  If the call returns `x` after `it` passes
without breakdown, then `x ∈ x₀ + K_it(PA, P r₀)` and `x` minimises the squared `A`-norm of the error
`⟨A (x* − y), x* − y⟩` over all `y ∈ x₀ + K_it(PA, P r₀)`.  (No square root: the statement is about the squares.) -/
theorem cg_minimises_Anorm (n : ℕ) (A : CRS K) (hA : A.WF) (hn : A.nrows = n) (hm : A.ncols = n)
    (hsym : ∀ i, i < n → ∀ j, j < n → A.get i j = A.get j i)
    (P : Vec K → Vec K) (Pl : (Fin n → K) →ₗ[K] (Fin n → K)) (hP : PDenotes n P Pl)
    (hPsym : ∀ u v, Pl u ⬝ᵥ v = u ⬝ᵥ Pl v)
    (hpos : ∀ v : Fin n → K, 0 ≤ energyOf n A v)
    (prm : CG.Params K) (sqrt : K → K) (eps : K) (ws : CG.Work K) (f x0 : Vec K) (nf : K)
    (hp : prologue prm.nsSearch stdIp sqrt eps f = .go nf)
    (it : ℕ) (res : K) (x : Vec K) (w : CG.Work K)
    (h : CG.solve prm stdIp sqrt eps A P ws f x0 = .ok (it, res, x, w))
    (hnb : ModelNoBreakdown (cgPass sqrt A P ws f x0 (CG.epsTol prm nf)) it)
    (xs : Fin n → K) (hxs : matOf A n n *ᵥ xs = vecOf n f) :
    vecOf n x - vecOf n x0 ∈ krylovSpace n A Pl f x0 it ∧
    ∀ y : Fin n → K, y - vecOf n x0 ∈ krylovSpace n A Pl f x0 it →
      energyOf n A (xs - vecOf n x) ≤ energyOf n A (xs - y) := by
  obtain ⟨h1, _⟩ := run_eq_pass prm sqrt eps A P ws f x0 nf hp it res x w h
  rw [h1]
  exact ⟨model_mem_krylov n sqrt A hA hn hm hsym P Pl hP hPsym ws f x0 _ it,
    fun y hy => model_energy_min n sqrt A hA hn hm hsym P Pl hP hPsym ws f x0 _ hpos xs hxs it hnb y hy⟩

/-- **`cg_minimises_Anorm` for SPD `A` and SPD `P`: no breakdown hypothesis at all.**  Breakdown cannot happen while
the residual is non-zero, and once it is zero the iterate is the solution and stays there (total division). -/
theorem cg_minimises_Anorm_spd (n : ℕ) (A : CRS K) (hA : A.WF) (hn : A.nrows = n) (hm : A.ncols = n)
    (hsym : ∀ i, i < n → ∀ j, j < n → A.get i j = A.get j i)
    (P : Vec K → Vec K) (Pl : (Fin n → K) →ₗ[K] (Fin n → K)) (hP : PDenotes n P Pl)
    (hPsym : ∀ u v, Pl u ⬝ᵥ v = u ⬝ᵥ Pl v)
    (hApd : ∀ v : Fin n → K, v ≠ 0 → 0 < energyOf n A v) (hPpd : ∀ v : Fin n → K, v ≠ 0 → 0 < v ⬝ᵥ Pl v)
    (prm : CG.Params K) (sqrt : K → K) (eps : K) (ws : CG.Work K) (f x0 : Vec K) (nf : K)
    (hp : prologue prm.nsSearch stdIp sqrt eps f = .go nf)
    (it : ℕ) (res : K) (x : Vec K) (w : CG.Work K)
    (h : CG.solve prm stdIp sqrt eps A P ws f x0 = .ok (it, res, x, w))
    (xs : Fin n → K) (hxs : matOf A n n *ᵥ xs = vecOf n f) :
    vecOf n x - vecOf n x0 ∈ krylovSpace n A Pl f x0 it ∧
    ∀ y : Fin n → K, y - vecOf n x0 ∈ krylovSpace n A Pl f x0 it →
      energyOf n A (xs - vecOf n x) ≤ energyOf n A (xs - y) := by
  obtain ⟨h1, _⟩ := run_eq_pass prm sqrt eps A P ws f x0 nf hp it res x w h
  rw [h1]
  exact ⟨model_mem_krylov n sqrt A hA hn hm hsym P Pl hP hPsym ws f x0 _ it,
    fun y hy => model_energy_min_spd n sqrt A hA hn hm hsym P Pl hP hPsym ws f x0 _ hApd hPpd xs hxs it y hy⟩

/-- for SPD `A`, `P` the hypothesis `ModelNoBreakdown` of `cg_conjugacy` holds as long as the carried residuals are
non-zero -/
theorem cg_no_breakdown_spd (n : ℕ) (sqrt : K → K) (A : CRS K) (hA : A.WF) (hn : A.nrows = n) (hm : A.ncols = n)
    (hsym : ∀ i, i < n → ∀ j, j < n → A.get i j = A.get j i)
    (P : Vec K → Vec K) (Pl : (Fin n → K) →ₗ[K] (Fin n → K)) (hP : PDenotes n P Pl)
    (hPsym : ∀ u v, Pl u ⬝ᵥ v = u ⬝ᵥ Pl v)
    (hApd : ∀ v : Fin n → K, v ≠ 0 → 0 < energyOf n A v) (hPpd : ∀ v : Fin n → K, v ≠ 0 → 0 < v ⬝ᵥ Pl v)
    (ws : CG.Work K) (f x0 : Vec K) (e : K) (k : ℕ)
    (hr : ∀ i, i < k → (cgPass sqrt A P ws f x0 e i).w.r ≠ vclear n) :
    ModelNoBreakdown (cgPass sqrt A P ws f x0 e) k :=
  model_noBreakdown_spd n sqrt A hA hn hm hsym P Pl hP hPsym ws f x0 e hApd hPpd k hr

/-- **`cg_terminates_within_n`**: `A`, `P` SPD of dimension `n`.  (a) After `n` passes of the loop body (and after any
larger number) the carried residual — which is the true residual `f − A x` of the iterate — is exactly the zero
vector: `n + 1` non-zero mutually `P`-orthogonal residuals cannot exist.  (b) Consequently, for `‖0‖ = 0` and a
non-negative threshold, every call makes at most `n` passes, and a call that makes `n` passes returns the exact
solution and reports `0`. -/
theorem cg_terminates_within_n (n : ℕ) (A : CRS K) (hA : A.WF) (hn : A.nrows = n) (hm : A.ncols = n)
    (hsym : ∀ i, i < n → ∀ j, j < n → A.get i j = A.get j i)
    (P : Vec K → Vec K) (Pl : (Fin n → K) →ₗ[K] (Fin n → K)) (hP : PDenotes n P Pl)
    (hPsym : ∀ u v, Pl u ⬝ᵥ v = u ⬝ᵥ Pl v)
    (hApd : ∀ v : Fin n → K, v ≠ 0 → 0 < energyOf n A v) (hPpd : ∀ v : Fin n → K, v ≠ 0 → 0 < v ⬝ᵥ Pl v)
    (sqrt : K → K) (ws : CG.Work K) (f x0 : Vec K) :
    (∀ (e : K) (k : ℕ), n ≤ k →
      (cgPass sqrt A P ws f x0 e k).w.r = vclear n ∧
      residual f A (cgPass sqrt A P ws f x0 e k).x = vclear n) ∧
    ∀ (prm : CG.Params K) (eps nf : K), prologue prm.nsSearch stdIp sqrt eps f = .go nf →
      nrm stdIp sqrt (vclear n) = 0 → ¬ CG.epsTol prm nf < 0 →
      ∀ (it : ℕ) (res : K) (x : Vec K) (w : CG.Work K),
        CG.solve prm stdIp sqrt eps A P ws f x0 = .ok (it, res, x, w) →
        it ≤ n ∧ (it = n → residual f A x = vclear n ∧ res = 0) := by
  refine ⟨fun e k hk => ?_, fun prm eps nf hp hz heps it res x w h => ?_⟩
  · have h := (model_terminates n sqrt A hA hn hm hsym P Pl hP hPsym ws f x0 e hApd hPpd k hk).1
    exact ⟨h, by rw [← pass_r_true n sqrt A hA hn hm hsym P Pl hP hPsym ws f x0 e k]; exact h⟩
  · exact run_terminates n A hA hn hm hsym P Pl hP hPsym prm sqrt eps ws f x0 nf hp hApd hPpd hz heps it res x w h

end cgOrdered

/-! ### non-vacuity over `ℚ`: the SPD system `A₃ = [[4,-1,0],[-1,3,-1],[0,-1,2]]`, Jacobi preconditioner
`M₃ = diag(1/4, 1/3, 1/2)`, `f = A₃·(1,1,1) = (3,1,1)`, `x₀ = (1,0,0)`, the executable `rsqrt`
(the data and the discharged hypotheses `hA₃ … hnb₃` are in `Proofs/KrylovCGExample.lean`) -/
section nonvacuous
open Amgcl.Krylov.Ex3

/-- `cg_conjugacy` on this run: the three residuals are mutually `P`-orthogonal, the three directions mutually
`A`-conjugate (all hypotheses discharged) -/
example (i j : ℕ) (hi : i ≤ 3) (hj : j ≤ 3) (hij : i ≠ j) :
    stdIp (cgPass Amgcl.rsqrt A₃ P₃ (CG.Work.fresh 3) f₃ x₃ 0 i).w.r
        (P₃ (cgPass Amgcl.rsqrt A₃ P₃ (CG.Work.fresh 3) f₃ x₃ 0 j).w.r) = 0 ∧
    stdIp (cgPass Amgcl.rsqrt A₃ P₃ (CG.Work.fresh 3) f₃ x₃ 0 (i + 1)).w.p
        (spmv 1 A₃ (cgPass Amgcl.rsqrt A₃ P₃ (CG.Work.fresh 3) f₃ x₃ 0 (j + 1)).w.p 0 #[]) = 0 :=
  cg_conjugacy 3 Amgcl.rsqrt A₃ hA₃ rfl rfl hsym₃ P₃ Pl₃ hP₃ hPsym₃ (CG.Work.fresh 3) f₃ x₃ 0 3 hnb₃ i j hi hj hij #[]

/-- the residuals of this run are not trivially zero: `r₀, r₁, r₂ ≠ 0` (so the orthogonality above is not vacuous),
and the call with `maxiter = 2` makes two passes -/
example : (∀ i, i < 3 → (cgPass Amgcl.rsqrt A₃ P₃ (CG.Work.fresh 3) f₃ x₃ 0 i).w.r ≠ vclear 3) ∧
    (match CG.solve { prm₃ with maxiter := 2 } stdIp Amgcl.rsqrt 0 A₃ P₃ (CG.Work.fresh 3) f₃ x₃ with
      | .ok (it, _, _, _) => decide (it = 2) | _ => false) = true := by
  constructor
  · decide +kernel
  · decide +kernel

/-- `cg_minimises_Anorm` / `cg_minimises_Anorm_spd` on this system with `maxiter = 2`: the hypotheses are satisfiable
(SPD `A₃`, SPD Jacobi `P₃`, solution `x* = (1,1,1)`), whatever the call returns -/
example (it : ℕ) (res : ℚ) (x : Vec ℚ) (w : CG.Work ℚ)
    (h : CG.solve { prm₃ with maxiter := 2 } stdIp Amgcl.rsqrt 0 A₃ P₃ (CG.Work.fresh 3) f₃ x₃ = .ok (it, res, x, w)) :
    vecOf 3 x - vecOf 3 x₃ ∈ krylovSpace 3 A₃ Pl₃ f₃ x₃ it ∧
    ∀ y : Fin 3 → ℚ, y - vecOf 3 x₃ ∈ krylovSpace 3 A₃ Pl₃ f₃ x₃ it →
      energyOf 3 A₃ (![1, 1, 1] - vecOf 3 x) ≤ energyOf 3 A₃ (![1, 1, 1] - y) :=
  cg_minimises_Anorm_spd 3 A₃ hA₃ rfl rfl hsym₃ P₃ Pl₃ hP₃ hPsym₃ hApd₃ hPpd₃ _ Amgcl.rsqrt 0 (CG.Work.fresh 3) f₃ x₃ _
    (hp₃ 2) it res x w h ![1, 1, 1] hxs₃

/-- … and such a call exists and its returned `x` is not yet the solution (the minimisation is not vacuous) -/
example : (match CG.solve { prm₃ with maxiter := 2 } stdIp Amgcl.rsqrt 0 A₃ P₃ (CG.Work.fresh 3) f₃ x₃ with
      | .ok (it, _, x, _) => decide (it = 2 ∧ residual f₃ A₃ x ≠ vclear 3) | _ => false) = true := by
  decide +kernel

/-- `cg_terminates_within_n` on this system: after `3` passes the residual is exactly zero (here evaluated
independently by the kernel as well), and a call with `maxiter = 5` makes exactly `3` passes -/
example : (cgPass Amgcl.rsqrt A₃ P₃ (CG.Work.fresh 3) f₃ x₃ 0 3).w.r = vclear 3 :=
  ((cg_terminates_within_n 3 A₃ hA₃ rfl rfl hsym₃ P₃ Pl₃ hP₃ hPsym₃ hApd₃ hPpd₃ Amgcl.rsqrt (CG.Work.fresh 3) f₃
    x₃).1 0 3 (Nat.le_refl 3)).1

example : (match CG.solve prm₃ stdIp Amgcl.rsqrt 0 A₃ P₃ (CG.Work.fresh 3) f₃ x₃ with
      | .ok (it, res, x, _) => decide (it = 3 ∧ res = 0 ∧ residual f₃ A₃ x = vclear 3) | _ => false) = true := by
  decide +kernel

example : nrm stdIp Amgcl.rsqrt (vclear 3 : Vec ℚ) = 0 ∧ ¬ CG.epsTol prm₃ (nrm stdIp Amgcl.rsqrt f₃) < 0 := by
  decide +kernel

end nonvacuous

end Amgcl.C05b
