import Amgcl.Model.SkylineLU
/-!
# C16 — direct and dense kernels are exact (work in progress; theorems are added below)
-/
namespace Amgcl.C16
open Amgcl

/-- A zero first diagonal entry makes `factorize()` end in the `precondition` outcome. -/
theorem skyline_zero_pivot_first {V R : Type} [Zero V] [Mul V] [Sub V] (isZero : V → Bool) (inv : V → V)
    (S : Skyline V R) (h : isZero (S.D.getD 0 0) = true) :
    Skyline.factorize isZero inv S = .precondition := by
  unfold Skyline.factorize; rw [if_pos h]

end Amgcl.C16
