import Amgcl.Proofs.InverseMatrix
import Amgcl.Proofs.SkylineMatrix
import Amgcl.Proofs.SkylineCrout
import Amgcl.Proofs.SkylineEmbed
import Amgcl.Proofs.DenseCheck
import Amgcl.Proofs.C16Examples
import Mathlib.Algebra.Order.Field.Rat
import Mathlib.LinearAlgebra.Matrix.Determinant.Basic
import Mathlib.Tactic.NormNum
import Mathlib.Tactic.FinCases
/-!
# C16 — direct and dense kernels are exact: skyline LU, small inverse, static matrices; checkers for QR and reordering

Only property theorems live here (helper lemmas: `Amgcl/Proofs/{StaticMatrix,Perm,Array2,InverseLU,InverseAlg,
InversePhase1,InverseSolve,InverseMatrix,SkylineSolve,SkylineBuild,SkylineFactor,SkylineGeom,SkylineCroutAlg,SkylineCrout,SkylineEmbed,
SkylineMatrix,DenseCheck,C16Examples}.lean`; the last one holds the concrete data of the non-vacuity `example`s).
Models: `Model/{SkylineLU,Inverse,StaticMatrix,DenseCheck}.lean`, tied to the real templates by `harness/h_direct.cpp`.

* **`detail::inverse`** — `inverse_spec`: for every `n` and every nonsingular `n×n` matrix over a linearly ordered field,
  whatever the two workspace buffers contain, `A · inverse(A) = 1` (and `= A⁻¹`, hence also a left inverse and
  independent of the workspaces).  The proof contains the argument that partial pivoting never selects a zero pivot on a
  nonsingular matrix (`Amgcl.pivot_ne_zero`: a zero pivot column of the Schur complement yields a kernel vector by back
  substitution).  `sm_inverse_spec` is the same statement for `math::inverse` of a square `static_matrix`.
* **`skyline_lu`** — `skyline_solve_spec`: if the stored factors satisfy the factorisation identity
  `P A Pᵀ = L̃ · Ũ` (dense embedding of the profile storage, `L̃` carrying the pivots `1/D[i]`, `Ũ` unit upper) then
  `operator()` returns `x` with `A x = b`, for every ordering, profile and incoming content of `y` / `x`;
  `skyline_factorize_spec`: Crout's loop as written establishes that identity for the dense embedding of the
  constructor's raw `L/U/D` storage whenever it ends in the `ok` outcome (every pivot passed the zero test);
  `skyline_zero_pivot*`: a vanishing pivot candidate yields the `precondition` outcome, and `ok` only arises if no pivot
  candidate vanished; `skyline_out_indep_scratch`: the result is independent of the scratch `y` (any carrier);
  `skyline_build_profile`: the constructor's profile is well formed for every matrix and ordering.
* **`static_matrix`** — every operation denotes the corresponding Mathlib `Matrix` operation (`sm_*_spec`), hence the ring
  identities hold as equalities of model values (`sm_mul_assoc`, `sm_mul_add`, `sm_add_mul`, `sm_transpose_mul`, …).
* **V-grade checkers** — `isPerm_sound` (`isPermB = true` ⟹ the array is a permutation of `0..n-1`; evaluated on the
  output of `cuthill_mckee::get`), `qr_exact_sound` (`qrExact = true` ⟹ `A = Q·R`, `QᵀQ = 1`, `R` upper trapezoidal;
  evaluated on the output of `QR::factorize`).

  `skyline_spec` puts constructor, factorisation and solve together: for every square CRS matrix without repeated column
  indices in a row, every ordering that is a permutation and every right-hand side, if the constructor does not end in
  `precondition` then `operator()` returns `x` with `A x = b` (`skyline_build_emb`: the constructor's raw storage is the
  dense embedding of `P A Pᵀ`).

Householder QR itself (the faithful model `Model/QR.lean`) is the subject of `Properties/C16b.lean`.

Cuthill–McKee itself (faithful model `Model/CuthillMcKee.lean`) is the subject of `Properties/C16c.lean`.

What is **not** proved here (see `tools/checks/C16.json`, open items): block-valued (`static_matrix` entries)
skyline LU (correspondence only), CRS rows with repeated column indices (the constructor keeps the last one, the matrix
denotes their sum: outside the claim), IEEE rounding.
-/
namespace Amgcl.C16
open Amgcl Amgcl.Skyline Amgcl.C16Ex

/-! ## static_matrix arithmetic = Mathlib `Matrix` arithmetic -/
section staticMatrix
variable {K : Type} [CommRing K] {N P M L : Nat}

theorem sm_add_spec (a b : SMat K N M) : (a + b).toMatrix = a.toMatrix + b.toMatrix := SMat.toMatrix_add a b
theorem sm_sub_spec (a b : SMat K N M) : (a - b).toMatrix = a.toMatrix - b.toMatrix := SMat.toMatrix_sub a b
theorem sm_neg_spec (a : SMat K N M) : (-a).toMatrix = -a.toMatrix := SMat.toMatrix_neg a
theorem sm_smul_spec (c : K) (a : SMat K N M) : (SMat.smul c a).toMatrix = c • a.toMatrix := SMat.toMatrix_smul c a
theorem sm_mul_spec (a : SMat K N P) (b : SMat K P M) : (a * b).toMatrix = a.toMatrix * b.toMatrix := SMat.toMatrix_mul a b
theorem sm_transpose_spec (a : SMat K N M) : (SMat.transpose a).toMatrix = a.toMatrix.transpose := SMat.toMatrix_transpose a
theorem sm_adjoint_spec (conj : K → K) (a : SMat K N M) :
    (SMat.adjoint conj a).toMatrix = a.toMatrix.transpose.map conj := SMat.toMatrix_adjoint conj a
theorem sm_zero_spec : (0 : SMat K N M).toMatrix = 0 := SMat.toMatrix_zero
theorem sm_identity_spec : (SMat.identity : SMat K N N).toMatrix = 1 := SMat.toMatrix_identity
/-- `math::inner_product` of two `N×M` static matrices is `xᵀ·y` (real scalars) -/
theorem sm_inner_spec (x y : SMat K N M) : (SMat.innerMat id x y).toMatrix = x.toMatrix.transpose * y.toMatrix :=
  SMat.toMatrix_innerMat x y
/-- `math::inner_product` of two static vectors is the dot product -/
theorem sm_innerVec_spec (conj : K → K) (x y : SMat K N 1) :
    SMat.innerVec conj x y = ∑ i : Fin N, x.toMatrix i 0 * conj (y.toMatrix i 0) := SMat.innerVec_eq conj x y
/-- the radicand of `math::norm` is the squared Frobenius norm -/
theorem sm_normSq_spec (x : SMat K N M) :
    SMat.normSq id x = ∑ i : Fin N, ∑ j : Fin M, x.toMatrix i j * x.toMatrix i j := SMat.normSq_eq x

/-- `(ab)c = a(bc)` as an equality of static matrices (buffers) -/
theorem sm_mul_assoc (a : SMat K N P) (b : SMat K P M) (c : SMat K M L) : (a * b) * c = a * (b * c) := by
  apply SMat.ext_of_toMatrix (SMat.wf_mul _ _) (SMat.wf_mul _ _)
  rw [sm_mul_spec, sm_mul_spec, sm_mul_spec, sm_mul_spec, Matrix.mul_assoc]

theorem sm_mul_add (a : SMat K N P) (b c : SMat K P M) : a * (b + c) = a * b + a * c := by
  apply SMat.ext_of_toMatrix (SMat.wf_mul _ _) (SMat.wf_add _ _)
  rw [sm_mul_spec, sm_add_spec, sm_add_spec, sm_mul_spec, sm_mul_spec, Matrix.mul_add]

theorem sm_add_mul (a b : SMat K N P) (c : SMat K P M) : (a + b) * c = a * c + b * c := by
  apply SMat.ext_of_toMatrix (SMat.wf_mul _ _) (SMat.wf_add _ _)
  rw [sm_mul_spec, sm_add_spec, sm_add_spec, sm_mul_spec, sm_mul_spec, Matrix.add_mul]

theorem sm_mul_sub (a : SMat K N P) (b c : SMat K P M) : a * (b - c) = a * b - a * c := by
  apply SMat.ext_of_toMatrix (SMat.wf_mul _ _) (SMat.wf_sub _ _)
  rw [sm_mul_spec, sm_sub_spec, sm_sub_spec, sm_mul_spec, sm_mul_spec, Matrix.mul_sub]

theorem sm_transpose_mul (a : SMat K N P) (b : SMat K P M) :
    SMat.transpose (a * b) = SMat.transpose b * SMat.transpose a := by
  apply SMat.ext_of_toMatrix (SMat.wf_transpose _) (SMat.wf_mul _ _)
  rw [sm_transpose_spec, sm_mul_spec, sm_mul_spec, sm_transpose_spec, sm_transpose_spec, Matrix.transpose_mul]

theorem sm_transpose_add (a b : SMat K N M) : SMat.transpose (a + b) = SMat.transpose a + SMat.transpose b := by
  apply SMat.ext_of_toMatrix (SMat.wf_transpose _) (SMat.wf_add _ _)
  rw [sm_transpose_spec, sm_add_spec, sm_add_spec, sm_transpose_spec, sm_transpose_spec, Matrix.transpose_add]

theorem sm_add_comm (a b : SMat K N M) : a + b = b + a := by
  apply SMat.ext_of_toMatrix (SMat.wf_add _ _) (SMat.wf_add _ _)
  rw [sm_add_spec, sm_add_spec, add_comm]

theorem sm_add_neg (a : SMat K N M) : a + (-a) = (0 : SMat K N M) := by
  apply SMat.ext_of_toMatrix (SMat.wf_add _ _) (by show (SMat.zero : SMat K N M).WF; simp [SMat.WF, SMat.zero])
  rw [sm_add_spec, sm_neg_spec, sm_zero_spec, add_neg_cancel]

theorem sm_one_mul (b : SMat K N M) (hb : b.WF) : (SMat.identity : SMat K N N) * b = b := by
  apply SMat.ext_of_toMatrix (SMat.wf_mul _ _) hb
  rw [sm_mul_spec, sm_identity_spec, Matrix.one_mul]

theorem sm_mul_one (a : SMat K N M) (ha : a.WF) : a * (SMat.identity : SMat K M M) = a := by
  apply SMat.ext_of_toMatrix (SMat.wf_mul _ _) ha
  rw [sm_mul_spec, sm_identity_spec, Matrix.mul_one]

example : ((⟨#[1, 2, 3, 4, 5, 6]⟩ : SMat Int 2 3) * (⟨#[1, 0, -1, 2, 0, 1]⟩ : SMat Int 3 2)) = ⟨#[-1, 7, -1, 16]⟩ := by decide
example : (⟨#[1, 2, 3, 4, 5, 6]⟩ : SMat Int 2 3).WF := by decide

end staticMatrix

/-! ## `detail::inverse` -/
section inverse
variable {K : Type} [Field K] [LinearOrder K] [IsStrictOrderedRing K]

/-- **`A · inverse(A) = 1`** for every nonsingular `n×n` matrix over a linearly ordered field and every content of
the workspace buffers `t`, `p`. -/
theorem inverse_spec (n : Nat) (A t : Array K) (p : Array Nat) (hA : A.size = n * n) (ht : t.size = n * n)
    (hp : p.size = n) (hdet : (matOf n A).det ≠ 0) :
    matOf n A * matOf n (inverse n A t p).1 = 1 := inverse_mul_eq_one n A t p hA ht hp hdet

/-- the result is the Mathlib inverse; in particular it is also a left inverse -/
theorem inverse_spec_left (n : Nat) (A t : Array K) (p : Array Nat) (hA : A.size = n * n) (ht : t.size = n * n)
    (hp : p.size = n) (hdet : (matOf n A).det ≠ 0) :
    matOf n (inverse n A t p).1 * matOf n A = 1 := by
  rw [inverse_eq_inv n A t p hA ht hp hdet]
  exact Matrix.nonsing_inv_mul _ (isUnit_iff_ne_zero.mpr hdet)

/-- the inverse does not depend on what the workspaces `t`, `p` contained -/
theorem inverse_workspace_indep (n : Nat) (A t t' : Array K) (p p' : Array Nat) (hA : A.size = n * n)
    (ht : t.size = n * n) (ht' : t'.size = n * n) (hp : p.size = n) (hp' : p'.size = n)
    (hdet : (matOf n A).det ≠ 0) :
    matOf n (inverse n A t p).1 = matOf n (inverse n A t' p').1 := by
  rw [inverse_eq_inv n A t p hA ht hp hdet, inverse_eq_inv n A t' p' hA ht' hp' hdet]

/-- the same for the entrywise notion of nonsingularity used by the proof: partial pivoting finds a nonzero pivot in
every column (`Amgcl.pivot_ne_zero`), so no separate "no zero pivot" hypothesis is needed. -/
theorem inverse_spec_entrywise (n : Nat) (A t : Array K) (p : Array Nat) (hA : A.size = n * n) (ht : t.size = n * n)
    (hp : p.size = n) (hns : Nonsing n (get2 n A)) (r k : Nat) (hr : r < n) (hk : k < n) :
    ∑ j ∈ Finset.range n, get2 n A r j * get2 n (inverse n A t p).1 j k = if r = k then 1 else 0 :=
  inverse_right_inv A t p hA ht hp hns r k hr hk

/-- non-vacuity: `[[0,1],[2,3]]` needs a row exchange; workspaces with arbitrary content -/
example : matOf 2 (#[0, 1, 2, 3] : Array ℚ) * matOf 2 (inverse 2 (#[0, 1, 2, 3] : Array ℚ) #[7, 7, 7, 7] #[5, 5]).1 = 1 :=
  inverse_spec 2 _ _ _ rfl rfl rfl ex_det

/-- `math::inverse` of a square static matrix -/
theorem sm_inverse_spec {N : Nat} (a : SMat K N N) (ha : a.WF) (hdet : a.toMatrix.det ≠ 0) :
    a.toMatrix * (SMat.inverse a).toMatrix = 1 := by
  have := inverse_mul_eq_one N a.buf (Array.replicate (N * N) 0) (Array.replicate N 0) ha (by simp) (by simp)
    (by rw [← smat_toMatrix_eq_matOf]; exact hdet)
  exact this

example : (⟨#[0, 1, 2, 3]⟩ : SMat ℚ 2 2).toMatrix * (SMat.inverse (⟨#[0, 1, 2, 3]⟩ : SMat ℚ 2 2)).toMatrix = 1 :=
  sm_inverse_spec _ rfl ex_det

end inverse

/-! ## `skyline_lu` -/
section skyline

/-- **substitution through the profile**: if the stored factors satisfy `P A Pᵀ = L̃ · Ũ` then `operator()` returns
`x` with `A x = b`. -/
theorem skyline_solve_spec {K : Type} [Field K] (S : Skyline K K) (A : Matrix (Fin S.n) (Fin S.n) K) (rhs x : Array K)
    (hwf : S.WFProfile) (hp : PermOn S.n S.perm) (hy : S.y.size = S.n) (hx : x.size = S.n)
    (hD : ∀ i, i < S.n → Dd S i ≠ 0) (hfac : A.submatrix hp.equiv hp.equiv = Lmat S * Umat S) :
    A.mulVec (vecOf S.n (solve S rhs x).1) = vecOf S.n rhs :=
  solve_spec_matrix S A rhs x hwf hp hy hx hD hfac

/-- non-vacuity: the factorised storage of `[[3,1],[1,2]]` -/
example : (!![3, 1; 1, 2] : Matrix (Fin 2) (Fin 2) ℚ).mulVec (vecOf exFac.n (solve exFac #[1, 2] #[9, 9]).1) = vecOf exFac.n #[1, 2] :=
  skyline_solve_spec exFac _ #[1, 2] #[9, 9] exFac_wf ex_perm rfl rfl exFac_D exFac_identity

/-- **Crout on the dense embedding** (`skyline_factorize_partial` of the plan, proved in full for the factorisation
loop): if `factorize()` ends in `ok` on a well-formed storage, the new factors reproduce the dense embedding of the old
`L/U/D` storage, `E = L̃ · Ũ`, and every stored inverted pivot is nonzero (`skyline_build_emb` identifies `E` with
`P A Pᵀ` for the constructor's storage). -/
theorem skyline_factorize_spec {K : Type} [Field K] [DecidableEq K] (S S' : Skyline K K) (hst : S.StorageWF)
    (h : factorize (fun v => decide (v = 0)) (fun v => 1 / v) S = .ok S') (hn : 1 ≤ S.n) :
    S'.StorageWF ∧ SameFrame S S' ∧ (∀ i, i < S.n → Dd S' i ≠ 0) ∧
    ∀ i j, i < S.n → j < S.n → Emb S i j = ∑ m ∈ Finset.range S.n, Lt S' i m * Ut S' m j :=
  factorize_spec S S' hst h hn

/-- the constructor allocates a well-formed storage (`StorageWF`: profile + array sizes) for every matrix and ordering -/
theorem skyline_build_storage {K : Type} [Field K] [DecidableEq K] (A : CRS K) (perm : Array Nat) :
    (build (R := K) (fun v => decide (v = 0)) A perm).StorageWF := build_storage A perm

/-- non-vacuity: `factorize()` on the raw storage of `[[3,1],[1,2]]` ends in `ok` -/
example : ∀ i j, i < 2 → j < 2 → Emb exRaw i j = ∑ m ∈ Finset.range 2, Lt exFac i m * Ut exFac m j :=
  (skyline_factorize_spec exRaw exFac exRaw_storage ex_factorize (by decide)).2.2.2

/-- constructor + factorisation + solve: if the raw storage written by the constructor embeds `P A Pᵀ`, the first
call of `operator()` solves `A x = b`. -/
theorem skyline_construct_solve_spec {K : Type} [Field K] [DecidableEq K] (A : CRS K) (perm : Array Nat)
    (S : Skyline K K) (hn : 1 ≤ A.nrows) (hp : PermOn A.nrows perm)
    (h : factorize (fun v => decide (v = 0)) (fun v => 1 / v) (build (R := K) (fun v => decide (v = 0)) A perm) = .ok S)
    (Ad : Nat → Nat → K)
    (hemb : ∀ i j, i < A.nrows → j < A.nrows →
      Ad (perm.getD i 0) (perm.getD j 0) = Emb (build (R := K) (fun v => decide (v = 0)) A perm) i j)
    (rhs x : Array K) (hx : x.size = A.nrows) :
    ∀ r, r < A.nrows → ∑ c ∈ Finset.range A.nrows, Ad r c * (solve S rhs x).1.getD c 0 = rhs.getD r 0 :=
  construct_solve_spec A perm S hn hp h Ad hemb rhs x hx

/-- non-vacuity: CRS `[[3,1],[1,2]]` with an unsorted row, identity ordering -/
example : ∀ r, r < 2 → ∑ c ∈ Finset.range 2, exDense r c * (solve exFac #[1, 2] #[9, 9]).1.getD c 0 = (#[1, 2] : Array ℚ).getD r 0 :=
  skyline_construct_solve_spec exA #[0, 1] exFac (by decide) ex_perm (by rw [ex_build]; exact ex_factorize) exDense
    (by rw [ex_build]; exact ex_emb) #[1, 2] #[9, 9] rfl

/-- the constructor's raw `L/U/D` storage is the dense embedding of `P A Pᵀ` -/
theorem skyline_build_emb {K : Type} [Field K] [DecidableEq K] (A : CRS K) (perm : Array Nat) (hsq : A.ncols = A.nrows)
    (hwf : A.WF) (hnd : ∀ i, ((A.row i).map (·.1)).Nodup) (hp : PermOn A.nrows perm) :
    ∀ a b, a < A.nrows → b < A.nrows →
      Emb (build (R := K) (fun v : K => decide (v = 0)) A perm) a b = A.get (perm.getD a 0) (perm.getD b 0) :=
  build_emb A perm hsq hwf hnd hp

/-- **skyline LU, end to end.**  For every square CRS matrix `A` (column indices in range, no column index twice in a
row; rows may be unsorted and may carry explicit zeros), every ordering `perm` that is a permutation of `0..n-1`, every
right-hand side and every incoming content of the output vector: if the constructor (profile, storage, Crout
factorisation) does not end in the `precondition` outcome, the first call of `operator()` returns `x` with `A x = b`,
where `A.get` is the denotation of the CRS matrix. -/
theorem skyline_spec {K : Type} [Field K] [DecidableEq K] (A : CRS K) (perm : Array Nat) (S : Skyline K K)
    (hn : 1 ≤ A.nrows) (hsq : A.ncols = A.nrows) (hwf : A.WF) (hnd : ∀ i, ((A.row i).map (·.1)).Nodup)
    (hp : PermOn A.nrows perm)
    (h : factorize (fun v => decide (v = 0)) (fun v => 1 / v) (build (R := K) (fun v => decide (v = 0)) A perm) = .ok S)
    (rhs x : Array K) (hx : x.size = A.nrows) :
    ∀ r, r < A.nrows → ∑ c ∈ Finset.range A.nrows, A.get r c * (solve S rhs x).1.getD c 0 = rhs.getD r 0 :=
  construct_solve_spec A perm S hn hp h A.get (fun i j hi hj => (build_emb A perm hsq hwf hnd hp i j hi hj).symm) rhs x hx

/-- non-vacuity: CRS `[[3,1],[1,2]]` with an unsorted row -/
example : ∀ r, r < 2 → ∑ c ∈ Finset.range 2, exA.get r c * (solve exFac #[1, 2] #[9, 9]).1.getD c 0 = (#[1, 2] : Array ℚ).getD r 0 :=
  skyline_spec exA #[0, 1] exFac (by decide) rfl exA_wf exA_nodup ex_perm (by rw [ex_build]; exact ex_factorize) #[1, 2] #[9, 9] rfl

section anyCarrier
variable {V R : Type} [Zero V] [Zero R] [Mul V] [Sub V] [Sub R] [HMul V R R]

/-- a zero first diagonal entry ends `factorize()` in the `precondition` outcome -/
theorem skyline_zero_pivot_first (isZero : V → Bool) (inv : V → V) (S : Skyline V R) (hn : S.n ≠ 0)
    (h : isZero (S.D.getD 0 0) = true) : factorize isZero inv S = .precondition := by
  rw [factorize_of_pos hn, if_pos h]

/-- an empty system: `factorize()` returns at once (`if (n == 0) return;`, fix of finding F42) -/
theorem skyline_factorize_empty (isZero : V → Bool) (inv : V → V) (S : Skyline V R) (hn : S.n = 0) :
    factorize isZero inv S = .ok S := factorize_empty hn

/-- **zero pivot ⟹ `precondition`**: if iteration `k` of the main loop is reached and its pivot candidate
`D[k+1] − Σ L[j]·U[j]` vanishes, the outcome of `factorize()` is `precondition`. -/
theorem skyline_zero_pivot (isZero : V → Bool) (inv : V → V) (S Sk : Skyline V R) (k : Nat) (hk : k < S.n - 1)
    (h0 : isZero (S.D.getD 0 0) = false)
    (hrun : factorLoop isZero inv { S with D := S.D.setIfInBounds 0 (inv (S.D.getD 0 0)) } k = .ok Sk)
    (hz : isZero (pivotSum (factorStepLU Sk k) k) = true) :
    factorize isZero inv S = .precondition := by
  rw [factorize_of_pos (by omega)]
  rw [if_neg (by rw [h0]; exact Bool.false_ne_true)]
  exact factorLoop_zero_pivot hk hrun hz

/-- conversely, the `ok` outcome means that every pivot candidate passed the zero test -/
theorem skyline_ok_pivots_nonzero (isZero : V → Bool) (inv : V → V) (S S' : Skyline V R) (hn : S.n ≠ 0)
    (h : factorize isZero inv S = .ok S') :
    isZero (S.D.getD 0 0) = false ∧ ∀ k, k < S.n - 1 →
      ∃ Sk, factorLoop isZero inv { S with D := S.D.setIfInBounds 0 (inv (S.D.getD 0 0)) } k = .ok Sk ∧
        isZero (pivotSum (factorStepLU Sk k) k) = false := by
  rw [factorize_of_pos hn] at h
  split at h
  · exact absurd h (by simp)
  · rename_i h0
    exact ⟨by simpa using h0, factorLoop_ok_pivots (S.n - 1) S' h⟩

/-- **the result of `operator()` does not depend on the incoming content of the scratch vector `y`** (any carrier:
no algebraic law is used, so this covers IEEE arithmetic and block values as well) -/
theorem skyline_out_indep_scratch (S : Skyline V R) (rhs x y y' : Array R) (hwf : S.WFProfile)
    (hy : y.size = S.n) (hy' : y'.size = S.n) :
    solve { S with y := y } rhs x = solve { S with y := y' } rhs x :=
  solve_indep_scratch S rhs x y y' hwf hy hy'

/-- the constructor produces a well-formed profile for every matrix and every ordering array, and `factorize()`
keeps it -/
theorem skyline_build_profile (isZero : V → Bool) (A : CRS V) (perm : Array Nat) :
    (build (R := R) isZero A perm).WFProfile := build_profile isZero A perm

theorem skyline_factorize_frame (isZero : V → Bool) (inv : V → V) (S S' : Skyline V R)
    (h : factorize isZero inv S = .ok S') (hwf : S.WFProfile) :
    S'.WFProfile ∧ S'.n = S.n ∧ S'.perm = S.perm ∧ S'.ptr = S.ptr ∧ S'.y = S.y :=
  ⟨wfProfile_of_sameFrame (sameFrame_factorize h) hwf, sameFrame_factorize h⟩

end anyCarrier

/-- non-vacuity: `[[1,1],[1,1]]` — the second pivot candidate `1 − 1·1` vanishes -/
example : factorize (fun v : ℚ => decide (v = 0)) (fun v => 1 / v) exSing = .precondition :=
  skyline_zero_pivot _ _ exSing _ 0 (by decide) (by simp) rfl exSing_pivot

example : solve { exFac with y := (#[5, 7] : Array ℚ) } (#[1, 2] : Array ℚ) #[9, 9]
    = solve { exFac with y := (#[0, 0] : Array ℚ) } #[1, 2] #[9, 9] :=
  skyline_out_indep_scratch exFac #[1, 2] #[9, 9] #[5, 7] #[0, 0] exFac_wf rfl rfl

example := skyline_ok_pivots_nonzero _ _ exRaw exFac (by decide) ex_factorize

end skyline

/-! ## V-grade checkers -/
section checkers

/-- `isPermB n perm = true` ⟹ `perm` is a permutation of `0, …, n-1` -/
theorem isPerm_sound (n : Nat) (perm : Array Nat) (h : isPermB n perm = true) :
    perm.toList.Perm (List.range n) ∧ PermOn n perm := ⟨isPermB_sound n perm h, isPermB_permOn n perm h⟩

/-- `qrExact A Qk R = true` ⟹ `A = Qk·R`, `QkᵀQk = 1`, `R` upper trapezoidal -/
theorem qr_exact_sound {K : Type} [Field K] [LinearOrder K] [DecidableEq K] (A Qk R : Dense K)
    (h : Dense.qrExact A Qk R = true) :
    A.mat A.m A.n = Qk.mat A.m (min A.m A.n) * R.mat (min A.m A.n) A.n ∧
    (Qk.mat A.m (min A.m A.n)).transpose * Qk.mat A.m (min A.m A.n) = 1 ∧
    ∀ i j, i < min A.m A.n → j < i → R.get i j = 0 :=
  let ⟨_, _, _, _, h5, h6, h7⟩ := Dense.qrExact_sound A Qk R h
  ⟨h5, h6, h7⟩

example := qr_exact_sound _ _ _ ex_qr
example : isPermB 4 #[2, 0, 3, 1] = true := by decide
example : isPermB 3 #[2, 0, 2] = false := by decide

end checkers

end Amgcl.C16
