import Amgcl.Proofs.PointwiseSpec
import Amgcl.Model.KernelsValue
/-!
# C08 — part 6: `pointwise_matrix` equals its definition on every matrix with sorted rows, also at block values

`backend::pointwise_matrix(A, block_size)` (`Model/PointwiseMatrix.lean`, modelled as written: one cursor per scalar row, the
`while(!done)` rounds, `std::max` / `std::min`).  DESIGN.md lists a theorem `pointwise_spec`; until now only the Kronecker case
(`C04.pointwise_matrix_kron`) existed.  Here the general statement is proved:

* `pointwise_spec` — `A` with sorted rows (what every caller passes), `block_size = b > 0` dividing the row count: the result is
  `.ok Ap`, `Ap` has `nrows / b` rows and `ncols / b` columns, and every block row `ip` of `Ap` satisfies `PW.Spec`:
  strictly increasing block columns; a block column `cc` is stored iff some scalar entry `(c, v)` of the rows
  `ip·b … ip·b + b−1` has `c / b = cc`; its value is an upper bound of `norm v` over that group and is attained (= the largest).
* `pointwiseV_spec` — the same for a value type `V ≠ S` read through `math::norm : V → S` (`pointwiseMatrixV`, the block-valued
  kernel of `Model/KernelsValue.lean`): the entry is the largest `norm` of the blocks of the group.

Helper lemmas: `Amgcl/Proofs/PointwiseSpec.lean` (closed form of one round, loop invariant `pwWhile_spec`).
-/
namespace Amgcl.C08f
open Amgcl Amgcl.Coarsening

/-- the scalar entries of block row `ip` -/
def groupEntries {K : Type} (A : CRS K) (b ip : Nat) : Row K :=
  ((List.range b).map fun k => A.row (ip * b + k)).flatten

theorem mem_groupEntries {K : Type} (A : CRS K) (b ip : Nat) (cv : Nat × K) :
    cv ∈ groupEntries A b ip ↔ ∃ k, k < b ∧ cv ∈ A.row (ip * b + k) := by
  simp [groupEntries, List.mem_flatten]

section
variable {K : Type} [Zero K] [LinearOrder K]

/-- **`pointwise_matrix` equals its definition** (scalar value type; `norm` is `math::norm`) -/
theorem pointwise_spec (norm : K → K) (A : CRS K) (b : Nat) (hb : 0 < b) (hdiv : A.nrows / b * b = A.nrows)
    (hs : A.sortedb = true) :
    ∃ Ap, pointwiseMatrix norm A b = .ok Ap ∧ Ap.nrows = A.nrows / b ∧ Ap.ncols = A.ncols / b ∧
      ∀ ip, ip < A.nrows / b → PW.Spec norm b (groupEntries A b ip) (Ap.row ip) := by
  have hsP := sortedP_of_sortedb A hs
  refine ⟨{ ncols := A.ncols / b,
            rows := Array.ofFn (n := A.nrows / b) (fun ip =>
              pwBlockRow norm b ((List.range b).map fun k => A.row (ip.val * b + k))) }, ?_, ?_, rfl, ?_⟩
  · unfold pointwiseMatrix
    rw [if_neg (Nat.pos_iff_ne_zero.1 hb)]
    simp only [hdiv, ne_eq, not_true_eq_false, if_false]
  · simp [CRS.nrows]
  · intro ip hip
    have hrow : ∀ (m : Nat) (f : Fin (A.nrows / b) → Row K),
        (({ ncols := m, rows := Array.ofFn f } : CRS K).row ip) = f ⟨ip, hip⟩ := by
      intro m f; simp [CRS.row, Array.getD_eq_getD_getElem?, hip]
    rw [hrow]
    show PW.Spec norm b (((List.range b).map fun k => A.row (ip * b + k)).flatten) _
    refine PW.pwBlockRow_spec norm b hb _ ?_
    intro r hr
    obtain ⟨k, hk, rfl⟩ := List.mem_map.1 hr
    have hk' := List.mem_range.1 hk
    refine hsP _ ?_
    calc ip * b + k < ip * b + b := Nat.add_lt_add_left hk' _
      _ = (ip + 1) * b := by rw [Nat.succ_mul]
      _ ≤ A.nrows / b * b := Nat.mul_le_mul_right _ hip
      _ = A.nrows := hdiv

-- non-vacuity: 4 x 4, b = 2, unsymmetric pattern; block (0,0) holds 1, -3, 2 -> 3; block (0,1) holds 5; block row 1 has only block column 1
example : (match pointwiseMatrix (fun x : Int => if x < 0 then -x else x)
      (⟨4, #[[(0, 1), (1, -3), (3, 5)], [(0, 2)], [(2, -4)], [(2, 1), (3, 1)]]⟩ : CRS Int) 2 with
    | .ok C => (C.ncols, C.rows)
    | _ => (0, #[])) = (2, #[[(0, 3), (1, 5)], [(1, 4)]]) := by decide +kernel

end

section
variable {V S : Type} [Zero S] [LinearOrder S]

/-- **`pointwise_matrix` at a value type `V ≠ S`** (blocks, complex numbers) read through `norm : V → S`: block column `cc` of
block row `ip` is stored iff some stored value `(c, v)` of the scalar rows of the group has `c / b = cc`; its entry is the largest
`norm v` over the group; block columns strictly increase -/
theorem pointwiseV_spec (norm : V → S) (A : CRS V) (b : Nat) (hb : 0 < b) (hdiv : A.nrows / b * b = A.nrows)
    (hs : A.sortedb = true) :
    ∃ Ap : CRS S, pointwiseMatrixV norm A b = .ok Ap ∧ Ap.nrows = A.nrows / b ∧ Ap.ncols = A.ncols / b ∧
      ∀ ip, ip < A.nrows / b →
        RowSortedP (Ap.row ip) ∧
        (∀ cc, (∃ val, (cc, val) ∈ Ap.row ip) ↔ ∃ cv ∈ groupEntries A b ip, cv.1 / b = cc) ∧
        (∀ cc val, (cc, val) ∈ Ap.row ip →
          (∀ cv ∈ groupEntries A b ip, cv.1 / b = cc → norm cv.2 ≤ val) ∧
          ∃ cv ∈ groupEntries A b ip, cv.1 / b = cc ∧ norm cv.2 = val) := by
  have hn : (A.mapVals norm).nrows = A.nrows := by simp [CRS.mapVals, CRS.nrows]
  have hrow : ∀ i, (A.mapVals norm).row i = (A.row i).map (fun cv => (cv.1, norm cv.2)) := by
    intro i
    unfold CRS.mapVals CRS.row
    simp only [Array.getD_eq_getD_getElem?, Array.getElem?_map]
    cases A.rows[i]? <;> simp
  have hsorted : (A.mapVals norm).sortedb = true := by
    unfold CRS.sortedb at hs ⊢
    rw [List.all_eq_true] at hs ⊢
    intro r hr
    simp only [CRS.mapVals, Array.toList_map, List.mem_map] at hr
    obtain ⟨r0, hr0, rfl⟩ := hr
    have h0 := hs r0 hr0
    clear hs hr0
    induction r0 with
    | nil => rfl
    | cons a t ih =>
      cases t with
      | nil => rfl
      | cons c t' =>
        simp only [CRS.rowSorted, Bool.and_eq_true, decide_eq_true_eq, List.map_cons] at h0 ⊢
        exact ⟨h0.1, ih h0.2⟩
  obtain ⟨Ap, hAp, h1, h2, h3⟩ := pointwise_spec (id : S → S) (A.mapVals norm) b hb (by rw [hn]; exact hdiv) hsorted
  refine ⟨Ap, hAp, by rw [h1, hn], h2, ?_⟩
  intro ip hip
  have hSpec := h3 ip (by rw [hn]; exact hip)
  have hmem : ∀ cw : Nat × S, cw ∈ groupEntries (A.mapVals norm) b ip ↔
      ∃ cv ∈ groupEntries A b ip, cw = (cv.1, norm cv.2) := by
    intro cw
    simp only [mem_groupEntries, hrow, List.mem_map]
    constructor
    · rintro ⟨k, hk, cv, hcv, rfl⟩; exact ⟨cv, ⟨k, hk, hcv⟩, rfl⟩
    · rintro ⟨cv, ⟨k, hk, hcv⟩, rfl⟩; exact ⟨k, hk, cv, hcv, rfl⟩
  refine ⟨hSpec.sorted, ?_, ?_⟩
  · intro cc
    rw [hSpec.cols cc]
    constructor
    · rintro ⟨cw, hcw, hc⟩
      obtain ⟨cv, hcv, rfl⟩ := (hmem cw).1 hcw
      exact ⟨cv, hcv, hc⟩
    · rintro ⟨cv, hcv, hc⟩
      exact ⟨(cv.1, norm cv.2), (hmem _).2 ⟨cv, hcv, rfl⟩, hc⟩
  · intro cc val hval
    obtain ⟨hub, cw, hcw, hc, hv⟩ := hSpec.vals cc val hval
    refine ⟨fun cv hcv hcc => hub (cv.1, norm cv.2) ((hmem _).2 ⟨cv, hcv, rfl⟩) hcc, ?_⟩
    obtain ⟨cv, hcv, rfl⟩ := (hmem cw).1 hcw
    exact ⟨cv, hcv, hc, hv⟩

-- non-vacuity: values are pairs `(a, b)` standing for `diag(a, b)` with `norm = |a| + |b|`, group size 2
example : (match pointwiseMatrixV (fun v : Int × Int => (v.1.natAbs + v.2.natAbs : Nat))
      (⟨4, #[[(0, ((1 : Int), (-2 : Int))), (3, (3, 3))], [(1, (0, 5))], [], [(2, (1, 1))]]⟩ : CRS (Int × Int)) 2 with
    | .ok C => (C.ncols, C.rows)
    | _ => (0, #[])) = (2, #[[(0, 5), (1, 6)], [(1, 2)]]) := by decide +kernel

end

end Amgcl.C08f
