import Amgcl.Proofs.CuthillMcKeeMain
import Amgcl.Proofs.CuthillMcKeeIndep
import Amgcl.Properties.C16
import Amgcl.Properties.C17
/-!
# C16c — (reverse) Cuthill–McKee returns a permutation, for every input

Subject: the loop-by-loop model `CMK.get` (`Model/CuthillMcKee.lean`) of `amgcl::reorder::cuthill_mckee<reverse>::get`
(`amgcl/reorder/cuthill_mckee.hpp:78-186`): degrees, `levelSet`, the linked lists `nextSameDegree` with their heads
`firstWithDegree` / `nFirstWithDegree` (incl. the stale heads that survive the partial copy-back), the traversal
`while (node > 0)` exactly as written (node 0 is never expanded), the `empty` fallback with its linear search and
`precondition(found)`, every array access bounds checked (outcome `oob`), the two unbounded loops with fuel (outcome
`fuel`).  The model is tied to the real template by `harness/h_cmk.cpp` (EQUALITY of the permutation).

* `cmk_perm` — for EVERY square well-formed CRS pattern, `n ≥ 0` (any sparsity: non-symmetric, disconnected, empty
  rows, missing diagonal, duplicate column indices, unsorted rows), both values of `reverse`, every incoming content of
  `perm`: the outcome is `ok perm` — never `precondition`, never `oob`, never out of fuel — and `perm` is a permutation
  of `0..n-1` in each of the forms used elsewhere (`isPermB`, list permutation of `List.range n`, `PermOn`, `IsPerm`).
* `cmk_total` — the same as a statement about the outcomes; `cmk_fuel_indep` — every fuel `≥ n` (for the main loop and
  for the list walks) gives the same result: the fuelled loops are the unbounded loops of the code.
* `cmk_first` — `perm[0] = 0`: the ordering starts with the initial node; `cmk_perm0_indep` — the result does not depend on
  the incoming content of `perm`.
* `cmk_empty` — `n = 0` (the early return added by the fix of finding F41; before it the code wrote `perm[0]` and read
  `degree[0]` of empty vectors): the outcome is `ok perm0`, `perm` is returned untouched whatever its length; if it is
  empty, as it should be, it is the empty permutation (`isPermB 0`); a longer `perm0` is returned unchanged and is then
  of course not a permutation of the empty range.
* `skyline_cmk_spec` — `C16.skyline_spec` instantiated with the MODEL's Cuthill–McKee ordering (what the constructor of
  `skyline_lu` computes by default): no hypothesis on the ordering is left.
* `skyline_cmk_empty` — the empty system: ordering and `factorize()` return at once, the constructor ends in `ok`.
* `reorder_cmk_solves` — `C17.reorder_solves` (adapter::reorder, default ordering) with the model's ordering.

Proof idea (`Proofs/CuthillMcKeeInv.lean`, `CuthillMcKee.lean`, `CuthillMcKeeMain.lean`): `perm[0..next)` lists exactly
the nodes with `levelSet ≠ 0`, without repetition; every list head and link is `-1` or a numbered node, and the link of
the `k`-th numbered node points to a node numbered earlier, so a list walk from a head takes at most `next ≤ n` steps;
a not yet numbered node leaves room in `perm` (counting), and `next < n` leaves a not yet numbered node for the
fallback (counting again); every pass through the main loop increases `next`.
-/
namespace Amgcl.C16c
open Amgcl Amgcl.CMK Amgcl.Skyline

variable {K : Type}

/-- `PermOn n perm` in the executable form -/
theorem isPermB_of_permOn {n : Nat} {perm : Array Nat} (h : PermOn n perm) : isPermB n perm = true := by
  rw [isPermB_iff]
  refine ⟨h.size, ?_, ?_⟩
  · intro v hv
    obtain ⟨i, hi, rfl⟩ := List.mem_iff_getElem.mp hv
    have hi' : i < perm.size := by simpa using hi
    have : perm.getD i 0 = perm.toList[i] := by simp [Array.getD_eq_getD_getElem?, hi']
    rw [← this]; exact h.lt i (by rw [← h.size]; exact hi')
  · rw [List.Nodup, List.pairwise_iff_getElem]
    intro i j hi hj hij heq
    have hi' : i < perm.size := by simpa using hi
    have hj' : j < perm.size := by simpa using hj
    have e1 : perm.getD i 0 = perm.toList[i] := by simp [Array.getD_eq_getD_getElem?, hi']
    have e2 : perm.getD j 0 = perm.toList[j] := by simp [Array.getD_eq_getD_getElem?, hj']
    have := h.inj i j (by rw [← h.size]; exact hi') (by rw [← h.size]; exact hj') (by rw [e1, e2]; exact heq)
    omega

/-- **`n = 0`** (the early return `if (n == 0) return;`): `perm` is returned untouched, whatever its length -/
theorem cmk_empty (reverse : Bool) (A : CRS K) (perm0 : Array Nat) (hn : A.nrows = 0) :
    CMK.get reverse A perm0 = .ok perm0 ∧ (perm0.size = 0 → isPermB 0 perm0 = true) ∧
      (perm0.size ≠ 0 → isPermB 0 perm0 = false) := by
  refine ⟨by simp [CMK.get, CMK.getFuel, hn], ?_, ?_⟩
  · intro h0
    have : perm0 = #[] := Array.eq_empty_of_size_eq_zero h0
    subst this; decide
  · intro h0
    cases hb : isPermB 0 perm0 with
    | false => rfl
    | true => exact absurd ((isPermB_iff 0 perm0).mp hb).1 h0

example : CMK.get false (⟨0, #[]⟩ : CRS Nat) #[] = .ok #[] := (cmk_empty false _ _ rfl).1
example : CMK.get true (⟨0, #[]⟩ : CRS Nat) #[4, 4] = .ok #[4, 4] := (cmk_empty true _ _ rfl).1

/-- **Cuthill–McKee returns a permutation.**  For every square well-formed pattern (`n ≥ 0`), both variants, and every
incoming content of the output vector (of length `n`), the model of `cuthill_mckee<reverse>::get` ends in the `ok`
outcome, and the returned array is a permutation of `0..n-1`. -/
theorem cmk_perm (reverse : Bool) (A : CRS K) (perm0 : Array Nat) (hsq : A.ncols = A.nrows)
    (hwf : A.WF) (hp : perm0.size = A.nrows) :
    ∃ perm, CMK.get reverse A perm0 = .ok perm ∧ isPermB A.nrows perm = true ∧
      perm.toList.Perm (List.range A.nrows) ∧ PermOn A.nrows perm ∧ Adapters.IsPerm perm := by
  have key : ∃ perm, CMK.get reverse A perm0 = .ok perm ∧ isPermB A.nrows perm = true := by
    by_cases hn : A.nrows = 0
    · obtain ⟨h1, h2, _⟩ := cmk_empty reverse A perm0 hn
      exact ⟨perm0, h1, by rw [hn]; exact h2 (by rw [hp, hn])⟩
    · obtain ⟨perm, h1, h2, _⟩ := getFuel_spec reverse A perm0 (by omega) hsq hwf hp (Nat.le_refl _) (Nat.le_refl _)
      exact ⟨perm, h1, isPermB_of_permOn h2⟩
  obtain ⟨perm, h1, hb⟩ := key
  have h2 := isPermB_permOn _ _ hb
  refine ⟨perm, h1, hb, isPermB_sound _ _ hb, h2, ?_⟩
  unfold Adapters.IsPerm
  rw [h2.size]; exact isPermB_sound _ _ hb

/-- non-vacuity: a disconnected non-symmetric 5×5 pattern with an empty row, a duplicate and an unsorted row; node 0 has
neighbours (which the code never expands) -/
example : CMK.get false (⟨5, #[[(2, 1), (0, 1)], [(3, 1), (3, 1)], [(0, 1)], [], [(1, 1), (4, 1)]]⟩ : CRS Nat)
    #[9, 9, 9, 9, 9] = .ok #[0, 1, 3, 2, 4] := by decide +kernel
/-- the two variants differ: node 1 reaches 2 (degree 1) and 3 (degree 3); ascending degrees expand 2 first -/
example : CMK.get false (⟨6, #[[], [(2, 1), (3, 1)], [(4, 1)], [(5, 1), (1, 1), (0, 1)], [], []]⟩ : CRS Nat)
    #[9, 9, 9, 9, 9, 9] = .ok #[0, 1, 2, 3, 4, 5] := by decide +kernel
example : CMK.get true (⟨6, #[[], [(2, 1), (3, 1)], [(4, 1)], [(5, 1), (1, 1), (0, 1)], [], []]⟩ : CRS Nat)
    #[9, 9, 9, 9, 9, 9] = .ok #[0, 1, 2, 3, 5, 4] := by decide +kernel
example := cmk_perm false (⟨5, #[[(2, 1), (0, 1)], [(3, 1), (3, 1)], [(0, 1)], [], [(1, 1), (4, 1)]]⟩ : CRS Nat)
    #[9, 9, 9, 9, 9] rfl (by decide) rfl
example := cmk_perm true (⟨0, #[]⟩ : CRS Nat) #[] rfl (by decide) rfl

/-- the ordering starts with the initial node `0` -/
theorem cmk_first (reverse : Bool) (A : CRS K) (perm0 : Array Nat) (hn : 1 ≤ A.nrows) (hsq : A.ncols = A.nrows)
    (hwf : A.WF) (hp : perm0.size = A.nrows) :
    ∃ perm, CMK.get reverse A perm0 = .ok perm ∧ perm.getD 0 0 = 0 := by
  obtain ⟨perm, h1, _, h3⟩ := getFuel_spec reverse A perm0 hn hsq hwf hp (Nat.le_refl _) (Nat.le_refl _)
  exact ⟨perm, h1, h3⟩

example := cmk_first true (⟨2, #[[(1, 1)], []]⟩ : CRS Nat) #[5, 5] (by decide) rfl (by decide) rfl

/-- the failure outcomes of the model never occur on a square well-formed pattern (`n ≥ 0`): no
`precondition(found)` failure, no out-of-range access, no loop runs out of fuel -/
theorem cmk_total (reverse : Bool) (A : CRS K) (perm0 : Array Nat) (hsq : A.ncols = A.nrows)
    (hwf : A.WF) (hp : perm0.size = A.nrows) :
    CMK.get reverse A perm0 ≠ .precondition ∧ CMK.get reverse A perm0 ≠ .oob ∧ CMK.get reverse A perm0 ≠ .fuel := by
  obtain ⟨perm, h, _⟩ := cmk_perm reverse A perm0 hsq hwf hp
  rw [h]; exact ⟨by simp, by simp, by simp⟩

example := cmk_total true (⟨2, #[[(1, 1)], []]⟩ : CRS Nat) #[0, 0] rfl (by decide) rfl

/-- **the fuel is immaterial**: with any fuels `≥ n` for the main loop and for the list walks the model returns what
`get` (fuel `n` for both) returns, i.e. the fuelled loops coincide with the unbounded loops of the code -/
theorem cmk_fuel_indep (reverse : Bool) (A : CRS K) (perm0 : Array Nat) (hsq : A.ncols = A.nrows)
    (hwf : A.WF) (hp : perm0.size = A.nrows) (mainFuel walkFuel : Nat) (hm : A.nrows ≤ mainFuel)
    (hw : A.nrows ≤ walkFuel) :
    CMK.getFuel reverse A perm0 mainFuel walkFuel = CMK.get reverse A perm0 := by
  obtain ⟨perm, h, _⟩ := cmk_perm reverse A perm0 hsq hwf hp
  rw [h]
  exact getFuel_mono reverse A perm0 hm hw perm h

example : CMK.getFuel false (⟨2, #[[(1, 1)], []]⟩ : CRS Nat) #[0, 0] 7 11 = CMK.get false ⟨2, #[[(1, 1)], []]⟩ #[0, 0] :=
  cmk_fuel_indep false _ _ rfl (by decide) rfl 7 11 (by decide) (by decide)

/-- **the result is a function of the pattern only**: it does not depend on the incoming content of `perm` (the code
never reads `perm`, and every position is overwritten) -/
theorem cmk_perm0_indep (reverse : Bool) (A : CRS K) (perm0 perm0' : Array Nat)
    (hsq : A.ncols = A.nrows) (hwf : A.WF) (hp : perm0.size = A.nrows) (hp' : perm0'.size = A.nrows) :
    CMK.get reverse A perm0' = CMK.get reverse A perm0 := by
  by_cases hn : A.nrows = 0
  · have e1 : perm0 = #[] := Array.eq_empty_of_size_eq_zero (by rw [hp, hn])
    have e2 : perm0' = #[] := Array.eq_empty_of_size_eq_zero (by rw [hp', hn])
    rw [e1, e2]
  · exact get_indep reverse A perm0 perm0' (by omega) hsq hwf hp hp'

example : CMK.get true (⟨2, #[[(1, 1)], []]⟩ : CRS Nat) #[7, 7] = CMK.get true (⟨2, #[[(1, 1)], []]⟩ : CRS Nat) #[0, 0] :=
  cmk_perm0_indep true _ _ _ rfl (by decide) rfl rfl

/-- **skyline LU with its default ordering, end to end**: `C16.skyline_spec` with the ordering computed by the model of
`cuthill_mckee<false>::get` — for every square CRS matrix with `n ≥ 1` whose rows carry no column index twice, every
right-hand side and every incoming content of the scratch vectors: the ordering step ends in `ok perm`, and if the
factorisation on that ordering does not end in the `precondition` outcome (zero pivot), `operator()` returns `x` with
`A x = b`. -/
theorem skyline_cmk_spec [Field K] [DecidableEq K] (A : CRS K) (perm0 : Array Nat) (hn : 1 ≤ A.nrows)
    (hsq : A.ncols = A.nrows) (hwf : A.WF) (hnd : ∀ i, ((A.row i).map (·.1)).Nodup) (hp0 : perm0.size = A.nrows) :
    ∃ perm, CMK.get false A perm0 = .ok perm ∧
      ∀ S, factorize (fun v => decide (v = 0)) (fun v => 1 / v) (build (R := K) (fun v => decide (v = 0)) A perm) = .ok S →
        ∀ (rhs x : Array K), x.size = A.nrows →
          ∀ r, r < A.nrows → ∑ c ∈ Finset.range A.nrows, A.get r c * (solve S rhs x).1.getD c 0 = rhs.getD r 0 := by
  obtain ⟨perm, h, _, _, hp, _⟩ := cmk_perm false A perm0 hsq hwf hp0
  exact ⟨perm, h, fun S hS rhs x hx => C16.skyline_spec A perm S hn hsq hwf hnd hp hS rhs x hx⟩

/-- non-vacuity: CRS `[[3,1],[1,2]]` with an unsorted row; the model's ordering is the identity here -/
example : CMK.get false C16Ex.exA #[0, 0] = .ok #[0, 1] := by decide +kernel
example := skyline_cmk_spec C16Ex.exA #[0, 0] (by decide) rfl C16Ex.exA_wf C16Ex.exA_nodup rfl

/-- **the empty system**: the default ordering returns the empty permutation and `factorize()` returns at once (the early
returns added by the fixes of findings F41 / F42): the constructor of `skyline_lu` ends in `ok` -/
theorem skyline_cmk_empty [Field K] [DecidableEq K] (A : CRS K) (hn : A.nrows = 0) :
    CMK.get false A #[] = .ok #[] ∧
      ∃ S, factorize (fun v => decide (v = 0)) (fun v => 1 / v) (build (R := K) (fun v => decide (v = 0)) A #[]) = .ok S :=
  ⟨(cmk_empty false A #[] hn).1, _, factorize_empty (by show A.nrows = 0; exact hn)⟩

example := skyline_cmk_empty (K := ℚ) ⟨0, #[]⟩ rfl

/-- **adapter::reorder with its default ordering**: `C17.reorder_solves` with the ordering computed by the model of
`cuthill_mckee<false>::get`: if `y` solves the reordered system then the back-permuted `y` solves the original one. -/
theorem reorder_cmk_solves [Semiring K] [DecidableEq K] (A : CRS K) (perm0 : Array Nat)
    (hsq : A.ncols = A.nrows) (hwf : A.WF) (hp0 : perm0.size = A.nrows) :
    ∃ perm, CMK.get false A perm0 = .ok perm ∧
      ∀ (f y x0 w w' : Vec K), f.size = A.nrows → x0.size = A.nrows →
        spmv 1 (Adapters.reorderedMatrix A perm (Adapters.mkIperm perm)) y 0 w = Adapters.reorderForward perm f →
        spmv 1 A (Adapters.reorderInverse perm y x0) 0 w' = f := by
  obtain ⟨perm, h, _, _, hp, hip⟩ := cmk_perm false A perm0 hsq hwf hp0
  refine ⟨perm, h, fun f y x0 w w' hf hx hsol => ?_⟩
  exact C17.reorder_solves A hip hwf hp.size.symm (by rw [hsq, hp.size]) f y x0 w w' (by rw [hf, hp.size])
    (by rw [hx, hp.size]) hsol

example := reorder_cmk_solves (K := ℚ) C16Ex.exA #[0, 0] rfl C16Ex.exA_wf rfl

end Amgcl.C16c
