import Amgcl.Model.CApi
namespace Amgcl.C20
end Amgcl.C20
