import Amgcl.Proofs.CApiView
import Amgcl.Proofs.CApiHandles
import Amgcl.Proofs.CApiParams
/-!
# C20 — the C interface (0- and 1-based) gives the C++ results: the Lean part

Only property theorems live here (models: `Amgcl/Model/CApi.lean`, `Amgcl/Model/CApiParams.lean`; helper lemmas:
`Amgcl/Proofs/CApiView.lean`, `Amgcl/Proofs/CApiHandles.lean`, `Amgcl/Proofs/CApiParams.lean`).  The bulk of C20 — bitwise equality of the C handle API with the C++ run-time
interface — is implementation-vs-implementation equivalence and is *observed* by `harness/h_capi.cpp`, not
proved (level `translation_validation`).  What is proved, for all inputs:

* `fortran_view_eq`, `fortran_view_ops_eq` — for **all** arrays (well-formed or not) the tuple-of-ranges view
  that the `_f` entry points build over `(ptr+1, col+1, val)` is read by the `crs` constructor, by `residual`
  and by `spmv` exactly like the view the C entry points build over `(ptr, col, val)`: same offsets
  dereferenced, same values seen, same failures.
* `view_rows_of_crs`, `view_reads_in_bounds`, `view_residual_eq`, `view_mulVec_eq` — for every CRS matrix
  stored with index base `β` (any `β`, in particular `0` and `1`) every dereference made by the `crs`
  constructor (both passes), by `nonzeros`, by `residual` and by `spmv` through the view is inside the caller's
  arrays and the values seen are the rows of the matrix / `f - A x` / `A x` of C07's primitives —
  although (`fortran_end_iterators_past_the_arrays`) the end iterators of the `col`/`val` ranges are formed
  `β` elements behind one-past-the-end: they are never consulted.
* `handle_no_use_after_destroy` and companions — the handle state machine never reaches a call on a dead /
  foreign / unknown handle exactly for the `Balanced` scripts; an error is raised at the *first* offending
  call; any call on a handle after its destroy is (at the latest) that error; a balanced script that destroys
  everything it creates leaves nothing alive.

* `params_last_write_wins` and companions — the CONTENT of a parameter handle after any history of
  `amgcl_params_seti/setf/sets/read_json` calls (`put` = overwrite the first match or append, `read_json` =
  replace): the value a reader sees at a path is the LAST one written to it (by a setter after the last file, or
  by the last file), nothing written before a `read_json` survives it, no node ever has two children with the same
  key, and writes to one handle leave every other handle alone.  The model is tied to the code by exact
  correspondence on the tree read back from the real handle (`capi_params`).

What the C API guarantees (and the model assumes, read off lib/amgcl.cpp; exercised by the harness under
ASan/LSan): `*_create` returns a fresh object and dereferences its parameter handle only during the call (the
ptree is converted into the object's own `params`; the matrix arrays are copied) — so destroying the parameters
and freeing the arrays right after `create` is legal; every other call dereferences exactly its handle
argument; nothing is destroyed implicitly.  The API has no handle table: a call on a destroyed handle, a handle
of the other family or a made-up handle is undefined behaviour (here: outcome `error`), nothing detects it.
-/
namespace Amgcl.C20
open Amgcl Amgcl.CApi

section view
variable {K : Type}

/-- **The Fortran-style view equals the C view.**  For all arrays: the system matrix the `crs` constructor
copies out of the 1-based view of `(ptr+1, col+1, val)` — including whether any read leaves the arrays — is
the one it copies out of the 0-based view of `(ptr, col, val)`. -/
theorem fortran_view_eq (n : Nat) (ptr col : Array Int) (val : Array K) :
    (mkView 1 n (ptr.map (· + 1)) (col.map (· + 1)) val).bind View.toRows
      = (mkView 0 n ptr col val).bind View.toRows := by
  unfold mkView
  rw [rd_map]
  cases h : rd ptr (n : Int) with
  | none => simp
  | some pn =>
    obtain ⟨hp, hc, hv, hs⟩ := fortran_readers_eq (K := K) n ptr col val pn
    simp only [Option.map_some, Option.bind_eq_bind, Option.bind_some, Option.pure_def]
    exact toRows_congr _ _ rfl hp hc hv hs

/-- non-vacuity: the common value is a proper matrix (1-based arrays `ptr = 1 3 4`, `col = 2 1 2`) -/
example : (mkView 1 2 #[1, 3, 4] #[2, 1, 2] #[(5 : Int), -1, 7]).bind View.toRows
    = some #[[(1, 5), (0, -1)], [(1, 7)]] := by decide
example : (mkView 0 2 #[0, 2, 3] #[1, 0, 1] #[(5 : Int), -1, 7]).bind View.toRows
    = some #[[(1, 5), (0, -1)], [(1, 7)]] := by decide
/-- …and both sides fail together on arrays that are too short (`col` has 2 entries, `ptr` announces 3) -/
example : (mkView 1 2 #[1, 3, 4] #[2, 1] #[(5 : Int), -1, 7]).bind View.toRows = none := by decide

/-- the same for what `amgcl_solver_solve_mtx_f` does with the replacement matrix: `residual` and `spmv`
through the view (reads of the caller's `rhs` / `x` included) -/
theorem fortran_view_ops_eq [Add K] [Mul K] [Sub K] [Zero K] (n : Nat) (ptr col : Array Int) (val f x : Array K) :
    (mkView 1 n (ptr.map (· + 1)) (col.map (· + 1)) val).bind (fun v => v.residual f x)
        = (mkView 0 n ptr col val).bind (fun v => v.residual f x)
      ∧ (mkView 1 n (ptr.map (· + 1)) (col.map (· + 1)) val).bind (fun v => v.mulVec x)
        = (mkView 0 n ptr col val).bind (fun v => v.mulVec x) := by
  unfold mkView
  rw [rd_map]
  cases h : rd ptr (n : Int) with
  | none => simp
  | some pn =>
    obtain ⟨hp, hc, hv, hs⟩ := fortran_readers_eq (K := K) n ptr col val pn
    simp only [Option.map_some, Option.bind_eq_bind, Option.bind_some, Option.pure_def]
    exact ⟨residual_congr _ _ (by rfl) hp hc hv hs f x, mulVec_congr _ _ (by rfl) hp hc hv hs x⟩

example : (mkView 1 2 #[1, 3, 4] #[2, 1, 2] #[(5 : Int), -1, 7]).bind
    (fun v => v.residual #[10, 20] #[1, 2]) = some #[1, 6] := by decide

/-- **Rows through the view of a CRS matrix.**  For every CRS matrix `A` (any shape of rows: empty, unsorted,
duplicates) whose arrays are stored with index base `β`, the tuple is built without reading outside `ptr`
and the `crs` constructor reads exactly the rows of `A` — no read fails. -/
theorem view_rows_of_crs (β : Int) (A : CRS K) :
    (mkView β A.nrows (ptrArr β A) (colArr β A) (valArr A)).bind View.toRows = some (intRows A) := by
  rw [mkView_crs]
  exact crsView_toRows β A

example : (mkView 1 2 (ptrArr 1 (⟨2, #[[(1, (5 : Int)), (0, -1)], [(1, 7)]]⟩ : CRS Int))
      (colArr 1 ⟨2, #[[(1, (5 : Int)), (0, -1)], [(1, 7)]]⟩) (valArr ⟨2, #[[(1, (5 : Int)), (0, -1)], [(1, 7)]]⟩)).bind
    View.toRows = some #[[(1, 5), (0, -1)], [(1, 7)]] :=
  view_rows_of_crs 1 _

/-- **Every index dereferenced is inside its array.**  Reads are bounds-checked `Option`s in the model; for
the arrays of a CRS matrix (index base `β`) none of them fails: the construction of the tuple (raw `ptr[n]`),
`nonzeros` (`ptr[n]` through the range), the counting pass and the copying pass of the `crs` constructor for
every row, and — for a well-formed matrix and vectors of the matrix' size — `residual` and `spmv` through the
view, including their reads of the caller's `f` and `x`. -/
theorem view_reads_in_bounds [Add K] [Mul K] [Sub K] [Zero K] (β : Int) (A : CRS K) :
    ∃ v : View K, mkView β A.nrows (ptrArr β A) (colArr β A) (valArr A) = some v
      ∧ v.nonzeros = some (A.rows.toList.flatten.length : Int)
      ∧ (∀ i, i < A.nrows → v.rowWidth i = some (A.row i).length)
      ∧ (∀ i, i < A.nrows → (v.row i).isSome)
      ∧ v.toRows.isSome
      ∧ (A.WF → ∀ f x : Array K, A.ncols ≤ x.size → A.nrows ≤ f.size →
            (v.residual f x).isSome ∧ (v.mulVec x).isSome) := by
  refine ⟨crsView β A, mkView_crs β A, ?_, ?_, ?_, ?_, ?_⟩
  · have := crsView_ptrAt β A A.nrows (Nat.le_refl _)
    rw [take_nrows] at this
    exact this
  · intro i hi; exact crsView_rowWidth β A i hi
  · intro i hi; rw [crsView_row β A i hi]; rfl
  · rw [crsView_toRows]; rfl
  · intro hA f x hx hf
    rw [crsView_residual β A hA f x hx hf, crsView_mulVec β A hA x hx]
    exact ⟨rfl, rfl⟩

example : (⟨2, #[[(1, (5 : Int)), (0, -1)], [(1, 7)]]⟩ : CRS Int).WF := by decide

/-- …although the END iterators of the `col` and `val` ranges point `β` elements behind one-past-the-end of
the caller's arrays (`col_c + ptr[n]` with the raw `ptr[n] = nnz + β`): with `β = 1` they are formed outside
the arrays, and no reader consults them. -/
theorem fortran_end_iterators_past_the_arrays (β : Int) (A : CRS K) :
    ∃ v : View K, mkView β A.nrows (ptrArr β A) (colArr β A) (valArr A) = some v
      ∧ v.colEnd = (v.col.size : Int) + β ∧ v.valEnd = (v.val.size : Int) + β := by
  refine ⟨crsView β A, mkView_crs β A, ?_, ?_⟩
  · show ((A.rows.toList.flatten.length : Int) + β) = (((A.rows.toList.flatten.map _).toArray).size : Int) + β
    rw [List.size_toArray, List.length_map]
  · show ((A.rows.toList.flatten.length : Int) + β) = (((A.rows.toList.flatten.map _).toArray).size : Int) + β
    rw [List.size_toArray, List.length_map]

/-- what is read through the view is what C07's `residual` computes from the matrix -/
theorem view_residual_eq [Add K] [Mul K] [Sub K] [Zero K] [DecidableEq K] (β : Int) (A : CRS K) (hA : A.WF)
    (f x : Array K) (hx : A.ncols ≤ x.size) (hf : A.nrows ≤ f.size) :
    (mkView β A.nrows (ptrArr β A) (colArr β A) (valArr A)).bind (fun v => v.residual f x)
      = some (Amgcl.residual f A x) := by
  rw [mkView_crs]
  exact crsView_residual β A hA f x hx hf

/-- …and `spmv(1, A, x, 0, y)` through the view is C07's `spmv` with `β = 0` -/
theorem view_mulVec_eq [Add K] [Mul K] [Sub K] [Zero K] [One K] [DecidableEq K] (β : Int) (A : CRS K)
    (hA : A.WF) (x : Array K) (hx : A.ncols ≤ x.size) :
    (mkView β A.nrows (ptrArr β A) (colArr β A) (valArr A)).bind (fun v => v.mulVec x)
      = some (Array.ofFn (n := A.nrows) (fun i => Amgcl.rowDot (A.row i) x)) := by
  rw [mkView_crs]
  exact crsView_mulVec β A hA x hx

end view

section handles

/-- **No use after destroy.**  The state machine runs a script to the end — i.e. no call dereferences a
destroyed handle, a handle of another family or a handle that was never returned — **iff** the script is
`Balanced`: every call names only handles created earlier in the script, with the kind the call expects,
and not named by an earlier destroy. -/
theorem handle_no_use_after_destroy (s : List Call) :
    Balanced s ↔ ∃ st, run s = .ok st := by
  constructor
  · intro h
    exact runFrom_of_ok (pre := []) s 0 [] inv_nil (by simpa [Balanced] using h)
  · rintro ⟨st, h⟩
    have := (runFrom_ok (pre := []) s 0 [] st inv_nil h).1
    simpa [Balanced] using this

example : Balanced [.paramsCreate, .use .params 0, .objCreate true (some 0), .destroy .params 0,
    .use .solver 1, .destroy .solver 1] := by
  rw [handle_no_use_after_destroy]; exact ⟨_, rfl⟩

/-- the final state of a successful run is determined by the text of the script: handle `h` has the kind of
the `h`-th create and is alive iff no destroy names it -/
theorem handle_state_of_script (s : List Call) (st : HState) (h : run s = .ok st) :
    st.length = (kindsOf s).length ∧
      ∀ i, st[i]? = ((kindsOf s)[i]?).map (fun k => (k, !destroyedIn s i)) := by
  have := (runFrom_ok (pre := []) s 0 [] st inv_nil h).2
  simp only [List.nil_append] at this
  exact ⟨this.len, this.get⟩

/-- an error is reported at the FIRST call that is not `CallOK`: everything before it was legal -/
theorem handle_error_at_first_bad_call (s : List Call) (p : Nat) (e : Err) (h : run s = .error (p, e)) :
    ∃ hp : p < s.length, ¬ CallOK (s.take p) s[p] ∧
      ∀ (q : Nat) (hq : q < s.length), q < p → CallOK (s.take q) s[q] := by
  obtain ⟨p', hp', hj, hbad, hgood⟩ := runFrom_error (pre := []) s 0 [] p e inv_nil h
  have : p = p' := by omega
  subst this
  exact ⟨hp', by simpa using hbad, by intro q hq hqp; simpa using hgood q hq hqp⟩

/-- **Use after destroy is an error.**  If call `q` destroys handle `h` and a later call `p` dereferences `h`
(as whatever kind), the run ends in an error at call `p` at the latest. -/
theorem use_after_destroy_is_error (s : List Call) (q p : Nat) (hq : q < p) (hp : p < s.length)
    (k k' : Kind) (h : Nat) (hd : s[q]'(Nat.lt_trans hq hp) = .destroy k h) (hu : (k', h) ∈ (s[p]).touches) :
    ∃ j e, j ≤ p ∧ run s = .error (j, e) := by
  have hbad : ¬ CallOK (s.take p) s[p] := by
    intro hok
    have hfalse := (hok (k', h) hu).2
    have hmem : Call.destroy k h ∈ s.take p := by
      rw [← hd]
      exact List.mem_take_iff_getElem.2 ⟨q, by omega, rfl⟩
    have : destroyedIn (s.take p) h = true := by
      unfold destroyedIn
      rw [List.any_eq_true]
      exact ⟨_, hmem, by simp⟩
    rw [this] at hfalse
    exact Bool.noConfusion hfalse
  cases hr : run s with
  | ok st =>
    have hb := (handle_no_use_after_destroy s).2 ⟨st, hr⟩
    exact absurd (hb p hp) hbad
  | error je =>
    obtain ⟨j, e⟩ := je
    obtain ⟨hj, _, hgood⟩ := handle_error_at_first_bad_call s j e hr
    refine ⟨j, e, ?_, rfl⟩
    by_contra hlt
    exact hbad (hgood p hp (by omega))

example : run [.objCreate false none, .destroy .precond 0, .use .precond 0] = .error (2, .dead) := by decide

/-- a balanced script that destroys every handle it creates leaves nothing alive (no leak) -/
theorem handle_balanced_no_leak (s : List Call) (st : HState) (h : run s = .ok st) (hall : AllDestroyed s) :
    liveHandles st = [] := by
  have hinv := (runFrom_ok (pre := []) s 0 [] st inv_nil h).2
  simp only [List.nil_append] at hinv
  exact live_of_inv hinv hall

example : AllDestroyed [.paramsCreate, .objCreate true (some 0), .destroy .params 0, .use .solver 1,
    .destroy .solver 1] := by
  intro h hh
  have h2 : h < 2 := hh
  have : h = 0 ∨ h = 1 := by omega
  rcases this with rfl | rfl <;> decide

end handles

section params
open Amgcl.Params

/-- **Last write wins.**  Whatever the handle held (`p`) and whatever was written before (`pre`: setters, files,
the same path any number of times): after `amgcl_params_set*(prm, path, v)` followed by writes that spare `path`
(setters for other paths — ancestors and descendants of `path` included), a reader of the handle sees `v` at
`path`.  So re-tuning a handle that was already used for a solver takes effect in the next `*_create`. -/
theorem params_last_write_wins (p : PTree) (pre post : List PWrite) (path : List String) (v : String)
    (hs : ∀ w ∈ post, w.Spares path) :
    (runWrites p (pre ++ PWrite.set path v :: post)).getPath? path = some v := by
  rw [runWrites_append, runWrites_cons]
  exact getPath?_runWrites_spared _ path v post (PTree.getPath?_putPath_same _ path v) hs

example : (runWrites PTree.empty [.set ["solver", "tol"] "1e-06", .set ["solver", "type"] "cg",
      .set ["solver", "tol"] "0.01", .set ["solver"] "x", .set ["solver", "maxiter"] "3"]).getPath? ["solver", "tol"]
    = some "0.01" :=
  params_last_write_wins PTree.empty [.set ["solver", "tol"] "1e-06", .set ["solver", "type"] "cg"]
    [.set ["solver"] "x", .set ["solver", "maxiter"] "3"] ["solver", "tol"] "0.01"
    (by intro w hw; simp only [List.mem_cons, List.not_mem_nil, or_false] at hw
        rcases hw with rfl | rfl <;> simp [PWrite.Spares])

/-- **A setter overrides the file.**  A value read by `amgcl_params_read_json` and then written by a setter is
the setter's (a special case of `params_last_write_wins`: the file is one of the earlier writes). -/
theorem params_setter_overrides_file (p : PTree) (pre : List PWrite) (es : List (List String × String))
    (post : List PWrite) (path : List String) (v : String) (hs : ∀ w ∈ post, w.Spares path) :
    (runWrites p (pre ++ PWrite.file es :: PWrite.set path v :: post)).getPath? path = some v := by
  have := params_last_write_wins p (pre ++ [PWrite.file es]) post path v hs
  simpa [List.append_assoc] using this

/-- **A value of the file is seen unless overridden.**  The last entry of the file for `path` is what a reader
sees after setters for other paths. -/
theorem params_file_value (p : PTree) (pre : List PWrite) (es₁ es₂ : List (List String × String))
    (post : List PWrite) (path : List String) (v : String)
    (h₂ : ∀ e ∈ es₂, e.1 ≠ path) (hs : ∀ w ∈ post, w.Spares path) :
    (runWrites p (pre ++ PWrite.file (es₁ ++ (path, v) :: es₂) :: post)).getPath? path = some v := by
  rw [runWrites_append, runWrites_cons]
  refine getPath?_runWrites_spared _ path v post ?_ hs
  show (putAll PTree.empty (es₁ ++ (path, v) :: es₂)).getPath? path = some v
  rw [putAll_append, putAll_cons, ← runWrites_sets]
  refine getPath?_runWrites_spared _ path v _ (PTree.getPath?_putPath_same _ path v) ?_
  intro w hw
  obtain ⟨e, he, rfl⟩ := List.mem_map.1 hw
  exact h₂ e he

example : (runWrites PTree.empty [.set ["solver", "tol"] "0.5",
      .file [(["solver", "tol"], "1e-06"), (["solver", "type"], "bicgstab")],
      .set ["solver", "type"] "cg"]).getPath? ["solver", "tol"] = some "1e-06" :=
  params_file_value PTree.empty [.set ["solver", "tol"] "0.5"] [] [(["solver", "type"], "bicgstab")]
    [.set ["solver", "type"] "cg"] ["solver", "tol"] "1e-06"
    (by intro e he; simp only [List.mem_cons, List.not_mem_nil, or_false] at he; subst he; simp)
    (by intro w hw; simp only [List.mem_cons, List.not_mem_nil, or_false] at hw; subst hw; simp [PWrite.Spares])

/-- **`read_json` replaces.**  Nothing the handle held or was told before a `read_json` survives it: the tree
after the file and later writes does not depend on the earlier history. -/
theorem params_file_replaces (p q : PTree) (pre pre' : List PWrite) (es : List (List String × String))
    (post : List PWrite) :
    runWrites p (pre ++ PWrite.file es :: post) = runWrites q (pre' ++ PWrite.file es :: post) := by
  simp only [runWrites_append, runWrites_cons]
  rfl

/-- **No duplicate keys.**  Starting from `amgcl_params_create` (the empty tree), no history of setter /
`read_json` calls produces a node with two children of the same key — every value ever stored is reachable by
`get`, none is shadowed by an older sibling. -/
theorem params_no_duplicate_keys (ws : List PWrite) : NoDup (runWrites PTree.empty ws) := by
  suffices h : ∀ (p : PTree), NoDup p → NoDup (runWrites p ws) from h _ noDup_empty
  induction ws with
  | nil => intro p hp; exact hp
  | cons w ws ih => intro p hp; rw [runWrites_cons]; exact ih _ (noDup_apply p w hp)

/-- in particular the top level of a handle never lists a key twice (`check_params` iterates over it) -/
theorem params_top_keys_nodup (ws : List PWrite) : (runWrites PTree.empty ws).keys.Nodup := by
  have h := params_no_duplicate_keys ws
  generalize runWrites PTree.empty ws = t at h
  cases h with
  | node d ks hk _ => exact hk

/-- **Handles are independent.**  A write to (or the destruction of) handle `h` leaves the content of every
other handle as it was. -/
theorem params_handles_independent (st st' : PState) (c : PCall) (h' : Nat) (hstep : c.step st = some st')
    (hh : ∀ h w, c = .write h w → h' ≠ h) (hd : ∀ h, c = .destroy h → h' ≠ h) (hlt : h' < st.length) :
    st'[h']? = st[h']? := by
  cases c with
  | create =>
    simp only [PCall.step, Option.some.injEq] at hstep
    subst hstep
    rw [List.getElem?_append_left hlt]
  | write h w =>
    have hne := hh h w rfl
    simp only [PCall.step] at hstep
    split at hstep
    · simp only [Option.some.injEq] at hstep
      subst hstep
      rw [List.getElem?_set_ne (Ne.symm hne)]
    · cases hstep
  | destroy h =>
    have hne := hd h rfl
    simp only [PCall.step] at hstep
    split at hstep
    · simp only [Option.some.injEq] at hstep
      subst hstep
      rw [List.getElem?_set_ne (Ne.symm hne)]
    · cases hstep

example : (runCalls [] [.create, .create, .write 0 (.set ["a"] "1"), .write 1 (.set ["a"] "2"),
    .write 0 (.set ["a"] "3"), .destroy 1]).map (fun st => st.map (fun o => o.map (fun t => t.getPath? ["a"])))
    = some [some (some "3"), none] := by decide

end params

end Amgcl.C20
