import Amgcl.Proofs.SkylineNCMatrix
import Amgcl.Proofs.StaticMatrixNC
import Amgcl.Proofs.SkylineNCSMat
/-!
# C16d — skyline LU for BLOCK values: the theorems of C16 over a non-commutative ring

`skyline_lu<static_matrix<T,b,b>>` runs the same template as the scalar solver; the value type is then a
NON-COMMUTATIVE ring and the right-hand sides (`static_matrix<T,b,1>`) are a module over it.  The theorems of
`Properties/C16.lean` about the skyline solver are proved over a commutative field (`ring`/`field_simp`).  Here they are
re-proved for the SAME model (`Model/SkylineLU.lean`, generic over the notation classes) over

* an arbitrary ring `K` (no commutativity, no division), value type `V = K`;
* an arbitrary `K`-module `R` for the right-hand sides (`HMul V R R` = the scalar action);
* an arbitrary zero test and an arbitrary map `inv : K → K` of which only `a * inv a = 1` **on the pivots that occur**
  is assumed (`SkyNC.PivotsOK`: the first diagonal entry and every pivot candidate met by the main loop; `inv` of a
  singular non-zero block is not constrained — `detail::inverse` asserts there).  Only the RIGHT-inverse law is needed,
  because the code multiplies the stored inverted pivot from the LEFT (`U = D[i] * sum`, `y[i] = D[i] * sum`).

Product orders of the C++ source (solver/skyline_lu.hpp) and of the model, checked one by one:
`U[ptr[k+1]] = D[0] * U[ptr[k+1]]` (257), `sum -= L[indexL] * U[indexU]` (275, 296), `sum -= L[j] * U[j]` (304),
`U[indexEntry] = D[i] * sum` (277), `sum -= L[k] * y[j]` (188), `y[i] = D[i] * sum` (190), `y[i] -= U[k] * y[j]` (195) — all reproduced by the model
with the same left/right operands; the identities below would be false for any other order (`a00_a01_noncomm`).

The factorisation is `P A Pᵀ = L̃ · Ũ` with `L̃` lower triangular carrying the pivots `pv i` on its diagonal (left
factor), `Ũ` unit upper triangular (right factor), and the stored `D[i]` with `pv i * D[i] = 1`.
-/
namespace Amgcl.C16d
open Amgcl Amgcl.Skyline Amgcl.SkyNC Finset

section ring
variable {K R : Type} [Ring K] [DecidableEq K]

/-- **block skyline LU, factorisation.**  For every ring `K` (not necessarily commutative), every square CRS matrix
over `K` (column indices in range, no column index twice in a row), every permutation ordering: if the constructor ends
in `ok` and `inv` returns right inverses of the pivots that occur, then there are pivots `pv` with `pv i * D[i] = 1`
such that the stored factors reproduce the permuted matrix, `A(perm i, perm j) = Σ_m L̃(i,m) * Ũ(m,j)`
(lower factor on the left), on the whole profile and — because both sides vanish there — outside of it. -/
theorem skyline_block_factor [Zero R] (inv : K → K) (A : CRS K) (perm : Array Nat) (S : Skyline K R)
    (hn : 1 ≤ A.nrows) (hsq : A.ncols = A.nrows) (hwf : A.WF) (hnd : ∀ i, ((A.row i).map (·.1)).Nodup)
    (hp : PermOn A.nrows perm)
    (h : factorize (fun v => decide (v = 0)) inv (build (R := R) (fun v => decide (v = 0)) A perm) = .ok S)
    (hpi : PivotsOK (fun v => decide (v = 0)) inv (build (R := R) (fun v => decide (v = 0)) A perm)) :
    StorageWF S ∧ S.n = A.nrows ∧ S.perm = perm ∧
    ∃ pv : Nat → K, (∀ i, i < A.nrows → pv i * Dd S i = 1) ∧
      ∀ i j, i < A.nrows → j < A.nrows →
        A.get (perm.getD i 0) (perm.getD j 0) = ∑ m ∈ range A.nrows, Lt pv S i m * Ut S m j := by
  obtain ⟨hst, hfr, pv, hD, hfac⟩ := SkyNC.factorize_spec _ inv _ S (SkyNC.build_storage _ A perm) h hn hpi
  refine ⟨hst, hfr.1, hfr.2.1, pv, hD, ?_⟩
  intro i j hi hj
  rw [← SkyNC.build_emb (R := R) A perm hsq hwf hnd hp i j hi hj]
  exact hfac i j hi hj

/-- the same on an arbitrary well-formed storage (`E` = dense embedding of the `L/U/D` arrays before `factorize()`) -/
theorem skyline_block_factorize (isZero : K → Bool) (inv : K → K) (S S' : Skyline K R) (hst : StorageWF S)
    (h : factorize isZero inv S = .ok S') (hn : 1 ≤ S.n) (hpi : PivotsOK isZero inv S) :
    StorageWF S' ∧ SameFrame S S' ∧ ∃ pv : Nat → K, (∀ i, i < S.n → pv i * Dd S' i = 1) ∧
      ∀ i j, i < S.n → j < S.n → Emb S i j = ∑ m ∈ range S.n, Lt pv S' i m * Ut S' m j :=
  SkyNC.factorize_spec isZero inv S S' hst h hn hpi

/-- when `inv` is a right inverse of EVERY value that passes the zero test (division rings; a zero test that rejects
every non-unit), the hypothesis on the pivots is automatic -/
theorem skyline_block_pivotsOK_of_global (isZero : K → Bool) (inv : K → K) (S S' : Skyline K R) (hn : S.n ≠ 0)
    (hinv : ∀ a, isZero a = false → a * inv a = 1) (h : factorize isZero inv S = .ok S') : PivotsOK isZero inv S :=
  SkyNC.pivotsOK_of_global hn hinv h

section solve
variable [AddCommGroup R] [Module K R]
attribute [local instance] smulHMul

/-- **block skyline LU, end to end: `operator()` returns `x` with `A x = b`.**  `K` any ring, `R` any `K`-module
(the right-hand side type), `V * R → R` the scalar action; every input as in `skyline_block_factor`, every right-hand
side, every incoming content of the output vector. -/
theorem skyline_block_solve (inv : K → K) (A : CRS K) (perm : Array Nat) (S : Skyline K R)
    (hn : 1 ≤ A.nrows) (hsq : A.ncols = A.nrows) (hwf : A.WF) (hnd : ∀ i, ((A.row i).map (·.1)).Nodup)
    (hp : PermOn A.nrows perm)
    (h : factorize (fun v => decide (v = 0)) inv (build (R := R) (fun v => decide (v = 0)) A perm) = .ok S)
    (hpi : PivotsOK (fun v => decide (v = 0)) inv (build (R := R) (fun v => decide (v = 0)) A perm))
    (rhs x : Array R) (hx : x.size = A.nrows) :
    ∀ r, r < A.nrows → ∑ c ∈ range A.nrows, A.get r c • (solve S rhs x).1.getD c 0 = rhs.getD r 0 :=
  SkyNC.construct_solve_spec _ inv A perm S hn hp h hpi A.get
    (fun i j hi hj => (SkyNC.build_emb (R := R) A perm hsq hwf hnd hp i j hi hj).symm) rhs x hx

/-- substitution through the profile alone: any stored factors with `P A Pᵀ = L̃·Ũ` and `pv i * D[i] = 1` -/
theorem skyline_block_substitution (pv : Nat → K) (S : Skyline K R) (A : Nat → Nat → K) (rhs x : Array R)
    (hwf : S.WFProfile) (hp : PermOn S.n S.perm) (hy : S.y.size = S.n) (hx : x.size = S.n)
    (hD : ∀ i, i < S.n → pv i * Dd S i = 1)
    (hfac : ∀ i j, i < S.n → j < S.n →
      A (S.perm.getD i 0) (S.perm.getD j 0) = ∑ m ∈ range S.n, Lt pv S i m * Ut S m j) :
    ∀ r, r < S.n → ∑ c ∈ range S.n, A r c • (solve S rhs x).1.getD c 0 = rhs.getD r 0 :=
  SkyNC.solve_spec pv S A rhs x hwf hp hy hx hD hfac

end solve

/-- **zero pivot block ⟹ `precondition`.**  If the main loop reaches iteration `k` (all earlier pivots had right
inverses) and the Schur complement block `E(k+1,k+1) − Σ_{m≤k} L(k+1,m) * U(m,k+1)` of the storage the factorisation
started from vanishes, `factorize()` ends in the `precondition` outcome; `L`, `U` are the row / column just computed. -/
theorem skyline_block_zero_pivot (inv : K → K) (S Sk : Skyline K R) (k : Nat) (hst : StorageWF S) (hk : k + 1 < S.n)
    (h0 : S.D.getD 0 0 ≠ 0) (hinv0 : S.D.getD 0 0 * inv (S.D.getD 0 0) = 1)
    (hrun : factorLoop (fun v => decide (v = 0)) inv { S with D := S.D.setIfInBounds 0 (inv (S.D.getD 0 0)) } k = .ok Sk)
    (hpi : ∀ k' Sk', k' < k →
      factorLoop (fun v => decide (v = 0)) inv { S with D := S.D.setIfInBounds 0 (inv (S.D.getD 0 0)) } k' = .ok Sk' →
      pivotSum (factorStepLU Sk' k') k' * inv (pivotSum (factorStepLU Sk' k') k') = 1)
    (hz : Emb S (k + 1) (k + 1)
      = ∑ m ∈ range (k + 1), Ld (factorStepLU Sk k) (k + 1) m * Ud (factorStepLU Sk k) m (k + 1)) :
    factorize (fun v => decide (v = 0)) inv S = .precondition := by
  have h1 : CroutState S { S with D := S.D.setIfInBounds 0 (inv (S.D.getD 0 0)) } 1 (fun _ => S.D.getD 0 0) := by
    refine ⟨storageWF_setD S hst _ _, ⟨rfl, rfl, rfl, rfl⟩, ?_⟩
    apply croutInv_init
    · intro i j _ hji; unfold Emb; rw [if_pos hji]; rfl
    · intro i j _ hij; unfold Emb; rw [if_neg (by omega), if_pos hij]; rfl
    · intro i _ hi
      show (S.D.setIfInBounds 0 (inv (S.D.getD 0 0))).getD i 0 = Emb S i i
      rw [Arr2.getD_setIfInBounds_ne _ _ _ (by omega)]
      unfold Emb; rw [if_neg (lt_irrefl i), if_neg (lt_irrefl i)]; rfl
    · show S.D.getD 0 0 = Emb S 0 0
      unfold Emb; rw [if_neg (lt_irrefl 0), if_neg (lt_irrefl 0)]; rfl
    · show S.D.getD 0 0 * (S.D.setIfInBounds 0 (inv (S.D.getD 0 0))).getD 0 0 = 1
      rw [Arr2.getD_setIfInBounds_self _ _ _ (by rw [hst.sizeD]; omega)]
      exact hinv0
  obtain ⟨pv, hstate⟩ := SkyNC.factorLoop_state h1 k (by omega) hpi Sk hrun
  have hschur := SkyNC.pivot_schur hk hstate
  rw [hz, sub_self] at hschur
  rw [factorize_of_pos (by omega), if_neg (by simpa using h0)]
  exact factorLoop_zero_pivot (by omega) hrun (by rw [hschur]; simp)

/-- conversely the `ok` outcome means that no pivot candidate was the zero block (any carrier: `C16.skyline_ok_pivots_nonzero`) -/
theorem skyline_block_ok_pivots_nonzero (inv : K → K) (S S' : Skyline K R) (hn : S.n ≠ 0)
    (h : factorize (fun v => decide (v = 0)) inv S = .ok S') :
    S.D.getD 0 0 ≠ 0 ∧ ∀ k, k < S.n - 1 →
      ∃ Sk, factorLoop (fun v => decide (v = 0)) inv { S with D := S.D.setIfInBounds 0 (inv (S.D.getD 0 0)) } k = .ok Sk ∧
        pivotSum (factorStepLU Sk k) k ≠ 0 := by
  rw [factorize_of_pos hn] at h
  split at h
  · exact absurd h (by simp)
  · rename_i h0
    refine ⟨by simpa using h0, ?_⟩
    intro k hk
    obtain ⟨Sk, h1, h2⟩ := factorLoop_ok_pivots (S.n - 1) S' h k hk
    exact ⟨Sk, h1, by simpa using h2⟩

end ring

/-! ## the instance `static_matrix<T,b,b>`: `K = Matrix (Fin b) (Fin b) F`, `R = Fin b → F`, `V * R = mulVec` -/
section matrix
variable {b : Nat} {F : Type}
attribute [local instance] mulVecHMul

/-- **`skyline_lu<static_matrix<T,b,b>>` solves the block system**: `Σ_c A(r,c) *ᵥ x_c = b_r` for every block row,
for blocks over any ring `F` (the block ring `Matrix (Fin b) (Fin b) F` is not commutative for `b ≥ 2`). -/
theorem skyline_block_solve_matrix [Ring F] [DecidableEq F] (inv : Matrix (Fin b) (Fin b) F → Matrix (Fin b) (Fin b) F)
    (A : CRS (Matrix (Fin b) (Fin b) F)) (perm : Array Nat) (S : Skyline (Matrix (Fin b) (Fin b) F) (Fin b → F))
    (hn : 1 ≤ A.nrows) (hsq : A.ncols = A.nrows) (hwf : A.WF) (hnd : ∀ i, ((A.row i).map (·.1)).Nodup)
    (hp : PermOn A.nrows perm)
    (h : factorize (fun v => decide (v = 0)) inv (build (R := Fin b → F) (fun v => decide (v = 0)) A perm) = .ok S)
    (hpi : PivotsOK (fun v => decide (v = 0)) inv (build (R := Fin b → F) (fun v => decide (v = 0)) A perm))
    (rhs x : Array (Fin b → F)) (hx : x.size = A.nrows) :
    ∀ r, r < A.nrows →
      ∑ c ∈ range A.nrows, (A.get r c).mulVec ((solve S rhs x).1.getD c 0) = rhs.getD r 0 :=
  letI := matVecModule b F
  skyline_block_solve inv A perm S hn hsq hwf hnd hp h hpi rhs x hx

/-- the factorisation at block values -/
theorem skyline_block_factor_matrix [Ring F] [DecidableEq F] (inv : Matrix (Fin b) (Fin b) F → Matrix (Fin b) (Fin b) F)
    (A : CRS (Matrix (Fin b) (Fin b) F)) (perm : Array Nat) (S : Skyline (Matrix (Fin b) (Fin b) F) (Fin b → F))
    (hn : 1 ≤ A.nrows) (hsq : A.ncols = A.nrows) (hwf : A.WF) (hnd : ∀ i, ((A.row i).map (·.1)).Nodup)
    (hp : PermOn A.nrows perm)
    (h : factorize (fun v => decide (v = 0)) inv (build (R := Fin b → F) (fun v => decide (v = 0)) A perm) = .ok S)
    (hpi : PivotsOK (fun v => decide (v = 0)) inv (build (R := Fin b → F) (fun v => decide (v = 0)) A perm)) :
    ∃ pv : Nat → Matrix (Fin b) (Fin b) F, (∀ i, i < A.nrows → pv i * Dd S i = 1) ∧
      ∀ i j, i < A.nrows → j < A.nrows →
        A.get (perm.getD i 0) (perm.getD j 0) = ∑ m ∈ range A.nrows, Lt pv S i m * Ut S m j :=
  (skyline_block_factor inv A perm S hn hsq hwf hnd hp h hpi).2.2.2

/-- with the Mathlib inverse (blocks over a commutative ring): it suffices that the pivots that occur have unit
determinant -/
theorem skyline_block_pivotsOK_nonsing_inv [CommRing F] {R : Type} (isZero : Matrix (Fin b) (Fin b) F → Bool)
    (S : Skyline (Matrix (Fin b) (Fin b) F) R) (h0 : IsUnit (S.D.getD 0 0).det)
    (hk : ∀ k Sk, k < S.n - 1 →
      factorLoop isZero (fun a => a⁻¹) { S with D := S.D.setIfInBounds 0 ((S.D.getD 0 0)⁻¹) } k = .ok Sk →
      IsUnit (pivotSum (factorStepLU Sk k) k).det) :
    PivotsOK isZero (fun a => a⁻¹) S := pivotsOK_nonsing_inv isZero S h0 hk

end matrix

/-! ## `static_matrix` arithmetic over a NON-COMMUTATIVE entry ring

The `sm_*_spec` theorems of `Properties/C16.lean` assume a commutative entry ring.  All of them except the scalar
multiple hold verbatim over any ring (`static_matrix<static_matrix<..>>`-like nestings, quaternion entries);
`operator*=(scalar)` multiplies the entries from the RIGHT, so it denotes `a ↦ a·c` entrywise, which is `c • a` only in
the commutative case. -/
section staticMatrixNC
variable {K : Type} [Ring K] {N P M L : Nat}

theorem sm_add_spec_nc (a b : SMat K N M) : (a + b).toMatrix = a.toMatrix + b.toMatrix := SMatNC.toMatrix_add a b
theorem sm_sub_spec_nc (a b : SMat K N M) : (a - b).toMatrix = a.toMatrix - b.toMatrix := SMatNC.toMatrix_sub a b
theorem sm_neg_spec_nc (a : SMat K N M) : (-a).toMatrix = -a.toMatrix := SMatNC.toMatrix_neg a
theorem sm_mul_spec_nc (a : SMat K N P) (b : SMat K P M) : (a * b).toMatrix = a.toMatrix * b.toMatrix := SMatNC.toMatrix_mul a b
theorem sm_zero_spec_nc : (0 : SMat K N M).toMatrix = 0 := SMatNC.toMatrix_zero
theorem sm_identity_spec_nc : (SMat.identity : SMat K N N).toMatrix = 1 := SMatNC.toMatrix_identity
theorem sm_adjoint_spec_nc (conj : K → K) (a : SMat K N M) :
    (SMat.adjoint conj a).toMatrix = a.toMatrix.transpose.map conj := SMatNC.toMatrix_adjoint conj a
/-- the scalar multiple scales from the right -/
theorem sm_smul_spec_nc (c : K) (a : SMat K N M) : (SMat.smul c a).toMatrix = a.toMatrix.map (· * c) :=
  SMatNC.toMatrix_smul c a

/-- `(ab)c = a(bc)` as an equality of buffers, entries in any ring -/
theorem sm_mul_assoc_nc (a : SMat K N P) (b : SMat K P M) (c : SMat K M L) : (a * b) * c = a * (b * c) := by
  apply SMat.ext_of_toMatrix (SMatNC.wf_mul _ _) (SMatNC.wf_mul _ _)
  rw [sm_mul_spec_nc, sm_mul_spec_nc, sm_mul_spec_nc, sm_mul_spec_nc, Matrix.mul_assoc]

theorem sm_mul_sub_nc (a : SMat K N P) (b c : SMat K P M) : a * (b - c) = a * b - a * c := by
  apply SMat.ext_of_toMatrix (SMatNC.wf_mul _ _) (SMatNC.wf_sub _ _)
  rw [sm_mul_spec_nc, sm_sub_spec_nc, sm_sub_spec_nc, sm_mul_spec_nc, sm_mul_spec_nc, Matrix.mul_sub]

theorem sm_sub_mul_nc (a b : SMat K N P) (c : SMat K P M) : (a - b) * c = a * c - b * c := by
  apply SMat.ext_of_toMatrix (SMatNC.wf_mul _ _) (SMatNC.wf_sub _ _)
  rw [sm_mul_spec_nc, sm_sub_spec_nc, sm_sub_spec_nc, sm_mul_spec_nc, sm_mul_spec_nc, Matrix.sub_mul]

theorem sm_one_mul_nc (b : SMat K N M) (hb : b.WF) : (SMat.identity : SMat K N N) * b = b := by
  apply SMat.ext_of_toMatrix (SMatNC.wf_mul _ _) hb
  rw [sm_mul_spec_nc, sm_identity_spec_nc, Matrix.one_mul]

theorem sm_mul_one_nc (a : SMat K N M) (ha : a.WF) : a * (SMat.identity : SMat K M M) = a := by
  apply SMat.ext_of_toMatrix (SMatNC.wf_mul _ _) ha
  rw [sm_mul_spec_nc, sm_identity_spec_nc, Matrix.mul_one]

/-- non-vacuity: entries in the non-commutative ring `Matrix (Fin 2) (Fin 2) ℤ` (a 1 x 1 static matrix of blocks) -/
example : ((⟨#[a00]⟩ : SMat B2 1 1) * ⟨#[a01]⟩).toMatrix = (⟨#[a00]⟩ : SMat B2 1 1).toMatrix * (⟨#[a01]⟩ : SMat B2 1 1).toMatrix :=
  sm_mul_spec_nc _ _

end staticMatrixNC

/-! ## the carrier of the driver: `SMat K b b` (array-backed `static_matrix<T,b,b>`) -/
section smat
variable {b : Nat} {K : Type}
attribute [local instance] mulVecHMul smatMul

/-- **the run the driver executes** (`direct_skyb_solve`: the model at `V = SMat K b b`, `R = SMat K b 1`, zero test
`SMat.isZero`, any inverse routine `invS` — the driver passes `SMat.inverse`) **solves the block system.**  The run is
mapped entrywise by `SMat.toMatrix` onto the run at `Matrix (Fin b) (Fin b) K` (`Skyline.factorize_map`, `solve_map`,
`build_mapVal`), to which `skyline_block_solve_matrix` applies; `invS` acts on matrices as
`m ↦ (invS (ofMatrix m)).toMatrix`.  Hypotheses on the input: the stored blocks are well-formed buffers (`b·b` entries);
on the run: `PivotsOKS` — `invS` returns a right inverse (as matrices) of `D[0]` and of every pivot candidate met. -/
theorem skyline_block_solve_smat [Ring K] [DecidableEq K] (invS : SMat K b b → SMat K b b)
    (A : CRS (SMat K b b)) (perm : Array Nat) (S : Skyline (SMat K b b) (SMat K b 1))
    (hn : 1 ≤ A.nrows) (hsq : A.ncols = A.nrows) (hwf : A.WF) (hnd : ∀ i, ((A.row i).map (·.1)).Nodup)
    (hp : PermOn A.nrows perm) (hblk : ∀ i, ∀ cv ∈ A.row i, cv.2.WF)
    (h : factorize SMat.isZero invS (build (R := SMat K b 1) SMat.isZero A perm) = .ok S)
    (hpiS : PivotsOKS invS (build (R := SMat K b 1) SMat.isZero A perm))
    (rhs x : Array (SMat K b 1)) (hx : x.size = A.nrows) :
    ∀ r, r < A.nrows →
      ∑ c ∈ range A.nrows, (A.get r c).toMatrix.mulVec (toVec ((solve S rhs x).1.getD c 0)) = toVec (rhs.getD r 0) := by
  have hb : build (R := Fin b → K) (fun v => decide (v = 0)) (A.mapVal SMat.toMatrix) perm
      = (build (R := SMat K b 1) SMat.isZero A perm).map SMat.toMatrix toVec :=
    build_mapVal SMat.toMatrix toVec SMatNC.toMatrix_zero toVec_zero SMat.isZero _ A perm
      (fun i cv _ => isZero_eq_decide cv.2)
  have hf := factorize_map toVec opHom_toMatrix (testHom_toMatrix invS) (build (R := SMat K b 1) SMat.isZero A perm)
    (build_D_good (fun a : SMat K b b => a.WF) wf_zero SMat.isZero A perm hblk)
  rw [h] at hf
  have hpi : PivotsOK (fun v => decide (v = 0)) (fun m => (invS (ofMatrix m)).toMatrix)
      (build (R := Fin b → K) (fun v => decide (v = 0)) (A.mapVal SMat.toMatrix) perm) := by
    rw [hb]
    exact pivotsOK_of_smat invS _ (build_D_good (fun a : SMat K b b => a.WF) wf_zero SMat.isZero A perm hblk) hpiS
  have hmain := skyline_block_solve_matrix (fun m => (invS (ofMatrix m)).toMatrix) (A.mapVal SMat.toMatrix) perm
    (S.map SMat.toMatrix toVec) (by rw [nrows_mapVal]; exact hn) (by rw [nrows_mapVal]; exact hsq)
    (wf_mapVal _ A hwf) (nodup_mapVal _ A hnd) (by rw [nrows_mapVal]; exact hp) (by rw [hb]; exact hf) hpi
    (rhs.map toVec) (x.map toVec) (by rw [Array.size_map, nrows_mapVal]; exact hx)
  intro r hr
  have := hmain r (by rw [nrows_mapVal]; exact hr)
  rw [nrows_mapVal, solve_map actHom_toVec] at this
  rw [getD_map toVec toVec_zero] at this
  rw [← this]
  apply Finset.sum_congr rfl
  intro c _
  rw [get_mapVal SMat.toMatrix SMatNC.toMatrix_zero (fun a c => SMatNC.toMatrix_add a c), getD_map toVec toVec_zero]

/-- non-vacuity at the driver's carrier: the blocks of `exAB` as buffers, `x` and `y` arbitrary -/
example : ∀ r, r < 2 → ∑ c ∈ range 2,
    (exAS.get r c).toMatrix.mulVec (toVec ((solve exFacS #[⟨#[1, 2]⟩, ⟨#[3, 4]⟩] #[⟨#[9, 9]⟩, ⟨#[9, 9]⟩]).1.getD c 0))
      = toVec ((#[⟨#[1, 2]⟩, ⟨#[3, 4]⟩] : Array (SMat ℤ 2 1)).getD r 0) :=
  skyline_block_solve_smat invS2 exAS #[0, 1] exFacS (by decide) rfl exAS_wf exAS_nodup exB_perm exAS_blocks
    exS_factorize exS_pivotsOK #[⟨#[1, 2]⟩, ⟨#[3, 4]⟩] #[⟨#[9, 9]⟩, ⟨#[9, 9]⟩] rfl

end smat

/-! ## non-vacuity: a 2 x 2 block system whose 2 x 2 integer blocks do not commute -/
section examples
attribute [local instance] mulVecHMul

/-- the blocks of the example do not commute (so no product order of the code is invisible on it) -/
example : a00 * a01 ≠ a01 * a00 ∧ inv2 a00 * a01 ≠ a01 * inv2 a00 := ⟨a00_a01_noncomm, inv_a00_a01_noncomm⟩

example : ∃ pv : Nat → B2, (∀ i, i < 2 → pv i * Dd exFacB i = 1) ∧
    ∀ i j, i < 2 → j < 2 → exAB.get ((#[0, 1] : Array Nat).getD i 0) ((#[0, 1] : Array Nat).getD j 0)
      = ∑ m ∈ range 2, Lt pv exFacB i m * Ut exFacB m j :=
  skyline_block_factor_matrix inv2 exAB #[0, 1] exFacB (by decide) rfl exAB_wf exAB_nodup exB_perm
    exB_factorize exB_pivotsOK

example : ∀ r, r < 2 → ∑ c ∈ range 2,
    (exAB.get r c).mulVec ((solve exFacB #[![1, 2], ![3, 4]] #[![9, 9], ![9, 9]]).1.getD c 0)
      = (#[![1, 2], ![3, 4]] : Array V2).getD r 0 :=
  skyline_block_solve_matrix inv2 exAB #[0, 1] exFacB (by decide) rfl exAB_wf exAB_nodup exB_perm
    exB_factorize exB_pivotsOK #[![1, 2], ![3, 4]] #[![9, 9], ![9, 9]] rfl

/-- `[[a00, a01], [a10, a10 * inv2 a00 * a01]]`: the Schur complement block vanishes -/
example : factorize (fun v : B2 => decide (v = 0)) inv2 exSingB = .precondition :=
  skyline_block_zero_pivot inv2 exSingB _ 0 exSingB_storage (by decide) (by decide) (by decide) rfl
    (by intro k' _ h; omega) exSingB_schur

end examples

end Amgcl.C16d
