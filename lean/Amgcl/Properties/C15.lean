import Amgcl.Proofs.SolverCG
import Amgcl.Proofs.SolverBiCGStab
import Amgcl.Proofs.SolverRichardson
import Amgcl.Model.SolverPreonly
import Amgcl.Proofs.SolverGMRES
import Amgcl.Proofs.SolverFGMRES
import Amgcl.Proofs.SolverLGMRES
import Amgcl.Proofs.SolverGMRESIndep
import Amgcl.Proofs.SolverFGMRESIndep
import Amgcl.Proofs.SolverLGMRESIndep
import Amgcl.Proofs.SolverIDRsIndep
import Amgcl.Proofs.SolverBiCGStabLIndep
import Mathlib.Algebra.Order.Field.Rat
/-!
# C15 — solver objects are reusable; calls do not leak state  (CG, BiCGStab, Richardson, preonly)

The `mutable` work vectors of a solver object (`cg: r,s,p,q`; `bicgstab: r,p,v,s,t,rh,T`; `richardson: r,s`) are an
explicit state component `ws` of the models.  Proved for every field `K`, EVERY matrix (no well-formedness
needed), EVERY function `P`, every `ip`, `sqrt`, parameters, right-hand side and initial guess:

* `*_out_indep_ws`    what a caller observes of a call (returned tuple or exception kind, and the vector `x` — also
                      the partially updated `x` after an exception) does not depend on the content of the work
                      vectors on entry: every work vector is written before it is read (`p`, `v` are read only
                      after the first pass; `spmv`/`axpbypcz` outputs with zero output coefficient never read);
* `*_history_eq_fresh` hence, by induction over the call list, every call of every history on ONE object — through
                      calls with other matrices, preconditioners, right-hand sides, and through calls that threw
                      (their post-exception state is just another `ws`) — returns exactly what a fresh object
                      returns for that call;
* `*_zero_rhs`        `‖f‖ < eps(1)` (and `ns_search` off) ⟹ `x = 0`, zero iterations, reported value `‖f‖` — as the
                      code does; note the threshold is absolute, so a right-hand side with `0 < ‖f‖ < eps(1)` is
                      treated as zero;
* `*_converged_guess_unchanged`  when the initial (preconditioned) residual norm does not exceed
                      `eps = max(tol·norm_rhs, abstol)` the call makes zero passes and returns `x₀` itself (the very
                      array, not `x₀ + P(0)`) with the truthful residual; for BiCGStab this holds for
                      `check_after = false` only — `check_after` is documented as "always do at least one
                      iteration";
* the right-hand side and the system matrix are inputs of a pure function: immutable by construction in the model
  (the harness compares both before/after every real call).

preonly has no work vectors (`Work = Unit`): nothing to prove.  LGMRES (`always_reset = false`) is the documented
exception of the property and belongs to the second work package together with GMRES/FGMRES/IDR(s)/BiCGStab(L).
-/
namespace Amgcl.C15
open Amgcl Amgcl.Solver
set_option linter.unusedSectionVars false

variable {K : Type} [Field K] [DecidableEq K] [LT K] [DecidableLT K]

/-! ### the result of a call does not depend on the incoming work vectors -/

theorem cg_out_indep_ws (prm : CG.Params K) (ip : Vec K → Vec K → K) (sqrt : K → K) (eps : K) (A : CRS K)
    (P : Vec K → Vec K) (ws ws' : CG.Work K) (f x0 : Vec K) :
    (CG.run prm ip sqrt eps A P ws f x0).obs = (CG.run prm ip sqrt eps A P ws' f x0).obs := by
  cases hp : prologue prm.nsSearch ip sqrt eps f with
  | trivial n => rw [CG.run_trivial _ _ _ _ _ _ _ _ _ n hp, CG.run_trivial _ _ _ _ _ _ _ _ _ n hp]; rfl
  | go nf =>
    rw [CG.run_go _ _ _ _ _ _ _ _ _ nf hp, CG.run_go _ _ _ _ _ _ _ _ _ nf hp]
    obtain ⟨h1, _, h3, h4, _⟩ := CG.final_rel prm ip sqrt A P ws ws' f x0 nf
    simp only [Run.obs, h1, h3, h4]

theorem richardson_out_indep_ws (prm : Richardson.Params K) (ip : Vec K → Vec K → K) (sqrt : K → K) (eps : K)
    (A : CRS K) (P : Vec K → Vec K) (ws ws' : Richardson.Work K) (f x0 : Vec K) :
    (Richardson.run prm ip sqrt eps A P ws f x0).obs = (Richardson.run prm ip sqrt eps A P ws' f x0).obs := by
  cases hp : prologue prm.nsSearch ip sqrt eps f with
  | trivial n =>
    rw [Richardson.run_trivial _ _ _ _ _ _ _ _ _ n hp, Richardson.run_trivial _ _ _ _ _ _ _ _ _ n hp]; rfl
  | go nf =>
    rw [Richardson.run_go _ _ _ _ _ _ _ _ _ nf hp, Richardson.run_go _ _ _ _ _ _ _ _ _ nf hp]
    obtain ⟨h1, h2, h3, _⟩ := Richardson.final_rel prm ip sqrt A P ws ws' f x0 nf
    simp only [Run.obs, h1, h2, h3]

/-- BiCGStab, both sides, including calls that end in a `precondition` exception: the exception kind and the
caller's partially updated `x` are independent of the incoming work vectors as well. -/
theorem bicgstab_out_indep_ws (prm : BiCGStab.Params K) (ip : Vec K → Vec K → K) (sqrt : K → K) (eps : K)
    (A : CRS K) (P : Vec K → Vec K) (ws ws' : BiCGStab.Work K) (f x0 : Vec K) :
    (BiCGStab.run prm ip sqrt eps A P ws f x0).obs = (BiCGStab.run prm ip sqrt eps A P ws' f x0).obs := by
  cases hp : prologue prm.nsSearch ip sqrt eps f with
  | trivial n =>
    rw [BiCGStab.run_trivial _ _ _ _ _ _ _ _ _ n hp, BiCGStab.run_trivial _ _ _ _ _ _ _ _ _ n hp]; rfl
  | go nf =>
    rw [BiCGStab.run_go _ _ _ _ _ _ _ _ _ nf hp, BiCGStab.run_go _ _ _ _ _ _ _ _ _ nf hp]
    obtain ⟨he, _, h2, _, _, _, h6, h7, h8, _⟩ := BiCGStab.final_rel prm ip sqrt A P ws ws' f x0 nf
    cases h : BiCGStab.final prm ip sqrt A P ws f x0 nf with
    | mk oe st =>
      cases h' : BiCGStab.final prm ip sqrt A P ws' f x0 nf with
      | mk oe' st' =>
        rw [h, h'] at he h2 h6 h7 h8
        simp only at he h2 h6 h7 h8
        subst he
        cases oe <;> simp only [Run.obs, BiCGStab.repRes, h2, h6, h7, h8]

/-! ### histories on one object equal fresh objects -/

theorem cg_history_eq_fresh (prm : CG.Params K) (ip : Vec K → Vec K → K) (sqrt : K → K) (eps : K)
    (w w0 : CG.Work K) (cs : List (Call K)) :
    history (CG.call prm ip sqrt eps) w cs = cs.map (fun c => (CG.call prm ip sqrt eps w0 c).1) :=
  history_eq_fresh_of_indep _ (fun a b c => cg_out_indep_ws prm ip sqrt eps c.A c.P a b c.f c.x0) w0 w cs

theorem richardson_history_eq_fresh (prm : Richardson.Params K) (ip : Vec K → Vec K → K) (sqrt : K → K) (eps : K)
    (w w0 : Richardson.Work K) (cs : List (Call K)) :
    history (Richardson.call prm ip sqrt eps) w cs
      = cs.map (fun c => (Richardson.call prm ip sqrt eps w0 c).1) :=
  history_eq_fresh_of_indep _ (fun a b c => richardson_out_indep_ws prm ip sqrt eps c.A c.P a b c.f c.x0) w0 w cs

/-- including histories that contain calls ending in an exception: `history` threads the post-exception work
vectors into the next call -/
theorem bicgstab_history_eq_fresh (prm : BiCGStab.Params K) (ip : Vec K → Vec K → K) (sqrt : K → K) (eps : K)
    (w w0 : BiCGStab.Work K) (cs : List (Call K)) :
    history (BiCGStab.call prm ip sqrt eps) w cs
      = cs.map (fun c => (BiCGStab.call prm ip sqrt eps w0 c).1) :=
  history_eq_fresh_of_indep _ (fun a b c => bicgstab_out_indep_ws prm ip sqrt eps c.A c.P a b c.f c.x0) w0 w cs

/-! ### zero right-hand side -/

theorem cg_zero_rhs (prm : CG.Params K) (ip : Vec K → Vec K → K) (sqrt : K → K) (eps : K) (A : CRS K)
    (P : Vec K → Vec K) (ws : CG.Work K) (f x0 : Vec K) (hf : nrm ip sqrt f < eps) (hns : prm.nsSearch = false) :
    CG.run prm ip sqrt eps A P ws f x0 = (.ok (0, nrm ip sqrt f), vclear x0.size, ws) :=
  CG.run_trivial _ _ _ _ _ _ _ _ _ _ ((prologue_trivial _ _ _ _ _ _).mpr ⟨hf, hns, rfl⟩)

theorem richardson_zero_rhs (prm : Richardson.Params K) (ip : Vec K → Vec K → K) (sqrt : K → K) (eps : K)
    (A : CRS K) (P : Vec K → Vec K) (ws : Richardson.Work K) (f x0 : Vec K) (hf : nrm ip sqrt f < eps)
    (hns : prm.nsSearch = false) :
    Richardson.run prm ip sqrt eps A P ws f x0 = (.ok (0, nrm ip sqrt f), vclear x0.size, ws) :=
  Richardson.run_trivial _ _ _ _ _ _ _ _ _ _ ((prologue_trivial _ _ _ _ _ _).mpr ⟨hf, hns, rfl⟩)

theorem bicgstab_zero_rhs (prm : BiCGStab.Params K) (ip : Vec K → Vec K → K) (sqrt : K → K) (eps : K)
    (A : CRS K) (P : Vec K → Vec K) (ws : BiCGStab.Work K) (f x0 : Vec K) (hf : nrm ip sqrt f < eps)
    (hns : prm.nsSearch = false) :
    BiCGStab.run prm ip sqrt eps A P ws f x0 = (.ok (0, nrm ip sqrt f), vclear x0.size, ws) :=
  BiCGStab.run_trivial _ _ _ _ _ _ _ _ _ _ ((prologue_trivial _ _ _ _ _ _).mpr ⟨hf, hns, rfl⟩)

/-- the cleared `x` really is the zero vector of the caller's length -/
theorem cleared_is_zero (n i : Nat) : (vclear n : Vec K).size = n ∧ (vclear n : Vec K).getD i 0 = 0 :=
  ⟨by simp [vclear], vclear_getD n i⟩

/-! ### an initial guess that already satisfies the tolerance is returned unchanged in zero iterations -/

theorem cg_converged_guess_unchanged (prm : CG.Params K) (ip : Vec K → Vec K → K) (sqrt : K → K) (eps : K)
    (A : CRS K) (P : Vec K → Vec K) (ws : CG.Work K) (f x0 : Vec K) (nf : K)
    (hp : prologue prm.nsSearch ip sqrt eps f = .go nf)
    (hconv : ¬ CG.epsTol prm nf < absK (nrm ip sqrt (residual f A x0))) :
    (CG.run prm ip sqrt eps A P ws f x0).obs = (.ok (0, nrm ip sqrt (residual f A x0) / nf), x0) := by
  rw [CG.run_go _ _ _ _ _ _ _ _ _ nf hp]
  have hfin : CG.final prm ip sqrt A P ws f x0 nf = CG.init ip sqrt A ws f x0 (CG.epsTol prm nf) := by
    unfold CG.final CG.loop
    apply loopN_of_not_cond
    simp only [CG.cond, CG.init]
    exact decide_eq_false hconv
  rw [hfin]; rfl

theorem richardson_converged_guess_unchanged (prm : Richardson.Params K) (ip : Vec K → Vec K → K) (sqrt : K → K)
    (eps : K) (A : CRS K) (P : Vec K → Vec K) (ws : Richardson.Work K) (f x0 : Vec K) (nf : K)
    (hp : prologue prm.nsSearch ip sqrt eps f = .go nf)
    (hconv : ¬ Richardson.epsTol prm nf < absK (nrm ip sqrt (residual f A x0))) :
    (Richardson.run prm ip sqrt eps A P ws f x0).obs = (.ok (0, nrm ip sqrt (residual f A x0) / nf), x0) := by
  rw [Richardson.run_go _ _ _ _ _ _ _ _ _ nf hp]
  have hfin : Richardson.final prm ip sqrt A P ws f x0 nf = Richardson.init ip sqrt A ws f x0 := by
    unfold Richardson.final Richardson.loop
    apply loopN_of_not_cond
    simp only [Richardson.cond, Richardson.init]
    exact decide_eq_false hconv
  rw [hfin]; rfl

/-- BiCGStab without `check_after` (with `check_after` the code deliberately makes at least one pass) -/
theorem bicgstab_converged_guess_unchanged (prm : BiCGStab.Params K) (ip : Vec K → Vec K → K) (sqrt : K → K)
    (eps : K) (A : CRS K) (P : Vec K → Vec K) (ws : BiCGStab.Work K) (f x0 : Vec K) (nf : K)
    (hp : prologue prm.nsSearch ip sqrt eps f = .go nf) (hca : prm.checkAfter = false)
    (hconv : ¬ BiCGStab.epsTol prm nf < nrm ip sqrt (BiCGStab.Rf prm.pside P f A x0)) :
    (BiCGStab.run prm ip sqrt eps A P ws f x0).obs
      = (.ok (0, nrm ip sqrt (BiCGStab.Rf prm.pside P f A x0) / nf), x0) := by
  rw [BiCGStab.run_go _ _ _ _ _ _ _ _ _ nf hp]
  have hres : (BiCGStab.init prm ip sqrt A P ws f x0 (BiCGStab.epsTol prm nf)).res
      = nrm ip sqrt (BiCGStab.Rf prm.pside P f A x0) := by
    rw [← BiCGStab.init_r prm ip sqrt A P ws f x0 (BiCGStab.epsTol prm nf)]
    simp [BiCGStab.init, hca]
  have hfin : BiCGStab.final prm ip sqrt A P ws f x0 nf
      = (none, BiCGStab.init prm ip sqrt A P ws f x0 (BiCGStab.epsTol prm nf)) := by
    unfold BiCGStab.final BiCGStab.loop
    apply loopE_of_not_cond
    simp only [BiCGStab.cond, hres]
    exact decide_eq_false hconv
  rw [hfin]
  simp only [Run.obs, BiCGStab.repRes_of_not_ca prm ip sqrt _ hca, hres]
  rfl

/-! ### non-vacuity over `ℚ`: a history of three calls on one BiCGStab object — a two-pass solve, a call on the
zero matrix that throws `Zero omega`, and again the first call — printed by the model equals three fresh calls -/
section nonvacuous

private def A₀ : CRS ℚ := ⟨2, #[[(0, 2), (1, -1)], [(0, -3), (1, 4)]]⟩
private def Z₀ : CRS ℚ := ⟨2, #[[], []]⟩
private def M₀ : CRS ℚ := ⟨2, #[[(0, 1/2)], [(0, 1/8), (1, 1/4)]]⟩
private def biPrm : BiCGStab.Params ℚ :=
  { maxiter := 3, tol := 0, abstol := 0, nsSearch := false, pside := .right, checkAfter := false }
private def c₁ : Call ℚ := ⟨A₀, fun v => spmv 1 M₀ v 0 #[], #[1, 3], #[1, 0]⟩
private def c₂ : Call ℚ := ⟨Z₀, fun v => vcopy v, #[1, 2], #[0, 0]⟩

/-- the second call of the history really ends in an exception, the first makes two passes -/
example : (BiCGStab.call biPrm stdIp id 0 (BiCGStab.Work.fresh 2) c₂).1.1 = .error .zeroOmega := by
  decide +kernel
example : (BiCGStab.call biPrm stdIp id 0 (BiCGStab.Work.fresh 2) c₁).1.1 = .ok (2, 0) := by
  decide +kernel

example : history (BiCGStab.call biPrm stdIp id 0) (BiCGStab.Work.fresh 2) [c₁, c₂, c₁]
    = [c₁, c₂, c₁].map (fun c => (BiCGStab.call biPrm stdIp id 0 (BiCGStab.Work.fresh 2) c).1) :=
  bicgstab_history_eq_fresh biPrm stdIp id 0 _ _ _

/-- zero right-hand side and converged guess are inhabited -/
example : (BiCGStab.run biPrm stdIp id (1/8) A₀ c₁.P (BiCGStab.Work.fresh 2) #[0, 0] #[5, 7]).obs
    = (.ok (0, 0), #[0, 0]) := by decide +kernel
example : (CG.run ({ maxiter := 3, tol := 1/2, abstol := 0, nsSearch := false } : CG.Params ℚ) stdIp id 0 A₀ c₁.P
    (CG.Work.fresh 2) #[2, -3] #[1, 0]).obs = (.ok (0, 0), #[1, 0]) := by decide +kernel

end nonvacuous

/-! ## Second package: GMRES, FGMRES, LGMRES, IDR(s), BiCGStab(L) -/
section second
variable {K : Type} [Field K] [DecidableEq K] [LT K] [DecidableLT K]

/-! ### the result of a call does not depend on the incoming work arrays; histories equal fresh objects

GMRES: the dense work arrays `H` (`(M+1)×M`), `s, cs, sn` (`M+1`) and the vectors `r`, `v[0..M]`; FGMRES: `H, s, cs, sn`,
`v[0..M]`, `z[0..M)`.  Every cell is written before it is read: `s` is filled at the start of each restart cycle,
column `j` of `H` (rows `0..j+1`), `cs[j]`, `sn[j]`, `v[j+1]`, `z[j]` are written in inner iteration `j` and only
columns / entries `< j` written earlier in the SAME cycle are read; the back substitution reads `H(k,i)`, `k ≤ i < j`;
`lin_comb` reads `v[i]` / `z[i]`, `i < j`.  Proved for every matrix, every function `P`, both sides, every content
of the arrays (relational invariant over both loops, `Proofs/SolverGivens.lean`, `Proofs/Solver*GMRESIndep.lean`). -/

theorem gmres_out_indep_ws (prm : GMRES.Params K) (ip : Vec K → Vec K → K) (sqrt : K → K) (eps : K) (A : CRS K)
    (P : Vec K → Vec K) (ws ws' : GMRES.Work K) (f x0 : Vec K) :
    (GMRES.run prm ip sqrt eps A P ws f x0).obs = (GMRES.run prm ip sqrt eps A P ws' f x0).obs :=
  GMRES.run_obs_indep prm ip sqrt eps A P ws ws' f x0

theorem fgmres_out_indep_ws (prm : FGMRES.Params K) (ip : Vec K → Vec K → K) (sqrt : K → K) (eps : K) (A : CRS K)
    (P : Vec K → Vec K) (ws ws' : FGMRES.Work K) (f x0 : Vec K) :
    (FGMRES.run prm ip sqrt eps A P ws f x0).obs = (FGMRES.run prm ip sqrt eps A P ws' f x0).obs :=
  FGMRES.run_obs_indep prm ip sqrt eps A P ws ws' f x0

theorem gmres_history_eq_fresh (prm : GMRES.Params K) (ip : Vec K → Vec K → K) (sqrt : K → K) (eps : K)
    (w w0 : GMRES.Work K) (cs : List (Call K)) :
    history (GMRES.call prm ip sqrt eps) w cs = cs.map (fun c => (GMRES.call prm ip sqrt eps w0 c).1) :=
  history_eq_fresh_of_indep _ (fun a b c => gmres_out_indep_ws prm ip sqrt eps c.A c.P a b c.f c.x0) w0 w cs

theorem fgmres_history_eq_fresh (prm : FGMRES.Params K) (ip : Vec K → Vec K → K) (sqrt : K → K) (eps : K)
    (w w0 : FGMRES.Work K) (cs : List (Call K)) :
    history (FGMRES.call prm ip sqrt eps) w cs = cs.map (fun c => (FGMRES.call prm ip sqrt eps w0 c).1) :=
  history_eq_fresh_of_indep _ (fun a b c => fgmres_out_indep_ws prm ip sqrt eps c.A c.P a b c.f c.x0) w0 w cs

/-! ### LGMRES — the documented exception, made precise

With `always_reset = false` the augmentation vectors (`outer_v`, pointing into `outer_v_data`) survive the call by
design.  `lgmres_out_indep_of_aug` shows that they are the ONLY state that leaks: two objects whose augmentation
buffers agree (same slot list, same vectors in the listed slots) return the same result, whatever the other work
arrays (`H, H0, s, cs, sn, r, vs[], ws[]`, unlisted slots) contain.  With `always_reset = true` the buffer is emptied
first, hence `lgmres_reset_indep`.  `0 < M + K` excludes the configuration `M = K = 0` in which the real code
indexes an empty buffer (the driver requires `M ≥ 1`); `CBuf.WF` (`size ≤ capacity`, `start = 0` until full) is the
representation invariant of `circular_buffer`, true of a fresh object and preserved by every call
(`LGMRES.run_aug_preserved`). -/

theorem lgmres_out_indep_of_aug (prm : LGMRES.Params K) (hM : 0 < prm.MM) (ip : Vec K → Vec K → K) (sqrt : K → K)
    (eps : K) (A : CRS K) (P : Vec K → Vec K) (ws ws' : LGMRES.Work K) (f x0 : Vec K)
    (hov : ws.ov = ws'.ov) (hwf : LGMRES.CBuf.WF prm.K' ws.ov)
    (hod : ∀ slot, slot ∈ ws.ov.buf → ws.odata.get slot = ws'.odata.get slot) :
    (LGMRES.run prm ip sqrt eps A P ws f x0).obs = (LGMRES.run prm ip sqrt eps A P ws' f x0).obs :=
  LGMRES.run_obs_indep_of_aug prm hM ip sqrt eps A P ws ws' f x0 hov hwf hod

/-- **LGMRES with `always_reset = true`: the result of a call does not depend on the incoming work space** -/
theorem lgmres_reset_indep (prm : LGMRES.Params K) (hM : 0 < prm.MM) (har : prm.alwaysReset = true)
    (ip : Vec K → Vec K → K) (sqrt : K → K) (eps : K) (A : CRS K) (P : Vec K → Vec K)
    (ws ws' : LGMRES.Work K) (f x0 : Vec K) :
    (LGMRES.run prm ip sqrt eps A P ws f x0).obs = (LGMRES.run prm ip sqrt eps A P ws' f x0).obs :=
  LGMRES.run_obs_indep_reset prm hM har ip sqrt eps A P ws ws' f x0

theorem lgmres_history_eq_fresh_reset (prm : LGMRES.Params K) (hM : 0 < prm.MM) (har : prm.alwaysReset = true)
    (ip : Vec K → Vec K → K) (sqrt : K → K) (eps : K) (w w0 : LGMRES.Work K) (cs : List (Call K)) :
    history (LGMRES.call prm ip sqrt eps) w cs = cs.map (fun c => (LGMRES.call prm ip sqrt eps w0 c).1) :=
  LGMRES.history_eq_fresh_reset prm hM har ip sqrt eps w w0 cs

/-- the reuse statement that IS true for `always_reset = false`: histories on two objects with the same
augmentation state are equal (everything else the objects carry is irrelevant) -/
theorem lgmres_history_eq_of_aug (prm : LGMRES.Params K) (hM : 0 < prm.MM) (ip : Vec K → Vec K → K) (sqrt : K → K)
    (eps : K) (w w' : LGMRES.Work K) (cs : List (Call K)) (h : LGMRES.AugRel prm.K' w w') :
    history (LGMRES.call prm ip sqrt eps) w cs = history (LGMRES.call prm ip sqrt eps) w' cs :=
  LGMRES.history_eq_of_aug prm hM ip sqrt eps w w' cs h

/-! ### IDR(s): `M, f, c`, `r, v, t, x_s, r_s`, `G[0..s)`, `U[0..s)` — `G`, `U`, `M` are re-initialised on entry, `f` at
the top of every pass, `c[i]` (`k ≤ i < s`) is written before `c[j]` (`k ≤ j < i`) is read; including the two
exception paths.  The shadow space `P` belongs to the object (constructor) and is the same in both runs. -/

theorem idrs_out_indep_ws (prm : IDRs.Params K) (ip : Vec K → Vec K → K) (sqrt : K → K) (eps : K) (A : CRS K)
    (Prec : Vec K → Vec K) (Pv : FArr (Vec K)) (ws ws' : IDRs.Work K) (f x0 : Vec K) :
    (IDRs.run prm ip sqrt eps A Prec Pv ws f x0).obs = (IDRs.run prm ip sqrt eps A Prec Pv ws' f x0).obs :=
  IDRs.run_obs_indep prm ip sqrt eps A Prec Pv ws ws' f x0

theorem idrs_history_eq_fresh (prm : IDRs.Params K) (ip : Vec K → Vec K → K) (sqrt : K → K) (eps : K)
    (Pv : FArr (Vec K)) (w w0 : IDRs.Work K) (cs : List (Call K)) :
    history (IDRs.call prm ip sqrt eps Pv) w cs = cs.map (fun c => (IDRs.call prm ip sqrt eps Pv w0 c).1) :=
  IDRs.history_eq_fresh prm ip sqrt eps Pv w w0 cs

theorem idrs_zero_rhs (prm : IDRs.Params K) (ip : Vec K → Vec K → K) (sqrt : K → K) (eps : K) (A : CRS K)
    (Prec : Vec K → Vec K) (Pv : FArr (Vec K)) (ws : IDRs.Work K) (f x0 : Vec K)
    (hf : nrmA ip sqrt f < eps) (hns : prm.nsSearch = false) :
    IDRs.run prm ip sqrt eps A Prec Pv ws f x0 = (.ok (0, nrmA ip sqrt f), vclear x0.size, ws) :=
  IDRs.run_zero_rhs prm ip sqrt eps A Prec Pv ws f x0 hf hns

/-- IDR(s) tests `res_norm <= eps` on entry (non-strict, unlike the GMRES family) -/
theorem idrs_converged_guess_unchanged (prm : IDRs.Params K) (ip : Vec K → Vec K → K) (sqrt : K → K) (eps : K)
    (A : CRS K) (Prec : Vec K → Vec K) (Pv : FArr (Vec K)) (ws : IDRs.Work K) (f x0 : Vec K) (nf : K)
    (hp : prologueA prm.nsSearch ip sqrt eps f = .go nf)
    (hconv : ¬ IDRs.epsTol prm nf < nrmA ip sqrt (residual f A x0)) :
    (IDRs.run prm ip sqrt eps A Prec Pv ws f x0).obs = (.ok (0, nrmA ip sqrt (residual f A x0) / nf), x0) :=
  IDRs.run_converged_guess prm ip sqrt eps A Prec Pv ws f x0 nf hp hconv


/-! ### BiCGStab(L): `Rt, X, B, T, R[0..L], U[0..L], MZa, MZb, Y0, YL` and the `QR` object's `tau, f` — `B, R[0], Rt, X, U[0]`
are set on entry, `U[i], R[i]` (`1 ≤ i ≤ j`) are written by `preconditioner::spmv` earlier in the SAME pass (and in the
very first step `beta = 0`, so `axpby(1, R[i], −beta, U[i])` does not read `U[i]`), `MZa` is rebuilt from `R[0..L]`,
`MZb` copied, `QR.solve` overwrites `tau[0..k)`, `f[0..rows)` and the solution cells before reading them; including
the three exception paths. -/

theorem bicgstabl_out_indep_ws (prm : BiCGStabL.Params K) (ip : Vec K → Vec K → K) (sqrt : K → K) (eps c07 : K)
    (A : CRS K) (P : Vec K → Vec K) (ws ws' : BiCGStabL.Work K) (f x0 : Vec K) :
    (BiCGStabL.run prm ip sqrt eps c07 A P ws f x0).obs = (BiCGStabL.run prm ip sqrt eps c07 A P ws' f x0).obs :=
  BiCGStabL.run_obs_indep prm ip sqrt eps c07 A P ws ws' f x0

theorem bicgstabl_history_eq_fresh (prm : BiCGStabL.Params K) (ip : Vec K → Vec K → K) (sqrt : K → K) (eps c07 : K)
    (w w0 : BiCGStabL.Work K) (cs : List (Call K)) :
    history (BiCGStabL.call prm ip sqrt eps c07) w cs
      = cs.map (fun c => (BiCGStabL.call prm ip sqrt eps c07 w0 c).1) :=
  BiCGStabL.history_eq_fresh prm ip sqrt eps c07 w w0 cs

theorem bicgstabl_zero_rhs (prm : BiCGStabL.Params K) (ip : Vec K → Vec K → K) (sqrt : K → K) (eps c07 : K)
    (A : CRS K) (P : Vec K → Vec K) (ws : BiCGStabL.Work K) (f x0 : Vec K) (hf : nrm ip sqrt f < eps)
    (hns : prm.nsSearch = false) :
    BiCGStabL.run prm ip sqrt eps c07 A P ws f x0 = (.ok (0, nrm ip sqrt f), vclear x0.size, ws) :=
  BiCGStabL.run_zero_rhs prm ip sqrt eps c07 A P ws f x0 hf hns

/-- BiCGStab(L) has no entry test; a converged guess fails the loop guard `zeta >= eps` at once and the code then
executes `done:` — it returns `x₀ + 0` (left) resp. `x₀ + P(0)` (right), which is `x₀` when `P 0 = 0` (every linear
`P`) and `x₀` has the system's length. -/
theorem bicgstabl_converged_guess_unchanged (prm : BiCGStabL.Params K) (ip : Vec K → Vec K → K) (sqrt : K → K)
    (eps c07 : K) (A : CRS K) (P : Vec K → Vec K) (ws : BiCGStabL.Work K) (f x0 : Vec K) (nf : K)
    (hp : prologue prm.nsSearch ip sqrt eps f = .go nf)
    (hconv : nrm ip sqrt (BiCGStab.Rf prm.pside P f A x0) < BiCGStabL.epsTol prm nf)
    (hx0 : x0.size = (BiCGStab.Rf prm.pside P f A x0).size)
    (hP0 : P (vclear (BiCGStab.Rf prm.pside P f A x0).size) = vclear (BiCGStab.Rf prm.pside P f A x0).size) :
    (BiCGStabL.run prm ip sqrt eps c07 A P ws f x0).obs
      = (.ok (0, nrm ip sqrt (BiCGStab.Rf prm.pside P f A x0) / nf), x0) := by
  have h1 := (BiCGStabL.run_converged_guess prm ip sqrt eps c07 A P ws f x0 nf hp hconv).1
  have h2 := BiCGStabL.run_converged_guess_x prm ip sqrt eps c07 A P ws f x0 nf hp hconv hx0 hP0
  simp only [Run.obs, Run.out, Run.x] at *
  rw [h1, h2]


/-! ### zero right-hand side (`‖f‖ < eps(1)`, `ns_search` off): `x = 0`, zero iterations, the work arrays untouched -/

theorem gmres_zero_rhs (prm : GMRES.Params K) (ip : Vec K → Vec K → K) (sqrt : K → K) (eps : K) (A : CRS K)
    (P : Vec K → Vec K) (ws : GMRES.Work K) (f x0 : Vec K) (hf : nrmA ip sqrt f < eps)
    (hns : prm.nsSearch = false) :
    GMRES.run prm ip sqrt eps A P ws f x0 = (.ok (0, nrmA ip sqrt f), vclear x0.size, ws) :=
  GMRES.run_trivial _ _ _ _ _ _ _ _ _ _ ((prologueA_trivial _ _ _ _ _ _).mpr ⟨hf, hns, rfl⟩)

theorem fgmres_zero_rhs (prm : FGMRES.Params K) (ip : Vec K → Vec K → K) (sqrt : K → K) (eps : K) (A : CRS K)
    (P : Vec K → Vec K) (ws : FGMRES.Work K) (f x0 : Vec K) (hf : nrmA ip sqrt f < eps)
    (hns : prm.nsSearch = false) :
    FGMRES.run prm ip sqrt eps A P ws f x0 = (.ok (0, nrmA ip sqrt f), vclear x0.size, ws) :=
  FGMRES.run_trivial _ _ _ _ _ _ _ _ _ _ ((prologueA_trivial _ _ _ _ _ _).mpr ⟨hf, hns, rfl⟩)

/-- (with `always_reset` the call has nevertheless dropped the augmentation vectors: `outer_v.clear()` is the first
statement of `operator()`) -/
theorem lgmres_zero_rhs (prm : LGMRES.Params K) (ip : Vec K → Vec K → K) (sqrt : K → K) (eps : K) (A : CRS K)
    (P : Vec K → Vec K) (ws : LGMRES.Work K) (f x0 : Vec K) (hf : nrmA ip sqrt f < eps)
    (hns : prm.nsSearch = false) :
    LGMRES.run prm ip sqrt eps A P ws f x0 = (.ok (0, nrmA ip sqrt f), vclear x0.size, LGMRES.reset prm ws) :=
  LGMRES.run_trivial _ _ _ _ _ _ _ _ _ _ ((prologueA_trivial _ _ _ _ _ _).mpr ⟨hf, hns, rfl⟩)

/-! ### an initial guess that already satisfies the tolerance (`norm_r < eps`) is returned unchanged in zero
iterations with its true residual — the very array `x₀`, no `x₀ + P(0)` is formed -/

theorem gmres_converged_guess_unchanged (prm : GMRES.Params K) (ip : Vec K → Vec K → K) (sqrt : K → K) (eps : K)
    (A : CRS K) (P : Vec K → Vec K) (ws : GMRES.Work K) (f x0 : Vec K) (nf : K)
    (hp : prologueA prm.nsSearch ip sqrt eps f = .go nf)
    (hconv : nrmA ip sqrt (BiCGStab.Rf prm.pside P f A x0) < GMRES.epsTol prm nf ∨ prm.maxiter = 0) :
    (GMRES.run prm ip sqrt eps A P ws f x0).obs
      = (.ok (0, nrmA ip sqrt (BiCGStab.Rf prm.pside P f A x0) / nf), x0) := by
  rw [GMRES.run_go _ _ _ _ _ _ _ _ _ nf hp]
  have hn : (GMRES.init prm ip sqrt A P ws f x0).normR = nrmA ip sqrt (BiCGStab.Rf prm.pside P f A x0) := by
    unfold GMRES.init; rw [GMRES.head_normR]
  have hstop : GMRES.stop prm.maxiter (GMRES.epsTol prm nf) (GMRES.init prm ip sqrt A P ws f x0) = true := by
    simp only [GMRES.stop, Bool.or_eq_true, decide_eq_true_eq, hn, GMRES.init_iter]
    rcases hconv with h | h
    · exact Or.inl h
    · exact Or.inr (by omega)
  rw [GMRES.final_of_stop prm ip sqrt A P ws f x0 nf hstop]
  simp only [Run.obs, GMRES.init_iter, GMRES.init_x, hn]

theorem fgmres_converged_guess_unchanged (prm : FGMRES.Params K) (ip : Vec K → Vec K → K) (sqrt : K → K) (eps : K)
    (A : CRS K) (P : Vec K → Vec K) (ws : FGMRES.Work K) (f x0 : Vec K) (nf : K)
    (hp : prologueA prm.nsSearch ip sqrt eps f = .go nf)
    (hconv : nrmA ip sqrt (residual f A x0) < FGMRES.epsTol prm nf ∨ prm.maxiter = 0) :
    (FGMRES.run prm ip sqrt eps A P ws f x0).obs = (.ok (0, nrmA ip sqrt (residual f A x0) / nf), x0) := by
  rw [FGMRES.run_go _ _ _ _ _ _ _ _ _ nf hp]
  have hn : (FGMRES.init ip sqrt A ws f x0).normR = nrmA ip sqrt (residual f A x0) := rfl
  have hstop : FGMRES.stop prm.maxiter (FGMRES.epsTol prm nf) (FGMRES.init ip sqrt A ws f x0) = true := by
    simp only [FGMRES.stop, Bool.or_eq_true, decide_eq_true_eq, hn, FGMRES.init_iter]
    rcases hconv with h | h
    · exact Or.inl h
    · exact Or.inr (by omega)
  rw [FGMRES.final_of_stop prm ip sqrt A P ws f x0 nf hstop]
  simp only [Run.obs, FGMRES.init_iter, FGMRES.init_x, hn]

/-- (also for an object that carries augmentation vectors of earlier calls) -/
theorem lgmres_converged_guess_unchanged (prm : LGMRES.Params K) (ip : Vec K → Vec K → K) (sqrt : K → K) (eps : K)
    (A : CRS K) (P : Vec K → Vec K) (ws : LGMRES.Work K) (f x0 : Vec K) (nf : K)
    (hp : prologueA prm.nsSearch ip sqrt eps f = .go nf)
    (hconv : nrmA ip sqrt (BiCGStab.Rf prm.pside P f A x0) < LGMRES.epsTol prm nf ∨ prm.maxiter = 0) :
    (LGMRES.run prm ip sqrt eps A P ws f x0).obs
      = (.ok (0, nrmA ip sqrt (BiCGStab.Rf prm.pside P f A x0) / nf), x0) := by
  rw [LGMRES.run_go _ _ _ _ _ _ _ _ _ nf hp]
  have hn : (LGMRES.init prm ip sqrt A P (LGMRES.reset prm ws) f x0).normR
      = nrmA ip sqrt (BiCGStab.Rf prm.pside P f A x0) := by
    unfold LGMRES.init; rw [LGMRES.head_normR]
  have hstop : LGMRES.stop prm.maxiter (LGMRES.epsTol prm nf)
      (LGMRES.init prm ip sqrt A P (LGMRES.reset prm ws) f x0) = true := by
    simp only [LGMRES.stop, Bool.or_eq_true, decide_eq_true_eq, hn, LGMRES.init_iter]
    rcases hconv with h | h
    · exact Or.inl h
    · exact Or.inr (by omega)
  rw [LGMRES.final_of_stop prm ip sqrt A P _ f x0 nf hstop]
  simp only [Run.obs, LGMRES.init_iter, LGMRES.init_x, hn]

end second

/-! ### non-vacuity (second package) and the documented exception, over `ℚ`

`sqrt := fun _ => 1` keeps the numbers small (the theorems hold for every function `sqrt`). -/
section nonvacuous2

private def B₀ : CRS ℚ := ⟨2, #[[(0, 2), (1, 1)], [(0, 1), (1, 3)]]⟩
private def d₁ : Call ℚ := ⟨B₀, fun v => vcopy v, #[1, 3], #[0, 0]⟩
private def d₂ : Call ℚ := ⟨A₀, fun v => spmv 1 M₀ v 0 #[], #[1, 3], #[1, 0]⟩
private def gmPrm : GMRES.Params ℚ :=
  { maxiter := 3, tol := 0, abstol := 0, nsSearch := false, M := 2, pside := .right }
private def lgPrm (reset : Bool) : LGMRES.Params ℚ :=
  { maxiter := 2, tol := 0, abstol := 0, nsSearch := false, M := 1, K' := 1, alwaysReset := reset, pside := .right }

/-- a history of three GMRES(2) calls (each restarts once) on one object equals three fresh calls -/
example : history (GMRES.call gmPrm stdIp (fun _ => 1) 0) (GMRES.Work.fresh 2) [d₁, d₂, d₁]
    = [d₁, d₂, d₁].map (fun c => (GMRES.call gmPrm stdIp (fun _ => 1) 0 (GMRES.Work.fresh 2) c).1) :=
  gmres_history_eq_fresh gmPrm stdIp (fun _ => 1) 0 _ _ _
example : (GMRES.call gmPrm stdIp (fun _ => 1) 0 (GMRES.Work.fresh 2) d₁).1.1 = .ok (3, 1) := by decide +kernel

/-- **LGMRES with `always_reset = false` is the documented exception of the property**: the SAME call made twice on
one object returns two different vectors `x` — the second call augments its Krylov space with the update of the
first one (`outer_v` survives the call). -/
example : ((history (LGMRES.call (lgPrm false) stdIp (fun _ => 1) 0) (LGMRES.Work.fresh 2) [d₁, d₁]).map (·.2))
    = [#[166968037230485/5843854536360724, 500901435020825/5843854536360724],
       #[960969622406369773212596725137206215/33633937140973941234058135626309199181,
         2882908868771428725685183823482091680/33633937140973941234058135626309199181]] := by decide +kernel

/-- … whereas with `always_reset = true` both calls return the same vector -/
example : ((history (LGMRES.call (lgPrm true) stdIp (fun _ => 1) 0) (LGMRES.Work.fresh 2) [d₁, d₁]).map (·.2))
    = [#[166968037230485/5843854536360724, 500901435020825/5843854536360724],
       #[166968037230485/5843854536360724, 500901435020825/5843854536360724]] := by decide +kernel

/-- zero right-hand side and converged guess are inhabited for GMRES -/
example : (GMRES.run gmPrm stdIp id (1/8) B₀ d₁.P (GMRES.Work.fresh 2) #[0, 0] #[5, 7]).obs
    = (.ok (0, 0), #[0, 0]) := by decide +kernel
example : (GMRES.run { gmPrm with tol := 1/2 } stdIp id 0 B₀ d₁.P (GMRES.Work.fresh 2) #[2, 1] #[1, 0]).obs
    = (.ok (0, 0), #[1, 0]) := by decide +kernel

end nonvacuous2

end Amgcl.C15
