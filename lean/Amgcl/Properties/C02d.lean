import Amgcl.Properties.C02c
import Amgcl.Proofs.BridgeSkyline
import Amgcl.Proofs.BridgeMMatrix
import Amgcl.Proofs.BridgeSA
/-!
# C02, part d: the convergence theorem with the model's own coarse solver (skyline LU) plugged in

`C02c.model_amg_spd_contracting_partial` takes the direct coarse solver as a parameter that is exact whenever its
constructor succeeds.  Here that parameter is discharged by the MODEL of `amgcl::solver::skyline_lu`
(`Model/SkylineLU.lean`: profile construction under an ordering, Crout factorisation, forward/backward substitution),
through `C16.skyline_spec`.  The result is a statement about one closed executable model: `Amg.build` (constructor,
`do_init`) with the plain-aggregation model of C04 and the skyline LU model of C16, and `Amg.apply` on it.

The ordering (`cuthill_mckee::get` in the implementation) is a parameter restricted only to be a permutation; the
correspondence harness of C16 checks `isPermB` on what the implementation computes (`C16.isPerm_sound`).
-/
set_option linter.unusedSectionVars false
namespace Amgcl.C02d
open Amgcl Amgcl.Amg Amgcl.Relax Amgcl.Energy Amgcl.Energy.Bridge Matrix

variable {K : Type} [Field K] [LinearOrder K] [IsStrictOrderedRing K] [DecidableEq K]

/-- the constructor outcome of the coarse level: `skyline_lu` is constructed for a non-empty matrix and finds no zero
pivot -/
def skylineBuilt (perm : CRS K → Array Nat) (Ad : CRS K) : Bool := decide (1 ≤ Ad.nrows) && skylineOk perm Ad

/-- the skyline LU model is an exact direct solver on every matrix its constructor accepts -/
theorem skyline_exact_when_built (perm : CRS K → Array Nat) (hperm : ∀ Ad : CRS K, PermOn Ad.nrows (perm Ad))
    (Ad : CRS K) (hok : skylineBuilt perm Ad = true) (hwf : Ad.WF) (hsq : Ad.ncols = Ad.nrows)
    (hnd : Ad.nodupb = true) : DirectExact (skylineDirect perm) Ad := by
  unfold skylineBuilt at hok
  rw [Bool.and_eq_true, decide_eq_true_eq] at hok
  exact skyline_directExact perm Ad hok.1 hsq hwf (K2.nodupb_iff.mp hnd) (hperm Ad) hok.2

/-- **C02 on the closed model**: plain aggregation (C04 model) + Gauss–Seidel / damped Jacobi / SPAI-0 (C06 models) +
skyline LU (C16 model) inside the hierarchy built by the model of `amg`'s constructor: `Amg.apply` is multiplication by
an SPD matrix `B`, independent of the scratch contents, `1 − B A` is strictly `A`-contracting and every (complex)
eigenvalue of it has modulus `< 1`. -/
theorem model_amg_skyline_spd_contracting (r : RealSmoother K) (hr : r.NormOK) (hp : r.proved.ParamOK)
    (norm : K → K) (aprm : AggrParams K) (hbs : aprm.blockSize = 1) (hma : aprm.minAggregate ≤ 1) (nt : Nat)
    (prm : Params) (hnu : prm.npre = prm.npost) (hs : 0 < prm.npre) (hcy : 0 < prm.ncycle) (hpc : 0 < prm.pre_cycles)
    (perm : CRS K → Array Nat) (hperm : ∀ Ad : CRS K, PermOn Ad.nrows (perm Ad))
    (A : CRS K) (hA : A.WF) (hsq : A.ncols = A.nrows) (hAnd : A.nodupb = true)
    (hspd : IsSPD (Bridge.matOf A A.nrows A.nrows)) (ls : List (Level K r.State))
    (hb : build prm (aggregationPolicy norm aprm nt 1) r.model (skylineBuilt perm) A = .ok ls)
    (hQ : LevelMatrices r.proved.Q ls) :
    ∃ B : Matrix (Fin A.nrows) (Fin A.nrows) K, IsSPD B ∧
      Contr (Bridge.matOf A A.nrows A.nrows) (1 - B * Bridge.matOf A A.nrows A.nrows) ∧
      (∀ (scr : List (Scratch K)) (f : Vec K), scr.length = ls.length → f.size = A.nrows →
        vecOf A.nrows (apply prm r.model (skylineDirect perm) ls scr f).1 = B *ᵥ vecOf A.nrows f) ∧
      (∀ {u v : Fin A.nrows → K}, u ≠ 0 ∨ v ≠ 0 → ∀ {a b : K},
        (1 - B * Bridge.matOf A A.nrows A.nrows) *ᵥ u = a • u - b • v →
        (1 - B * Bridge.matOf A A.nrows A.nrows) *ᵥ v = b • u + a • v → a ^ 2 + b ^ 2 < 1) :=
  C02c.model_amg_spd_contracting_partial r hr hp norm aprm hbs hma nt prm hnu hs hcy hpc (skylineBuilt perm)
    (skylineDirect perm) (fun Ad h1 h2 h3 h4 => skyline_exact_when_built perm hperm Ad h1 h2 h3 h4)
    A hA hsq hAnd hspd ls hb hQ


/-! ## M-matrix input: the hypothesis on the coarse level matrices is derived -/

/-- the Galerkin operator of a Z-matrix with non-negative row sums under an aggregation matrix (rows zero or unit
vectors) is again such a matrix, and such matrices are weakly diagonally dominant -/
theorem zrow_galerkin {n m : ℕ} {A : Matrix (Fin n) (Fin n) K} (h : ZRow A) {P : Matrix (Fin n) (Fin m) K}
    (hP : IsAgg P) : ZRow (Pᵀ * A * P) ∧ WeakDD (Pᵀ * A * P) := ⟨h.galerkin hP, (h.galerkin hP).weakDD⟩

/-- every level matrix of the hierarchy that the model constructor builds with the plain-aggregation model is a Z-matrix
with non-negative row sums if the fine matrix is -/
theorem aggregation_levels_zrow {S : Type} (sm : Smoother K S) (norm : K → K) (aprm : AggrParams K)
    (hbs : aprm.blockSize = 1) (hma : aprm.minAggregate ≤ 1) (nt : Nat) (prm : Params) (directOk : CRS K → Bool)
    (A : CRS K) (hA : A.WF) (hsq : A.ncols = A.nrows) (hz : ZRow (Bridge.matOf A A.nrows A.nrows))
    (ls : List (Level K S)) (hb : build prm (aggregationPolicy norm aprm nt 1) sm directOk A = .ok ls) :
    LevelMatrices (fun _ M => ZRow M) ls := by
  have hc := C03.build_chain prm _ sm directOk A ls hb
  refine Chain.levels_zrow (policyOK_aggregation norm aprm hbs hma nt) (policyAgg_aggregation norm aprm hbs hma nt 1)
    hc (sortRows_wf' A hA) (by rw [Amg.sortRows_ncols, Amg.sortRows_nrows]; exact hsq) ?_
  rw [Amg.sortRows_nrows, matOf_sortRows]; exact hz

/-- **C02 for M-matrix input, nothing assumed of the coarse levels**: `A` SPD, off-diagonal entries `≤ 0`, row sums
`≥ 0`; plain aggregation + Gauss–Seidel / damped Jacobi (`0 < ω < 1`) / SPAI-0 + skyline LU, all inside the model of the
constructor: the preconditioner is SPD and the stationary iteration contracts in the `A`-norm. -/
theorem model_amg_mmatrix_spd_contracting (r : RealSmoother K) (hr : r.NormOK) (hp : r.proved.ParamOK)
    (norm : K → K) (aprm : AggrParams K) (hbs : aprm.blockSize = 1) (hma : aprm.minAggregate ≤ 1) (nt : Nat)
    (prm : Params) (hnu : prm.npre = prm.npost) (hs : 0 < prm.npre) (hcy : 0 < prm.ncycle) (hpc : 0 < prm.pre_cycles)
    (perm : CRS K → Array Nat) (hperm : ∀ Ad : CRS K, PermOn Ad.nrows (perm Ad))
    (A : CRS K) (hA : A.WF) (hsq : A.ncols = A.nrows) (hAnd : A.nodupb = true)
    (hspd : IsSPD (Bridge.matOf A A.nrows A.nrows)) (hz : ZRow (Bridge.matOf A A.nrows A.nrows))
    (ls : List (Level K r.State))
    (hb : build prm (aggregationPolicy norm aprm nt 1) r.model (skylineBuilt perm) A = .ok ls) :
    ∃ B : Matrix (Fin A.nrows) (Fin A.nrows) K, IsSPD B ∧
      Contr (Bridge.matOf A A.nrows A.nrows) (1 - B * Bridge.matOf A A.nrows A.nrows) ∧
      (∀ (scr : List (Scratch K)) (f : Vec K), scr.length = ls.length → f.size = A.nrows →
        vecOf A.nrows (apply prm r.model (skylineDirect perm) ls scr f).1 = B *ᵥ vecOf A.nrows f) ∧
      (∀ {u v : Fin A.nrows → K}, u ≠ 0 ∨ v ≠ 0 → ∀ {a b : K},
        (1 - B * Bridge.matOf A A.nrows A.nrows) *ᵥ u = a • u - b • v →
        (1 - B * Bridge.matOf A A.nrows A.nrows) *ᵥ v = b • u + a • v → a ^ 2 + b ^ 2 < 1) := by
  have hz' := aggregation_levels_zrow r.model norm aprm hbs hma nt prm (skylineBuilt perm) A hA hsq hz ls hb
  have hQ : LevelMatrices r.proved.Q ls := by
    cases r with
    | gaussSeidel => exact levelMatrices_true ls
    | dampedJacobi ω => exact hz'.mono fun n M h => h.weakDD
    | spai0 nrm => exact hz'.mono fun n M h => h.weakDD
  exact model_amg_skyline_spd_contracting r hr hp norm aprm hbs hma nt prm hnu hs hcy hpc perm hperm A hA hsq hAnd hspd
    ls hb hQ

/-! ## Smoothed aggregation -/

/-- **smoothed aggregation** (the C04 model of `coarsening::smoothed_aggregation`, `block_size = 1`, per-level parameters
`prmOf` — `eps_strong` is halved from level to level —, fixed or Gershgorin-estimated `omega`): the structural policy
hypotheses hold (`R = transpose P`, `P` well formed, no column stored twice: `Bridge.policyOK_smoothedAggregation`,
`Bridge.policyNodup_smoothedAggregation`), so C02's SPD / contraction clause holds for every hierarchy the model
constructor builds with it — provided every smoothed prolongation of that hierarchy is injective.  Injectivity of
`(I − ω D_f⁻¹ A_f) P_tent` is a property of the VALUES, not of the construction; it is a hypothesis (`hinj`). -/
theorem smoothed_aggregation_built_apply_spd_contracting (r : RealSmoother K) (hr : r.NormOK) (hp : r.proved.ParamOK)
    (norm : K → K) (prmOf : Nat → SAParams K) (hbs : ∀ l, (prmOf l).blockSize = 1)
    (hma : ∀ l, (prmOf l).minAggregate ≤ 1) (nt : Nat)
    (prm : Params) (hnu : prm.npre = prm.npost) (hs : 0 < prm.npre) (hcy : 0 < prm.ncycle) (hpc : 0 < prm.pre_cycles)
    (perm : CRS K → Array Nat) (hperm : ∀ Ad : CRS K, PermOn Ad.nrows (perm Ad))
    (A : CRS K) (hA : A.WF) (hsq : A.ncols = A.nrows) (hAnd : A.nodupb = true)
    (hspd : IsSPD (Bridge.matOf A A.nrows A.nrows)) (ls : List (Level K r.State))
    (hb : build prm (smoothedAggregationPolicy norm prmOf nt) r.model (skylineBuilt perm) A = .ok ls)
    (hinj : ProlongationsInjective ls) (hQ : LevelMatrices r.proved.Q ls) :
    ∃ B : Matrix (Fin A.nrows) (Fin A.nrows) K, IsSPD B ∧
      Contr (Bridge.matOf A A.nrows A.nrows) (1 - B * Bridge.matOf A A.nrows A.nrows) ∧
      ∀ (scr : List (Scratch K)) (f : Vec K), scr.length = ls.length → f.size = A.nrows →
        vecOf A.nrows (apply prm r.model (skylineDirect perm) ls scr f).1 = B *ᵥ vecOf A.nrows f :=
  C02c.built_apply_spd_contracting r hr hp (policyOK_smoothedAggregation norm prmOf hbs hma nt)
    (policyNodup_smoothedAggregation norm prmOf hbs hma nt) prm hnu hs hcy hpc (skylineBuilt perm) (skylineDirect perm)
    (fun Ad h1 h2 h3 h4 => skyline_exact_when_built perm hperm Ad h1 h2 h3 h4) A hA hsq hAnd hspd ls hb hinj hQ

/-! ### non-vacuity: 4-point Laplacian, `coarse_enough = 2`: levels `4 → 2`, the `2 × 2` coarse system `[[2,-1],[-1,2]]`
is factorised by the skyline LU model (identity ordering), W-cycle with 2+2 Gauss–Seidel sweeps -/

/-- the identity ordering -/
def idPerm (Ad : CRS ℚ) : Array Nat := Array.range Ad.nrows

theorem idPerm_permOn (Ad : CRS ℚ) : PermOn Ad.nrows (idPerm Ad) := by
  have hg : ∀ i, i < Ad.nrows → (Array.range Ad.nrows).getD i 0 = i := by
    intro i hi; simp [Array.getD, hi]
  refine ⟨by simp [idPerm], ?_, ?_⟩
  · intro i hi; unfold idPerm; rw [hg i hi]; exact hi
  · intro i j hi hj h; unfold idPerm at h; rw [hg i hi, hg j hj] at h; exact h

def exPrm : Params := { Ex.prm with coarse_enough := 2 }

theorem ex_build_ok : (build exPrm Ex.pol Ex.smGS.model (skylineBuilt idPerm) Ex.A4c).toBool = true := by decide +kernel

theorem ex_build_shape : (match build exPrm Ex.pol Ex.smGS.model (skylineBuilt idPerm) Ex.A4c with
    | .ok ls => ls.map (fun lv => (lv.rows, lv.solve.map CRS.rows))
    | .error _ => []) = [(4, none), (2, some #[[(0, 2), (1, -1)], [(0, -1), (1, 2)]])] := by decide +kernel

example : ∃ ls, build exPrm Ex.pol Ex.smGS.model (skylineBuilt idPerm) Ex.A4c = .ok ls ∧
    ∃ B : Matrix (Fin 4) (Fin 4) ℚ, IsSPD B ∧ Contr (Bridge.matOf Ex.A4c 4 4) (1 - B * Bridge.matOf Ex.A4c 4 4) ∧
      ∀ (scr : List (Scratch ℚ)) (f : Vec ℚ), scr.length = ls.length → f.size = 4 →
        vecOf 4 (apply exPrm Ex.smGS.model (skylineDirect idPerm) ls scr f).1 = B *ᵥ vecOf 4 f := by
  have hok := ex_build_ok
  cases hb : build exPrm Ex.pol Ex.smGS.model (skylineBuilt idPerm) Ex.A4c with
  | error e => rw [hb] at hok; cases hok
  | ok ls =>
    obtain ⟨B, h1, h2, h3, -⟩ := model_amg_skyline_spd_contracting Ex.smGS trivial trivial _ Ex.aprm rfl (by decide) 1
      exPrm rfl (by decide) (by decide) (by decide) idPerm idPerm_permOn
      Ex.A4c Ex.A4c_wf Ex.A4c_sq Ex.A4c_nodup Ex.A4c_spd ls hb (levelMatrices_true ls)
    exact ⟨ls, rfl, B, h1, h2, h3⟩

theorem ex_zrow : ZRow (Bridge.matOf Ex.A4c Ex.A4c.nrows Ex.A4c.nrows) := by
  show ZRow (Bridge.matOf Ex.A4c 4 4)
  rw [Ex.mat_A4c]
  refine ⟨fun i j hij => ?_, fun i => ?_⟩
  · fin_cases i <;> fin_cases j <;> simp_all [Energy.Example.A4]
  · fin_cases i <;> simp [Energy.Example.A4, Fin.sum_univ_four] <;> norm_num

theorem ex_build_ok_jac : (build exPrm Ex.pol Ex.smJac.model (skylineBuilt idPerm) Ex.A4c).toBool = true := by
  decide +kernel

/-- damped Jacobi (`ω = 18/25`) on the M-matrix input: no hypothesis on the coarse level is supplied -/
example : ∃ ls, build exPrm Ex.pol Ex.smJac.model (skylineBuilt idPerm) Ex.A4c = .ok ls ∧
    ∃ B : Matrix (Fin 4) (Fin 4) ℚ, IsSPD B ∧ Contr (Bridge.matOf Ex.A4c 4 4) (1 - B * Bridge.matOf Ex.A4c 4 4) := by
  have hok := ex_build_ok_jac
  cases hb : build exPrm Ex.pol Ex.smJac.model (skylineBuilt idPerm) Ex.A4c with
  | error e => rw [hb] at hok; cases hok
  | ok ls =>
    obtain ⟨B, h1, h2, -, -⟩ := model_amg_mmatrix_spd_contracting Ex.smJac trivial (by constructor <;> norm_num) _
      Ex.aprm rfl (by decide) 1 exPrm rfl (by decide) (by decide) (by decide) idPerm idPerm_permOn
      Ex.A4c Ex.A4c_wf Ex.A4c_sq Ex.A4c_nodup Ex.A4c_spd ex_zrow ls hb
    exact ⟨ls, rfl, B, h1, h2⟩

/-! smoothed aggregation on the same input: `omega = 2/3`, `eps_strong = 0`; `P = [[2/3,0],[2/3,1/3],[1/3,2/3],[0,2/3]]` -/

def exSA : SAParams ℚ := { epsSq := 0, blockSize := 1, minAggregate := 0, relax := 1, omegaScale := 2 / 3 }
def exSAPol : Policy ℚ := smoothedAggregationPolicy (fun x => x) (fun _ => exSA) 1
def exP : CRS ℚ := ⟨2, #[[(0, 2/3)], [(0, 2/3), (1, 1/3)], [(0, 1/3), (1, 2/3)], [(1, 2/3)]]⟩

theorem ex_sa_build : (match build exPrm exSAPol Ex.smGS.model (skylineBuilt idPerm) Ex.A4c with
    | .ok ls => ls.map (fun lv => (lv.rows, lv.P.map CRS.rows))
    | .error _ => []) = [(4, some exP.rows), (2, none)] := by decide +kernel

theorem ex_sa_build_ncols : (match build exPrm exSAPol Ex.smGS.model (skylineBuilt idPerm) Ex.A4c with
    | .ok ls => ls.map (fun lv => (lv.rows, lv.P.map CRS.ncols))
    | .error _ => []) = [(4, some 2), (2, none)] := by decide +kernel

example : ∃ ls, build exPrm exSAPol Ex.smGS.model (skylineBuilt idPerm) Ex.A4c = .ok ls ∧
    ∃ B : Matrix (Fin 4) (Fin 4) ℚ, IsSPD B ∧ Contr (Bridge.matOf Ex.A4c 4 4) (1 - B * Bridge.matOf Ex.A4c 4 4) := by
  have hsh := ex_sa_build
  have hsh2 := ex_sa_build_ncols
  cases hb : build exPrm exSAPol Ex.smGS.model (skylineBuilt idPerm) Ex.A4c with
  | error e => rw [hb] at hsh; cases hsh
  | ok ls =>
    rw [hb] at hsh hsh2
    simp only at hsh hsh2
    have hinj : ProlongationsInjective ls := by
      intro lv hlv P hP n m hn hm w hw
      have hmem : (lv.rows, lv.P.map CRS.rows) ∈ [(4, some exP.rows), ((2 : ℕ), (none : Option (Array (Row ℚ))))] := by
        rw [← hsh]; exact List.mem_map.mpr ⟨lv, hlv, rfl⟩
      have hmem2 : (lv.rows, lv.P.map CRS.ncols) ∈ [(4, some 2), ((2 : ℕ), (none : Option ℕ))] := by
        rw [← hsh2]; exact List.mem_map.mpr ⟨lv, hlv, rfl⟩
      rw [hP] at hmem hmem2
      simp only [List.mem_cons, Prod.mk.injEq, Option.map_some, Option.some.injEq, List.mem_nil_iff, or_false,
        reduceCtorEq, and_false] at hmem hmem2
      have hrows : P.rows = exP.rows := hmem.2
      have hc2 : P.ncols = 2 := hmem2.2
      have hn4 : n = 4 := by rw [← hn]; unfold CRS.nrows; rw [hrows]; rfl
      have hm2 : m = 2 := by rw [← hm, hc2]
      subst hn4; subst hm2
      have hget : ∀ i c, P.get i c = exP.get i c := fun i c => by unfold CRS.get CRS.row; rw [hrows]
      have h0 := congrFun hw ⟨0, by omega⟩
      have h3 := congrFun hw ⟨3, by omega⟩
      have g00 : exP.get 0 0 = 2 / 3 := by decide +kernel
      have g01 : exP.get 0 1 = 0 := by decide +kernel
      have g30 : exP.get 3 0 = 0 := by decide +kernel
      have g31 : exP.get 3 1 = 2 / 3 := by decide +kernel
      simp only [mulVec, dotProduct, matOf_apply, hget, Pi.zero_apply, Fin.sum_univ_two, Fin.val_zero, Fin.val_one,
        g00, g01, g30, g31] at h0 h3
      funext a
      fin_cases a
      · show w 0 = 0; linarith
      · show w 1 = 0; linarith
    obtain ⟨B, h1, h2, -⟩ := smoothed_aggregation_built_apply_spd_contracting Ex.smGS trivial trivial _ (fun _ => exSA)
      (fun _ => rfl) (fun _ => by decide) 1 exPrm rfl (by decide) (by decide) (by decide) idPerm idPerm_permOn
      Ex.A4c Ex.A4c_wf Ex.A4c_sq Ex.A4c_nodup Ex.A4c_spd ls hb hinj (levelMatrices_true ls)
    exact ⟨ls, rfl, B, h1, h2⟩

/-! ## `over_interp ≠ 1`: the contraction clause is FALSE (known finding K02)

`coarsening::aggregation` rescales the Galerkin operator by `1/over_interp` (default `over_interp = 1.5` for scalar, `2`
for block value types).  On two levels the exact coarse solve then over-corrects by the factor `over_interp ≤ 2`, which is
still non-expansive; on deeper hierarchies the inexact coarse solve (the recursive cycle) is over-corrected beyond `2` and
the level above amplifies.  Concrete witness, evaluated by the kernel on the MODEL of the constructor and of `apply` (the
implementation shows the same on the same input — `corpus/C02/h_cycle_K02.ops`, `notes/repro_c02_over_interp.cpp`):
1D Laplacian with 10 unknowns, plain aggregation (`eps_strong = 0`), `over_interp = 1.5` (the value the code uses is
`1/1.5f = 11184811/2^24`), `coarse_enough = 1`: levels `10 → 4 → 2 → 1`, V-cycle, one damped-Jacobi sweep `ω = 1/4`:
for the constant vector `e`, `‖(1 − B A) e‖²_A = 3.3667… > 2 = ‖e‖²_A`. -/
namespace Cx

def A : CRS ℚ := ⟨10, #[[(0,2),(1,-1)], [(0,-1),(1,2),(2,-1)], [(1,-1),(2,2),(3,-1)], [(2,-1),(3,2),(4,-1)],
  [(3,-1),(4,2),(5,-1)], [(4,-1),(5,2),(6,-1)], [(5,-1),(6,2),(7,-1)], [(6,-1),(7,2),(8,-1)], [(7,-1),(8,2),(9,-1)],
  [(8,-1),(9,2)]]⟩
def pol : Policy ℚ :=
  aggregationPolicy (fun x => x) { epsSq := 0, blockSize := 1, minAggregate := 0 } 1 (11184811 / 16777216)
def prm : Params :=
  { coarse_enough := 1, direct_coarse := true, max_levels := 10, npre := 1, npost := 1, ncycle := 1, pre_cycles := 1,
    allow_rebuild := false }
def sm : RealSmoother ℚ := .dampedJacobi (1 / 4)
def ones : Vec ℚ := Array.replicate 10 1
def dot (u v : Vec ℚ) : ℚ := (List.range 10).foldl (fun s i => s + u.getD i 0 * v.getD i 0) 0
/-- `⟨u, A u⟩` with the model's `spmv` -/
def energy (u : Vec ℚ) : ℚ := dot u (spmv 1 A u 0 (vclear 10))
/-- `e − B (A e)` for `e = ones`, with the model's `apply` -/
def Ee (ls : List (Level ℚ sm.State)) : Vec ℚ :=
  vlin 1 ones (-1) (apply prm sm.model Ex.direct ls (freshScratch ls) (spmv 1 A ones 0 (vclear 10))).1

end Cx

/-- kernel evaluation of the model: four levels, and one application of the error operator to the constant vector
INCREASES the energy norm -/
def Cx.check : Bool :=
  match build Cx.prm Cx.pol Cx.sm.model Ex.directOk Cx.A with
  | .ok ls => decide (ls.map Level.rows = [10, 4, 2, 1]) && decide (Cx.energy Cx.ones < Cx.energy (Cx.Ee ls)) &&
      decide ((apply Cx.prm Cx.sm.model Ex.direct ls (freshScratch ls) (spmv 1 Cx.A Cx.ones 0 (vclear 10))).1.size = 10)
  | .error _ => false

theorem over_interp_energy_grows : Cx.check = true := by decide +kernel

theorem Cx.dot_eq (u v : Vec ℚ) : vecOf 10 u ⬝ᵥ vecOf 10 v = Cx.dot u v := by
  simp [dotProduct, Fin.sum_univ_succ, vecOf_apply, Cx.dot, List.range_succ]
  ring

/-- **the contraction clause of C02 fails for plain aggregation with its default `over_interp`**: on the hierarchy the
model constructor builds for `Cx.A`, EVERY matrix `B` that represents `Amg.apply` violates `‖(1 − B A) e‖_A < ‖e‖_A`. -/
theorem over_interp_not_contracting :
    ∃ ls, build Cx.prm Cx.pol Cx.sm.model Ex.directOk Cx.A = .ok ls ∧ ls.length = 4 ∧
      ∀ B : Matrix (Fin 10) (Fin 10) ℚ,
        (∀ f : Vec ℚ, f.size = 10 →
          vecOf 10 (apply Cx.prm Cx.sm.model Ex.direct ls (freshScratch ls) f).1 = B *ᵥ vecOf 10 f) →
        ¬ Contr (Bridge.matOf Cx.A 10 10) (1 - B * Bridge.matOf Cx.A 10 10) := by
  have hk := over_interp_energy_grows
  unfold Cx.check at hk
  cases hb : build Cx.prm Cx.pol Cx.sm.model Ex.directOk Cx.A with
  | error e => rw [hb] at hk; cases hk
  | ok ls =>
    rw [hb] at hk
    simp only [Bool.and_eq_true, decide_eq_true_eq] at hk
    obtain ⟨⟨hrows, hgrow⟩, hx⟩ := hk
    refine ⟨ls, rfl, by simpa using congrArg List.length hrows, fun B hB hC => ?_⟩
    have hcols : ColsLt Cx.A 10 := colsLt_of_wf' (A := Cx.A) (by decide) rfl
    have hAe : ∀ u : Vec ℚ, Bridge.matOf Cx.A 10 10 *ᵥ vecOf 10 u = vecOf 10 (spmv 1 Cx.A u 0 (vclear 10)) :=
      fun u => (vecOf_spmv0 Cx.A (n := 10) rfl hcols u _).symm
    have hne : vecOf 10 Cx.ones ≠ 0 := by
      intro h; have := congrFun h 0; simp [vecOf_apply, Cx.ones] at this
    have hlt := hC (vecOf 10 Cx.ones) hne
    have hE : (1 - B * Bridge.matOf Cx.A 10 10) *ᵥ vecOf 10 Cx.ones = vecOf 10 (Cx.Ee ls) := by
      rw [Matrix.sub_mulVec, Matrix.one_mulVec, ← Matrix.mulVec_mulVec, hAe, ← hB _ (by simp [spmv]; rfl), Cx.Ee,
        vecOf_vlin 1 (-1) _ _ (by simp [Cx.ones]) hx]
      simp [sub_eq_add_neg]
    rw [hE] at hlt
    unfold en at hlt
    rw [hAe, hAe, Cx.dot_eq, Cx.dot_eq] at hlt
    exact absurd hlt (not_lt.mpr (le_of_lt hgrow))

end Amgcl.C02d
