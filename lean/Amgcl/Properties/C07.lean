import Amgcl.Proofs.Primitives
import Amgcl.Proofs.BlockValue
/-!
# C07 — backend vector and matrix-vector primitives equal their algebraic definitions

Only property theorems live here (helper lemmas: `Amgcl/Proofs/Primitives.lean`).

* `*_zero_indep`  : for **every carrier and every interpretation of `+ * -`** (no ring axioms: covers IEEE
  arithmetic with NaN/Inf and the harness' poisoned rationals) a zero output coefficient makes the previous
  content of the output irrelevant.
* `*_spec`        : over any commutative ring the value is the defining formula, for all shapes (rectangular,
  empty rows, unsorted rows, duplicate entries).
* inner product   : the Kahan-compensated serial loop and the per-thread chunked loop both equal `Σ xᵢ·conj yᵢ`
  for every thread count `nt ≥ 1`; conjugate-linearity in the second argument.

* mixed scalar/block : the mixed specialisations (block-valued matrix, scalar vectors reinterpreted as block vectors;
  `Model/BlockValue.lean`) never read an output with a zero coefficient either, and the mixed residual is the mixed SpMV
  with coefficients `(-1, 1)` on the right-hand side `f` (so `f` is the right-hand side and `x` the multiplied vector).

Not proved here (see DESIGN.md §3 C07): that the block SpMV on reinterpreted vectors is the scalar SpMV of the unblocked
matrix is C13's `unblock_spmv`; complex instantiations are tied in through the correspondence harness and the
realification theorems of C13; Eigen / block_crs backends by correspondence only.
-/
namespace Amgcl.C07
open Amgcl Finset

section anyCarrier
set_option linter.unusedSectionVars false
variable {K : Type} [Add K] [Mul K] [Sub K] [Zero K] [One K] [DecidableEq K]

/-- `spmv` with `beta = 0` never reads the old output. -/
theorem spmv_beta_zero_indep (α : K) (A : CRS K) (x y y' : Vec K) :
    spmv α A x 0 y = spmv α A x 0 y' := by simp [spmv]

theorem axpby_zero_indep (a : K) (x y y' : Vec K) : axpby a x 0 y = axpby a x 0 y' := by simp [axpby]

theorem axpbypcz_zero_indep (a b : K) (x y z z' : Vec K) :
    axpbypcz a x b y 0 z = axpbypcz a x b y 0 z' := by simp [axpbypcz]

theorem vmul_zero_indep (a : K) (x y z z' : Vec K) : vmul a x y 0 z = vmul a x y 0 z' := by simp [vmul]

/-- `lin_comb` with `alpha = 0` never reads the old output (for `n ≥ 1` vectors, as the code requires). -/
theorem linComb_zero_indep (cv : K × Vec K) (rest : List (K × Vec K)) (y y' : Vec K) :
    linComb (cv :: rest) 0 y = linComb (cv :: rest) 0 y' := by
  simp [linComb, axpby]

/-- `residual`, `copy`, `clear` have no input/output parameter at all: the model functions do not take the
old output, which is the statement (the harness poisons the output buffer of the real call). -/
theorem residual_size (f : Vec K) (A : CRS K) (x : Vec K) : (residual f A x).size = A.nrows := by
  simp [residual]

end anyCarrier

section ring
set_option linter.unusedSectionVars false
variable {K : Type} [CommRing K] [DecidableEq K]

/-- `y ← α·A·x + β·y`, entry by entry, for every well-formed CRS matrix (any shape, any row order, duplicates add). -/
theorem spmv_spec (α β : K) (A : CRS K) (x y : Vec K) (hA : A.WF) (i : Nat) (hi : i < A.nrows) :
    (spmv α A x β y).getD i 0
      = α * (∑ j ∈ range A.ncols, A.get i j * x.getD j 0) + β * y.getD i 0 := by
  have hrow : ∀ cv ∈ A.row i, cv.1 < A.ncols := by
    intro cv hcv
    apply hA (A.row i) _ cv hcv
    unfold CRS.row CRS.nrows at *
    simp [Array.getD, hi]
  have hd := rowDot_eq_sum (A.row i) x A.ncols hrow
  unfold spmv
  by_cases hb : β = 0
  · rw [if_pos hb, getD_ofFn_lt _ _ _ hi, hd, hb]; unfold CRS.get; ring
  · rw [if_neg hb, getD_ofFn_lt _ _ _ hi, hd]; rfl

theorem spmv_size (α β : K) (A : CRS K) (x y : Vec K) : (spmv α A x β y).size = A.nrows := by
  unfold spmv; split <;> simp

/-- `r ← f − A·x` -/
theorem residual_spec (f : Vec K) (A : CRS K) (x : Vec K) (hA : A.WF) (i : Nat) (hi : i < A.nrows) :
    (residual f A x).getD i 0 = f.getD i 0 - ∑ j ∈ range A.ncols, A.get i j * x.getD j 0 := by
  have hrow : ∀ cv ∈ A.row i, cv.1 < A.ncols := by
    intro cv hcv
    apply hA (A.row i) _ cv hcv
    unfold CRS.row CRS.nrows at *
    simp [Array.getD, hi]
  unfold residual
  rw [getD_ofFn_lt _ _ _ hi, rowDot_eq_sum (A.row i) x A.ncols hrow]; rfl

theorem axpby_spec (a b : K) (x y : Vec K) (i : Nat) (hi : i < x.size) :
    (axpby a x b y).getD i 0 = a * x.getD i 0 + b * y.getD i 0 := by
  unfold axpby
  by_cases hb : b = 0
  · rw [if_pos hb, getD_ofFn_lt _ _ _ hi, hb]; ring
  · rw [if_neg hb, getD_ofFn_lt _ _ _ hi]

theorem axpbypcz_spec (a b c : K) (x y z : Vec K) (i : Nat) (hi : i < x.size) :
    (axpbypcz a x b y c z).getD i 0 = a * x.getD i 0 + b * y.getD i 0 + c * z.getD i 0 := by
  unfold axpbypcz
  by_cases hb : c = 0
  · rw [if_pos hb, getD_ofFn_lt _ _ _ hi, hb]; ring
  · rw [if_neg hb, getD_ofFn_lt _ _ _ hi]

theorem vmul_spec (a b : K) (x y z : Vec K) (i : Nat) (hi : i < x.size) :
    (vmul a x y b z).getD i 0 = a * x.getD i 0 * y.getD i 0 + b * z.getD i 0 := by
  unfold vmul
  by_cases hb : b = 0
  · rw [if_pos hb, getD_ofFn_lt _ _ _ hi, hb]; ring
  · rw [if_neg hb, getD_ofFn_lt _ _ _ hi]

theorem copy_spec (x : Vec K) : vcopy x = x := by
  apply Vec.ext_getD (0 : K) (by simp [vcopy])
  intro i hi
  have hi' : i < x.size := by simpa [vcopy] using hi
  simp [vcopy, getD_ofFn_lt _ _ _ hi']

theorem clear_spec (n i : Nat) : (vclear n : Vec K).getD i 0 = 0 := by
  unfold vclear; rw [getD_ofFn]; split <;> rfl

/-- the Kahan-compensated serial inner product is the plain sum (the compensation term is identically zero
in exact arithmetic) -/
theorem kahan_eq_sum (conj : K → K) (x y : Vec K) :
    innerProductSerial conj x y = ((x.toList.zip y.toList).map (fun p => p.1 * conj p.2)).sum := by
  unfold innerProductSerial; rw [kahan_foldl]; simp

/-- the chunked per-thread inner product equals the serial one for **every** thread count -/
theorem parallel_ip_eq_serial (conj : K → K) (nt : Nat) (hnt : 0 < nt) (x y : Vec K) (hxy : x.size = y.size) :
    innerProductParallel conj nt x y = innerProductSerial conj x y := by
  rw [kahan_eq_sum]
  unfold innerProductParallel
  simp only [staticChunk_eq, kahan_foldl, zero_add]
  have h := chunk_sum ((x.toList.zip y.toList).map (fun p => p.1 * conj p.2)) (bnd x.size nt)
    (bnd_zero _ _) (bnd_mono _ _) nt
  simp only [← List.map_drop, ← List.map_take] at h
  rw [h, bnd_last _ _ hnt, List.take_of_length_le]
  simp [hxy]

/-- hence the dispatching `inner_product` does not depend on the number of threads -/
theorem innerProduct_thread_indep (conj : K → K) (nt nt' : Nat) (h : 0 < nt) (h' : 0 < nt') (x y : Vec K)
    (hxy : x.size = y.size) : innerProduct conj nt x y = innerProduct conj nt' x y := by
  unfold innerProduct
  split <;> split <;> simp [parallel_ip_eq_serial, *]

/-- linear in the first, conjugate-linear in the second argument (for any ring endomorphism `conj`) -/
theorem ip_conj_linear (conj : K →+* K) (a : K) (x y : Vec K) :
    innerProductSerial conj (x.map (a * ·)) y = a * innerProductSerial conj x y
    ∧ innerProductSerial conj x (y.map (a * ·)) = conj a * innerProductSerial conj x y := by
  simp only [kahan_eq_sum, Array.toList_map]
  constructor
  · rw [← List.sum_map_mul_left]
    simp only [List.zip_map_left, List.map_map]
    congr 1; apply List.map_congr_left; intro p _; simp [mul_assoc]
  · rw [← List.sum_map_mul_left]
    simp only [List.zip_map_right, List.map_map]
    congr 1; apply List.map_congr_left; intro p _; simp; ring

end ring

section mixed
set_option linter.unusedSectionVars false

/-- mixed `spmv` (block matrix, scalar vectors) with `beta = 0` never reads the old output — any carrier -/
theorem mixed_spmv_beta_zero_indep {K : Type} [Add K] [Mul K] [Sub K] [Neg K] [Zero K] [DecidableEq K] {b : Nat}
    (α : K) (A : CRS (SMat K b b)) (x y y' : Vec K) : mixedSpmv α A x 0 y = mixedSpmv α A x 0 y' := by
  simp [mixedSpmv, blockSpmv]

/-- mixed `vmul` (vector of blocks, scalar vectors) with `beta = 0` never reads the old output — any carrier -/
theorem mixed_vmul_zero_indep {K : Type} [Add K] [Mul K] [Sub K] [Neg K] [Zero K] [DecidableEq K] {b : Nat}
    (a : K) (X : Vec (SMat K b b)) (y z z' : Vec K) : mixedVmul a X y 0 z = mixedVmul a X y 0 z' := by
  simp [mixedVmul]

/-- the mixed residual is `r = f` followed by `r = (-1)*A*x + 1*r` of the same mixed path: `f` is the right-hand side,
`x` the multiplied vector (backend argument order `residual(rhs, A, x, res)`), for every block matrix and all sizes -/
theorem mixed_residual_eq_spmv {K : Type} [CommRing K] [Nontrivial K] [DecidableEq K] {b : Nat}
    (f : Vec K) (A : CRS (SMat K b b)) (x : Vec K) : mixedResidual f A x = mixedSpmv (-1) A x 1 f :=
  mixedResidual_eq_mixedSpmv f A x

-- non-vacuity / orientation: a 2x2 block [[1,2],[3,4]], f = (10,20), x = (1,1): r = f - A x = (7,13), not x - A f
example : mixedResidual (b := 2) #[(10 : Int), 20] ⟨1, #[[(0, ⟨#[1, 2, 3, 4]⟩)]]⟩ #[1, 1] = #[7, 13] := by decide

end mixed

-- non-vacuity: the hypotheses are satisfiable on a concrete rectangular matrix with an empty row and a duplicate
example : (⟨3, #[[(2, (5 : Int)), (0, 1), (2, -1)], [], [(1, 7)]]⟩ : CRS Int).WF := by
  decide
example : spmv (2 : Int) ⟨3, #[[(2, 5), (0, 1), (2, -1)], [], [(1, 7)]]⟩ #[1, 2, 3] 0 #[9, 9, 9] = #[26, 0, 28] := by decide

end Amgcl.C07
