import Amgcl.Proofs.RelaxScaleCheb
import Amgcl.Proofs.RelaxScaleIlup
import Amgcl.Proofs.RelaxScaleIluk
import Amgcl.Properties.C06
import Amgcl.Proofs.EnergySymIlu
import Amgcl.Proofs.EnergySymCheb
import Amgcl.Proofs.EnergyExample
import Mathlib.Tactic.IntervalCases
/-!
# C02 (scaling clause for the factorisation / polynomial smoothers) — `N(cA) = c⁻¹ N(A)` for ILU(0), ILUP, Chebyshev

Property text: "Multiplying the matrix by a power of two multiplies B by the inverse factor exactly."  `C02b.apply_scale`
reduces this to the per-smoother fact `N(cA) = c⁻¹ N(A)`, which `C02b.smoothers_scale` supplies for damped Jacobi, SPAI-0
and Gauss–Seidel.  This file proves it for the FAITHFUL constructor models of C06 (`Model/RelaxIlu.lean`,
`Model/RelaxIlup.lean`, `Model/RelaxCheb.lean`), by simulation of the run on `A` and the run on `scale A c`
(`backend::scale`: every stored value times `c`) loop iteration by loop iteration (`Proofs/RelaxScale*.lean`):

* **ILU(0)** (`ilu0_scale`): for `c ≠ 0` and sorted rows the constructor has the SAME outcome (missing diagonal / zero
  pivot / success) and on success the stored factors of `c·A` are `L` (unchanged: the multipliers are
  `(w·c)·(D·c⁻¹)`), `c·U`, and `c⁻¹·D` for the stored, i.e. INVERTED, pivots (`scaleFactors`, `scaleFactors_spec`);
  the zero-dropping compaction drops the same entries (`c·v = 0 ↔ v = 0`).  Hence `solve` with the factors of `c·A`
  is `c⁻¹ ·` `solve` with the factors of `A` and the sweep for `(c·A, c·f)` is the sweep for `(A, f)` — i.e.
  `N(cA) = c⁻¹ N(A)`.  Hypothesis the CODE needs: strictly increasing columns in every row (otherwise a duplicate or
  out-of-order column makes an update hit a slot that already holds a multiplier; `C06.ilu0_on_pattern` has the same
  hypothesis, amg.hpp sorts the rows).
* **ILUP** (`ilup_scale`): the symbolic pattern of `A^(k+1)` does not depend on the values at all, the padded matrix of
  `c·A` is `c ·` the padded matrix of `A`; same conclusion for the constructor as written (`ilupFactorW`).
* **Chebyshev** (`cheb_scale_unscaled`, `cheb_scale_scaled`): `spectral_radius<false>(c·A, 0) = |c| ·
  spectral_radius<false>(A, 0)`, so for `c > 0` the ellipse `(c, d)` is multiplied by `c`, every `alpha` by `c⁻¹`,
  `beta` and `p` are equal and `solve` on `(c·A, c·f)` returns the `x` of `solve` on `(A, f)`; with `relax.scale = true`
  the bound of `D⁻¹A` and the ellipse are UNCHANGED for every `c ≠ 0` (any sign) and the stored inverted diagonal is
  multiplied by `c⁻¹` — provided every row stores a non-zero diagonal (`backend::diagonal(A, true)` replaces the
  inverse of a zero by `1`, which does not scale).  For `c < 0` without `scale` the statement is false (`|c| ≠ c`).

* **ILU(k)** (`iluk_scale`): `iluk.hpp` makes no value-dependent decision at all (slots are created by LEVEL, nothing is
  dropped by value — not even an exact zero —, no pivot test), so the level pattern of `c·A` is that of `A` with NO
  hypothesis on the matrix (unsorted rows and duplicates included): same outcome, factors `L`, `c·U`, `c⁻¹·D`.

**Symmetry** (second half of the file): `ilu0_symmetric` — ILU(0) of a symmetric matrix with symmetric stored pattern has
`U = D⁻¹Lᵀ`, a symmetric `M = (I+L)(D⁻¹+U)` and a symmetric sweep matrix `iluN ω F n` (`SweepIs` ties it to the model
sweeps); `cycle_symmetric_struct` — `C02b.B_symmetric` from the structural hypotheses only; `ilu0_cycle_symmetric` — its
instance for ILU(0) hierarchies.  **Hierarchy-level scaling**: `ilu0_apply_scale`, `iluk_apply_scale` — `Hier.scale c h` is
again an ILU hierarchy (its sweep matrices are those of the factors the constructor computes on `scale A_l c`) and
`B(cA) = c⁻¹ B(A)`.

**Open**: the smoothing inequality `Contr A (1 − N A)` for these smoothers; the sweep MATRIX of the Chebyshev array model
(`cheb_symmetric_partial` proves that the recurrence written on matrices keeps symmetry, with and without `relax.scale`; its
identification with `chebSolve` and a hierarchy-level statement for Chebyshev are missing; the sweep-level `cheb_sweep_scale`
is proved); symmetry for ILU(k) / ILUP; `Bridge.Realizes` for the
hierarchies the model `Amg.build` constructs with these smoothers (the statements here are about `Hier` with the sweep
matrices `iluN` of the model factors).
-/
set_option linter.unusedSectionVars false
namespace Amgcl.C02e
open Amgcl Amgcl.Relax

/-! ## ILU(0) -/
section ilu0
variable {K : Type} [Field K] [DecidableEq K]

/-- what `scaleFactors c F` is, entry by entry: `L` unchanged, `U` times `c`, stored (inverted) pivots times `c⁻¹` -/
theorem scaleFactors_spec (c : K) (F : IluFactors K) (i j : Nat) :
    (scaleFactors c F).L = F.L ∧
    (scaleFactors c F).U.row i = (F.U.row i).map (fun cv => (cv.1, cv.2 * c)) ∧
    (scaleFactors c F).U.get i j = F.U.get i j * c ∧
    (scaleFactors c F).D.getD i 0 = F.D.getD i 0 * c⁻¹ := by
  refine ⟨rfl, scaleFactors_U_row c F i, ?_, getD_map_mul c⁻¹ F.D i⟩
  unfold CRS.get
  rw [scaleFactors_U_row]
  exact rowGet_srow c _ j

example : (scaleFactors (4 : ℚ) C06.exF).U.get 0 1 = -4 ∧ (scaleFactors (4 : ℚ) C06.exF).D.getD 0 0 = 1 / 16 := by
  have h := scaleFactors_spec (4 : ℚ) C06.exF 0 1
  refine ⟨by rw [h.2.2.1]; decide +kernel, by rw [h.2.2.2]; decide +kernel⟩

/-- **`ilu0_scale`.**  `c ≠ 0`, well-formed square matrix with sorted rows: the ILU(0) constructor run on `c·A` has the
outcome of the run on `A` (`precondition` — missing diagonal or zero pivot —, or success) and on success its factors are
`scaleFactors c` of the factors of `A`; then `solve` is `c⁻¹ ·` the `solve` of `A`, and pre- and post-sweep for `(c·A, c·f)`
from `x` return the iterate (and the scratch vector) of the sweep for `(A, f)` from `x`: `N(cA) = c⁻¹ N(A)`. -/
theorem ilu0_scale (c : K) (hc : c ≠ 0) (ω : K) (A : CRS K) (hA : A.WF) (hsq : A.ncols = A.nrows)
    (hs : A.sortedb = true) :
    (ilu0 ω).setup (scale A c) = SetupOutcome.map (scaleFactors c) ((ilu0 ω).setup A) ∧
    ∀ F, (ilu0 ω).setup A = .ok F →
      (∀ b : Vec K, b.size = A.nrows → iluSolve (scaleFactors c F) b = vsmul c⁻¹ (iluSolve F b)) ∧
      (∀ f x t t' : Vec K, (ilu0 ω).applyPre (scaleFactors c F) (scale A c) (vsmul c f) x t = (ilu0 ω).applyPre F A f x t') ∧
      (∀ f x t t' : Vec K, (ilu0 ω).applyPost (scaleFactors c F) (scale A c) (vsmul c f) x t = (ilu0 ω).applyPost F A f x t') := by
  refine ⟨ilu0Factor_scale c hc A hA hsq hs, ?_⟩
  intro F hF
  obtain ⟨_, h2, _, h4, h5, _, h7, h8, _, _⟩ := C06.ilu0_factors_wf ω A hA hsq hs F hF
  refine ⟨fun b hb => iluSolve_scale c hc F h2 h4 (by omega) (by omega) b (by omega), ?_, ?_⟩ <;>
  · intro f x t t'
    exact iluSweep_scale c hc ω F A h2 h4 (by omega) (by omega) (by omega) f x t t'

example : (ilu0 (1 : ℚ)).setup (scale C06.exA 4) = .ok (scaleFactors 4 C06.exF) := by
  rw [(ilu0_scale (4 : ℚ) (by norm_num) 1 C06.exA (by decide) rfl (by decide)).1]
  show SetupOutcome.map (scaleFactors 4) (ilu0Factor C06.exA) = _
  rw [C06.exA_ilu0]; rfl

example (f x t : Vec ℚ) :
    (ilu0 (3/4 : ℚ)).applyPre (scaleFactors 4 C06.exF) (scale C06.exA 4) (vsmul 4 f) x t
      = (ilu0 (3/4 : ℚ)).applyPre C06.exF C06.exA f x t :=
  ((ilu0_scale (4 : ℚ) (by norm_num) (3/4) C06.exA (by decide) rfl (by decide)).2 C06.exF C06.exA_ilu0).2.1 f x t t

/-! ## ILUP -/

/-- **`ilup_scale`.**  Every fill parameter `k`: the constructor AS WRITTEN (`symb_product`, sort, scatter loop, `ilu0`)
run on `c·A` has the outcome of the run on `A` with the factors `L`, `c·U`, `c⁻¹·D`; the symbolic pattern (boolean power
`patPower A k`) is the same function for `A` and `c·A`; the sweeps satisfy `N(cA) = c⁻¹ N(A)`.  Hypotheses: those of
`C06c.ilup_as_written_eq_spec` (well-formed, square, sorted rows, stored diagonal). -/
theorem ilup_scale (c : K) (hc : c ≠ 0) (k : Nat) (ω : K) (A : CRS K) (hA : A.WF) (hsq : A.ncols = A.nrows)
    (hs : A.sortedb = true) (hd : hasDiagb A = true) :
    patPower (scale A c) k = patPower A k ∧
    (ilup k ω).setup (scale A c) = SetupOutcome.map (scaleFactors c) ((ilup k ω).setup A) ∧
    ∀ F, (ilup k ω).setup A = .ok F →
      (∀ b : Vec K, b.size = A.nrows → iluSolve (scaleFactors c F) b = vsmul c⁻¹ (iluSolve F b)) ∧
      ∀ f x t t' : Vec K,
        (ilup k ω).applyPre (scaleFactors c F) (scale A c) (vsmul c f) x t = (ilup k ω).applyPre F A f x t' ∧
        (ilup k ω).applyPost (scaleFactors c F) (scale A c) (vsmul c f) x t = (ilup k ω).applyPost F A f x t' := by
  refine ⟨patPower_scale A c k, ilupFactorW_scale c hc k A hA hsq hs hd, ?_⟩
  intro F hF
  have hF' : ilupFactor k A = .ok F := by rw [← C06c.ilup_as_written_eq_spec k A hA hsq hs hd]; exact hF
  have hwf : strictUpperb F.U = true ∧ F.U.WF ∧ F.L.nrows = A.nrows ∧ F.U.nrows = A.nrows ∧ F.U.ncols = A.nrows := by
    unfold ilupFactor at hF'
    by_cases hk : k = 0
    · rw [if_pos hk] at hF'
      obtain ⟨_, h2, _, h4, h5, _, h7, h8, _, _⟩ := ilu0Factor_wf A hA hsq hs F hF'
      exact ⟨h2, h4, h5, h7, h8⟩
    · rw [if_neg hk] at hF'
      obtain ⟨_, h2, _, h4, h5, _, h7, h8, _, _⟩ := ilu0Factor_wf _ (padPattern_wf _ A hsq)
        (by rw [padPattern_nrows]; exact hsq) (padPattern_sorted _ A) F hF'
      rw [padPattern_nrows] at h5 h7 h8
      exact ⟨h2, h4, h5, h7, h8⟩
  obtain ⟨h2, h4, h5, h7, h8⟩ := hwf
  refine ⟨fun b hb => iluSolve_scale c hc F h2 h4 (by omega) (by omega) b (by omega), ?_⟩
  intro f x t t'
  exact ⟨iluSweep_scale c hc ω F A h2 h4 (by omega) (by omega) (by omega) f x t t',
    iluSweep_scale c hc ω F A h2 h4 (by omega) (by omega) (by omega) f x t t'⟩

example : (ilup 1 (1 : ℚ)).setup (scale C06.exA 4) = .ok (scaleFactors 4 C06.exF) := by
  rw [(ilup_scale (4 : ℚ) (by norm_num) 1 1 C06.exA (by decide) rfl (by decide) (by decide)).2.1]
  show SetupOutcome.map (scaleFactors 4) (ilupFactorW 1 C06.exA) = _
  rw [C06c.ilup_as_written_eq_spec 1 C06.exA (by decide) rfl (by decide) (by decide), C06.exA_ilup]; rfl

/-! ## ILU(k) -/

/-- **`iluk_scale`.**  Every fill level `k`, every `c ≠ 0`, EVERY matrix (no structural hypothesis: the code takes no
value-dependent decision): the constructor run on `c·A` has the outcome of the run on `A` with the factors `L`, `c·U`,
`c⁻¹·D`; for well-formed square `A` the sweeps satisfy `N(cA) = c⁻¹ N(A)`. -/
theorem iluk_scale (c : K) (hc : c ≠ 0) (k : Nat) (ω : K) (A : CRS K) :
    (iluk k ω).setup (scale A c) = SetupOutcome.map (scaleFactors c) ((iluk k ω).setup A) ∧
    (A.WF → A.ncols = A.nrows → ∀ F, (iluk k ω).setup A = .ok F →
      (∀ b : Vec K, b.size = A.nrows → iluSolve (scaleFactors c F) b = vsmul c⁻¹ (iluSolve F b)) ∧
      ∀ f x t t' : Vec K,
        (iluk k ω).applyPre (scaleFactors c F) (scale A c) (vsmul c f) x t = (iluk k ω).applyPre F A f x t' ∧
        (iluk k ω).applyPost (scaleFactors c F) (scale A c) (vsmul c f) x t = (iluk k ω).applyPost F A f x t') := by
  refine ⟨ilukFactor_scale c hc k A, ?_⟩
  intro hA hsq F hF
  obtain ⟨R, hR⟩ := (C06.iluk_trace_exists k ω A F).mp hF
  obtain ⟨_, h2, _, h4, h5, _, h7, h8, _, _, _⟩ := C06.iluk_factors_wf k A hA hsq F R hR
  refine ⟨fun b hb => iluSolve_scale c hc F h2 h4 (by omega) (by omega) b (by omega), ?_⟩
  intro f x t t'
  exact ⟨iluSweep_scale c hc ω F A h2 h4 (by omega) (by omega) (by omega) f x t t',
    iluSweep_scale c hc ω F A h2 h4 (by omega) (by omega) (by omega) f x t t'⟩

-- the K01 matrix (a contribution IS discarded there) and an unsorted matrix with duplicates
example : (iluk 1 (1 : ℚ)).setup (scale C06.exK 4) = .ok (scaleFactors 4 C06.exKF) := by
  rw [(iluk_scale (4 : ℚ) (by norm_num) 1 1 C06.exK).1,
    (C06.iluk_trace_exists 1 (1 : ℚ) C06.exK C06.exKF).mpr ⟨C06.exKR, C06.exK_ilukT⟩]; rfl
example : (iluk 0 (1 : ℚ)).setup (scale C06.exFill (-2)) = .ok (scaleFactors (-2) C06.exFill0) := by
  rw [(iluk_scale (-2 : ℚ) (by norm_num) 0 1 C06.exFill).1]
  show SetupOutcome.map (scaleFactors (-2)) (ilukFactor 0 C06.exFill) = _
  rw [C06.exFill_iluk0]; rfl

end ilu0

/-! ## Chebyshev -/
section cheb
variable {K : Type} [Field K] [LinearOrder K] [IsStrictOrderedRing K]

theorem hasDiag_mem (A : CRS K) (hd : hasDiagb A = true) : ∀ i < A.nrows, i ∈ (A.row i).map (·.1) := by
  intro i hi
  unfold hasDiagb at hd
  rw [List.all_eq_true] at hd
  have := hd i (List.mem_range.mpr hi)
  rw [List.any_eq_true] at this
  obtain ⟨cv, hcv, he⟩ := this
  exact List.mem_map.mpr ⟨cv, hcv, by simpa using he⟩

/-- **`cheb_scale`, `relax.scale = false`, `c > 0`.**  The Gershgorin bound of `c·A` is `c ·` the bound of `A` (`|c| ·` for
every `c`), the ellipse `(c, d)` of the constructor is multiplied by `c`, and `solve` on `(c·A, c·f)` returns the `x` of
`solve` on `(A, f)`, whatever the scratch members contain: the polynomial in `c·A` is `c⁻¹ ·` the polynomial in `A`. -/
theorem cheb_scale_unscaled (prm : ChebParams K) (hsc : prm.scale = false) (c : K) (hc : 0 < c) (A : CRS K) :
    (∀ a : K, Amgcl.gershgorin false (scale A a) = |a| * Amgcl.gershgorin false A) ∧
    (chebSetup prm (scale A c)).d = c * (chebSetup prm A).d ∧ (chebSetup prm (scale A c)).c = c * (chebSetup prm A).c ∧
    ∀ f x p r p' r' : Vec K,
      (chebSolve (chebSetup prm (scale A c)) (scale A c) (vsmul c f) x p' r').1
        = (chebSolve (chebSetup prm A) A f x p r).1 := by
  have hg := gershgorin_false_scale c A
  rw [abs_of_pos hc] at hg
  have hd : (chebSetup prm (scale A c)).d = c * (chebSetup prm A).d := by
    simp only [chebSetup, hsc, hg]; ring
  have hcc : (chebSetup prm (scale A c)).c = c * (chebSetup prm A).c := by
    simp only [chebSetup, hsc, hg]; ring
  refine ⟨fun a => gershgorin_false_scale a A, hd, hcc, ?_⟩
  intro f x p r p' r'
  rw [chebSolve_indep _ _ _ x p' r' p r']
  exact chebSolve_scale c (ne_of_gt hc) (chebSetup prm A) (chebSetup prm (scale A c)) rfl hd hcc A (scale A c) f (vsmul c f)
    (fun y => chebResid_scale_unscaled c (chebSetup prm A) (chebSetup prm (scale A c)) hsc hsc A f y) x p r r'

example (f x : Vec ℚ) :
    (chebSolve (chebSetup ⟨2, 1, 1/30, false⟩ (scale C06.exA 4)) (scale C06.exA 4) (vsmul 4 f) x #[] #[]).1
      = (chebSolve C06.exCheb C06.exA f x #[] #[]).1 :=
  (cheb_scale_unscaled (K := ℚ) ⟨2, 1, 1/30, false⟩ rfl 4 (by norm_num) C06.exA).2.2.2 f x #[] #[] #[] #[]

/-- **`cheb_scale`, `relax.scale = true`, `c ≠ 0`.**  Every row stores a non-zero diagonal entry: the bound of `D⁻¹A`,
hence the ellipse, is unchanged, the stored inverted diagonal is multiplied by `c⁻¹`, and `solve` on `(c·A, c·f)` returns
the `x` of `solve` on `(A, f)` (the scaled operator `D⁻¹A` and the scaled residual `D⁻¹(f − A x)` are invariant). -/
theorem cheb_scale_scaled (prm : ChebParams K) (hsc : prm.scale = true) (c : K) (hc : c ≠ 0) (A : CRS K)
    (hd : hasDiagb A = true) (hnz : ∀ i < A.nrows, firstDiag (A.row i) i ≠ some 0) :
    Amgcl.gershgorin true (scale A c) = Amgcl.gershgorin true A ∧
    (chebSetup prm (scale A c)).d = (chebSetup prm A).d ∧ (chebSetup prm (scale A c)).c = (chebSetup prm A).c ∧
    (chebSetup prm (scale A c)).M = vsmul c⁻¹ (chebSetup prm A).M ∧
    ∀ f x p r p' r' : Vec K,
      (chebSolve (chebSetup prm (scale A c)) (scale A c) (vsmul c f) x p' r').1
        = (chebSolve (chebSetup prm A) A f x p r).1 := by
  have hg := gershgorin_true_scale c hc A (hasDiag_mem A hd)
  have hdd : (chebSetup prm (scale A c)).d = (chebSetup prm A).d := by simp only [chebSetup, hsc, hg]
  have hcc : (chebSetup prm (scale A c)).c = (chebSetup prm A).c := by simp only [chebSetup, hsc, hg]
  have hM : (chebSetup prm (scale A c)).M = vsmul c⁻¹ (chebSetup prm A).M := by
    simp only [chebSetup, hsc, if_true]; exact diagInv_scale c hc A hnz
  refine ⟨hg, hdd, hcc, hM, ?_⟩
  intro f x p r p' r'
  rw [chebSolve_indep _ _ _ x p' r' p r']
  have hMs : (chebSetup prm A).M.size = A.nrows := by simp [chebSetup, hsc, diagInv]
  exact chebSolve_scale 1 one_ne_zero (chebSetup prm A) (chebSetup prm (scale A c)) rfl (by rw [hdd, one_mul])
    (by rw [hcc, one_mul]) A (scale A c) f (vsmul c f)
    (fun y => chebResid_scale_scaled c hc (chebSetup prm A) (chebSetup prm (scale A c)) hsc hsc A hMs hM f y) x p r r'

example (f x : Vec ℚ) :
    (chebSolve (chebSetup ⟨3, 1, 1/30, true⟩ (scale C06.exA (-8))) (scale C06.exA (-8)) (vsmul (-8) f) x #[] #[]).1
      = (chebSolve (chebSetup ⟨3, 1, 1/30, true⟩ C06.exA) C06.exA f x #[] #[]).1 :=
  (cheb_scale_scaled (K := ℚ) ⟨3, 1, 1/30, true⟩ rfl (-8) (by norm_num) C06.exA (by decide) (by decide +kernel)).2.2.2.2
    f x #[] #[] #[] #[]

/-- the same for the smoother record consumed by the cycle: pre- and post-sweep of `chebyshev prm` on `(c·A, c·f)` from `x`
is the sweep on `(A, f)` from `x` — `N(cA) = c⁻¹ N(A)` — in both modes -/
theorem cheb_sweep_scale (prm : ChebParams K) (c : K) (A : CRS K)
    (h : (prm.scale = false ∧ 0 < c) ∨
      (prm.scale = true ∧ c ≠ 0 ∧ hasDiagb A = true ∧ ∀ i < A.nrows, firstDiag (A.row i) i ≠ some 0))
    (f x t : Vec K) :
    ((chebyshev prm).applyPre (chebSetup prm (scale A c)) (scale A c) (vsmul c f) x t).1
        = ((chebyshev prm).applyPre (chebSetup prm A) A f x t).1 ∧
    ((chebyshev prm).applyPost (chebSetup prm (scale A c)) (scale A c) (vsmul c f) x t).1
        = ((chebyshev prm).applyPost (chebSetup prm A) A f x t).1 := by
  rcases h with ⟨h1, h2⟩ | ⟨h1, h2, h3, h4⟩
  · have := (cheb_scale_unscaled prm h1 c h2 A).2.2.2 f x
    exact ⟨this _ _ _ _, this _ _ _ _⟩
  · have := (cheb_scale_scaled prm h1 c h2 A h3 h4).2.2.2.2 f x
    exact ⟨this _ _ _ _, this _ _ _ _⟩

example (f x t : Vec ℚ) := cheb_sweep_scale (K := ℚ) ⟨2, 1, 1/30, false⟩ 4 C06.exA (Or.inl ⟨rfl, by norm_num⟩) f x t

end cheb

/-! ## Symmetry: ILU(0) of a symmetric matrix gives a symmetric sweep operator, hence a symmetric cycle

Property text: "for the symmetric smoothers (…, ILU(0)/ILU(k)/ILUP, Chebyshev) B is itself symmetric".  `C02b.B_symmetric`
asks `Hier.OK` (SPD level matrices AND contraction of every sweep — not available for ILU / Chebyshev);
`cycle_symmetric_struct` is the same conclusion from the structural hypotheses only. -/
section sym
open Matrix Amgcl.Energy Amgcl.Energy.Bridge
variable {K : Type} [Field K] [DecidableEq K]

/-- **`ilu0_symmetric`.**  `A` well formed, square, sorted rows, SYMMETRIC PATTERN and symmetric values (`SymCRS`), ILU(0)
constructor successful.  In the storage convention of the model (`L` strictly lower with unit diagonal implied, `U`
strictly upper, `D` the INVERTED pivots): `L_ij · (1 / D_j) = U_ji` for `j < i`, i.e. `U = D⁻¹ Lᵀ`; so
`M = (I+L)(D⁻¹+U) = (I+L) D⁻¹ (I+L)ᵀ` is symmetric, and the matrix `N = ω M⁻¹` of the sweep
`x ← x + ω·solve(f − A x)` (`iluN`, with `SweepIs` for the model pre- and post-sweep) is symmetric: `post = pre†`. -/
theorem ilu0_symmetric (ω : K) (A : CRS K) (hA : A.WF) (hsq : A.ncols = A.nrows) (hs : A.sortedb = true)
    (hsym : SymCRS A) (F : IluFactors K) (hF : (ilu0 ω).setup A = .ok F) :
    (∀ j i, j < i → i < A.nrows → F.L.get i j * (1 / F.D.getD j 0) = F.U.get j i) ∧
    (iluM F A.nrows)ᵀ = iluM F A.nrows ∧
    (iluN ω F A.nrows)ᵀ = iluN ω F A.nrows ∧
    SweepIs ((ilu0 ω).applyPre F A) A.nrows (matOf A A.nrows A.nrows) (iluN ω F A.nrows) ∧
    SweepIs ((ilu0 ω).applyPost F A) A.nrows (matOf A A.nrows A.nrows) (iluN ω F A.nrows) := by
  have hLU := ilu0_LU_symm A hA hsq hs hsym F hF
  obtain ⟨hLz, hUz⟩ := ilu0_tri_zero A hA hsq hs F hF
  obtain ⟨h1, h2, h3, h4, h5, h6, h7, h8, _, h10⟩ := C06.ilu0_factors_wf ω A hA hsq hs F hF
  have hM := iluM_transpose F A.nrows hLU hLz hUz h10
  have hcl : ColsLt A A.nrows := fun i cv hcv => by rw [← hsq]; exact K2.row_col_lt hA i hcv
  refine ⟨hLU, hM, ?_, sweepIs_ilu ω F A rfl hcl, sweepIs_ilu ω F A rfl hcl⟩
  exact iluN_transpose ω F A.nrows hM
    (fun b hb => iluM_mulVec_solve F A.nrows h1 h2 h3 h4 h5 h6 h7 h8 h10 b hb)

/-- the 1D Laplacian-like SPD matrix `tridiag(-1, 4, -1)` of order 3 and its ILU(0) factors -/
def exS : CRS ℚ := ⟨3, #[[(0, 4), (1, -1)], [(0, -1), (1, 4), (2, -1)], [(1, -1), (2, 4)]]⟩
def exSF : IluFactors ℚ := ⟨⟨3, #[[], [(0, -1/4)], [(1, -4/15)]]⟩, ⟨3, #[[(1, -1)], [(2, -1)], []]⟩, #[1/4, 4/15, 15/56]⟩
local instance exDecEqCRS : DecidableEq (CRS ℚ) := fun a b =>
  decidable_of_iff (a.ncols = b.ncols ∧ a.rows = b.rows) (by cases a; cases b; simp)
local instance exDecEqIlu : DecidableEq (IluFactors ℚ) := fun a b =>
  decidable_of_iff (a.L = b.L ∧ a.U = b.U ∧ a.D = b.D) (by cases a; cases b; simp)
theorem exS_ilu0 (ω : ℚ) : (ilu0 ω).setup exS = .ok exSF := by
  show ilu0Factor exS = .ok exSF
  decide +kernel
theorem exS_sym : SymCRS exS := by
  constructor
  · intro i j hi hj
    have hi' : i < 3 := hi
    have hj' : j < 3 := hj
    interval_cases i <;> interval_cases j <;> decide
  · intro i j hi hj
    have hi' : i < 3 := hi
    have hj' : j < 3 := hj
    interval_cases i <;> interval_cases j <;> decide +kernel

example : (iluN (3/4 : ℚ) exSF 3)ᵀ = iluN (3/4) exSF 3 :=
  (ilu0_symmetric (3/4 : ℚ) exS (by decide) rfl (by decide) exS_sym exSF (exS_ilu0 _)).2.2.1

/-- **`cycle_symmetric_struct`** — `C02b.B_symmetric` without `Hier.OK`: level matrices symmetric, `R = Pᵀ`
(`Hier.SymStruct`), post-sweep matrix = transpose of the pre-sweep matrix on every level (`Hier.Sym`), `npre = npost` ⟹
`B = Bᵀ` and `applyB = applyBᵀ` (any `pre_cycles`, V- and W-cycles, any number of levels, direct or smoothed coarsest
level).  No positive definiteness, no contraction: applies to every symmetric smoother. -/
theorem cycle_symmetric_struct {𝕜 : Type} [Field 𝕜] [LinearOrder 𝕜] [IsStrictOrderedRing 𝕜] (p : CycPrm)
    (hnu : p.npre = p.npost) (k : ℕ) {n : ℕ} (h : Hier 𝕜 n) (hA : h.Aᵀ = h.A) (hst : h.SymStruct) (hsym : h.Sym) :
    (h.B p)ᵀ = h.B p ∧ (h.applyB p k)ᵀ = h.applyB p k :=
  ⟨Hier.B_transpose_struct p hnu h hst hsym, Hier.applyB_transpose_struct p hnu k h hA hst hsym⟩

/-- the structural hypotheses are weaker than `Hier.OK` -/
theorem symStruct_of_OK {𝕜 : Type} [Field 𝕜] [LinearOrder 𝕜] [IsStrictOrderedRing 𝕜] :
    ∀ {n : ℕ} (h : Hier 𝕜 n), h.OK → h.SymStruct
  | _, .direct _, hok => hok.1
  | _, .relax _ _ _, hok => hok.1.1
  | _, .level _ _ _ _ _ next, hok => ⟨hok.1.1, hok.2.2.2.1, symStruct_of_OK next hok.2.2.2.2.2.2⟩

-- three levels, Gauss–Seidel forward / backward, W-cycle with 2+2 sweeps, `pre_cycles = 3`
example : (Example.hGS.applyB ⟨2, 2, 2⟩ 3)ᵀ = Example.hGS.applyB ⟨2, 2, 2⟩ 3 :=
  (cycle_symmetric_struct ⟨2, 2, 2⟩ rfl 3 Example.hGS Example.hGS_OK.spd.1 (symStruct_of_OK _ Example.hGS_OK)
    Example.hGS_Sym).2

/-- level `(A, N₁, N₂)` is smoothed by ILU(0): `A` is denoted by a symmetric CRS matrix on which the constructor
succeeds and both sweep matrices are the `iluN` of its factors -/
def IluLevel (ω : K) {n : ℕ} (A N₁ N₂ : Matrix (Fin n) (Fin n) K) : Prop :=
  ∃ (Ac : CRS K) (F : IluFactors K), Ac.WF ∧ Ac.ncols = Ac.nrows ∧ Ac.sortedb = true ∧ SymCRS Ac ∧
    ∃ hn : Ac.nrows = n, (ilu0 ω).setup Ac = .ok F ∧ A = matOf Ac n n ∧ N₁ = iluN ω F n ∧ N₂ = iluN ω F n

/-- every smoothed level of the hierarchy is an ILU(0) level -/
def IluLevels (ω : K) : {n : ℕ} → Hier K n → Prop
  | _, .direct _ => True
  | _, .relax A N₁ N₂ => IluLevel ω A N₁ N₂
  | _, .level A N₁ N₂ _ _ next => IluLevel ω A N₁ N₂ ∧ IluLevels ω next

theorem IluLevel.sym {ω : K} {n : ℕ} {A N₁ N₂ : Matrix (Fin n) (Fin n) K} (h : IluLevel ω A N₁ N₂) : N₂ = N₁ᵀ := by
  obtain ⟨Ac, F, hA, hsq, hs, hsym, hn, hF, -, h1, h2⟩ := h
  subst hn
  rw [h1, h2, (ilu0_symmetric ω Ac hA hsq hs hsym F hF).2.2.1]

theorem IluLevels.sym {ω : K} : ∀ {n : ℕ} (h : Hier K n), IluLevels ω h → h.Sym
  | _, .direct _, _ => trivial
  | _, .relax _ _ _, hl => IluLevel.sym hl
  | _, .level _ _ _ _ _ next, hl => ⟨IluLevel.sym hl.1, IluLevels.sym next hl.2⟩

/-- an ILU(0) level of `A` scaled: `(c·A, c⁻¹·N, c⁻¹·N)` is the ILU(0) level of the CRS matrix `scale Ac c`, with the
factors its own constructor run returns (`ilu0_scale`) -/
theorem IluLevel.scale {ω : K} {n : ℕ} {A N₁ N₂ : Matrix (Fin n) (Fin n) K} (h : IluLevel ω A N₁ N₂) {c : K}
    (hc : c ≠ 0) : IluLevel ω (c • A) (c⁻¹ • N₁) (c⁻¹ • N₂) := by
  obtain ⟨Ac, F, hA, hsq, hs, hsym, hn, hF, hAm, h1, h2⟩ := h
  obtain ⟨_, u2, _, u4, u5, _, u7, u8, _, _⟩ := C06.ilu0_factors_wf ω Ac hA hsq hs F hF
  have hN : iluN ω (scaleFactors c F) n = c⁻¹ • iluN ω F n :=
    iluN_scale c hc ω F n u2 u4 (by omega) (by omega) (by omega)
  refine ⟨Amgcl.scale Ac c, scaleFactors c F, scale_wf Ac c hA, by rw [scale_ncols', scale_nrows']; exact hsq,
    scale_sorted Ac c hs, Amgcl.Energy.SymCRS.scale hsym c, by rw [scale_nrows']; exact hn, ?_, ?_, by rw [h1, hN], by rw [h2, hN]⟩
  · rw [(ilu0_scale c hc ω Ac hA hsq hs).1, hF]; rfl
  · rw [hAm, matOf_scale]

theorem IluLevels.scale {ω : K} {c : K} (hc : c ≠ 0) : ∀ {n : ℕ} (h : Hier K n), IluLevels ω h → IluLevels ω (h.scale c)
  | _, .direct _, _ => trivial
  | _, .relax _ _ _, hl => IluLevel.scale hl hc
  | _, .level _ _ _ _ _ next, hl => ⟨IluLevel.scale hl.1 hc, IluLevels.scale hc next hl.2⟩

/-- level `(A, N₁, N₂)` is smoothed by ILU(k): `A` is denoted by a well-formed square CRS matrix on which the `iluk`
constructor succeeds and both sweep matrices are the `iluN` of its factors (no symmetry, no sortedness required) -/
def IlukLevel (lfil : Nat) (ω : K) {n : ℕ} (A N₁ N₂ : Matrix (Fin n) (Fin n) K) : Prop :=
  ∃ (Ac : CRS K) (F : IluFactors K), Ac.WF ∧ Ac.ncols = Ac.nrows ∧
    ∃ hn : Ac.nrows = n, (iluk lfil ω).setup Ac = .ok F ∧ A = matOf Ac n n ∧ N₁ = iluN ω F n ∧ N₂ = iluN ω F n

def IlukLevels (lfil : Nat) (ω : K) : {n : ℕ} → Hier K n → Prop
  | _, .direct _ => True
  | _, .relax A N₁ N₂ => IlukLevel lfil ω A N₁ N₂
  | _, .level A N₁ N₂ _ _ next => IlukLevel lfil ω A N₁ N₂ ∧ IlukLevels lfil ω next

theorem IlukLevel.scale {lfil : Nat} {ω : K} {n : ℕ} {A N₁ N₂ : Matrix (Fin n) (Fin n) K}
    (h : IlukLevel lfil ω A N₁ N₂) {c : K} (hc : c ≠ 0) : IlukLevel lfil ω (c • A) (c⁻¹ • N₁) (c⁻¹ • N₂) := by
  obtain ⟨Ac, F, hA, hsq, hn, hF, hAm, h1, h2⟩ := h
  obtain ⟨R, hR⟩ := (C06.iluk_trace_exists lfil ω Ac F).mp hF
  obtain ⟨_, u2, _, u4, u5, _, u7, u8, _, _, _⟩ := C06.iluk_factors_wf lfil Ac hA hsq F R hR
  have hN : iluN ω (scaleFactors c F) n = c⁻¹ • iluN ω F n :=
    iluN_scale c hc ω F n u2 u4 (by omega) (by omega) (by omega)
  refine ⟨Amgcl.scale Ac c, scaleFactors c F, scale_wf Ac c hA, by rw [scale_ncols', scale_nrows']; exact hsq,
    by rw [scale_nrows']; exact hn, ?_, ?_, by rw [h1, hN], by rw [h2, hN]⟩
  · rw [(iluk_scale c hc lfil ω Ac).1, hF]; rfl
  · rw [hAm, matOf_scale]

theorem IlukLevels.scale {lfil : Nat} {ω : K} {c : K} (hc : c ≠ 0) :
    ∀ {n : ℕ} (h : Hier K n), IlukLevels lfil ω h → IlukLevels lfil ω (h.scale c)
  | _, .direct _, _ => trivial
  | _, .relax _ _ _, hl => IlukLevel.scale hl hc
  | _, .level _ _ _ _ _ next, hl => ⟨IlukLevel.scale hl.1 hc, IlukLevels.scale hc next hl.2⟩

end sym

section symcycle
open Matrix Amgcl.Energy Amgcl.Energy.Bridge
variable {K : Type} [Field K] [LinearOrder K] [IsStrictOrderedRing K]

/-- **`ilu0_cycle_symmetric`.**  A hierarchy with `R = Pᵀ` on every level whose smoothed levels are ILU(0) levels of
symmetric matrices (pre- and post-sweep both `x ← x + ω·solve(f − A x)` with the factors the model constructor returns):
for `npre = npost` the cycle operator `B` and the `apply` operator are symmetric — for every damping `ω`, V- and
W-cycles, any number of levels, any `pre_cycles`. -/
theorem ilu0_cycle_symmetric (ω : K) (p : CycPrm) (hnu : p.npre = p.npost) (k : ℕ) {n : ℕ} (h : Hier K n)
    (hA : h.Aᵀ = h.A) (hst : h.SymStruct) (hilu : IluLevels ω h) :
    (h.B p)ᵀ = h.B p ∧ (h.applyB p k)ᵀ = h.applyB p k :=
  cycle_symmetric_struct p hnu k h hA hst (IluLevels.sym h hilu)

/-- **`ilu0_apply_scale`** (item (c): `ilu0_scale` fed into `C02b`'s scaling theorem).  For a hierarchy `h` with ILU(0)
smoothing, the hierarchy of `c·A` with the same transfer operators — `Hier.scale c h`: level matrices `c·A_l` — IS again an
ILU(0) hierarchy, its sweep matrices being those of the factors the model constructor computes on `scale A_l c`; and its
cycle and `apply` operators are `c⁻¹ ·` those of `h`: `B(cA) = c⁻¹ B(A)` for every `c ≠ 0`, all cycle parameters. -/
theorem ilu0_apply_scale (ω : K) {c : K} (hc : c ≠ 0) (p : CycPrm) (k : ℕ) {n : ℕ} (h : Hier K n)
    (hilu : IluLevels ω h) :
    IluLevels ω (h.scale c) ∧ (h.scale c).B p = c⁻¹ • h.B p ∧ (h.scale c).applyB p k = c⁻¹ • h.applyB p k :=
  ⟨IluLevels.scale hc h hilu, Hier.scale_B p hc h, Hier.scale_applyB p hc k h⟩

example : ((Hier.relax (matOf exS 3 3) (iluN (3/4 : ℚ) exSF 3) (iluN (3/4) exSF 3)).scale 8).applyB ⟨1, 1, 1⟩ 2
    = (8 : ℚ)⁻¹ • (Hier.relax (matOf exS 3 3) (iluN (3/4 : ℚ) exSF 3) (iluN (3/4) exSF 3)).applyB ⟨1, 1, 1⟩ 2 :=
  (ilu0_apply_scale (3/4 : ℚ) (by norm_num) ⟨1, 1, 1⟩ 2 _
    (show IluLevels (3/4 : ℚ) (Hier.relax (matOf exS 3 3) (iluN (3/4 : ℚ) exSF 3) (iluN (3/4) exSF 3)) from
      ⟨exS, exSF, by decide, rfl, by decide, exS_sym, rfl, exS_ilu0 _, rfl, rfl, rfl⟩)).2.2

/-- **`iluk_apply_scale`**: the same for ILU(k) smoothing, every fill level, no hypothesis on the level matrices beyond
well-formedness (not even symmetry or sorted rows) -/
theorem iluk_apply_scale (lfil : Nat) (ω : K) {c : K} (hc : c ≠ 0) (p : CycPrm) (k : ℕ) {n : ℕ} (h : Hier K n)
    (hilu : IlukLevels lfil ω h) :
    IlukLevels lfil ω (h.scale c) ∧ (h.scale c).B p = c⁻¹ • h.B p ∧ (h.scale c).applyB p k = c⁻¹ • h.applyB p k :=
  ⟨IlukLevels.scale hc h hilu, Hier.scale_B p hc h, Hier.scale_applyB p hc k h⟩

example : IlukLevels 1 (1 : ℚ) ((Hier.relax (matOf C06.exK 5 5) (iluN 1 C06.exKF 5) (iluN 1 C06.exKF 5)).scale 4) :=
  (iluk_apply_scale 1 (1 : ℚ) (by norm_num) ⟨1, 1, 1⟩ 1 _
    (show IlukLevels 1 (1 : ℚ) (Hier.relax (matOf C06.exK 5 5) (iluN 1 C06.exKF 5) (iluN 1 C06.exKF 5)) from
      ⟨C06.exK, C06.exKF, by decide, rfl, rfl,
        (C06.iluk_trace_exists 1 (1 : ℚ) C06.exK C06.exKF).mpr ⟨C06.exKR, C06.exK_ilukT⟩, rfl, rfl, rfl⟩)).1

-- one smoothed level on `exS` (coarsest level smoothed, `npre = npost = 2`), damping 3/4
example : ((Hier.relax (matOf exS 3 3) (iluN (3/4 : ℚ) exSF 3) (iluN (3/4) exSF 3)).B ⟨2, 2, 1⟩)ᵀ
    = (Hier.relax (matOf exS 3 3) (iluN (3/4 : ℚ) exSF 3) (iluN (3/4) exSF 3)).B ⟨2, 2, 1⟩ := by
  have hAs : (matOf exS 3 3)ᵀ = matOf exS 3 3 := by
    ext i j; exact exS_sym.val j.val i.val j.isLt i.isLt
  have hl : IluLevels (3/4 : ℚ) (Hier.relax (matOf exS 3 3) (iluN (3/4 : ℚ) exSF 3) (iluN (3/4) exSF 3)) :=
    ⟨exS, exSF, by decide, rfl, by decide, exS_sym, rfl, exS_ilu0 _, rfl, rfl, rfl⟩
  exact (ilu0_cycle_symmetric (3/4 : ℚ) ⟨2, 2, 1⟩ rfl 1
    (Hier.relax (matOf exS 3 3) (iluN (3/4 : ℚ) exSF 3) (iluN (3/4) exSF 3)) (by simp only [Hier.A]; exact hAs)
    (by simp only [Hier.SymStruct]; exact hAs) hl).1

end symcycle

/-! ## Chebyshev: what holds for symmetry (matrix recurrence only) -/
section chebsym
open Matrix Amgcl.Energy

/-- **`cheb_symmetric_partial`.**  FULL STATEMENT: for symmetric `A` the sweep matrix `N` of the model `chebSolve` (degree `d`,
ellipse of the constructor, with or without `relax.scale`) is symmetric, so `post = pre†` and `cycle_symmetric_struct`
applies.  PROVED: the recurrence of `solve` written on matrices (`chebMatStep`: `R = Dm(1 − A X)`, `P' = αR + βP`,
`X' = X + P'`, `Dm` = inverted diagonal of `relax.scale`, `1` otherwise) keeps `X` symmetric for EVERY coefficient sequence
`(α_k, β_k)`, every symmetric `A` and symmetric `Dm` — with scaling too: `X = q(Dm A)·Dm` is a sum of palindromic products.
MISSING: the identification of `vecOf (chebSolve s A f 0 p r).1` with `X_d *ᵥ vecOf f` for the coefficients `chebCoef`
(the array model is jointly linear and scratch independent by C06, its matrix is not extracted). -/
theorem cheb_symmetric_partial {K : Type} [Field K] {n : Type} [Fintype n] [DecidableEq n] (A Dm : Matrix n n K)
    (hA : Aᵀ = A) (hD : Dmᵀ = Dm) (coef : List (K × K)) :
    ((coef.foldl (chebMatStep A Dm) (0, 0)).1)ᵀ = (coef.foldl (chebMatStep A Dm) (0, 0)).1 := by
  have key : ∀ (l : List (K × K)) (XP : Matrix n n K × Matrix n n K), ChebSymInv A Dm XP.1 XP.2 →
      ChebSymInv A Dm (l.foldl (chebMatStep A Dm) XP).1 (l.foldl (chebMatStep A Dm) XP).2 := by
    intro l
    induction l with
    | nil => intro XP h; exact h
    | cons ab t ih => intro XP h; exact ih _ (chebMatStep_inv A Dm hA hD XP.1 XP.2 h ab)
  exact (key coef (0, 0) ⟨by simp, by simp, by simp, by simp⟩).x

-- degree 3, diagonal scaling `Dm = diag(1/2, 1/3)`
example : (([((1 : ℚ)/3, 0), (1/5, 1/7), (2/9, 1/11)].foldl
      (chebMatStep Example.A2 (Matrix.diagonal ![1/2, 1/3])) (0, 0)).1)ᵀ
    = ([((1 : ℚ)/3, 0), (1/5, 1/7), (2/9, 1/11)].foldl (chebMatStep Example.A2 (Matrix.diagonal ![1/2, 1/3])) (0, 0)).1 :=
  cheb_symmetric_partial Example.A2 _ Example.spd_A2.1 (Matrix.diagonal_transpose _) _

end chebsym

end Amgcl.C02e
