import Amgcl.Model.Mixing
/-!
# C13 (part b) — the common backend of two sub-solver backends has the wider scalar type

`backend::detail::common_scalar_backend<builtin<V1>, builtin<V2>>` (mixing.hpp) as modelled in `Model/Mixing.lean`
(correspondence: the run-time `std::is_same` table of `harness/h_mixing.cpp`, op `mix_common`, all pairs).

* `common_defined_iff`  : a common backend exists unless the two backends are two DIFFERENT scalar backends;
* `common_scalar_max`   : when one of the value types is a block type, the common backend is the SCALAR backend
                          whose precision is the wider of the two SCALAR kinds (never the size of the block);
* `common_comm`         : symmetric in its arguments;
* `common_idem`         : `common B B` is `B` for a scalar backend and the scalar backend of `B` for a block backend;
* `common_absorbs`      : the result is a fixed point: `common r r = r`, and combining it again with either argument
                          gives the same backend.
-/
namespace Amgcl.C13b
open Amgcl.Mixing

/-- order of the scalar kinds by precision -/
def Prec.rank : Prec → Nat
  | .f32 => 0
  | .f64 => 1
  | .f80 => 2

theorem common_defined_iff (v1 v2 : VT) :
    commonScalarBackend v1 v2 = none ↔ (v1.rows = 1 ∧ v2.rows = 1 ∧ v1 ≠ v2) := by
  unfold commonScalarBackend
  by_cases h1 : v1.rows = 1 <;> by_cases h2 : v2.rows = 1 <;> by_cases h : v1 = v2 <;> simp [h1, h2, h]

example : commonScalarBackend ⟨.f32, 1⟩ ⟨.f64, 1⟩ = none := by decide
example : commonScalarBackend ⟨.f32, 2⟩ ⟨.f64, 1⟩ ≠ none := by decide

theorem common_scalar_max (v1 v2 r : VT) (hb : v1.rows ≠ 1 ∨ v2.rows ≠ 1)
    (h : commonScalarBackend v1 v2 = some r) :
    r.rows = 1 ∧ Prec.rank r.prec = max (Prec.rank v1.prec) (Prec.rank v2.prec) := by
  unfold commonScalarBackend at h
  have hne : ¬ (v1 = v2 ∧ v1.rows = 1) := by
    rintro ⟨e, h1⟩; subst e; cases hb <;> contradiction
  rw [if_neg hne, if_pos hb] at h
  cases h
  obtain ⟨p1, n1⟩ := v1; obtain ⟨p2, n2⟩ := v2
  cases p1 <;> cases p2 <;> simp [Prec.sizeof, Prec.rank]

/-- float 2x2 blocks (16 bytes) against scalar double (8 bytes): the common backend is `builtin<double>` -/
example : commonScalarBackend ⟨.f32, 2⟩ ⟨.f64, 1⟩ = some ⟨.f64, 1⟩ := by decide
example : commonScalarBackend ⟨.f64, 1⟩ ⟨.f32, 3⟩ = some ⟨.f64, 1⟩ := by decide

theorem common_comm (v1 v2 : VT) : commonScalarBackend v1 v2 = commonScalarBackend v2 v1 := by
  obtain ⟨p1, n1⟩ := v1; obtain ⟨p2, n2⟩ := v2
  unfold commonScalarBackend
  by_cases h1 : n1 = 1 <;> by_cases h2 : n2 = 1 <;>
    cases p1 <;> cases p2 <;> simp [h1, h2, Prec.sizeof, VT.mk.injEq] <;> omega

example : commonScalarBackend ⟨.f32, 2⟩ ⟨.f64, 3⟩ = commonScalarBackend ⟨.f64, 3⟩ ⟨.f32, 2⟩ := common_comm _ _

theorem common_idem (v : VT) : commonScalarBackend v v = some ⟨v.prec, 1⟩ := by
  obtain ⟨p, n⟩ := v
  unfold commonScalarBackend
  by_cases h : n = 1 <;> simp [h]

example : commonScalarBackend ⟨.f64, 3⟩ ⟨.f64, 3⟩ = some ⟨.f64, 1⟩ := common_idem _

theorem common_absorbs (v1 v2 r : VT) (hb : v1.rows ≠ 1 ∨ v2.rows ≠ 1)
    (h : commonScalarBackend v1 v2 = some r) :
    commonScalarBackend r r = some r ∧
    (v1.rows ≠ 1 → commonScalarBackend v1 r = some r) ∧ (v2.rows ≠ 1 → commonScalarBackend r v2 = some r) := by
  obtain ⟨hr, hp⟩ := common_scalar_max v1 v2 r hb h
  obtain ⟨p1, n1⟩ := v1; obtain ⟨p2, n2⟩ := v2; obtain ⟨p, n⟩ := r
  simp only at hr hp; subst hr
  refine ⟨by simp [commonScalarBackend], ?_, ?_⟩
  · intro h1; simp only at h1
    unfold commonScalarBackend
    cases p1 <;> cases p2 <;> cases p <;> simp_all [Prec.sizeof, Prec.rank, VT.mk.injEq]
  · intro h2; simp only at h2
    unfold commonScalarBackend
    cases p1 <;> cases p2 <;> cases p <;> simp_all [Prec.sizeof, Prec.rank, VT.mk.injEq]

example : commonScalarBackend ⟨.f32, 2⟩ ⟨.f64, 1⟩ = some ⟨.f64, 1⟩ ∧ commonScalarBackend ⟨.f32, 2⟩ ⟨.f64, 1⟩ = some ⟨.f64, 1⟩ :=
  ⟨by decide, by decide⟩

end Amgcl.C13b
