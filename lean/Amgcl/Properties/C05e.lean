import Amgcl.Model.SolverGivensStar
import Mathlib.Algebra.Star.Basic
import Mathlib.Algebra.Field.Basic
import Mathlib.Data.Complex.Basic
import Mathlib.Tactic.Ring
import Mathlib.Tactic.FieldSimp
import Mathlib.Tactic.LinearCombination
import Mathlib.Tactic.NormNum
/-!
# C05, complex value types: the Givens rotations of GMRES / FGMRES / LGMRES over a field with an involution

`K` is a field with a star operation (`StarRing K`: `star` is an involutive ring automorphism — complex conjugation on
`ℂ`, the identity on a real field).  `applyRotStar star · · c s` is the map `(a, b) ↦ (c̄ a + s̄ b, −s a + c b)` of
`apply_plane_rotation`; it preserves `ā a + b̄ b` for all `(a, b)` (is unitary) exactly when `c̄ c + s̄ s = 1`
(`rot_unitary_iff`).

* `genRotHerm_spec` — the REPAIRED `generate_plane_rotation` (`1 + adjoint(tmp) * tmp`) with an exact self-adjoint
  root produces a unitary rotation that annihilates `dy`.
* `genRotStar_annihilates` — the rotation AS WRITTEN (`1 + tmp * tmp`) still annihilates `dy`, but
* `genRotStar_unitary_iff` / `genRotStar_unitary_imp_selfadjoint` — it is unitary iff `|w|² = 1 + |tmp|²` for the
  root `w` of `1 + tmp²`, which forces `star tmp = tmp` (`tmp` real): for every non-real `tmp` the rotation the
  library generates is NOT unitary (`genRotStar_not_unitary`), so the rotated least-squares problem is not equivalent
  to the residual minimisation any more.  `genRotStar_unitary_of_selfadjoint` is the converse for real `tmp` and a
  self-adjoint root — the real instantiation (`Proofs/KrylovGivens.lean`, `genRot_spec`) is not affected.
* `gq_counterexample` — the executable model at the Gaussian rationals: `dx = −2/5 + 6/5 i`, `dy = 1`,
  `tmp = −1/4 − 3/4 i`, `1 + tmp² = 1/2 + 3/8 i = (3/4 + 1/4 i)²`: the generated `(cs, sn)` has
  `|cs|² + |sn|² = 13/5`, while the repaired text gives exactly `1`.

PARTIAL with respect to the job text ("unitary iff t² = |t|²"): over an abstract star field the statement proved is
`unitary ↔ star w * w = 1 + star t * t` and `unitary → star t = t`; `t² = |t|²` is `t * t = star t * t`, which for
`t ≠ 0` is the same as `star t = t` (`sq_eq_normSq_iff`).  The converse direction needs the root to be self-adjoint
(`genRotStar_unitary_of_selfadjoint`), true for the principal complex root of a positive real number.
-/
namespace Amgcl.C05e
open Amgcl.Solver

variable {K : Type} [Field K] [StarRing K]

/-- `ā a + b̄ b` -/
def nrm2 (a b : K) : K := star a * a + star b * b

omit [StarRing K] in
theorem inv1_eq (x : K) : inv1 x = 1 / x := rfl

/-- `apply_plane_rotation` scales the squared norm of every pair by `c̄ c + s̄ s` -/
theorem rot_scales_norm (c s a b : K) :
    nrm2 (applyRotStar star a b c s).1 (applyRotStar star a b c s).2 = (star c * c + star s * s) * nrm2 a b := by
  simp only [applyRotStar, nrm2, star_add, star_mul', star_neg, star_star]
  ring

/-- the plane rotation of `apply_plane_rotation` is unitary iff `c̄ c + s̄ s = 1` -/
theorem rot_unitary_iff (c s : K) :
    (∀ a b : K, nrm2 (applyRotStar star a b c s).1 (applyRotStar star a b c s).2 = nrm2 a b) ↔
      star c * c + star s * s = 1 := by
  constructor
  · intro h
    have h1 := h 1 0
    rw [rot_scales_norm] at h1
    simpa [nrm2] using h1
  · intro h a b
    rw [rot_scales_norm, h, one_mul]

/-- `t² = |t|²` iff `t` is self-adjoint (real), for `t ≠ 0` -/
theorem sq_eq_normSq_iff (t : K) (ht : t ≠ 0) : t * t = star t * t ↔ star t = t := by
  constructor
  · intro h
    exact (mul_right_cancel₀ ht h).symm
  · intro h
    rw [h]

/-- scalar core of the repaired rotation: `w² = 1 + t̄ t`, `w̄ = w ≠ 0`, `c = 1/w`, `s = t c` give `c̄ c + s̄ s = 1` -/
theorem herm_row_norm (t w : K) (hw : w * w = 1 + star t * t) (hws : star w = w) (hw0 : w ≠ 0) :
    star (1 / w) * (1 / w) + star (t * (1 / w)) * (t * (1 / w)) = 1 := by
  simp only [star_mul', star_div₀, star_one, hws]
  field_simp
  linear_combination -hw

/-- scalar core of the rotation as written: `w² = 1 + t t`, `c = 1/w`, `s = t c`:
`c̄ c + s̄ s = 1 ↔ w̄ w = 1 + t̄ t` -/
theorem ascoded_row_norm_iff (t w : K) (hw0 : w ≠ 0) :
    star (1 / w) * (1 / w) + star (t * (1 / w)) * (t * (1 / w)) = 1 ↔ star w * w = 1 + star t * t := by
  have hsw : star w ≠ 0 := star_ne_zero.mpr hw0
  simp only [star_mul', star_div₀, star_one]
  constructor
  · intro h
    field_simp at h
    linear_combination -h
  · intro h
    field_simp
    linear_combination -h

/-- `w² = 1 + t²` and `w̄ w = 1 + t̄ t` force `t̄ = t` -/
theorem selfadjoint_of_both (t w : K) (hw : w * w = 1 + t * t) (hu : star w * w = 1 + star t * t) : star t = t := by
  have h2 : star w * star w = 1 + star t * star t := by
    have := congrArg star hw
    simpa [star_add, star_mul', star_one] using this
  have hsq : (t - star t) ^ 2 = 0 := by
    linear_combination (-(star w * star w)) * hw - (1 + t * t) * h2 + (star w * w + (1 + star t * t)) * hu
  have := pow_eq_zero_iff (two_ne_zero) |>.mp hsq
  exact (sub_eq_zero.mp this).symm

section model
variable [DecidableEq K]

/-- hypotheses on the square root at the one number the repaired `generate_plane_rotation` applies it to -/
def HermRoot (sqrt : K → K) (t : K) : Prop :=
  sqrt (1 + star t * t) * sqrt (1 + star t * t) = 1 + star t * t ∧ star (sqrt (1 + star t * t)) = sqrt (1 + star t * t) ∧
    sqrt (1 + star t * t) ≠ 0

/-- the number `tmp` of `generate_plane_rotation` -/
def rotTmp (absLt : K → K → Bool) (dx dy : K) : K := if absLt dx dy then dx / dy else dy / dx

/-- REPAIRED text: for `dy ≠ 0` (and `dx ≠ 0` in the branch that divides by it — guaranteed there by
`|dx| ≥ |dy| > 0`) and an exact, self-adjoint, non-zero root, the generated rotation is unitary and annihilates `dy` -/
theorem genRotHerm_spec (sqrt : K → K) (absLt : K → K → Bool) (dx dy : K) (hdy : dy ≠ 0)
    (hdx : absLt dx dy = false → dx ≠ 0) (hroot : HermRoot sqrt (rotTmp absLt dx dy)) :
    star (genRotHerm sqrt star absLt dx dy).1 * (genRotHerm sqrt star absLt dx dy).1 +
        star (genRotHerm sqrt star absLt dx dy).2 * (genRotHerm sqrt star absLt dx dy).2 = 1 ∧
      (-(genRotHerm sqrt star absLt dx dy).2) * dx + (genRotHerm sqrt star absLt dx dy).1 * dy = 0 := by
  obtain ⟨hw, hws, hw0⟩ := hroot
  unfold rotTmp at hw hws hw0
  unfold genRotHerm
  rw [if_neg hdy]
  by_cases hb : absLt dx dy = true
  · rw [if_pos hb] at hw hws hw0
    simp only [if_pos hb, inv1_eq]
    refine ⟨?_, ?_⟩
    · have := herm_row_norm (dx / dy) _ hw hws hw0
      rw [add_comm]
      exact this
    · field_simp
      ring
  · have hb' : absLt dx dy = false := by simpa using hb
    have hdx' := hdx hb'
    rw [if_neg hb] at hw hws hw0
    simp only [if_neg hb, inv1_eq]
    refine ⟨herm_row_norm (dy / dx) _ hw hws hw0, ?_⟩
    field_simp
    ring

omit [StarRing K] in
/-- text AS WRITTEN: the rotation still annihilates `dy` (total division: also when the root is zero) -/
theorem genRotStar_annihilates (sqrt : K → K) (absLt : K → K → Bool) (dx dy : K)
    (hdx : absLt dx dy = false → dx ≠ 0) :
    (-(genRotStar sqrt absLt dx dy).2) * dx + (genRotStar sqrt absLt dx dy).1 * dy = 0 := by
  unfold genRotStar
  by_cases hdy : dy = 0
  · simp [hdy]
  rw [if_neg hdy]
  by_cases hb : absLt dx dy = true
  · simp only [if_pos hb, inv1_eq]
    field_simp
    ring
  · have hb' : absLt dx dy = false := by simpa using hb
    have hdx' := hdx hb'
    simp only [if_neg hb, inv1_eq]
    field_simp
    ring

/-- text AS WRITTEN, `dy ≠ 0`, exact non-zero root `w` of `1 + tmp²`: the rotation is unitary iff `w̄ w = 1 + |tmp|²` -/
theorem genRotStar_unitary_iff (sqrt : K → K) (absLt : K → K → Bool) (dx dy : K) (hdy : dy ≠ 0)
    (hw0 : sqrt (1 + rotTmp absLt dx dy * rotTmp absLt dx dy) ≠ 0) :
    star (genRotStar sqrt absLt dx dy).1 * (genRotStar sqrt absLt dx dy).1 +
        star (genRotStar sqrt absLt dx dy).2 * (genRotStar sqrt absLt dx dy).2 = 1 ↔
      star (sqrt (1 + rotTmp absLt dx dy * rotTmp absLt dx dy)) * sqrt (1 + rotTmp absLt dx dy * rotTmp absLt dx dy) =
        1 + star (rotTmp absLt dx dy) * rotTmp absLt dx dy := by
  unfold rotTmp at hw0 ⊢
  unfold genRotStar
  rw [if_neg hdy]
  by_cases hb : absLt dx dy = true
  · rw [if_pos hb] at hw0
    simp only [if_pos hb, inv1_eq]
    rw [add_comm]
    exact ascoded_row_norm_iff (dx / dy) _ hw0
  · rw [if_neg hb] at hw0
    simp only [if_neg hb, inv1_eq]
    exact ascoded_row_norm_iff (dy / dx) _ hw0

/-- text AS WRITTEN: if the generated rotation is unitary then `tmp` is self-adjoint (real) -/
theorem genRotStar_unitary_imp_selfadjoint (sqrt : K → K) (absLt : K → K → Bool) (dx dy : K) (hdy : dy ≠ 0)
    (hw : sqrt (1 + rotTmp absLt dx dy * rotTmp absLt dx dy) * sqrt (1 + rotTmp absLt dx dy * rotTmp absLt dx dy) =
      1 + rotTmp absLt dx dy * rotTmp absLt dx dy)
    (hw0 : sqrt (1 + rotTmp absLt dx dy * rotTmp absLt dx dy) ≠ 0)
    (hu : star (genRotStar sqrt absLt dx dy).1 * (genRotStar sqrt absLt dx dy).1 +
        star (genRotStar sqrt absLt dx dy).2 * (genRotStar sqrt absLt dx dy).2 = 1) :
    star (rotTmp absLt dx dy) = rotTmp absLt dx dy :=
  selfadjoint_of_both _ _ hw ((genRotStar_unitary_iff sqrt absLt dx dy hdy hw0).mp hu)

/-- text AS WRITTEN: for every non-real `tmp` (exact non-zero root) the generated rotation is NOT unitary:
some pair `(a, b)` changes its norm under `apply_plane_rotation` -/
theorem genRotStar_not_unitary (sqrt : K → K) (absLt : K → K → Bool) (dx dy : K) (hdy : dy ≠ 0)
    (hw : sqrt (1 + rotTmp absLt dx dy * rotTmp absLt dx dy) * sqrt (1 + rotTmp absLt dx dy * rotTmp absLt dx dy) =
      1 + rotTmp absLt dx dy * rotTmp absLt dx dy)
    (hw0 : sqrt (1 + rotTmp absLt dx dy * rotTmp absLt dx dy) ≠ 0)
    (hnr : star (rotTmp absLt dx dy) ≠ rotTmp absLt dx dy) :
    ¬ ∀ a b : K, nrm2 (applyRotStar star a b (genRotStar sqrt absLt dx dy).1 (genRotStar sqrt absLt dx dy).2).1
        (applyRotStar star a b (genRotStar sqrt absLt dx dy).1 (genRotStar sqrt absLt dx dy).2).2 = nrm2 a b := by
  intro h
  exact hnr (genRotStar_unitary_imp_selfadjoint sqrt absLt dx dy hdy hw hw0 ((rot_unitary_iff _ _).mp h))

/-- text AS WRITTEN, real `tmp` and self-adjoint exact root (the real instantiation): unitary -/
theorem genRotStar_unitary_of_selfadjoint (sqrt : K → K) (absLt : K → K → Bool) (dx dy : K) (hdy : dy ≠ 0)
    (hw : sqrt (1 + rotTmp absLt dx dy * rotTmp absLt dx dy) * sqrt (1 + rotTmp absLt dx dy * rotTmp absLt dx dy) =
      1 + rotTmp absLt dx dy * rotTmp absLt dx dy)
    (hws : star (sqrt (1 + rotTmp absLt dx dy * rotTmp absLt dx dy)) = sqrt (1 + rotTmp absLt dx dy * rotTmp absLt dx dy))
    (hw0 : sqrt (1 + rotTmp absLt dx dy * rotTmp absLt dx dy) ≠ 0)
    (ht : star (rotTmp absLt dx dy) = rotTmp absLt dx dy) :
    star (genRotStar sqrt absLt dx dy).1 * (genRotStar sqrt absLt dx dy).1 +
        star (genRotStar sqrt absLt dx dy).2 * (genRotStar sqrt absLt dx dy).2 = 1 := by
  rw [genRotStar_unitary_iff sqrt absLt dx dy hdy hw0, hws, ht]
  exact hw

end model

/-! ### non-vacuity: the hypotheses are satisfiable at `ℂ`, with a NON-real `tmp` -/

/-- `tmp = −1/4 − 3/4 i`, `w = 3/4 + 1/4 i`: `w² = 1 + tmp²`, `w ≠ 0`, `tmp` not real — the hypotheses of
`genRotStar_not_unitary` hold for `dx = 1`, `dy = tmp`, `sqrt = fun _ => w`, `absLt = fun _ _ => false` -/
example : ∃ (sqrt : ℂ → ℂ) (absLt : ℂ → ℂ → Bool) (dx dy : ℂ), dy ≠ 0 ∧
    sqrt (1 + @rotTmp ℂ _ absLt dx dy * @rotTmp ℂ _ absLt dx dy) * sqrt (1 + @rotTmp ℂ _ absLt dx dy * @rotTmp ℂ _ absLt dx dy)
      = 1 + @rotTmp ℂ _ absLt dx dy * @rotTmp ℂ _ absLt dx dy ∧
    sqrt (1 + @rotTmp ℂ _ absLt dx dy * @rotTmp ℂ _ absLt dx dy) ≠ 0 ∧
    star (@rotTmp ℂ _ absLt dx dy) ≠ @rotTmp ℂ _ absLt dx dy := by
  refine ⟨fun _ => ⟨3 / 4, 1 / 4⟩, fun _ _ => false, 1, ⟨-1 / 4, -3 / 4⟩, ?_, ?_, ?_, ?_⟩
  · intro h
    have := congrArg Complex.re h
    norm_num at this
  · simp only [rotTmp, Bool.false_eq_true, if_false, div_one]
    apply Complex.ext <;> simp <;> norm_num
  · intro h
    have := congrArg Complex.re h
    norm_num at this
  · simp only [rotTmp, Bool.false_eq_true, if_false, div_one]
    intro h
    have := congrArg Complex.im h
    simp at this
    norm_num at this

/-- the hypotheses of `genRotHerm_spec` hold at `ℂ` for `dx = 1`, `dy = 3/4 i`: `1 + |tmp|² = 25/16 = (5/4)²` -/
example : ∃ (sqrt : ℂ → ℂ) (absLt : ℂ → ℂ → Bool) (dx dy : ℂ), dy ≠ 0 ∧ (absLt dx dy = false → dx ≠ 0) ∧
    @HermRoot ℂ _ _ sqrt (@rotTmp ℂ _ absLt dx dy) := by
  refine ⟨fun _ => ⟨5 / 4, 0⟩, fun _ _ => false, 1, ⟨0, 3 / 4⟩, ?_, fun _ => one_ne_zero, ?_, ?_, ?_⟩
  · intro h
    have := congrArg Complex.im h
    norm_num at this
  · simp only [rotTmp, Bool.false_eq_true, if_false, div_one]
    apply Complex.ext <;> (simp; try norm_num)
  · apply Complex.ext <;> simp
  · intro h
    have := congrArg Complex.re h
    norm_num at this

/-! ### the executable model at the Gaussian rationals -/

/-- exact root on the one number met: `sqrt (1/2 + 3/8 i) = 3/4 + 1/4 i`, and `sqrt (13/8) ` is not needed -/
def gqSqrt (x : GQ) : GQ := if x = ⟨1 / 2, 3 / 8⟩ then ⟨3 / 4, 1 / 4⟩ else if x = ⟨25 / 16, 0⟩ then ⟨5 / 4, 0⟩ else ⟨0, 0⟩

/-- `|cs|² + |sn|²` of a generated rotation -/
def gqRowNorm (g : GQ × GQ) : Rat := GQ.normSq g.1 + GQ.normSq g.2

/-- AS WRITTEN at `dx = −2/5 + 6/5 i`, `dy = 1` (`tmp = dy/dx = −1/4 − 3/4 i`, root exact): the rotation annihilates
`dy` but `|cs|² + |sn|² = 13/5 ≠ 1`; the same statements with `1 + adjoint(tmp)*tmp` at `dx = 4/3 i`, `dy = 1`
(`tmp = −3/4 i`, `1 + |tmp|² = 25/16`, root `5/4`) give exactly `1` -/
theorem gq_counterexample :
    gqRowNorm (genRotStar gqSqrt GQ.absLt ⟨-2 / 5, 6 / 5⟩ ⟨1, 0⟩) = 13 / 5 ∧
    (let g := genRotStar gqSqrt GQ.absLt ⟨-2 / 5, 6 / 5⟩ ⟨1, 0⟩
     (applyRotStar GQ.conj ⟨-2 / 5, 6 / 5⟩ ⟨1, 0⟩ g.1 g.2).2 = 0) ∧
    gqRowNorm (genRotHerm gqSqrt GQ.conj GQ.absLt ⟨0, 4 / 3⟩ ⟨1, 0⟩) = 1 ∧
    (let g := genRotHerm gqSqrt GQ.conj GQ.absLt ⟨0, 4 / 3⟩ ⟨1, 0⟩
     (applyRotStar GQ.conj ⟨0, 4 / 3⟩ ⟨1, 0⟩ g.1 g.2).2 = 0) := by
  decide +kernel

end Amgcl.C05e
