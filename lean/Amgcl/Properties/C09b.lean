import Amgcl.Properties.C09
import Amgcl.Proofs.SchedLocal
/-!
# C09 (continued) — the theorems of `C09.lean` for the data layout the code actually executes

`parallel_sweep::sweep` and `sptr_solve::solve` never read the matrix: step 4 of the constructors copies, per thread,
the rows the thread owns into thread-local arrays `ptr/col/val` (+ `D` for the upper ILU solve) in the order of the
thread's tasks, re-bases every `task(beg,end)` to thread-local row numbers, and the loops run over *those* arrays
(`Model/ScheduleLocal.lean`: `constructorLoc`, `gsLocRow`, `iluLocRow`, events `(tid, r)`, `ExecLoc`).

* `constructor_local_eq_spec`   step 4 executed statement by statement (`locFill`: the task loop, the row loop,
  `push_back`s, `loc_beg/loc_end`) = its closed form, for every matrix, level vector, `nlev`, thread count.
* `local_copy_faithful`   for every thread `tid < nt` and local row `r`: `ord[tid]` is the concatenation of the rows of
  the thread's tasks; local row `r` (`col/val[ptr[r] .. ptr[r+1])`) is row `ord[tid][r]` of `A`, the same entries in
  the same order; `ptr[r+1] = ptr[r] + |row|`; `D[tid][r] = _D[ord[tid][r]]`; array sizes.
* `local_tasks_rebased`   every thread has `nlev` tasks; task `lev` is the local range behind the rows of the tasks in
  front of it, inside `ord[tid]`, and gathers exactly the rows `constructorLit[tid][lev]` in order.
* `reserve_exact`   the counters `thread_rows/thread_cols` of step 3 are the final sizes of `ord[tid]`/`col[tid]`.
* `local_sweep_in_bounds`   every read `ord[r]`, `ptr[r]`, `ptr[r+1]`, `col[j]`, `val[j]`, `D[r]` of `sweep`/`solve` is in
  bounds (the model's arrays read 0 out of range, so this is a separate statement).
* `local_sweep_eq_row_sweep`, `local_solve_eq_row_solve`   a task executed on the thread-local arrays performs exactly
  the row updates `gsRow A rhs` / `iluRow lower A D` for the rows of that task in order.
* `local_loads_eq_row_loads`   the literal loops load the same locations of `x` in the same order as the row programs of
  the load/store semantics of `C09.lean`.
* `literal_exec_is_exec`   every event sequence the skeleton admits over the literal tables, read through `ord`, is an
  execution in the sense of `C09.lean` over the literal task table.
* `gs_parallel_sweep_literal_eq_serial`, `ilu_sptr_solve_literal_eq_rowwise`, `ilu_sptr_solve_literal_eq_serial`,
  `ilu_parallel_solve_literal_eq_serial`   end to end: every interleaving the barrier skeleton permits of the LITERAL
  loops over the LITERAL thread-local tables equals the serial sweep / solve — every pattern (Gauss–Seidel: no
  symmetry hypothesis, level loop of the repaired tree; ILU: strictly triangular factors), every `nt ≥ 1`.
* `thread_order_is_execution`   the hypothesis is satisfiable for every input.
* `gs_literal_thread_indep`   hence the result does not depend on the team size or on the interleaving.
-/
namespace Amgcl.C09b
open Amgcl Amgcl.Sched

/-! ## step 4 = its closed form; the local copy is faithful -/
section tables
set_option linter.unusedSectionVars false
variable {K : Type} [Zero K]

/-- **Step 4, statement by statement = its closed form**: for every matrix, every `(level, nlev)`, every thread count,
the thread-specific storage the constructor builds (`constructorLoc`: per thread the task loop with `loc_beg/loc_end`,
the row loop with its `push_back`s) is, thread by thread, `locSpec` of the thread's row table: `ord` = the rows of its
tasks in task order, `col/val` = those rows of `A` concatenated, `ptr` = the running entry count, `D` = `_D` gathered
through `ord`, tasks = consecutive ranges of local rows. -/
theorem constructor_local_eq_spec (A : CRS K) (hasD : Bool) (Dv : Vec K) (ln : Array Nat × Nat) (nt : Nat) :
    constructorLoc A hasD Dv ln nt = (constructorLit ln nt).map (locSpec A hasD Dv) :=
  constructorLoc_eq A hasD Dv ln nt

example : gsConstructorLoc true (⟨5, #[[(0, 1), (3, 1)], [(1, 1)], [(1, 1), (2, 1)], [(3, 1)], [(4, 1), (1, 2)]]⟩ : CRS Int) 4
    = [⟨[(0, 1), (1, 2)], #[0, 2, 4], #[0, 3, 1, 2], #[1, 1, 1, 1], #[0, 2], #[]⟩,
       ⟨[(0, 1), (1, 2)], #[0, 1, 2], #[1, 3], #[1, 1], #[1, 3], #[]⟩,
       ⟨[(0, 0), (0, 1)], #[0, 2], #[4, 1], #[1, 2], #[4], #[]⟩,
       ⟨[(0, 0), (0, 0)], #[0], #[], #[], #[], #[]⟩] := by decide +kernel

/-- **The thread-local copy is faithful**: for every matrix, every thread count, every thread `tid < nt`:
`ord[tid]` lists the rows of the thread's tasks in task order; `ptr[tid]` has one more element than `ord[tid]`, starts
at 0 and ends at `col[tid].size() = val[tid].size()`; `D[tid]` has one element per local row (upper ILU solve) or is
empty; and for every local row `r`: the entries `(col[tid][j], val[tid][j])`, `ptr[tid][r] ≤ j < ptr[tid][r+1]`, are
the entries of row `ord[tid][r]` of `A` in the same order, `ptr[tid][r+1] = ptr[tid][r] + |row|`, and
`D[tid][r] = _D[ord[tid][r]]`. -/
theorem local_copy_faithful (A : CRS K) (hasD : Bool) (Dv : Vec K) (ln : Array Nat × Nat) (nt tid : Nat)
    (htid : tid < nt) :
    let L := (constructorLoc A hasD Dv ln nt).getD tid Loc.empty
    let rows := ((constructorLit ln nt).getD tid []).flatten
    L.ord = rows.toArray
    ∧ L.ptr.size = rows.length + 1 ∧ L.ptr.getD 0 0 = 0 ∧ L.ptr.getD rows.length 0 = L.col.size
    ∧ L.col.size = L.val.size ∧ L.D.size = (if hasD then rows.length else 0)
    ∧ ∀ r, r < rows.length →
        L.row r = A.row (L.ord.getD r 0)
        ∧ L.ptr.getD (r + 1) 0 = L.ptr.getD r 0 + (A.row (L.ord.getD r 0)).length
        ∧ (hasD = true → L.D.getD r 0 = Dv.getD (L.ord.getD r 0) 0) := by
  intro L rows
  have hL : L = locSpec A hasD Dv ((constructorLit ln nt).getD tid []) := by
    show (constructorLoc A hasD Dv ln nt).getD tid Loc.empty = _
    rw [constructorLoc_eq, specTables_getD A hasD Dv _ tid (by rw [constructorLit_length]; exact htid)]
  rw [hL]
  obtain ⟨h1, _, h3, h4, h5, h6, h7⟩ := locSpec_shape A hasD Dv ((constructorLit ln nt).getD tid [])
  refine ⟨h1, h3, h4, h5, h6, h7, ?_⟩
  intro r hr
  refine ⟨locSpec_row A hasD Dv _ r hr, locSpec_ptr_succ A hasD Dv _ r hr, ?_⟩
  intro hD
  subst hD
  exact locSpec_D A Dv _ r hr

/-- non-vacuity: thread 0 of the 5×5 example owns rows 0 (level 0) and 2 (level 1); its local row 1 is row 2 of `A` -/
example : ((gsConstructorLoc true (⟨5, #[[(0, 1), (3, 1)], [(1, 1)], [(1, 1), (2, 1)], [(3, 1)], [(4, 1), (1, 2)]]⟩ : CRS Int) 4).getD 0
    Loc.empty).row 1 = [(1, 1), (2, 1)] := by decide +kernel
/-- … and the upper ILU solve gathers `D` through `ord` -/
example : ((iluConstructorLoc false (⟨4, #[[(1, 2), (3, 1)], [(2, 3)], [], []]⟩ : CRS Int) #[2, 3, 5, 7] 4).map
    fun L => (L.ord, L.D)) = [(#[2, 1, 0], #[5, 3, 2]), (#[3], #[7]), (#[], #[]), (#[], #[])] := by decide +kernel

/-- **The task ranges are re-based correctly**: every thread `tid < nt` has `nlev` tasks; task `lev` is the range of
local rows that starts behind the rows of the thread's tasks `0..lev-1` and has as many rows as the task had in
`order`; reading `ord[tid]` over that range gives exactly the rows of the task (`constructorLit[tid][lev]` — by
`C09.constructor_literal_eq_spec` the `tid`-th chunk of level `lev`) in order; every range lies inside `ord[tid]`. -/
theorem local_tasks_rebased (A : CRS K) (hasD : Bool) (Dv : Vec K) (ln : Array Nat × Nat) (nt tid : Nat)
    (htid : tid < nt) :
    let L := (constructorLoc A hasD Dv ln nt).getD tid Loc.empty
    let ts := (constructorLit ln nt).getD tid []
    L.tasks.length = ln.2 ∧ ts.length = ln.2
    ∧ (∀ lev, lev < ln.2 →
        L.tasks.getD lev (0, 0)
          = ((ts.take lev).flatten.length, (ts.take lev).flatten.length + (ts.getD lev []).length)
        ∧ (locTaskRows (L.tasks.getD lev (0, 0))).map (fun r => L.ord.getD r 0) = ts.getD lev [])
    ∧ ∀ t ∈ L.tasks, t.1 ≤ t.2 ∧ t.2 ≤ L.ord.size := by
  intro L ts
  have hL : L = locSpec A hasD Dv ts := by
    show (constructorLoc A hasD Dv ln nt).getD tid Loc.empty = _
    rw [constructorLoc_eq, specTables_getD A hasD Dv _ tid (by rw [constructorLit_length]; exact htid)]
  have hlen : ts.length = ln.2 := constructorLit_getD_length ln nt tid htid
  rw [hL]
  refine ⟨by show (localTasks ts).length = _; rw [localTasks_length, hlen], hlen, ?_, ?_⟩
  · intro lev hlev
    have hl : lev < ts.length := by omega
    refine ⟨localTasks_getD ts lev hl, ?_⟩
    have := locSpec_task_rows ts lev hl
    rw [← this]
    apply List.map_congr_left
    intro r _
    exact toArray_getD _ _ _
  · intro t ht
    have := localTasks_bounds ts t ht
    exact ⟨this.1, by show t.2 ≤ ts.flatten.toArray.size; simpa using this.2⟩

example : (gsConstructorLoc false (⟨5, #[[(0, 1), (3, 1)], [(1, 1)], [(1, 1), (2, 1)], [(3, 1)], [(4, 1), (1, 2)]]⟩ : CRS Int) 4).map
    (fun L => (L.tasks, L.ord)) = [([(0, 1), (1, 2)], #[2, 0]), ([(0, 1), (1, 2)], #[3, 1]), ([(0, 1), (1, 1)], #[4]),
      ([(0, 0), (0, 0)], #[])] := by decide +kernel

/-- **`reserve` is exact**: the counters of step 3 (`thread_rows[tid] += end - beg`, `thread_cols[tid] +=
row_nonzeros(A, order[i])` over the thread's tasks) are the final sizes of `ord[tid]` and of `col[tid]`
(hence `ptr[tid]` ends with `thread_rows[tid] + 1` elements) — for every matrix, `order` and task list. -/
theorem reserve_exact (A : CRS K) (hasD : Bool) (Dv : Vec K) (order : Array Nat) (tasks : List (Nat × Nat)) :
    threadCounts A order tasks
      = ((locFill A hasD Dv order tasks).ord.size, (locFill A hasD Dv order tasks).col.size) :=
  threadCounts_eq A hasD Dv order tasks

example : threadCounts (⟨5, #[[(0, 1), (3, 1)], [(1, 1)], [(1, 1), (2, 1)], [(3, 1)], [(4, 1), (1, 2)]]⟩ : CRS Int)
    #[0, 1, 3, 2, 4] [(0, 1), (3, 4)] = (2, 4) := by decide +kernel

/-- **Every array read of `sweep`/`solve` is in bounds**: for every thread `tid < nt`, every task `t` of the thread
and every `r` with `t.beg ≤ r < t.end`: `ord[tid][r]`, `ptr[tid][r]`, `ptr[tid][r+1]` and (upper ILU solve)
`D[tid][r]` exist, `ptr[tid][r] ≤ ptr[tid][r+1]`, and every `j < ptr[tid][r+1]` indexes `col[tid]` and `val[tid]`. -/
theorem local_sweep_in_bounds (A : CRS K) (hasD : Bool) (Dv : Vec K) (ln : Array Nat × Nat) (nt tid : Nat)
    (htid : tid < nt) :
    let L := (constructorLoc A hasD Dv ln nt).getD tid Loc.empty
    ∀ t ∈ L.tasks, ∀ r ∈ locTaskRows t,
      r < L.ord.size ∧ r + 1 < L.ptr.size ∧ (hasD = true → r < L.D.size)
      ∧ L.ptr.getD r 0 ≤ L.ptr.getD (r + 1) 0 ∧ L.ptr.getD (r + 1) 0 ≤ L.col.size
      ∧ L.ptr.getD (r + 1) 0 ≤ L.val.size := by
  dsimp only
  intro t ht r hr
  obtain ⟨hord, hps, _, hlast, hcv, hD, hrow⟩ := local_copy_faithful A hasD Dv ln nt tid htid
  obtain ⟨_, _, _, hb⟩ := local_tasks_rebased A hasD Dv ln nt tid htid
  have hb := hb t ht
  have hr' := locTaskRows_lt t r hr
  have hsz : ((constructorLoc A hasD Dv ln nt).getD tid Loc.empty).ord.size
      = (((constructorLit ln nt).getD tid []).flatten).length := by
    rw [hord]; simp
  generalize (constructorLoc A hasD Dv ln nt).getD tid Loc.empty = L at *
  generalize (((constructorLit ln nt).getD tid []).flatten).length = n at *
  have hlt : r < n := by omega
  -- `ptr` is non-decreasing, so `ptr[r+1] ≤ ptr[last] = col.size`
  have hmono : ∀ k, r + 1 + k ≤ n → L.ptr.getD (r + 1) 0 ≤ L.ptr.getD (r + 1 + k) 0 := by
    intro k
    induction k with
    | zero => intro _; exact Nat.le_refl _
    | succ k ih =>
      intro hk
      have := (hrow (r + 1 + k) (by omega)).2.1
      have ih' := ih (by omega)
      have e : r + 1 + (k + 1) = r + 1 + k + 1 := by omega
      rw [e, this]
      omega
  have hend := hmono (n - (r + 1)) (by omega)
  rw [show r + 1 + (n - (r + 1)) = n by omega, hlast] at hend
  have hstep := (hrow r hlt).2.1
  refine ⟨by omega, by omega, ?_, by omega, hend, by omega⟩
  intro h
  subst h
  simp only [if_true] at hD
  omega

end tables

/-! ## a task on the thread-local arrays = the row updates of `A` -/
section taskrun
set_option linter.unusedSectionVars false
variable {K : Type} [Add K] [Mul K] [Sub K] [Zero K] [One K] [Div K]

/-- **Gauss–Seidel: executing a task on the thread-local arrays performs exactly the row updates `gsRow A rhs` for the
rows of that task, in order** — for every matrix, every `(level, nlev)`, every thread `tid < nt` and every task `lev`
(any carrier, no algebraic law). -/
theorem local_sweep_eq_row_sweep (A : CRS K) (rhs : Vec K) (ln : Array Nat × Nat) (nt tid lev : Nat)
    (htid : tid < nt) (hlev : lev < ln.2) (x : Vec K) :
    let L := (constructorLoc A false #[] ln nt).getD tid Loc.empty
    gsLocTask L rhs x (L.tasks.getD lev (0, 0))
      = runRows (gsRow A rhs) (((constructorLit ln nt).getD tid []).getD lev []) x := by
  intro L
  have hL : L = locSpec A false #[] ((constructorLit ln nt).getD tid []) := by
    show (constructorLoc A false #[] ln nt).getD tid Loc.empty = _
    rw [constructorLoc_eq, specTables_getD A false #[] _ tid (by rw [constructorLit_length]; exact htid)]
  rw [hL]
  exact gsLocTask_spec A rhs _ lev (by rw [constructorLit_getD_length ln nt tid htid]; exact hlev) x

/-- **ILU: the same for `sptr_solve<lower>`** (`hasD = !lower`): a task performs the row updates `iluRow lower A D`
(`x[i] -= Σ val·x[col]`, resp. `x[i] = D[i]·(x[i] − Σ val·x[col])`) of its rows in order. -/
theorem local_solve_eq_row_solve (lower : Bool) (A : CRS K) (Dv : Vec K) (ln : Array Nat × Nat) (nt tid lev : Nat)
    (htid : tid < nt) (hlev : lev < ln.2) (x : Vec K) :
    let L := (constructorLoc A (!lower) Dv ln nt).getD tid Loc.empty
    iluLocTask lower L x (L.tasks.getD lev (0, 0))
      = runRows (iluRow lower A Dv) (((constructorLit ln nt).getD tid []).getD lev []) x := by
  intro L
  have hL : L = locSpec A (!lower) Dv ((constructorLit ln nt).getD tid []) := by
    show (constructorLoc A (!lower) Dv ln nt).getD tid Loc.empty = _
    rw [constructorLoc_eq, specTables_getD A (!lower) Dv _ tid (by rw [constructorLit_length]; exact htid)]
  rw [hL]
  exact iluLocTask_spec lower A Dv _ lev (by rw [constructorLit_getD_length ln nt tid htid]; exact hlev) x

/-- **The literal loops load the same locations of `x` in the same order as the row programs of the load/store
semantics** (`Model/ScheduleMicro.lean`: `gsProg`, `iluProg`), so the theorems `C09.*_any_load_store_interleaving_*`
speak about the memory accesses of the loops over the thread-local arrays as well (the arrays themselves are
read-only during `sweep`/`solve`). -/
theorem local_loads_eq_row_loads (lower : Bool) (A : CRS K) (rhs Dv : Vec K) (hasD : Bool) (ln : Array Nat × Nat)
    (nt tid : Nat) (htid : tid < nt) :
    let L := (constructorLoc A hasD Dv ln nt).getD tid Loc.empty
    ∀ r, r < ((constructorLit ln nt).getD tid []).flatten.length →
      gsLocLoads L r = (gsProg A rhs).loads (L.ord.getD r 0)
      ∧ iluLocLoads L r = (iluProg lower A Dv).loads (L.ord.getD r 0) := by
  intro L r hr
  have h := ((local_copy_faithful A hasD Dv ln nt tid htid).2.2.2.2.2.2 r hr).1
  have hc : L.cols r = (L.row r).map Prod.fst := by
    unfold Loc.cols Loc.row
    rw [List.map_map]
    rfl
  unfold gsLocLoads iluLocLoads
  rw [hc]
  exact ⟨by rw [h]; rfl, by rw [h]; rfl⟩

example : gsLocLoads ((gsConstructorLoc true (⟨5, #[[(0, 1), (3, 1)], [(1, 1)], [(1, 1), (2, 1)], [(3, 1)], [(4, 1), (1, 2)]]⟩ : CRS Int) 4).getD 0 Loc.empty) 1
    = [1] := by decide +kernel

/-- non-vacuity: thread 0, task 1 of the 5×5 example is local row 1 = row 2 of `A`: `x[2] = rhs[2] − x[1]` -/
example : gsLocTask ((gsConstructorLoc true (⟨5, #[[(0, 1), (3, 1)], [(1, 1)], [(1, 1), (2, 1)], [(3, 1)], [(4, 1), (1, 2)]]⟩ : CRS Int) 4).getD 0 Loc.empty)
    #[1, 2, 3, 4, 5] #[10, 20, 30, 40, 50] (1, 2) = #[10, 20, -17, 40, 50] := by decide +kernel

end taskrun

/-! ## executions over the literal tables -/
section exec
set_option linter.unusedSectionVars false
variable {K : Type} [Zero K]

/-- **Every event sequence the skeleton admits over the literal tables is, read through `ord`, an execution over the
literal task table** (`Exec` of `C09.lean`), and each of its events is a local row of its thread — for every
skeleton, matrix, `(level, nlev)` and `nt ≥ 1`. -/
theorem literal_exec_is_exec (sk : Skeleton) (A : CRS K) (hasD : Bool) (Dv : Vec K) (ln : Array Nat × Nat) (nt : Nat)
    (hnt : 1 ≤ nt) (σ : List Ev) (hσ : ExecLoc sk (constructorLoc A hasD Dv ln nt) σ) :
    Exec sk (constructorLit ln nt) ln.2 (σ.map (rowOfEv (constructorLoc A hasD Dv ln nt))) := by
  unfold ExecLoc at hσ
  have h := ExecG.map (rowOfEv (constructorLoc A hasD Dv ln nt)) sk hσ
  rw [constructorLoc_eq, evTable_spec_map, nlevLoc_spec, constructorLit_getD_length ln nt 0 (by omega)] at h
  rw [constructorLoc_eq]
  exact h

/-- **the hypothesis of the end-to-end theorems is satisfiable for every input**: running, task after task, the
threads in thread order is admitted by every skeleton that has the level barrier -/
theorem thread_order_is_execution (sk : Skeleton) (hsk : sk.levelBarrier = true) (Ls : List (Loc K)) :
    ExecLoc sk Ls (threadOrderG (evTable Ls) (nlevLoc Ls)) := by
  unfold ExecLoc ExecG
  rw [if_pos hsk]
  exact LevelwiseExecG.threadOrder _ _

example : threadOrderG (evTable (gsConstructorLoc true (⟨5, #[[(0, 1), (3, 1)], [(1, 1)], [(1, 1), (2, 1)], [(3, 1)], [(4, 1), (1, 2)]]⟩ : CRS Int) 4))
    (nlevLoc (gsConstructorLoc true (⟨5, #[[(0, 1), (3, 1)], [(1, 1)], [(1, 1), (2, 1)], [(3, 1)], [(4, 1), (1, 2)]]⟩ : CRS Int) 4))
    = [(0, 0), (1, 0), (0, 1), (1, 1), (2, 0)] := by decide +kernel

end exec

/-! ## end to end: literal loops over literal tables, every admitted interleaving = serial -/
section gs
set_option linter.unusedSectionVars false
variable {K : Type} [Add K] [Mul K] [Sub K] [Zero K] [One K] [Div K]

/-- **Gauss–Seidel, the code's actual data layout**: for every matrix (any pattern: non-symmetric, unsorted rows,
duplicates, missing diagonals — level loop of the repaired tree), every right-hand side, every thread count `nt ≥ 1`
and every sequence `σ` of events `(tid, r)` that the loop/pragma skeleton of `sweep` admits over the thread-local
tables built by the literal constructor (steps 1–4), the literal `sweep` loop — which reads only `tasks[tid]`,
`ord[tid]`, `ptr[tid]`, `col[tid]`, `val[tid]` — returns what `serial_sweep` returns on `A`.  Any carrier, no
algebraic law: bit-identical. -/
theorem gs_parallel_sweep_literal_eq_serial (fwd : Bool) (A : CRS K) (rhs : Vec K) (nt : Nat) (hnt : 1 ≤ nt)
    (σ : List Ev) (hσ : ExecLoc gsExpectedSkeleton (gsConstructorLoc fwd A nt) σ) (x : Vec K) :
    gsSweepLoc (gsConstructorLoc fwd A nt) rhs σ x = gsSerialSweep fwd A rhs x := by
  unfold gsConstructorLoc at hσ ⊢
  have hexec := literal_exec_is_exec gsExpectedSkeleton A false #[] _ nt hnt σ hσ
  have hvalid : ∀ e ∈ σ, e.1 < (constructorLit (gsLevelsN fwd (pattern A)) nt).length
      ∧ e.2 < ((constructorLit (gsLevelsN fwd (pattern A)) nt).getD e.1 []).flatten.length := by
    unfold ExecLoc ExecG at hσ
    rw [if_pos (by decide), constructorLoc_eq] at hσ
    exact levelwise_valid A false #[] _ _ σ hσ
  rw [constructorLoc_eq] at hexec ⊢
  rw [gsSweepLoc_spec A rhs _ σ hvalid x]
  rw [(C09.constructor_literal_eq_spec fwd (pattern A) nt).1, gsLevelsN_eq] at hexec
  rw [(C09.constructor_literal_eq_spec fwd (pattern A) nt).1]
  exact C09.gs_any_interleaving_eq_serial fwd A rhs nt hnt _ hexec x

/-- non-vacuity and a concrete instance: forward sweep, non-symmetric 5×5 pattern, 4 threads, thread order -/
example : gsSweepLoc (gsConstructorLoc true (⟨5, #[[(0, 1), (3, 1)], [(1, 1)], [(1, 1), (2, 1)], [(3, 1)], [(4, 1), (1, 2)]]⟩ : CRS Int) 4)
    #[1, 2, 3, 4, 5] [(0, 0), (1, 0), (0, 1), (1, 1), (2, 0)] #[10, 20, 30, 40, 50] = #[-39, 2, 1, 4, 1]
    ∧ gsSerialSweep true (⟨5, #[[(0, 1), (3, 1)], [(1, 1)], [(1, 1), (2, 1)], [(3, 1)], [(4, 1), (1, 2)]]⟩ : CRS Int)
        #[1, 2, 3, 4, 5] #[10, 20, 30, 40, 50] = #[-39, 2, 1, 4, 1] := by decide +kernel

example (A : CRS Int) (rhs x : Vec Int) :
    gsSweepLoc (gsConstructorLoc false A 5) rhs
      (threadOrderG (evTable (gsConstructorLoc false A 5)) (nlevLoc (gsConstructorLoc false A 5))) x
      = gsSerialSweep false A rhs x :=
  gs_parallel_sweep_literal_eq_serial false A rhs 5 (by decide) _ (thread_order_is_execution _ (by decide) _) x

/-- the same for the level loop of the unpatched tree, structurally symmetric patterns only
(`C09.gs_asis_any_interleaving_eq_serial_partial` on the literal tables) -/
theorem gs_asis_parallel_sweep_literal_eq_serial_partial (fwd : Bool) (A : CRS K) (hsym : StructSymm (pattern A))
    (rhs : Vec K) (nt : Nat) (hnt : 1 ≤ nt) (σ : List Ev)
    (hσ : ExecLoc gsExpectedSkeleton (gsAsIsConstructorLoc fwd A nt) σ) (x : Vec K) :
    gsSweepLoc (gsAsIsConstructorLoc fwd A nt) rhs σ x = gsSerialSweep fwd A rhs x := by
  unfold gsAsIsConstructorLoc at hσ ⊢
  have hexec := literal_exec_is_exec gsExpectedSkeleton A false #[] _ nt hnt σ hσ
  have hvalid : ∀ e ∈ σ, e.1 < (constructorLit (gsLevelsAsIsN fwd (pattern A)) nt).length
      ∧ e.2 < ((constructorLit (gsLevelsAsIsN fwd (pattern A)) nt).getD e.1 []).flatten.length := by
    unfold ExecLoc ExecG at hσ
    rw [if_pos (by decide), constructorLoc_eq] at hσ
    exact levelwise_valid A false #[] _ _ σ hσ
  rw [constructorLoc_eq] at hexec ⊢
  rw [gsSweepLoc_spec A rhs _ σ hvalid x]
  rw [(C09.constructor_literal_eq_spec fwd (pattern A) nt).2.1, gsLevelsAsIsN_eq] at hexec
  rw [(C09.constructor_literal_eq_spec fwd (pattern A) nt).2.1]
  exact C09.gs_asis_any_interleaving_eq_serial_partial fwd A hsym rhs nt hnt _ hexec x

/-- `gauss_seidel::apply_pre/apply_post` as dispatched (`is_serial = nthreads < 4`), on the literal tables -/
def gsSweepDispatchLoc (fwd : Bool) (A : CRS K) (rhs : Vec K) (nt : Nat) (σ : List Ev) (x : Vec K) : Vec K :=
  if serialFallback nt then gsSerialSweep fwd A rhs x else gsSweepLoc (gsConstructorLoc fwd A nt) rhs σ x

/-- **the sweep does not depend on the thread count nor on the interleavings the two runs happen to take** -/
theorem gs_literal_thread_indep (fwd : Bool) (A : CRS K) (rhs : Vec K) (nt nt' : Nat) (hnt : 1 ≤ nt) (hnt' : 1 ≤ nt')
    (σ σ' : List Ev) (hσ : ExecLoc gsExpectedSkeleton (gsConstructorLoc fwd A nt) σ)
    (hσ' : ExecLoc gsExpectedSkeleton (gsConstructorLoc fwd A nt') σ') (x : Vec K) :
    gsSweepDispatchLoc fwd A rhs nt σ x = gsSweepDispatchLoc fwd A rhs nt' σ' x := by
  unfold gsSweepDispatchLoc
  rw [gs_parallel_sweep_literal_eq_serial fwd A rhs nt hnt σ hσ x,
    gs_parallel_sweep_literal_eq_serial fwd A rhs nt' hnt' σ' hσ' x]
  simp

/-- **ILU triangular solve, the code's actual data layout**: for every strictly triangular factor, every `D`, every
`nt ≥ 1` and every event sequence the skeleton of `solve` admits over the thread-local tables (incl. `D[tid]`) built by
the literal constructor, the literal `solve` loop equals the row-wise serial loop on `A`, bit for bit. -/
theorem ilu_sptr_solve_literal_eq_rowwise (lower : Bool) (A : CRS K) (D : Vec K) (hA : StrictTri lower (pattern A))
    (nt : Nat) (hnt : 1 ≤ nt) (σ : List Ev)
    (hσ : ExecLoc iluExpectedSkeleton (iluConstructorLoc lower A D nt) σ) (x : Vec K) :
    iluSolveLoc lower (iluConstructorLoc lower A D nt) σ x
      = runRows (iluRow lower A D) (rowOrder lower A.nrows) x := by
  unfold iluConstructorLoc at hσ ⊢
  have hexec := literal_exec_is_exec iluExpectedSkeleton A (!lower) D _ nt hnt σ hσ
  have hvalid : ∀ e ∈ σ, e.1 < (constructorLit (iluLevelsN lower (pattern A)) nt).length
      ∧ e.2 < ((constructorLit (iluLevelsN lower (pattern A)) nt).getD e.1 []).flatten.length := by
    unfold ExecLoc ExecG at hσ
    rw [if_pos (by decide), constructorLoc_eq] at hσ
    exact levelwise_valid A (!lower) D _ _ σ hσ
  rw [constructorLoc_eq] at hexec ⊢
  rw [iluSolveLoc_spec lower A D _ σ hvalid x]
  rw [(C09.constructor_literal_eq_spec lower (pattern A) nt).2.2, iluLevelsN_eq] at hexec
  rw [(C09.constructor_literal_eq_spec lower (pattern A) nt).2.2]
  exact C09.ilu_any_interleaving_eq_rowwise lower A D hA nt hnt _ hexec x

end gs

section ilu
variable {K : Type} [Field K]

/-- **ILU triangular solve, the code's actual data layout, against `serial_solve`** (which subtracts in place:
equality over a commutative ring, i.e. up to summation-order rounding in `double`, as the property states). -/
theorem ilu_sptr_solve_literal_eq_serial (lower : Bool) (A : CRS K) (D : Vec K) (hA : StrictTri lower (pattern A))
    (nt : Nat) (hnt : 1 ≤ nt) (σ : List Ev)
    (hσ : ExecLoc iluExpectedSkeleton (iluConstructorLoc lower A D nt) σ) (x : Vec K) :
    iluSolveLoc lower (iluConstructorLoc lower A D nt) σ x = iluSerialHalf lower A D x := by
  rw [iluSerialHalf_eq_rowwise lower A D hA]
  exact ilu_sptr_solve_literal_eq_rowwise lower A D hA nt hnt σ hσ x

/-- **`parallel_solve`** (`lower->solve(x); upper->solve(x);`, each over its own literal tables under any admitted
interleaving) **equals `serial_solve`** -/
theorem ilu_parallel_solve_literal_eq_serial (L U : CRS K) (D : Vec K)
    (hL : StrictTri true (pattern L)) (hU : StrictTri false (pattern U)) (nt : Nat) (hnt : 1 ≤ nt) (σL σU : List Ev)
    (hσL : ExecLoc iluExpectedSkeleton (iluConstructorLoc true L D nt) σL)
    (hσU : ExecLoc iluExpectedSkeleton (iluConstructorLoc false U D nt) σU) (x : Vec K) :
    iluSolveLoc false (iluConstructorLoc false U D nt) σU (iluSolveLoc true (iluConstructorLoc true L D nt) σL x)
      = iluSerialSolve L U D x := by
  unfold iluSerialSolve
  rw [ilu_sptr_solve_literal_eq_serial true L D hL nt hnt σL hσL,
    ilu_sptr_solve_literal_eq_serial false U D hU nt hnt σU hσU]

end ilu

/-- non-vacuity: a strictly upper triangular factor, 4 threads, thread order: the literal solve over the thread-local
tables (with `D[tid]`) and the serial loop -/
example : iluSolveLoc false (iluConstructorLoc false (⟨4, #[[(1, 2), (3, 1)], [(2, 3)], [], []]⟩ : CRS Int) #[2, 3, 5, 7] 4)
    (threadOrderG (evTable (iluConstructorLoc false (⟨4, #[[(1, 2), (3, 1)], [(2, 3)], [], []]⟩ : CRS Int) #[2, 3, 5, 7] 4))
      (nlevLoc (iluConstructorLoc false (⟨4, #[[(1, 2), (3, 1)], [(2, 3)], [], []]⟩ : CRS Int) #[2, 3, 5, 7] 4)))
    #[1, 1, 1, 1] = #[156, -42, 5, 7]
    ∧ iluSerialHalf false (⟨4, #[[(1, 2), (3, 1)], [(2, 3)], [], []]⟩ : CRS Int) #[2, 3, 5, 7] #[1, 1, 1, 1] = #[156, -42, 5, 7] := by
  decide +kernel

example : StrictTri false (pattern (⟨4, #[[(1, 2), (3, 1)], [(2, 3)], [], []]⟩ : CRS Int)) := by
  intro i hi c hc
  have : i < 4 := hi
  match i, this with
  | 0, _ => simp [pattern, Array.getD] at hc; rcases hc with h | h <;> subst h <;> decide
  | 1, _ => simp [pattern, Array.getD] at hc; subst hc; decide
  | 2, _ => simp [pattern, Array.getD] at hc
  | 3, _ => simp [pattern, Array.getD] at hc

end Amgcl.C09b
