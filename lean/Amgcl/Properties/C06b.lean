import Amgcl.Proofs.RelaxSpai1Min
import Amgcl.Proofs.RelaxSpai1Sweep
import Amgcl.Proofs.C06bExamples
import Amgcl.Proofs.QRReal
/-!
# C06 (part b) — SPAI-1: theorems about the faithful model `Model/RelaxSpai1.lean` of `relaxation/spai1.hpp`

The model mirrors the constructor loop by loop (marker array, index sets `I`, `J`, `std::sort`, column-major assembly of the
local matrix `B`, right-hand side `e_k`, `QR::solve` on ONE reused `QR` object = the faithful model `Model/QR.lean`, marker
reset) and the sweeps (`residual` + `spmv`); it is tied to the real `relaxation::spai1<builtin<Q>>` by the exact correspondence
of `harness/h_relax.cpp` (ops `relax_spai1_m`, `relax_spai1_pre|post`, `relax_spai1_apply`: equal rationals, the Householder QR
running with the same `rsqrt` on both sides).  Only property theorems live here; helpers: `Proofs/RelaxSpai1{Local,,Normal,Min,
Sweep}.lean`, `Proofs/C06bExamples.lean`.

All statements are over every linearly ordered field `K`, every size, every well-formed square `A`.

* `spai1_row_state_indep`, `spai1_rows`, `spai1_pattern` — neither the marker array nor the `QR` object carries information from
  one row to the next: row `i` of `M` is the local problem assembled on an all-`-1` marker and solved by a default-constructed
  `QR` object (so any distribution of the rows over OpenMP threads gives the same `M`); `M` has the rows, columns and stored
  column lists of `A`.
* `spai1_local_problem` — what the assembly computes: `J` = the strictly increasing list of the columns of the rows `c ∈ I`,
  `e_k` = the unit vector `e_i` restricted to `J`, `B(p, q) = a(I[q], J[p])` stored column-major (rows without repeated columns).
* `spai1_normal_equations` / `_of_diag`, `spai1_minimises_row`, `spai1_minimiser_unique`, `spai1_minimises_frobenius` — the
  least-squares clause.  Hypotheses: rows of `A` without repeated columns (`A.nodupb`; a repeated column is overwritten in `B`, not
  added); `Spai1ExactRoots sqrt A i`: `sqrt` returns exact roots of the numbers the Householder QR takes roots of on the local matrix
  (as in C16b; always true for `Real.sqrt`: `spai1_minimises_real`); and EITHER `RowsIndep A i` (the rows of `A` indexed by the
  pattern of row `i` are linearly independent — implied by non-singularity of `A`, `rowsIndep_of_nonsingular`) OR the decidable run
  predicate `Spai1DiagNonzero sqrt A i` (at least as many rows as columns and no diagonal entry `R(q,q)` of the computed factor
  vanishes, i.e. `QR::solve` skips nothing).  Conclusion: row `i` of `M` satisfies the normal equations, hence minimises
  `‖e_i − m·A‖₂` over all `m` supported on the pattern of row `i` of `A`, is the ONLY such minimiser, and `M` minimises
  `‖I − M·A‖_F` over all matrices with the pattern of `A`.
* `spai1_rank_deficient_example` — what the code does when a local problem is rank deficient: `QR::solve` skips the unknowns
  whose `R(q,q)` vanishes (`if (is_zero(rii)) continue;`) and the result is in general NOT a least-squares solution — kernel-evaluated
  on the singular matrix `[[3,4],[3,4]]`.  (With an inexact root, e.g. `rsqrt` or IEEE, `R(q,q)` is a rounding residue instead of `0`
  and the entries of `M` become huge; the property promises nothing for singular local problems.)
* `spai1_sweep`, `spai1_apply`, `spai1_affine_scratch_indep`, `spai1_fixed_point` — `apply_pre = apply_post : x ↦ x + M (f − A x)`,
  `apply : f ↦ M f`, and the bundle `Smoother.Good` the cycle (C02) consumes.
-/
namespace Amgcl.C06b
open Amgcl Amgcl.Relax Amgcl.QRModel Finset

variable {K : Type} [Field K] [LinearOrder K] [IsStrictOrderedRing K]

/-! ## the constructor: state independence, shape -/

/-- the body of the row loop on an all-`-1` marker: whatever the reused `QR` object holds (`o`), the row written to `M` is the
one a default-constructed object produces, and the marker handed to the next row is all `-1` again -/
theorem spai1_row_state_indep (sqrt : K → K) (A : CRS K) (hA : A.WF) (i : Nat) (o : Obj K) :
    (spai1Row sqrt A i (cleanMarker A, o)).1 = (spai1Row sqrt A i (cleanMarker A, Obj.fresh)).1 ∧
    (spai1Row sqrt A i (cleanMarker A, o)).2.1 = cleanMarker A := by
  obtain ⟨h1, h2⟩ := spai1Row_clean sqrt A hA i o
  exact ⟨h1.trans (spai1Row_clean sqrt A hA i Obj.fresh).1.symm, h2⟩

example := spai1_row_state_indep Amgcl.rsqrt C06bEx.exS C06bEx.exS_wf 1 ⟨#[7, 7, 7, 7], #[1, 2], #[9]⟩

/-- row `i` of the matrix built by the constructor (one marker, one `QR` object threaded through all rows) is the solution of
the local problem of row `i` assembled on a clean marker and solved by a default-constructed `QR` object -/
theorem spai1_rows (sqrt : K → K) (A : CRS K) (hA : A.WF) (i : Nat) (hi : i < A.nrows) :
    (spai1 sqrt).setup A = .ok (spai1Setup sqrt A) ∧
    (spai1Setup sqrt A).row i = (spai1LocalAt A i).I.zipIdx.map (fun cq =>
      (cq.1, (QRModel.solve sqrt (spai1LocalAt A i).J.length (spai1LocalAt A i).I.length 1 (spai1LocalAt A i).J.length
        (spai1LocalAt A i).B (spai1LocalAt A i).ek).getD cq.2 0)) :=
  ⟨rfl, spai1Setup_row sqrt A hA i hi⟩

example := spai1_rows Amgcl.rsqrt C06bEx.exS C06bEx.exS_wf 1 (by decide)

/-- `M` has the shape and the stored column lists of `A` (`Ainv = make_shared<Matrix>(A)`, only the values are overwritten) -/
theorem spai1_pattern (sqrt : K → K) (A : CRS K) (hA : A.WF) :
    (spai1Setup sqrt A).nrows = A.nrows ∧ (spai1Setup sqrt A).ncols = A.ncols ∧ (spai1Setup sqrt A).WF ∧
    ∀ i, i < A.nrows → ((spai1Setup sqrt A).row i).map (·.1) = (A.row i).map (·.1) := by
  have hrow : ∀ i, i < A.nrows → ((spai1Setup sqrt A).row i).map (·.1) = (A.row i).map (·.1) := by
    intro i hi
    rw [spai1Setup_row sqrt A hA i hi]; exact spai1RowFresh_cols sqrt A i
  refine ⟨spai1Setup_nrows sqrt A hA, rfl, ?_, hrow⟩
  intro r hr cv hcv
  obtain ⟨i, hi, rfl⟩ : ∃ i, i < (spai1Setup sqrt A).nrows ∧ r = (spai1Setup sqrt A).row i := by
    obtain ⟨i, hi, e⟩ := List.getElem_of_mem hr
    refine ⟨i, by simpa [CRS.nrows] using hi, ?_⟩
    rw [← e]
    unfold CRS.row
    have hi' : i < (spai1Setup sqrt A).rows.size := by simpa using hi
    simp [Array.getD, hi']
  rw [spai1Setup_nrows sqrt A hA] at hi
  have : cv.1 ∈ ((spai1Setup sqrt A).row i).map (·.1) := List.mem_map.mpr ⟨cv, hcv, rfl⟩
  rw [hrow i hi] at this
  obtain ⟨a, ha, e⟩ := List.mem_map.mp this
  show cv.1 < A.ncols
  rw [← e]; exact hA.row_lt i a ha

example := spai1_pattern Amgcl.rsqrt C06bEx.exS C06bEx.exS_wf

/-! ## the local least-squares problem as the code assembles it -/

/-- for the row `i`, on a clean marker: `I` = the stored columns of row `i`; `J` strictly increasing, `j ∈ J` iff `j` is a stored
column of a row `c ∈ I`; `e_k[p] = 1` iff `J[p] = i`; and — rows without repeated columns — `B` has `|I|·|J|` cells with
`B[p + |J|·q] = a(I[q], J[p])` (the `|J| × |I|` matrix of the rows `I` of `A` restricted to the columns `J`, transposed,
column-major) -/
theorem spai1_local_problem (A : CRS K) (hA : A.WF) (hnd : A.nodupb = true) (i : Nat) :
    (spai1LocalAt A i).I = (A.row i).map (·.1) ∧
    (spai1LocalAt A i).J.Pairwise (· < ·) ∧
    (∀ j, j ∈ (spai1LocalAt A i).J ↔ ∃ c ∈ (spai1LocalAt A i).I, ∃ a ∈ A.row c, a.1 = j) ∧
    (spai1LocalAt A i).ek.size = (spai1LocalAt A i).J.length ∧
    (∀ p (hp : p < (spai1LocalAt A i).J.length), (spai1LocalAt A i).ek.getD p 0 = if (spai1LocalAt A i).J[p] = i then 1 else 0) ∧
    (spai1LocalAt A i).B.size = (spai1LocalAt A i).I.length * (spai1LocalAt A i).J.length ∧
    ∀ q (hq : q < (spai1LocalAt A i).I.length) p (hp : p < (spai1LocalAt A i).J.length),
      (spai1LocalAt A i).B.getD (p + (spai1LocalAt A i).J.length * q) 0 = A.get (spai1LocalAt A i).I[q] (spai1LocalAt A i).J[p] := by
  obtain ⟨s1, s2, s3, _, s5, s6, s7, _⟩ := spai1Local_spec A hA i
  obtain ⟨s7a, s7b⟩ := s7 hnd
  refine ⟨s1, s2, ?_, s5, s6, s7a, s7b⟩
  intro j
  rw [s3 j]
  unfold visited
  rw [List.mem_flatMap]
  constructor
  · rintro ⟨c, hc, hj⟩
    obtain ⟨a, ha, e⟩ := List.mem_map.mp hj
    exact ⟨c, hc, a, ha, e⟩
  · rintro ⟨c, hc, a, ha, e⟩
    exact ⟨c, hc, List.mem_map.mpr ⟨a, ha, e⟩⟩

example := spai1_local_problem C06bEx.exS C06bEx.exS_wf C06bEx.exS_nodup 1
-- … on the example: row 1 has the full local problem `J = [0,1,2]`, `B = Aᵀ` column-major, `e_k = e_1`
example : (spai1LocalAt C06bEx.exS 1).J = [0, 1, 2] ∧ (spai1LocalAt C06bEx.exS 1).B = #[-4, -3, 0, -3, 4, 12, 0, 1, 4]
    ∧ (spai1LocalAt C06bEx.exS 1).ek = #[0, 1, 0] ∧ (spai1LocalAt C06bEx.exS 0).J = [0, 1, 2]
    ∧ (spai1LocalAt C06bEx.exS 0).B = #[-4, -3, 0, -3, 4, 12] := by decide +kernel

/-! ## least squares -/

/-- **normal equations, run-predicate form.**  If `QR::solve` skips nothing on the local problem of row `i`
(`Spai1DiagNonzero`: at least as many rows as columns, no vanishing `R(q,q)`) then row `i` of `M` satisfies the normal equations
`Σ_j (e_i − M_i·A)_j · a(k, j) = 0` for every stored column `k` of row `i` of `A` -/
theorem spai1_normal_equations_of_diag (sqrt : K → K) (A : CRS K) (hA : A.WF) (hsq : A.ncols = A.nrows) (hnd : A.nodupb = true)
    (i : Nat) (hi : i < A.nrows) (hex : Spai1ExactRoots sqrt A i) (hd : Spai1DiagNonzero sqrt A i) (cv : Nat × K)
    (hcv : cv ∈ A.row i) :
    ∑ j ∈ range A.nrows, ((if i = j then 1 else 0) - ∑ l ∈ range A.nrows, (spai1Setup sqrt A).get i l * A.get l j) * A.get cv.1 j
      = 0 := by
  have := spai1_normal_of_diag sqrt A hA hsq hnd i hi hex hd cv hcv
  rw [spaiNormal_eq] at this
  simpa only [spaiResid_eq] using this

example := spai1_normal_equations_of_diag Amgcl.rsqrt C06bEx.exS C06bEx.exS_wf C06bEx.exS_sq C06bEx.exS_nodup 1 (by decide)
  (C06bEx.exS_roots 1 (by decide)) (C06bEx.exS_diag 1 (by decide)) (2, 12) (by decide)

/-- **normal equations.**  If the rows of `A` indexed by the pattern of row `i` are linearly independent, `QR::solve` skips
nothing and row `i` of `M` satisfies the normal equations; in particular `leastSquaresRowsb A M` (the V-grade checker of
`Model/RelaxCheck.lean`) holds when this is so for every row -/
theorem spai1_normal_equations (sqrt : K → K) (A : CRS K) (hA : A.WF) (hsq : A.ncols = A.nrows) (hnd : A.nodupb = true)
    (hex : ∀ i, i < A.nrows → Spai1ExactRoots sqrt A i) (hr : ∀ i, i < A.nrows → RowsIndep A i) :
    (∀ i, i < A.nrows → Spai1DiagNonzero sqrt A i) ∧ leastSquaresRowsb A (spai1Setup sqrt A) = true := by
  have hd : ∀ i, i < A.nrows → Spai1DiagNonzero sqrt A i :=
    fun i hi => spai1_diag_of_indep sqrt A hA hsq hnd i (hex i hi) (hr i hi)
  refine ⟨hd, ?_⟩
  unfold leastSquaresRowsb
  rw [List.all_eq_true]
  intro i hi
  rw [List.all_eq_true]
  intro cv hcv
  have hi' := List.mem_range.mp hi
  simp only [decide_eq_true_eq]
  exact spai1_normal_of_diag sqrt A hA hsq hnd i hi' (hex i hi') (hd i hi') cv hcv

example := spai1_normal_equations Amgcl.rsqrt C06bEx.exS C06bEx.exS_wf C06bEx.exS_sq C06bEx.exS_nodup C06bEx.exS_roots
  (fun i _ => C06bEx.exS_indep i)

/-- **`spai1_minimises_row`.**  Row `i` of `M` minimises `‖e_i − m·A‖₂²` over all rows `m` supported on the pattern of row `i`
of `A` -/
theorem spai1_minimises_row (sqrt : K → K) (A : CRS K) (hA : A.WF) (hsq : A.ncols = A.nrows) (hnd : A.nodupb = true)
    (i : Nat) (hi : i < A.nrows) (hex : Spai1ExactRoots sqrt A i) (hr : RowsIndep A i)
    (m : Nat → K) (hm : ∀ l, l < A.nrows → (∀ cv ∈ A.row i, cv.1 ≠ l) → m l = 0) :
    ∑ j ∈ range A.nrows, ((if i = j then 1 else 0) - ∑ l ∈ range A.nrows, (spai1Setup sqrt A).get i l * A.get l j) ^ 2
      ≤ ∑ j ∈ range A.nrows, ((if i = j then 1 else 0) - ∑ l ∈ range A.nrows, m l * A.get l j) ^ 2 := by
  have hN := spai1_normal_of_diag sqrt A hA hsq hnd i hi hex (spai1_diag_of_indep sqrt A hA hsq hnd i hex hr)
  apply leastSquaresRow_of_normal A (spai1Setup sqrt A) i hN m
  intro l hl hoff
  rw [hm l hl hoff]
  -- `M` vanishes off the pattern of row `i`
  symm
  unfold CRS.get
  apply _root_.Amgcl.rowGet_eq_zero_of_not_mem
  intro cv hcv e
  have hmem : cv.1 ∈ ((spai1Setup sqrt A).row i).map (·.1) := List.mem_map.mpr ⟨cv, hcv, rfl⟩
  rw [(spai1_pattern sqrt A hA).2.2.2 i hi] at hmem
  obtain ⟨a, ha, e'⟩ := List.mem_map.mp hmem
  exact hoff a ha (e'.trans e)

example := spai1_minimises_row Amgcl.rsqrt C06bEx.exS C06bEx.exS_wf C06bEx.exS_sq C06bEx.exS_nodup 1 (by decide)
  (C06bEx.exS_roots 1 (by decide)) (C06bEx.exS_indep 1) (fun l => if l = 1 then 1/4 else 0)
  (fun l _ h => by
    have : l ≠ 1 := fun e => h (1, 4) (by decide) e.symm
    simp [this])

/-- … and it is THE minimiser: a row `m` supported on the pattern whose residual is not larger coincides with row `i` of `M` -/
theorem spai1_minimiser_unique (sqrt : K → K) (A : CRS K) (hA : A.WF) (hsq : A.ncols = A.nrows) (hnd : A.nodupb = true)
    (i : Nat) (hi : i < A.nrows) (hex : Spai1ExactRoots sqrt A i) (hr : RowsIndep A i)
    (m : Nat → K) (hm : ∀ l, l < A.nrows → (∀ cv ∈ A.row i, cv.1 ≠ l) → m l = 0)
    (hle : ∑ j ∈ range A.nrows, ((if i = j then 1 else 0) - ∑ l ∈ range A.nrows, m l * A.get l j) ^ 2
      ≤ ∑ j ∈ range A.nrows, ((if i = j then 1 else 0) - ∑ l ∈ range A.nrows, (spai1Setup sqrt A).get i l * A.get l j) ^ 2) :
    ∀ l, l < A.nrows → m l = (spai1Setup sqrt A).get i l := by
  have hN := spai1_normal_of_diag sqrt A hA hsq hnd i hi hex (spai1_diag_of_indep sqrt A hA hsq hnd i hex hr)
  have hoffM : ∀ l, l < A.nrows → (∀ cv ∈ A.row i, cv.1 ≠ l) → (spai1Setup sqrt A).get i l = 0 := by
    intro l _ hoff
    unfold CRS.get
    apply _root_.Amgcl.rowGet_eq_zero_of_not_mem
    intro cv hcv e
    have hmem : cv.1 ∈ ((spai1Setup sqrt A).row i).map (·.1) := List.mem_map.mpr ⟨cv, hcv, rfl⟩
    rw [(spai1_pattern sqrt A hA).2.2.2 i hi] at hmem
    obtain ⟨a, ha, e'⟩ := List.mem_map.mp hmem
    exact hoff a ha (e'.trans e)
  have hm' : ∀ l, l < A.nrows → (∀ cv ∈ A.row i, cv.1 ≠ l) → m l = (spai1Setup sqrt A).get i l :=
    fun l hl hoff => by rw [hm l hl hoff, hoffM l hl hoff]
  have htie := leastSquaresRow_tie A (spai1Setup sqrt A) i hN m hm' hle
  -- the difference is supported on the pattern and annihilates the rows of `A`: it vanishes by `RowsIndep`
  let d : Nat → K := fun l => m l - (spai1Setup sqrt A).get i l
  have hd0 : ∀ l, l < A.nrows → (∀ cv ∈ A.row i, cv.1 ≠ l) → d l = 0 :=
    fun l hl hoff => by show m l - _ = 0; rw [hm' l hl hoff, sub_self]
  have hq := hr (fun q => d (((A.row i).map (·.1)).getD q 0)) (fun j hj => by
    rw [← sum_supported A hA hsq hnd i d (fun l => A.get l j) hd0]
    exact htie j hj)
  intro l hl
  by_cases hoff : ∀ cv ∈ A.row i, cv.1 ≠ l
  · exact hm' l hl hoff
  · push_neg at hoff
    obtain ⟨cv, hcv, e⟩ := hoff
    have hmem : l ∈ (A.row i).map (·.1) := List.mem_map.mpr ⟨cv, hcv, e⟩
    obtain ⟨q, hq', eq⟩ := List.getElem_of_mem hmem
    have this : d (((A.row i).map (·.1)).getD q 0) = 0 := hq q hq'
    rw [getD_lt _ _ hq', eq] at this
    exact sub_eq_zero.mp this

example := spai1_minimiser_unique Amgcl.rsqrt C06bEx.exS C06bEx.exS_wf C06bEx.exS_sq C06bEx.exS_nodup 1 (by decide)
  (C06bEx.exS_roots 1 (by decide)) (C06bEx.exS_indep 1)

/-- **`spai1_minimises_frobenius`.**  `M` minimises `‖I − M'·A‖_F²` over all matrices `M'` with the pattern of `A` -/
theorem spai1_minimises_frobenius (sqrt : K → K) (A : CRS K) (hA : A.WF) (hsq : A.ncols = A.nrows) (hnd : A.nodupb = true)
    (hex : ∀ i, i < A.nrows → Spai1ExactRoots sqrt A i) (hr : ∀ i, i < A.nrows → RowsIndep A i)
    (M' : CRS K) (hpat : samePatternb A M' = true) :
    ∑ i ∈ range A.nrows, ∑ j ∈ range A.nrows,
        ((if i = j then 1 else 0) - ∑ l ∈ range A.nrows, (spai1Setup sqrt A).get i l * A.get l j) ^ 2
      ≤ ∑ i ∈ range A.nrows, ∑ j ∈ range A.nrows,
        ((if i = j then 1 else 0) - ∑ l ∈ range A.nrows, M'.get i l * A.get l j) ^ 2 := by
  apply sum_le_sum
  intro i hi
  have hi' := mem_range.mp hi
  apply spai1_minimises_row sqrt A hA hsq hnd i hi' (hex i hi') (hr i hi') (fun l => M'.get i l)
  intro l _ hoff
  unfold samePatternb at hpat
  rw [Bool.and_eq_true, List.all_eq_true] at hpat
  have := hpat.2 i (List.mem_range.mpr hi')
  have hcols : (A.row i).map (·.1) = (M'.row i).map (·.1) := by simpa using this
  unfold CRS.get
  apply _root_.Amgcl.rowGet_eq_zero_of_not_mem
  intro cv hcv e
  have hmem : cv.1 ∈ (M'.row i).map (·.1) := List.mem_map.mpr ⟨cv, hcv, rfl⟩
  rw [← hcols] at hmem
  obtain ⟨a, ha, e'⟩ := List.mem_map.mp hmem
  exact hoff a ha (e'.trans e)

example := spai1_minimises_frobenius Amgcl.rsqrt C06bEx.exS C06bEx.exS_wf C06bEx.exS_sq C06bEx.exS_nodup C06bEx.exS_roots
  (fun i _ => C06bEx.exS_indep i) C06bEx.exS (by decide)
-- the hypotheses are not vacuous: roots are really taken, and the resulting `M` is the explicit matrix `exSM` (not `A⁻¹`)
example : spai1Setup Amgcl.rsqrt C06bEx.exS = C06bEx.exSM := C06bEx.exS_M
example := C06bEx.exS_roots_taken

/-- a non-singular matrix (linearly independent rows) without repeated columns satisfies `RowsIndep` in every row -/
theorem spai1_rows_indep_of_nonsingular (A : CRS K) (hA : A.WF) (hsq : A.ncols = A.nrows) (hnd : A.nodupb = true)
    (hns : ∀ z : Nat → K, (∀ j, j < A.nrows → ∑ l ∈ range A.nrows, z l * A.get l j = 0) → ∀ l, l < A.nrows → z l = 0)
    (i : Nat) : RowsIndep A i :=
  rowsIndep_of_nonsingular A hA hsq hnd hns i

example := spai1_rows_indep_of_nonsingular C06bEx.exS C06bEx.exS_wf C06bEx.exS_sq C06bEx.exS_nodup C06bEx.exS_nonsingular 2

/-- over `ℝ` with `Real.sqrt` the hypothesis on `sqrt` holds for every input: for every non-singular well-formed square real
matrix without repeated columns, `M` minimises `‖I − M'·A‖_F` over the pattern of `A` -/
theorem spai1_minimises_real (A : CRS ℝ) (hA : A.WF) (hsq : A.ncols = A.nrows) (hnd : A.nodupb = true)
    (hns : ∀ z : Nat → ℝ, (∀ j, j < A.nrows → ∑ l ∈ range A.nrows, z l * A.get l j = 0) → ∀ l, l < A.nrows → z l = 0)
    (M' : CRS ℝ) (hpat : samePatternb A M' = true) :
    ∑ i ∈ range A.nrows, ∑ j ∈ range A.nrows,
        ((if i = j then 1 else 0) - ∑ l ∈ range A.nrows, (spai1Setup Real.sqrt A).get i l * A.get l j) ^ 2
      ≤ ∑ i ∈ range A.nrows, ∑ j ∈ range A.nrows,
        ((if i = j then 1 else 0) - ∑ l ∈ range A.nrows, M'.get i l * A.get l j) ^ 2 :=
  spai1_minimises_frobenius Real.sqrt A hA hsq hnd (fun i _ => exactRoots_real_sqrt _ _ _ _ _ _)
    (fun i _ => rowsIndep_of_nonsingular A hA hsq hnd hns i) M' hpat

example := spai1_minimises_real ⟨1, #[[(0, 2)]]⟩ (by decide) rfl (by decide)
  (by
    intro z h l hl
    have := h 0 (by decide)
    have e : (⟨1, #[[(0, (2 : ℝ))]]⟩ : CRS ℝ).nrows = 1 := rfl
    rw [e] at this hl
    simp [CRS.get, CRS.row, rowGet] at this
    interval_cases l
    exact this)

/-- **rank-deficient local problems.**  On the singular matrix `[[3,4],[3,4]]` (both local problems are `[[3,3],[4,4]]`; all
roots exact) the computed factor has `R(1,1) = 0`, `QR::solve` skips that unknown, the constructor returns `exRM`, and the rows of
`exRM` do NOT satisfy the normal equations (row 0: `m_0 + m_1 = -17/25` instead of the minimising `3/25`) -/
theorem spai1_rank_deficient_example :
    (∀ i, i < 2 → Spai1ExactRoots Amgcl.rsqrt C06bEx.exR i) ∧ ¬ Spai1DiagNonzero Amgcl.rsqrt C06bEx.exR 0 ∧
    spai1Setup Amgcl.rsqrt C06bEx.exR = C06bEx.exRM ∧ leastSquaresRowsb C06bEx.exR C06bEx.exRM = false := by
  refine ⟨by decide +kernel, by decide +kernel, C06bEx.exR_M, by decide +kernel⟩

/-! ## sweeps -/
section sweeps

/-- `apply_pre` and `apply_post` are the same map `x ↦ x + M (f − A x)`, entry by entry, and leave `f − A x` in `tmp` -/
theorem spai1_sweep (sqrt : K → K) (A : CRS K) (hA : A.WF) (hsq : A.ncols = A.nrows) (f x t : Vec K) (i : Nat)
    (hi : i < A.nrows) :
    ((spai1 sqrt).applyPre (spai1Setup sqrt A) A f x t).1.getD i 0
      = x.getD i 0 + ∑ j ∈ range A.nrows, (spai1Setup sqrt A).get i j * (f.getD j 0 - ∑ k ∈ range A.ncols, A.get j k * x.getD k 0)
    ∧ (spai1 sqrt).applyPost (spai1Setup sqrt A) A f x t = (spai1 sqrt).applyPre (spai1Setup sqrt A) A f x t
    ∧ ((spai1 sqrt).applyPre (spai1Setup sqrt A) A f x t).2 = residual f A x := by
  obtain ⟨p1, p2, p3, _⟩ := spai1_pattern sqrt A hA
  exact ⟨spai1Sweep_entry _ A p3 hA p1 (by rw [p2, hsq]) f x t i hi, rfl, rfl⟩

example := spai1_sweep Amgcl.rsqrt C06bEx.exS C06bEx.exS_wf C06bEx.exS_sq #[1, 2, 3] #[1/2, 0, -1] #[7, 7, 7] 1 (by decide)

/-- `apply` (the smoother as a preconditioner) is `f ↦ M f` -/
theorem spai1_apply (sqrt : K → K) (A : CRS K) (hA : A.WF) (f : Vec K) (i : Nat) (hi : i < A.nrows) :
    ((spai1 sqrt).apply (spai1Setup sqrt A) A f).getD i 0 = ∑ j ∈ range A.ncols, (spai1Setup sqrt A).get i j * f.getD j 0 := by
  obtain ⟨p1, _, p3, _⟩ := spai1_pattern sqrt A hA
  exact spai1Apply_entry _ p3 f i (by omega)

example := spai1_apply Amgcl.rsqrt C06bEx.exS C06bEx.exS_wf #[1, 2, 3] 0 (by decide)

/-- scratch independence, joint linearity in `(f, x)`, size, fixed point — for ANY stored matrix `M` with as many rows as `A`
(in particular for the matrix built by the constructor): everything the cycle theorems of C02 ask of a smoother -/
theorem spai1_affine_scratch_indep (sqrt : K → K) (M A : CRS K) (hM : M.nrows = A.nrows) :
    Smoother.Good (spai1 sqrt) M A := by
  obtain ⟨h1, h2, h3, h4⟩ := spai1Sweep_facts M A hM
  exact ⟨h1, h1, h2, h2, h3, h3, h4, h4⟩

example := spai1_affine_scratch_indep Amgcl.rsqrt (spai1Setup Amgcl.rsqrt C06bEx.exS) C06bEx.exS
  (spai1_pattern Amgcl.rsqrt C06bEx.exS C06bEx.exS_wf).1

/-- `A x = f` ⟹ the sweep returns `x` -/
theorem spai1_fixed_point (sqrt : K → K) (A : CRS K) (hA : A.WF) (f x t : Vec K) (hx : x.size = A.nrows)
    (hf : f.size = A.nrows) (h : ∀ i, i < A.nrows → rowDot (A.row i) x = f.getD i 0) :
    ((spai1 sqrt).applyPre (spai1Setup sqrt A) A f x t).1 = x ∧ ((spai1 sqrt).applyPost (spai1Setup sqrt A) A f x t).1 = x :=
  ⟨(spai1_affine_scratch_indep sqrt _ A (spai1_pattern sqrt A hA).1).pre_fixed f x t hx hf h,
   (spai1_affine_scratch_indep sqrt _ A (spai1_pattern sqrt A hA).1).post_fixed f x t hx hf h⟩

-- a genuine fixed point: `x = (1, 1, 1)`, `f = A x = (-7, 13, 5)`
example := spai1_fixed_point Amgcl.rsqrt C06bEx.exS C06bEx.exS_wf #[-7, 13, 5] #[1, 1, 1] #[] rfl rfl (by decide +kernel)

end sweeps

end Amgcl.C06b
