import Amgcl.Proofs.DistAmgIndep
import Amgcl.Proofs.DistAmgInit
import Amgcl.Properties.C12
import Amgcl.Properties.C06
/-!
# C12 (continued) — the distributed multigrid cycle is the serial cycle of the gathered hierarchy

Model: `Model/DistAmg.lean` — `mpi::amg::cycle` / `apply` (mpi/amg.hpp:223-240, 418-455) statement by statement over
per-rank states: every rank holds its row block of `A`, `P`, `R` (`Dist.DistMat`: local part with local column
numbers, remote part with global ones), its slices of `rhs`, `x` and of the level vectors `f`, `u`, `t`, its smoother
state and its `solver_base` state; `backend::spmv` / `backend::residual` are `distributed_matrix::mul / residual` of
C11 (ghost exchange through the matrix' communication pattern), damped Jacobi and SPAI-0 are the rank-local diagonal
scaling of the distributed residual with constructors working on the local (Jacobi) resp. local + remote (SPAI-0)
part of the rank's rows, the coarse solver is `solver_base::operator()` (gather to the master, serial solve of the
consolidated system, scatter).

* `dist_cycle_refines_serial` — for ANY distributed smoother / coarse solver that refine serial ones (`HRef`):
  started on the slices of serial data, the distributed cycle returns the slices of the serial cycle's `x` and level
  vectors — every rank count, every (per level different) partition with empty ranks, every number of levels, every
  `npre / npost / ncycle`, W-cycles included.
* `jacobi_refines`, `spai0_refines` — the distributed constructors of damped Jacobi / SPAI-0 produce the slices of
  the serial constructor's vector on the gathered matrix and the sweeps refine the serial sweeps.
* `dist_direct_solve_eq_serial` — `solver_base` with one master (`skyline_lu`) returns on every rank its slice of the
  serial direct solve of the gathered matrix and right-hand side.
* `dist_amg_cycle_eq_gathered`, `dist_amg_apply_eq_gathered` — for every well-formed distributed hierarchy
  (`DHierOK`: what the constructor of `mpi::amg` leaves behind) and EVERY well-shaped distributed state: gathering
  (concatenating the rank slices of) the result of the distributed cycle / `apply` is the serial `Amg.cycle` /
  `Amg.apply` of the gathered hierarchy (`gatherLevels`: blocks assembled with `Dist.assemble`, the master's
  consolidated matrix, concatenated smoother vectors) on the gathered input — `x` and all level vectors.
* `dist_apply_scratch_indep` — C02's independence of the level vectors (hence of earlier applications) transferred:
  the distributed preconditioner is ONE function of `rhs` over a whole Krylov run.
* `dinit_output_ok`, `dinit_given_ok`, `dinit_cycle_eq_gathered` — the hierarchy CONSTRUCTOR `DistAmg.dinit`
  (`mpi::amg::init`, level constructor, `step_down` without repartitioning; the function `h_mpi_cycle` compares with
  the real constructor) returns hierarchies that satisfy `DHierOK` and `DHierFull`, for every well-formed input matrix
  and every coarsening policy whose operators are well formed and chain (`PolicyOK`); the policy of GIVEN transfer
  operators with the Galerkin product `R·(A·P)` through `mpi::product` is such a policy (`distOK_product`: `mpi::product`
  returns well-formed blocks), so the cycle theorems apply to what the model constructor builds without assuming
  anything about its output.
* `mpi_amg_setup` — hence `mpi::amg` satisfies the hypothesis `Setup.pd` of `C12.lockstep_refines_serial`
  (`lockstep_cg_mpi_amg`: distributed CG preconditioned with distributed AMG = serial CG with serial AMG).

**Not covered here.**  The SETUP phase of `mpi::amg` (PMIS aggregation, distributed Galerkin product, repartitioning)
stays certificate-checked (C12 harness): `DHierOK` only asks for well-formed blocks whose shapes chain, the theorem
holds for whatever `P`, `R`, `A_c` the setup produced.  The gathered matrices store each row with the local entries
first (as `solver_base::init` builds its strip); they denote the same matrices as a serially built hierarchy but are
not entry-order-identical to it.  Distributed Gauss-Seidel / ILU / Chebyshev are not instances (`mpi::relaxation::
gauss_seidel`, `ilu0` are block-Jacobi-like and differ from their serial counterparts by design).

**Tie to the code.**  `harness/h_mpi_cycle.cpp` runs the real `mpi::amg` (constructor with given transfer operators,
`cycle`, `apply`; damped Jacobi / SPAI-0; `skyline_lu` coarse solver) under MPI on 1..8 ranks against `DistAmg.dinit` /
`dcycle` / `dapply` as exact rationals (binary64 on data for which every intermediate value is provably exactly
representable) and, independently of the model, against a dense exact multigrid cycle of the gathered hierarchy —
the statement of `dist_amg_cycle_eq_gathered` checked on the implementation.
-/
namespace Amgcl.C12
open Amgcl Amgcl.Dist Amgcl.DistAmg Amgcl.Lockstep

section generic
variable {K S T : Type} [CommRing K] [DecidableEq K]

/-- **`dist_cycle_refines_serial`** (any refining smoother and coarse solver).  `HRef`: level by level the
distributed blocks are the distribution (`Dist.split`) of the serial matrices w.r.t. the level's partition (`P`:
rows by this level's, columns by the next level's partition; `R` the other way round), the distributed sweeps /
coarse solver refine the serial ones.  Then, from the slices of `(rhs, x)` and of the level vectors, the distributed
cycle returns the slices of the serial result; gathering them gives the serial `x`. -/
theorem dist_cycle_refines_serial (prm : Amg.Params) (dsm : DSmoother K S) (sm : Relax.Smoother K T)
    (direct : CRS K → Vec K → Vec K) (d : DLevel K S) (dls : List (DLevel K S)) (l : Amg.Level K T)
    (ls : List (Amg.Level K T)) (hH : HRef dsm sm direct (d :: dls) (l :: ls))
    (dscr : List (DScratch K)) (scr : List (Amg.Scratch K)) (rhs x : Vec K)
    (hscr : ScrsRef ((d :: dls).map (·.part)) dscr scr) (hrhs : rhs.size = d.part.sum) (hx : x.size = d.part.sum) :
    (dcycle prm dsm direct (d :: dls) dscr (splitVec rhs d.part) (splitVec x d.part)).1
      = splitVec (Amg.cycle prm sm direct (l :: ls) scr rhs x).1 d.part ∧
    concatVec (dcycle prm dsm direct (d :: dls) dscr (splitVec rhs d.part) (splitVec x d.part)).1
      = (Amg.cycle prm sm direct (l :: ls) scr rhs x).1 ∧
    ScrsRef ((d :: dls).map (·.part))
      (dcycle prm dsm direct (d :: dls) dscr (splitVec rhs d.part) (splitVec x d.part)).2
      (Amg.cycle prm sm direct (l :: ls) scr rhs x).2 := by
  obtain ⟨h1, h2, h3⟩ := dcycle_sim prm dsm sm direct dls ls d l hH dscr scr rhs x hscr hrhs hx
  exact ⟨h1, by rw [h1]; exact concat_splitVec _ _ h2, h3⟩

/-- **`dist_direct_solve_eq_serial`**: `solver_base::operator()` with one master on a well-formed distributed matrix,
for every partition (ranks without rows included, which return without touching their empty `x`): gathering the
ranks' results gives the serial direct solve of the gathered matrix for the gathered right-hand side. -/
theorem dist_direct_solve_eq_serial (direct : CRS K → Vec K → Vec K) (Ds : List (DistMat K)) (p : List Nat)
    (h : DistOK Ds p p) (hd : ∀ f : Vec K, f.size = p.sum → (direct (assemble Ds p) f).size = p.sum)
    (fs xs : DVec K) (hf : DVecOK p fs) (hx : DVecOK p xs) :
    concatVec (directSolve direct (directInit 1 Ds p) fs xs) = direct (assemble Ds p) (concatVec fs) ∧
    DVecOK p (directSolve direct (directInit 1 Ds p) fs xs) := by
  obtain ⟨f1, f2⟩ := split_concat p fs hf
  obtain ⟨x1, x2⟩ := split_concat p xs hx
  obtain ⟨e, sz⟩ := directSolve_ref direct Ds p h hd (concatVec fs) (concatVec xs) f2 x2
  rw [f1, x1] at e
  rw [e]
  exact ⟨concat_splitVec _ _ sz, dvecOK_split _ _ sz⟩

/-- **`dist_amg_cycle_eq_gathered`.**  For a well-formed distributed hierarchy, a distributed smoother that refines a
serial one (`SmootherRef`; damped Jacobi and SPAI-0 below) and ANY well-shaped distributed state `(rhs, x, level
vectors)`: gathering the result of `mpi::amg::cycle` gives the serial `amg::cycle` of the gathered hierarchy on the
gathered state — the iterate and every level vector — and the distributed result is again well shaped. -/
theorem dist_amg_cycle_eq_gathered (prm : Amg.Params) (dsm : DSmoother K S) (sm : Relax.Smoother K T) (gs : List S → T)
    (direct : CRS K → Vec K → Vec K) (hsm : SmootherRef dsm sm gs) (d : DLevel K S) (dls : List (DLevel K S))
    (hOK : DHierOK dsm direct (d :: dls)) (dscr : List (DScratch K)) (drhs dx : DVec K)
    (hscr : DScrsOK ((d :: dls).map (·.part)) dscr) (hrhs : DVecOK d.part drhs) (hx : DVecOK d.part dx) :
    concatVec (dcycle prm dsm direct (d :: dls) dscr drhs dx).1
      = (Amg.cycle prm sm direct (gatherLevels gs (d :: dls)) (dscr.map gatherScratch) (concatVec drhs)
          (concatVec dx)).1 ∧
    (dcycle prm dsm direct (d :: dls) dscr drhs dx).2.map gatherScratch
      = (Amg.cycle prm sm direct (gatherLevels gs (d :: dls)) (dscr.map gatherScratch) (concatVec drhs)
          (concatVec dx)).2 ∧
    DVecOK d.part (dcycle prm dsm direct (d :: dls) dscr drhs dx).1 ∧
    DScrsOK ((d :: dls).map (·.part)) (dcycle prm dsm direct (d :: dls) dscr drhs dx).2 := by
  have hH := href_gather dsm sm gs direct hsm (d :: dls) hOK
  obtain ⟨r1, r2⟩ := split_concat d.part drhs hrhs
  obtain ⟨x1, x2⟩ := split_concat d.part dx hx
  have hsim := dcycle_sim prm dsm sm direct dls (gatherLevels gs dls) d _ hH dscr (dscr.map gatherScratch)
    (concatVec drhs) (concatVec dx) (scrsRef_of_ok _ _ hscr) r2 x2
  rw [r1, x1] at hsim
  obtain ⟨h1, h2, h3⟩ := hsim
  obtain ⟨g1, g2⟩ := scrsRef_gather _ _ _ h3
  refine ⟨?_, g1, ?_, g2⟩
  · rw [h1]; exact concat_splitVec _ _ h2
  · rw [h1]; exact dvecOK_split _ _ h2

/-- **`dist_amg_apply_eq_gathered`**: the same for the preconditioner call `mpi::amg::apply(rhs, x)` (`pre_cycles`
cycles from a cleared `x`, or a copy of `rhs`). -/
theorem dist_amg_apply_eq_gathered (prm : Amg.Params) (dsm : DSmoother K S) (sm : Relax.Smoother K T) (gs : List S → T)
    (direct : CRS K → Vec K → Vec K) (hsm : SmootherRef dsm sm gs) (d : DLevel K S) (dls : List (DLevel K S))
    (hOK : DHierOK dsm direct (d :: dls)) (dscr : List (DScratch K)) (drhs : DVec K)
    (hscr : DScrsOK ((d :: dls).map (·.part)) dscr) (hrhs : DVecOK d.part drhs) :
    concatVec (dapply prm dsm direct (d :: dls) dscr drhs).1
      = (Amg.apply prm sm direct (gatherLevels gs (d :: dls)) (dscr.map gatherScratch) (concatVec drhs)).1 ∧
    (dapply prm dsm direct (d :: dls) dscr drhs).2.map gatherScratch
      = (Amg.apply prm sm direct (gatherLevels gs (d :: dls)) (dscr.map gatherScratch) (concatVec drhs)).2 ∧
    DVecOK d.part (dapply prm dsm direct (d :: dls) dscr drhs).1 := by
  have hH := href_gather dsm sm gs direct hsm (d :: dls) hOK
  obtain ⟨r1, r2⟩ := split_concat d.part drhs hrhs
  have hsim := dapply_sim prm dsm sm direct dls (gatherLevels gs dls) d _ hH dscr (dscr.map gatherScratch)
    (concatVec drhs) (scrsRef_of_ok _ _ hscr) r2
  rw [r1] at hsim
  obtain ⟨h1, h2, h3⟩ := hsim
  refine ⟨?_, (scrsRef_gather _ _ _ h3).1, ?_⟩
  · rw [h1]; exact concat_splitVec _ _ h2
  · rw [h1]; exact dvecOK_split _ _ h2

/-- **`mpi_amg_setup`**: the hypothesis `Setup` of `lockstep_refines_serial` — in particular `Setup.pd`, "the
distributed preconditioner refines a serial one" — holds for `mpi::amg` (any refining smoother): the system matrix is
the gathered finest matrix, the serial preconditioner is `amg::apply` of the gathered hierarchy.  (The
preconditioner is taken with the level vectors `dscr` it is called with; by C02 `apply_scratch_indep` the serial
result does not depend on them, so neither does the distributed one.) -/
theorem mpi_amg_setup (prm : Amg.Params) (dsm : DSmoother K S) (sm : Relax.Smoother K T) (gs : List S → T)
    (direct : CRS K → Vec K → Vec K) (hsm : SmootherRef dsm sm gs) (d : DLevel K S) (dls : List (DLevel K S))
    (hOK : DHierOK dsm direct (d :: dls)) (dA : List (DistMat K)) (hdA : d.A = some dA) (hnp : 0 < d.part.length)
    (dscr : List (DScratch K)) (hscr : DScrsOK ((d :: dls).map (·.part)) dscr) (conj : K → K) :
    Setup (assemble dA d.part)
      (fun g => (Amg.apply prm sm direct (gatherLevels gs (d :: dls)) (dscr.map gatherScratch) g).1)
      { Ds := dA, part := d.part, conj := conj, Pd := fun g => (dapply prm dsm direct (d :: dls) dscr g).1 } := by
  have hD := hOK.1.A dA hdA
  have hP := assemble_partOK dA d.part d.part hD
  have hH := href_gather dsm sm gs direct hsm (d :: dls) hOK
  have hsim := fun g hg => dapply_sim prm dsm sm direct dls (gatherLevels gs dls) d _ hH dscr
    (dscr.map gatherScratch) g (scrsRef_of_ok _ _ hscr) hg
  exact { wf := hP.wf, rows := hP.rows, cols := hP.cols, ds := split_assemble_ok dA d.part d.part hD, np := hnp,
          psize := fun g hg => (hsim g hg).2.1, pd := fun g hg => (hsim g hg).1 }

end generic

section smoothers
variable {K : Type} [Field K] [DecidableEq K]

/-- **damped Jacobi refines**: whenever `mpi::relaxation::damped_jacobi` can be constructed on the distribution of `A`
(every rank finds the diagonal of its rows in its LOCAL part), the serial constructor succeeds on `A`, the ranks hold
the slices of the serial inverted diagonal, and the sweeps refine the serial sweeps. -/
theorem jacobi_refines (ω : K) : SmootherRef (distJacobi ω) (Relax.jacobi ω) (concatVec : List (Vec K) → Vec K) := by
  intro A p hP ss hset
  obtain ⟨hok, hbad, hpre, hpost⟩ := distJacobi_ref ω A p hP
  cases hd : Relax.hasDiagb A with
  | false => rw [(hbad hd).1] at hset; cases hset
  | true =>
    obtain ⟨e1, e2⟩ := hok hd
    rw [e1] at hset
    cases hset
    have hc : concatVec (splitVec (Relax.diagInv A) p) = Relax.diagInv A :=
      concat_splitVec _ _ (by rw [size_diagInv, hP.rows])
    rw [hc]
    exact ⟨e2, hpre, hpost⟩

/-- **SPAI-0 refines**: the distributed constructor (numerator from the local part, denominator from the local and
the remote part of the row) gives the slices of the serial SPAI-0 diagonal of the gathered matrix. -/
theorem spai0_refines (norm : K → K) :
    SmootherRef (distSpai0 norm) (Relax.spai0 norm) (concatVec : List (Vec K) → Vec K) := by
  intro A p hP ss hset
  obtain ⟨e1, e2, hpre, hpost⟩ := distSpai0_ref norm A p hP
  rw [e1] at hset
  cases hset
  have hc : concatVec (splitVec (Relax.spai0Diag norm A) p) = Relax.spai0Diag norm A :=
    concat_splitVec _ _ (by rw [size_spai0Diag, hP.rows])
  rw [hc]
  exact ⟨e2, hpre, hpost⟩

end smoothers

section indep
variable {K S T : Type} [CommRing K] [DecidableEq K] [Nontrivial K]

/-- **`dist_apply_scratch_indep`**: on a complete well-formed hierarchy (`DHierFull`: what `mpi::amg::init` builds)
with smoothers that are `Relax.Smoother.Good` (C06) and a linear coarse solver, `mpi::amg::apply` returns the same `x`
whatever the level vectors `f`, `u`, `t` contain on entry — in particular whatever earlier applications left there.
This is C02 `apply_scratch_indep` carried over by the simulation; it is what makes the preconditioner of
`mpi_amg_setup` (taken with fixed level vectors) the preconditioner of every call of a Krylov run. -/
theorem dist_apply_scratch_indep (prm : Amg.Params) (dsm : DSmoother K S) (sm : Relax.Smoother K T) (gs : List S → T)
    (direct : CRS K → Vec K → Vec K) (hsm : SmootherRef dsm sm gs)
    (hgood : ∀ A s, sm.setup A = .ok s → sm.Good s A)
    (d : DLevel K S) (dls : List (DLevel K S)) (hOK : DHierOK dsm direct (d :: dls)) (hF : DHierFull (d :: dls))
    (hdir : ∀ Ad ∈ (gatherLevels gs (d :: dls) : List (Amg.Level K T)).filterMap (·.solve),
      Amg.DirectOK (direct Ad) Ad.nrows)
    (dscr dscr' : List (DScratch K)) (drhs : DVec K)
    (hscr : DScrsOK ((d :: dls).map (·.part)) dscr) (hscr' : DScrsOK ((d :: dls).map (·.part)) dscr')
    (hrhs : DVecOK d.part drhs) :
    (dapply prm dsm direct (d :: dls) dscr drhs).1 = (dapply prm dsm direct (d :: dls) dscr' drhs).1 :=
  dapply_indep prm dsm sm gs direct hsm hgood d dls hOK hF hdir dscr dscr' drhs hscr hscr' hrhs

end indep

section cg
variable {K : Type} [Field K] [DecidableEq K] [LT K] [DecidableLT K]
open Amgcl.Solver

/-- **distributed CG with distributed AMG = serial CG with serial AMG**: `lockstep_cg_refines_serial` with the
hypothesis `Setup` discharged by `mpi_amg_setup`: every rank returns the `(iters, resid)` of the serial CG on the
gathered system preconditioned with `amg::apply` of the gathered hierarchy, and holds its slice of that solution. -/
theorem lockstep_cg_mpi_amg {S T : Type} (aprm : Amg.Params) (dsm : DSmoother K S) (sm : Relax.Smoother K T)
    (gs : List S → T) (direct : CRS K → Vec K → Vec K) (hsm : SmootherRef dsm sm gs) (d : DLevel K S)
    (dls : List (DLevel K S)) (hOK : DHierOK dsm direct (d :: dls)) (dA : List (DistMat K)) (hdA : d.A = some dA)
    (hnp : 0 < d.part.length) (dscr : List (DScratch K)) (hscr : DScrsOK ((d :: dls).map (·.part)) dscr)
    (conj : K → K) (prm : Params K) (sqrt : K → K) (eps : K) (ws : Solver.CG.Work K) (f x0 : Vec K)
    (hf : f.size = d.part.sum) (hx : x0.size = d.part.sum) (hr : ws.r.size = d.part.sum) (hs : ws.s.size = d.part.sum)
    (hp : ws.p.size = d.part.sum) (hq : ws.q.size = d.part.sum) :
    let C : DCtx K := { Ds := dA, part := d.part, conj := conj,
                        Pd := fun g => (dapply aprm dsm direct (d :: dls) dscr g).1 }
    let P : Vec K → Vec K :=
      fun g => (Amg.apply aprm sm direct (gatherLevels gs (d :: dls)) (dscr.map gatherScratch) g).1
    ∃ ds', drun C (Lockstep.CG.prog prm sqrt eps) (distribute d.part (Lockstep.CG.initState ws f x0)) = some ds' ∧
      ds'.vec Lockstep.CG.vX
        = splitVec (Solver.CG.run prm (innerProductSerial conj) sqrt eps (assemble dA d.part) P ws f x0).x d.part ∧
      ∃ (n : Nat) (res : K),
        (Solver.CG.run prm (innerProductSerial conj) sqrt eps (assemble dA d.part) P ws f x0).out = .ok (n, res) ∧
        ∀ r, r < d.part.length →
          ds'.scal r Lockstep.CG.sOut = res ∧ ds'.scal r Lockstep.CG.sCnt = (n : K) :=
  lockstep_cg_refines_serial _ _ _ (mpi_amg_setup aprm dsm sm gs direct hsm d dls hOK dA hdA hnp dscr hscr conj)
    prm sqrt eps ws f x0 hf hx hr hs hp hq

end cg

/-! ## the hierarchy constructor -/
section constructor
variable {K S T : Type} [Field K] [DecidableEq K]

/-- **`dinit_output_ok`.**  Whatever `DistAmg.dinit` (`mpi::amg::init` without repartitioning) returns — for every
well-formed distributed input matrix (rows and columns partitioned alike, empty ranks allowed), every coarsening policy
that is `PolicyOK` (well-formed `P`, `R`, `A_c` whose partitions chain, no empty coarse level, on the level inputs
`Good` it is meant for), every distributed smoother and every serial coarse solver returning vectors of the size of its
right-hand side — is a hierarchy that satisfies `DHierOK` and `DHierFull`, the hypotheses of
`dist_amg_cycle_eq_gathered` / `dist_amg_apply_eq_gathered` / `dist_apply_scratch_indep` / `mpi_amg_setup`. -/
theorem dinit_output_ok (prm : Amg.Params) (pol : DPolicy K) (dsm : DSmoother K S) (directOk : CRS K → Bool)
    (direct : CRS K → Vec K → Vec K) (Good : Nat → List (DistMat K) → List Nat → Prop)
    (hpol : PolicyOK pol Good prm.coarse_enough) (hdir : ∀ M f, (direct M f).size = f.size)
    (A : List (DistMat K)) (part : List Nat) (hA : DistOK A part part) (hG : Good 0 (distSortRows A) part)
    (dls : List (DLevel K S)) (h : dinit prm pol dsm directOk A part = .ok dls) :
    DHierOK dsm direct dls ∧ DHierFull dls :=
  dinit_ok prm pol dsm directOk direct Good hpol hdir A part hA hG dls h

/-- **`dinit_given_ok`**: the constructor run on GIVEN transfer operators `trs[l] = (P_l, R_l)` (distributed by
`parts[l]`, `parts[l+1]`) with the Galerkin coarse operator `R·(A·P)` computed by `mpi::product` — the configuration of
`h_mpi_cycle` — returns a `DHierOK`, `DHierFull` hierarchy whenever the shapes of the given operators chain, no given
coarse level is empty and every level with more than `coarse_enough` rows has its operators. -/
theorem dinit_given_ok (prm : Amg.Params) (trs : List (CRS K × CRS K)) (parts : List (List Nat))
    (dsm : DSmoother K S) (directOk : CRS K → Bool) (direct : CRS K → Vec K → Vec K)
    (hshape : ∀ l P R, trs[l]? = some (P, R) →
      PartOK P (parts.getD l []) (parts.getD (l + 1) []) ∧ PartOK R (parts.getD (l + 1) []) (parts.getD l []) ∧
      (parts.getD (l + 1) []).sum ≠ 0)
    (hlast : ∀ l, prm.coarse_enough < (parts.getD l []).sum → l < trs.length)
    (hdir : ∀ M f, (direct M f).size = f.size) (A : CRS K) (hA : PartOK A (parts.getD 0 []) (parts.getD 0 []))
    (dls : List (DLevel K S))
    (h : dinit prm (givenPolicy trs parts) dsm directOk (split A (parts.getD 0 []) (parts.getD 0 [])) (parts.getD 0 [])
      = .ok dls) :
    DHierOK dsm direct dls ∧ DHierFull dls :=
  dinit_ok prm _ dsm directOk direct _ (givenPolicy_ok trs parts prm.coarse_enough hshape hlast) hdir _ _
    (distOK_split _ _ _ hA) rfl dls h

/-- **`dinit_cycle_eq_gathered`**: `dist_amg_cycle_eq_gathered` for the hierarchies the model constructor builds, with
no hypothesis on the hierarchy left. -/
theorem dinit_cycle_eq_gathered (prm : Amg.Params) (pol : DPolicy K) (dsm : DSmoother K S) (sm : Relax.Smoother K T)
    (gs : List S → T) (directOk : CRS K → Bool) (direct : CRS K → Vec K → Vec K)
    (Good : Nat → List (DistMat K) → List Nat → Prop) (hpol : PolicyOK pol Good prm.coarse_enough)
    (hdir : ∀ M f, (direct M f).size = f.size) (hsm : SmootherRef dsm sm gs)
    (A : List (DistMat K)) (part : List Nat) (hA : DistOK A part part) (hG : Good 0 (distSortRows A) part)
    (dls : List (DLevel K S)) (h : dinit prm pol dsm directOk A part = .ok dls)
    (dscr : List (DScratch K)) (drhs dx : DVec K) (hscr : DScrsOK (dls.map (·.part)) dscr)
    (hrhs : DVecOK (nextPart dls) drhs) (hx : DVecOK (nextPart dls) dx) :
    concatVec (dcycle prm dsm direct dls dscr drhs dx).1
      = (Amg.cycle prm sm direct (gatherLevels gs dls) (dscr.map gatherScratch) (concatVec drhs) (concatVec dx)).1 := by
  obtain ⟨hOK, hF⟩ := dinit_ok prm pol dsm directOk direct Good hpol hdir A part hA hG dls h
  cases dls with
  | nil => exact hF.elim
  | cons d rest =>
    exact (dist_amg_cycle_eq_gathered prm dsm sm gs direct hsm d rest hOK dscr drhs dx hscr hrhs hx).1

end constructor

/-! ## non-vacuity: a two-level hierarchy on 3 ranks, a different rank empty on each level -/

/-- 1-D Laplacian, pairwise aggregation, Galerkin coarse matrix -/
def mgA0 : CRS Rat := ⟨4, #[[(0, 2), (1, -1)], [(0, -1), (1, 2), (2, -1)], [(1, -1), (2, 2), (3, -1)], [(2, -1), (3, 2)]]⟩
def mgP0 : CRS Rat := ⟨2, #[[(0, 1)], [(0, 1)], [(1, 1)], [(1, 1)]]⟩
def mgR0 : CRS Rat := ⟨4, #[[(0, 1), (1, 1)], [(2, 1), (3, 1)]]⟩
def mgA1 : CRS Rat := ⟨2, #[[(0, 2), (1, -1)], [(0, -1), (1, 2)]]⟩
/-- fine level: rank 1 owns nothing; coarse level: rank 0 owns nothing (as after a repartitioning) -/
def mgP : List Nat := [2, 0, 2]
def mgQ : List Nat := [0, 1, 1]
/-- an exact direct solver for 2×2 systems (Cramer) -/
def mgDirect (A : CRS Rat) (f : Vec Rat) : Vec Rat :=
  let det := A.get 0 0 * A.get 1 1 - A.get 0 1 * A.get 1 0
  #[(A.get 1 1 * f.getD 0 0 - A.get 0 1 * f.getD 1 0) / det, (A.get 0 0 * f.getD 1 0 - A.get 1 0 * f.getD 0 0) / det]
/-- a W-cycle (`ncycle = 2`) -/
def mgPrm : Amg.Params :=
  { coarse_enough := 2, direct_coarse := true, max_levels := 2, npre := 1, npost := 1, ncycle := 2, pre_cycles := 1,
    allow_rebuild := false }
def mgL0 : DLevel Rat (Vec Rat) :=
  { part := mgP, A := some (split mgA0 mgP mgP), P := some (split mgP0 mgP mgQ), R := some (split mgR0 mgQ mgP),
    relax := some (splitVec (Relax.diagInv mgA0) mgP) }
def mgL1 : DLevel Rat (Vec Rat) := { part := mgQ, solve := some (directInit 1 (split mgA1 mgQ mgQ) mgQ) }

/-- the hierarchy is well formed: all hypotheses of the theorems are dischargeable -/
theorem mg_ok : DHierOK (distJacobi (2 / 3 : Rat)) mgDirect [mgL0, mgL1] := by
  have hA0 : PartOK mgA0 mgP mgP := ⟨by decide, rfl, by decide, by decide⟩
  refine ⟨⟨?_, ?_, ?_, ?_, ?_⟩, ⟨?_, ?_, ?_, ?_, ?_⟩, trivial⟩
  · intro dA h; cases h; exact distOK_split _ _ _ hA0
  · intro dP h; cases h; exact distOK_split _ _ _ ⟨by decide, rfl, by decide, by decide⟩
  · intro dR h; cases h; exact distOK_split _ _ _ ⟨by decide, rfl, by decide, by decide⟩
  · intro st h; cases h
  · intro ss h; cases h
    exact ⟨_, rfl, ((distJacobi_ref (2 / 3 : Rat) mgA0 mgP hA0).1 (by decide)).1⟩
  · intro dA h; cases h
  · intro dP h; cases h
  · intro dR h; cases h
  · intro st h; cases h
    exact ⟨_, distOK_split _ _ _ ⟨by decide, rfl, by decide, by decide⟩, rfl, fun f _ => rfl⟩
  · intro ss h; cases h

/-- `dist_amg_cycle_eq_gathered` instantiated (Jacobi, direct coarse solve, W-cycle, empty ranks) -/
example :
    concatVec (dcycle mgPrm (distJacobi (2 / 3 : Rat)) mgDirect [mgL0, mgL1] (freshDScratch [mgL0, mgL1])
        (splitVec #[1, 2, 3, 4] mgP) (splitVec #[0, 0, 0, 0] mgP)).1
      = (Amg.cycle mgPrm (Relax.jacobi (2 / 3 : Rat)) mgDirect (gatherLevels concatVec [mgL0, mgL1])
          ((freshDScratch [mgL0, mgL1]).map gatherScratch) (concatVec (splitVec #[1, 2, 3, 4] mgP))
          (concatVec (splitVec #[0, 0, 0, 0] mgP))).1 :=
  (dist_amg_cycle_eq_gathered mgPrm _ _ concatVec mgDirect (jacobi_refines (2 / 3 : Rat)) mgL0 [mgL1] mg_ok _ _ _
    (dscrsOK_fresh [mgL0, mgL1]) (dvecOK_split _ _ (by decide)) (dvecOK_split _ _ (by decide))).1

/-- … and the common value is not trivial: the executable model returns, on ranks 0 / 1 / 2, -/
example : (dcycle mgPrm (distJacobi (2 / 3 : Rat)) mgDirect [mgL0, mgL1] (freshDScratch [mgL0, mgL1])
        (splitVec #[1, 2, 3, 4] mgP) (splitVec #[0, 0, 0, 0] mgP)).1
      = [#[2782 / 729, 4835 / 729], #[], #[5560 / 729, 4238 / 729]] := by decide +kernel

/-- the CG + AMG composition: the hypotheses of `lockstep_cg_mpi_amg` are satisfiable -/
example : Setup (assemble (split mgA0 mgP mgP) mgP)
    (fun g => (Amg.apply mgPrm (Relax.jacobi (2 / 3 : Rat)) mgDirect (gatherLevels concatVec [mgL0, mgL1])
      ((freshDScratch [mgL0, mgL1]).map gatherScratch) g).1)
    { Ds := split mgA0 mgP mgP, part := mgP, conj := id,
      Pd := fun g => (dapply mgPrm (distJacobi (2 / 3 : Rat)) mgDirect [mgL0, mgL1] (freshDScratch [mgL0, mgL1]) g).1 } :=
  mpi_amg_setup mgPrm _ _ concatVec mgDirect (jacobi_refines (2 / 3 : Rat)) mgL0 [mgL1] mg_ok _ rfl (by decide) _
    (dscrsOK_fresh [mgL0, mgL1]) id

/-- SPAI-0: the distributed constructor on 3 ranks gives the slices of the serial SPAI-0 diagonal -/
example : (distSpai0 absK).setup (split mgA0 mgP mgP) mgP = .ok (splitVec (Relax.spai0Diag absK mgA0) mgP) :=
  (distSpai0_ref absK mgA0 mgP ⟨by decide, rfl, by decide, by decide⟩).1

/-- the distributed direct solver on 3 ranks (rank 0 empty) -/
example : concatVec (directSolve mgDirect (directInit 1 (split mgA1 mgQ mgQ) mgQ) (splitVec #[3, 0] mgQ)
      (splitVec #[0, 0] mgQ)) = mgDirect (assemble (split mgA1 mgQ mgQ) mgQ) (concatVec (splitVec #[3, 0] mgQ)) :=
  (dist_direct_solve_eq_serial mgDirect _ mgQ (distOK_split _ _ _ ⟨by decide, rfl, by decide, by decide⟩)
    (fun _ _ => rfl) _ _ (dvecOK_split _ _ (by decide)) (dvecOK_split _ _ (by decide))).1

/-- a second coarse level: relaxation instead of the direct solver -/
def mgL1r : DLevel Rat (Vec Rat) :=
  { part := mgQ, A := some (split mgA1 mgQ mgQ), relax := some (splitVec (Relax.diagInv mgA1) mgQ) }

theorem mg_ok_r : DHierOK (distJacobi (2 / 3 : Rat)) mgDirect [mgL0, mgL1r] := by
  have hA0 : PartOK mgA0 mgP mgP := ⟨by decide, rfl, by decide, by decide⟩
  have hA1 : PartOK mgA1 mgQ mgQ := ⟨by decide, rfl, by decide, by decide⟩
  refine ⟨mg_ok.1, ⟨?_, ?_, ?_, ?_, ?_⟩, trivial⟩
  · intro dA h; cases h; exact distOK_split _ _ _ hA1
  · intro dP h; cases h
  · intro dR h; cases h
  · intro st h; cases h
  · intro ss h; cases h
    exact ⟨_, rfl, ((distJacobi_ref (2 / 3 : Rat) mgA1 mgQ hA1).1 (by decide)).1⟩

/-- `dist_apply_scratch_indep` instantiated: fresh level vectors versus level vectors full of other data -/
example (junk : List (DScratch Rat)) (hj : DScrsOK ([mgL0, mgL1r].map (·.part)) junk) :
    (dapply mgPrm (distJacobi (2 / 3 : Rat)) mgDirect [mgL0, mgL1r] (freshDScratch [mgL0, mgL1r])
        (splitVec #[1, 2, 3, 4] mgP)).1
      = (dapply mgPrm (distJacobi (2 / 3 : Rat)) mgDirect [mgL0, mgL1r] junk (splitVec #[1, 2, 3, 4] mgP)).1 :=
  dist_apply_scratch_indep mgPrm _ (Relax.jacobi (2 / 3 : Rat)) concatVec mgDirect (jacobi_refines (2 / 3 : Rat))
    (fun A s h => by
      have hs : s.size = A.nrows := by
        simp only [Relax.jacobi] at h
        split at h
        · cases h; simp [Relax.diagInv]
        · cases h
      exact C06.jacobi_affine_scratch_indep (2 / 3 : Rat) s A hs)
    mgL0 [mgL1r] mg_ok_r ⟨rfl, rfl, rfl, rfl, Or.inr ⟨rfl, rfl, rfl⟩⟩ (by intro Ad h; simp [gatherLevels, mgL0, mgL1r] at h)
    _ _ _ (dscrsOK_fresh [mgL0, mgL1r]) hj (dvecOK_split _ _ (by decide))

/-- a coarse solver that returns vectors of the size of its right-hand side (Cramer on 2×2 systems) -/
def mgDirectS (A : CRS Rat) (f : Vec Rat) : Vec Rat := if f.size = 2 then mgDirect A f else f

theorem mgDirectS_size (A : CRS Rat) (f : Vec Rat) : (mgDirectS A f).size = f.size := by
  unfold mgDirectS
  split
  · next h => rw [h]; rfl
  · rfl

/-- `dinit_given_ok` instantiated: the model constructor run on the 1-D Laplacian on 3 ranks (rank 1 empty) with the
given pairwise-aggregation operators distributed so that rank 0 is empty on the coarse level builds a 2-level hierarchy
(Galerkin product through `mpi::product`, direct coarse solver) that is `DHierOK` and `DHierFull` -/
example : ∃ dls, dinit mgPrm (givenPolicy [(mgP0, mgR0)] [mgP, mgQ]) (distJacobi (2 / 3 : Rat)) (fun _ => true)
      (split mgA0 mgP mgP) mgP = .ok dls ∧ dls.length = 2 ∧
    DHierOK (distJacobi (2 / 3 : Rat)) mgDirectS dls ∧ DHierFull dls := by
  have h2 : (match dinit mgPrm (givenPolicy [(mgP0, mgR0)] [mgP, mgQ]) (distJacobi (2 / 3 : Rat)) (fun _ => true)
      (split mgA0 mgP mgP) mgP with
    | .ok l => decide (l.length = 2)
    | .error _ => false) = true := by decide +kernel
  cases hd : dinit mgPrm (givenPolicy [(mgP0, mgR0)] [mgP, mgQ]) (distJacobi (2 / 3 : Rat)) (fun _ => true)
      (split mgA0 mgP mgP) mgP with
  | error e => rw [hd] at h2; cases h2
  | ok dls =>
    rw [hd] at h2
    refine ⟨dls, rfl, by simpa using h2, ?_⟩
    refine dinit_given_ok mgPrm [(mgP0, mgR0)] [mgP, mgQ] _ (fun _ => true) mgDirectS ?_ ?_ mgDirectS_size mgA0
      ⟨by decide, rfl, by decide, by decide⟩ dls hd
    · intro l P R h
      match l, h with
      | 0, h =>
        simp only [List.getElem?_cons_zero, Option.some.injEq, Prod.mk.injEq] at h
        obtain ⟨rfl, rfl⟩ := h
        exact ⟨⟨by decide, rfl, by decide, by decide⟩, ⟨by decide, rfl, by decide, by decide⟩, by decide⟩
      | l + 1, h => simp at h
    · intro l h
      match l, h with
      | 0, _ => decide
      | 1, h => exact absurd h (by decide)
      | l + 2, h => simp [mgPrm] at h

end Amgcl.C12
