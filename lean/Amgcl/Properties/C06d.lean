import Amgcl.Properties.C08e
import Amgcl.Model.RelaxCheb
/-!
# C06 — Chebyshev smoother constructed with `power_iters > 0`

`Model/PowerMethod.lean` `chebSetupPower` is the constructor text of relaxation/chebyshev.hpp with
`spectral_radius<scale>(A, prm.power_iters)` taking the power-method branch (model `powerMethod`, theorems `Properties/C08e.lean`;
exact tie: op `pm_cheb_apply` of `harness/h_power.cpp`).  The theorems of `Properties/C06.lean` about `solve`
(`cheb_scratch_indep`, `cheb_reuse`, `cheb_is_chebyshev_poly`, `chebY_recurrence`) are stated for an ARBITRARY `ChebState`, so they
apply to the state built here; this file states what that state is.
-/
namespace Amgcl.C06d
open Amgcl Amgcl.Relax

variable {K : Type} [Field K] [LinearOrder K] [IsStrictOrderedRing K]

/-- the ellipse of the smoother built with the power method: centre `d = (ρ·higher + ρ·lower)/2`, semi-axis
`c = (ρ·higher − ρ·lower)/2` with `ρ = spectral_radius<scale>(A, power_iters) ≥ 0` (`C08e.power_radius_nonneg`); degree, scale
flag and the inverted diagonal are those of the Gershgorin constructor -/
theorem cheb_power_setup (sqrt : K → K) (prm : ChebParams K) (iters : Nat) (A : CRS K) (b0 : Vec K) :
    (chebSetupPower sqrt prm iters A b0).d
        = 1 / (1 + 1) * (powerMethod sqrt prm.scale A iters b0 * prm.higher + powerMethod sqrt prm.scale A iters b0 * prm.lower) ∧
    (chebSetupPower sqrt prm iters A b0).c
        = 1 / (1 + 1) * (powerMethod sqrt prm.scale A iters b0 * prm.higher - powerMethod sqrt prm.scale A iters b0 * prm.lower) ∧
    0 ≤ powerMethod sqrt prm.scale A iters b0 ∧
    (chebSetupPower sqrt prm iters A b0).degree = prm.degree ∧ (chebSetupPower sqrt prm iters A b0).scale = prm.scale ∧
    (chebSetupPower sqrt prm iters A b0).M = (chebSetup prm A).M :=
  ⟨rfl, rfl, C08e.power_radius_nonneg sqrt prm.scale A iters b0, rfl, rfl, rfl⟩

/-- with `0 ≤ lower ≤ higher` the ellipse is well-formed: `0 ≤ c ≤ d` -/
theorem cheb_power_ellipse (sqrt : K → K) (prm : ChebParams K) (iters : Nat) (A : CRS K) (b0 : Vec K)
    (hl : 0 ≤ prm.lower) (hlh : prm.lower ≤ prm.higher) :
    0 ≤ (chebSetupPower sqrt prm iters A b0).c ∧ (chebSetupPower sqrt prm iters A b0).c ≤ (chebSetupPower sqrt prm iters A b0).d := by
  obtain ⟨hd, hc, hρ, -⟩ := cheb_power_setup sqrt prm iters A b0
  rw [hd, hc]
  have h2 : (0 : K) < 1 / (1 + 1) := by norm_num
  constructor
  · exact mul_nonneg h2.le (sub_nonneg.2 (mul_le_mul_of_nonneg_left hlh hρ))
  · refine mul_le_mul_of_nonneg_left ?_ h2.le
    have := mul_nonneg hρ hl
    linarith

/-- the state differs from the Gershgorin constructor's only through the radius -/
theorem cheb_power_state_eq (sqrt : K → K) (prm : ChebParams K) (iters : Nat) (A : CRS K) (b0 : Vec K)
    (h : powerMethod sqrt prm.scale A iters b0 = gershgorin prm.scale A) :
    chebSetupPower sqrt prm iters A b0 = chebSetup prm A := by
  unfold chebSetupPower chebSetup
  rw [h]

-- non-vacuity: diag(3, -7/2) with the library-style start e_1: ρ = 7/2 (C08e.power_diag_unit), higher = 1, lower = 1/2
example : (chebSetupPower rsqrt { degree := 2, higher := (1 : Rat), lower := 1/2, scale := false } 4
      (⟨2, #[[(0, 3)], [(1, -7/2)]]⟩ : CRS Rat) #[0, 1]).c = 7/8 ∧
    (chebSetupPower rsqrt { degree := 2, higher := (1 : Rat), lower := 1/2, scale := false } 4
      (⟨2, #[[(0, 3)], [(1, -7/2)]]⟩ : CRS Rat) #[0, 1]).d = 21/8 := by decide +kernel

end Amgcl.C06d
