import Amgcl.Properties.C10f
import Amgcl.Properties.C10c
import Amgcl.Properties.C10d
/-!
# C10 (continued, package alloc2) — further MPI sites: `pmis::conn_strength`, the filtered values of the distributed
smoothed aggregation, the send buffers of `remote_rows`

* `pmis_strength_val_defined` — `S_loc.val = new char[A_loc.nnz]` (resp. `S_rem`): the flag of every stored entry is
  stored, segment by segment over the rows of `A`.
* `pmis_strength_col_defined` — `S.ptr` (zero-filled), one increment per flagged entry, scan, `S.col = new[nnz]`,
  filled from the loaded heads with the columns of the flagged entries.
* `mpi_sa_filtered_val_defined` — `Af_loc_val` / `Af_rem_val = numa_vector(S.nnz, false)`: row `i` stores one value per
  flagged entry from `head = S.ptr[i]`; with `S.ptr` the pointer array of the flagged rows (what `conn_strength`
  produced) every cell is stored.
* `pmis_tentative_defined` — `P_loc` / `P_rem` of `pmis::tentative_prolongation` without near-null-space vectors:
  zero-filled `ptr`, one increment for a non-deleted row owned by (resp. not owned by) this rank, scan,
  `set_nonzeros`, one entry stored at the loaded `ptr[i]`.
* `remote_rows_send_defined` — `m.set_size(k, 0, false)`: `m.ptr[0 … k-1]` stored (the widths; cell `k` is never stored
  and never read: `MPI_Isend(m.ptr, m.nrows, …)`), `m.set_nonzeros(nnz)`, `col`/`val` stored with a running head.
-/
namespace Amgcl.C10i
open Amgcl Amgcl.Defined

section strength
variable {α : Type}

/-- the flags `S.val[j]`, `j` running over the row segments of `A` -/
theorem pmis_strength_val_defined (n : Nat) (ptr : Nat → Nat) (flag : Nat → α) (h0 : ptr 0 = 0)
    (hm : ∀ i, i < n → ptr i ≤ ptr (i + 1)) (j j' : Array α) (hj : j.size = ptr n) (hj' : j'.size = ptr n) :
    allWritten (applyStores (segStores n ptr flag) (alloc j)) = true ∧
      applyStores (segStores n ptr flag) (alloc j) = applyStores (segStores n ptr flag) (alloc j') :=
  applyStores_covered _ (ptr n) (seg_cover n ptr flag h0 hm) _ _ (by rw [alloc_size, hj]) (by rw [alloc_size, hj'])

/-- `S.ptr` / `S.col` from the flagged entries `(column, flag)` of every row -/
theorem pmis_strength_col_defined (rows : Array (List (Nat × Bool))) (jp jp' : Array Nat) (jc jc' : Nat → Array Nat)
    (hp : jp.size = rows.size + 1) (hc : ∀ k, (jc k).size = k) (hp' : jp'.size = rows.size + 1)
    (hc' : ∀ k, (jc' k).size = k) :
    (schurBlockCells (K := Unit) rows (fun e => e.2) (fun e => (e.1, ())) jp jc (fun k => Array.replicate k ())).ok = true ∧
      allWritten (schurBlockCells (K := Unit) rows (fun e => e.2) (fun e => (e.1, ())) jp jc
        (fun k => Array.replicate k ())).ptr = true ∧
      allWritten (schurBlockCells (K := Unit) rows (fun e => e.2) (fun e => (e.1, ())) jp jc
        (fun k => Array.replicate k ())).col = true ∧
      schurBlockCells (K := Unit) rows (fun e => e.2) (fun e => (e.1, ())) jp jc (fun k => Array.replicate k ())
        = schurBlockCells (K := Unit) rows (fun e => e.2) (fun e => (e.1, ())) jp' jc' (fun k => Array.replicate k ()) := by
  obtain ⟨a, b, c, _, _, f⟩ := C10f.schur_block_defined (K := Unit) rows (fun e => e.2) (fun e => (e.1, ())) jp jp' jc jc'
    (fun k => Array.replicate k ()) (fun k => Array.replicate k ()) hp hc (fun k => by simp) hp' hc' (fun k => by simp)
  exact ⟨a, b, c, f⟩

end strength

example : erase (schurBlockCells (K := Unit) #[[(0, true), (1, false)], [(0, true), (1, true)]] (fun e => e.2)
    (fun e => (e.1, ())) #[9, 9, 9] (fun k => Array.replicate k 5) (fun k => Array.replicate k ())).col = #[0, 0, 1] := by
  decide +kernel

section tentative
variable {K : Type} [One K]

/-- rows of `P_loc` (`loc = true`) / `P_rem` (`loc = false`) -/
def pmisTentRows (n : Nat) (deleted mine : Nat → Bool) (col : Nat → Nat) (loc : Bool) : Array (Row K) :=
  Array.ofFn (n := n) fun i => if deleted i.val then [] else if mine i.val == loc then [(col i.val, (1 : K))] else []

/-- the increments of the counting loop -/
def pmisTentWidth (deleted mine : Nat → Bool) (loc : Bool) (i : Nat) : Nat :=
  if deleted i then 0 else if mine i == loc then 1 else 0

theorem pmis_tentative_defined (n : Nat) (deleted mine : Nat → Bool) (col : Nat → Nat) (loc : Bool) (jp jp' : Array Nat)
    (jc jc' : Nat → Array Nat) (jv jv' : Nat → Array K)
    (hp : jp.size = n + 1) (hc : ∀ k, (jc k).size = k) (hv : ∀ k, (jv k).size = k)
    (hp' : jp'.size = n + 1) (hc' : ∀ k, (jc' k).size = k) (hv' : ∀ k, (jv' k).size = k) :
    (twoPassInc (pmisTentRows (K := K) n deleted mine col loc) (pmisTentWidth deleted mine loc) jp jc jv).ok = true ∧
      twoPassInc (pmisTentRows (K := K) n deleted mine col loc) (pmisTentWidth deleted mine loc) jp jc jv
        = CrsCells.ofRows (pmisTentRows (K := K) n deleted mine col loc) ∧
      twoPassInc (pmisTentRows (K := K) n deleted mine col loc) (pmisTentWidth deleted mine loc) jp jc jv
        = twoPassInc (pmisTentRows (K := K) n deleted mine col loc) (pmisTentWidth deleted mine loc) jp' jc' jv' := by
  have hn : (pmisTentRows (K := K) n deleted mine col loc).size = n := by simp [pmisTentRows]
  have hw : ∀ i, i < (pmisTentRows (K := K) n deleted mine col loc).size →
      pmisTentWidth deleted mine loc i = ((pmisTentRows (K := K) n deleted mine col loc).getD i []).length := by
    intro i hi
    rw [hn] at hi
    unfold pmisTentWidth pmisTentRows
    simp only [Array.getD_eq_getD_getElem?, Array.size_ofFn, hi, Array.getElem?_ofFn, dite_true, Option.getD_some]
    split
    · rfl
    · split <;> rfl
  rw [twoPassInc_spec _ _ hw jp jc jv (by rw [hn]; exact hp) hc hv,
    twoPassInc_spec _ _ hw jp' jc' jv' (by rw [hn]; exact hp') hc' hv']
  exact ⟨rfl, rfl, rfl⟩

end tentative

example : erase (twoPassInc (pmisTentRows (K := Rat) 4 (fun i => i == 1) (fun i => i != 3) (fun i => 10 + i) true)
    (pmisTentWidth (fun i => i == 1) (fun i => i != 3) true) #[9, 9, 9, 9, 9] (fun k => Array.replicate k 5)
    (fun k => Array.replicate k 7)).col = #[10, 12] := by decide +kernel

section filtered
variable {K : Type}

/-- `Af_loc_val` / `Af_rem_val`: the values of the flagged rows stored from `head = S.ptr[i]` -/
theorem mpi_sa_filtered_val_defined (rows : Array (Row K)) (jp jc jp' jc' : Array Nat) (jv jv' : Array K)
    (hp : jp.size = rows.size + 1) (hc : jc.size = (flatRows rows).length) (hv : jv.size = (flatRows rows).length)
    (hp' : jp'.size = rows.size + 1) (hc' : jc'.size = (flatRows rows).length) (hv' : jv'.size = (flatRows rows).length) :
    allWritten (cloneCells rows (ptrList rows).toArray jp jc jv).val = true ∧
      (cloneCells rows (ptrList rows).toArray jp jc jv).ok = true ∧
      (cloneCells rows (ptrList rows).toArray jp jc jv).val = (cloneCells rows (ptrList rows).toArray jp' jc' jv').val := by
  obtain ⟨a, b, c⟩ := C10c.clone_defined rows jp jc jp' jc' jv jv' hp hc hv hp' hc' hv'
  refine ⟨?_, a, by rw [c]⟩
  rw [b]; exact (ofRows_allWritten rows).2.2.1

/-- the send buffer `m` of `remote_rows`: `col` / `val` by the one-pass running head (exact size `m.nnz = Σ w`), `ptr`
cells `0 … k-1` stored with the widths -/
theorem remote_rows_send_defined (rows : Array (Row K)) (jp jc : Array Nat) (jv : Array K)
    (hp : jp.size = rows.size + 1) (hc : jc.size = (flatRows rows).length) (hv : jv.size = (flatRows rows).length) :
    (∀ i, i < rows.size → load (applyStores ((List.range rows.size).map fun i => (i, (rows.getD i []).length)) (alloc jp)) i
        = some (rows.getD i []).length) ∧
      load (applyStores ((List.range rows.size).map fun i => (i, (rows.getD i []).length)) (alloc jp)) rows.size = none ∧
      allWritten (onePass rows jp jc jv).fill.col = true ∧ allWritten (onePass rows jp jc jv).fill.val = true ∧
      (onePass rows jp jc jv).fill.ok = true := by
  obtain ⟨_, b, c, d⟩ := onePass_exact rows jp jc jv hp hc hv
  obtain ⟨_, y, z, _⟩ := ofRows_allWritten rows
  refine ⟨?_, ?_, by rw [b]; exact y, by rw [c]; exact z, d⟩
  · intro i hi
    obtain ⟨v, hv'⟩ := load_applyStores_mem ((List.range rows.size).map fun i => (i, (rows.getD i []).length)) i
      (range_cover rows.size _ i hi)
    -- the value: the only store to `i`
    have h1 := hv' (alloc jp) (by rw [alloc_size, hp]; omega)
    have h2 : ∀ (l : List Nat) (a : Array (Cell Nat)), i < a.size → l.Nodup → i ∈ l →
        load (applyStores (l.map fun i => (i, (rows.getD i []).length)) a) i = some (rows.getD i []).length := by
      intro l
      induction l with
      | nil => intro a _ _ hmem; cases hmem
      | cons x t ih =>
        intro a ha hnd hmem
        have hnd' := List.nodup_cons.mp hnd
        show load (applyStores (t.map fun i => (i, (rows.getD i []).length)) (store a x (rows.getD x []).length)) i = _
        by_cases hx : x = i
        · subst hx
          rw [load_applyStores_not_mem _ _ x (by
            intro s hs hsx
            obtain ⟨y, hy, rfl⟩ := List.mem_map.mp hs
            exact hnd'.1 (hsx ▸ hy))]
          exact load_store_same _ _ _ ha
        · exact ih _ (by rw [store_size]; exact ha) hnd'.2 (by
            rcases List.mem_cons.mp hmem with h | h
            · exact absurd h.symm hx
            · exact h)
    exact h2 (List.range rows.size) (alloc jp) (by rw [alloc_size, hp]; omega) List.nodup_range
      (List.mem_range.mpr hi)
  · rw [load_applyStores_not_mem _ _ rows.size (by
      intro s hs hsx
      obtain ⟨y, hy, rfl⟩ := List.mem_map.mp hs
      have := List.mem_range.mp hy
      simp only at hsx
      omega)]
    exact load_alloc _ _

end filtered

example := remote_rows_send_defined (#[[(0, (1 : Rat))], [], [(0, 2), (1, 3)]] : Array (Row Rat)) #[9, 9, 9, 9]
  #[8, 8, 8] #[7, 7, 7] rfl rfl rfl
example := mpi_sa_filtered_val_defined (#[[(0, (1 : Rat))], [], [(0, 2), (1, 3)]] : Array (Row Rat)) #[9, 9, 9, 9]
  #[8, 8, 8] #[0, 0, 0, 0] #[1, 1, 1] #[7, 7, 7] #[2, 2, 2] rfl rfl rfl rfl rfl rfl

end Amgcl.C10i
