import Amgcl.Proofs.DistGershgorin
import Amgcl.Proofs.DistTranspose
import Amgcl.Proofs.DistSort
import Amgcl.Proofs.DistProduct
/-!
# C11 — distributed matrix algebra equals serial algebra for every partition

Model: `Amgcl/Model/Dist.lean` (one pure function on the list of per-rank states; a message is identified by
`(source, destination, tag)`, so the arrival order of messages cannot enter).  Only property theorems live here;
helper lemmas are in `Amgcl/Proofs/Dist*.lean`.

Every theorem quantifies over **all** rank counts `np = rp.length ≥ 0`, **all** contiguous row and column partitions
`rp`, `cp` (lists of per-rank sizes, zeros = ranks that own nothing), all well-formed CRS matrices (rectangular,
unsorted rows, duplicate entries) and all vectors; arithmetic is that of an arbitrary commutative ring (linearly
ordered field for the Gershgorin estimate).  IEEE rounding is not modelled (DESIGN.md §2.8).
-/
namespace Amgcl.C11
open Amgcl Amgcl.Dist

/-! ## distribution and assembly -/
section assemble
variable {K : Type}

/-- the distribution of a matrix is a well-formed distributed matrix (local columns in range, remote columns
owned by other ranks, row counts as in the partition) -/
theorem split_wf (A : CRS K) (rp cp : List Nat) (hA : A.WF) (hlen : rp.length = cp.length)
    (hrows : rp.sum = A.nrows) (hcols : cp.sum = A.ncols) : DistWF (split A rp cp) rp cp :=
  distWF_split A rp cp ⟨hA, hlen, hrows, hcols⟩

/-- **`assemble` is the inverse of `split`**: distributing the gathered matrix gives every rank its block back,
for every well-formed distributed matrix and every pair of partitions (empty ranks included). -/
theorem split_assemble_id (Ds : List (DistMat K)) (rp cp : List Nat) (h : DistWF Ds rp cp) :
    split (assemble Ds cp) rp cp = Ds :=
  split_assemble Ds rp cp h

/-- … and gathering the distribution of `A` gives a matrix that denotes `A` (entries of a row are stored local
part first, so the rows are permutations of the original rows). -/
theorem assemble_split_get [AddCommMonoid K] (A : CRS K) (rp cp : List Nat) (hA : A.WF) (hlen : rp.length = cp.length)
    (hrows : rp.sum = A.nrows) (hcols : cp.sum = A.ncols) (i j : Nat) :
    (assemble (split A rp cp) cp).get i j = A.get i j :=
  Dist.assemble_split_get A rp cp ⟨hA, hlen, hrows, hcols⟩ i j

end assemble

/-! ## the communication pattern -/
section pattern
variable {K : Type} [Zero K]

/-- **`pattern_complete`.**  For the pattern that `comm_pattern`'s constructor builds on rank `r` from the remote
part of its block:
1. `rem_cols` is the strictly increasing list of exactly the remote columns the block references;
2. the per-neighbour receive segments tile the receive buffer (their concatenation is `rem_cols`), the neighbour
   list is strictly increasing, every segment is non-empty, has the posted length `rcounts[d]` and consists of
   columns owned by its neighbour `d`;
3. what neighbour `d` sends to `r` (its `send` segment for `r`) is exactly `r`'s request to `d`, in `d`'s local
   numbering, and `d`'s posted send count equals `r`'s posted receive count (`MPI_Alltoall`);
4. after `start_exchange`/`finish_exchange` the receive buffer holds `x` at `rem_cols`, slot by slot — for every
   message arrival order, since each message is addressed by (source, tag) to its own segment;
5. hence every remote column `c` referenced by the block is received exactly once (`rem_cols` has no duplicates
   and the buffer has its length) and sits in the slot `local_index(c)` the renumbered column points to. -/
theorem pattern_complete (A : CRS K) (rp cp : List Nat) (hA : A.WF) (hlen : rp.length = cp.length)
    (hrows : rp.sum = A.nrows) (hcols : cp.sum = A.ncols) (x : Vec K) (hx : x.size = A.ncols)
    (r : Nat) (hr : r < rp.length) :
    let Ds := split A rp cp
    let pats := patternsOf Ds cp
    let p := pats.getD r default
    let buf := exchange pats (splitVec x cp) r
    (p.remCols.Pairwise (· < ·) ∧ ∀ c, c ∈ p.remCols ↔ c ∈ remColList (Ds.getD r default)) ∧
    (p.recv.flatMap (·.2) = p.remCols ∧ (p.recv.map (·.1)).Pairwise (· < ·) ∧
      ∀ ds ∈ p.recv, ds.2 ≠ [] ∧ ds.2.length = p.rcounts.getD ds.1 0 ∧ ∀ c ∈ ds.2, IsOwner cp c ds.1) ∧
    (∀ d, d < rp.length →
      (pats.getD d default).send.lookup r = (p.recv.lookup d).map (·.map (· - dom cp d)) ∧
      (pats.getD d default).scounts.getD r 0 = p.rcounts.getD d 0) ∧
    buf = p.remCols.map (fun c => x.getD c 0) ∧
    (p.remCols.Nodup ∧ buf.length = p.remCols.length ∧
      ∀ c ∈ remColList (Ds.getD r default), buf[p.localIndex c]? = some (x.getD c 0)) := by
  intro Ds pats p buf
  have hP : PartOK A rp cp := ⟨hA, hlen, hrows, hcols⟩
  have hok := remsOK_split A rp cp hP
  have hrc : r < cp.length := by rw [← hlen]; exact hr
  obtain ⟨p1, _, _, p4, _, _⟩ := pattern_getD cp _ hok r hrc
  have hrems : (Ds.map remColList).getD r [] = remColList (Ds.getD r default) :=
    getD_map_lt remColList _ r [] default (by rw [split_length]; exact hr)
  have hmem : ∀ c, c ∈ p.remCols ↔ c ∈ remColList (Ds.getD r default) := by
    intro c
    show c ∈ ((commPatterns cp (Ds.map remColList)).getD r default).remCols ↔ _
    rw [p1]; unfold remColsOf; rw [mem_sortUnique, hrems]
  have hbuf : buf = p.remCols.map (fun c => x.getD c 0) := by
    show exchange (commPatterns cp (Ds.map remColList)) (splitVec x cp) r = _
    rw [exchange_eq cp _ hok x (by rw [hx, hcols]) r hrc]
    show _ = ((commPatterns cp (Ds.map remColList)).getD r default).remCols.map _
    rw [p1]
  have hnd : p.remCols.Nodup := by
    show ((commPatterns cp (Ds.map remColList)).getD r default).remCols.Nodup
    rw [p1]; exact sortUnique_nodup _
  refine ⟨⟨?_, hmem⟩, ⟨?_, ?_⟩, ?_, hbuf, hnd, by rw [hbuf, List.length_map], ?_⟩
  · show ((commPatterns cp (Ds.map remColList)).getD r default).remCols.Pairwise (· < ·)
    rw [p1]; exact sortUnique_sorted _
  · show ((commPatterns cp (Ds.map remColList)).getD r default).recv.flatMap (·.2) = _
    rw [recv_tiles cp _ hok r hrc]; exact p1.symm
  · obtain ⟨s1, s2⟩ := recv_segments cp _ hok r hrc
    exact ⟨s1, fun ds hds => (s2 ds hds).2⟩
  · intro d hd
    exact send_matches_recv cp _ hok r d hrc (by rw [← hlen]; exact hd)
  · intro c hc
    have hc' : c ∈ p.remCols := (hmem c).2 hc
    have hidx : p.idx.map (fun e => (e.1, e.2.2)) = p.remCols.zipIdx := by
      show ((commPatterns cp (Ds.map remColList)).getD r default).idx.map _ = _
      rw [p4]
      show _ = ((commPatterns cp (Ds.map remColList)).getD r default).remCols.zipIdx
      rw [p1]
    rw [hbuf, List.getElem?_map, localIndex_spec p p.remCols hnd hidx c hc']
    rfl

end pattern

/-! ## matrix-vector product, residual, inner product -/
section algebra
variable {K : Type} [CommRing K] [DecidableEq K]

/-- **`dist_spmv_eq_serial`**: gathering the per-rank results of `distributed_matrix::mul` (local product
overlapped with the ghost exchange, then the remote product on the receive buffer, skipped when the rank needs no
ghosts) gives the serial `spmv` of the assembled matrix — for every partition, empty ranks included. -/
theorem dist_spmv_eq_serial (α β : K) (A : CRS K) (rp cp : List Nat) (hA : A.WF) (hlen : rp.length = cp.length)
    (hrows : rp.sum = A.nrows) (hcols : cp.sum = A.ncols) (x y : Vec K) (hx : x.size = A.ncols) (hy : y.size = A.nrows) :
    concatVec (distSpmv α (split A rp cp) cp (splitVec x cp) β (splitVec y rp)) = spmv α A x β y := by
  have hP : PartOK A rp cp := ⟨hA, hlen, hrows, hcols⟩
  have e : distSpmv α (split A rp cp) cp (splitVec x cp) β (splitVec y rp)
      = (List.range rp.length).map (vecPart (spmv α A x β y) rp) := by
    unfold distSpmv
    simp only
    rw [split_length]
    apply List.map_congr_left
    intro r hr
    have hr' := List.mem_range.1 hr
    rw [split_getD A rp cp r hr', splitVec_getD x cp r (by rw [← hlen]; exact hr'), splitVec_getD y rp r hr']
    exact mulRank_eq α β A rp cp hP x y hx hy r hr'
  rw [e, concat_vecParts _ rp (by rw [size_spmv, hrows])]

/-- **`dist_residual_eq_serial`** -/
theorem dist_residual_eq_serial (A : CRS K) (rp cp : List Nat) (hA : A.WF) (hlen : rp.length = cp.length)
    (hrows : rp.sum = A.nrows) (hcols : cp.sum = A.ncols) (f x : Vec K) (hx : x.size = A.ncols) (hf : f.size = A.nrows) :
    concatVec (distResidual (splitVec f rp) (split A rp cp) cp (splitVec x cp)) = residual f A x := by
  have hP : PartOK A rp cp := ⟨hA, hlen, hrows, hcols⟩
  have e : distResidual (splitVec f rp) (split A rp cp) cp (splitVec x cp)
      = (List.range rp.length).map (vecPart (residual f A x) rp) := by
    unfold distResidual
    simp only
    rw [split_length]
    apply List.map_congr_left
    intro r hr
    have hr' := List.mem_range.1 hr
    rw [split_getD A rp cp r hr', splitVec_getD x cp r (by rw [← hlen]; exact hr'), splitVec_getD f rp r hr']
    exact residualRank_eq A rp cp hP f x hx hf r hr'
  rw [e, concat_vecParts _ rp (by simp [residual, hrows])]

omit [DecidableEq K] in
/-- **`dist_ip_eq_serial`**: the `MPI_Allreduce(SUM)` of the rank-local (Kahan) inner products is the serial inner
product; the same value is returned on every rank (it is the result of the one collective). -/
theorem dist_ip_eq_serial (conj : K → K) (part : List Nat) (x y : Vec K) (hx : x.size = part.sum) (hy : y.size = part.sum) :
    distInnerProduct conj (splitVec x part) (splitVec y part) = innerProductSerial conj x y :=
  dist_ip_eq conj part x y hx hy

end algebra

/-! ## scaling -/
section scale
variable {K : Type} [Add K] [Mul K] [Zero K]

/-- **`dist_scale_eq`**: `mpi::scale` of the distributed matrix is, block by block, the distribution of the serially
scaled matrix (no ring axioms needed: holds for every carrier). -/
theorem dist_scale_eq (A : CRS K) (rp cp : List Nat) (s : K) :
    distScale (split A rp cp) s = split (scale A s) rp cp :=
  dist_scale_split A rp cp s

end scale

/-! ## transpose -/
section transpose
variable {K : Type} [AddCommMonoid K]

/-- **`dist_transpose_eq`**: `mpi::transpose` (local part transposed in place; the renumbered remote part transposed,
shifted to global row numbers, shipped row block by row block to the owners of the columns and bucketed there by
local column) gathered with rows by `cp` and columns by `rp` denotes the (adjoint) transpose of the assembled
matrix — every partition pair, empty ranks included, rectangular matrices, duplicate entries. -/
theorem dist_transpose_eq (adj : K →+ K) (A : CRS K) (rp cp : List Nat) (hA : A.WF) (hlen : rp.length = cp.length)
    (hrows : rp.sum = A.nrows) (hcols : cp.sum = A.ncols) (i j : Nat) (hi : i < A.nrows) (hj : j < A.ncols) :
    (assemble (distTranspose adj (split A rp cp) rp cp) rp).get j i = adj (A.get i j) :=
  dist_transpose_get adj A rp cp ⟨hA, hlen, hrows, hcols⟩ i j (by rw [hrows]; exact hi) (by rw [hcols]; exact hj)

end transpose

/-! ## remote rows and matrix-matrix product -/
section product
variable {K : Type}

/-- **remote-row exchange**: `remote_rows(A.cpat(), B)` on rank `r` returns, slot by slot of `A`'s receive buffer, the
global rows of `B` named by the rank's sorted remote columns of `A` (each as the owner stores it: local part shifted
to global numbering, then the remote part). -/
theorem remote_rows_eq (A B : CRS K) (rp mp cp : List Nat) (hA : A.WF) (hB : B.WF) (h1 : rp.length = mp.length)
    (h2 : mp.length = cp.length) (hAr : rp.sum = A.nrows) (hAc : mp.sum = A.ncols) (hBr : mp.sum = B.nrows)
    (hBc : cp.sum = B.ncols) (r : Nat) (hr : r < rp.length) :
    remoteRows (patternsOf (split A rp mp) mp) (split B mp cp) cp r
      = ((patternsOf (split A rp mp) mp).getD r default).remCols.map
          (fun c => splitRowOf cp (ownerOf mp c) (B.row c)) := by
  have hPA : PartOK A rp mp := ⟨hA, h1, hAr, hAc⟩
  have hok := remsOK_split A rp mp hPA
  obtain ⟨p1, _⟩ := pattern_getD mp _ hok r (by rw [← h1]; exact hr)
  unfold patternsOf
  rw [p1]
  exact remoteRows_eq A B rp mp cp hPA ⟨hB, h2, hBr, hBc⟩ r hr

/-- **`dist_product_eq`**: `mpi::product(A, B)` (rows of `B` fetched with `remote_rows` through `A`'s pattern, the
row product accumulated separately into the local and the remote part) gathered with rows by `rp` and columns by
`cp` denotes the product of the assembled matrices, over any (not necessarily commutative) semiring.  The marker
arrays of the C++ kernel are modelled by their row-local effect (first-occurrence order, later contributions
added), cf. `Model/Dist.lean: accumRow`. -/
theorem dist_product_eq [Semiring K] (A B : CRS K) (rp mp cp : List Nat) (hA : A.WF) (hB : B.WF)
    (h1 : rp.length = mp.length) (h2 : mp.length = cp.length) (hAr : rp.sum = A.nrows) (hAc : mp.sum = A.ncols)
    (hBr : mp.sum = B.nrows) (hBc : cp.sum = B.ncols) (i j : Nat) (hi : i < A.nrows) :
    (assemble (distProduct (split A rp mp) (split B mp cp) mp cp) cp).get i j
      = ∑ k ∈ Finset.range A.ncols, A.get i k * B.get k j :=
  dist_product_get A B rp mp cp ⟨hA, h1, hAr, hAc⟩ ⟨hB, h2, hBr, hBc⟩ i j (by rw [hAr]; exact hi)

end product

/-! ## row sorting -/
section sort
variable {K : Type} [AddCommMonoid K]

/-- **`dist_sort_rows_eq`**: `mpi::sort_rows` of the distributed matrix is, block by block and entry by entry (stored
order included), the distribution of the serially sorted matrix: the stable insertion sort commutes with the
local/remote filtering and with the shift to local column numbers (holds for every carrier). -/
theorem dist_sort_rows_eq {K : Type} (A : CRS K) (rp cp : List Nat) :
    distSortRows (split A rp cp) = split (sortRows A) rp cp :=
  dist_sort_split A rp cp

/-- for ANY well-formed distributed matrix (not only a freshly split one): afterwards every row of the local and of
the remote part is sorted by column and the gathered matrix denotes the same matrix as before. -/
theorem dist_sort_rows_sorted (Ds : List (DistMat K)) (rp cp : List Nat) (h : DistWF Ds rp cp) :
    (∀ r i, r < rp.length →
      (((distSortRows Ds).getD r default).loc.row i).Pairwise (fun a b => a.1 ≤ b.1) ∧
      (((distSortRows Ds).getD r default).rem.row i).Pairwise (fun a b => a.1 ≤ b.1)) ∧
    ∀ i j, i < rp.sum → (assemble (distSortRows Ds) cp).get i j = (assemble Ds cp).get i j :=
  ⟨fun r i hr => distSortRows_sorted Ds r i (by rw [h.len]; exact hr),
   fun i j hi => distSortRows_get Ds rp cp h.len h.locRows i j hi⟩

end sort

/-! ## Gershgorin estimate -/
section gershgorin
variable {K : Type} [Field K] [LinearOrder K] [IsStrictOrderedRing K]

/-- **`gershgorin_rank_max_eq`**: the maximum over the ranks (`MPI_Allreduce(MAX)`, /repo 21a55b8) of the
rank-local maxima is the serial Gershgorin estimate of the assembled matrix, so every rank returns the serial
value.  Rows and columns are partitioned alike (the matrix is square and the diagonal is local).  For the scaled
estimate every row must store a diagonal entry, as in the serial theorem `C08b.gershgorin_scaled_is_max_rowsum`
(otherwise both codes re-use the `dia` of the previous — local resp. global — row). -/
theorem gershgorin_rank_max_eq (scaled : Bool) (A : CRS K) (p : List Nat) (hrows : p.sum = A.nrows)
    (hdiag : scaled = true → ∀ i, i < A.nrows → i ∈ (A.row i).map (·.1)) :
    distGershgorin scaled (split A p p) = gershgorin scaled A :=
  dist_gershgorin_eq scaled A p hrows hdiag

end gershgorin

/-! ## non-vacuity -/

/-- a 3×3 integer matrix with an unsorted row on 3 ranks, the middle one owning nothing: all hypotheses hold -/
def exA : CRS Int := ⟨3, #[[(0, 2), (2, -1)], [(2, 5), (0, 1), (1, 3)], [(1, -1), (2, 2)]]⟩

example : concatVec (distSpmv 1 (split exA [2, 0, 1] [2, 0, 1]) [2, 0, 1] (splitVec #[1, 2, 3] [2, 0, 1]) 0
    (splitVec #[0, 0, 0] [2, 0, 1])) = spmv 1 exA #[1, 2, 3] 0 #[0, 0, 0] :=
  dist_spmv_eq_serial 1 0 exA [2, 0, 1] [2, 0, 1] (by decide) rfl (by decide) (by decide) _ _ (by decide) (by decide)

example : concatVec (distResidual (splitVec #[7, 8, 9] [2, 0, 1]) (split exA [2, 0, 1] [1, 1, 1]) [1, 1, 1]
    (splitVec #[1, 2, 3] [1, 1, 1])) = residual #[7, 8, 9] exA #[1, 2, 3] :=
  dist_residual_eq_serial exA [2, 0, 1] [1, 1, 1] (by decide) rfl (by decide) (by decide) _ _ (by decide) (by decide)

example : DistWF (split exA [0, 3] [3, 0]) [0, 3] [3, 0] := split_wf exA _ _ (by decide) rfl (by decide) (by decide)

example (i j : Nat) (hi : i < 3) (hj : j < 3) :
    (assemble (distTranspose (AddMonoidHom.id Int) (split exA [2, 0, 1] [1, 1, 1]) [2, 0, 1] [1, 1, 1]) [2, 0, 1]).get j i
      = exA.get i j :=
  dist_transpose_eq (AddMonoidHom.id Int) exA [2, 0, 1] [1, 1, 1] (by decide) rfl (by decide) (by decide) i j hi hj

example (i j : Nat) (hi : i < 3) :
    (assemble (distProduct (split exA [2, 0, 1] [1, 1, 1]) (split exA [1, 1, 1] [0, 3, 0]) [1, 1, 1] [0, 3, 0]) [0, 3, 0]).get i j
      = ∑ k ∈ Finset.range 3, exA.get i k * exA.get k j :=
  dist_product_eq exA exA [2, 0, 1] [1, 1, 1] [0, 3, 0] (by decide) (by decide) rfl rfl (by decide) (by decide)
    (by decide) (by decide) i j hi

/-- diag(1, 5) on three ranks (the last one empty): the reproducer of the missing `MPI_MAX` reduction -/
example : distGershgorin false (split (⟨2, #[[(0, (1 : Rat))], [(1, 5)]]⟩ : CRS Rat) [1, 1, 0] [1, 1, 0])
    = gershgorin false ⟨2, #[[(0, 1)], [(1, 5)]]⟩ :=
  gershgorin_rank_max_eq false _ [1, 1, 0] (by decide) (by intro h; cases h)

end Amgcl.C11
