import Amgcl.Model.Dist
namespace Amgcl.C11
open Amgcl Amgcl.Dist

theorem dom_nil (d : Nat) : dom [] d = if d = 0 then 0 else 0 := by
  unfold dom scanWidths; cases d <;> simp

end Amgcl.C11
