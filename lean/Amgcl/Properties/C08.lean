import Amgcl.Proofs.KernelsSaad3
import Amgcl.Proofs.KernelsTranspose
/-!
# C08 — sparse matrix kernels equal their dense definitions (part 1: transpose, marker-based SpGEMM, scale)

Property theorems only; helper lemmas are in `Amgcl/Proofs/Kernels*.lean`, `RowGet.lean`.  Part 2
(`Properties/C08b.lean`): row sort, sum, row-merge SpGEMM, diagonal, Gershgorin bound.

All statements are about the denotation `CRS.get` (duplicate entries add) and hold over an arbitrary — not
necessarily commutative — semiring, i.e. also for block-valued matrices, for **all** shapes (rectangular, empty
rows/columns), unsorted input rows and input rows with duplicate columns, and for any initial contents of nothing:
the marker arrays are part of the model and start at `-1` exactly as in the code; the invariant that makes the
`marker[c] < row_beg` test correct across rows is proved, not assumed.
-/
namespace Amgcl.C08
open Amgcl Finset

variable {K : Type} [Semiring K]

/-- **SpGEMM (Saad/marker algorithm)**: entry `(i,j)` of the result is `Σ_k a_ik · b_kj`. -/
theorem saad_get (A B : CRS K) (hA : A.WF) (hB : B.WF) (sort : Bool) (i j : Nat) (hi : i < A.nrows) :
    (spgemmSaad A B sort).get i j = ∑ k ∈ range A.ncols, A.get i k * B.get k j := by
  have h := (spgemmSaad_row A B hB sort i hi).2
  unfold CRS.get
  rw [h.get j, rowGet_saadTerms A B hA i j]
  rfl

/-- the result has the shape `A.nrows × B.ncols` and only in-range columns -/
theorem saad_wf (A B : CRS K) (hB : B.WF) (sort : Bool) :
    (spgemmSaad A B sort).nrows = A.nrows ∧ (spgemmSaad A B sort).ncols = B.ncols ∧ (spgemmSaad A B sort).WF := by
  have hn : (spgemmSaad A B sort).nrows = A.nrows := by
    have := (saadRows_spec A B hB sort A.nrows (Nat.le_refl _)).1
    rw [spgemmSaad_eq]; exact this
  refine ⟨hn, rfl, ?_⟩
  intro r hr cv hcv
  obtain ⟨i, hi, rfl⟩ := List.getElem_of_mem hr
  have hi' : i < A.nrows := by rw [← hn]; simpa [CRS.nrows] using hi
  have hrow : (spgemmSaad A B sort).row i = (spgemmSaad A B sort).rows.toList[i] := by
    unfold CRS.row; simp [Array.getD, show i < (spgemmSaad A B sort).rows.size by simpa using hi]
  have h := (spgemmSaad_row A B hB sort i hi').2
  have hm := h.mem cv (by rw [hrow]; exact hcv)
  obtain ⟨t, ht, hte⟩ := List.mem_map.mp hm
  show cv.1 < B.ncols
  rw [← hte]; exact saadTerms_cols_lt A B hB i t ht

/-- no column occurs twice in a result row — for ALL inputs (sorted or not, with or without duplicates) -/
theorem saad_nodup (A B : CRS K) (hB : B.WF) (sort : Bool) (i : Nat) (hi : i < A.nrows) :
    (((spgemmSaad A B sort).row i).map (·.1)).Nodup :=
  (spgemmSaad_row A B hB sort i hi).2.nodup

/-- the row widths computed by the first pass (which size the allocation, `ptr`) are exactly the lengths of the
rows produced by the second pass: the second pass neither overruns nor under-fills its row segment -/
theorem saad_widths_consistent (A B : CRS K) (hB : B.WF) (sort : Bool) (i : Nat) (hi : i < A.nrows) :
    (saadWidths A B).getD i 0 = ((spgemmSaad A B sort).row i).length := by
  rw [saadWidths_eq A B hB, (spgemmSaad_row A B hB sort i hi).2.len]
  simp [List.getD_eq_getElem?_getD, hi]

/-- **transpose**: entry `(c,i)` of the result is the adjoint of entry `(i,c)`, for every additive `adj`
(identity for real scalars, conjugation for complex, conjugate transpose for blocks). -/
theorem transpose_get (adj : K →+ K) (A : CRS K) (c i : Nat) (hc : c < A.ncols) (hi : i < A.nrows) :
    (transpose adj A).get c i = adj (A.get i c) := by
  unfold CRS.get
  rw [transpose_row adj A c hc, rowGet_flatMap]
  have : ((List.range A.nrows).map (fun a => rowGet (trContrib adj A c a) i))
      = (List.range A.nrows).map (fun a => if a = i then adj (A.get a c) else 0) := by
    apply List.map_congr_left; intro a _; exact rowGet_trContrib adj A c a i
  rw [this, sum_range_ite _ _ _ hi]; rfl

omit [Semiring K] in
theorem transpose_shape (adj : K → K) (A : CRS K) :
    (transpose adj A).nrows = A.ncols ∧ (transpose adj A).ncols = A.nrows :=
  ⟨transpose_nrows adj A, rfl⟩

/-- **scale** multiplies every denoted entry from the right (`A.val[j] *= s`) -/
theorem scale_get (A : CRS K) (s : K) (i j : Nat) : (scale A s).get i j = A.get i j * s := by
  unfold CRS.get scale CRS.row
  simp only [Array.getD_eq_getD_getElem?, Array.getElem?_map]
  cases h : A.rows[i]? with
  | none => simp
  | some r => simp only [Option.map_some, Option.getD_some]; exact rowGet_map_mul_right s r j

/-- the algorithm switch of `backend::product` is a function of the thread count alone -/
theorem product_dispatch (nt : Nat) (A B : CRS K) (sort : Bool) :
    product nt A B sort = if nt > 16 then spgemmRmerge A B else spgemmSaad A B sort := rfl

-- non-vacuity: a rectangular product with an empty row, unsorted rows and an accumulated duplicate
example : (⟨3, #[[(2, (1 : Int)), (0, 2)], []]⟩ : CRS Int).WF ∧ (⟨2, #[[(1, (5 : Int))], [], [(1, 7), (0, 1), (1, 1)]]⟩ : CRS Int).WF := by
  decide
example : (spgemmSaad (⟨3, #[[(2, (1 : Int)), (0, 2)], []]⟩ : CRS Int) ⟨2, #[[(1, 5)], [], [(1, 7), (0, 1), (1, 1)]]⟩ true).rows
    = #[[(0, 1), (1, 18)], []] := by decide

end Amgcl.C08
