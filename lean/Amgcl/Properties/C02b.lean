import Amgcl.Proofs.EnergyBuild
import Amgcl.Proofs.EnergyExample
import Amgcl.Proofs.EnergyBridgeExample
/-!
# C02 (mathematical clauses) — the cycle operator `B` is symmetric positive definite, the stationary iteration
contracts, and `B(cA) = c⁻¹ B(A)`

Property text: "… For symmetric positive definite, irreducibly diagonally dominant M-matrices and the symmetric
smoothers (damped Jacobi, SPAI-0, Gauss-Seidel, ILU(0)/ILU(k)/ILUP, Chebyshev) B is itself symmetric positive definite
and the stationary iteration contracts: the spectral radius of I − B A is strictly below one for V- and W-cycles, any
number of levels and smoothing steps >= 1.  Multiplying the matrix by a power of two multiplies B by the inverse factor
exactly."

Everything here is about Mathlib matrices over an arbitrary linearly ordered field `𝕜` (so it holds at `ℚ`, the
executed instance, and at `ℝ`), by quadratic forms only.  Notation (`Amgcl/Proofs/Energy*.lean`):

* `en A u v = uᵀ A v`; `IsSPD A := Aᵀ = A ∧ ∀ v ≠ 0, 0 < en A v v`;
  `NonExp A E := ∀ e, ‖E e‖²_A ≤ ‖e‖²_A`; `Contr A E := ∀ e ≠ 0, ‖E e‖²_A < ‖e‖²_A`;
* `step A B f x = x + B (f − A x)`; `seqB A B₁ B₂`, `powB A B k` — preconditioner of a composition of such steps;
  `cgcB P Bc = P Bc Pᵀ`;
* `Hier 𝕜 n` — abstract hierarchy (`direct A | relax A N₁ N₂ | level A N₁ N₂ P R next`), `Hier.B p h` — the matrix
  of `amg::cycle` from a zero initial guess, by the recursion of amg.hpp:515-553 (`ncycle` repetitions of the whole
  body on every inner level, `npre`/`npost` sweeps, coarsest level = direct solve or `npre`+`npost` sweeps);
  `Hier.applyB p k h` — `amg::apply` with `pre_cycles = k`;
  `Hier.OK` — all level matrices SPD, `R = Pᵀ`, `P` injective, Galerkin coarse operators `Pᵀ A P`, every sweep strictly
  `A_l`-contracting; `Hier.Sym` — post-sweep matrix = transpose of the pre-sweep matrix on every level;
* `Hier.build pre post A T` — hierarchy built from the fine matrix, the transfer operators `T` and a smoother family.

**What is proved at full strength** (all sizes, any number of levels, `ncycle ≥ 1` i.e. V- and W-cycles and beyond,
`npre + npost ≥ 1`, `pre_cycles ≥ 1`): error propagation formulas; the coarse-grid correction is an `A`-norm
nonexpansive map (exact or inexact, even nonsymmetric coarse solver); two-grid and multilevel strict contraction in the
energy norm; `B` positive definite; `B` symmetric for the symmetric cycle (`npre = npost`); `1 − BA` `A`-self-adjoint
with `0 ≤ ⟪(1−BA)e, e⟫_A < ⟪e,e⟫_A`; every (complex) eigenvalue of `1 − BA` has modulus `< 1`; smoother hypotheses for
Gauss–Seidel (unconditionally for SPD `A`), damped Jacobi `0 < ω < 1` and SPAI-0 (SPD + weakly diagonally dominant level
matrices); `B(cA) = c⁻¹ B(A)` for every `c ≠ 0`.

**What is `_partial` / open** — see `amg_spd_contracting_partial` at the end: the smoothing inequality
`Contr A (1 − N A)` is *not* proved for ILU(0)/ILU(k)/ILUP and Chebyshev (for those the abstract theorems apply once it
is supplied), weak diagonal dominance of the *coarse* level matrices is a hypothesis (not derived from the fine matrix
being an M-matrix), rescaled Galerkin operators (`scaled_galerkin`) are not covered.

**Bridge to the executable model** (§8): `model_cycle_is_matrix_recursion`, `model_cycle_error_contracts`,
`model_apply_spd` transfer the matrix statements to `Amg.cycle` / `Amg.apply` on arrays for every model hierarchy that
`Bridge.Realizes` an abstract one; the per-smoother fact `Bridge.SweepIs` (sweep = `x + N (f − A x)` with the `N` used
here), exactness of the direct solver and the `matOf`-denotation of the Galerkin product / transposed restriction are
the inputs still to be supplied by C06 / C16 / C03 / C08.
-/
set_option linter.unusedSectionVars false
namespace Amgcl.C02b
open Matrix Amgcl.Energy

universe u
variable {𝕜 : Type u} [Field 𝕜] [LinearOrder 𝕜] [IsStrictOrderedRing 𝕜]
variable {ι κ : Type*} [Fintype ι] [Fintype κ] [DecidableEq ι] [DecidableEq κ]

/-! ## 1. Error propagation -/

omit [LinearOrder 𝕜] [IsStrictOrderedRing 𝕜] in
/-- for the iteration `x ↦ x + B (f − A x)` and the exact solution `A x* = f` the error propagates by `1 − B A` -/
theorem error_propagation (A B : Matrix ι ι 𝕜) (f x xs : ι → 𝕜) (hs : A *ᵥ xs = f) :
    xs - step A B f x = (1 - B * A) *ᵥ (xs - x) :=
  step_error A B f x xs hs

example : (![2/3, 1/3] : Fin 2 → ℚ) - step Example.A2 (jacobiN (18/25) Example.A2) ![1, 0] ![0, 0] =
    (1 - jacobiN (18/25) Example.A2 * Example.A2) *ᵥ (![2/3, 1/3] - ![0, 0]) :=
  error_propagation _ _ _ _ _ (by
    ext i; fin_cases i <;> simp [Example.A2, mulVec, dotProduct, Fin.sum_univ_succ] <;> norm_num)

omit [LinearOrder 𝕜] [IsStrictOrderedRing 𝕜] in
/-- **two-grid error formula**: pre-smoothing with `B₁`, coarse-grid correction `x += P B_c Pᵀ (f − A x)`,
post-smoothing with `B₂` is one step with the preconditioner `seqB A (seqB A B₁ (P B_c Pᵀ)) B₂`, and its error
propagation operator is `E = S_post · C · S_pre` with `C = 1 − P B_c Pᵀ A` -/
theorem twogrid_error_formula (A B₁ B₂ : Matrix ι ι 𝕜) (P : Matrix ι κ 𝕜) (Bc : Matrix κ κ 𝕜) (f x : ι → 𝕜) :
    step A B₂ f (step A (cgcB P Bc) f (step A B₁ f x)) = step A (seqB A (seqB A B₁ (cgcB P Bc)) B₂) f x ∧
    1 - seqB A (seqB A B₁ (cgcB P Bc)) B₂ * A = (1 - B₂ * A) * (1 - P * Bc * Pᵀ * A) * (1 - B₁ * A) := by
  refine ⟨by rw [step_step, step_step, seqB_assoc], ?_⟩
  rw [one_sub_seqB_mul, one_sub_seqB_mul, cgcB]
  simp only [Matrix.mul_assoc]

example (f x : Fin 2 → ℚ) :
    step Example.A2 (gsNback Example.A2) f (step Example.A2 (cgcB Example.P2 (!![1/2] : Matrix (Fin 1) (Fin 1) ℚ)) f
      (step Example.A2 (gsN Example.A2) f x)) =
    step Example.A2 (seqB Example.A2 (seqB Example.A2 (gsN Example.A2) (cgcB Example.P2 (!![1/2] : Matrix (Fin 1) (Fin 1) ℚ)))
      (gsNback Example.A2)) f x :=
  (twogrid_error_formula _ _ _ _ _ f x).1

omit [LinearOrder 𝕜] [IsStrictOrderedRing 𝕜] in
/-- **multilevel error formula**: on an inner level the cycle's error operator is
`E_l = (S₂^npost · (1 − P B_{l+1} R A_l) · S₁^npre)^ncycle`; `k` steps from `x = 0` give `powB A B k · f` -/
theorem cycle_error_formula (p : CycPrm) {n m : ℕ} (A N₁ N₂ : Matrix (Fin n) (Fin n) 𝕜) (P : Matrix (Fin n) (Fin m) 𝕜)
    (R : Matrix (Fin m) (Fin n) 𝕜) (next : Hier 𝕜 m) :
    1 - (Hier.level A N₁ N₂ P R next).B p * A =
      ((1 - N₂ * A) ^ p.npost * (1 - P * next.B p * R * A) * (1 - N₁ * A) ^ p.npre) ^ p.ncycle := by
  simp only [Hier.B]; rw [one_sub_powB_mul, Hier.one_sub_bodyB_mul]

example : 1 - Example.hGS.B ⟨1, 1, 2⟩ * Example.A4 =
    ((1 - gsNback Example.A4 * Example.A4) ^ 1 *
      (1 - Example.P4 * (Hier.level Example.A2 (gsN Example.A2) (gsNback Example.A2) Example.P2 Example.P2ᵀ
        (.direct Example.A1)).B ⟨1, 1, 2⟩ * Example.P4ᵀ * Example.A4) * (1 - gsN Example.A4 * Example.A4) ^ 1) ^ 2 :=
  cycle_error_formula ⟨1, 1, 2⟩ _ _ _ _ _ _

/-! ## 2. The coarse-grid correction is nonexpansive in the energy norm -/

/-- exact coarse solve (`B_c A_c = 1`, `A_c = Pᵀ A P`): `C = 1 − P A_c⁻¹ Pᵀ A` is the `A`-orthogonal projector onto
the `A`-complement of `range P`, `‖C e‖²_A ≤ ‖e‖²_A` -/
theorem coarse_correction_nonexpansive {A : Matrix ι ι 𝕜} {P : Matrix ι κ 𝕜} {Ac Bc : Matrix κ κ 𝕜}
    (hA : IsSPD A) (hP : ∀ w, P *ᵥ w = 0 → w = 0) (hAc : Ac = Pᵀ * A * P) (hB : Bc * Ac = 1) (e : ι → 𝕜) :
    en A ((1 - P * Bc * Pᵀ * A) *ᵥ e) ((1 - P * Bc * Pᵀ * A) *ᵥ e) ≤ en A e e :=
  cgc_exact_nonExp hA.1 hAc (hAc ▸ hA.galerkin P hP) hB e

example (e : Fin 2 → ℚ) :
    en Example.A2 ((1 - Example.P2 * (!![1/2] : Matrix (Fin 1) (Fin 1) ℚ) * Example.P2ᵀ * Example.A2) *ᵥ e)
      ((1 - Example.P2 * (!![1/2] : Matrix (Fin 1) (Fin 1) ℚ) * Example.P2ᵀ * Example.A2) *ᵥ e) ≤ en Example.A2 e e :=
  coarse_correction_nonexpansive Example.spd_A2 Example.inj_P2 Example.galerkin21
    (by ext i j; fin_cases i; fin_cases j; simp [Example.A1, Matrix.mul_apply]) e

/-- inexact coarse solver `B_c` (**not necessarily symmetric**) whose own error operator `1 − B_c A_c` is nonexpansive
in the `A_c`-norm: the correction is still `A`-norm nonexpansive -/
theorem coarse_correction_nonexpansive_inexact {A : Matrix ι ι 𝕜} {P : Matrix ι κ 𝕜} {Ac Bc : Matrix κ κ 𝕜}
    (hA : IsSPD A) (hP : ∀ w, P *ᵥ w = 0 → w = 0) (hAc : Ac = Pᵀ * A * P) (hc : NonExp Ac (1 - Bc * Ac)) :
    NonExp A (1 - P * Bc * Pᵀ * A) :=
  cgc_nonExp hA.1 hAc (hAc ▸ hA.galerkin P hP).exists_solve hc

example : NonExp Example.A2 (1 - Example.P2 * jacobiN (18/25) Example.A1 * Example.P2ᵀ * Example.A2) :=
  coarse_correction_nonexpansive_inexact Example.spd_A2 Example.inj_P2 Example.galerkin21
    (jacobi_contr (by norm_num) (by norm_num) Example.spd_A1 Example.wdd_A1).nonExp

/-! ## 3. Two-grid contraction -/

/-- strictly contracting pre-smoother, nonexpansive coarse solver and post-smoother ⟹ `‖E e‖²_A < ‖e‖²_A`, `e ≠ 0` -/
theorem twogrid_contraction {A B₁ B₂ : Matrix ι ι 𝕜} {P : Matrix ι κ 𝕜} {Ac Bc : Matrix κ κ 𝕜}
    (hA : IsSPD A) (hP : ∀ w, P *ᵥ w = 0 → w = 0) (hAc : Ac = Pᵀ * A * P) (hc : NonExp Ac (1 - Bc * Ac))
    (hpre : Contr A (1 - B₁ * A)) (hpost : NonExp A (1 - B₂ * A)) :
    Contr A (1 - seqB A (seqB A B₁ (cgcB P Bc)) B₂ * A) := by
  rw [one_sub_seqB_mul, one_sub_seqB_mul, ← Matrix.mul_assoc]
  exact (hpost.mul (cgc_nonExp hA.1 hAc (hAc ▸ hA.galerkin P hP).exists_solve hc)).mul_contr hpre

/-- the same with the strict contraction in the post-smoother only -/
theorem twogrid_contraction_post {A B₁ B₂ : Matrix ι ι 𝕜} {P : Matrix ι κ 𝕜} {Ac Bc : Matrix κ κ 𝕜}
    (hA : IsSPD A) (hP : ∀ w, P *ᵥ w = 0 → w = 0) (hAc : Ac = Pᵀ * A * P) (hc : NonExp Ac (1 - Bc * Ac))
    (hpre : NonExp A (1 - B₁ * A)) (hpost : Contr A (1 - B₂ * A)) :
    Contr A (1 - seqB A (seqB A B₁ (cgcB P Bc)) B₂ * A) := by
  rw [one_sub_seqB_mul, one_sub_seqB_mul]
  exact hpost.mul_nonExp hA ((cgc_nonExp hA.1 hAc (hAc ▸ hA.galerkin P hP).exists_solve hc).mul hpre)

example : Contr Example.A4 (1 - seqB Example.A4 (seqB Example.A4 (gsN Example.A4)
    (cgcB Example.P4 (jacobiN (18/25) Example.A2))) (gsNback Example.A4) * Example.A4) :=
  twogrid_contraction Example.spd_A4 Example.inj_P4 Example.galerkin42
    (jacobi_contr (by norm_num) (by norm_num) Example.spd_A2 Example.wdd_A2).nonExp
    (gs_contr Example.spd_A4) (gsBack_contr Example.spd_A4).nonExp

/-! ## 4. Multilevel contraction, `B` symmetric positive definite -/

/-- **V-cycle, W-cycle (any `ncycle ≥ 1`), any number of levels, any `npre + npost ≥ 1`**: the error operator
`1 − B A` of the cycle is strictly contracting in the energy norm -/
theorem vcycle_contraction (p : CycPrm) (hs : 0 < p.npre + p.npost) (hc : 0 < p.ncycle) {n : ℕ} (h : Hier 𝕜 n)
    (hok : h.OK) : Contr h.A (1 - h.B p * h.A) :=
  Hier.contr p hs hc h hok

-- V-cycle (1 pre, 1 post), W-cycle with 2+3 sweeps, post-smoothing only — three levels, Gauss–Seidel and Jacobi
example : Contr Example.hGS.A (1 - Example.hGS.B ⟨1, 1, 1⟩ * Example.hGS.A) :=
  vcycle_contraction _ (by decide) (by decide) _ Example.hGS_OK
example : Contr Example.hJac.A (1 - Example.hJac.B ⟨2, 3, 2⟩ * Example.hJac.A) :=
  vcycle_contraction _ (by decide) (by decide) _ Example.hJac_OK
example : Contr Example.hGS.A (1 - Example.hGS.B ⟨0, 1, 1⟩ * Example.hGS.A) :=
  vcycle_contraction _ (by decide) (by decide) _ Example.hGS_OK

/-- in terms of iterates: one cycle `x ↦ x + B (f − A x)` strictly reduces the energy norm of the error -/
theorem cycle_error_decreases (p : CycPrm) (hs : 0 < p.npre + p.npost) (hc : 0 < p.ncycle) {n : ℕ} (h : Hier 𝕜 n)
    (hok : h.OK) (f x xs : Fin n → 𝕜) (hsol : h.A *ᵥ xs = f) (hx : x ≠ xs) :
    en h.A (xs - step h.A (h.B p) f x) (xs - step h.A (h.B p) f x) < en h.A (xs - x) (xs - x) := by
  rw [step_error _ _ _ _ _ hsol]
  exact Hier.contr p hs hc h hok _ (sub_ne_zero.mpr (Ne.symm hx))

example (f x xs : Fin 4 → ℚ) (hsol : Example.hGS.A *ᵥ xs = f) (hx : x ≠ xs) :
    en Example.hGS.A (xs - step Example.hGS.A (Example.hGS.B ⟨1, 1, 2⟩) f x)
      (xs - step Example.hGS.A (Example.hGS.B ⟨1, 1, 2⟩) f x) < en Example.hGS.A (xs - x) (xs - x) :=
  cycle_error_decreases _ (by decide) (by decide) _ Example.hGS_OK f x xs hsol hx

/-- **`B` is symmetric** for the symmetric cycle (post-sweep = transposed pre-sweep, `npre = npost`) -/
theorem B_symmetric (p : CycPrm) (hnu : p.npre = p.npost) {n : ℕ} (h : Hier 𝕜 n) (hok : h.OK) (hsym : h.Sym) :
    (h.B p)ᵀ = h.B p :=
  Hier.B_transpose p hnu h hok hsym

example : (Example.hGS.B ⟨2, 2, 2⟩)ᵀ = Example.hGS.B ⟨2, 2, 2⟩ :=
  B_symmetric _ rfl _ Example.hGS_OK Example.hGS_Sym

/-- **`B` is positive definite** (`xᵀ B x > 0`) — for every cycle covered by `vcycle_contraction`, symmetric or not -/
theorem B_posDef (p : CycPrm) (hs : 0 < p.npre + p.npost) (hc : 0 < p.ncycle) {n : ℕ} (h : Hier 𝕜 n) (hok : h.OK)
    (x : Fin n → 𝕜) (hx : x ≠ 0) : 0 < x ⬝ᵥ h.B p *ᵥ x :=
  posDef_of_contr hok.spd (Hier.contr p hs hc h hok) x hx

example (x : Fin 4 → ℚ) (hx : x ≠ 0) : 0 < x ⬝ᵥ Example.hJac.B ⟨1, 2, 1⟩ *ᵥ x :=
  B_posDef _ (by decide) (by decide) _ Example.hJac_OK x hx

/-- **`B` is symmetric positive definite** (symmetric cycle, `npre = npost ≥ 1`, V or W) -/
theorem B_spd (p : CycPrm) (hnu : p.npre = p.npost) (hs : 0 < p.npre) (hc : 0 < p.ncycle) {n : ℕ} (h : Hier 𝕜 n)
    (hok : h.OK) (hsym : h.Sym) : IsSPD (h.B p) :=
  ⟨B_symmetric p hnu h hok hsym, fun x hx => B_posDef p (by omega) hc h hok x hx⟩

example : IsSPD (Example.hGS.B ⟨1, 1, 1⟩) := B_spd _ rfl (by decide) (by decide) _ Example.hGS_OK Example.hGS_Sym
example : IsSPD (Example.hJac.B ⟨3, 3, 2⟩) := B_spd _ rfl (by decide) (by decide) _ Example.hJac_OK Example.hJac_Sym

/-- the preconditioner `amg::apply` with `pre_cycles = k ≥ 1` is symmetric positive definite and contracting too -/
theorem apply_spd (p : CycPrm) (hnu : p.npre = p.npost) (hs : 0 < p.npre) (hc : 0 < p.ncycle) {k : ℕ} (hk : 0 < k)
    {n : ℕ} (h : Hier 𝕜 n) (hok : h.OK) (hsym : h.Sym) :
    IsSPD (h.applyB p k) ∧ Contr h.A (1 - h.applyB p k * h.A) :=
  have hcon := Hier.applyB_contr p (by omega) hc hk h hok
  ⟨⟨Hier.applyB_transpose p hnu k h hok hsym, posDef_of_contr hok.spd hcon⟩, hcon⟩

example : IsSPD (Example.hGS.applyB ⟨1, 1, 1⟩ 2) ∧
    Contr Example.hGS.A (1 - Example.hGS.applyB ⟨1, 1, 1⟩ 2 * Example.hGS.A) :=
  apply_spd _ rfl (by decide) (by decide) (by decide) _ Example.hGS_OK Example.hGS_Sym

/-- symmetric cycle: `E = 1 − B A` is `A`-self-adjoint and `0 ≤ ⟪E e, e⟫_A < ⟪e, e⟫_A` (i.e. `0 ≺ B ≼ A⁻¹`) -/
theorem E_selfadjoint_bounds (p : CycPrm) (hnu : p.npre = p.npost) (hs : 0 < p.npre) (hc : 0 < p.ncycle) {n : ℕ}
    (h : Hier 𝕜 n) (hok : h.OK) (hsym : h.Sym) :
    (∀ u v, en h.A (h.E p *ᵥ u) v = en h.A u (h.E p *ᵥ v)) ∧
    (∀ e, 0 ≤ en h.A (h.E p *ᵥ e) e) ∧ (∀ e, e ≠ 0 → en h.A (h.E p *ᵥ e) e < en h.A e e) :=
  ⟨isAdjoint_of_symm hok.spd.1 (B_symmetric p hnu h hok hsym), Hier.posForm p hnu h hok hsym,
    fun _ he => form_lt_of_contr hok.spd (Hier.contr p (by omega) hc h hok) he⟩

example (e : Fin 4 → ℚ) : 0 ≤ en Example.hGS.A (Example.hGS.E ⟨1, 1, 2⟩ *ᵥ e) e :=
  (E_selfadjoint_bounds _ rfl (by decide) (by decide) _ Example.hGS_OK Example.hGS_Sym).2.1 e

/-- **spectral radius of `1 − B A` below one**, in real terms (valid over any ordered field, no complexification):
if `a + b·i` is an eigenvalue of the matrix `E = 1 − B A` with eigenvector `u + v·i ≠ 0` — i.e. `E u = a u − b v` and
`E v = b u + a v` — then `a² + b² < 1`.  (`b = 0`, `v = 0` is the case of an eigenvalue in `𝕜`: `|a| < 1`.)
Over `ℝ` this is exactly `ρ(1 − B A) < 1`; the reformulation through Mathlib's `spectralRadius` of the complexified
matrix is not carried out. -/
theorem spectral_radius_lt_one (p : CycPrm) (hs : 0 < p.npre + p.npost) (hc : 0 < p.ncycle) {n : ℕ} (h : Hier 𝕜 n)
    (hok : h.OK) {u v : Fin n → 𝕜} (huv : u ≠ 0 ∨ v ≠ 0) {a b : 𝕜}
    (hu : h.E p *ᵥ u = a • u - b • v) (hv : h.E p *ᵥ v = b • u + a • v) : a ^ 2 + b ^ 2 < 1 :=
  (Hier.contr p hs hc h hok).complex_eigenvalue_normSq_lt_one hok.spd huv hu hv

example {u v : Fin 4 → ℚ} (huv : u ≠ 0 ∨ v ≠ 0) {a b : ℚ}
    (hu : Example.hJac.E ⟨1, 2, 2⟩ *ᵥ u = a • u - b • v) (hv : Example.hJac.E ⟨1, 2, 2⟩ *ᵥ v = b • u + a • v) :
    a ^ 2 + b ^ 2 < 1 :=
  spectral_radius_lt_one _ (by decide) (by decide) _ Example.hJac_OK huv hu hv

/-- symmetric cycle: every eigenvalue of `1 − B A` lies in `[0, 1)` -/
theorem eigenvalue_mem_Ico (p : CycPrm) (hnu : p.npre = p.npost) (hs : 0 < p.npre) (hc : 0 < p.ncycle) {n : ℕ}
    (h : Hier 𝕜 n) (hok : h.OK) (hsym : h.Sym) {e : Fin n → 𝕜} (he : e ≠ 0) {lam : 𝕜} (hev : h.E p *ᵥ e = lam • e) :
    0 ≤ lam ∧ lam < 1 := by
  obtain ⟨-, h0, h1⟩ := E_selfadjoint_bounds p hnu hs hc h hok hsym
  have hpos := hok.spd.pos he
  have a0 := h0 e
  have a1 := h1 e he
  rw [hev, en_smul_left] at a0 a1
  constructor
  · by_contra hneg
    have : lam < 0 := not_le.mp hneg
    nlinarith
  · by_contra hge
    have : 1 ≤ lam := not_lt.mp hge
    nlinarith

example {e : Fin 4 → ℚ} (he : e ≠ 0) {lam : ℚ} (hev : Example.hGS.E ⟨1, 1, 1⟩ *ᵥ e = lam • e) : 0 ≤ lam ∧ lam < 1 :=
  eigenvalue_mem_Ico _ rfl (by decide) (by decide) _ Example.hGS_OK Example.hGS_Sym he hev

/-! ## 5. The smoother hypotheses -/

/-- **smoothing identity**: for the sweep `x ↦ x + N (f − A x)` with `N = M⁻¹`,
`‖e‖²_A − ‖(1 − N A) e‖²_A = yᵀ (M + Mᵀ − A) y`, `y = N A e` -/
theorem smoothing_identity {A M N : Matrix ι ι 𝕜} (hA : Aᵀ = A) (hMN : M * N = 1) (e : ι → 𝕜) :
    en A e e - en A ((1 - N * A) *ᵥ e) ((1 - N * A) *ᵥ e) =
      (N *ᵥ (A *ᵥ e)) ⬝ᵥ (M + Mᵀ - A) *ᵥ (N *ᵥ (A *ᵥ e)) :=
  smoother_energy_identity hA hMN e

example (e : Fin 2 → ℚ) :
    en Example.A2 e e - en Example.A2 ((1 - gsN Example.A2 * Example.A2) *ᵥ e)
        ((1 - gsN Example.A2 * Example.A2) *ᵥ e) =
      (gsN Example.A2 *ᵥ (Example.A2 *ᵥ e)) ⬝ᵥ
        (gsM Example.A2 + (gsM Example.A2)ᵀ - Example.A2) *ᵥ (gsN Example.A2 *ᵥ (Example.A2 *ᵥ e)) :=
  smoothing_identity Example.spd_A2.1 (gsM_mul_N fun i => (Example.spd_A2.diag_pos i).ne') e

/-- `M + Mᵀ − A ≻ 0` ⟹ the sweep and its `A`-adjoint `1 − Nᵀ A` (the post-sweep of the symmetric cycle) both contract -/
theorem smoother_contracts_of_split {A M N : Matrix ι ι 𝕜} (hA : IsSPD A) (hMN : M * N = 1)
    (hpos : PosDefForm (M + Mᵀ - A)) :
    Contr A (1 - N * A) ∧ Contr A (1 - Nᵀ * A) ∧
      ∀ u v, en A ((1 - N * A) *ᵥ u) v = en A u ((1 - Nᵀ * A) *ᵥ v) :=
  ⟨contr_of_split hA hMN hpos, contr_of_split_transpose hA hMN hpos, en_smoother_adjoint hA.1 N⟩

example : Contr Example.A4 (1 - gsN Example.A4 * Example.A4) ∧ Contr Example.A4 (1 - (gsN Example.A4)ᵀ * Example.A4) ∧
    ∀ u v, en Example.A4 ((1 - gsN Example.A4 * Example.A4) *ᵥ u) v =
      en Example.A4 u ((1 - (gsN Example.A4)ᵀ * Example.A4) *ᵥ v) :=
  smoother_contracts_of_split Example.spd_A4 (gsM_mul_N fun i => (Example.spd_A4.diag_pos i).ne')
    (gs_split_pos Example.spd_A4)

/-- **damped Jacobi** `x += ω D⁻¹ (f − A x)`: strictly `A`-contracting if `2D/ω − A ≻ 0`, in particular for `A` SPD,
weakly diagonally dominant and `0 < ω < 1`; its matrix is symmetric (pre = post) -/
theorem jacobi_contracts {ω : 𝕜} (h0 : 0 < ω) (h1 : ω < 1) {A : Matrix ι ι 𝕜} (hA : IsSPD A) (hdd : WeakDD A) :
    Contr A (1 - jacobiN ω A * A) ∧ (jacobiN ω A)ᵀ = jacobiN ω A :=
  ⟨jacobi_contr h0 h1 hA hdd, jacobiN_transpose ω A⟩

example : Contr Example.A4 (1 - jacobiN (18/25) Example.A4 * Example.A4) ∧
    (jacobiN (18/25) Example.A4)ᵀ = jacobiN (18/25) Example.A4 :=
  jacobi_contracts (by norm_num) (by norm_num) Example.spd_A4 Example.wdd_A4

/-- **SPAI-0** `x += diag(a_ii / Σ_j a_ij²) (f − A x)`: strictly `A`-contracting for `A` SPD, weakly diagonally
dominant -/
theorem spai0_contracts {A : Matrix ι ι 𝕜} (hA : IsSPD A) (hdd : WeakDD A) :
    Contr A (1 - spai0N A * A) ∧ (spai0N A)ᵀ = spai0N A :=
  ⟨spai0_contr hA hdd, spai0N_transpose A⟩

example : Contr Example.A4 (1 - spai0N Example.A4 * Example.A4) ∧ (spai0N Example.A4)ᵀ = spai0N Example.A4 :=
  spai0_contracts Example.spd_A4 Example.wdd_A4

/-- **Gauss–Seidel**: for every SPD `A` the forward sweep (`M = D + L`, `M + Mᵀ − A = D ≻ 0`) and the backward sweep
are strictly `A`-contracting, and the backward sweep matrix is the transpose of the forward one (so that
forward-pre / backward-post is a symmetric cycle) -/
theorem gauss_seidel_contracts {n : ℕ} {A : Matrix (Fin n) (Fin n) 𝕜} (hA : IsSPD A) :
    Contr A (1 - gsN A * A) ∧ Contr A (1 - gsNback A * A) ∧ gsNback A = (gsN A)ᵀ ∧
      gsM A + (gsM A)ᵀ - A = Matrix.diagonal fun i => A i i :=
  ⟨gs_contr hA, gsBack_contr hA, gsNback_eq_transpose hA.1, gs_split hA.1⟩

example : Contr Example.A4 (1 - gsN Example.A4 * Example.A4) ∧ Contr Example.A4 (1 - gsNback Example.A4 * Example.A4) ∧
    gsNback Example.A4 = (gsN Example.A4)ᵀ ∧
    gsM Example.A4 + (gsM Example.A4)ᵀ - Example.A4 = Matrix.diagonal fun i => Example.A4 i i :=
  gauss_seidel_contracts Example.spd_A4

/-! ## 6. Scaling -/

omit [LinearOrder 𝕜] [IsStrictOrderedRing 𝕜] in
/-- **`B(cA) = c⁻¹ B(A)`** for every `c ≠ 0` (in particular every power of two): the hierarchy rebuilt for `c A` with
the same transfer operators (Galerkin coarse operators `R (cA) P`) and a smoother whose sweep matrix scales inversely,
`N(cA) = c⁻¹ N(A)`, has the cycle operator `c⁻¹ B` and the `apply` operator `c⁻¹ applyB` — for all cycle parameters -/
theorem apply_scale (pre post : SmootherFamily 𝕜) {c : 𝕜} (hc : c ≠ 0)
    (hpre : ∀ n A, pre n (c • A) = c⁻¹ • pre n A) (hpost : ∀ n A, post n (c • A) = c⁻¹ • post n A)
    (p : CycPrm) (k : ℕ) {n : ℕ} (A : Matrix (Fin n) (Fin n) 𝕜) (T : Transfers 𝕜 n) :
    (Hier.build pre post (c • A) T).B p = c⁻¹ • (Hier.build pre post A T).B p ∧
    (Hier.build pre post (c • A) T).applyB p k = c⁻¹ • (Hier.build pre post A T).applyB p k := by
  rw [Hier.build_smul pre post c hpre hpost]
  exact ⟨Hier.scale_B p hc _, Hier.scale_applyB p hc k _⟩

/-- the scaling hypothesis of `apply_scale` holds for damped Jacobi, SPAI-0 and forward/backward Gauss–Seidel -/
theorem smoothers_scale {c : 𝕜} (hc : c ≠ 0) (ω : 𝕜) :
    (∀ n A, jacobiFam ω n (c • A) = c⁻¹ • jacobiFam ω n A) ∧
    (∀ n A, spai0Fam (𝕜 := 𝕜) n (c • A) = c⁻¹ • spai0Fam n A) ∧
    (∀ n A, gsFam (𝕜 := 𝕜) n (c • A) = c⁻¹ • gsFam n A) ∧
    (∀ n A, gsBackFam (𝕜 := 𝕜) n (c • A) = c⁻¹ • gsBackFam n A) :=
  ⟨fun _ A => jacobiN_smul ω A, fun _ A => spai0N_smul hc A, fun _ A => gsN_smul hc A,
    fun _ A => gsNback_smul hc A⟩

-- the matrix multiplied by 2³ = 8: three levels, W-cycle, Gauss–Seidel, `pre_cycles = 2`
example :
    (Hier.build gsFam gsBackFam ((8 : ℚ) • Example.A4)
      (.cons Example.P4 Example.P4ᵀ (.cons Example.P2 Example.P2ᵀ (.coarsest true)))).applyB ⟨1, 1, 2⟩ 2 =
    (8 : ℚ)⁻¹ • (Hier.build gsFam gsBackFam Example.A4
      (.cons Example.P4 Example.P4ᵀ (.cons Example.P2 Example.P2ᵀ (.coarsest true)))).applyB ⟨1, 1, 2⟩ 2 :=
  (apply_scale gsFam gsBackFam (by norm_num) (smoothers_scale (by norm_num) 0).2.2.1
    (smoothers_scale (by norm_num) 0).2.2.2 _ 2 _ _).2

/-! ## 7. End-to-end statements for the smoothers whose hypotheses are discharged -/

/-- **C02, mathematical clauses — the part that is proved end to end.**

FULL STATEMENT (property text): for `A` SPD, irreducibly diagonally dominant M-matrix, *every* symmetric smoother of
amgcl (damped Jacobi, SPAI-0, Gauss–Seidel, ILU(0)/ILU(k)/ILUP, Chebyshev), all four coarsenings, V- and W-cycles,
any number of levels, `npre, npost ≥ 1`: `B` is SPD, `ρ(1 − BA) < 1`, and `B(2^k A) = 2^{-k} B(A)`.

PROVED HERE: for the hierarchy `Hier.build` with Galerkin coarse operators `Pᵀ A P` over **any** transfer operators
with `R = Pᵀ`, `P` injective (so all four coarsenings in their unscaled-Galerkin form), `A` SPD, for **Gauss–Seidel**
(forward pre-, backward post-sweep; *no* further hypothesis — not even diagonal dominance), **damped Jacobi**
(`0 < ω < 1`) and **SPAI-0** (every level matrix weakly diagonally dominant), for every `npre = npost ≥ 1`, every
`ncycle ≥ 1`, every `pre_cycles = k ≥ 1`, any number of levels, direct coarse solve or smoothing on the coarsest level:
`applyB` is symmetric positive definite, the error operator strictly contracts in the energy norm (hence all its
eigenvalues, complex ones included, have modulus `< 1`: `spectral_radius_lt_one`), and the operator of `c A` is
`c⁻¹ ·` the operator of `A` for every `c ≠ 0`.

MISSING for the full statement: (1) the smoothing inequality `Contr A (1 − N A)` for ILU(0)/ILU(k)/ILUP and Chebyshev
(Meijerink–van der Vorst / polynomial-smoother theory; `vcycle_contraction`, `B_spd`, `apply_scale` apply verbatim once it
and `N(cA) = c⁻¹N(A)` are supplied for them); (2) weak diagonal dominance of the *coarse* matrices is assumed level by
level (`Transfers.Good QWeakDD`) rather than derived from the fine matrix being an M-matrix (true for plain
aggregation, false in general for smoothed aggregation — where Gauss–Seidel still needs nothing); (3) the rescaled
Galerkin operator of `aggregation` with `over_interp ≠ 1` and the non-transposed restriction of `smoothed_aggr_emin`
are outside `Hier.OK`; (4) `npre ≠ npost` gives contraction and positive definiteness (`vcycle_contraction`, `B_posDef`)
but of course not symmetry; (5) the identification of `Hier.B` with the executable `Amg.cycle` on arrays is proved
(§8, `model_cycle_is_matrix_recursion`) *relative to* `Bridge.Realizes`, whose smoother/direct-solver/Galerkin inputs
come from C06/C16/C03/C08 and are not discharged here for the real smoother models. -/
theorem amg_spd_contracting_partial (sm : ProvedSmoother 𝕜) (hprm : sm.ParamOK) (p : CycPrm) (hnu : p.npre = p.npost)
    (hs : 0 < p.npre) (hc : 0 < p.ncycle) {k : ℕ} (hk : 0 < k) {n : ℕ} (A : Matrix (Fin n) (Fin n) 𝕜) (hA : IsSPD A)
    (T : Transfers 𝕜 n) (hT : T.Good sm.Q A) :
    let h := Hier.build sm.pre sm.post A T
    IsSPD (h.applyB p k) ∧ Contr A (1 - h.applyB p k * A) ∧
      ∀ c : 𝕜, c ≠ 0 → (Hier.build sm.pre sm.post (c • A) T).applyB p k = c⁻¹ • h.applyB p k := by
  intro h
  have hok : h.OK := by
    cases sm with
    | gaussSeidel =>
      exact Hier.build_OK gsFam gsBackFam QTrue (fun _ A hA _ => gs_contr hA) (fun _ A hA _ => gsBack_contr hA) A T hA hT
    | dampedJacobi ω =>
      exact Hier.build_OK (jacobiFam ω) (jacobiFam ω) QWeakDD (fun _ A hA hq => jacobi_contr hprm.1 hprm.2 hA hq)
        (fun _ A hA hq => jacobi_contr hprm.1 hprm.2 hA hq) A T hA hT
    | spai0 =>
      exact Hier.build_OK spai0Fam spai0Fam QWeakDD (fun _ A hA hq => spai0_contr hA hq)
        (fun _ A hA hq => spai0_contr hA hq) A T hA hT
  have hsym : h.Sym := by
    cases sm with
    | gaussSeidel => exact Hier.build_Sym gsFam gsBackFam QTrue (fun _ A hA => gsNback_eq_transpose hA) A T hA.1 hT
    | dampedJacobi ω =>
      exact Hier.build_Sym (jacobiFam ω) (jacobiFam ω) QWeakDD (fun _ A _ => (jacobiN_transpose ω A).symm) A T hA.1 hT
    | spai0 => exact Hier.build_Sym spai0Fam spai0Fam QWeakDD (fun _ A _ => (spai0N_transpose A).symm) A T hA.1 hT
  have hhA : h.A = A := Hier.build_A _ _ _ _
  obtain ⟨h1, h2⟩ := apply_spd p hnu hs hc hk h hok hsym
  rw [hhA] at h2
  refine ⟨h1, h2, fun c hc0 => ?_⟩
  cases sm with
  | gaussSeidel =>
    exact (apply_scale gsFam gsBackFam hc0 (smoothers_scale hc0 0).2.2.1 (smoothers_scale hc0 0).2.2.2 p k A T).2
  | dampedJacobi ω =>
    exact (apply_scale (jacobiFam ω) (jacobiFam ω) hc0 (smoothers_scale hc0 ω).1 (smoothers_scale hc0 ω).1 p k A T).2
  | spai0 =>
    exact (apply_scale spai0Fam spai0Fam hc0 (smoothers_scale hc0 0).2.1 (smoothers_scale hc0 0).2.1 p k A T).2

-- SPAI-0, W-cycle with 2+2 sweeps, smoothing on the coarsest level, `pre_cycles = 1`
example :
    let h := Hier.build (ProvedSmoother.spai0 (𝕜 := ℚ)).pre (ProvedSmoother.spai0 (𝕜 := ℚ)).post Example.A4
      (.cons Example.P4 Example.P4ᵀ (.cons Example.P2 Example.P2ᵀ (.coarsest false)))
    IsSPD (h.applyB ⟨2, 2, 2⟩ 1) ∧ Contr Example.A4 (1 - h.applyB ⟨2, 2, 2⟩ 1 * Example.A4) ∧
      ∀ c : ℚ, c ≠ 0 → (Hier.build (ProvedSmoother.spai0 (𝕜 := ℚ)).pre (ProvedSmoother.spai0 (𝕜 := ℚ)).post
        (c • Example.A4) (.cons Example.P4 Example.P4ᵀ (.cons Example.P2 Example.P2ᵀ (.coarsest false)))).applyB
          ⟨2, 2, 2⟩ 1 = c⁻¹ • h.applyB ⟨2, 2, 2⟩ 1 :=
  amg_spd_contracting_partial .spai0 trivial ⟨2, 2, 2⟩ rfl (by decide) (by decide) (by decide) Example.A4
    Example.spd_A4 _ (Example.transfers_good .spai0)

-- damped Jacobi ω = 18/25, V-cycle
example :
    let h := Hier.build (ProvedSmoother.dampedJacobi (18/25 : ℚ)).pre (ProvedSmoother.dampedJacobi (18/25 : ℚ)).post
      Example.A4 (.cons Example.P4 Example.P4ᵀ (.cons Example.P2 Example.P2ᵀ (.coarsest false)))
    IsSPD (h.applyB ⟨1, 1, 1⟩ 1) :=
  (amg_spd_contracting_partial (.dampedJacobi (18/25)) ⟨by norm_num, by norm_num⟩ ⟨1, 1, 1⟩ rfl (by decide) (by decide)
    (by decide) Example.A4 Example.spd_A4 _ (Example.transfers_good _)).1

/-! ## 8. Bridge to the executable model `Amg.cycle` / `Amg.apply` (arrays, `CRS`)

`Bridge.Realizes sm direct n ls h`: the model hierarchy `ls` realises the abstract hierarchy `h` — level matrices and
transfer operators are the dense denotations `matOf`, every smoother sweep acts as `x ↦ x + N (f − A x)` on the denoted
vectors (`Bridge.SweepIs`), the direct solver solves `A_d x = f` exactly.  `Bridge.vecOf n x` reads an array as a
vector.  What remains to be supplied by the other packages is listed in the file header of
`Proofs/EnergyBridge.lean`: `SweepIs` per smoother (C06), exactness of the direct solver (C16), `matOf` of the Galerkin
product (C03/C08) and of the transposed restriction (C08). -/
section bridge
open Amgcl.Amg Amgcl.Relax Amgcl.Energy.Bridge

variable {K S : Type} [Field K] [LinearOrder K] [IsStrictOrderedRing K] [DecidableEq K]
variable {sm : Smoother K S} {direct : CRS K → Vec K → Vec K}

/-- the model cycle is, on the denoted vectors, the affine map `x ↦ x + B (f − A x)` with `B = Hier.B` — for all
parameters, all scratch contents, any number of levels -/
theorem model_cycle_is_matrix_recursion (prm : Params) {n : Nat} {ls : List (Level K S)} {h : Hier K n}
    (hr : Realizes sm direct n ls h) (scr : List (Scratch K)) (f x : Vec K) (hl : scr.length = ls.length)
    (hf : f.size = n) (hx : x.size = n) :
    vecOf n (cycle prm sm direct ls scr f x).1 = step h.A (h.B (cyc prm)) (vecOf n f) (vecOf n x) :=
  cycle_realizes prm hr scr f x hl hf hx

example (prm : Params) (scr : List (Scratch ℚ)) (f x : Vec ℚ) (hl : scr.length = 2) (hf : f.size = 2)
    (hx : x.size = 2) :
    vecOf 2 (cycle prm Bridge.Example.sm Bridge.Example.direct [Bridge.Example.lv0, Bridge.Example.lv1] scr f x).1 =
      step Bridge.Example.h2.A (Bridge.Example.h2.B (cyc prm)) (vecOf 2 f) (vecOf 2 x) :=
  model_cycle_is_matrix_recursion prm Bridge.Example.realizes scr f x hl hf hx

/-- **the model cycle strictly reduces the energy norm of the error**, whatever the scratch vectors contain -/
theorem model_cycle_error_contracts (prm : Params) (hs : 0 < prm.npre + prm.npost) (hc : 0 < prm.ncycle) {n : Nat}
    {ls : List (Level K S)} {h : Hier K n} (hr : Realizes sm direct n ls h) (hok : h.OK)
    (scr : List (Scratch K)) (f x : Vec K) (hl : scr.length = ls.length) (hf : f.size = n) (hx : x.size = n)
    (xs : Fin n → K) (hsol : h.A *ᵥ xs = vecOf n f) (hne : vecOf n x ≠ xs) :
    en h.A (xs - vecOf n (cycle prm sm direct ls scr f x).1) (xs - vecOf n (cycle prm sm direct ls scr f x).1) <
      en h.A (xs - vecOf n x) (xs - vecOf n x) := by
  rw [cycle_realizes prm hr scr f x hl hf hx]
  exact cycle_error_decreases (cyc prm) hs hc h hok _ _ xs hsol hne

example (scr : List (Scratch ℚ)) (f x : Vec ℚ) (hl : scr.length = 2) (hf : f.size = 2) (hx : x.size = 2)
    (xs : Fin 2 → ℚ) (hsol : Bridge.Example.h2.A *ᵥ xs = vecOf 2 f) (hne : vecOf 2 x ≠ xs) :
    let prm : Params := ⟨1, true, 2, 1, 2, 2, 1, false⟩
    let y := (cycle prm Bridge.Example.sm Bridge.Example.direct [Bridge.Example.lv0, Bridge.Example.lv1] scr f x).1
    en Bridge.Example.h2.A (xs - vecOf 2 y) (xs - vecOf 2 y) < en Bridge.Example.h2.A (xs - vecOf 2 x) (xs - vecOf 2 x) :=
  model_cycle_error_contracts ⟨1, true, 2, 1, 2, 2, 1, false⟩ (by decide) (by decide) Bridge.Example.realizes
    Bridge.Example.h2_OK scr f x hl hf hx xs hsol hne

/-- **the model preconditioner `amg::apply` is multiplication by a symmetric positive definite matrix `B`** whose
stationary iteration contracts (`pre_cycles ≥ 1`, symmetric cycle) -/
theorem model_apply_spd (prm : Params) (hnu : prm.npre = prm.npost) (hs : 0 < prm.npre) (hc : 0 < prm.ncycle)
    (hpc : 0 < prm.pre_cycles) {n : Nat} {ls : List (Level K S)} {h : Hier K n} (hr : Realizes sm direct n ls h)
    (hok : h.OK) (hsym : h.Sym) :
    ∃ B : Matrix (Fin n) (Fin n) K, IsSPD B ∧ Contr h.A (1 - B * h.A) ∧
      ∀ (scr : List (Scratch K)) (f : Vec K), scr.length = ls.length → f.size = n →
        vecOf n (apply prm sm direct ls scr f).1 = B *ᵥ vecOf n f :=
  have hB := apply_spd (cyc prm) hnu hs hc hpc h hok hsym
  ⟨h.applyB (cyc prm) prm.pre_cycles, hB.1, hB.2, fun scr f hl hf => apply_realizes prm hpc hr scr f hl hf⟩

example : ∃ B : Matrix (Fin 2) (Fin 2) ℚ, IsSPD B ∧ Contr Bridge.Example.h2.A (1 - B * Bridge.Example.h2.A) ∧
    ∀ (scr : List (Scratch ℚ)) (f : Vec ℚ), scr.length = 2 → f.size = 2 →
      vecOf 2 (apply ⟨1, true, 2, 2, 2, 1, 1, false⟩ Bridge.Example.sm Bridge.Example.direct
        [Bridge.Example.lv0, Bridge.Example.lv1] scr f).1 = B *ᵥ vecOf 2 f :=
  model_apply_spd ⟨1, true, 2, 2, 2, 1, 1, false⟩ rfl (by decide) (by decide) (by decide) Bridge.Example.realizes
    Bridge.Example.h2_OK Bridge.Example.h2_Sym

end bridge

end Amgcl.C02b
