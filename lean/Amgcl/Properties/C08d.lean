import Amgcl.Properties.C08c
import Amgcl.Proofs.KernelsExpand
/-!
# C08 — part 4: the Gershgorin estimate at block values bounds the spectrum of the EXPANDED scalar matrix

`C08c.block_gershgorin_(scaled_)bound` quantify over block eigenvectors.  Here the step that was missing is formalised:
an eigenpair `(λ, v)` of the scalar matrix a block matrix stands for (`Model/BlockValue.expandBlocks`; `KX.expandWith` is the
same text with the entry reader as a parameter, `expandBlocks_is_expandWith`) chunks into a block eigenvector
(`KX.expand_rowDot`), hence

* `spectral_radius_bound_expanded`: every eigenvalue of `expand A` has `‖λ‖ ≤ spectral_radius<false>(A, 0)`,
* `spectral_radius_bound_expanded_scaled`: every eigenvalue of `expand(blockdiag(inv a_II)) · expand A` has
  `‖λ‖ ≤ spectral_radius<true>(A, 0) = max_I (Σ_J ‖a_IJ‖_F) · ‖inv a_II‖_F`,
* `spectral_radius_bound_expanded_pencil`: when `inv` inverts the diagonal blocks, every `λ` with
  `expand(A) v = λ · expand(blockdiag(a_II)) v` (eigenvalue of `D⁻¹A`) obeys the same bound,

for `b × b` blocks over `ℝ` or `ℂ` (`RCLike`), `math::norm` of a block being the Frobenius norm
(value_type/static_matrix.hpp `norm_impl`: `sqrt(norm(Σ_i x(i) * adjoint(x(i))))`; `frobenius_is_code_norm`).  The vector norm
that makes this block norm work is the Euclidean norm of the chunks: `‖a y‖₂ ≤ ‖a‖_F ‖y‖₂` (consistency) and
`‖a c‖_F ≤ ‖a‖_F ‖c‖_F` (submultiplicativity, Mathlib's `Matrix.frobenius_norm_mul`); the proof replicates a chunk into the
`b` equal columns of a block, whose Frobenius norm is `√b` times the Euclidean norm of the chunk.  The norm is real-valued with
the exact root (`Real.sqrt`); the executable `rsqrt` of the driver is not a root and the harness oracle carries the rounding
allowance (`tools/checks/C08.json`).

Helper lemmas: `Amgcl/Proofs/KernelsExpand.lean`.
-/
namespace Amgcl.C08d
open Amgcl Matrix

attribute [local instance] Matrix.frobeniusSeminormedAddCommGroup Matrix.frobeniusNormedAddCommGroup
  Matrix.frobeniusNormedSpace Matrix.frobeniusNormedRing Matrix.frobeniusNormedAlgebra

/-- the model of the block → scalar expansion used by C13 / C17 is `KX.expandWith` at the entry reader of `SMat` -/
theorem expandBlocks_is_expandWith {K : Type} [Zero K] {b : Nat} (A : CRS (SMat K b b)) :
    expandBlocks A = KX.expandWith (fun v p q => v.get p q) b A := rfl

section
variable {𝕜 : Type} [RCLike 𝕜] {b : Nat}

/-- **chunking**: if `(λ, v)` is an eigenpair of the expanded scalar matrix (row by row over the stored entries, the SpMV
loop), then the chunked vector is a block eigenvector: `Σ_J a_IJ · X_J = λ • X_I` for every block row `I` -/
theorem eigen_chunks (A : CRS (Matrix (Fin b) (Fin b) 𝕜)) (v : Nat → 𝕜) (lam : 𝕜)
    (heig : ∀ r, r < A.nrows * b → KX.scalarRowDot ((KX.expandWith KX.entry b A).row r) v = lam * v r)
    (I : Nat) (hI : I < A.nrows) :
    KV.blockRowDot (V := Matrix (Fin b) (Fin b) 𝕜) (E := Matrix (Fin b) (Fin b) 𝕜) (A.row I) (KX.chunk b v)
      = lam • KX.chunk b v I := by
  ext p c
  rw [← KX.expand_rowDot A v I hI p c, heig]
  · simp [KX.chunk]
  · calc I * b + p.val < I * b + b := Nat.add_lt_add_left p.isLt _
      _ = (I + 1) * b := by rw [Nat.succ_mul]
      _ ≤ A.nrows * b := Nat.mul_le_mul_right _ hI

/-- a scalar vector that is not zero on the rows has a non-zero chunk -/
theorem chunk_ne_zero (n : Nat) (v : Nat → 𝕜) (hv : ∃ r, r < n * b ∧ v r ≠ 0) :
    ∃ I, I < n ∧ KX.chunk b v I ≠ 0 := by
  obtain ⟨r, hr, hne⟩ := hv
  have hb : 0 < b := Nat.pos_of_ne_zero (fun h => by subst h; simp at hr)
  refine ⟨r / b, (Nat.div_lt_iff_lt_mul hb).2 hr, fun h => hne ?_⟩
  have := congrFun (congrFun h ⟨r % b, Nat.mod_lt _ hb⟩) ⟨r % b, Nat.mod_lt _ hb⟩
  simpa [KX.chunk, Nat.div_add_mod'] using this

/-- **`spectral_radius<false>(A, 0)` at block values bounds the spectrum of the expanded scalar matrix.**
`A` is a well-formed square CRS matrix of `b × b` blocks over `ℝ` / `ℂ` (any row order, duplicates allowed), `v` a scalar
vector of length `nrows·b` that is not zero, `expand(A) v = λ v` row by row.  Then `‖λ‖` is at most the value returned by
the model of the Gershgorin branch evaluated with the Frobenius block norm. -/
theorem spectral_radius_bound_expanded (inv : Matrix (Fin b) (Fin b) 𝕜 → Matrix (Fin b) (Fin b) 𝕜)
    (A : CRS (Matrix (Fin b) (Fin b) 𝕜)) (hA : A.WF) (hsq : A.ncols = A.nrows)
    (v : Nat → 𝕜) (lam : 𝕜) (hv : ∃ r, r < A.nrows * b ∧ v r ≠ 0)
    (heig : ∀ r, r < A.nrows * b → KX.scalarRowDot ((KX.expandWith KX.entry b A).row r) v = lam * v r) :
    ‖lam‖ ≤ gershgorinV (fun a : Matrix (Fin b) (Fin b) 𝕜 => ‖a‖) inv 1 false A :=
  C08c.block_gershgorin_bound (E := Matrix (Fin b) (Fin b) 𝕜) inv 1 A hA hsq (KX.chunk b v) lam
    (chunk_ne_zero A.nrows v hv) (fun I hI => eigen_chunks A v lam heig I hI)

/-- **`spectral_radius<true>(A, 0)` at block values bounds the spectrum of the expanded `D⁻¹A`.**
Every block row stores exactly one entry `dia I` on the diagonal position; `inv` is ANY function on blocks (the code's
`math::inverse`); `w = expand(A) v` is the scalar SpMV, and `expand(blockdiag(inv (dia I))) w = λ v` row by row — i.e.
`(λ, v)` is an eigenpair of the product of the two expanded scalar matrices, which is the expanded `D⁻¹A` when `inv` inverts.
Then `‖λ‖ ≤ max_I (Σ_J ‖a_IJ‖_F) · ‖inv (dia I)‖_F`, the value of the model of the scaled Gershgorin branch. -/
theorem spectral_radius_bound_expanded_scaled (inv : Matrix (Fin b) (Fin b) 𝕜 → Matrix (Fin b) (Fin b) 𝕜)
    (A : CRS (Matrix (Fin b) (Fin b) 𝕜)) (hA : A.WF) (hsq : A.ncols = A.nrows)
    (dia : Nat → Matrix (Fin b) (Fin b) 𝕜)
    (hdiag1 : ∀ I, I < A.nrows → ((A.row I).filter (fun cv => decide (cv.1 = I))).length = 1 ∧ (I, dia I) ∈ A.row I)
    (v : Nat → 𝕜) (lam : 𝕜) (hv : ∃ r, r < A.nrows * b ∧ v r ≠ 0)
    (heig : ∀ r, r < A.nrows * b →
      KX.scalarRowDot ((KX.expandWith KX.entry b (KX.blockDiag A.nrows (fun I => inv (dia I)))).row r)
        (fun s => KX.scalarRowDot ((KX.expandWith KX.entry b A).row s) v) = lam * v r) :
    ‖lam‖ ≤ gershgorinV (fun a : Matrix (Fin b) (Fin b) 𝕜 => ‖a‖) inv 1 true A := by
  refine C08c.block_gershgorin_scaled_bound (E := Matrix (Fin b) (Fin b) 𝕜) inv 1 A hA hsq dia hdiag1 (KX.chunk b v) lam
    (chunk_ne_zero A.nrows v hv) (fun I hI => ?_)
  have hn : (KX.blockDiag A.nrows (fun I => inv (dia I))).nrows = A.nrows := by simp [KX.blockDiag, CRS.nrows]
  have hlt : ∀ p : Fin b, I * b + p.val < A.nrows * b := fun p => by
    calc I * b + p.val < I * b + b := Nat.add_lt_add_left p.isLt _
      _ = (I + 1) * b := by rw [Nat.succ_mul]
      _ ≤ A.nrows * b := Nat.mul_le_mul_right _ hI
  have hw : KV.blockRowDot (V := Matrix (Fin b) (Fin b) 𝕜) (E := Matrix (Fin b) (Fin b) 𝕜) (A.row I) (KX.chunk b v)
      = KX.chunk b (fun s => KX.scalarRowDot ((KX.expandWith KX.entry b A).row s) v) I := by
    ext p c
    rw [← KX.expand_rowDot A v I hI p c]; rfl
  rw [hw]
  ext p c
  have h := KX.expand_rowDot (KX.blockDiag A.nrows (fun I => inv (dia I)))
    (fun s => KX.scalarRowDot ((KX.expandWith KX.entry b A).row s) v) I (by rw [hn]; exact hI) p c
  rw [KX.blockDiag_row _ _ I hI, heig _ (hlt p)] at h
  simpa [KV.blockRowDot, KX.chunk] using h.symm


/-- **… as eigenvalues of the pencil `(A, D)`**: when `inv` really inverts the diagonal blocks (`inv (dia I) * dia I = 1`, what
`math::inverse` returns for a non-singular block), every `λ` with `expand(A) v = λ · expand(blockdiag(dia)) v`, `v ≠ 0` — i.e. every
eigenvalue of `D⁻¹A` on the expanded scalar matrices — satisfies `‖λ‖ ≤ spectral_radius<true>(A, 0)` -/
theorem spectral_radius_bound_expanded_pencil (inv : Matrix (Fin b) (Fin b) 𝕜 → Matrix (Fin b) (Fin b) 𝕜)
    (A : CRS (Matrix (Fin b) (Fin b) 𝕜)) (hA : A.WF) (hsq : A.ncols = A.nrows)
    (dia : Nat → Matrix (Fin b) (Fin b) 𝕜)
    (hdiag1 : ∀ I, I < A.nrows → ((A.row I).filter (fun cv => decide (cv.1 = I))).length = 1 ∧ (I, dia I) ∈ A.row I)
    (hinv : ∀ I, I < A.nrows → inv (dia I) * dia I = 1)
    (v : Nat → 𝕜) (lam : 𝕜) (hv : ∃ r, r < A.nrows * b ∧ v r ≠ 0)
    (heig : ∀ r, r < A.nrows * b →
      KX.scalarRowDot ((KX.expandWith KX.entry b A).row r) v
        = lam * KX.scalarRowDot ((KX.expandWith KX.entry b (KX.blockDiag A.nrows dia)).row r) v) :
    ‖lam‖ ≤ gershgorinV (fun a : Matrix (Fin b) (Fin b) 𝕜 => ‖a‖) inv 1 true A := by
  refine C08c.block_gershgorin_scaled_bound (E := Matrix (Fin b) (Fin b) 𝕜) inv 1 A hA hsq dia hdiag1 (KX.chunk b v) lam
    (chunk_ne_zero A.nrows v hv) (fun I hI => ?_)
  have hn : (KX.blockDiag A.nrows dia).nrows = A.nrows := by simp [KX.blockDiag, CRS.nrows]
  have hlt : ∀ p : Fin b, I * b + p.val < A.nrows * b := fun p => by
    calc I * b + p.val < I * b + b := Nat.add_lt_add_left p.isLt _
      _ = (I + 1) * b := by rw [Nat.succ_mul]
      _ ≤ A.nrows * b := Nat.mul_le_mul_right _ hI
  have hAx : KV.blockRowDot (V := Matrix (Fin b) (Fin b) 𝕜) (E := Matrix (Fin b) (Fin b) 𝕜) (A.row I) (KX.chunk b v)
      = lam • (dia I * KX.chunk b v I) := by
    ext p c
    have hD := KX.expand_rowDot (KX.blockDiag A.nrows dia) v I (by rw [hn]; exact hI) p c
    rw [KX.blockDiag_row _ _ I hI] at hD
    rw [← KX.expand_rowDot A v I hI p c, heig _ (hlt p), hD]
    simp [KV.blockRowDot]
  rw [hAx, smul_eq_mul, Matrix.mul_smul, ← Matrix.mul_assoc, hinv I hI, Matrix.one_mul]

end

/-! ## non-vacuity: `[[D, B], [0, D]]`, `D = [[1,1],[0,1]]`, `B = [[0,0],[1,0]]` (non-commuting, first row stored out of
order); its expansion is the 4 × 4 upper bidiagonal matrix with unit diagonal, `e₀` is an eigenvector for `λ = 1` of the
expansion and of the expanded `D⁻¹A` -/
section nonvacuity
open KV.Example

def exV : Nat → ℝ := fun r => if r = 0 then 1 else 0

theorem exA_wf : exA.WF := by
  intro r hr cv hcv
  simp [exA] at hr
  rcases hr with rfl | rfl <;> simp at hcv <;> rcases hcv with rfl | rfl <;> simp [exA]

theorem exA_expand_eig : ∀ r, r < exA.nrows * 2 →
    KX.scalarRowDot ((KX.expandWith KX.entry 2 exA).row r) exV = 1 * exV r := by
  intro r hr
  have hr4 : r < 4 := hr
  interval_cases r <;>
    simp [KX.expandWith, KX.scalarRowDot, KX.entry, CRS.row, CRS.nrows, exA, exD, exB, exV, List.range, List.range.loop]

example : ‖(1 : ℝ)‖ ≤ gershgorinV (fun a : Matrix (Fin 2) (Fin 2) ℝ => ‖a‖) (fun _ => exDinv) 1 false exA :=
  spectral_radius_bound_expanded (fun _ => exDinv) exA exA_wf rfl exV 1 ⟨0, by decide, by simp [exV]⟩ exA_expand_eig

example : ‖(1 : ℝ)‖ ≤ gershgorinV (fun a : Matrix (Fin 2) (Fin 2) ℝ => ‖a‖) (fun _ => exDinv) 1 true exA := by
  refine spectral_radius_bound_expanded_scaled (fun _ => exDinv) exA exA_wf rfl (fun _ => exD) ?_ exV 1
    ⟨0, by decide, by simp [exV]⟩ ?_
  · intro i hi
    have : i = 0 ∨ i = 1 := by
      have : i < 2 := hi
      omega
    rcases this with rfl | rfl <;> simp [exA, CRS.row]
  · intro r hr
    have hr4 : r < 4 := hr
    have hw : (fun s => KX.scalarRowDot ((KX.expandWith KX.entry 2 exA).row s) exV) = exV := by
      funext s
      by_cases hs : s < 4
      · rw [exA_expand_eig s hs, one_mul]
      · have : (KX.expandWith KX.entry 2 exA).row s = [] := by
          unfold CRS.row
          rw [Array.getD_eq_getD_getElem?, Array.getElem?_eq_none (by simp [KX.expandWith, exA, CRS.nrows]; omega)]
          rfl
        rw [this]; simp only [KX.scalarRowDot, exV, List.map_nil, List.sum_nil]
        rw [if_neg (by omega)]
    rw [hw]
    interval_cases r <;>
      simp [KX.expandWith, KX.blockDiag, KX.scalarRowDot, KX.entry, CRS.row, CRS.nrows, exA, exDinv, exV, List.range,
        List.range.loop]


-- the pencil form: `expand(A) e₀ = e₀ = 1 · expand(blockdiag(D, D)) e₀`
example : ‖(1 : ℝ)‖ ≤ gershgorinV (fun a : Matrix (Fin 2) (Fin 2) ℝ => ‖a‖) (fun _ => exDinv) 1 true exA := by
  refine spectral_radius_bound_expanded_pencil (fun _ => exDinv) exA exA_wf rfl (fun _ => exD) ?_ (fun _ _ => exDinv_mul) exV 1
    ⟨0, by decide, by simp [exV]⟩ ?_
  · intro i hi
    have : i = 0 ∨ i = 1 := by
      have : i < 2 := hi
      omega
    rcases this with rfl | rfl <;> simp [exA, CRS.row]
  · intro r hr
    have hr4 : r < 4 := hr
    rw [exA_expand_eig r hr]
    interval_cases r <;>
      simp [KX.expandWith, KX.blockDiag, KX.scalarRowDot, KX.entry, CRS.row, CRS.nrows, exA, exD, exV, List.range,
        List.range.loop]

end nonvacuity

/-! ## the block norm of the code is the Frobenius norm -/

/-- `math::norm(static_matrix)` = `sqrt(norm(Σ_i x(i) * adjoint(x(i))))` is Mathlib's Frobenius norm (real blocks, exact
root) -/
theorem frobenius_is_code_norm {b : Nat} (a : Matrix (Fin b) (Fin b) ℝ) :
    ‖a‖ = Real.sqrt |∑ i, ∑ j, a i j * a i j| := by
  have hnn : 0 ≤ ∑ i, ∑ j, a i j * a i j :=
    Finset.sum_nonneg fun i _ => Finset.sum_nonneg fun j _ => mul_self_nonneg _
  rw [abs_of_nonneg hnn, Matrix.frobenius_norm_def, Real.sqrt_eq_rpow]
  congr 1
  refine Finset.sum_congr rfl fun i _ => Finset.sum_congr rfl fun j _ => ?_
  rw [Real.rpow_two, Real.norm_eq_abs, sq_abs, sq]

example : ‖(!![3, 0; 0, 4] : Matrix (Fin 2) (Fin 2) ℝ)‖ = 5 := by
  rw [frobenius_is_code_norm]
  simp [Fin.sum_univ_two]
  rw [show (3 : ℝ) * 3 + 4 * 4 = 5 ^ 2 by norm_num, abs_of_nonneg (by positivity), Real.sqrt_sq (by norm_num)]

end Amgcl.C08d
