import Amgcl.Properties.C08
import Amgcl.Proofs.KernelsSort
import Amgcl.Proofs.KernelsSum
import Amgcl.Proofs.KernelsRmerge
import Amgcl.Proofs.KernelsMisc
import Amgcl.Proofs.KernelsGershgorin
import Amgcl.Proofs.KernelsProductEq
import Amgcl.Proofs.KernelsCopy
/-!
# C08 — sparse matrix kernels equal their dense definitions (part 2)

Row sort (`detail::sort_row`, `backend::sort_rows`), weighted sum (`backend::sum`), row-merge SpGEMM
(`spgemm_rmerge`) and its agreement with the marker-based SpGEMM (hence independence of `backend::product` from
the thread count), diagonal extraction / inversion (`backend::diagonal`), row-pointer facts, the CRS copy / convert
constructors, and the Gershgorin
spectral-radius bound (`spectral_radius<scale>(A, 0)`).  Part 1 (`Properties/C08.lean`): transpose,
`spgemm_saad`, scale.

Property theorems only; helper lemmas are in `Amgcl/Proofs/Kernels{Common,Sort,TwoPass,Sum,Rmerge,Misc,Gershgorin}.lean`
(namespace `Amgcl.K2`).  The algebraic statements are about the denotation `CRS.get` (duplicate entries add) and hold
over an arbitrary, not necessarily commutative, semiring (so also for block values), for all shapes, unsorted
rows and rows with duplicate columns unless a hypothesis says otherwise.

NOT covered here (and not modelled): the power-method branch of `spectral_radius` (`power_iters > 0`; start vector
from a thread-seeded random generator) — the clause "never exceeds the largest singular value" of the property is
therefore not decided by these theorems.  `pointwise_matrix` is handled in the C04 package.
-/
namespace Amgcl.C08b
open Amgcl Amgcl.K2 Finset

/-! ## row sort -/
section sort
variable {K : Type}

/-- **`sort_row`** returns a permutation of the row with non-decreasing columns; it is stable (for every column
the entries with that column keep their stored order), and the columns are strictly increasing when the input has
no duplicate column. -/
theorem sortRow_perm_sorted (r : Row K) :
    (sortRow r).Perm r ∧
    (sortRow r).Pairwise (fun a b => a.1 ≤ b.1) ∧
    (∀ c, (sortRow r).filter (fun e => decide (e.1 = c)) = r.filter (fun e => decide (e.1 = c))) ∧
    ((r.map (·.1)).Nodup → (sortRow r).Pairwise (fun a b => a.1 < b.1)) :=
  ⟨sortRow_perm r, sortRow_sorted r, sortRow_stable r, sortRow_strict r⟩

example : sortRow [(3, 'a'), (1, 'b'), (3, 'c'), (0, 'd'), (1, 'e')]
    = [(0, 'd'), (1, 'b'), (1, 'e'), (3, 'a'), (3, 'c')] := by decide

/-- the denotation of a row is unchanged by sorting (duplicates allowed) -/
theorem sortRow_get [AddCommMonoid K] (r : Row K) (j : Nat) : rowGet (sortRow r) j = rowGet r j :=
  K2.sortRow_get r j

/-- **canonical form**: for rows with distinct columns the sorted row does not depend on the stored order of the
input (used by C17: the row order of the user's matrix does not matter once rows are sorted) -/
theorem sortRow_canonical {r r' : Row K} (hn : (r.map (·.1)).Nodup) (h : r'.Perm r) :
    sortRow r' = sortRow r :=
  K2.sortRow_canonical hn h

example : sortRow [(2, 'x'), (0, 'y'), (1, 'z')] = sortRow [(1, 'z'), (2, 'x'), (0, 'y')] :=
  sortRow_canonical (by decide) (by decide)

/-- sorting is idempotent, and a strictly sorted row is a fixed point -/
theorem sortRow_idem (r : Row K) : sortRow (sortRow r) = sortRow r := K2.sortRow_idem r

/-- **`sort_rows`**: same shape, same denotation, same row lengths (hence the same `ptr` array), well-formedness
preserved, and the result is row-sorted (strictly) whenever no input row has a duplicate column. -/
theorem sortRows_spec [AddCommMonoid K] (A : CRS K) :
    (∀ i j, (sortRows A).get i j = A.get i j) ∧
    (sortRows A).nrows = A.nrows ∧ (sortRows A).ncols = A.ncols ∧
    (∀ i, ((sortRows A).row i).Perm (A.row i)) ∧
    (A.WF → (sortRows A).WF) ∧
    (A.nodupb = true → (sortRows A).sortedb = true) ∧
    (A.sortedb = true → sortRows A = A) := by
  refine ⟨?_, sortRows_nrows A, rfl, ?_, sortRows_wf A, sortRows_sortedb A, sortRows_of_sorted A⟩
  · intro i j; unfold CRS.get; rw [sortRows_row]; exact K2.sortRow_get _ j
  · intro i; rw [sortRows_row]; exact sortRow_perm _

example : (⟨3, #[[(2, (1 : Int)), (0, 2)], [], [(1, 4), (0, 1)]]⟩ : CRS Int).WF ∧
    (⟨3, #[[(2, (1 : Int)), (0, 2)], [], [(1, 4), (0, 1)]]⟩ : CRS Int).nodupb = true := by decide

end sort

/-! ## weighted sum -/
section sum
variable {K : Type} [Semiring K]

/-- **`sum(α, A, β, B, sort)`** denotes `α·A + β·B`, entry by entry — for all well-formed operands of the same
shape, any stored row order, duplicate columns allowed, with or without the final row sort. -/
theorem sum_get (α : K) (A : CRS K) (β : K) (B : CRS K) (sort : Bool) (hA : A.WF) (hB : B.WF)
    (hr : B.nrows = A.nrows) (hc : B.ncols = A.ncols) (i j : Nat) :
    (sum α A β B sort).get i j = α * A.get i j + β * B.get i j :=
  sum_get' α β sort hA hB hc hr i j

/-- shape and in-range columns of the result -/
theorem sum_wf (α : K) (A : CRS K) (β : K) (B : CRS K) (sort : Bool) (hA : A.WF) (hB : B.WF)
    (hc : B.ncols = A.ncols) :
    (sum α A β B sort).nrows = A.nrows ∧ (sum α A β B sort).ncols = A.ncols ∧ (sum α A β B sort).WF :=
  ⟨sum_nrows α A β B sort hA hB hc, rfl, sum_wf' α β sort hA hB hc⟩

/-- no column occurs twice in a result row — for ALL well-formed inputs (sorted or not, with or without duplicate
columns); with `sort = true` the rows are strictly increasing -/
theorem sum_nodup (α : K) (A : CRS K) (β : K) (B : CRS K) (sort : Bool) (hA : A.WF) (hB : B.WF)
    (hc : B.ncols = A.ncols) :
    (sum α A β B sort).nodupb = true ∧ (sort = true → (sum α A β B sort).sortedb = true) := by
  refine ⟨sum_nodup' α β sort hA hB hc, ?_⟩
  intro h; subst h; exact sum_sorted' α β hA hB hc

/-- the row widths counted by the first pass (they size `ptr`/`col`/`val`) are exactly the lengths of the rows the
second pass writes, namely the number of distinct columns of the two operand rows together: the second pass
neither overruns nor under-fills its segment. -/
theorem sum_widths_consistent (α : K) (A : CRS K) (β : K) (B : CRS K) (sort : Bool) (hA : A.WF) (hB : B.WF)
    (hc : B.ncols = A.ncols) :
    sumWidths A B = (sum α A β B sort).rows.toList.map List.length ∧
    sumWidths A B = (List.range A.nrows).map
      (fun i => ((A.row i).map (·.1) ++ (B.row i).map (·.1)).toFinset.card) := by
  refine ⟨sum_widths' α β sort hA hB hc, ?_⟩
  rw [sumWidths_spec α β hA hB hc]
  apply List.map_congr_left
  intro i _
  exact ndistinct_sumTerms α A β B i

/-- consequently the `ptr` array of the result is the scan of the first-pass widths -/
theorem sum_ptr (α : K) (A : CRS K) (β : K) (B : CRS K) (sort : Bool) (hA : A.WF) (hB : B.WF)
    (hc : B.ncols = A.ncols) : (sum α A β B sort).ptr = scanWidths (sumWidths A B) := by
  rw [ptr_eq_scanWidths, ← sum_widths' α β sort hA hB hc]

-- non-vacuity: unsorted rows, a duplicate column inside `A`, a column shared by `A` and `B`, an empty row
example : (⟨3, #[[(2, (1 : Int)), (0, 2), (2, 5)], []]⟩ : CRS Int).WF ∧
    (⟨3, #[[(1, (7 : Int)), (2, 1)], [(0, 3)]]⟩ : CRS Int).WF := by decide
example : (sum (2 : Int) ⟨3, #[[(2, 1), (0, 2), (2, 5)], []]⟩ 3 ⟨3, #[[(1, 7), (2, 1)], [(0, 3)]]⟩ false).rows
    = #[[(2, 15), (0, 4), (1, 21)], [(0, 9)]] := by decide
example : sumWidths (⟨3, #[[(2, (1 : Int)), (0, 2), (2, 5)], []]⟩ : CRS Int) ⟨3, #[[(1, 7), (2, 1)], [(0, 3)]]⟩
    = [3, 1] := by decide

end sum

/-! ## row-merge SpGEMM -/
section rmerge
variable {K : Type} [Semiring K]

/-- the building block: merging two rows scaled by `a1`, `a2` denotes `a1·r1 + a2·r2` (for ALL rows), and the
merge of two strictly sorted rows is strictly sorted -/
theorem mergeRows_spec (a1 a2 : K) (r1 r2 : Row K) :
    (∀ j, rowGet (mergeRows a1 r1 a2 r2) j = a1 * rowGet r1 j + a2 * rowGet r2 j) ∧
    (r1.Pairwise (fun a b => a.1 < b.1) → r2.Pairwise (fun a b => a.1 < b.1) →
      (mergeRows a1 r1 a2 r2).Pairwise (fun a b => a.1 < b.1)) :=
  ⟨mergeRows_get a1 a2 r1 r2, fun h1 h2 => mergeRows_strict a1 a2 h1 h2⟩

/-- **SpGEMM (row-merge algorithm)**: entry `(i,j)` of the result is `Σ_k a_ik · b_kj`.  No sortedness is needed
for the *denotation* (every partial product is emitted exactly once whatever the stored order). -/
theorem rmerge_get (A B : CRS K) (hA : A.WF) (i j : Nat) :
    (spgemmRmerge A B).get i j = ∑ k ∈ range A.ncols, A.get i k * B.get k j :=
  rmerge_get' A B hA i j

/-- shape and in-range columns -/
theorem rmerge_wf (A B : CRS K) (hB : B.WF) :
    (spgemmRmerge A B).nrows = A.nrows ∧ (spgemmRmerge A B).ncols = B.ncols ∧ (spgemmRmerge A B).WF :=
  ⟨rmerge_nrows A B, rfl, K2.rmerge_wf A B hB⟩

/-- for a row-sorted right operand every result row is strictly increasing, in particular free of duplicate
columns (whatever the row order of `A`) -/
theorem rmerge_sorted_nodup (A B : CRS K) (hB : B.sortedb = true) :
    (spgemmRmerge A B).sortedb = true ∧ (spgemmRmerge A B).nodupb = true :=
  ⟨rmerge_sorted A B hB, rmerge_nodup A B hB⟩

/-- the widths computed by `prod_row_width` (which size the allocation) are exactly the lengths of the rows
produced by `prod_row` — for ALL inputs -/
theorem rmerge_widths_consistent (A B : CRS K) :
    rmergeWidths A B = (spgemmRmerge A B).rows.toList.map List.length ∧
    (spgemmRmerge A B).ptr = scanWidths (rmergeWidths A B) := by
  refine ⟨rmerge_widths A B, ?_⟩
  rw [ptr_eq_scanWidths, ← rmerge_widths A B]

/-- **both SpGEMM algorithms denote the same matrix** (all well-formed operands, any row order, any `sort`) -/
theorem saad_eq_rmerge (A B : CRS K) (hA : A.WF) (hB : B.WF) (sort : Bool) (i j : Nat) :
    (spgemmSaad A B sort).get i j = (spgemmRmerge A B).get i j := by
  by_cases hi : i < A.nrows
  · rw [C08.saad_get A B hA hB sort i j hi, rmerge_get A B hA i j]
  · have hi' : A.nrows ≤ i := Nat.le_of_not_lt hi
    unfold CRS.get
    rw [row_eq_nil_of_ge _ (by rw [(C08.saad_wf A B hB sort).1]; exact hi'),
      row_eq_nil_of_ge _ (by rw [rmerge_nrows]; exact hi')]

/-- hence the matrix returned by `backend::product` does not depend on the number of threads (which only selects
the algorithm: row-merge iff more than 16 threads) nor on the `sort` flag -/
theorem product_indep_threads (nt nt' : Nat) (A B : CRS K) (hA : A.WF) (hB : B.WF) (sort sort' : Bool) (i j : Nat) :
    (product nt A B sort).get i j = (product nt' A B sort').get i j := by
  have key : ∀ (n : Nat) (s : Bool), (product n A B s).get i j = (spgemmRmerge A B).get i j := by
    intro n s
    unfold product
    split
    · rfl
    · exact saad_eq_rmerge A B hA hB s i j
  rw [key nt sort, key nt' sort']

/-- with `sort = true` the rows of the marker-based product are strictly increasing (complements `C08.saad_wf`,
`C08.saad_nodup`) -/
theorem saad_sorted (A B : CRS K) (hB : B.WF) : (spgemmSaad A B true).sortedb = true :=
  K2.saad_sorted A B hB

/-- **the two algorithms return the same STORED matrix** (`ptr`, `col`, `val` identical, explicit zeros included)
when the marker-based one sorts its rows and the right operand is row-sorted; `A` may have any row order and
duplicate columns. -/
theorem saad_sorted_eq_rmerge (A B : CRS K) (hA : A.WF) (hB : B.WF) (hBs : B.sortedb = true) :
    spgemmSaad A B true = spgemmRmerge A B :=
  K2.saad_sorted_eq_rmerge A B hA hB hBs

/-- hence `backend::product(A, B, sort = true)` is the same stored matrix for every thread count.  (With
`sort = false` only the denotation is thread-count independent, see `product_indep_threads`: the marker-based
algorithm leaves rows in first-touch order, the row-merge algorithm always produces sorted rows — example below.) -/
theorem product_sorted_indep_threads (nt nt' : Nat) (A B : CRS K) (hA : A.WF) (hB : B.WF) (hBs : B.sortedb = true) :
    product nt A B true = product nt' A B true := by
  have key : ∀ n, product n A B true = spgemmRmerge A B := by
    intro n
    unfold product
    split
    · rfl
    · exact saad_sorted_eq_rmerge A B hA hB hBs
  rw [key nt, key nt']

-- `sort = false`: same denotation, different stored order for 16 and 17 threads (sorted operands!)
example : (product 16 (⟨2, #[[(0, (1 : Int)), (1, 1)]]⟩ : CRS Int) ⟨2, #[[(1, 1)], [(0, 1)]]⟩ false).rows
      = #[[(1, 1), (0, 1)]] ∧
    (product 17 (⟨2, #[[(0, (1 : Int)), (1, 1)]]⟩ : CRS Int) ⟨2, #[[(1, 1)], [(0, 1)]]⟩ false).rows
      = #[[(0, 1), (1, 1)]] := by decide +kernel

-- non-vacuity: rectangular operands, unsorted `A` row with a duplicate column, sorted `B`, an empty row
example : (⟨3, #[[(2, (1 : Int)), (0, 2), (2, 3)], []]⟩ : CRS Int).WF ∧
    (⟨2, #[[(1, (5 : Int))], [], [(0, 1), (1, 7)]]⟩ : CRS Int).WF ∧
    (⟨2, #[[(1, (5 : Int))], [], [(0, 1), (1, 7)]]⟩ : CRS Int).sortedb = true := by decide
example : (spgemmRmerge (⟨3, #[[(2, (1 : Int)), (0, 2), (2, 3)], []]⟩ : CRS Int)
    ⟨2, #[[(1, 5)], [], [(0, 1), (1, 7)]]⟩).rows = #[[(0, 4), (1, 38)], []] := by decide +kernel

end rmerge

/-! ## row pointers -/
section ptr
variable {K : Type}

/-- the `ptr` array of every CRS value (in particular of the result of every kernel above) is non-decreasing,
starts at `0`, has `nrows + 1` entries, ends at `nnz`, and `ptr[i+1] - ptr[i]` is the width of row `i` -/
theorem ptr_monotone (A : CRS K) :
    A.ptr.Pairwise (· ≤ ·) ∧ A.ptr.head? = some 0 ∧ A.ptr.length = A.nrows + 1 ∧
    A.ptr.getLast? = some A.nnz ∧
    ∀ i, i < A.nrows → A.ptr.getD (i + 1) 0 = A.ptr.getD i 0 + (A.row i).length :=
  ⟨(K2.ptr_monotone A).1, (K2.ptr_monotone A).2.1, (K2.ptr_monotone A).2.2, ptr_last A, ptr_succ A⟩

/-- **CRS copy / convert constructors** (from index/value ranges, from another CRS, from any matrix type with a row
iterator): the row-by-row copy reproduces the stored matrix exactly — same shape, same rows in the same stored
order, hence the same `ptr` array, denotation and well-formedness. -/
theorem crs_copy_spec (A : CRS K) :
    crsCopy A = A ∧ (crsCopy A).ptr = A.ptr ∧ ((crsCopy A).WF ↔ A.WF) := by
  rw [crsCopy_eq]; exact ⟨rfl, rfl, Iff.rfl⟩

example : (crsCopy (⟨3, #[[(2, 'a'), (0, 'b'), (2, 'c')], []]⟩ : CRS Char)).rows
    = #[[(2, 'a'), (0, 'b'), (2, 'c')], []] := by decide +kernel

/-- `scan_row_sizes`: prefix sums of the widths — monotone, first entry `0`, last entry the total -/
theorem scanWidths_spec (ws : List Nat) :
    scanWidths ws = (List.range (ws.length + 1)).map (fun i => (ws.take i).sum) ∧
    (scanWidths ws).Pairwise (· ≤ ·) ∧ (scanWidths ws).head? = some 0 ∧
    (scanWidths ws).getLast? = some ws.sum :=
  ⟨K2.scanWidths_eq ws, K2.scanWidths_mono ws, K2.scanWidths_head ws, K2.scanWidths_last ws⟩

example : scanWidths [2, 0, 3] = [0, 2, 2, 5] := by decide

end ptr

/-! ## diagonal -/
section diag

/-- **`diagonal(A, invert)`**, structural part (any carrier): every entry is written (fix baae926); a row that stores
no diagonal entry gets the value of a zero diagonal (`0`, resp. the identity with `invert`), otherwise the FIRST stored
diagonal entry `v` is used: `v` itself, or with `invert` its inverse, where a zero diagonal is replaced by the identity. -/
theorem diagonal_first_entry {K : Type} [Zero K] [One K] [Inv K] [DecidableEq K] (A : CRS K) (invert : Bool)
    (i : Nat) (hi : i < A.nrows) :
    (i ∉ (A.row i).map (·.1) → (diagonal A invert).getD i none = some (if invert then 1 else 0)) ∧
    (∀ (pre post : Row K) (v : K), A.row i = pre ++ (i, v) :: post → i ∉ pre.map (·.1) →
      (diagonal A invert).getD i none = some (if invert then (if v = 0 then 1 else v⁻¹) else v)) ∧
    (diagonal A invert).size = A.nrows :=
  ⟨K2.diagonal_missing A invert i hi, fun pre post v h1 h2 => diagonal_first A invert i hi pre post v h1 h2,
    diagonal_size A invert⟩

/-- **`diagonal`**, denotational part (field): when row `i` stores exactly one diagonal entry the result is the
denoted `a_ii`, resp. `1/a_ii` with the zero → identity rule. -/
theorem diagonal_spec {K : Type} [Field K] [DecidableEq K] (A : CRS K) (i : Nat) (hi : i < A.nrows)
    (h1 : ((A.row i).filter (fun cv => decide (cv.1 = i))).length = 1) :
    (diagonal A false).getD i none = some (A.get i i) ∧
    (diagonal A true).getD i none = some (if A.get i i = 0 then 1 else (A.get i i)⁻¹) :=
  K2.diagonal_spec A i hi h1

example : diagonal (⟨2, #[[(1, (3 : Rat)), (0, 2)], [(0, 5)]]⟩ : CRS Rat) true = #[some (1 / 2), some 1] := by
  decide +kernel

end diag

/-! ## Gershgorin spectral-radius bound -/
section gershgorin

/-- **arithmetic core** (any linearly ordered field — the model is executed at `ℚ`, the eigenvalue theorems are
at `ℝ`): `absK` is the absolute value; `spectral_radius<false>(A, 0)` is the largest absolute row sum of the
stored entries (`0` for a matrix without rows): it dominates every row and is attained.  The fall-back
`if emax < 0 then 2` of the code is dead. -/
theorem gershgorin_is_max_rowsum {K : Type} [Field K] [LinearOrder K] [IsStrictOrderedRing K] (A : CRS K) :
    (∀ x : K, absK x = |x|) ∧
    (∀ i, i < A.nrows → ((A.row i).map (fun cv => |cv.2|)).sum ≤ gershgorin false A) ∧
    (0 < A.nrows → ∃ i, i < A.nrows ∧ gershgorin false A = ((A.row i).map (fun cv => |cv.2|)).sum) ∧
    (A.nrows = 0 → gershgorin false A = 0) ∧ 0 ≤ gershgorin false A :=
  ⟨absK_eq_abs, gershgorin_false_ge A, gershgorin_false_attained A, gershgorin_false_empty A,
    gershgorin_false_nonneg A⟩

/-- scaled variant: if every row stores exactly one diagonal entry, `spectral_radius<true>(A, 0)` is the largest
absolute row sum divided by `|a_ii|` (with `1/0 = 0`). -/
theorem gershgorin_scaled_is_max_rowsum {K : Type} [Field K] [LinearOrder K] [IsStrictOrderedRing K] (A : CRS K)
    (hdiag1 : ∀ i < A.nrows, ((A.row i).filter (fun cv => decide (cv.1 = i))).length = 1) :
    (∀ i, i < A.nrows → ((A.row i).map (fun cv => |cv.2|)).sum * |(A.get i i)⁻¹| ≤ gershgorin true A) ∧
    (0 < A.nrows → ∃ i, i < A.nrows ∧
      gershgorin true A = ((A.row i).map (fun cv => |cv.2|)).sum * |(A.get i i)⁻¹|) ∧
    (A.nrows = 0 → gershgorin true A = 0) := by
  have hdiag : ∀ i < A.nrows, i ∈ (A.row i).map (·.1) :=
    fun i hi => mem_cols_of_filter_length_one _ i (hdiag1 i hi)
  refine ⟨gershgorin_true_ge_get A hdiag1, ?_, gershgorin_true_empty A⟩
  intro h
  obtain ⟨i, hi, he⟩ := gershgorin_true_attained A hdiag h
  refine ⟨i, hi, ?_⟩
  rw [he, lastDiag_eq_get A i 1 (hdiag1 i hi)]; rfl

/-- **the Gershgorin estimate is an upper bound of the true spectral radius**: for a well-formed square real
matrix (any row order, duplicates allowed) every eigenvalue `μ` — real (`𝕜 = ℝ`) or complex (`𝕜 = ℂ`) — of the
denoted matrix satisfies `‖μ‖ ≤ spectral_radius<false>(A, 0)`. -/
theorem gershgorin_bound {𝕜 : Type} [RCLike 𝕜] (A : CRS ℝ) (hA : A.WF) (hsq : A.ncols = A.nrows) (μ : 𝕜)
    (hμ : Module.End.HasEigenvalue (Matrix.toLin' ((toMatrix A A.nrows).map (algebraMap ℝ 𝕜))) μ) :
    ‖μ‖ ≤ gershgorin false A :=
  K2.gershgorin_bound A hA hsq μ hμ

/-- scaled variant: with exactly one stored diagonal entry per row, every real or complex eigenvalue of `D⁻¹A`
(`toScaledMatrix`, entries `a_ii⁻¹ · a_ij`) satisfies `‖μ‖ ≤ spectral_radius<true>(A, 0)`. -/
theorem gershgorin_scaled_bound {𝕜 : Type} [RCLike 𝕜] (A : CRS ℝ) (hA : A.WF) (hsq : A.ncols = A.nrows)
    (hdiag1 : ∀ i < A.nrows, ((A.row i).filter (fun cv => decide (cv.1 = i))).length = 1) (μ : 𝕜)
    (hμ : Module.End.HasEigenvalue (Matrix.toLin' ((toScaledMatrix A A.nrows).map (algebraMap ℝ 𝕜))) μ) :
    ‖μ‖ ≤ gershgorin true A :=
  K2.gershgorin_scaled_bound A hA hsq hdiag1 μ hμ

-- non-vacuity: the value on a concrete rational matrix (unsorted row, negative entries) …
example : gershgorin false (⟨2, #[[(1, (-3 : Rat)), (0, 2)], [(1, 4)]]⟩ : CRS Rat) = 5 ∧
    gershgorin true (⟨2, #[[(1, (-3 : Rat)), (0, 2)], [(1, 4)]]⟩ : CRS Rat) = 5 / 2 := by decide +kernel

-- … and the hypotheses of the eigenvalue theorems are satisfiable: a real matrix with an explicit zero entry, one
-- stored diagonal entry per row, and actual eigenvalues of `A` (2) and of `D⁻¹A` (1)
example : ∃ (A : CRS ℝ) (μ ν : ℝ), A.WF ∧ A.ncols = A.nrows ∧
    (∀ i < A.nrows, ((A.row i).filter (fun cv => decide (cv.1 = i))).length = 1) ∧
    Module.End.HasEigenvalue (Matrix.toLin' ((toMatrix A A.nrows).map (algebraMap ℝ ℝ))) μ ∧
    Module.End.HasEigenvalue (Matrix.toLin' ((toScaledMatrix A A.nrows).map (algebraMap ℝ ℝ))) ν := by
  refine ⟨⟨2, #[[(0, 2)], [(1, 3), (0, 0)]]⟩, 2, 1, by decide, rfl, ?_, ?_, ?_⟩
  · intro i hi
    have : i = 0 ∨ i = 1 := by
      have : i < 2 := hi
      omega
    rcases this with rfl | rfl <;> simp [CRS.row]
  · show Module.End.HasEigenvalue (Matrix.toLin' ((toMatrix _ 2).map (algebraMap ℝ ℝ))) 2
    apply Module.End.hasEigenvalue_of_hasEigenvector (x := Pi.single 0 1)
    refine ⟨?_, fun h => by simpa using congrFun h 0⟩
    rw [Module.End.mem_eigenspace_iff, Matrix.toLin'_apply]
    funext i
    fin_cases i <;> simp [toMatrix, Matrix.mulVec, dotProduct, Fin.sum_univ_two, CRS.get, CRS.row, rowGet]
  · show Module.End.HasEigenvalue (Matrix.toLin' ((toScaledMatrix _ 2).map (algebraMap ℝ ℝ))) 1
    apply Module.End.hasEigenvalue_of_hasEigenvector (x := Pi.single 0 1)
    refine ⟨?_, fun h => by simpa using congrFun h 0⟩
    rw [Module.End.mem_eigenspace_iff, Matrix.toLin'_apply]
    funext i
    fin_cases i <;>
      simp [toScaledMatrix, Matrix.mulVec, dotProduct, Fin.sum_univ_two, CRS.get, CRS.row, rowGet]

end gershgorin

end Amgcl.C08b
