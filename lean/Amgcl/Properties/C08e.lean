import Amgcl.Proofs.PowerMethod
import Amgcl.Proofs.PowerMethodDiag
import Amgcl.Model.Rsqrt
/-!
# C08 / C06 — the power-method branch of `backend::spectral_radius<scale>(A, power_iters > 0)`

Model: `Model/PowerMethod.lean` (`powerMethod sqrt scaled A iters b0raw`, the start vector an input; tied to the code by the
exact ops `pm_radius` / `pm_cheb_apply` of `harness/h_power.cpp`, which replays the library's `std::mt19937`).  Facts that hold
for EVERY start vector, every matrix (any row order, duplicates, missing diagonals), every `sqrt` unless stated:

* `power_radius_nonneg`, `power_fallback_dead` — the returned value is `≥ 0`; the fall-back `radius < 0 ? 2` is dead;
* `power_radius_le_norm` — one pass: `radius² ≤ b1_norm · Σ b0_i²` (Cauchy–Schwarz), so for a unit `b0` the estimate is at most
  `‖(D⁻¹)A b0‖₂ ≤ σ_max`;
* `power_loop_last`, `power_loop_break`, `power_loop_step` — the three ways a pass ends; the guard of fix 714f66b
  (`b1_norm == 0 → break`) means a root is only ever taken of, and divided by, a NON-ZERO `b1_norm`, and
  `power_guard_returns_zero`: when `A·b0` vanishes (zero / nilpotent matrix) the result is `0` whatever `power_iters` is;
* `power_scale_invariant` — with an exact root, scaling the start vector by `t > 0` does not change the result;
* `power_diag_unit` — for a diagonal matrix started at `σ e_k` (`σ ≠ 0`) the result is `|a_kk|` (`scale = false`, `sqrt` exact on
  squares), for every `power_iters ≥ 1`.

The identification of the limit with the spectral radius (convergence of the power method) is not claimed.
Helper lemmas: `Proofs/PowerMethod.lean`, `Proofs/PowerMethodDiag.lean`.
-/
namespace Amgcl.C08e
open Amgcl

variable {K : Type} [Field K] [LinearOrder K] [IsStrictOrderedRing K]

/-- the fall-back `return radius < 0 ? 2 : radius` never fires: the result is the value the loop leaves -/
theorem power_fallback_dead (sqrt : K → K) (scaled : Bool) (A : CRS K) (iters : Nat) (b0 : Vec K) :
    powerMethod sqrt scaled A iters b0
      = pmLoop sqrt scaled A iters (pmScale (1 / sqrt (0 + pmNormSq b0)) b0) 0 := by
  unfold powerMethod
  simp only
  rw [if_neg (not_lt.2 (PM.pmLoop_nonneg sqrt scaled A iters _ 0 le_rfl))]

/-- **the returned value is non-negative**, for every start vector, matrix, iteration count and every function `sqrt` -/
theorem power_radius_nonneg (sqrt : K → K) (scaled : Bool) (A : CRS K) (iters : Nat) (b0 : Vec K) :
    0 ≤ powerMethod sqrt scaled A iters b0 := by
  rw [power_fallback_dead]; exact PM.pmLoop_nonneg sqrt scaled A iters _ 0 le_rfl

example : powerMethod rsqrt true (⟨2, #[[(0, 2), (1, -1)], [(1, 2), (0, -1)]]⟩ : CRS Rat) 2 #[1, 0]
    = 32281802128991715328/23058430087361619889 := by
  decide +kernel

/-- **one pass, Cauchy–Schwarz**: `radius = Σ_i |s_i b0_i|`, `b1_norm = Σ_i s_i²` satisfy
`radius² ≤ b1_norm · Σ_i b0_i²`; `s = (D⁻¹)A b0` is whatever the row loop computed -/
theorem power_radius_le_norm (scaled : Bool) (A : CRS K) (b0 : Vec K) :
    (pmSweep scaled A b0).2.2 ^ 2 ≤ (pmSweep scaled A b0).2.1 * ∑ i ∈ Finset.range A.nrows, (b0.getD i 0) ^ 2 := by
  rw [PM.pmSweep_radius, PM.pmSweep_norm]
  have h := Finset.sum_mul_sq_le_sq_mul_sq (Finset.range A.nrows) (fun i => |PM.sAt scaled A b0 i|) (fun i => |b0.getD i 0|)
  simpa [sq_abs] using h

/-- … hence for a start vector of norm at most one the estimate of a pass is at most `‖s‖₂` -/
theorem power_radius_le_norm_unit (scaled : Bool) (A : CRS K) (b0 : Vec K)
    (hunit : ∑ i ∈ Finset.range A.nrows, (b0.getD i 0) ^ 2 ≤ 1) :
    (pmSweep scaled A b0).2.2 ^ 2 ≤ (pmSweep scaled A b0).2.1 := by
  have hn : 0 ≤ (pmSweep scaled A b0).2.1 := by
    rw [PM.pmSweep_norm]; exact Finset.sum_nonneg fun i _ => sq_nonneg _
  calc (pmSweep scaled A b0).2.2 ^ 2 ≤ _ := power_radius_le_norm scaled A b0
    _ ≤ (pmSweep scaled A b0).2.1 * 1 := mul_le_mul_of_nonneg_left hunit hn
    _ = _ := mul_one _

example : (pmSweep false (⟨2, #[[(0, 2), (1, -1)], [(1, 2), (0, -1)]]⟩ : CRS Rat) #[3/5, -4/5]).2.2 = 74/25 ∧
    (pmSweep false (⟨2, #[[(0, 2), (1, -1)], [(1, 2), (0, -1)]]⟩ : CRS Rat) #[3/5, -4/5]).2.1 = 221/25 := by
  decide +kernel

/-! ## how a pass ends: last pass, the guard, or normalise and continue -/

/-- last pass (`++iter == power_iters`): the radius of this pass is returned, no root is taken -/
theorem power_loop_last (sqrt : K → K) (scaled : Bool) (A : CRS K) (b0 : Vec K) (r : K) :
    pmLoop sqrt scaled A 1 b0 r = (pmSweep scaled A b0).2.2 := by
  unfold pmLoop; simp

/-- the guard of fix 714f66b: `b1_norm == 0` ends the loop with the radius of this pass, which is `0` — whatever the number
of remaining passes, and without evaluating `1 / sqrt(0)` -/
theorem power_loop_break (sqrt : K → K) (scaled : Bool) (A : CRS K) (rem : Nat) (b0 : Vec K) (r : K)
    (h : (pmSweep scaled A b0).2.1 = 0) :
    pmLoop sqrt scaled A (rem + 1) b0 r = (pmSweep scaled A b0).2.2 ∧ (pmSweep scaled A b0).2.2 = 0 := by
  refine ⟨?_, PM.pmSweep_radius_zero_of_norm_zero scaled A b0 h⟩
  unfold pmLoop
  simp only [h, if_true]
  split <;> rfl

/-- otherwise the next pass starts from `b1 / sqrt(b1_norm)` with `b1_norm ≠ 0`: the only root / division of the loop -/
theorem power_loop_step (sqrt : K → K) (scaled : Bool) (A : CRS K) (rem : Nat) (b0 : Vec K) (r : K)
    (h : (pmSweep scaled A b0).2.1 ≠ 0) :
    pmLoop sqrt scaled A (rem + 2) b0 r
      = pmLoop sqrt scaled A (rem + 1) (pmScale (1 / sqrt (pmSweep scaled A b0).2.1) (pmSweep scaled A b0).1)
          (pmSweep scaled A b0).2.2 := by
  conv_lhs => unfold pmLoop
  simp only [Nat.succ_ne_zero, if_false, h]

/-- **`A·b0 = 0` (zero or nilpotent matrix hit its kernel): the result is `0`** for every `power_iters ≥ 1` -/
theorem power_guard_returns_zero (sqrt : K → K) (scaled : Bool) (A : CRS K) (iters : Nat) (b0 : Vec K)
    (h : (pmSweep scaled A (pmScale (1 / sqrt (0 + pmNormSq b0)) b0)).2.1 = 0) :
    powerMethod sqrt scaled A (iters + 1) b0 = 0 := by
  rw [power_fallback_dead]
  obtain ⟨h1, h2⟩ := power_loop_break sqrt scaled A iters _ 0 h
  rw [h1, h2]

-- the nilpotent matrix [[0,1],[0,0]]: the second pass computes `A·b0 = 0`; the guard stops there (3 more passes were asked for)
example : powerMethod rsqrt false (⟨2, #[[(1, 1)], []]⟩ : CRS Rat) 5 #[3/5, 4/5] = 0 := by decide +kernel
example : (pmSweep false (⟨2, #[[(1, (1 : Rat))], []]⟩ : CRS Rat) #[1, 0]).2.1 = 0 := by decide +kernel

/-! ## invariance under positive scaling of the start vector -/

/-- with an exact root (`sqrt x ≥ 0`, `sqrt x · sqrt x = x` for `x ≥ 0`) the result does not depend on the length of the
start vector: `b0` and `t·b0`, `t > 0`, are normalised to the same vector -/
theorem power_scale_invariant (sqrt : K → K) (hs : ∀ x, 0 ≤ x → 0 ≤ sqrt x ∧ sqrt x * sqrt x = x)
    (scaled : Bool) (A : CRS K) (iters : Nat) (b0 : Vec K) (t : K) (ht : 0 < t) :
    powerMethod sqrt scaled A iters (pmScale t b0) = powerMethod sqrt scaled A iters b0 := by
  rw [power_fallback_dead, power_fallback_dead, PM.pmScale_scale, PM.pmNormSq_scale]
  congr 2
  have hN := PM.pmNormSq_nonneg b0
  simp only [zero_add]
  obtain ⟨h1, h2⟩ := hs _ hN
  obtain ⟨h3, h4⟩ := hs (t * t * pmNormSq b0) (mul_nonneg (mul_self_nonneg t) hN)
  have hroot : sqrt (t * t * pmNormSq b0) = t * sqrt (pmNormSq b0) := by
    have hsq : sqrt (t * t * pmNormSq b0) * sqrt (t * t * pmNormSq b0)
        = (t * sqrt (pmNormSq b0)) * (t * sqrt (pmNormSq b0)) := by
      rw [h4]
      calc t * t * pmNormSq b0 = t * t * (sqrt (pmNormSq b0) * sqrt (pmNormSq b0)) := by rw [h2]
        _ = _ := by ring
    exact (mul_self_inj h3 (mul_nonneg ht.le h1)).1 hsq
  rw [hroot]
  by_cases h0 : sqrt (pmNormSq b0) = 0
  · rw [h0]; simp
  · field_simp

example : powerMethod (fun x : Rat => if x = 4 then 2 else if x = 1 then 1 else 0) false
      (⟨2, #[[(0, 2), (1, -1)], [(1, 2), (0, -1)]]⟩ : CRS Rat) 1 (pmScale 2 #[1, 0])
    = powerMethod (fun x : Rat => if x = 4 then 2 else if x = 1 then 1 else 0) false
      (⟨2, #[[(0, 2), (1, -1)], [(1, 2), (0, -1)]]⟩ : CRS Rat) 1 #[1, 0] := by decide +kernel

/-! ## diagonal matrices -/

/-- **diagonal matrix started at a multiple of a unit vector**: `A = diag(d_0, …, d_{n-1})` (each row stores exactly its
diagonal entry), `b0 = σ e_k`, `σ ≠ 0`, `scale = false`, `sqrt` exact on squares (`sqrt (x·x) = |x|`): the result is `|d_k|`
for every `power_iters ≥ 1` (also when `d_k = 0`: the guard) -/
theorem power_diag_unit (sqrt : K → K) (hsq : ∀ x : K, sqrt (x * x) = |x|) (A : CRS K) (d : Nat → K)
    (hdiag : ∀ i, i < A.nrows → A.row i = [(i, d i)]) (k : Nat) (hk : k < A.nrows) (iters : Nat) (σ : K) (hσ : σ ≠ 0) :
    powerMethod sqrt false A (iters + 1) (PM.unitVec A.nrows k σ) = |d k| := by
  rw [power_fallback_dead, PM.pmNormSq_unitVec _ _ hk, zero_add, hsq, PM.pmScale_unitVec]
  refine PM.pmLoop_diag sqrt hsq A d hdiag k hk iters _ ?_ 0
  rw [abs_mul, abs_div, abs_one, abs_abs, one_div, inv_mul_cancel₀ (abs_ne_zero.2 hσ)]

-- `rsqrt` is exact on 1: diag(3, -7/2) started at e_1, four passes
example : powerMethod rsqrt false (⟨2, #[[(0, 3)], [(1, -7/2)]]⟩ : CRS Rat) 4 #[0, 1] = 7/2 := by decide +kernel

end Amgcl.C08e
