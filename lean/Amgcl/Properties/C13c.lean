import Amgcl.Model.AsScalar
import Amgcl.Properties.C13
import Amgcl.Proofs.KernelsSort
/-!
# C13 (part c) — `coarsening::as_scalar`: the block transfer operators ARE the base's scalar ones

`as_scalar_transfer_unblock`: when the base coarsening returns well-formed `P`, `R` without duplicate columns whose
dimensions are multiples of the block size (pointwise aggregation with `block_size = b` guarantees that), the wrapper
succeeds, and unblocking its block-valued `P`, `R` gives matrices with the shape and EVERY ENTRY of the base's — so every
entrywise statement about the base's transfer operators (`R = Pᵀ`, partition of unity, …) holds for the scalar expansion
of the wrapper's.  `as_scalar_transfer_precondition`: a coarse dimension that is not a multiple of `b` is rejected.
`as_scalar_coarse_forward`: the coarse operator is the base's (scaling included), by definition of the forwarding.
The per-level identity `A_{l+1} = (1/over_interp)·R·A·P` in the scalar expansion additionally needs "block Galerkin
commutes with unblock", which is checked exactly per input by `harness/h_blevels.cpp` (not proved).
-/
namespace Amgcl.C13c
open Amgcl Amgcl.Adapters Amgcl.K2 Amgcl.AsScalar

variable {K : Type}

theorem sortRows_get [AddCommMonoid K] (A : CRS K) (i j : Nat) : (sortRows A).get i j = A.get i j := by
  unfold CRS.get; rw [sortRows_row]; exact sortRow_get _ _

theorem as_scalar_transfer_unblock [AddCommMonoid K] (b : Nat) (hb : 0 < b)
    (baseTransfer : CRS K → Option (CRS K × CRS K)) (B : CRS (Blk K)) (P R : CRS K)
    (hbase : baseTransfer (unblock b B) = some (P, R))
    (hP : P.WF) (hR : R.WF) (hPn : P.nodupb = true) (hRn : R.nodupb = true)
    (hPr : P.nrows % b = 0) (hPc : P.ncols % b = 0) (hRr : R.nrows % b = 0) (hRc : R.ncols % b = 0) :
    ∃ Pb Rb, transferOperators b baseTransfer B = some (.ok (Pb, Rb)) ∧
      (unblock b Pb).nrows = P.nrows ∧ (unblock b Pb).ncols = P.ncols ∧
      (unblock b Rb).nrows = R.nrows ∧ (unblock b Rb).ncols = R.ncols ∧
      (∀ i j, (unblock b Pb).get i j = P.get i j) ∧ (∀ i j, (unblock b Rb).get i j = R.get i j) := by
  obtain ⟨Pb, hPb, _, _, _, _, _, hPnr, hPnc, hPg⟩ :=
    C13.unblock_block_id b hb (sortRows P) (sortRows_wf P hP) (sortRows_sortedb P hPn)
      (by rw [sortRows_nrows]; exact hPr) (by rw [sortRows_ncols]; exact hPc)
  obtain ⟨Rb, hRb, _, _, _, _, _, hRnr, hRnc, hRg⟩ :=
    C13.unblock_block_id b hb (sortRows R) (sortRows_wf R hR) (sortRows_sortedb R hRn)
      (by rw [sortRows_nrows]; exact hRr) (by rw [sortRows_ncols]; exact hRc)
  refine ⟨Pb, Rb, ?_, ?_, ?_, ?_, ?_, ?_, ?_⟩
  · unfold transferOperators; rw [hbase]; simp only [hPb, hRb]
  · rw [hPnr, sortRows_nrows]
  · rw [hPnc, sortRows_ncols]
  · rw [hRnr, sortRows_nrows]
  · rw [hRnc, sortRows_ncols]
  · intro i j; rw [hPg, sortRows_get]
  · intro i j; rw [hRg, sortRows_get]

/-- R = Pᵀ entrywise transfers from the base to the scalar expansion of the wrapper's operators -/
theorem as_scalar_R_adjoint [AddCommMonoid K] (b : Nat) (hb : 0 < b)
    (baseTransfer : CRS K → Option (CRS K × CRS K)) (B : CRS (Blk K)) (P R : CRS K)
    (hbase : baseTransfer (unblock b B) = some (P, R))
    (hP : P.WF) (hR : R.WF) (hPn : P.nodupb = true) (hRn : R.nodupb = true)
    (hPr : P.nrows % b = 0) (hPc : P.ncols % b = 0) (hRr : R.nrows % b = 0) (hRc : R.ncols % b = 0)
    (hT : ∀ i j, R.get i j = P.get j i) :
    ∃ Pb Rb, transferOperators b baseTransfer B = some (.ok (Pb, Rb)) ∧
      ∀ i j, (unblock b Rb).get i j = (unblock b Pb).get j i := by
  obtain ⟨Pb, Rb, h, _, _, _, _, hPg, hRg⟩ :=
    as_scalar_transfer_unblock b hb baseTransfer B P R hbase hP hR hPn hRn hPr hPc hRr hRc
  exact ⟨Pb, Rb, h, fun i j => by rw [hRg, hPg, hT]⟩

theorem as_scalar_transfer_precondition [AddCommMonoid K] (b : Nat)
    (baseTransfer : CRS K → Option (CRS K × CRS K)) (B : CRS (Blk K)) (P R : CRS K)
    (hbase : baseTransfer (unblock b B) = some (P, R)) (h : P.nrows % b ≠ 0 ∨ P.ncols % b ≠ 0) :
    transferOperators b baseTransfer B = some .precondition := by
  have hp : blockMatrix b (sortRows P) = .precondition :=
    C13.block_adapter_precondition b (sortRows P) (by rw [sortRows_nrows, sortRows_ncols]; exact h)
  unfold transferOperators; rw [hbase]; simp only [hp]

theorem as_scalar_coarse_forward {M : Type} (baseCoarse : M → M → M → M) (A P R : M) :
    coarseOperator baseCoarse A P R = baseCoarse A P R := rfl

/-- non-vacuity: a 2×2 scalar identity as one 2×2 block; the base returns P = R = the 2×2 identity -/
example :
    let I2 : CRS Int := ⟨2, #[[(0, 1)], [(1, 1)]]⟩
    let B : CRS (Blk Int) := ⟨1, #[[(0, #[1, 0, 0, 1])]]⟩
    ∃ Pb Rb, transferOperators 2 (fun _ => some (I2, I2)) B = some (.ok (Pb, Rb)) ∧
      (∀ i j, (unblock 2 Pb).get i j = I2.get i j) ∧ (∀ i j, (unblock 2 Rb).get i j = I2.get i j) := by
  intro I2 B
  obtain ⟨Pb, Rb, h, _, _, _, _, hP, hR⟩ :=
    as_scalar_transfer_unblock 2 (by decide) (fun _ => some (I2, I2)) B I2 I2 rfl (by decide) (by decide) (by decide)
      (by decide) (by decide) (by decide) (by decide) (by decide)
  exact ⟨Pb, Rb, h, hP, hR⟩

/-- non-vacuity of `as_scalar_R_adjoint`: the hypothesis `R = Pᵀ` holds for P = R = diag(1, 1) -/
example :
    let I2 : CRS Int := ⟨2, #[[(0, 1)], [(1, 1)]]⟩
    ∀ i j, I2.get i j = I2.get j i := by
  intro I2 i j
  have key : ∀ a c, I2.get a c = if a = c ∧ a < 2 then 1 else 0 := by
    intro a c
    match a with
    | 0 => by_cases h : c = 0 <;> simp [CRS.get, CRS.row, rowGet, I2, h, eq_comm]
    | 1 => by_cases h : c = 1 <;> simp [CRS.get, CRS.row, rowGet, I2, h, eq_comm]
    | (n + 2) => simp [CRS.get, CRS.row, rowGet, I2]
  rw [key, key]
  by_cases h : i = j
  · subst h; rfl
  · have h' : ¬ j = i := fun e => h e.symm
    simp [h, h']

/-- a coarse dimension that is not a multiple of the block size: `precondition` -/
example :
    let P3 : CRS Int := ⟨3, #[[(0, 1)], [(1, 1)]]⟩
    let B : CRS (Blk Int) := ⟨1, #[[(0, #[1, 0, 0, 1])]]⟩
    transferOperators 2 (fun _ => some (P3, P3)) B = some .precondition :=
  as_scalar_transfer_precondition 2 _ _ _ _ rfl (Or.inr (by decide))

end Amgcl.C13c
