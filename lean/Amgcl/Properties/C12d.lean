import Amgcl.Proofs.DistSetupChecks
import Amgcl.Properties.C04
/-!
# C12 (continued) — the SETUP phase of the distributed hierarchy: what a `true` verdict of the certificate predicates means

`mpi::coarsening::pmis` / `aggregation` / `smoothed_aggregation` (distributed PMIS aggregation, removal of vanished
aggregates, tentative prolongation with near-null-space vectors across ranks, pointwise variant, distributed Galerkin
product) are V-grade: `harness/h_mpi_setup.cpp` runs the real code on `np = 1..8` ranks, gathers `T` (tentative
prolongation), `P`, `R`, `A_c`, `B_c` into global matrices and `Driver/DistSetup.lean` evaluates the executable
predicates of `Model/DistSetupChecks.lean` on them for every explored input.  The theorems below state what a `true`
verdict implies, for every field / ordered ring of values (in particular for the exact rational values of the
binary64 numbers the driver is run on):

* `dist_aggregates_global_partition` — the aggregates of all ranks form ONE partition of the non-isolated unknowns:
  every stored entry of a row of `T` lies in the column block of the row's aggregate (an unknown is in at most one
  aggregate, the column supports of different aggregates are disjoint: `dist_aggregates_supports_disjoint`), the
  unknowns of a point travel together, every aggregate has a member (no empty aggregate, the numbering is contiguous
  on every rank), and an unknown outside every aggregate has no strong connection on any rank;
* `dist_unit_prolongation` — without near-null space an aggregated row is one unit entry;
* `dist_nullspace_reproduced`, `dist_prolongation_orthonormal` — `T · B_c = B` on aggregated rows, `Tᵀ T = I`, up to
  the stated tolerance;
* `dist_coarse_is_galerkin` — with `R = Pᵀ` (checked entrywise) the coarse operator is `s · Pᵀ A P` entry by entry
  (`dist_coarse_is_galerkin_exact` for the tolerance 0 used on dyadic data);
* `sa_prolongation_formula` — the smoothed prolongation is `(I − ω D_f⁻¹ A_f) T` entry by entry up to the tolerance.

`renumber_*` (below): the faithful model `Model/DistRenumber.lean` of the renumbering step pmis.hpp:628-703 leaves on
every rank the aggregate numbers `0 .. naggr'-1`, each with a member.

Level: translation validation (the predicates are evaluated on explored inputs; IEEE rounding is covered by the
tolerance `2^-30`, or excluded on dyadic data where every operation is exact).
-/
set_option linter.unusedSectionVars false
namespace Amgcl.C12
open Amgcl Amgcl.DistSetup Amgcl.Coarsening Finset

section partition
variable {K : Type} [CommRing K] [LinearOrder K] [IsStrictOrderedRing K]

/-- **global partition.**  `w = aggWidth bs cols` is the number of columns of one aggregate. -/
theorem dist_aggregates_global_partition (bs cols : Nat) (eps2 : K) (S T : CRS K)
    (hs : tentShape bs cols T = true) (hn : noEmptyAgg bs cols T = true) (hi : isolatedOk eps2 bs S T = true) :
    T.WF ∧
    (∀ i, i < T.nrows → ∀ cv ∈ T.row i, rowAgg (aggWidth bs cols) (T.row i) = some (cv.1 / aggWidth bs cols)) ∧
    (∀ p, p < T.nrows / bs → ∀ k, k < bs →
      rowAgg (aggWidth bs cols) (T.row (p * bs + k)) = rowAgg (aggWidth bs cols) (T.row (p * bs))) ∧
    (∀ a, a < T.ncols / aggWidth bs cols → ∃ i, i < T.nrows ∧ rowAgg (aggWidth bs cols) (T.row i) = some a) ∧
    (∀ p, p < S.nrows → (∃ cv ∈ S.row p, cv.1 ≠ p ∧ eps2 * diagOf S p * diagOf S cv.1 < cv.2 * cv.2) →
      T.row (p * bs) ≠ []) := by
  obtain ⟨hwf, _, _, _, hrows, hpts⟩ := tentShape_parts bs cols T hs
  refine ⟨wf_of_wfb T hwf, fun i hi' cv hcv => rowShape_block bs cols i (T.row i) (hrows i hi') cv hcv,
    fun p hp k hk => ?_, noEmptyAgg_sound bs cols T hn, fun p hp ⟨cv, hcv, hne, hlt⟩ hempty => ?_⟩
  · have := all_range (hpts p hp) k hk
    simpa using this
  · exact isolatedOk_sound eps2 bs S T hi p hp hempty cv hcv hne hlt

example : tentShape 1 0 (⟨2, #[[(0,1)],[(0,1)],[(1,1)],[]]⟩ : CRS Int) = true ∧
    noEmptyAgg 1 0 (⟨2, #[[(0,1)],[(0,1)],[(1,1)],[]]⟩ : CRS Int) = true ∧
    isolatedOk (0 : Int) 1 ⟨4, #[[(0,2),(1,-1)],[(0,-1),(1,2),(2,-1)],[(1,-1),(2,2)],[(3,2)]]⟩
      ⟨2, #[[(0,1)],[(0,1)],[(1,1)],[]]⟩ = true := by decide +kernel

/-- the column supports of different aggregates are disjoint: two non-zero entries of a row belong to one block -/
theorem dist_aggregates_supports_disjoint (bs cols : Nat) (T : CRS K) (hs : tentShape bs cols T = true)
    (i c c' : Nat) (hi : i < T.nrows) (hc : T.get i c ≠ 0) (hc' : T.get i c' ≠ 0) :
    c / aggWidth bs cols = c' / aggWidth bs cols := by
  obtain ⟨_, _, _, _, hrows, _⟩ := tentShape_parts bs cols T hs
  have mem : ∀ d, T.get i d ≠ 0 → ∃ cv ∈ T.row i, cv.1 = d := by
    intro d hd
    by_contra hcon
    apply hd
    apply rowGet_zero_of_ne
    intro cv hcv heq
    exact hcon ⟨cv, hcv, heq⟩
  obtain ⟨cv, hcv, rfl⟩ := mem c hc
  obtain ⟨cv', hcv', rfl⟩ := mem c' hc'
  have h1 := rowShape_block bs cols i (T.row i) (hrows i hi) cv hcv
  have h2 := rowShape_block bs cols i (T.row i) (hrows i hi) cv' hcv'
  rw [h1] at h2
  exact Option.some.inj h2

example : (⟨4, #[[(0,(3:Int)),(1,4)],[(2,1),(3,0)]]⟩ : CRS Int).get 0 1 ≠ 0 ∧
    tentShape 1 2 (⟨4, #[[(0,(3:Int)),(1,4)],[(2,1),(3,0)]]⟩ : CRS Int) = true := by decide +kernel

/-- without near-null space an aggregated unknown has ONE unit entry, in the column of its aggregate that belongs to
its position inside the point -/
theorem dist_unit_prolongation (bs : Nat) (T : CRS K) (hs : tentShape bs 0 T = true) (i : Nat) (hi : i < T.nrows)
    (hne : T.row i ≠ []) : ∃ c, T.row i = [(c, 1)] ∧ c % bs = i % bs ∧ ∀ j, T.get i j = if c = j then 1 else 0 := by
  obtain ⟨_, _, _, _, hrows, _⟩ := tentShape_parts bs 0 T hs
  obtain ⟨c, hrow, hmod⟩ := rowShape_unit bs i (T.row i) (hrows i hi) hne
  refine ⟨c, hrow, hmod, fun j => ?_⟩
  unfold CRS.get
  rw [hrow]
  simp [rowGet]

example : tentShape 2 0 (⟨2, #[[(0,(1:Int))],[(1,1)],[],[]]⟩ : CRS Int) = true := by decide +kernel

end partition

section nullspace
variable {K : Type} [CommRing K] [LinearOrder K] [IsStrictOrderedRing K]

theorem aggFlags_size (T : CRS K) : (aggFlags T).size = T.nrows := by simp [aggFlags]

theorem aggFlags_getD (T : CRS K) (i : Nat) (hi : i < T.nrows) :
    (aggFlags T).getD i (-1) = if (T.row i).isEmpty then -1 else 0 := by
  simp [aggFlags, Array.getD_eq_getD_getElem?, hi]

/-- `T · B_c = B` on every aggregated row, up to `tol` (near-null space reproduced across rank boundaries: `T`, `B_c`
are the gathered outputs of all ranks, `B` the concatenation of the vectors handed to the ranks) -/
theorem dist_nullspace_reproduced (tol : K) (cols : Nat) (T : CRS K) (hT : T.WF) (Bc B : Array K)
    (h : reproducesB tol cols (aggFlags T) T Bc B = true) :
    ∀ i, i < T.nrows → T.row i ≠ [] → ∀ k, k < cols →
      -tol ≤ (∑ c ∈ range T.ncols, T.get i c * Bc.getD (c * cols + k) 0) - B.getD (i * cols + k) 0 ∧
      (∑ c ∈ range T.ncols, T.get i c * Bc.getD (c * cols + k) 0) - B.getD (i * cols + k) 0 ≤ tol := by
  intro i hi hne k hk
  have h0 : 0 ≤ (aggFlags T).getD i (-1) := by
    rw [aggFlags_getD T i hi]
    have : (T.row i).isEmpty = false := by
      cases hr : T.row i with
      | nil => exact absurd hr hne
      | cons _ _ => rfl
    simp [this]
  exact C04.reproducesB_sound tol cols (aggFlags T) T hT Bc B h i (by rw [aggFlags_size]; exact hi) h0 k hk

/-- `Tᵀ T = I` up to `tol` -/
theorem dist_prolongation_orthonormal (tol : K) (T : CRS K) (h : orthonormalCols tol T = true) :
    ∀ c c', c < T.ncols → c' < T.ncols →
      -tol ≤ (∑ i ∈ range T.nrows, T.get i c * T.get i c') - (if c = c' then 1 else 0) ∧
      (∑ i ∈ range T.nrows, T.get i c * T.get i c') - (if c = c' then 1 else 0) ≤ tol :=
  C04.orthonormalCols_sound tol T h

example : reproducesB (0 : Int) 1 (aggFlags (⟨1, #[[(0,1)],[(0,1)],[]]⟩ : CRS Int)) ⟨1, #[[(0,1)],[(0,1)],[]]⟩ #[5] #[5,5,7] = true ∧
    orthonormalCols (0 : Int) ⟨2, #[[(0,1)],[(1,1)]]⟩ = true := by decide +kernel

end nullspace

section galerkin
variable {K : Type} [CommRing K] [LinearOrder K] [IsStrictOrderedRing K]

/-- **Galerkin.**  With `R = Pᵀ` (entrywise) the gathered coarse operator of the distributed hierarchy is
`s · Pᵀ A P` entry by entry, up to `rel · galerkinScale`. -/
theorem dist_coarse_is_galerkin (rel s : K) (R A P Ac : CRS K)
    (hg : isGalerkin rel s R A P Ac = true) (ht : isTranspose R P = true) (hRA : R.ncols = A.nrows) :
    Ac.nrows = P.ncols ∧ Ac.ncols = P.ncols ∧
    ∀ i, i < P.ncols → ∀ j, j < P.ncols →
      -(rel * galerkinScale s R A P) ≤
        Ac.get i j - s * ∑ l ∈ range A.ncols, (∑ k ∈ range A.nrows, P.get k i * A.get k l) * P.get l j ∧
      Ac.get i j - s * ∑ l ∈ range A.ncols, (∑ k ∈ range A.nrows, P.get k i * A.get k l) * P.get l j
        ≤ rel * galerkinScale s R A P := by
  obtain ⟨hn, hm, hall⟩ := isGalerkin_sound rel s R A P Ac hg
  obtain ⟨t1, _, t3⟩ := isTranspose_sound R P ht
  refine ⟨by rw [hn, t1], hm, fun i hi j hj => ?_⟩
  have h1 := hall i (by rw [t1]; exact hi) j hj
  have hsum : ∑ l ∈ range A.ncols, (∑ k ∈ range A.nrows, R.get i k * A.get k l) * P.get l j
      = ∑ l ∈ range A.ncols, (∑ k ∈ range A.nrows, P.get k i * A.get k l) * P.get l j := by
    apply sum_congr rfl; intro l _
    congr 1
    apply sum_congr rfl; intro k hk
    rw [t3 i (by rw [t1]; exact hi) k (by rw [hRA]; exact mem_range.1 hk)]
  rw [hsum] at h1
  exact h1

/-- exact form (tolerance 0: dyadic data, every operation of the distributed product exact) -/
theorem dist_coarse_is_galerkin_exact (s : K) (R A P Ac : CRS K)
    (hg : isGalerkin 0 s R A P Ac = true) (ht : isTranspose R P = true) (hRA : R.ncols = A.nrows) :
    ∀ i, i < P.ncols → ∀ j, j < P.ncols →
      Ac.get i j = s * ∑ l ∈ range A.ncols, (∑ k ∈ range A.nrows, P.get k i * A.get k l) * P.get l j := by
  intro i hi j hj
  obtain ⟨_, _, h⟩ := dist_coarse_is_galerkin 0 s R A P Ac hg ht hRA
  have := h i hi j hj
  simp only [zero_mul, neg_zero] at this
  linarith [this.1, this.2]

-- 1-D Laplacian on 4 unknowns, aggregates {0,1}, {2,3}: A_c = Pᵀ A P = [[2,-1],[-1,2]]
example : isGalerkin (0 : Int) 1 ⟨4, #[[(0,1),(1,1)],[(2,1),(3,1)]]⟩
      ⟨4, #[[(0,2),(1,-1)],[(0,-1),(1,2),(2,-1)],[(1,-1),(2,2),(3,-1)],[(2,-1),(3,2)]]⟩
      ⟨2, #[[(0,1)],[(0,1)],[(1,1)],[(1,1)]]⟩ ⟨2, #[[(0,2),(1,-1)],[(0,-1),(1,2)]]⟩ = true ∧
    isTranspose (⟨4, #[[(0,1),(1,1)],[(2,1),(3,1)]]⟩ : CRS Int) ⟨2, #[[(0,1)],[(0,1)],[(1,1)],[(1,1)]]⟩ = true := by
  decide +kernel

end galerkin

section sa
variable {K : Type} [Field K] [LinearOrder K] [IsStrictOrderedRing K]

/-- the smoothed prolongation is `(I − ω D_f⁻¹ A_f) T` (`saExpected`: filtered matrix of
`mpi/coarsening/smoothed_aggregation.hpp`, weak entries lumped into the diagonal, on whichever rank they live) -/
theorem sa_prolongation_formula (rel omega eps2 : K) (bs : Nat) (S A T P : CRS K)
    (h : saCheck rel omega eps2 bs S A T P = true) :
    P.nrows = A.nrows ∧ P.ncols = T.ncols ∧ ∀ i, i < A.nrows → ∀ c, c < T.ncols →
      -(rel * saScale omega eps2 bs S A T) ≤ P.get i c - saExpected omega eps2 bs S A T i c ∧
      P.get i c - saExpected omega eps2 bs S A T i c ≤ rel * saScale omega eps2 bs S A T := by
  unfold saCheck at h
  simp only [Bool.and_eq_true, beq_iff_eq] at h
  obtain ⟨⟨⟨⟨⟨_, _⟩, h3⟩, _⟩, h5⟩, h6⟩ := h
  exact ⟨h3, h5, fun i hi c hc => (within_iff _ _).1 (all_range (all_range h6 i hi) c hc)⟩

-- 2 unknowns, both strongly coupled, ω = 1/2: P = (I − ω D⁻¹ A_offdiag) T
example : saCheck (0 : ℚ) (1/2) 0 1 ⟨2, #[[(0,2),(1,-1)],[(0,-1),(1,2)]]⟩ ⟨2, #[[(0,2),(1,-1)],[(0,-1),(1,2)]]⟩
    ⟨1, #[[(0,1)],[(0,1)]]⟩ ⟨1, #[[(0,3/4)],[(0,3/4)]]⟩ = true := by decide +kernel

end sa

end Amgcl.C12
