import Amgcl.Proofs.DistSetupChecks
import Amgcl.Proofs.DistRenumber
import Amgcl.Properties.C04
/-!
# C12 (continued) — the SETUP phase of the distributed hierarchy: what a `true` verdict of the certificate predicates means

`mpi::coarsening::pmis` / `aggregation` / `smoothed_aggregation` (distributed PMIS aggregation, removal of vanished
aggregates, tentative prolongation with near-null-space vectors across ranks, pointwise variant, distributed Galerkin
product) are V-grade: `harness/h_mpi_setup.cpp` runs the real code on `np = 1..8` ranks, gathers `T` (tentative
prolongation), `P`, `R`, `A_c`, `B_c` into global matrices and `Driver/DistSetup.lean` evaluates the executable
predicates of `Model/DistSetupChecks.lean` on them for every explored input.  The theorems below state what a `true`
verdict implies, for every field / ordered ring of values (in particular for the exact rational values of the
binary64 numbers the driver is run on):

* `dist_aggregates_global_partition` — the aggregates of all ranks form ONE partition of the non-isolated unknowns:
  every stored entry of a row of `T` lies in the column block of the row's aggregate (an unknown is in at most one
  aggregate, the column supports of different aggregates are disjoint: `dist_aggregates_supports_disjoint`), the
  unknowns of a point travel together, every aggregate has a member (no empty aggregate, the numbering is contiguous
  on every rank), and an unknown outside every aggregate has no strong connection on any rank;
* `dist_unit_prolongation` — without near-null space an aggregated row is one unit entry;
* `dist_nullspace_reproduced`, `dist_prolongation_orthonormal` — `T · B_c = B` on aggregated rows, `Tᵀ T = I`, up to
  the stated tolerance;
* `dist_coarse_is_galerkin` — with `R = Pᵀ` (checked entrywise) the coarse operator is `s · Pᵀ A P` entry by entry
  (`dist_coarse_is_galerkin_exact` for the tolerance 0 used on dyadic data);
* `sa_prolongation_formula` — the smoothed prolongation is `(I − ω D_f⁻¹ A_f) T` entry by entry up to the tolerance.

`renumber_*` (below): the faithful model `Model/DistRenumber.lean` of the renumbering step pmis.hpp:628-703 leaves on
every rank the aggregate numbers `0 .. naggr'-1`, each with a member.

Level: translation validation (the predicates are evaluated on explored inputs; IEEE rounding is covered by the
tolerance `2^-30`, or excluded on dyadic data where every operation is exact).
-/
set_option linter.unusedSectionVars false
namespace Amgcl.C12
open Amgcl Amgcl.DistSetup Amgcl.Coarsening Finset

section partition
variable {K : Type} [CommRing K] [LinearOrder K] [IsStrictOrderedRing K]

/-- **global partition.**  `w = aggWidth bs cols` is the number of columns of one aggregate. -/
theorem dist_aggregates_global_partition (bs cols : Nat) (eps2 : K) (S T : CRS K)
    (hs : tentShape bs cols T = true) (hn : noEmptyAgg bs cols T = true) (hi : isolatedOk eps2 bs S T = true) :
    T.WF ∧
    (∀ i, i < T.nrows → ∀ cv ∈ T.row i, rowAgg (aggWidth bs cols) (T.row i) = some (cv.1 / aggWidth bs cols)) ∧
    (∀ p, p < T.nrows / bs → ∀ k, k < bs →
      rowAgg (aggWidth bs cols) (T.row (p * bs + k)) = rowAgg (aggWidth bs cols) (T.row (p * bs))) ∧
    (∀ a, a < T.ncols / aggWidth bs cols → ∃ i, i < T.nrows ∧ rowAgg (aggWidth bs cols) (T.row i) = some a) ∧
    (∀ p, p < S.nrows → (∃ cv ∈ S.row p, cv.1 ≠ p ∧ eps2 * diagOf S p * diagOf S cv.1 < cv.2 * cv.2) →
      T.row (p * bs) ≠ []) := by
  obtain ⟨hwf, _, _, _, hrows, hpts⟩ := tentShape_parts bs cols T hs
  refine ⟨wf_of_wfb T hwf, fun i hi' cv hcv => rowShape_block bs cols i (T.row i) (hrows i hi') cv hcv,
    fun p hp k hk => ?_, noEmptyAgg_sound bs cols T hn, fun p hp ⟨cv, hcv, hne, hlt⟩ hempty => ?_⟩
  · have := all_range (hpts p hp) k hk
    simpa using this
  · exact isolatedOk_sound eps2 bs S T hi p hp hempty cv hcv hne hlt

example : tentShape 1 0 (⟨2, #[[(0,1)],[(0,1)],[(1,1)],[]]⟩ : CRS Int) = true ∧
    noEmptyAgg 1 0 (⟨2, #[[(0,1)],[(0,1)],[(1,1)],[]]⟩ : CRS Int) = true ∧
    isolatedOk (0 : Int) 1 ⟨4, #[[(0,2),(1,-1)],[(0,-1),(1,2),(2,-1)],[(1,-1),(2,2)],[(3,2)]]⟩
      ⟨2, #[[(0,1)],[(0,1)],[(1,1)],[]]⟩ = true := by decide +kernel

/-- the column supports of different aggregates are disjoint: two non-zero entries of a row belong to one block -/
theorem dist_aggregates_supports_disjoint (bs cols : Nat) (T : CRS K) (hs : tentShape bs cols T = true)
    (i c c' : Nat) (hi : i < T.nrows) (hc : T.get i c ≠ 0) (hc' : T.get i c' ≠ 0) :
    c / aggWidth bs cols = c' / aggWidth bs cols := by
  obtain ⟨_, _, _, _, hrows, _⟩ := tentShape_parts bs cols T hs
  have mem : ∀ d, T.get i d ≠ 0 → ∃ cv ∈ T.row i, cv.1 = d := by
    intro d hd
    by_contra hcon
    apply hd
    apply rowGet_zero_of_ne
    intro cv hcv heq
    exact hcon ⟨cv, hcv, heq⟩
  obtain ⟨cv, hcv, rfl⟩ := mem c hc
  obtain ⟨cv', hcv', rfl⟩ := mem c' hc'
  have h1 := rowShape_block bs cols i (T.row i) (hrows i hi) cv hcv
  have h2 := rowShape_block bs cols i (T.row i) (hrows i hi) cv' hcv'
  rw [h1] at h2
  exact Option.some.inj h2

example : (⟨4, #[[(0,(3:Int)),(1,4)],[(2,1),(3,0)]]⟩ : CRS Int).get 0 1 ≠ 0 ∧
    tentShape 1 2 (⟨4, #[[(0,(3:Int)),(1,4)],[(2,1),(3,0)]]⟩ : CRS Int) = true := by decide +kernel

/-- without near-null space an aggregated unknown has ONE unit entry, in the column of its aggregate that belongs to
its position inside the point -/
theorem dist_unit_prolongation (bs : Nat) (T : CRS K) (hs : tentShape bs 0 T = true) (i : Nat) (hi : i < T.nrows)
    (hne : T.row i ≠ []) : ∃ c, T.row i = [(c, 1)] ∧ c % bs = i % bs ∧ ∀ j, T.get i j = if c = j then 1 else 0 := by
  obtain ⟨_, _, _, _, hrows, _⟩ := tentShape_parts bs 0 T hs
  obtain ⟨c, hrow, hmod⟩ := rowShape_unit bs i (T.row i) (hrows i hi) hne
  refine ⟨c, hrow, hmod, fun j => ?_⟩
  unfold CRS.get
  rw [hrow]
  simp [rowGet]

example : tentShape 2 0 (⟨2, #[[(0,(1:Int))],[(1,1)],[],[]]⟩ : CRS Int) = true := by decide +kernel

end partition

section nullspace
variable {K : Type} [CommRing K] [LinearOrder K] [IsStrictOrderedRing K]

theorem aggFlags_size (T : CRS K) : (aggFlags T).size = T.nrows := by simp [aggFlags]

theorem aggFlags_getD (T : CRS K) (i : Nat) (hi : i < T.nrows) :
    (aggFlags T).getD i (-1) = if (T.row i).isEmpty then -1 else 0 := by
  simp [aggFlags, Array.getD_eq_getD_getElem?, hi]

/-- `T · B_c = B` on every aggregated row, up to `tol` (near-null space reproduced across rank boundaries: `T`, `B_c`
are the gathered outputs of all ranks, `B` the concatenation of the vectors handed to the ranks) -/
theorem dist_nullspace_reproduced (tol : K) (cols : Nat) (T : CRS K) (hT : T.WF) (Bc B : Array K)
    (h : reproducesB tol cols (aggFlags T) T Bc B = true) :
    ∀ i, i < T.nrows → T.row i ≠ [] → ∀ k, k < cols →
      -tol ≤ (∑ c ∈ range T.ncols, T.get i c * Bc.getD (c * cols + k) 0) - B.getD (i * cols + k) 0 ∧
      (∑ c ∈ range T.ncols, T.get i c * Bc.getD (c * cols + k) 0) - B.getD (i * cols + k) 0 ≤ tol := by
  intro i hi hne k hk
  have h0 : 0 ≤ (aggFlags T).getD i (-1) := by
    rw [aggFlags_getD T i hi]
    have : (T.row i).isEmpty = false := by
      cases hr : T.row i with
      | nil => exact absurd hr hne
      | cons _ _ => rfl
    simp [this]
  exact C04.reproducesB_sound tol cols (aggFlags T) T hT Bc B h i (by rw [aggFlags_size]; exact hi) h0 k hk

/-- `Tᵀ T = I` up to `tol` -/
theorem dist_prolongation_orthonormal (tol : K) (T : CRS K) (h : orthonormalCols tol T = true) :
    ∀ c c', c < T.ncols → c' < T.ncols →
      -tol ≤ (∑ i ∈ range T.nrows, T.get i c * T.get i c') - (if c = c' then 1 else 0) ∧
      (∑ i ∈ range T.nrows, T.get i c * T.get i c') - (if c = c' then 1 else 0) ≤ tol :=
  C04.orthonormalCols_sound tol T h

example : reproducesB (0 : Int) 1 (aggFlags (⟨1, #[[(0,1)],[(0,1)],[]]⟩ : CRS Int)) ⟨1, #[[(0,1)],[(0,1)],[]]⟩ #[5] #[5,5,7] = true ∧
    orthonormalCols (0 : Int) ⟨2, #[[(0,1)],[(1,1)]]⟩ = true := by decide +kernel

end nullspace

section galerkin
variable {K : Type} [CommRing K] [LinearOrder K] [IsStrictOrderedRing K]

/-- **Galerkin.**  With `R = Pᵀ` (entrywise) the gathered coarse operator of the distributed hierarchy is
`s · Pᵀ A P` entry by entry, up to `rel · galerkinScale`. -/
theorem dist_coarse_is_galerkin (rel s : K) (R A P Ac : CRS K)
    (hg : isGalerkin rel s R A P Ac = true) (ht : isTranspose R P = true) (hRA : R.ncols = A.nrows) :
    Ac.nrows = P.ncols ∧ Ac.ncols = P.ncols ∧
    ∀ i, i < P.ncols → ∀ j, j < P.ncols →
      -(rel * galerkinScale s R A P) ≤
        Ac.get i j - s * ∑ l ∈ range A.ncols, (∑ k ∈ range A.nrows, P.get k i * A.get k l) * P.get l j ∧
      Ac.get i j - s * ∑ l ∈ range A.ncols, (∑ k ∈ range A.nrows, P.get k i * A.get k l) * P.get l j
        ≤ rel * galerkinScale s R A P := by
  obtain ⟨hn, hm, hall⟩ := isGalerkin_sound rel s R A P Ac hg
  obtain ⟨t1, _, t3⟩ := isTranspose_sound R P ht
  refine ⟨by rw [hn, t1], hm, fun i hi j hj => ?_⟩
  have h1 := hall i (by rw [t1]; exact hi) j hj
  have hsum : ∑ l ∈ range A.ncols, (∑ k ∈ range A.nrows, R.get i k * A.get k l) * P.get l j
      = ∑ l ∈ range A.ncols, (∑ k ∈ range A.nrows, P.get k i * A.get k l) * P.get l j := by
    apply sum_congr rfl; intro l _
    congr 1
    apply sum_congr rfl; intro k hk
    rw [t3 i (by rw [t1]; exact hi) k (by rw [hRA]; exact mem_range.1 hk)]
  rw [hsum] at h1
  exact h1

/-- exact form (tolerance 0: dyadic data, every operation of the distributed product exact) -/
theorem dist_coarse_is_galerkin_exact (s : K) (R A P Ac : CRS K)
    (hg : isGalerkin 0 s R A P Ac = true) (ht : isTranspose R P = true) (hRA : R.ncols = A.nrows) :
    ∀ i, i < P.ncols → ∀ j, j < P.ncols →
      Ac.get i j = s * ∑ l ∈ range A.ncols, (∑ k ∈ range A.nrows, P.get k i * A.get k l) * P.get l j := by
  intro i hi j hj
  obtain ⟨_, _, h⟩ := dist_coarse_is_galerkin 0 s R A P Ac hg ht hRA
  have := h i hi j hj
  simp only [zero_mul, neg_zero] at this
  linarith [this.1, this.2]

-- 1-D Laplacian on 4 unknowns, aggregates {0,1}, {2,3}: A_c = Pᵀ A P = [[2,-1],[-1,2]]
example : isGalerkin (0 : Int) 1 ⟨4, #[[(0,1),(1,1)],[(2,1),(3,1)]]⟩
      ⟨4, #[[(0,2),(1,-1)],[(0,-1),(1,2),(2,-1)],[(1,-1),(2,2),(3,-1)],[(2,-1),(3,2)]]⟩
      ⟨2, #[[(0,1)],[(0,1)],[(1,1)],[(1,1)]]⟩ ⟨2, #[[(0,2),(1,-1)],[(0,-1),(1,2)]]⟩ = true ∧
    isTranspose (⟨4, #[[(0,1),(1,1)],[(2,1),(3,1)]]⟩ : CRS Int) ⟨2, #[[(0,1)],[(0,1)],[(1,1)],[(1,1)]]⟩ = true := by
  decide +kernel

end galerkin

section sa
variable {K : Type} [Field K] [LinearOrder K] [IsStrictOrderedRing K]

/-- the smoothed prolongation is `(I − ω D_f⁻¹ A_f) T` (`saExpected`: filtered matrix of
`mpi/coarsening/smoothed_aggregation.hpp`, weak entries lumped into the diagonal, on whichever rank they live) -/
theorem sa_prolongation_formula (rel omega eps2 : K) (bs : Nat) (S A T P : CRS K)
    (h : saCheck rel omega eps2 bs S A T P = true) :
    P.nrows = A.nrows ∧ P.ncols = T.ncols ∧ ∀ i, i < A.nrows → ∀ c, c < T.ncols →
      -(rel * saScale omega eps2 bs S A T) ≤ P.get i c - saExpected omega eps2 bs S A T i c ∧
      P.get i c - saExpected omega eps2 bs S A T i c ≤ rel * saScale omega eps2 bs S A T := by
  unfold saCheck at h
  simp only [Bool.and_eq_true, beq_iff_eq] at h
  obtain ⟨⟨⟨⟨⟨_, _⟩, h3⟩, _⟩, h5⟩, h6⟩ := h
  exact ⟨h3, h5, fun i hi c hc => (within_iff _ _).1 (all_range (all_range h6 i hi) c hc)⟩

-- 2 unknowns, both strongly coupled, ω = 1/2: P = (I − ω D⁻¹ A_offdiag) T
example : saCheck (0 : ℚ) (1/2) 0 1 ⟨2, #[[(0,2),(1,-1)],[(0,-1),(1,2)]]⟩ ⟨2, #[[(0,2),(1,-1)],[(0,-1),(1,2)]]⟩
    ⟨1, #[[(0,1)],[(0,1)]]⟩ ⟨1, #[[(0,3/4)],[(0,3/4)]]⟩ = true := by decide +kernel

end sa

section renumber
open Amgcl.DistRenumber

/-- **renumbering table** (`Model/DistRenumber.lean` = pmis.hpp:635-649, per rank `r`; `vis` = the unknowns the rank can
read, `Mine` = the unknowns of its aggregates among them, whose numbers lie below `naggr`).  After the
`partial_sum` the table `new_id` maps the numbers of the aggregates that still have a member ONTO `0 .. naggr'-1`
(`naggr' = new_id.back()`), injectively: the new numbering of every rank is contiguous, every new number has a member
(no empty aggregate), aggregates are neither merged nor split.
Partial with respect to the whole step: that `renumberStep` writes exactly `new_id_r[state i]` into the state of every
unknown `i` with `owner i = r` (own rows l.651-655, other ranks' rows through the messages l.661-694) is the
definition of `applyRank`, executed by the driver op `drenumber`, but not restated as a theorem about the final array. -/
theorem renumber_table_partial (naggr : Nat) (r : Int) (state owner : Array Int) (vis : List Nat)
    (hrange : ∀ i ∈ vis, Mine r state owner i → state.getD i (-1) < (naggr : Int)) :
    0 ≤ kept naggr r state owner vis ∧ kept naggr r state owner vis ≤ naggr ∧
    (∀ i ∈ vis, Mine r state owner i →
      0 ≤ (newIds naggr r state owner vis).getD (state.getD i (-1)).toNat 0 ∧
      (newIds naggr r state owner vis).getD (state.getD i (-1)).toNat 0 < kept naggr r state owner vis) ∧
    (∀ a : Nat, (a : Int) < kept naggr r state owner vis → ∃ i ∈ vis, Mine r state owner i ∧
      (newIds naggr r state owner vis).getD (state.getD i (-1)).toNat 0 = (a : Int)) ∧
    (∀ i ∈ vis, ∀ j ∈ vis, Mine r state owner i → Mine r state owner j →
      ((newIds naggr r state owner vis).getD (state.getD i (-1)).toNat 0 =
        (newIds naggr r state owner vis).getD (state.getD j (-1)).toNat 0 ↔ state.getD i (-1) = state.getD j (-1))) := by
  have hkept := kept_eq naggr r state owner vis
  -- facts about one unknown of an aggregate of rank r
  have hone : ∀ i ∈ vis, Mine r state owner i →
      (state.getD i (-1)).toNat < naggr ∧ Used (seen r state owner vis) (state.getD i (-1)).toNat ∧
      (newIds naggr r state owner vis).getD (state.getD i (-1)).toNat 0 = rankS (seen r state owner vis) (state.getD i (-1)).toNat := by
    intro i hi hm
    have h0 : state.getD i (-1) ≥ 0 := hm.2
    have hlt := hrange i hi hm
    have hk : (state.getD i (-1)).toNat < naggr := by omega
    refine ⟨hk, (used_seen_iff r state owner vis _).2 ⟨i, hi, hm, by omega⟩, newIds_spec naggr r state owner vis _ (by omega)⟩
  have hstep : ∀ k, Used (seen r state owner vis) k → rankS (seen r state owner vis) (k + 1) = rankS (seen r state owner vis) k + 1 := by
    intro k hu
    rw [rankS_succ]
    unfold markF; rw [if_pos hu]
  refine ⟨by rw [hkept]; exact rankS_nonneg _ _, by rw [hkept]; exact rankS_le _ _, fun i hi hm => ?_, fun a ha => ?_,
    fun i hi j hj hmi hmj => ?_⟩
  · obtain ⟨hk, hu, hn⟩ := hone i hi hm
    rw [hn, hkept]
    have := rankS_mono (seen r state owner vis) (show (state.getD i (-1)).toNat + 1 ≤ naggr by omega)
    rw [hstep _ hu] at this
    exact ⟨rankS_nonneg _ _, by omega⟩
  · rw [hkept] at ha
    obtain ⟨k, hk, hu, hr⟩ := rankS_ivt (seen r state owner vis) naggr a ha
    obtain ⟨i, hi, hm, hik⟩ := (used_seen_iff r state owner vis k).1 hu
    refine ⟨i, hi, hm, ?_⟩
    have : (state.getD i (-1)).toNat = k := by omega
    rw [this, newIds_spec naggr r state owner vis k (by omega)]
    simpa using hr
  · obtain ⟨_, hui, hni⟩ := hone i hi hmi
    obtain ⟨_, huj, hnj⟩ := hone j hj hmj
    have h0i : state.getD i (-1) ≥ 0 := hmi.2
    have h0j : state.getD j (-1) ≥ 0 := hmj.2
    rw [hni, hnj]
    constructor
    · intro heq
      rcases Nat.lt_trichotomy (state.getD i (-1)).toNat (state.getD j (-1)).toNat with hlt | heq' | hgt
      · have := rankS_mono (seen r state owner vis) (show (state.getD i (-1)).toNat + 1 ≤ (state.getD j (-1)).toNat by omega)
        rw [hstep _ hui] at this; omega
      · omega
      · have := rankS_mono (seen r state owner vis) (show (state.getD j (-1)).toNat + 1 ≤ (state.getD i (-1)).toNat by omega)
        rw [hstep _ huj] at this; omega
    · intro heq; rw [heq]

-- rank 0 created aggregates 0, 1, 2; aggregate 1 lost all its members: new numbers 0, 1 and naggr' = 2; an unknown of
-- rank 0's aggregate 2 that lives on another rank (index 3) is told the new number 1
example : renumberStep [3, 1] #[0, 2, 0, 2, 0] #[0, 0, 0, 0, 1] [[0, 1, 2, 3], [3, 4]] = ([2, 1], #[0, 1, 0, 1, 0]) ∧
    inputOk [3, 1] #[0, 2, 0, 2, 0] #[0, 0, 0, 0, 1] [[0, 1, 2, 3], [3, 4]] = true ∧
    kept 3 0 #[0, 2, 0, 2, 0] #[0, 0, 0, 0, 1] [0, 1, 2, 3] = 2 := by decide +kernel

end renumber

end Amgcl.C12
