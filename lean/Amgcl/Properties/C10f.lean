import Amgcl.Proofs.DefinedFiltered
import Amgcl.Proofs.DefinedKernels
import Amgcl.Proofs.RelaxIlupPower
/-!
# C10 (continued, package alloc2) — `schur_pressure_correction` (`Kuu`, `Kup`, `Kpu`, `Kpp`, `L`), `spgemm_rmerge`,
`ilup` (`symb_product`: `C.ptr`, `C.col`; `P.val`)

* `schur_block_defined` — each of the four sub-blocks: zero-filled `ptr`, one increment per kept entry, scan,
  `set_nonzeros`, fill from the loaded `ptr[ci]`: counting loop = filling loop for every mask.
* `schur_L_defined` — `L[i] = 0` is stored for every `i` before the optional `L[i] = s`.
* `spgemm_rmerge_defined` — `prod_row_width` returns the length of what `prod_row` writes (`prodRowWidth_eq`, C08).
* `ilup_symb_product_defined` — first-pass widths = second-pass row lengths (`symbProduct_spec`, C06) under the
  column-range precondition `PatOK`.
* `ilup_Pval_defined` — the per-row `std::fill` covers every cell of `P->val`.
-/
namespace Amgcl.C10f
open Amgcl Amgcl.Defined

section schur
variable {K E : Type}

/-- **a sub-block of `schur_pressure_correction::init`** for every selection of source rows, every mask predicate and
renumbering, any two prior heap contents -/
theorem schur_block_defined (src : Array (List E)) (keep : E → Bool) (out : E → Nat × K) (jp jp' : Array Nat)
    (jc jc' : Nat → Array Nat) (jv jv' : Nat → Array K)
    (hp : jp.size = src.size + 1) (hc : ∀ k, (jc k).size = k) (hv : ∀ k, (jv k).size = k)
    (hp' : jp'.size = src.size + 1) (hc' : ∀ k, (jc' k).size = k) (hv' : ∀ k, (jv' k).size = k) :
    (schurBlockCells src keep out jp jc jv).ok = true ∧ allWritten (schurBlockCells src keep out jp jc jv).ptr = true ∧
      allWritten (schurBlockCells src keep out jp jc jv).col = true ∧
      allWritten (schurBlockCells src keep out jp jc jv).val = true ∧
      schurBlockCells src keep out jp jc jv
        = CrsCells.ofRows (Array.ofFn (n := src.size) fun ci => frow keep out (src.getD ci.val [])) ∧
      schurBlockCells src keep out jp jc jv = schurBlockCells src keep out jp' jc' jv' := by
  have hn : (Array.ofFn (n := src.size) fun ci => frow keep out (src.getD ci.val [])).size = src.size := by simp
  have hw : ∀ i, i < (Array.ofFn (n := src.size) fun ci => frow keep out (src.getD ci.val [])).size →
      fcount keep (src.getD i [])
        = ((Array.ofFn (n := src.size) fun ci => frow keep out (src.getD ci.val [])).getD i []).length := by
    intro i hi
    rw [hn] at hi
    rw [fcount_eq keep out]
    simp [Array.getD_eq_getD_getElem?, hi]
  unfold schurBlockCells
  rw [twoPassInc_spec _ _ hw jp jc jv (by rw [hn]; exact hp) hc hv,
    twoPassInc_spec _ _ hw jp' jc' jv' (by rw [hn]; exact hp') hc' hv']
  obtain ⟨a, b, c, d⟩ := ofRows_allWritten (Array.ofFn (n := src.size) fun ci => frow keep out (src.getD ci.val []))
  exact ⟨d, a, b, c, rfl, rfl⟩

/-- **`L` of `adjust_p = 1`**: every cell is stored (first with zero), whatever rows of `Kpp` have a diagonal -/
theorem schur_L_defined [Zero K] (np : Nat) (hasDiag : Nat → Bool) (s : Nat → K) (j j' : Array K) (hj : j.size = np)
    (hj' : j'.size = np) :
    allWritten (applyStores (schurLStores np hasDiag s) (alloc j)) = true ∧
      applyStores (schurLStores np hasDiag s) (alloc j) = applyStores (schurLStores np hasDiag s) (alloc j') :=
  applyStores_covered _ np (schurL_cover np hasDiag s) _ _ (by rw [alloc_size, hj]) (by rw [alloc_size, hj'])

end schur

/-- non-vacuity: the `up` block of a 3×3 matrix with mask `[u, p, u]` — source rows 0 and 2, kept columns: 1 -/
example : erase (schurBlockCells (K := Nat) #[[(0, 4), (1, 7)], [(1, 8), (2, 5)]] (fun e : Nat × Nat => e.1 == 1)
    (fun e => (0, e.2)) #[9, 9, 9] (fun k => Array.replicate k 5) (fun k => Array.replicate k 6)).val = #[7, 8] := by
  decide +kernel
example : erase (applyStores (schurLStores 3 (fun i => i == 1) (fun i => (i + 10 : Nat))) (alloc #[7, 7, 7])) = #[0, 11, 0] := by
  decide +kernel

section rmerge
variable {K : Type} [Add K] [Mul K] [Zero K] [One K]

/-- **`spgemm_rmerge`**: for all `A`, `B` and any two prior heap contents all cells of `C.ptr`, `C.col`, `C.val` are
written, no unwritten cell is loaded, and the cells are the flat image of the row-level model `spgemmRmerge` -/
theorem spgemm_rmerge_defined (A B : CRS K) (jp jp' : Array Nat) (jc jc' : Nat → Array Nat) (jv jv' : Nat → Array K)
    (hp : jp.size = A.nrows + 1) (hc : ∀ k, (jc k).size = k) (hv : ∀ k, (jv k).size = k)
    (hp' : jp'.size = A.nrows + 1) (hc' : ∀ k, (jc' k).size = k) (hv' : ∀ k, (jv' k).size = k) :
    (rmergeCells A B jp jc jv).ok = true ∧ allWritten (rmergeCells A B jp jc jv).ptr = true ∧
      allWritten (rmergeCells A B jp jc jv).col = true ∧ allWritten (rmergeCells A B jp jc jv).val = true ∧
      rmergeCells A B jp jc jv = CrsCells.ofRows (spgemmRmerge A B).rows ∧
      rmergeCells A B jp jc jv = rmergeCells A B jp' jc' jv' := by
  have hn : (spgemmRmerge A B).rows.size = A.nrows := by simp [spgemmRmerge, CRS.nrows]
  have hw : ∀ i, i < (spgemmRmerge A B).rows.size →
      prodRowWidth B ((A.row i).map (·.1)) = ((spgemmRmerge A B).rows.getD i []).length := by
    intro i hi
    rw [hn] at hi
    rw [K2.prodRowWidth_eq]
    have hi' : i < A.rows.size := hi
    simp [spgemmRmerge, CRS.row, Array.getD_eq_getD_getElem?, hi']
  unfold rmergeCells
  rw [twoPassW_eq _ _ hw, twoPassW_eq _ _ hw,
    twoPass_spec _ jp jc jv (by rw [hn]; exact hp) hc hv, twoPass_spec _ jp' jc' jv' (by rw [hn]; exact hp') hc' hv']
  obtain ⟨a, b, c, d⟩ := ofRows_allWritten (spgemmRmerge A B).rows
  exact ⟨d, a, b, c, rfl, rfl⟩

end rmerge

example : erase (rmergeCells (K := Rat) ⟨2, #[[(0, 1), (1, 2)], [(1, 3)]]⟩ ⟨2, #[[(0, 1)], [(0, 1), (1, 1)]]⟩ #[9, 9, 9]
    (fun k => Array.replicate k 5) (fun k => Array.replicate k 7)).ptr = #[0, 2, 4] := by decide +kernel

section ilup
open Relax

/-- **`detail::symb_product`** under the column-range precondition of the kernel (`PatOK`: every visited column is
`< m`, the size of the marker): `C.ptr` and `C.col` completely written, no unwritten cell loaded, any two prior heaps -/
theorem ilup_symb_product_defined (A B : Pat) (m : Nat) (hok : PatOK A B m) (jp jp' : Array Nat) (jc jc' : Nat → Array Nat)
    (hp : jp.size = A.size + 1) (hc : ∀ k, (jc k).size = k) (hp' : jp'.size = A.size + 1) (hc' : ∀ k, (jc' k).size = k) :
    (symbCells A B m jp jc).ok = true ∧ allWritten (symbCells A B m jp jc).ptr = true ∧
      allWritten (symbCells A B m jp jc).col = true ∧ symbCells A B m jp jc = symbCells A B m jp' jc' := by
  obtain ⟨hsz, hrows⟩ := symbProduct_spec A B m hok
  have hn : ((symbProduct A B m).map fun r => r.map fun c => (c, ())).size = A.size := by rw [Array.size_map, hsz]
  have hw : ∀ i, i < ((symbProduct A B m).map fun r => r.map fun c => (c, ())).size →
      (symbWidths A B m).getD i 0 = (((symbProduct A B m).map fun r => r.map fun c => (c, ())).getD i []).length := by
    intro i hi
    rw [hn] at hi
    rw [← (hrows i hi).2]
    have hi' : i < (symbProduct A B m).size := by rw [hsz]; exact hi
    simp [Array.getD_eq_getD_getElem?, hi']
  unfold symbCells
  rw [twoPassW_eq _ _ hw, twoPassW_eq _ _ hw,
    twoPass_spec _ jp jc _ (by rw [hn]; exact hp) hc (fun k => by simp),
    twoPass_spec _ jp' jc' _ (by rw [hn]; exact hp') hc' (fun k => by simp)]
  obtain ⟨a, b, _, d⟩ := ofRows_allWritten ((symbProduct A B m).map fun r => r.map fun c => (c, ()))
  exact ⟨d, a, b, rfl⟩

/-- **`P->val` of `ilup::ilup`**: the per-row `std::fill` over `[ptr[i], ptr[i+1])` stores into every cell, for every
pointer array of a CRS matrix (`ptr[0] = 0`, non-decreasing, `nnz = ptr[n]`) -/
theorem ilup_Pval_defined {K : Type} [Zero K] (n : Nat) (ptr : Nat → Nat) (h0 : ptr 0 = 0)
    (hm : ∀ i, i < n → ptr i ≤ ptr (i + 1)) (j j' : Array K) (hj : j.size = ptr n) (hj' : j'.size = ptr n) :
    allWritten (applyStores (segZeroStores n ptr (0 : K)) (alloc j)) = true ∧
      applyStores (segZeroStores n ptr (0 : K)) (alloc j) = applyStores (segZeroStores n ptr (0 : K)) (alloc j') :=
  applyStores_covered _ (ptr n) (segZero_cover n ptr 0 h0 hm) _ _ (by rw [alloc_size, hj]) (by rw [alloc_size, hj'])

end ilup

example : erase (applyStores (segZeroStores 3 (fun i => #[0, 2, 2, 3].getD i 0) (0 : Nat)) (alloc #[7, 7, 7])) = #[0, 0, 0] := by
  decide +kernel
/-- a 3×3 tridiagonal pattern -/
def exP : CRS Rat := ⟨3, #[[(0, 4), (1, -1)], [(0, -2), (1, 5), (2, -1)], [(1, -1), (2, 3)]]⟩

example := ilup_symb_product_defined (Relax.patRows exP) (Relax.patRows exP) 3
  (Relax.patOK_right exP (by decide) _) #[9, 9, 9, 9] #[0, 0, 0, 0] (fun k => Array.replicate k 5)
  (fun k => Array.replicate k 0) (by simp [Relax.patRows, exP]) (fun k => by simp) (by simp [Relax.patRows, exP])
  (fun k => by simp)

end Amgcl.C10f
