import Amgcl.Proofs.RSTransfer
/-!
# C10 (Ruge–Stuben part) — no result of `ruge_stuben::transfer_operators` depends on memory the code never wrote

The faithful model `Amgcl/Model/RugeStuben.lean` takes the initial contents of every array that the C++ code allocates
WITHOUT initialising it as an explicit argument `g : RS.Garbage K`:
`S.ptr = new Ptr[n+1]`, `S.val = new char[nnz]`, `S.col = new Col[S.ptr[n]]` (ruge_stuben.hpp:280-281, 311) and
`P->col / P->val` after `set_nonzeros` (l.177).  (`std::vector`s are value-initialised by the code and by the model.)
The theorems say that this argument is irrelevant — every cell that is read has been written before:

* `connect_indep_heap` — `S` (flags, transposed pointers, transposed columns) and the `F` marks left by `connect`;
  the flags part is the repaired loop of fix 886ffa9 (`C10.connect_defined`), the transposed columns need the
  correctness of the counting transposition (every cell of `S.col` is the target of exactly one store);
* `prolongation_cells_all_written` — the counting pass over a row of `A` allocates exactly the cells the fill pass
  writes (with and without truncation);
* `transfer_indep_heap` — the whole of `transfer_operators` (C/F splitting, `S`, `P`).

Tied to the code by harness/h_rs.cpp: every case runs three times with all fresh `operator new` blocks pre-filled with
0xFF / 0x00 / PRNG bytes and must give identical `cf`, `S`, `P`, `R`, `A_c`.
-/
namespace Amgcl.C10b
open Amgcl Amgcl.RS

section
variable {K : Type} [Mul K] [Zero K] [LT K] [DecidableLT K]

/-- `connect`: nothing depends on the initial contents of `S.ptr`, `S.val`, `S.col` -/
theorem connect_indep_heap (g g' : Garbage K) (norm : K → K) (epsStrong eps : K) (A : CRS K) (hA : A.WF)
    (hsq : A.ncols = A.nrows) : connect g norm epsStrong eps A = connect g' norm epsStrong eps A := by
  have hG := flagGraph_wf norm epsStrong eps A hA hsq
  have hsz := flagGraph_size A (flagsOf norm epsStrong eps A)
  rw [connect_eq, connect_eq]
  rw [transposeFlags_indep g.scol g'.scol _ hG _ (by simp [hsz]) (fun k => by
    simp only [Array.getD_eq_getD_getElem?, Array.getElem?_replicate]; split <;> rfl)]

/-- the strength flags and the `F` marks are those of `connectRow`, row by row — every cell of `S.val` is written -/
theorem connect_flags_written (g : Garbage K) (norm : K → K) (epsStrong eps : K) (A : CRS K) (i : Nat)
    (hi : i < A.nrows) :
    (connect g norm epsStrong eps A).1.val.getD i [] = (connectRow norm epsStrong eps i (A.row i)).2 ∧
    ((connect g norm epsStrong eps A).1.val.getD i []).length = (A.row i).length := by
  rw [connect_eq]
  simp only [flagsOf, Array.getD_eq_getD_getElem?, Array.getElem?_ofFn, hi, dif_pos, Option.getD_some]
  exact ⟨trivial, connectRow_flags_length norm epsStrong eps i (A.row i)⟩

end

section
variable {K : Type} [Field K] [LinearOrder K]

/-- `P->ptr` (counting pass) allocates exactly the cells the fill pass writes, so a row of `P` never shows a cell of
the uninitialised `set_nonzeros` allocation -/
theorem prolongation_cells_all_written (gp gp' : Nat → Nat × K) (norm : K → K) (doTrunc : Bool) (epsTrunc eps : K)
    (cf : Array CF) (cidx : Array Nat) (i : Nat) (r : Row K) (flags : List Bool) :
    (interpRow norm doTrunc epsTrunc eps cf cidx i r flags).1
      = (interpRow norm doTrunc epsTrunc eps cf cidx i r flags).2.length ∧
    prolongRow gp norm doTrunc epsTrunc eps cf cidx i r flags
      = prolongRow gp' norm doTrunc epsTrunc eps cf cidx i r flags := by
  refine ⟨interp_width_consistent norm doTrunc epsTrunc eps cf cidx i r flags, ?_⟩
  rw [prolongRow_eq, prolongRow_eq]

/-- **`transfer_operators` is a function of its inputs only**: C/F marks, `S` and `P` are the same for any two
initial heap contents, on every well-formed square matrix and for all parameters -/
theorem transfer_indep_heap (g g' : Garbage K) (norm : K → K) (epsStrong : K) (doTrunc : Bool) (epsTrunc eps : K)
    (A : CRS K) (hA : A.WF) (hsq : A.ncols = A.nrows) :
    transferFull g norm epsStrong doTrunc epsTrunc eps A = transferFull g' norm epsStrong doTrunc epsTrunc eps A ∧
    transferOperators g norm epsStrong doTrunc epsTrunc eps A
      = transferOperators g' norm epsStrong doTrunc epsTrunc eps A := by
  have h := transferFull_indep g g' norm epsStrong doTrunc epsTrunc eps A hA hsq
  refine ⟨h, ?_⟩
  unfold transferOperators
  rw [h]

end

/-- non-vacuity: a valid input on which `S.col` has four cells and `P` interpolating rows, with two different heaps -/
example :
    (⟨3, #[[(0,2),(1,-1)],[(0,-1),(1,2),(2,-1)],[(1,-1),(2,2)]]⟩ : CRS ℚ).wfb = true ∧
    (transferFull ⟨fun j => 7 + j, fun _ _ => true, fun j => 9 + j, fun i k => (5 + i + k, 3)⟩
      (fun x : ℚ => if x < 0 then -x else x) (1/4) true (1/5) (1/2251799813685248)
      ⟨3, #[[(0,2),(1,-1)],[(0,-1),(1,2),(2,-1)],[(1,-1),(2,2)]]⟩).S
    = ⟨#[[false, true], [true, false, true], [true, false]], #[0, 1, 3, 4], #[1, 0, 2, 1]⟩ ∧
    (transferFull ⟨fun _ => 0, fun _ _ => false, fun _ => 0, fun _ _ => (0, 0)⟩
      (fun x : ℚ => if x < 0 then -x else x) (1/4) true (1/5) (1/2251799813685248)
      ⟨3, #[[(0,2),(1,-1)],[(0,-1),(1,2),(2,-1)],[(1,-1),(2,2)]]⟩).S
    = ⟨#[[false, true], [true, false, true], [true, false]], #[0, 1, 3, 4], #[1, 0, 2, 1]⟩ := by
  decide +kernel

end Amgcl.C10b
