import Amgcl.Proofs.SchurExact
import Amgcl.Proofs.SchurSpmv
import Amgcl.Proofs.Deflation
import Amgcl.Proofs.CPRApp
import Amgcl.Proofs.CPRPass
import Amgcl.Proofs.CPRWeights
import Amgcl.Proofs.CPRBlock
import Amgcl.Proofs.C18Examples
import Amgcl.Proofs.CPRWidths
/-!
# C18 — composite preconditioners realise their block formulas

Property theorems only (helpers: `Proofs/Schur*.lean`, `Proofs/CPR*.lean`, `Proofs/Deflation.lean`).  The models
(`Model/Schur.lean`, `Model/CPR.lean`, `Model/Deflation.lean`) mirror the constructors and `apply` functions statement
by statement; the inner solvers / preconditioners are function parameters.

Schur pressure correction (`schur_pressure_correction.hpp`), for EVERY pressure mask:
* `partition_reassembles` : the gather/scatter matrices and the four extracted sub-blocks reassemble to `K`;
  `partition_blocks` : each sub-block is `K` restricted to the two index classes.
* `schur1_exact` : `type = 1` with `U = Kuu⁻¹` and a pressure solve that inverts the matrix-free operator the code
  applies returns `x` with `K x = f`, for every `adjust_p` setting (the model is the code after fix ce6260a; before it the
  clause failed when `Kpp` had a row without stored diagonal entry, see notes/repro_c18_schur_adjust_p_missing_diag.cpp).
* `schur2_block_triangular` : `type = 2` solves `S p = f_p`, `Kuu u + Kup p = f_u`.
* `schur_operator_affine` : the object as the matrix-free operator of the pressure solver: `spmv(α, x, β, y) = β y + α S x`
  for ALL `α`, `β` (`S x` = what the two theorems above call the operator, `α = 1, β = 0`), every mask / `adjust_p` /
  `approx_schur`; `schur_operator_residual` : `backend::residual(f, S, x) = f - S x`.

CPR (`cpr.hpp`): `cpr_formula`, `cpr_pressure_matrix` + `cpr_weights` (the pressure matrix is the first-row-of-inverse-
diagonal-block weighting of `A`), `cpr_partial_update_noop` (scalar input, sorted rows), `cpr_scalar_eq_block`.

Deflated solver (`deflated_solver.hpp`): `deflation_E` (`E = Zᵀ A Z`), `deflation_projects`
(`Zᵀ (b - A x) = 0` after `project`), `deflation_exact_precond` (with an exact preconditioner and `preonly` the
solution of the original system is returned).
-/
namespace Amgcl.C18
open Amgcl Matrix Finset

section schur
open Amgcl.Schur
variable {K : Type} [Field K] [LinearOrder K]

/-- the number of u- and p-unknowns counted by the constructor are the sizes of the two index classes -/
theorem partition_sizes (nt : Nat) (prm : Params) (A : CRS K) (pm : Array Bool) :
    (init nt prm A pm).nu = (cls pm false).length ∧ (init nt prm A pm).np = (cls pm true).length ∧
    (cls pm false).length + (cls pm true).length = pm.size := by
  refine ⟨mkIdx_nu pm, mkIdx_np pm, ?_⟩
  have := Fintype.card_congr (selEquiv pm)
  simpa using this

/-- **every sub-block is `K` restricted to the index classes of the mask** (`clsAt pm b k` is the `k`-th index with
`pmask = b`, in increasing order) -/
theorem partition_blocks (nt : Nat) (prm : Params) (A : CRS K) (pm : Array Bool) (hA : A.WF)
    (hn : A.nrows = pm.size) (hc : A.ncols = pm.size) (k l : Nat) :
    (k < (cls pm false).length → l < (cls pm false).length →
      (init nt prm A pm).Kuu.get k l = A.get (clsAt pm false k) (clsAt pm false l)) ∧
    (k < (cls pm false).length → l < (cls pm true).length →
      (init nt prm A pm).Kup.get k l = A.get (clsAt pm false k) (clsAt pm true l)) ∧
    (k < (cls pm true).length → l < (cls pm false).length →
      (init nt prm A pm).Kpu.get k l = A.get (clsAt pm true k) (clsAt pm false l)) ∧
    (k < (cls pm true).length → l < (cls pm true).length →
      (init nt prm A pm).Kpp0.get k l = A.get (clsAt pm true k) (clsAt pm true l)) := by
  have hG := init_good nt prm A pm hA hn hc
  refine ⟨?_, ?_, ?_, ?_⟩
  · intro hk hl
    rw [hG.hKuu, clsAt_lt pm false k hk, clsAt_lt pm false l hl]
    exact extractBlock_get A pm hA hn hc false false _ k l hk hl
  · intro hk hl
    rw [hG.hKup, clsAt_lt pm false k hk, clsAt_lt pm true l hl]
    exact extractBlock_get A pm hA hn hc false true _ k l hk hl
  · intro hk hl
    rw [hG.hKpu, clsAt_lt pm true k hk, clsAt_lt pm false l hl]
    exact extractBlock_get A pm hA hn hc true false _ k l hk hl
  · intro hk hl
    rw [hG.hKpp, clsAt_lt pm true k hk, clsAt_lt pm true l hl]
    exact extractBlock_get A pm hA hn hc true true _ k l hk hl

/-- **the u/p sub-blocks reassemble to the original matrix**, for every mask:
`u2x·Kuu·x2u + u2x·Kup·x2p + p2x·Kpu·x2u + p2x·Kpp·x2p = K` (dense denotations). -/
theorem partition_reassembles (nt : Nat) (prm : Params) (A : CRS K) (pm : Array Bool) (hA : A.WF)
    (hn : A.nrows = pm.size) (hc : A.ncols = pm.size) :
    let S := init nt prm A pm
    let nu := (cls pm false).length
    let np := (cls pm true).length
    toMat S.u2x pm.size nu * toMat S.Kuu nu nu * toMat S.x2u nu pm.size
      + toMat S.u2x pm.size nu * toMat S.Kup nu np * toMat S.x2p np pm.size
      + toMat S.p2x pm.size np * toMat S.Kpu np nu * toMat S.x2u nu pm.size
      + toMat S.p2x pm.size np * toMat S.Kpp0 np np * toMat S.x2p np pm.size
      = toMat A pm.size pm.size :=
  good_reassemble (init_good nt prm A pm hA hn hc) hA hn hc

-- non-vacuity: a well-formed 2×2 system `[2 1; 1 3]` with the interleaved mask `[u, p]`
example : C18Ex.A2.WF ∧ C18Ex.A2.nrows = C18Ex.pm2.size ∧ C18Ex.A2.ncols = C18Ex.pm2.size := C18Ex.A2_ok
example : (init 1 {} C18Ex.A2 C18Ex.pm2).Kup.get 0 0 = C18Ex.A2.get 0 1 :=
  (partition_blocks 1 {} C18Ex.A2 C18Ex.pm2 C18Ex.A2_ok.1 C18Ex.A2_ok.2.1 C18Ex.A2_ok.2.2 0 0).2.1
    (by decide) (by decide)

/-- **Schur pressure correction of type 1 with exact inner solves is the exact inverse**: for every mask and every
`adjust_p`, if `U` solves with the (non-singular) `Kuu` handed to the u-solver and `Ps` solves with the matrix-free
operator `S` the object applies in `spmv`, then `apply` returns `x` with `K x = f`. -/
theorem schur1_exact (nt : Nat) (prm : Params) (A : CRS K) (pm : Array Bool) (hA : A.WF)
    (hn : A.nrows = pm.size) (hc : A.ncols = pm.size)
    (htype : prm.type = 1) (happ : prm.approxSchur = false) (U Ps : Vec K → Vec K)
    (hdet : IsUnit (toMat (init nt prm A pm).Kuu (cls pm false).length (cls pm false).length).det)
    (hU : ∀ r : Vec K, r.size = (cls pm false).length →
      spmv 1 (init nt prm A pm).Kuu (U r) 0 (vclear (init nt prm A pm).nu) = r)
    (hP : ∀ r : Vec K, r.size = (cls pm true).length →
      (init nt prm A pm).spmv U 1 (Ps r) 0 (vclear (init nt prm A pm).np) = r)
    (f : Vec K) (hf : f.size = pm.size) :
    ∃ x, (init nt prm A pm).apply U Ps f = some x ∧ spmv 1 A x 0 (vclear pm.size) = f := by
  have hG := init_good nt prm A pm hA hn hc
  have hS := hG.shapes hA hn hc
  apply good_schur1 hG hA hn hc htype happ U Ps hdet _ hP f hf
  intro r hr
  have h := congrArg (toV (cls pm false).length) (hU r hr)
  rw [toV_spmv' 1 0 _ _ _ hS.uu.1 _ _ hS.uu.2.1 hS.uu.2.2] at h
  simp only [one_smul, zero_smul, add_zero] at h
  rw [← h, Matrix.mulVec_mulVec, Matrix.nonsing_inv_mul _ hdet, Matrix.one_mulVec]

-- non-vacuity: on `K = [2 1; 1 3]`, mask `[u, p]`, default parameters (`adjust_p = 1`), the exact inner solves
-- `U = 1/2`, `P = (5/2)⁻¹` satisfy every hypothesis, and the theorem yields `K x = (1, 2)`
example : ∃ x, (init 1 (C18Ex.prmT 1) C18Ex.A2 C18Ex.pm2).apply C18Ex.U2 C18Ex.P2 #[1, 2] = some x ∧
    spmv 1 C18Ex.A2 x 0 (vclear C18Ex.pm2.size) = #[1, 2] :=
  schur1_exact 1 (C18Ex.prmT 1) C18Ex.A2 C18Ex.pm2 C18Ex.A2_ok.1 C18Ex.A2_ok.2.1 C18Ex.A2_ok.2.2 rfl rfl
    C18Ex.U2 C18Ex.P2 (C18Ex.det2 1) (fun r hr => (C18Ex.hU2 1 r hr).2) (fun r hr => (C18Ex.hP2 1 r hr).2) #[1, 2] rfl

/-- … hence, when `K` itself is non-singular, the result is `K⁻¹ f` -/
theorem schur1_exact_inv (nt : Nat) (prm : Params) (A : CRS K) (pm : Array Bool) (hA : A.WF)
    (hn : A.nrows = pm.size) (hc : A.ncols = pm.size)
    (htype : prm.type = 1) (happ : prm.approxSchur = false) (U Ps : Vec K → Vec K)
    (hdet : IsUnit (toMat (init nt prm A pm).Kuu (cls pm false).length (cls pm false).length).det)
    (hU : ∀ r : Vec K, r.size = (cls pm false).length →
      spmv 1 (init nt prm A pm).Kuu (U r) 0 (vclear (init nt prm A pm).nu) = r)
    (hP : ∀ r : Vec K, r.size = (cls pm true).length →
      (init nt prm A pm).spmv U 1 (Ps r) 0 (vclear (init nt prm A pm).np) = r)
    (f : Vec K) (hf : f.size = pm.size) (hK : IsUnit (toMat A pm.size pm.size).det) :
    ∃ x, (init nt prm A pm).apply U Ps f = some x ∧
      toV pm.size x = (toMat A pm.size pm.size)⁻¹ *ᵥ toV pm.size f := by
  obtain ⟨x, hx, hAx⟩ := schur1_exact nt prm A pm hA hn hc htype happ U Ps hdet hU hP f hf
  refine ⟨x, hx, ?_⟩
  have h := congrArg (toV pm.size) hAx
  rw [toV_spmv' 1 0 A _ _ hA pm.size pm.size hn hc] at h
  simp only [one_smul, zero_smul, add_zero] at h
  rw [← h, Matrix.mulVec_mulVec, Matrix.nonsing_inv_mul _ hK, Matrix.one_mulVec]

/-- **type 2 solves the block upper-triangular system** `[Kuu Kup; 0 S] [u; p] = [f_u; f_p]` exactly (`S` the
matrix-free operator), for every mask and every `adjust_p` / `approx_schur` setting: with `u = x2u x`, `p = x2p x`,
`S p = x2p f` and `Kuu u + Kup p = x2u f`. -/
theorem schur2_block_triangular (nt : Nat) (prm : Params) (A : CRS K) (pm : Array Bool) (hA : A.WF)
    (hn : A.nrows = pm.size) (hc : A.ncols = pm.size) (htype : prm.type = 2) (U Ps : Vec K → Vec K)
    (hU : ∀ r : Vec K, r.size = (cls pm false).length →
      (U r).size = (cls pm false).length ∧
      spmv 1 (init nt prm A pm).Kuu (U r) 0 (vclear (init nt prm A pm).nu) = r)
    (hP : ∀ r : Vec K, r.size = (cls pm true).length →
      (Ps r).size = (cls pm true).length ∧
      (init nt prm A pm).spmv U 1 (Ps r) 0 (vclear (init nt prm A pm).np) = r)
    (f : Vec K) :
    let S := init nt prm A pm
    ∃ x, S.apply U Ps f = some x ∧
      S.spmv U 1 (spmv 1 S.x2p x 0 (vclear S.np)) 0 (vclear S.np) = spmv 1 S.x2p f 0 (vclear S.np) ∧
      spmv 1 S.Kup (spmv 1 S.x2p x 0 (vclear S.np)) 1
          (spmv 1 S.Kuu (spmv 1 S.x2u x 0 (vclear S.nu)) 0 (vclear S.nu))
        = spmv 1 S.x2u f 0 (vclear S.nu) :=
  good_schur2 (init_good nt prm A pm hA hn hc) hA hn hc htype U Ps hU hP f

-- non-vacuity: the same system and inner solves with `type = 2`
example : ∃ x, (init 1 (C18Ex.prmT 2) C18Ex.A2 C18Ex.pm2).apply C18Ex.U2 C18Ex.P2 #[1, 2] = some x :=
  let ⟨x, hx, _⟩ := schur2_block_triangular 1 (C18Ex.prmT 2) C18Ex.A2 C18Ex.pm2 C18Ex.A2_ok.1 C18Ex.A2_ok.2.1
    C18Ex.A2_ok.2.2 rfl C18Ex.U2 C18Ex.P2 (C18Ex.hU2 2) (C18Ex.hP2 2) #[1, 2]
  ⟨x, hx⟩

/-- **the object is one linear operator for every coefficient pair**: for every mask, `adjust_p`, `approx_schur`, inner
solver `U` and ALL `α`, `β`, `x`, `y`, `spmv(α, x, β, y) = β y + α S x`, where `S x = spmv(1, x, 0, z)` is the operator that
`schur1_exact` / `schur2_block_triangular` (and the pressure solver's Krylov products) see — in particular the kept
`adjust_p = 1` correction `Ld` re-enters with the coefficient `α`. -/
theorem schur_operator_affine (nt : Nat) (prm : Params) (A : CRS K) (pm : Array Bool) (hA : A.WF)
    (hn : A.nrows = pm.size) (hc : A.ncols = pm.size) (U : Vec K → Vec K) (α β : K) (x y z : Vec K) :
    toV (cls pm true).length ((init nt prm A pm).spmv U α x β y)
      = β • toV (cls pm true).length y
        + α • toV (cls pm true).length ((init nt prm A pm).spmv U 1 x 0 z) :=
  init_spmv_affine nt prm A pm hA hn hc U α β x y z

/-- **the residual a pressure solver evaluates on the object** (`backend::residual`, i.e. `spmv` with `α = -1`, `β = 1`
on a copy of `f`) is `f - S x` for the same operator `S` -/
theorem schur_operator_residual (nt : Nat) (prm : Params) (A : CRS K) (pm : Array Bool) (hA : A.WF)
    (hn : A.nrows = pm.size) (hc : A.ncols = pm.size) (U : Vec K → Vec K) (f x z : Vec K)
    (hf : f.size = (cls pm true).length) :
    toV (cls pm true).length ((init nt prm A pm).residual U f x)
      = toV (cls pm true).length f - toV (cls pm true).length ((init nt prm A pm).spmv U 1 x 0 z) :=
  init_residual nt prm A pm hA hn hc U f x z hf

-- non-vacuity: `K = [2 1; 1 3]`, mask `[u, p]`, `adjust_p = 1` with the non-zero kept correction `Ld = (1/2)`
-- (`C18Ex.hLd`): `S = 5/2`, so `spmv(-1, (2), 1, (7)) = (2)` and `residual((7), S, (2)) = (2)`
example : toV (cls C18Ex.pm2 true).length ((init 1 (C18Ex.prmT 1) C18Ex.A2 C18Ex.pm2).spmv C18Ex.U2 (-1) #[2] 1 #[7])
    = (1 : ℚ) • toV (cls C18Ex.pm2 true).length #[7]
      + (-1 : ℚ) • toV (cls C18Ex.pm2 true).length ((init 1 (C18Ex.prmT 1) C18Ex.A2 C18Ex.pm2).spmv C18Ex.U2 1 #[2] 0 #[]) :=
  schur_operator_affine 1 (C18Ex.prmT 1) C18Ex.A2 C18Ex.pm2 C18Ex.A2_ok.1 C18Ex.A2_ok.2.1 C18Ex.A2_ok.2.2 C18Ex.U2 (-1) 1
    #[2] #[7] #[]
example : (init 1 (C18Ex.prmT 1) C18Ex.A2 C18Ex.pm2).residual C18Ex.U2 #[7] #[2] = #[2] := by decide +kernel
example : toV (cls C18Ex.pm2 true).length ((init 1 (C18Ex.prmT 1) C18Ex.A2 C18Ex.pm2).residual C18Ex.U2 #[7] #[2])
    = toV (cls C18Ex.pm2 true).length #[7]
      - toV (cls C18Ex.pm2 true).length ((init 1 (C18Ex.prmT 1) C18Ex.A2 C18Ex.pm2).spmv C18Ex.U2 1 #[2] 0 #[]) :=
  schur_operator_residual 1 (C18Ex.prmT 1) C18Ex.A2 C18Ex.pm2 C18Ex.A2_ok.1 C18Ex.A2_ok.2.1 C18Ex.A2_ok.2.2 C18Ex.U2
    #[7] #[2] #[] C18Ex.cls2.2

end schur

section deflation
open Amgcl.Deflation
variable {K : Type} [Field K] [LinearOrder K]

/-- **`E = Zᵀ A Z`**: the matrix accumulated by `init` (before inversion), entry `(k, j)` -/
theorem deflation_E (A : CRS K) (hA : A.WF) (Z : Array (Vec K)) (k j : Nat) (hk : k < Z.size) (hj : j < Z.size) :
    (mkE A Z).getD (k * Z.size + j) 0
      = ∑ i ∈ range A.nrows, (Z.getD k #[]).getD i 0 * ∑ c ∈ range A.ncols, A.get i c * (Z.getD j #[]).getD c 0 :=
  mkE_spec A hA Z k j hk hj

/-- **after `project` the residual is orthogonal to every deflation vector**, `Zᵀ (b - A x) = 0`, for every thread
count, every right-hand side and every incoming iterate, whenever `E = Zᵀ A Z` is non-singular (the exactness of
`detail::inverse` with partial pivoting is C16's `inverse_spec`, used here). -/
theorem deflation_projects [IsStrictOrderedRing K] (nt : Nat) (hnt : 0 < nt) (A : CRS K) (hA : A.WF) (n : Nat)
    (hn : A.nrows = n) (hc : A.ncols = n) (Z : Array (Vec K)) (hZ : ∀ j, j < Z.size → (Z.getD j #[]).size = n)
    (hnv : 0 < Z.size) (st : State K) (hst : init A Z = some st) (hdet : (matOf Z.size (mkE A Z)).det ≠ 0)
    (b x : Vec K) (hb : b.size = n) (hx : x.size = n) (k : Nat) (hk : k < Z.size) :
    ∑ l ∈ range n, (Z.getD k #[]).getD l 0 * (residual b A (project nt st b x)).getD l 0 = 0 := by
  obtain ⟨hstA, hstZ, hinv⟩ := init_right_inv A Z st hst hdet
  obtain ⟨sA, sZ, sE⟩ := st
  simp only at hstA hstZ hinv
  subst hstA hstZ
  exact project_orth nt hnt sA hA n hn hc sZ hZ hnv sE hinv b x hb hx k hk

-- non-vacuity: 1-D Laplacian on two points, one constant deflation vector (`E = (2)`, stored inverse `(1/2)`)
example : ∑ l ∈ range 2, (C18Ex.Zd.getD 0 #[]).getD l 0 *
    (residual #[1, 0] C18Ex.Ad (project 3 C18Ex.std #[1, 0] #[5, 7])).getD l 0 = 0 :=
  deflation_projects 3 (by decide) C18Ex.Ad C18Ex.Ad_ok.1 2 C18Ex.Ad_ok.2.1 C18Ex.Ad_ok.2.2 C18Ex.Zd C18Ex.Zd_ok
    (by decide) C18Ex.std C18Ex.init_d C18Ex.det_d #[1, 0] #[5, 7] rfl rfl 0 (by decide)

/-- **with an exact preconditioner the deflated solver (with `preonly`) returns the solution of the original system** -/
theorem deflation_exact_precond (nt : Nat) (hnt : 0 < nt) (A : CRS K) (hA : A.WF) (n : Nat) (hn : A.nrows = n)
    (hc : A.ncols = n) (Z : Array (Vec K)) (hZ : ∀ j, j < Z.size → (Z.getD j #[]).size = n) (hnv : 0 < Z.size)
    (st : State K) (hst : init A Z = some st) (Pf : Vec K → Vec K) (b x0 : Vec K) (hb : b.size = n)
    (hP : (Pf b).size = n ∧ spmv 1 A (Pf b) 0 (vclear n) = b) :
    spmv 1 A (solvePreonly nt st Pf b x0) 0 (vclear n) = b := by
  have hAZ : st.A = A ∧ st.Z = Z := by
    unfold init at hst
    simp only at hst
    split at hst
    · cases hst
    · simp only [Option.some.injEq] at hst
      subst hst; exact ⟨rfl, rfl⟩
  obtain ⟨sA, sZ, sE⟩ := st
  simp only at hAZ
  obtain ⟨h1, h2⟩ := hAZ
  subst h1 h2
  unfold solvePreonly Deflation.apply
  rw [project_fixed nt hnt sA n hn sZ hZ hnv sE b (Pf b) hP.1]
  · exact hP.2
  · intro l hl
    have hl' : l < sA.nrows := by omega
    have h1 := C07.residual_spec b sA (Pf b) hA l hl'
    have h2 := C07.spmv_spec 1 0 sA (Pf b) (vclear n) hA l hl'
    rw [hP.2] at h2
    rw [h1, h2]; ring

-- non-vacuity: the same Laplacian with the exact preconditioner `A⁻¹ = [2 1; 1 2] / 3`
example : spmv 1 C18Ex.Ad (solvePreonly 1 C18Ex.std C18Ex.Pd #[3, 0] #[9, 9]) 0 (vclear 2) = #[3, 0] :=
  deflation_exact_precond 1 (by decide) C18Ex.Ad C18Ex.Ad_ok.1 2 C18Ex.Ad_ok.2.1 C18Ex.Ad_ok.2.2 C18Ex.Zd C18Ex.Zd_ok
    (by decide) C18Ex.std C18Ex.init_d C18Ex.Pd #[3, 0] #[9, 9] rfl C18Ex.Pd_ok

end deflation

section cpr
open Amgcl.CPR
variable {K : Type} [Field K] [DecidableEq K]

/-- **CPR apply** is `x = S f + Scatter · P (Fpp (f - A S f))`: with `x₀ = S f` (the global preconditioner built from
`A`), `r_s = f - A x₀`, `r_p = Fpp r_s`, `x_p = P r_p`, entry `i` of the result is `x₀ᵢ + (Scatter x_p)ᵢ`. -/
theorem cpr_formula (st : CPR.State K) (mkS : CRS K → Vec K → Vec K) (Pf : Vec K → Vec K) (f : Vec K)
    (hSc : st.Scatter.WF) (i : Nat) (hi : i < (mkS st.AS f).size) :
    (st.apply mkS Pf f).getD i 0
      = (mkS st.AS f).getD i 0
        + ∑ jp ∈ range st.Scatter.ncols, st.Scatter.get i jp *
            (Pf (spmv 1 st.Fpp (residual f st.AS (mkS st.AS f)) 0 (vclear st.np))).getD jp 0 := by
  unfold CPR.State.apply spmvAddInto
  simp only
  rw [getD_ofFn_lt _ _ _ hi]
  by_cases hr : i < st.Scatter.nrows
  · rw [if_pos hr, rowDot_eq_sum _ _ st.Scatter.ncols (CRS.WF.row_lt hSc i)]
    unfold CRS.get
    ring
  · rw [if_neg hr]
    have : st.Scatter.row i = [] := CRS.row_ge _ _ (by omega)
    unfold CRS.get
    rw [this]
    simp

-- non-vacuity: the scatter matrix of the 4×4 example (`block_size = 2`) is well formed
example : (initScalar C18Ex.Ac 2 0).Scatter.WF := by decide +kernel

/-- **the pressure matrix is the weighting of `A` by the weights stored in `Fpp`** (scalar input, `block_size = B`,
rows with strictly increasing columns, `N = q·B` active rows): `App(ip, jp) = Σ_{i<B} w_i · A(ip·B + i, jp·B)`,
where `w = Fpp(ip, ip·B .. ip·B + B)`. -/
theorem cpr_pressure_matrix (A : CRS K) (hs : A.sortedb = true) (B act q : Nat) (hB : 0 < B)
    (hN : (if act = 0 then A.nrows else act) = q * B) (ip jp : Nat) (hip : ip < q) (hjp : jp < q) :
    let st := initScalar A B act
    st.App.get ip jp = ∑ i ∈ range B, st.Fpp.get ip (ip * B + i) * A.get (ip * B + i) (jp * B) := by
  intro st
  have hnp : (if act = 0 then A.nrows else act) / B = q := by rw [hN]; exact Nat.mul_div_cancel _ hB
  have hip' : ip < (if act = 0 then A.nrows else act) / B := by rw [hnp]; exact hip
  set w := weights B (passRow A B (q * B) ip true) with hw
  -- the App row
  have hApp : st.App.row ip = appRow A B (q * B) ip w := by
    show (initScalar A B act).App.row ip = _
    unfold initScalar CRS.row
    simp only
    rw [getD_ofFn_lt _ _ _ hip']
    simp only [hN]
    rfl
  have hFget : ∀ i, i < B → st.Fpp.get ip (ip * B + i) = w.getD i 0 :=
    fun i hi => initScalar_Fpp_get A B act q hB hN ip hip i hi
  unfold CRS.get
  rw [hApp]
  unfold appRow
  have hsr := blockRows_sorted A hs B ip
  have := appLoop_get B (q * B) hB q rfl w (blockRows A B ip) hsr jp hjp (remaining (blockRows A B ip) + 1) 0 []
    (by rw [map_geC_zero]; omega)
  rw [map_geC_zero] at this
  rw [this]
  simp only [rowGet_nil', zero_add, geC_zero]
  -- the list sum over the B iterators as a sum over `range B`
  have hz : (blockRows A B ip).zipIdx = (List.range B).map (fun i => (A.row (ip * B + i), i)) := by
    unfold blockRows
    apply List.ext_getElem
    · simp
    · intro k h1 h2
      simp
  rw [hz, List.map_map]
  have hsum : ∀ (g : Nat → K) (m : Nat), ((List.range m).map g).sum = ∑ i ∈ range m, g i := by
    intro g m
    induction m with
    | zero => simp
    | succ k ih => rw [List.range_succ, List.map_append, List.sum_append, ih, Finset.sum_range_succ]; simp
  rw [hsum]
  apply Finset.sum_congr rfl
  intro i hi
  have hi' := Finset.mem_range.1 hi
  show w.getD i 0 * rowGet (A.row (ip * B + i)) (jp * B) = _
  have hg := hFget i hi'
  unfold CRS.get at hg
  rw [hg]

-- non-vacuity: a 4×4 system with sorted rows, `block_size = 2`, all rows active (`q = 2`)
example : (initScalar C18Ex.Ac 2 0).App.get 0 1
    = ∑ i ∈ range 2, (initScalar C18Ex.Ac 2 0).Fpp.get 0 (0 * 2 + i) * C18Ex.Ac.get (0 * 2 + i) (1 * 2) :=
  cpr_pressure_matrix C18Ex.Ac C18Ex.Ac_ok.1 2 0 2 (by decide) C18Ex.Ac_ok.2 0 1 (by decide) (by decide)

/-- **the weights are the first row of the inverse diagonal block**: whenever the constructor ran without the
`uninit` / `zero_pivot` outcome, `Σ_i w_i · D(i, c) = δ_{c,0}` for the diagonal block `D = A[ip·B.., ip·B..]`, i.e.
`w = e₀ᵀ D⁻¹`; with `cpr_pressure_matrix`: `App` is the first-row-of-inverse-diagonal-block weighting of `A`.
(`cpr::invert`, an LU factorisation without pivoting, is proved correct for every block size.) -/
theorem cpr_weights (A : CRS K) (hs : A.sortedb = true) (B act q : Nat) (hB : 0 < B)
    (hN : (if act = 0 then A.nrows else act) = q * B)
    (hu : (initScalar A B act).uninit = false) (hz : (initScalar A B act).zeroPivot = false)
    (ip : Nat) (hip : ip < q) (c : Nat) (hc : c < B) :
    ∑ i ∈ range B, (initScalar A B act).Fpp.get ip (ip * B + i) * A.get (ip * B + i) (ip * B + c)
      = if c = 0 then 1 else 0 := by
  obtain ⟨y, hy⟩ := initScalar_ok_isSome A B act q hB hN hu hz ip hip
  obtain ⟨_, hyeq⟩ := passRow_weights A hs B (q * B) ip q hB rfl hip y hy
  rw [← hyeq c hc]
  apply Finset.sum_congr rfl
  intro i hi
  rw [initScalar_Fpp_get A B act q hB hN ip hip i (Finset.mem_range.1 hi)]
  unfold weights
  rw [hy]; rfl

-- non-vacuity: the 4×4 example has a non-singular leading 2×2 block `[4 1; 1 3]`
example : ∑ i ∈ range 2, (initScalar C18Ex.Ac 2 0).Fpp.get 0 (0 * 2 + i) * C18Ex.Ac.get (0 * 2 + i) (0 * 2 + 1) = 0 :=
  cpr_weights C18Ex.Ac C18Ex.Ac_ok.1 2 0 2 (by decide) C18Ex.Ac_ok.2 C18Ex.Ac_flags.1 C18Ex.Ac_flags.2 0 (by decide) 1
    (by decide)

/-- **a partial update with an unchanged matrix leaves the object — hence its action — unchanged**, with or without
`update_transfer_ops` (scalar input, rows with strictly increasing columns) -/
theorem cpr_partial_update_noop (A : CRS K) (hs : A.sortedb = true) (B act : Nat) (hB : 0 < B) (upd : Bool)
    (mkS : CRS K → Vec K → Vec K) (Pf : Vec K → Vec K) (f : Vec K) :
    partialUpdateScalar (initScalar A B act) A B act upd = initScalar A B act ∧
    (partialUpdateScalar (initScalar A B act) A B act upd).apply mkS Pf f = (initScalar A B act).apply mkS Pf f := by
  have h := partialUpdateScalar_same A hs B act hB upd
  exact ⟨h, by rw [h]⟩

/-- the same for `B × B` block input -/
theorem cpr_partial_update_noop_block (Ab : CRS (Blk K)) (hs : Ab.sortedb = true) (B act : Nat) (hB : 0 < B)
    (upd : Bool) (mkS : CRS K → Vec K → Vec K) (Pf : Vec K → Vec K) (f : Vec K) :
    partialUpdateBlock (initBlock Ab B act) Ab B act upd = initBlock Ab B act ∧
    (partialUpdateBlock (initBlock Ab B act) Ab B act upd).apply mkS Pf f = (initBlock Ab B act).apply mkS Pf f := by
  have h := partialUpdateBlock_same Ab hs B act hB upd
  exact ⟨h, by rw [h]⟩

-- non-vacuity: the sorted 4×4 example above (`Ac`), resp. the 3×3 block example below (`Abk`)
example : partialUpdateScalar (initScalar C18Ex.Ac 2 0) C18Ex.Ac 2 0 true = initScalar C18Ex.Ac 2 0 :=
  (cpr_partial_update_noop C18Ex.Ac C18Ex.Ac_ok.1 2 0 (by decide) true (fun _ f => f) (fun r => r) #[]).1

/-- **scalar input with `block_size = B` and `B × B` block input are treated identically**: for a block matrix with
sorted block rows, the block constructor (fixed code 912e27f) and the scalar constructor on the expanded matrix
(every stored block written out as `B × B` scalar entries, `active_rows` scaled by `B`) produce the same `Fpp`, the
same pressure matrix `App` (entry by entry, in the same stored order), the same `Scatter` rows, the same outcome
flags — hence the same action, for every `active_rows` setting. -/
theorem cpr_scalar_eq_block (Ab : CRS (Blk K)) (hs : Ab.sortedb = true) (B act : Nat) (hB : 0 < B)
    (hact : act ≤ Ab.nrows) :
    let ss := initScalar (expand B Ab) B (act * B)
    let sb := initBlock Ab B act
    ss.np = sb.np ∧ ss.Fpp = sb.Fpp ∧ ss.App = sb.App ∧ ss.AS = sb.AS ∧
    ss.uninit = sb.uninit ∧ ss.zeroPivot = sb.zeroPivot ∧ (∀ i, ss.Scatter.row i = sb.Scatter.row i) ∧
    ∀ (mkS : CRS K → Vec K → Vec K) (Pf : Vec K → Vec K) (f : Vec K), ss.apply mkS Pf f = sb.apply mkS Pf f :=
  initScalar_expand Ab hs B act hB hact

-- non-vacuity: a 3×3 block matrix of 2×2 blocks with sorted block rows, the last block row inactive
example : C18Ex.Abk.sortedb = true ∧ 2 ≤ C18Ex.Abk.nrows := C18Ex.Abk_ok
example : (initScalar (expand 2 C18Ex.Abk) 2 (2 * 2)).App = (initBlock C18Ex.Abk 2 2).App :=
  (cpr_scalar_eq_block C18Ex.Abk C18Ex.Abk_ok.1 2 2 (by decide) C18Ex.Abk_ok.2).2.2.1

/-- **the two passes of the `cpr` constructor agree on the row widths of `App`**: `first_scalar_pass(K, true)` counts the
entries of every `App` row (`App->ptr`), the second pass of `init` then writes that many entries — for EVERY scalar input
(unsorted rows, duplicates, any `block_size`, any `active_rows`), provided no diagonal block hit a zero pivot (the
`assert` in `invert`).  So the second pass neither overruns the arrays sized by the first pass nor leaves a slot
unwritten. -/
theorem cpr_app_widths_consistent (A : CRS K) (B act : Nat) (hz : (initScalar A B act).zeroPivot = false) :
    (initScalar A B act).appWidths =
      (List.range (initScalar A B act).np).map (fun ip => ((initScalar A B act).App.row ip).length) := by
  simp only [initScalar] at hz ⊢
  apply List.map_congr_left
  intro ip hip
  have hlt := List.mem_range.mp hip
  have hz' : (passRow A B (if act = 0 then A.nrows else act) ip true).zeroPivot = false := by
    rw [List.any_eq_false] at hz
    simpa using hz ip hip
  rw [passRow_cnt_eq_appRow_length A B _ ip
    (weights B (passRow A B (if act = 0 then A.nrows else act) ip true)) hz']
  simp [CRS.row, Array.getD, hlt]

example : (initScalar (expand 2 C18Ex.Abk) 2 (2 * 2)).zeroPivot = false ∧
    (initScalar (expand 2 C18Ex.Abk) 2 (2 * 2)).appWidths ≠ [] := by decide +kernel

end cpr

end Amgcl.C18
