import Amgcl.Model.Schur
import Amgcl.Model.CPR
import Amgcl.Model.Deflation
namespace Amgcl.C18
end Amgcl.C18
