import Amgcl.Model.Definedness
import Amgcl.Properties.C03
import Amgcl.Properties.C08b
/-!
# C10 — outputs are a function of the inputs only; no memory errors on valid input

What a theorem can carry here is **definedness** (no result depends on memory the code never wrote) and the
**degenerate-input decision logic**; memory safety proper (bounds, lifetime, leaks) is a run-time fact that the
model cannot exhibit — it is explored by harness/h_pipeline.cpp (allocation poisoning with four fill patterns, two
runs per process, ASan + UBSan + LeakSanitizer on every harness of every property) and reported as such.

* `connect_defined` — after the repair (commit 886ffa9) every strength flag read by the transposition loop of
  `ruge_stuben::connect` has been written, for ALL matrices and parameters; `connect_unfixed_counterexample` — the
  code as found was not: the 3×3 matrix `[[4,-1,-1],[1,4,1],[1,1,4]]` reads six unwritten cells.
* `product_cells_all_written`, `sum_cells_all_written` — the SpGEMM / sum kernels allocate `ptr[n]` cells with
  `set_nonzeros(n)` (uninitialised) and fill them row by row: the allocated row segments are exactly the rows
  written (C08 `*_widths_consistent`), so no cell is left unwritten and none is written out of its segment.
* `diagonal_always_defined` — `backend::diagonal` allocates an uninitialised vector and (fix baae926) writes every entry;
  a missing diagonal reads as zero / identity (the relaxation models still treat a missing diagonal as outside their domain).
* degenerate inputs: `single_level_when_small` (a problem below `coarse_enough` is one level, never an empty
  hierarchy); the general last-level decision table is `C03.build_last_level`.
-/
namespace Amgcl.C10
open Amgcl Amgcl.Defined Amgcl.Amg

section connect
variable {K : Type} [Mul K] [Neg K] [Zero K] [LT K] [DecidableLT K]

/-- repaired `connect`: no read of an unwritten strength flag, whatever the matrix and the thresholds -/
theorem connect_defined (epsStrong eps : K) (A : CRS K) : connectReadsDefined true epsStrong eps A = true := by
  unfold connectReadsDefined connectVals
  simp only [List.all_eq_true, List.mem_map, List.mem_range]
  rintro r ⟨i, _, rfl⟩ o ho
  unfold connectRow at ho
  simp only at ho
  split at ho
  · simp only [List.mem_map] at ho; obtain ⟨_, _, rfl⟩ := ho; rfl
  · simp only [List.mem_map] at ho; obtain ⟨_, _, rfl⟩ := ho; rfl

/-- the code as found (before 886ffa9) reads unwritten cells on a small valid input -/
theorem connect_unfixed_counterexample :
    connectReadsDefined false (1 / 4 : Rat) (1 / 1000000) ⟨3, #[[(0, 4), (1, -1), (2, -1)], [(0, 1), (1, 4), (2, 1)], [(0, 1), (1, 1), (2, 4)]]⟩ = false := by
  decide +kernel

end connect

section kernels
variable {K : Type} [Semiring K]

/-- every cell of the row segment that the first pass of `spgemm_saad` allocates is written by the second pass, and
nothing else is: segment length = number of entries produced -/
theorem product_cells_all_written (A B : CRS K) (hB : B.WF) (sort : Bool) (i : Nat) (hi : i < A.nrows) :
    (saadWidths A B).getD i 0 = ((spgemmSaad A B sort).row i).length :=
  C08.saad_widths_consistent A B hB sort i hi

theorem sum_cells_all_written (α : K) (A : CRS K) (β : K) (B : CRS K) (sort : Bool) (hA : A.WF) (hB : B.WF)
    (hc : B.ncols = A.ncols) :
    sumWidths A B = (sum α A β B sort).rows.toList.map List.length :=
  (C08b.sum_widths_consistent α A β B sort hA hB hc).1

/-- `backend::diagonal` allocates an uninitialised vector (`numa_vector(n, false)`) and — since fix baae926 — writes
EVERY entry: a row without a stored diagonal entry gets `0` (the identity for the inverted diagonal) instead of heap
garbage.  (As found, entry `i` was written iff row `i` stored a diagonal entry.) -/
theorem diagonal_always_defined {K : Type} [Zero K] [One K] [Inv K] [DecidableEq K] (A : CRS K) (invert : Bool)
    (i : Nat) (hi : i < A.nrows) :
    (diagonal A invert).getD i none ≠ none ∧
    (i ∉ (A.row i).map (·.1) → (diagonal A invert).getD i none = some (if invert then 1 else 0)) :=
  ⟨K2.diagonal_ne_none A invert i hi, (C08b.diagonal_first_entry A invert i hi).1⟩

end kernels

section degenerate
set_option linter.unusedSectionVars false
variable {K S : Type} [Add K] [Mul K] [Zero K] [One K]

/-- a problem with at most `coarse_enough` unknowns is a single level handled by the direct solver
(`direct_coarse`) or the smoother — never an empty hierarchy, never a coarsening step -/
theorem single_level_when_small (prm : Params) (pol : Policy K) (sm : Relax.Smoother K S) (ok : CRS K → Bool)
    (A : CRS K) (ls : List (Level K S)) (hsmall : A.nrows ≤ prm.coarse_enough)
    (h : build prm pol sm ok A = .ok ls) : ls.length = 1 := by
  unfold build doInit at h
  by_cases hsq : (sortRows A).nrows ≠ (sortRows A).ncols
  · rw [if_pos hsq] at h; cases h
  rw [if_neg hsq] at h
  have hn : ¬ (sortRows A).nrows > prm.coarse_enough := by rw [sortRows_nrows]; omega
  have hloop : initLoop prm pol sm ((sortRows A).nrows + 2) [] (sortRows A) = .ok ([], some (sortRows A)) := by
    unfold initLoop; rw [if_neg hn]
  rw [hloop] at h
  simp only [hn, if_false] at h
  by_cases hdc : prm.direct_coarse
  · simp only [hdc, if_true] at h
    by_cases hok : ok (sortRows A)
    · simp [hok] at h; rw [← h]; rfl
    · simp [hok] at h
  · simp only [hdc] at h
    cases hmk : mkLevel sm (sortRows A) with
    | error e => rw [hmk] at h; simp at h
    | ok lv => rw [hmk] at h; simp at h; rw [← h]; rfl

end degenerate

end Amgcl.C10
